(* C11 — export followed by import with SIMPLE MULTIPLEXERS: buses of RoundTripEnum's fragment whose
   messages may hold any number of multiplexer signals at top level (one: the importer's single-multiplexer path;
   several: every child gets an SG_MUL_VAL_ line and the importer's several-multiplexer path is proved through the
   restriction of the message to one multiplexer at a time) whose children are standard or enum signals, each
   child in one group (plain `m<k>`), in several groups or fixed (SG_MUL_VAL_ ranges written by the exporter
   and expanded by the importer); standard and enum signals beside the multiplexer; descriptions everywhere.
   No attributes.  The exporter writes a
   multiplexer's children in (group, position) order - comments and value descriptions follow that order -
   and the importer re-sorts all signals of a message by start bit, so the import side is proved for ANY
   order of the signals (permutation-invariant), and the projections are compared as permutations. *)
From Coq Require Import String Ascii ZArith List Bool Lia Permutation.
From Coq Require Import ZifyBool.
From Acme.C10 Require Import DbcDoc BusModel Import Export Bits.
From Acme.C10 Require Proofs ProofsEnum ProofsLayout ProofsFaithful ProofsIds.
From Acme.C11 Require Import Strings Proofs RoundTrip RoundTripEnum.
Import ListNotations.
Open Scope Z_scope.

(* ---------------- the fragment ---------------- *)
Definition is_topb (s : signal) : bool := match s_parent s with None => true | Some _ => false end.
Definition is_muxb (s : signal) : bool := match s_kind s with KMux => true | _ => false end.

(* the groups of a multiplexed child: none listed = fixed (member of every group), or a strictly ascending list of
   group ids below the group count (it may name every group: the importer then brings the signal back as fixed
   when the list covers the imported group count 2^width - the membership is the same set) *)
Definition groups_ok (gc : Z) (gs : list Z) : Prop :=
  (gs = [] /\ 1 <= gc) \/ (gs <> [] /\ ascending (-1) gs /\ (forall g, In g gs -> g < gc)).
Definition mem_of (gc : Z) (c : signal) : list Z := match s_groups c with [] => zrange 0 (Z.to_nat gc) | g => g end.

(* a multiplexed child: a standard or enum signal *)
Definition child_ok (es : list enum_def) (mx : signal) (c : signal) : Prop :=
  s_kind c <> KMux /\ s_parent c = Some (s_id mx) /\ groups_ok (s_gcount mx) (s_groups c) /\
  s_startval c = fl_zero /\ s_sendtype c = 0 /\ s_attrs c = [] /\
  (s_kind c = KStandard -> 0 < s_size c < 2 ^ 32) /\ 0 <= s_rel c /\ s_rel c + sig_size es c <= s_gsize mx.
Definition grp (c : signal) : Z := match s_groups c with g :: _ => g | [] => 0 end.
(* what the group walk needs of a child *)
Definition gok (mx c : signal) : Prop := s_kind c <> KMux /\ groups_ok (s_gcount mx) (s_groups c).
Lemma child_gok : forall es mx c, child_ok es mx c -> gok mx c.
Proof. intros es mx c [H1 [_ [H3 _]]]. split; assumption. Qed.

(* a top-level signal: as in RoundTripEnum, or the multiplexer *)
Definition top_ok (es : list enum_def) (s : signal) : Prop :=
  s_parent s = None /\ s_groups s = [] /\ s_startval s = fl_zero /\ s_sendtype s = 0 /\ s_attrs s = [] /\ 0 <= s_rel s /\
  match s_kind s with
  | KStandard => 0 < s_size s < 2 ^ 32
  | KEnum => True
  | KMux => 1 <= s_gcount s <= 2 ^ 32 /\ 1 <= s_gsize s
  end.

Definition kids_of (sigs : list signal) (mx : signal) : list signal :=
  filter (fun c => match s_parent c with Some q => q =? s_id mx | None => false end) sigs.

Definition msigs_ok (es : list enum_def) (sigs : list signal) : Prop :=
  NoDup (map s_id sigs) /\ NoDup (map (fun s => clear (s_name s)) sigs) /\
  Forall (top_ok es) (filter is_topb sigs) /\
  (forall a, In a sigs -> is_muxb a = true -> is_topb a = true) /\
  (forall c, In c sigs -> is_topb c = false -> exists mx, In mx sigs /\ is_topb mx = true /\ is_muxb mx = true /\ child_ok es mx c) /\
  (forall c c', In c sigs -> In c' sigs -> is_topb c = false -> is_topb c' = false -> c <> c' -> s_parent c = s_parent c' ->
     (exists g, 0 <= g /\ in_group c g = true /\ in_group c' g = true) ->
     s_rel c + sig_size es c <= s_rel c' \/ s_rel c' + sig_size es c' <= s_rel c).

(* at most one multiplexer / more than one top-level multiplexer *)
Definition one_mux (sigs : list signal) : Prop :=
  forall a b, In a sigs -> In b sigs -> is_muxb a = true -> is_muxb b = true -> a = b.
Definition many_of (sigs : list signal) : bool :=
  Nat.ltb 1 (length (filter (fun s => match s_kind s with KMux => true | _ => false end) (filter is_topb sigs))).

Definition mmessage (es : list enum_def) (node_names : list string) (m : message) : Prop :=
  m_attrs m = [] /\ m_cycle m = 0 /\ m_delay m = 0 /\ m_startdelay m = 0 /\
  m_sendtype m = 0 /\ 0 <= m_canid m < 2 ^ 32 /\ 0 <= m_size m <= 8 /\
  msigs_ok es (m_signals m) /\ layout_e es 0 (m_size m * 8) (filter is_topb (m_signals m)) /\
  In (m_sender m) node_names /\ incl (m_receivers m) node_names /\
  NoDup (map clear (m_receivers m)) /\ (m_signals m = [] -> m_receivers m = []).

Definition mbus (b : bus) : Prop :=
  b_attrs b = [] /\
  Forall (fun n => n_attrs n = []) (b_nodes b) /\
  NoDup (map (fun n => clear (n_name n)) (b_nodes b)) /\
  ~ In dummy_node (map (fun n => clear (n_name n)) (b_nodes b)) /\
  (length (b_nodes b) <= 1024)%nat /\
  Forall (mmessage (b_enums b) (map n_name (b_nodes b))) (b_messages b) /\
  NoDup (map m_canid (b_messages b)) /\
  NoDup (map (fun m => (clear (m_sender m), clear (m_name m))) (b_messages b)) /\
  flat_map (fun n => filter (fun m => String.eqb (m_sender m) (n_name n)) (b_messages b)) (b_nodes b) = b_messages b /\
  Forall enum_wf (b_enums b).

(* ---------------- facts about group lists ---------------- *)
Lemma ascending_lb : forall l prev x, ascending prev l -> In x l -> prev < x.
Proof.
  induction l as [|y r IH]; intros prev x H Hin; [destruct Hin|]. cbn in H. destruct H as [H1 H2].
  destruct Hin as [<-|Hin]; [assumption|]. specialize (IH y x H2 Hin). lia.
Qed.
Lemma ascending_nodup : forall l prev, ascending prev l -> NoDup l.
Proof.
  induction l as [|y r IH]; intros prev H; [constructor|]. cbn in H. destruct H as [H1 H2]. constructor; [|eapply IH; eauto].
  intros Hin. pose proof (ascending_lb r y y H2 Hin). lia.
Qed.
Lemma in_zrange : forall n from x, In x (zrange from n) <-> from <= x < from + Z.of_nat n.
Proof.
  induction n as [|n IH]; intros from x; cbn [zrange In]; [lia|]. rewrite IH. lia.
Qed.
Lemma mem_z_in : forall z l, mem_z z l = true <-> In z l.
Proof.
  intros z l. unfold mem_z. rewrite existsb_exists. split.
  - intros [x [Hx He]]. apply Z.eqb_eq in He. subst. assumption.
  - intros H. exists z. split; [assumption|apply Z.eqb_refl].
Qed.
(* the ids of [from, from+n) that lie in an ascending list are that list's elements in the range *)
Lemma filter_zrange_ascending : forall n from gs, ascending (from - 1) gs -> (forall g, In g gs -> g < from + Z.of_nat n) ->
  filter (fun id => mem_z id gs) (zrange from n) = gs.
Proof.
  induction n as [|n IH]; intros from gs Ha Hb; cbn [zrange filter].
  - destruct gs as [|g r]; [reflexivity|]. exfalso. cbn in Ha. destruct Ha as [H1 _]. specialize (Hb g (or_introl eq_refl)). lia.
  - destruct gs as [|g r]; [cbn [mem_z existsb]; apply (IH (from + 1) []); [exact I|intros g []]|].
    cbn in Ha. destruct Ha as [H1 H2].
    destruct (Z.eq_dec g from) as [->|Hne].
    + replace (mem_z from (from :: r)) with true by (symmetry; apply mem_z_in; left; reflexivity). f_equal.
      rewrite (filter_ext_in _ (fun id => mem_z id r)).
      * apply (IH (from + 1) r); [replace (from + 1 - 1) with from by lia; assumption|intros x Hx; specialize (Hb x (or_intror Hx)); lia].
      * intros id Hid. apply in_zrange in Hid. unfold mem_z. cbn [existsb]. replace (id =? from) with false by lia. reflexivity.
    + replace (mem_z from (g :: r)) with false.
      2:{ symmetry. destruct (mem_z from (g :: r)) eqn:E; [|reflexivity]. apply mem_z_in in E. destruct E as [E|E]; [lia|].
          pose proof (ascending_lb r g from H2 E). lia. }
      apply (IH (from + 1) (g :: r)); [cbn; split; [lia|assumption]|intros x Hx; specialize (Hb x Hx); lia].
Qed.

Lemma ascending_count : forall l y m, ascending y l -> (forall g, In g l -> g < m) -> l = [] \/ y + Z.of_nat (length l) < m.
Proof.
  induction l as [|x r IH]; intros y m Ha Hb; [left; reflexivity|right]. cbn [ascending] in Ha. destruct Ha as [H1 H2].
  pose proof (Hb x (or_introl eq_refl)) as Hx.
  destruct (IH x m H2 (fun g Hg => Hb g (or_intror Hg))) as [->|Hr]; cbn [length]; lia.
Qed.
Lemma ascending_full : forall l a, ascending (a - 1) l -> (forall g, In g l -> g < a + Z.of_nat (length l)) -> l = zrange a (length l).
Proof.
  induction l as [|x r IH]; intros a Ha Hb; [reflexivity|]. cbn [ascending] in Ha. destruct Ha as [H1 H2].
  assert (Hxa : x = a).
  { destruct (ascending_count r x (a + Z.of_nat (length (x :: r))) H2 (fun g Hg => Hb g (or_intror Hg))) as [->|Hc]; cbn [length] in *.
    - pose proof (Hb x (or_introl eq_refl)). cbn [length] in *. lia.
    - lia. }
  subst x. cbn [zrange length]. f_equal. apply IH.
  - replace (a + 1 - 1) with a by lia. exact H2.
  - intros g Hg. specialize (Hb g (or_intror Hg)). cbn [length] in Hb. lia.
Qed.

Section GroupFacts.
  Variables (mx c : signal).
  Hypothesis Hok : gok mx c.
  Hypothesis Hgc : 1 <= s_gcount mx.
  Let gc := s_gcount mx.

  Lemma mem_of_nonempty : mem_of gc c <> [].
  Proof.
    destruct Hok as [_ [[Hg H2]|[Hne _]]]; unfold mem_of.
    - rewrite Hg. fold gc in H2. destruct (Z.to_nat gc) eqn:E; [lia|cbn; discriminate].
    - destruct (s_groups c); [contradiction|discriminate].
  Qed.
  Lemma mem_of_ascending : ascending (-1) (mem_of gc c) /\ (forall g, In g (mem_of gc c) -> g < gc).
  Proof.
    destruct Hok as [_ [[Hg H2]|[Hne [Ha Hb]]]]; unfold mem_of.
    - rewrite Hg. split.
      + clear. generalize (Z.to_nat gc). intros n. assert (G : forall m from prev, prev < from -> ascending prev (zrange from m)).
        { induction m as [|m IH]; intros from prev Hp; cbn; [exact I|]. split; [assumption|apply IH; lia]. }
        apply G. lia.
      + intros g Hg'. apply in_zrange in Hg'. fold gc in H2. lia.
    - destruct (s_groups c) as [|g r] eqn:E; [contradiction|]. split; assumption.
  Qed.
  Lemma in_group_mem : forall id, 0 <= id < gc -> (in_group c id = true <-> In id (mem_of gc c)).
  Proof.
    intros id Hid. unfold in_group, mem_of. destruct (s_groups c) as [|g r]; [|apply mem_z_in].
    split; [intros _; apply in_zrange; lia|reflexivity].
  Qed.
  Lemma grp_head : exists r, mem_of gc c = grp c :: r.
  Proof.
    pose proof mem_of_nonempty as Hn. unfold mem_of, grp in *. destruct (s_groups c) as [|g r] eqn:E.
    - destruct (Z.to_nat gc) eqn:En; [contradiction|]. cbn. eauto.
    - eauto.
  Qed.
  Lemma grp_range : 0 <= grp c < gc.
  Proof.
    destruct grp_head as [r Hr]. destruct mem_of_ascending as [Ha Hb]. rewrite Hr in Ha, Hb. cbn in Ha. destruct Ha as [H1 _].
    specialize (Hb (grp c) (or_introl eq_refl)). lia.
  Qed.
  Lemma in_group_grp_true : in_group c (grp c) = true.
  Proof. apply in_group_mem; [apply grp_range|]. destruct grp_head as [r ->]. left. reflexivity. Qed.
  Lemma in_group_below : forall id, 0 <= id < grp c -> in_group c id = false.
  Proof.
    intros id Hid. destruct (in_group c id) eqn:E; [|reflexivity]. exfalso.
    pose proof grp_range. apply in_group_mem in E; [|lia]. destruct grp_head as [r Hr]. rewrite Hr in E.
    destruct mem_of_ascending as [Ha _]. rewrite Hr in Ha. cbn in Ha. destruct Ha as [_ Ha].
    destruct E as [E|E]; [lia|]. pose proof (ascending_lb r (grp c) id Ha E). lia.
  Qed.
  (* the groups visited among the ids below j *)
  Definition vis (j : Z) : list Z := filter (fun id => in_group c id) (zrange 0 (Z.to_nat j)).
  Lemma vis_nil : forall j, 0 <= j <= gc -> (vis j = [] <-> j <= grp c).
  Proof.
    intros j Hj. unfold vis. split.
    - intros H. destruct (Z_le_gt_dec j (grp c)) as [|Hgt]; [assumption|]. exfalso.
      assert (Hin : In (grp c) (filter (fun id => in_group c id) (zrange 0 (Z.to_nat j)))).
      { apply filter_In. split; [apply in_zrange; pose proof grp_range; lia|apply in_group_grp_true]. }
      rewrite H in Hin. destruct Hin.
    - intros H. apply Proofs.filter_nil. intros id Hid. apply in_zrange in Hid. apply in_group_below. lia.
  Qed.
  Lemma vis_succ : forall j, 0 <= j -> vis (j + 1) = vis j ++ (if in_group c j then [j] else []).
  Proof.
    intros j Hj. unfold vis. replace (Z.to_nat (j + 1)) with (S (Z.to_nat j)) by lia.
    rewrite zrange_snoc, filter_app. cbn [filter]. replace (0 + Z.of_nat (Z.to_nat j)) with j by lia. destruct (in_group c j); reflexivity.
  Qed.
  Lemma vis_all : vis gc = mem_of gc c.
  Proof.
    unfold vis. destruct mem_of_ascending as [Ha Hb].
    rewrite (filter_ext_in _ (fun id => mem_z id (mem_of gc c))).
    - apply (filter_zrange_ascending _ 0); [exact Ha|intros g Hg; specialize (Hb g Hg); lia].
    - intros id Hid. apply in_zrange in Hid. destruct (in_group c id) eqn:E.
      + symmetry. apply mem_z_in. apply in_group_mem; [lia|assumption].
      + symmetry. destruct (mem_z id (mem_of gc c)) eqn:E2; [|reflexivity]. apply mem_z_in in E2. apply in_group_mem in E2; [congruence|lia].
  Qed.
End GroupFacts.

(* the membership of the imported child is the membership of the original *)
Lemma igrp_membership : forall mx c w, gok mx c -> 1 <= s_gcount mx -> s_gcount mx <= 2 ^ w ->
  match (if Z.of_nat (length (mem_of (s_gcount mx) c)) =? 2 ^ w then [] else mem_of (s_gcount mx) c) with
  | [] => zrange 0 (Z.to_nat (2 ^ w))
  | z :: l => z :: l
  end = mem_of (s_gcount mx) c.
Proof.
  intros mx c w Hok Hg1 Hgw.
  destruct (mem_of_ascending mx c Hok) as [Ma Mb]. pose proof (mem_of_nonempty mx c Hok) as Mn.
  destruct (Z.of_nat (length (mem_of (s_gcount mx) c)) =? 2 ^ w) eqn:El.
  - apply Z.eqb_eq in El.
    assert (E : mem_of (s_gcount mx) c = zrange 0 (length (mem_of (s_gcount mx) c))).
    { apply ascending_full; [exact Ma|]. intros g Hg. specialize (Mb g Hg). lia. }
    rewrite E. f_equal. lia.
  - destruct (mem_of (s_gcount mx) c); [contradiction|reflexivity].
Qed.


(* ---------------- what the exporter writes for a multiplexer ---------------- *)
(* the accumulator with its SG_MUL_VAL_ list *)
Definition with_ext (xs : list dextmux) (acc : eacc) : eacc :=
  mkeacc (ea_comments acc) (ea_attrs acc) (ea_attrdefs acc) (ea_attrvals acc) (ea_valencs acc) xs (ea_messages acc) (ea_sigs acc) (ea_names acc) (ea_enums acc).
Definition cacx (cms : list dcomment) (vs : list dvalenc) (xs : list dextmux) (msgs : list dmessage) (sigs : list dsignal) (L : list Z) : eacc :=
  mkeacc cms [] [] [] vs xs msgs sigs [] L.

Lemma export_assignment_ext : forall k n mi sg a xs acc,
  export_assignment k n mi sg a (with_ext xs acc) = with_ext xs (export_assignment k n mi sg a acc).
Proof. intros. unfold export_assignment, with_ext. cbn [ea_names]. destruct (export_attribute k _ (aa_def a)). reflexivity. Qed.
Lemma fold_assignment_ext : forall k n mi sg l xs acc,
  fold_left (fun a x => export_assignment k n mi sg x a) l (with_ext xs acc) = with_ext xs (fold_left (fun a x => export_assignment k n mi sg x a) l acc).
Proof. intros k n mi sg l. induction l as [|x r IH]; intros xs acc; cbn [fold_left]; [reflexivity|]. rewrite export_assignment_ext. apply IH. Qed.

Lemma export_signal_ext : forall es sigs order msgid recs many fuel s xs acc, s_kind s <> KMux ->
  export_signal es sigs order msgid recs many fuel s (with_ext xs acc) = with_ext xs (export_signal es sigs order msgid recs many fuel s acc).
Proof.
  intros es sigs order msgid recs many fuel s xs acc Hk.
  destruct fuel; cbn [export_signal]; destruct (String.eqb (s_desc s) EmptyString);
    try (change (add_comment ?c (with_ext xs acc)) with (with_ext xs (add_comment c acc)));
    rewrite fold_assignment_ext; destruct (s_kind s); try (exfalso; apply Hk; reflexivity); reflexivity.
Qed.

Lemma fold_add_extmux : forall l xs acc, fold_left (fun a e => add_extmux e a) l (with_ext xs acc) = with_ext (xs ++ l) acc.
Proof.
  induction l as [|e r IH]; intros xs acc; cbn [fold_left]; [rewrite app_nil_r; reflexivity|].
  change (add_extmux e (with_ext xs acc)) with (with_ext (xs ++ [e]) acc). rewrite IH, <- app_assoc. reflexivity.
Qed.

Section MuxExport.
  Variables (es : list enum_def) (sigs : list signal) (order : byte_order) (msgid : Z) (recs : list string).

  Definition mux_dsig (mx : signal) : dsignal :=
    mkdsignal (clear (s_name mx)) true false 0 (u32 (sel_width mx)) (dbc_start_bit (s_rel mx) order) order false
              fl_one fl_zero fl_zero (fl_of_Z (s_gcount mx - 1)) EmptyString recs.
  Definition child_dsig (mx : signal) (sw : Z) (c : signal) : dsignal :=
    match s_kind c with
    | KStandard =>
        mkdsignal (clear (s_name c)) false true sw (u32 (s_size c))
                  (dbc_start_bit (s_rel mx + sel_width mx + s_rel c) order) order (s_signed c)
                  (s_scale c) (s_offset c) (s_min c) (s_max c) (s_unit c) recs
    | _ =>
        mkdsignal (clear (s_name c)) false true sw (u32 (enum_size (e_of es c)))
                  (dbc_start_bit (s_rel mx + sel_width mx + s_rel c) order) order false
                  fl_one fl_zero fl_zero (fl_of_Z (en_maxindex (e_of es c))) EmptyString recs
    end.

  Lemma child_dsig_switch : forall mx v c, set_switch v (child_dsig mx 0 c) = child_dsig mx v c.
  Proof. intros mx v c. unfold child_dsig. destruct (s_kind c); reflexivity. Qed.

  Lemma set_last_switch_snoc : forall v l x, set_last_switch v (l ++ [x]) = l ++ [set_switch v x].
  Proof.
    intros v l x. induction l as [|y r IH]; [reflexivity|].
    destruct r as [|z q]; [reflexivity|]. change ((y :: z :: q) ++ [x]) with (y :: (z :: q) ++ [x]).
    change (set_last_switch v (y :: (z :: q) ++ [x])) with (y :: set_last_switch v ((z :: q) ++ [x])). rewrite IH. reflexivity.
  Qed.

  Lemma export_child : forall mx many fuel c cms vs xs msgs sg L,
    NoDup (map s_id sigs) -> In mx sigs -> s_parent mx = None -> child_ok es mx c ->
    export_signal es sigs order msgid recs many fuel c (cacx cms vs xs msgs sg L)
    = cacx (cms ++ sig_cms msgid c) (vs ++ venc_e es msgid c) xs msgs (sg ++ [child_dsig mx 0 c]) (enums_step L c).
  Proof.
    intros mx many fuel c cms vs xs msgs sg L Hids Hmx Hpm [Hk [Hp [_ [Hv [Ht [Ha _]]]]]].
    assert (Habs : abs_start (length sigs) sigs c = s_rel mx + sel_width mx + s_rel c).
    { destruct sigs as [|x r] eqn:Es; [destruct Hmx|]. rewrite <- Es in *.
      replace (length sigs) with (S (length r)) by (rewrite Es; reflexivity).
      cbn [abs_start]. rewrite Hp, (ProofsIds.find_sig_unique sigs mx Hids Hmx), abs_start_top by assumption. reflexivity. }
    unfold sig_cms, opt_cm, venc_e, child_dsig, enums_step, e_of.
    destruct fuel; cbn [export_signal]; rewrite Ha, Hv, Ht, Hp, Habs; cbn;
      destruct (String.eqb (s_desc c) EmptyString);
      destruct (s_kind c); try (exfalso; apply Hk; reflexivity); cbn;
      unfold cacx, add_sig, add_comment, add_valenc, evals; cbn; rewrite ?app_nil_r; reflexivity.
  Qed.
End MuxExport.

Definition is_nil {A} (l : list A) : bool := match l with [] => true | _ => false end.
Definition optl {A} (l : list A) : option (list A) := match l with [] => None | _ => Some l end.

Section MuxWalk.
  Variables (es : list enum_def) (sigs : list signal) (order : byte_order) (msgid : Z) (recs : list string) (many : bool).
  Variable mx : signal.
  Hypothesis Hids : NoDup (map s_id sigs).
  Hypothesis Hmx : In mx sigs.
  Hypothesis Hpm : s_parent mx = None.
  Hypothesis Hgc : 1 <= s_gcount mx.
  Let K := children sigs mx.
  Let gc := s_gcount mx.
  Notation cn := (fun c : signal => clear (s_name c)).
  Hypothesis HKc : Forall (child_ok es mx) K.
  Hypothesis HK : Forall (gok mx) K.
  Hypothesis HKn : NoDup (map cn K).

  Definition wstep (k : nat) (id : Z) (st : eacc * list string * list (string * list Z) * bool * bool) (c : signal) :=
    let '(acc, names, gmap, nested, extended) := st in
    if negb (in_group c id) then st else
    let cn := clear (s_name c) in
    let nested := nested || match s_kind c with KMux => true | _ => false end in
    match lookup String.eqb cn gmap with
    | None =>
        let acc := export_signal es sigs order msgid recs many k c acc in
        (set_sigs (set_last_switch (u32 id) (ea_sigs acc)) acc, names ++ [cn], (cn, [id]) :: gmap, nested, extended)
    | Some g => (acc, names, (cn, g ++ [id]) :: gmap, nested, true)
    end.

  (* the first visit of a child: it is exported and the switch value of its line is the group being walked *)
  Definition xstep (k : nat) (acc : eacc) (p : Z * signal) : eacc :=
    let a := export_signal es sigs order msgid recs many k (snd p) acc in
    set_sigs (set_last_switch (u32 (fst p)) (ea_sigs a)) a.

  Lemma lookup_str_head : forall {V} k (v : V) l, lookup String.eqb k ((k, v) :: l) = Some v.
  Proof. intros. cbn [lookup]. rewrite String.eqb_refl. reflexivity. Qed.
  Lemma lookup_str_skip : forall {V} k k' (v : V) l, k <> k' -> lookup String.eqb k ((k', v) :: l) = lookup String.eqb k l.
  Proof. intros V k k' v l H. cbn [lookup]. destruct (String.eqb k k') eqn:E; [apply String.eqb_eq in E; contradiction|reflexivity]. Qed.

  Lemma walk_inner : forall k j l acc names gmap nst ext,
    Forall (gok mx) l -> NoDup (map cn l) -> 0 <= j < gc ->
    (forall c, In c l -> lookup String.eqb (cn c) gmap = optl (vis c j)) ->
    exists gmap',
      fold_left (wstep k j) l (acc, names, gmap, nst, ext)
      = (fold_left (xstep k) (map (pair j) (filter (fun c => j =? grp c) l)) acc,
         names ++ map cn (filter (fun c => j =? grp c) l), gmap', nst,
         ext || existsb (fun c => in_group c j && negb (j =? grp c)) l) /\
      (forall c, In c l -> lookup String.eqb (cn c) gmap' = optl (vis c (j + 1))) /\
      (forall x, ~ In x (map cn l) -> lookup String.eqb x gmap' = lookup String.eqb x gmap).
  Proof.
    intros k j l. induction l as [|c r IH]; intros acc names gmap nst ext Hl Hnd Hj HG; cbn [fold_left filter map existsb].
    - exists gmap. rewrite app_nil_r, orb_false_r. split; [reflexivity|]. split; [intros c []|auto].
    - inversion Hl as [|? ? Hc Hr]; subst. cbn [map] in Hnd. inversion Hnd as [|? ? Hni Hndr]; subst.
      pose proof (HG c (or_introl eq_refl)) as Hlk.
      assert (HGr : forall gm, (forall x, x <> cn c -> lookup String.eqb x gm = lookup String.eqb x gmap) ->
                forall c', In c' r -> lookup String.eqb (cn c') gm = optl (vis c' j)).
      { intros gm Hgm c' Hc'. rewrite Hgm; [apply HG; right; assumption|]. intros Heq. apply Hni. rewrite <- Heq. apply (in_map cn). assumption. }
      assert (Hkm : match s_kind c with KMux => true | _ => false end = false).
      { destruct Hc as [Hk _]. destruct (s_kind c); try reflexivity. exfalso. apply Hk. reflexivity. }
      pose proof (vis_succ mx c j ltac:(lia)) as Hvs.
      unfold wstep at 2. destruct (in_group c j) eqn:Eg; cbn [negb andb].
      + rewrite Hkm, orb_false_r. rewrite Hlk.
        destruct (vis c j) as [|v0 vr] eqn:Ev; cbn [optl].
        * (* first visit: j is the child's first group *)
          assert (Hjg : j = grp c).
          { pose proof (proj1 (vis_nil mx c Hc Hgc j ltac:(fold gc; lia)) Ev) as H1.
            destruct (Z_lt_ge_dec j (grp c)) as [Hlt|Hge]; [|lia].
            rewrite (in_group_below mx c Hc Hgc j) in Eg by lia. discriminate. }
          replace (j =? grp c) with true by lia. cbn [negb andb orb map fold_left].
          destruct (IH (xstep k acc (j, c)) (names ++ [cn c]) ((cn c, [j]) :: gmap) nst ext Hr Hndr Hj) as [gmap' [E1 [E2 E3]]].
          { apply HGr. intros x Hx. apply lookup_str_skip. assumption. }
          exists gmap'. split; [|split].
          -- assert (Hx : xstep k acc (j, c) = set_sigs (set_last_switch (u32 j) (ea_sigs (export_signal es sigs order msgid recs many k c acc)))
                                                         (export_signal es sigs order msgid recs many k c acc)) by reflexivity.
             rewrite <- Hx, E1. rewrite <- app_assoc. reflexivity.
          -- intros c' [<-|Hc']; [|apply E2; assumption].
             rewrite E3 by assumption. rewrite lookup_str_head, Hvs. reflexivity.
          -- intros x Hx. rewrite E3 by (intros Hin; apply Hx; right; assumption). apply lookup_str_skip. intros Heq. apply Hx. left. symmetry. assumption.
        * (* a further group of a child already exported *)
          assert (Hjg : (j =? grp c) = false).
          { destruct (j =? grp c) eqn:E; [|reflexivity]. apply Z.eqb_eq in E. exfalso.
            assert (Hn : vis c j = []) by (apply (vis_nil mx c Hc Hgc j); [fold gc; lia|lia]). rewrite Hn in Ev. discriminate. }
          rewrite Hjg. cbn [negb andb orb].
          destruct (IH acc names ((cn c, (v0 :: vr) ++ [j]) :: gmap) nst true Hr Hndr Hj) as [gmap' [E1 [E2 E3]]].
          { apply HGr. intros x Hx. apply lookup_str_skip. assumption. }
          exists gmap'. split; [|split].
          -- rewrite E1. rewrite orb_true_r. reflexivity.
          -- intros c' [<-|Hc']; [|apply E2; assumption].
             rewrite E3 by assumption. rewrite lookup_str_head, Hvs. reflexivity.
          -- intros x Hx. rewrite E3 by (intros Hin; apply Hx; right; assumption). apply lookup_str_skip. intros Heq. apply Hx. left. symmetry. assumption.
      + assert (Hjg : (j =? grp c) = false).
        { destruct (j =? grp c) eqn:E; [|reflexivity]. apply Z.eqb_eq in E. rewrite E, (in_group_grp_true mx c Hc Hgc) in Eg. discriminate. }
        rewrite Hjg. cbn [orb].
        destruct (IH acc names gmap nst ext Hr Hndr Hj) as [gmap' [E1 [E2 E3]]].
        { intros c' Hc'. apply HG. right. assumption. }
        exists gmap'. split; [exact E1|]. split.
        * intros c' [<-|Hc']; [|apply E2; assumption]. rewrite E3 by assumption. rewrite Hlk, Hvs, app_nil_r. reflexivity.
        * intros x Hx. apply E3. intros Hin. apply Hx. right. assumption.
  Qed.

  Definition wall (ids : list Z) : list signal := flat_map (fun id => filter (fun c => id =? grp c) K) ids.
  Definition wpairs (ids : list Z) : list (Z * signal) := flat_map (fun id => map (pair id) (filter (fun c => id =? grp c) K)) ids.

  Lemma walk_outer : forall k n from acc names gmap nst ext,
    0 <= from -> from + Z.of_nat n = gc ->
    (forall c, In c K -> lookup String.eqb (cn c) gmap = optl (vis c from)) ->
    exists gmap',
      fold_left (fun st id => fold_left (wstep k id) K st) (zrange from n) (acc, names, gmap, nst, ext)
      = (fold_left (xstep k) (wpairs (zrange from n)) acc, names ++ map cn (wall (zrange from n)), gmap', nst,
         ext || existsb (fun id => existsb (fun c => in_group c id && negb (id =? grp c)) K) (zrange from n)) /\
      (forall c, In c K -> lookup String.eqb (cn c) gmap' = optl (vis c gc)).
  Proof.
    intros k n. induction n as [|n IH]; intros from acc names gmap nst ext H0 Hn HG; cbn [zrange fold_left wpairs wall flat_map existsb].
    - exists gmap. rewrite app_nil_r, orb_false_r. split; [reflexivity|]. replace gc with from by lia. exact HG.
    - destruct (walk_inner k from K acc names gmap nst ext HK HKn ltac:(lia) HG) as [gmap1 [E1 [E2 _]]].
      rewrite E1.
      destruct (IH (from + 1) (fold_left (xstep k) (map (pair from) (filter (fun c => from =? grp c) K)) acc)
                   (names ++ map cn (filter (fun c => from =? grp c) K)) gmap1 nst
                   (ext || existsb (fun c => in_group c from && negb (from =? grp c)) K) ltac:(lia) ltac:(lia) E2) as [gmap' [E3 E4]].
      exists gmap'. split; [|exact E4]. rewrite E3. unfold wpairs, wall. rewrite fold_left_app, map_app, <- app_assoc, orb_assoc. reflexivity.
  Qed.

  (* the SG_MUL_VAL_ entries: one per child that is in several groups or fixed *)
  Definition ext_of (nst : bool) (c : signal) : list dextmux :=
    if negb nst && Nat.eqb (length (mem_of gc c)) 1 then [] else [mkdextmux msgid (clear (s_name mx)) (cn c) (ranges_of (mem_of gc c))].

  Lemma ext_fold : forall nst (gmap : list (string * list Z)) l acc,
    (forall c, In c l -> lookup String.eqb (cn c) gmap = Some (mem_of gc c)) ->
    fold_left (fun acc cn0 =>
        let g := match lookup String.eqb cn0 gmap with Some g => g | None => [] end in
        if negb nst && Nat.eqb (length g) 1 then acc
        else add_extmux (mkdextmux msgid (clear (s_name mx)) cn0 (ranges_of g)) acc) (map cn l) acc
    = fold_left (fun a e => add_extmux e a) (flat_map (ext_of nst) l) acc.
  Proof.
    intros nst gmap l. induction l as [|c r IH]; intros acc HG; cbn [map fold_left flat_map]; [reflexivity|].
    rewrite (HG c (or_introl eq_refl)). rewrite fold_left_app.
    assert (He : fold_left (fun a e => add_extmux e a) (ext_of nst c) acc
                 = (if negb nst && Nat.eqb (length (mem_of gc c)) 1 then acc else add_extmux (mkdextmux msgid (clear (s_name mx)) (cn c) (ranges_of (mem_of gc c))) acc))
      by (unfold ext_of; destruct (negb nst && Nat.eqb (length (mem_of gc c)) 1); reflexivity).
    rewrite He. apply IH. intros c' Hc'. apply HG. right. assumption.
  Qed.

  (* no second visit: every child sits in exactly one group *)
  Lemma no_revisit : existsb (fun id => existsb (fun c => in_group c id && negb (id =? grp c)) K) (zrange 0 (Z.to_nat gc)) = false ->
    forall c, In c K -> ext_of false c = [].
  Proof.
    intros H c Hc. rewrite Forall_forall in HK. pose proof (HK c Hc) as Hok. unfold ext_of. cbn [negb andb].
    destruct (grp_head mx c Hok) as [r Hr]. fold gc in Hr. rewrite Hr. destruct r as [|g2 r2]; [reflexivity|]. exfalso.
    destruct (mem_of_ascending mx c Hok) as [Ha Hb]. fold gc in Ha, Hb. rewrite Hr in Ha, Hb. cbn in Ha. destruct Ha as [H1 [H2 _]].
    assert (Hin : in_group c g2 = true) by (apply (in_group_mem mx c Hgc g2); [specialize (Hb g2 (or_intror (or_introl eq_refl))); fold gc; lia|fold gc; rewrite Hr; right; left; reflexivity]).
    assert (existsb (fun id => existsb (fun c => in_group c id && negb (id =? grp c)) K) (zrange 0 (Z.to_nat gc)) = true); [|congruence].
    apply existsb_exists. exists g2. split; [apply in_zrange; specialize (Hb g2 (or_intror (or_introl eq_refl))); lia|].
    apply existsb_exists. exists c. split; [assumption|]. rewrite Hin. cbn [andb]. apply negb_true_iff. apply Z.eqb_neq. lia.
  Qed.

  (* the walk on the plain accumulator *)
  Definition wsigs (ids : list Z) : list dsignal :=
    flat_map (fun id => map (child_dsig es order recs mx (u32 id)) (filter (fun c => id =? grp c) K)) ids.

  Lemma xsteps_cacx : forall k ids cms vs xs msgs sg L,
    fold_left (xstep k) (wpairs ids) (cacx cms vs xs msgs sg L)
    = cacx (cms ++ flat_map (sig_cms msgid) (wall ids)) (vs ++ flat_map (venc_e es msgid) (wall ids)) xs msgs (sg ++ wsigs ids)
           (fold_left enums_step (wall ids) L).
  Proof.
    intros k ids. induction ids as [|id r IH]; intros cms vs xs msgs sg L; cbn [wpairs wall wsigs flat_map fold_left].
    - rewrite !app_nil_r. reflexivity.
    - rewrite fold_left_app.
      assert (G : forall l cms vs sg L, (forall c, In c l -> child_ok es mx c) ->
                fold_left (xstep k) (map (pair id) l) (cacx cms vs xs msgs sg L)
                = cacx (cms ++ flat_map (sig_cms msgid) l) (vs ++ flat_map (venc_e es msgid) l) xs msgs
                       (sg ++ map (child_dsig es order recs mx (u32 id)) l) (fold_left enums_step l L)).
      { induction l as [|c q IHl]; intros cms0 vs0 sg0 L0 Hl; cbn [map fold_left flat_map]; [rewrite !app_nil_r; reflexivity|].
        unfold xstep at 2. cbn [fst snd]. rewrite (export_child es sigs order msgid recs mx many k c) by (try assumption; apply Hl; left; reflexivity).
        replace (set_sigs (set_last_switch (u32 id) (ea_sigs (cacx (cms0 ++ sig_cms msgid c) (vs0 ++ venc_e es msgid c) xs msgs (sg0 ++ [child_dsig es order recs mx 0 c]) (enums_step L0 c))))
                          (cacx (cms0 ++ sig_cms msgid c) (vs0 ++ venc_e es msgid c) xs msgs (sg0 ++ [child_dsig es order recs mx 0 c]) (enums_step L0 c)))
          with (cacx (cms0 ++ sig_cms msgid c) (vs0 ++ venc_e es msgid c) xs msgs (sg0 ++ [child_dsig es order recs mx (u32 id) c]) (enums_step L0 c))
          by (unfold cacx, set_sigs; cbn [ea_sigs ea_comments ea_attrs ea_attrdefs ea_attrvals ea_valencs ea_extmuxes ea_messages ea_names ea_enums];
              rewrite set_last_switch_snoc, child_dsig_switch; reflexivity).
        rewrite IHl by (intros c' Hc'; apply Hl; right; assumption). rewrite <- !app_assoc. reflexivity. }
      rewrite G by (intros c Hc; apply filter_In in Hc; rewrite Forall_forall in HKc; apply HKc; tauto).
      rewrite IH. rewrite !flat_map_app, fold_left_app, <- !app_assoc. reflexivity.
  Qed.
End MuxWalk.

(* the signals of a message in export order: the top-level signals in list order, the multiplexer followed by
   its children in (first group, position) order *)
Definition walk_of (sigs : list signal) (t : signal) : list signal :=
  flat_map (fun id => filter (fun c => id =? grp c) (children sigs t)) (zrange 0 (Z.to_nat (s_gcount t))).
Definition tx (sigs : list signal) (t : signal) : list signal := t :: (if is_muxb t then walk_of sigs t else []).
Definition SX (m : message) : list signal := flat_map (tx (m_signals m)) (filter is_topb (m_signals m)).
(* the SG_MUL_VAL_ entries a top-level signal contributes *)
Definition texts (many : bool) (msgid : Z) (sigs : list signal) (t : signal) : list dextmux :=
  if is_muxb t then flat_map (ext_of msgid t many) (walk_of sigs t) else [].

Lemma zrange_nodup : forall n from, NoDup (zrange from n).
Proof.
  induction n as [|n IH]; intros from; cbn [zrange]; constructor; [|apply IH].
  intros Hin. apply in_zrange in Hin. lia.
Qed.

(* the signals a top-level signal contributes to BO_ *)
Definition tdsigs (es : list enum_def) (sigs : list signal) (order : byte_order) (recs : list string) (s : signal) : list dsignal :=
  match s_kind s with
  | KMux => mux_dsig order recs s :: wsigs es sigs order recs s (zrange 0 (Z.to_nat (s_gcount s)))
  | _ => [dsig_e es order recs s]
  end.

Definition kids_ok (es : list enum_def) (sigs : list signal) (mx : signal) : Prop :=
  Forall (child_ok es mx) (children sigs mx) /\ NoDup (map (fun c => clear (s_name c)) (children sigs mx)).

Lemma export_top : forall es sigs order msgid recs many k s cms vs xs msgs sg L,
  NoDup (map s_id sigs) -> In s sigs -> top_ok es s -> (is_muxb s = true -> kids_ok es sigs s) ->
  export_signal es sigs order msgid recs many (S k) s (cacx cms vs xs msgs sg L)
  = cacx (cms ++ flat_map (sig_cms msgid) (tx sigs s)) (vs ++ flat_map (venc_e es msgid) (tx sigs s)) (xs ++ texts many msgid sigs s) msgs
         (sg ++ tdsigs es sigs order recs s) (fold_left enums_step (tx sigs s) L).
Proof.
  intros es sigs order msgid recs many k s cms vs xs msgs sg L Hids Hin Htop Hkids.
  destruct (s_kind s) eqn:Ek.
  - unfold tdsigs, tx, texts, is_muxb. rewrite Ek. cbn [flat_map fold_left]. rewrite !app_nil_r.
    change (cacx cms vs xs msgs sg L) with (with_ext xs (cacc cms vs msgs sg L)). rewrite export_signal_ext by (rewrite Ek; discriminate).
    rewrite export_signal_e; [reflexivity|]. destruct Htop as [H1 [H2 [H3 [H4 [H5 [H6 H7]]]]]]. rewrite Ek in H7.
    repeat split; try assumption. rewrite Ek. assumption.
  - unfold tdsigs, tx, texts, is_muxb. rewrite Ek. cbn [flat_map fold_left]. rewrite !app_nil_r.
    change (cacx cms vs xs msgs sg L) with (with_ext xs (cacc cms vs msgs sg L)). rewrite export_signal_ext by (rewrite Ek; discriminate).
    rewrite export_signal_e; [reflexivity|]. destruct Htop as [H1 [H2 [H3 [H4 [H5 [H6 H7]]]]]].
    repeat split; try assumption. rewrite Ek. exact I.
  - destruct Htop as [Hp [Hg [Hv [Ht [Ha [Hr Hm]]]]]]. rewrite Ek in Hm. destruct Hm as [[Hg1 Hg2] Hgs].
    destruct (Hkids ltac:(unfold is_muxb; rewrite Ek; reflexivity)) as [HK HKn].
    assert (HKg : Forall (gok s) (children sigs s)) by (eapply Forall_impl; [|exact HK]; intros c Hc; eapply child_gok; eauto).
    unfold tdsigs, tx, texts, is_muxb. rewrite Ek. cbn [flat_map fold_left].
    unfold sig_cms at 1, opt_cm, venc_e at 1, enums_step at 2. rewrite Ek. cbn [app].
    cbn [export_signal]. rewrite Ha, Hv, Ht, Hp, Ek. cbn [fl_is_zero fm fl_zero Z.eqb app fold_left sort_attrs sort_by fold_right orb].
    rewrite abs_start_top by assumption.
    assert (Hcm : (if String.eqb (s_desc s) EmptyString then cacx cms vs xs msgs sg L
                   else add_comment (mkdcomment OSignal (s_desc s) EmptyString msgid (clear (s_name s))) (cacx cms vs xs msgs sg L))
                  = cacx (cms ++ (if String.eqb (s_desc s) EmptyString then [] else [mkdcomment OSignal (s_desc s) EmptyString msgid (clear (s_name s))])) vs xs msgs sg L).
    { destruct (String.eqb (s_desc s) EmptyString); [rewrite app_nil_r|]; reflexivity. }
    rewrite Hcm.
    change (add_sig ?d (cacx ?c ?v ?x ?m ?g ?l)) with (cacx c v x m (g ++ [d]) l).
    set (cms1 := cms ++ (if String.eqb (s_desc s) EmptyString then [] else [mkdcomment OSignal (s_desc s) EmptyString msgid (clear (s_name s))])).
    destruct (walk_outer es sigs order msgid recs many s Hg1 HKg HKn k (Z.to_nat (s_gcount s)) 0
                (cacx cms1 vs xs msgs (sg ++ [mux_dsig order recs s]) L) [] [] many false ltac:(lia) ltac:(lia)) as [gmap' [E EG]].
    { intros c _. cbn. reflexivity. }
    match goal with |- context[fold_left ?f (zrange 0 ?n) ?init] =>
      replace (fold_left f (zrange 0 n) init) with
        (fold_left (xstep es sigs order msgid recs many k) (wpairs sigs s (zrange 0 (Z.to_nat (s_gcount s)))) (cacx cms1 vs xs msgs (sg ++ [mux_dsig order recs s]) L),
         [] ++ map (fun c => clear (s_name c)) (wall sigs s (zrange 0 (Z.to_nat (s_gcount s)))), gmap', many,
         false || existsb (fun id => existsb (fun c => in_group c id && negb (id =? grp c)) (children sigs s)) (zrange 0 (Z.to_nat (s_gcount s))))
        by (symmetry; exact E) end.
    cbn [orb app].
    rewrite (xsteps_cacx es sigs order msgid recs many s Hids Hin Hp HK).
    set (W := wall sigs s (zrange 0 (Z.to_nat (s_gcount s)))).
    assert (HW : forall c, In c W -> In c (children sigs s)).
    { intros c Hc. unfold W, wall in Hc. apply in_flat_map in Hc. destruct Hc as [id [_ Hc]]. apply filter_In in Hc. tauto. }
    assert (HGm : forall c, In c W -> lookup String.eqb (clear (s_name c)) gmap' = Some (mem_of (s_gcount s) c)).
    { intros c Hc. rewrite (EG c (HW c Hc)). rewrite Forall_forall in HKg. rewrite (vis_all s c (HKg c (HW c Hc)) Hg1).
      pose proof (mem_of_nonempty s c (HKg c (HW c Hc))) as Hne. destruct (mem_of (s_gcount s) c); [contradiction|reflexivity]. }
    assert (Hfin : forall acc,
      (if negb (existsb (fun id => existsb (fun c => in_group c id && negb (id =? grp c)) (children sigs s)) (zrange 0 (Z.to_nat (s_gcount s)))) && negb many
       then acc
       else fold_left (fun acc cn0 =>
              let g := match lookup String.eqb cn0 gmap' with Some g => g | None => [] end in
              if negb many && Nat.eqb (length g) 1 then acc
              else add_extmux (mkdextmux msgid (clear (s_name s)) cn0 (ranges_of g)) acc) (map (fun c => clear (s_name c)) W) acc)
      = fold_left (fun a e => add_extmux e a) (flat_map (ext_of msgid s many) W) acc).
    { intros acc. destruct many.
      - rewrite andb_false_r. apply (ext_fold msgid s true gmap' W acc HGm).
      - destruct (existsb _ (zrange 0 (Z.to_nat (s_gcount s)))) eqn:Ee; cbn [negb andb].
        + apply (ext_fold msgid s false gmap' W acc HGm).
        + replace (flat_map (ext_of msgid s false) W) with (@nil dextmux); [reflexivity|].
          symmetry. clear HGm. induction W as [|c r IHW]; [reflexivity|]. cbn [flat_map].
          rewrite (no_revisit sigs msgid s Hg1 HKg Ee c (HW c (or_introl eq_refl))). apply IHW. intros x Hx. apply HW. right. assumption. }
    rewrite Hfin.
    change (cacx ?c ?v xs ?m ?g ?l) with (with_ext xs (cacx c v [] m g l)). rewrite fold_add_extmux.
    unfold with_ext, cacx, cms1, W. cbn [ea_comments ea_attrs ea_attrdefs ea_attrvals ea_valencs ea_messages ea_sigs ea_names ea_enums].
    unfold walk_of. rewrite <- !app_assoc. reflexivity.
Qed.

(* ---------------- messages ---------------- *)
Lemma NoDup_map_filter : forall {A B} (f : A -> B) (p : A -> bool) l, NoDup (map f l) -> NoDup (map f (filter p l)).
Proof.
  intros A B f p l. induction l as [|x r IH]; intros H; cbn [filter map]; [constructor|]. cbn [map] in H. inversion H as [|? ? Hni Hr]; subst.
  destruct (p x); cbn [map]; [constructor|]; auto. intros Hin. apply Hni. apply in_map_iff in Hin. destruct Hin as [y [Hy Hin]].
  apply filter_In in Hin. apply in_map_iff. exists y. tauto.
Qed.

Lemma kids_ok_of : forall es sigs mx, msigs_ok es sigs -> In mx sigs -> is_muxb mx = true -> kids_ok es sigs mx.
Proof.
  intros es sigs mx [Hids [Hnm [_ [_ [Hch _]]]]] Hmx Hm. unfold kids_ok, children. split.
  - apply Forall_forall. intros c Hc. apply Proofs.In_sort_by in Hc. apply filter_In in Hc. destruct Hc as [Hc Hp].
    destruct (s_parent c) as [q|] eqn:Ep; [|discriminate]. apply Z.eqb_eq in Hp.
    destruct (Hch c Hc ltac:(unfold is_topb; rewrite Ep; reflexivity)) as [mx' [Hmx' [_ [Hm' Hok]]]].
    assert (mx' = mx).
    { apply (NoDup_map_inj s_id sigs); try assumption. destruct Hok as [_ [Hpar _]]. rewrite Ep in Hpar. inversion Hpar. congruence. }
    subst mx'. exact Hok.
  - eapply Permutation_NoDup; [apply Permutation_map; apply sort_by_perm|]. apply NoDup_map_filter. assumption.
Qed.

Lemma top_size_pos : forall es s, top_ok es s -> 0 < sig_size es s.
Proof.
  intros es s [_ [_ [_ [_ [_ [_ H]]]]]]. unfold sig_size. destruct (s_kind s); [lia|pose proof (enum_size_pos (nth_enum es (s_enum s))); lia|].
  destruct H as [[Hg _] Hs]. pose proof (calc_size_bounds (s_gcount s - 1)). unfold sel_width. lia.
Qed.
Lemma layout_top_ascending : forall es l from limit, Forall (top_ok es) l -> layout_e es from limit l -> ascending_by s_rel l.
Proof.
  induction l as [|s r IH]; intros from limit Hp H; [exact I|].
  cbn in H. destruct H as [H1 [H2 H3]]. inversion Hp as [|? ? Hps Hpr]; subst. split; [|eapply IH; eauto].
  destruct r as [|y q]; [exact I|]. cbn in H3. destruct H3 as [H3 _].
  pose proof (top_size_pos es s Hps). lia.
Qed.

Lemma export_tops : forall es sigs order msgid recs many k l cms vs xs msgs sg L,
  NoDup (map s_id sigs) -> (forall s, In s l -> In s sigs /\ top_ok es s /\ (is_muxb s = true -> kids_ok es sigs s)) ->
  fold_left (fun a s => export_signal es sigs order msgid recs many (S k) s a) l (cacx cms vs xs msgs sg L)
  = cacx (cms ++ flat_map (sig_cms msgid) (flat_map (tx sigs) l)) (vs ++ flat_map (venc_e es msgid) (flat_map (tx sigs) l))
         (xs ++ flat_map (texts many msgid sigs) l) msgs
         (sg ++ flat_map (tdsigs es sigs order recs) l) (fold_left enums_step (flat_map (tx sigs) l) L).
Proof.
  intros es sigs order msgid recs many k l. induction l as [|s r IH]; intros cms vs xs msgs sg L Hids H; cbn [fold_left flat_map].
  - rewrite !app_nil_r. reflexivity.
  - destruct (H s (or_introl eq_refl)) as [H1 [H2 H3]]. rewrite export_top by assumption.
    rewrite IH by (try assumption; intros x Hx; apply H; right; assumption).
    rewrite !flat_map_app, fold_left_app, <- !app_assoc. reflexivity.
Qed.

Definition dmsg_m (es : list enum_def) (m : message) : dmessage :=
  mkdmessage (u32 (m_canid m)) (clear (m_name m)) (u32 (m_size m)) (clear (m_sender m))
             (flat_map (tdsigs es (m_signals m) (m_order m) (recs_out m)) (filter is_topb (m_signals m))).
Definition msg_exts (m : message) : list dextmux :=
  flat_map (texts (many_of (m_signals m)) (u32 (m_canid m)) (m_signals m)) (filter is_topb (m_signals m)).
Definition bus_exts (b : bus) : list dextmux := flat_map msg_exts (b_messages b).

(* the message / the bus with its signals listed in export order (comments and value descriptions follow it) *)
Definition xmsg (m : message) : message := set_m_signals m (SX m).
Definition xbus (b : bus) : bus := set_b_messages b (map xmsg (b_messages b)).

Lemma filter_xmsg : forall (p : string) l,
  filter (fun m => String.eqb (m_sender m) p) (map xmsg l) = map xmsg (filter (fun m => String.eqb (m_sender m) p) l).
Proof.
  intros p l. induction l as [|m r IH]; [reflexivity|]. cbn [map filter]. cbn [m_sender xmsg set_m_signals].
  destruct (String.eqb (m_sender m) p); cbn [map]; rewrite IH; reflexivity.
Qed.

Lemma one_mux_count : forall es sigs, msigs_ok es sigs -> one_mux sigs -> many_of sigs = false.
Proof.
  intros es sigs [Hids _] Huniq. unfold many_of.
  set (l := filter (fun s => match s_kind s with KMux => true | _ => false end) (filter is_topb sigs)).
  assert (Hin : forall x, In x l -> In x sigs /\ is_muxb x = true).
  { intros x Hx. apply filter_In in Hx. destruct Hx as [Hx Hm]. apply filter_In in Hx. split; [tauto|exact Hm]. }
  assert (Hnd : NoDup l).
  { apply NoDup_filter. apply NoDup_filter. eapply NoDup_map_inv. exact Hids. }
  destruct l as [|a [|b r]]; try reflexivity. exfalso.
  destruct (Hin a (or_introl eq_refl)) as [A1 A2]. destruct (Hin b (or_intror (or_introl eq_refl))) as [B1 B2].
  assert (a = b) by (apply Huniq; assumption). subst b. inversion Hnd as [|? ? Hni _]; subst. apply Hni. left. reflexivity.
Qed.
Lemma count_one_mux : forall es sigs, msigs_ok es sigs -> many_of sigs = false -> one_mux sigs.
Proof.
  intros es sigs [Hids [_ [_ [Htopm _]]]] Hm a b Ha Hb Hma Hmb. unfold many_of in Hm.
  set (l := filter (fun s => match s_kind s with KMux => true | _ => false end) (filter is_topb sigs)) in *.
  assert (Hl : forall x, In x sigs -> is_muxb x = true -> In x l).
  { intros x Hx Hxm. apply filter_In. split; [apply filter_In; split; [assumption|apply Htopm; assumption]|exact Hxm]. }
  pose proof (Hl a Ha Hma) as Hia. pose proof (Hl b Hb Hmb) as Hib.
  destruct l as [|x [|y r]]; [destruct Hia| |cbn in Hm; discriminate].
  destruct Hia as [<-|[]]. destruct Hib as [<-|[]]. reflexivity.
Qed.

Lemma export_message_m : forall names es m cms vs xs msgs sigs0 L,
  mmessage es names m ->
  export_message es m (cacx cms vs xs msgs sigs0 L)
  = cacx (cms ++ msg_cms (xmsg m)) (vs ++ msg_vencs es (xmsg m)) (xs ++ msg_exts m) (msgs ++ [dmsg_m es m]) [] (fold_left enums_step (SX m) L).
Proof.
  intros names es m cms vs xs msgs sigs0 L [Ha [Hc [Hdl [Hsd [Hst [Hid [Hsz [Hms [Hlay _]]]]]]]]].
  pose proof Hms as [Hids [_ [Htops _]]].
  unfold export_message. rewrite Ha, Hc, Hdl, Hsd, Hst. cbn [Z.eqb app sort_attrs sort_by fold_right fold_left].
  change (filter (fun s => match s_parent s with None => true | Some _ => false end) (m_signals m)) with (filter is_topb (m_signals m)).
  rewrite (sort_by_ascending s_rel) by (eapply layout_top_ascending; eauto).
  fold (many_of (m_signals m)).
  assert (Hacc : set_sigs [] (if String.eqb (m_desc m) EmptyString then cacx cms vs xs msgs sigs0 L
                    else add_comment (mkdcomment OMessage (m_desc m) EmptyString (u32 (m_canid m)) EmptyString) (cacx cms vs xs msgs sigs0 L))
                 = cacx (cms ++ opt_cm (m_desc m) (mkdcomment OMessage (m_desc m) EmptyString (u32 (m_canid m)) EmptyString)) vs xs msgs [] L).
  { unfold opt_cm. destruct (String.eqb (m_desc m) EmptyString); [rewrite app_nil_r|]; reflexivity. }
  rewrite Hacc.
  unfold msg_cms, msg_vencs, msg_exts, xmsg. cbn [m_desc m_canid m_signals set_m_signals]. unfold SX.
  destruct (m_signals m) as [|s0 r0] eqn:Es.
  - cbn [filter fold_left length flat_map]. unfold dmsg_m, cacx, add_message. rewrite Es. cbn. rewrite !app_nil_r. reflexivity.
  - rewrite <- Es in *. replace (length (m_signals m)) with (S (length r0)) by (rewrite Es; reflexivity).
    rewrite export_tops.
    + unfold dmsg_m, cacx, add_message. cbn. rewrite <- ?app_assoc. reflexivity.
    + assumption.
    + intros s Hs. pose proof Hs as Hs'. apply filter_In in Hs'. destruct Hs' as [Hin _]. split; [assumption|]. split.
      * rewrite Forall_forall in Htops. apply Htops. assumption.
      * intros Hm. eapply kids_ok_of; eauto.
Qed.

Lemma export_messages_m : forall names es l cms vs xs msgs L,
  Forall (mmessage es names) l ->
  exists L', fold_left (fun a m => export_message es m a) l (cacx cms vs xs msgs [] L)
  = cacx (cms ++ flat_map msg_cms (map xmsg l)) (vs ++ flat_map (msg_vencs es) (map xmsg l)) (xs ++ flat_map msg_exts l) (msgs ++ map (dmsg_m es) l) [] L'.
Proof.
  intros names es l. induction l as [|m r IH]; intros cms vs xs msgs L H; cbn [fold_left map flat_map].
  - exists L. rewrite !app_nil_r. reflexivity.
  - inversion H; subst. rewrite (export_message_m names) by assumption.
    destruct (IH (cms ++ msg_cms (xmsg m)) (vs ++ msg_vencs es (xmsg m)) (xs ++ msg_exts m) (msgs ++ [dmsg_m es m]) (fold_left enums_step (SX m) L)) as [L' E]; [assumption|].
    exists L'. rewrite E. rewrite <- !app_assoc. reflexivity.
Qed.

Definition mdoc (b : bus) (L : list Z) : doc :=
  mkdoc (b_name b) (map (fun n => clear (n_name n)) (b_nodes b)) (map (table_of (b_enums b)) L)
        (map (dmsg_m (b_enums b)) (b_messages b)) (doc_cms (xbus b)) [] [] [] (bus_vencs (xbus b)) (bus_exts b).

Lemma export_m : forall b, mbus b -> exists L, export b = mdoc b L.
Proof.
  intros b [Ha [Hn [_ [_ [_ [Hm [_ [_ [Hg _]]]]]]]]].
  unfold export. rewrite Ha. cbn [sort_attrs sort_by fold_right fold_left].
  assert (Hnodes : forall nodes cms0 vs0 xs0 msgs0 L0,
    Forall (fun n => n_attrs n = []) nodes ->
    exists L1,
    fold_left (fun a n =>
        let name := clear (n_name n) in
        let a := if String.eqb (n_desc n) EmptyString then a
                 else add_comment (mkdcomment ONode (n_desc n) name 0 EmptyString) a in
        let a := fold_left (fun a x => export_assignment ONode name 0 EmptyString x a) (sort_attrs (n_attrs n)) a in
        fold_left (fun a m => export_message (b_enums b) m a)
                  (filter (fun m => String.eqb (m_sender m) (n_name n)) (b_messages b)) a)
      nodes (cacx cms0 vs0 xs0 msgs0 [] L0)
    = cacx (cms0 ++ flat_map (node_cms (xbus b)) nodes)
           (vs0 ++ flat_map (msg_vencs (b_enums b)) (map xmsg (flat_map (fun n => filter (fun m => String.eqb (m_sender m) (n_name n)) (b_messages b)) nodes)))
           (xs0 ++ flat_map msg_exts (flat_map (fun n => filter (fun m => String.eqb (m_sender m) (n_name n)) (b_messages b)) nodes))
           (msgs0 ++ map (dmsg_m (b_enums b)) (flat_map (fun n => filter (fun m => String.eqb (m_sender m) (n_name n)) (b_messages b)) nodes)) [] L1).
  { induction nodes as [|n r IH]; intros cms0 vs0 xs0 msgs0 L0 Hf; cbn [fold_left flat_map map].
    - exists L0. rewrite !app_nil_r. reflexivity.
    - inversion Hf as [|? ? Hna Hr]; subst. rewrite Hna.
      cbn [sort_attrs sort_by fold_right fold_left].
      assert (Hcm : (if String.eqb (n_desc n) EmptyString then cacx cms0 vs0 xs0 msgs0 [] L0
                     else add_comment (mkdcomment ONode (n_desc n) (clear (n_name n)) 0 EmptyString) (cacx cms0 vs0 xs0 msgs0 [] L0))
                    = cacx (cms0 ++ opt_cm (n_desc n) (mkdcomment ONode (n_desc n) (clear (n_name n)) 0 EmptyString)) vs0 xs0 msgs0 [] L0).
      { unfold opt_cm. destruct (String.eqb (n_desc n) EmptyString); [rewrite app_nil_r; reflexivity|reflexivity]. }
      rewrite Hcm.
      destruct (export_messages_m (map n_name (b_nodes b)) (b_enums b) (filter (fun m => String.eqb (m_sender m) (n_name n)) (b_messages b))
                  (cms0 ++ opt_cm (n_desc n) (mkdcomment ONode (n_desc n) (clear (n_name n)) 0 EmptyString)) vs0 xs0 msgs0 L0) as [L2 E2];
        [apply Forall_filter; assumption|].
      rewrite E2.
      match goal with |- exists L1, fold_left ?f r (cacx ?c ?v ?x ?m [] ?l) = _ => destruct (IH c v x m l Hr) as [L1 E] end.
      exists L1. refine (eq_trans E _). unfold node_cms, xbus. cbn [b_messages set_b_messages]. rewrite filter_xmsg.
      rewrite !map_app, !flat_map_app, <- !app_assoc. reflexivity. }
  assert (H0 : (if String.eqb (b_desc b) EmptyString then mkeacc [] [] [] [] [] [] [] [] [] []
                else add_comment (mkdcomment OGeneral (b_desc b) EmptyString 0 EmptyString) (mkeacc [] [] [] [] [] [] [] [] [] []))
               = cacx (opt_cm (b_desc b) (mkdcomment OGeneral (b_desc b) EmptyString 0 EmptyString)) [] [] [] [] []).
  { unfold opt_cm. destruct (String.eqb (b_desc b) EmptyString); reflexivity. }
  rewrite H0. destruct (Hnodes (b_nodes b) (opt_cm (b_desc b) (mkdcomment OGeneral (b_desc b) EmptyString 0 EmptyString)) [] [] [] [] Hn) as [L1 E].
  exists L1. cbv zeta. cbv zeta in E. rewrite E, Hg. unfold bus_exts. cbn. reflexivity.
Qed.

(* ---------------- import: helpers ---------------- *)
Lemma index_from_app : forall {A} (a b : list A) i, index_from i (a ++ b) = index_from i a ++ index_from (i + Z.of_nat (length a)) b.
Proof.
  intros A a. induction a as [|x r IH]; intros b i; cbn [app index_from length]; [f_equal; lia|].
  rewrite IH. f_equal. f_equal. f_equal. lia.
Qed.

(* what importSignal returns for the exported form of a standard or enum signal (before it is placed);
   `ei` is the enum the importer resolved to *)
Definition rimg (id : Z) (s : signal) (ei : Z) : signal :=
  match s_kind s with
  | KStandard => mksignal id (clear (s_name s)) KStandard 0 None [] (s_size s) (s_signed s) (s_scale s) (s_offset s) (s_min s) (s_max s)
                          (s_unit s) 0 0 0 (s_desc s) fl_zero 0 []
  | _ => mksignal id (clear (s_name s)) KEnum 0 None [] 0 false fl_one fl_zero fl_zero fl_zero EmptyString ei 0 0 (s_desc s) fl_zero 0 []
  end.
Definition EIok (es : list enum_def) (st : istate) (s : signal) (ei : Z) : Prop :=
  s_kind s = KEnum -> In ei (is_enum_refs st) /\
    sorted_enum_values (nth_enum (is_enums st) ei) = evals (e_of es s) /\ enum_size (nth_enum (is_enums st) ei) = enum_size (e_of es s).

Lemma EIok_mono : forall es st st' s ei, ProofsEnum.st_le st st' -> EIok es st s ei -> EIok es st' s ei.
Proof.
  intros es st st' s ei [_ [_ [L3 L4]]] H Hk. destruct (H Hk) as [H1 [H2 H3]]. rewrite (L3 _ H1). split; [apply L4; assumption|auto].
Qed.

Lemma rimg_size : forall es st id s ei, s_kind s <> KMux -> EIok es st s ei -> sig_size (is_enums st) (rimg id s ei) = sig_size es s.
Proof.
  intros es st id s ei Hk H. unfold rimg, sig_size. destruct (s_kind s) eqn:Ek; cbn [s_kind s_size s_enum]; [reflexivity| |exfalso; apply Hk; reflexivity].
  destruct (H Ek) as [_ [_ H3]]. exact H3.
Qed.

Lemma rimg_fields : forall id s ei, s_id (rimg id s ei) = id /\ s_name (rimg id s ei) = clear (s_name s) /\ s_desc (rimg id s ei) = s_desc s /\
  s_attrs (rimg id s ei) = [] /\ s_startval (rimg id s ei) = fl_zero /\ s_sendtype (rimg id s ei) = 0.
Proof. intros id s ei. unfold rimg. destruct (s_kind s); cbn; auto 10. Qed.

Definition top0 (s : signal) : signal :=
  mksignal (s_id s) (s_name s) (s_kind s) 0 None [] (s_size s) (s_signed s) (s_scale s) (s_offset s) (s_min s) (s_max s)
           (s_unit s) (s_enum s) (s_gcount s) (s_gsize s) (s_desc s) fl_zero 0 [].

Lemma import_signal_ext : forall env st mpos msgid id ds ds',
  ds_name ds' = ds_name ds -> ds_size ds' = ds_size ds ->
  (lookup key_eqb (msgid, ds_name ds) (ie_sig_enums env) = None ->
   ds_signed ds' = ds_signed ds /\ ds_factor ds' = ds_factor ds /\ ds_offset ds' = ds_offset ds /\ ds_min ds' = ds_min ds /\
   ds_max ds' = ds_max ds /\ ds_unit ds' = ds_unit ds) ->
  import_signal env st mpos msgid id ds' = import_signal env st mpos msgid id ds.
Proof.
  intros env st mpos msgid id ds ds' H1 H2 H3. unfold import_signal. rewrite H1, H2.
  destruct (lookup key_eqb (msgid, ds_name ds) (ie_sig_enums env)); [reflexivity|].
  destruct (H3 eq_refl) as [F1 [F2 [F3 [F4 [F5 F6]]]]]. unfold import_standard. rewrite H1, H2, F1, F2, F3, F4, F5, F6. reflexivity.
Qed.

(* importSignal on any SG_ line that carries the exported data of a standard or enum signal *)
Lemma import_signal_g : forall es env st0 st mpos msgid id ds s,
  s_kind s <> KMux -> (s_kind s = KStandard -> 0 < s_size s < 2 ^ 32) -> enum_wf (e_of es s) -> env_sig es env st0 msgid s ->
  Inv st -> ProofsEnum.st_le st0 st ->
  ds_name ds = clear (s_name s) ->
  match s_kind s with
  | KStandard => ds_size ds = s_size s /\ ds_signed ds = s_signed s /\ ds_factor ds = s_scale s /\ ds_offset ds = s_offset s /\
                 ds_min ds = s_min s /\ ds_max ds = s_max s /\ ds_unit ds = s_unit s
  | _ => ds_size ds = enum_size (e_of es s)
  end ->
  exists ei st', import_signal env st mpos msgid id ds = Ok (rimg id s ei, st') /\
    Inv st' /\ ProofsEnum.st_le st st' /\ EIok es st' s ei /\
    is_sigmap st' = ((msgid, clear (s_name s)), (mpos, id)) :: is_sigmap st.
Proof.
  intros es env st0 st mpos msgid id ds s Hk Hsz Hwf Henv HI Hle Hn Hf.
  assert (Hok : esig_ok es (top0 s)).
  { unfold esig_ok, top0. cbn. repeat split; try lia. destruct (s_kind s); [apply Hsz; reflexivity|exact I|apply Hk; reflexivity]. }
  destruct (import_signal_e es env st0 st mpos msgid id LittleEndian [] (top0 s) Hok Hwf Henv HI Hle)
    as [s' [st' [E [I' [L' [R' [_ [_ [_ [_ [_ [_ Hsm]]]]]]]]]]]].
  assert (Ex : import_signal env st mpos msgid id ds = import_signal env st mpos msgid id (dsig_e es LittleEndian [] (top0 s))).
  { destruct Henv as [_ Hlk]. destruct (s_kind s) eqn:Ek; [| |exfalso; apply Hk; reflexivity].
    - destruct Hf as [F1 [F2 [F3 [F4 [F5 [F6 F7]]]]]]. specialize (Hsz eq_refl).
      apply import_signal_ext; unfold dsig_e, top0; cbn [s_kind]; rewrite Ek; unfold dsig_of;
        cbn [ds_name ds_size ds_signed ds_factor ds_offset ds_min ds_max ds_unit s_name s_size s_signed s_scale s_offset s_min s_max s_unit];
        rewrite ?u32_id by lia; try congruence. intros _. repeat split; congruence.
    - apply import_signal_ext; unfold dsig_e, top0; cbn [s_kind]; rewrite Ek;
        cbn [ds_name ds_size ds_signed ds_factor ds_offset ds_min ds_max ds_unit s_name].
      + assumption.
      + change (e_of es (mksignal (s_id s) (s_name s) KEnum 0 None [] (s_size s) (s_signed s) (s_scale s) (s_offset s) (s_min s) (s_max s)
                                 (s_unit s) (s_enum s) (s_gcount s) (s_gsize s) (s_desc s) fl_zero 0 [])) with (e_of es s).
        rewrite (enum_size_u32 _ Hwf). exact Hf.
      + intros Hnone. destruct Hlk as [ei0 [Hl _]]. rewrite Hl in Hnone. discriminate Hnone. }
  unfold Rsig in R'. cbn [s_kind top0] in R'.
  destruct (s_kind s) eqn:Ek; [| |exfalso; apply Hk; reflexivity].
  - subst s'. exists 0, st'. split; [rewrite Ex, E; unfold rimg; rewrite Ek; reflexivity|]. split; [assumption|]. split; [assumption|].
    split; [intros Hc; congruence|exact Hsm].
  - destruct R' as [ei [-> [R1 [R2 R3]]]]. exists ei, st'. split; [rewrite Ex, E; unfold rimg; rewrite Ek; reflexivity|].
    split; [assumption|]. split; [assumption|]. split; [intros _; auto|exact Hsm].
Qed.

(* the filters of one group give back the children *)
Lemma filter_partition_perm : forall {A} (p q : A -> bool) l, (forall x, In x l -> p x && q x = false) ->
  Permutation (filter p l ++ filter q l) (filter (fun x => p x || q x) l).
Proof.
  intros A p q l. induction l as [|x r IH]; intros H; cbn [filter app]; [constructor|].
  specialize (IH (fun y Hy => H y (or_intror Hy))). pose proof (H x (or_introl eq_refl)) as Hx.
  destruct (p x) eqn:Ep, (q x) eqn:Eq; cbn [orb app]; try discriminate Hx.
  - constructor. exact IH.
  - eapply Permutation_trans; [apply Permutation_sym, Permutation_middle|]. constructor. exact IH.
  - exact IH.
Qed.

Lemma walk_perm : forall (g : signal -> Z) (K : list signal) n,
  Permutation (flat_map (fun id => filter (fun c => id =? g c) K) (zrange 0 n))
              (filter (fun c => (0 <=? g c) && (g c <? Z.of_nat n)) K).
Proof.
  intros g K n. induction n as [|n IH].
  - cbn [zrange flat_map]. rewrite (Proofs.filter_nil); [constructor|]. intros c _. lia.
  - rewrite zrange_snoc, flat_map_app. cbn [flat_map]. rewrite app_nil_r.
    eapply Permutation_trans; [apply Permutation_app_tail; exact IH|].
    eapply Permutation_trans; [apply filter_partition_perm; intros x _; lia|].
    erewrite filter_ext; [apply Permutation_refl|]. intros c. cbn beta. lia.
Qed.

Lemma dedup_str_nodup_id : forall l seen, NoDup l -> (forall x, In x l -> ~ In x seen) -> dedup_str seen l = l.
Proof.
  induction l as [|x r IH]; intros seen Hnd Hs; cbn [dedup_str]; [reflexivity|]. inversion Hnd as [|? ? Hni Hr]; subst.
  rewrite (not_in_mem_str x seen) by (apply Hs; left; reflexivity). f_equal. apply IH; [assumption|].
  intros y Hy [Hy'|Hy']; [subst; contradiction|]. apply (Hs y); [right; assumption|assumption].
Qed.

Lemma msg_insert_ok_g : forall es msize done s below start,
  ~ In (s_name s) (map s_name done) -> (forall x, In x below -> ~ In (s_name x) (map s_name done)) ->
  NoDup (map s_name (s :: below)) ->
  0 <= start -> 0 < sig_size es s -> start + sig_size es s <= msize * 8 ->
  (forall d, In d done -> is_topb d = true ->
     overlaps start (start + sig_size es s) (s_rel d) (s_rel d + sig_size es d) = false) ->
  msg_insert es msize done (s, below) start = Ok (done ++ [place s start None []] ++ below).
Proof.
  intros es msize done s below start Hf Hb Hnd H0 Hs Hl Hd. unfold msg_insert.
  rewrite (not_in_mem_str _ _ Hf).
  replace (existsb (fun x => mem_str (s_name x) (map s_name done)) below) with false.
  2:{ symmetry. destruct (existsb _ below) eqn:E; [|reflexivity]. apply existsb_exists in E. destruct E as [x [Hx Hm]].
      apply Proofs.mem_str_true_in in Hm. exfalso. apply (Hb x Hx Hm). }
  rewrite dedup_str_nodup_id by (try assumption; intros x _ []). rewrite map_length, Nat.eqb_refl. cbn [negb].
  unfold verify_insert. replace (start <? 0) with false by lia. replace (sig_size es s >? msize * 8) with false by lia.
  replace (start + sig_size es s >? msize * 8) with false by lia.
  replace (existsb _ (filter _ done)) with false; [reflexivity|].
  symmetry. destruct (existsb _ (filter _ done)) eqn:E; [|reflexivity]. apply existsb_exists in E. destruct E as [d [Hin Ho]].
  apply filter_In in Hin. destruct Hin as [Hin Ht]. rewrite (Hd d Hin) in Ho; [discriminate|]. exact Ht.
Qed.

Lemma index_from_range : forall {A} (l : list A) k i x, In (i, x) (index_from k l) -> k <= i < k + Z.of_nat (length l) /\ In x l.
Proof.
  intros A l. induction l as [|y r IH]; intros k i x H; [destruct H|]. cbn [index_from length] in *. rewrite Nat2Z.inj_succ.
  destruct H as [H|H]; [inversion H; subst; split; [lia|left; reflexivity]|]. apply IH in H. destruct H as [H1 H2]. split; [lia|right; assumption].
Qed.
Lemma index_from_map_img : forall {A B} (f : A -> B) (l : list A) k,
  index_from k (map f l) = map (fun p => (fst p, f (snd p))) (index_from k l).
Proof. intros A B f l. induction l as [|x r IH]; intros k; cbn [map index_from]; [reflexivity|]. rewrite IH. reflexivity. Qed.
Lemma index_from_snd_nodup : forall {A} (l : list A) k, NoDup l -> NoDup (map snd (index_from k l)).
Proof.
  intros A l. induction l as [|x r IH]; intros k H; cbn [index_from map]; [constructor|]. inversion H as [|? ? Hni Hr]; subst.
  constructor; [|apply IH; assumption]. intros Hin. apply in_map_iff in Hin. destruct Hin as [[j y] [Hy Hin]]. cbn [snd] in Hy. subst y.
  apply index_from_range in Hin. tauto.
Qed.
Lemma in_index_from : forall {A} (l : list A) k x, In x l -> exists i, In (i, x) (index_from k l).
Proof.
  intros A l. induction l as [|y r IH]; intros k x H; [destruct H|]. cbn [index_from]. destruct H as [->|H].
  - exists k. left. reflexivity.
  - destruct (IH (k + 1) x H) as [i Hi]. exists i. right. assumption.
Qed.

Lemma NoDup_map_filter2 : forall {A B} (f : A -> B) l, (forall a b, In a l -> In b l -> f a = f b -> a = b) -> NoDup l -> NoDup (map f l).
Proof.
  intros A B f l Hinj Hnd. induction Hnd as [|x r Hni Hr IH]; cbn [map]; constructor.
  - intros Hin. apply in_map_iff in Hin. destruct Hin as [y [Hy Hin]]. apply Hni.
    assert (y = x) by (apply Hinj; [right; assumption|left; reflexivity|assumption]). subst. assumption.
  - apply IH. intros a b Ha Hb. apply Hinj; right; assumption.
Qed.
Lemma sel_width_place : forall s rel p g, sel_width (place s rel p g) = sel_width s.
Proof. reflexivity. Qed.

Lemma map_flat_map : forall {A B C} (f : B -> C) (g : A -> list B) l, map f (flat_map g l) = flat_map (fun x => map f (g x)) l.
Proof. intros A B C f g l. induction l as [|x r IH]; [reflexivity|]. cbn [flat_map]. rewrite map_app, IH. reflexivity. Qed.
Lemma flat_map_ext_in_simple : forall {A B} (f g : A -> list B) l, (forall x, In x l -> f x = g x) -> flat_map f l = flat_map g l.
Proof. intros A B f g l H. induction l as [|x r IH]; [reflexivity|]. cbn [flat_map]. rewrite (H x (or_introl eq_refl)), IH; [reflexivity|]. intros y Hy. apply H. right. assumption. Qed.

Lemma flat_map_cons_perm : forall {A} (g : A -> list A) l, Permutation (flat_map (fun t => t :: g t) l) (l ++ flat_map g l).
Proof.
  intros A g l. induction l as [|x r IH]; [constructor|]. cbn [flat_map app]. constructor.
  eapply Permutation_trans; [apply Permutation_app_head; exact IH|].
  rewrite !app_assoc. apply Permutation_app_tail. apply Permutation_app_comm.
Qed.
Lemma flat_map_single : forall {A B} (g : A -> list B) l x, NoDup l -> In x l -> (forall y, In y l -> y <> x -> g y = []) -> flat_map g l = g x.
Proof.
  intros A B g l x Hnd. induction Hnd as [|y r Hni Hr IH]; intros Hin Hg; [destruct Hin|]. cbn [flat_map].
  destruct Hin as [->|Hin].
  - rewrite (flat_map_ext_in_simple g (fun _ => []) r).
    + assert (E : forall (l0 : list A), flat_map (fun _ : A => @nil B) l0 = []) by (induction l0; cbn; auto). rewrite E. apply app_nil_r.
    + intros z Hz. apply Hg; [right; assumption|]. intros ->. contradiction.
  - rewrite (Hg y (or_introl eq_refl)) by (intros ->; contradiction). cbn [app]. apply IH; [assumption|]. intros z Hz. apply Hg. right. assumption.
Qed.

Lemma NoDup_prefix : forall {A} (a b : list A), NoDup (a ++ b) -> NoDup a.
Proof.
  intros A a b. induction a as [|x r IH]; cbn [app]; intros H; [constructor|]. inversion H as [|? ? Hni Hr]; subst.
  constructor; [intros Hin; apply Hni; apply in_or_app; left; assumption|apply IH; assumption].
Qed.

Lemma gsb : forall ds o p, ds_order ds = o -> ds_start ds = dbc_start_bit p o -> 0 <= p < 2 ^ 31 -> get_start_bit ds = p.
Proof.
  intros ds o p Ho Hs H. unfold get_start_bit. rewrite Ho, Hs. unfold dbc_start_bit. destruct o.
  - apply u32_id. lia.
  - rewrite u32_id by lia.
    destruct (Proofs.start_bit_inverse BigEndian p ltac:(lia)) as [H1 _].
    unfold pos_of_dbc, dbc_of_pos in H1. exact H1.
Qed.

Lemma layout_pairwise : forall es l from lim, Forall (top_ok es) l -> layout_e es from lim l ->
  (forall a, In a l -> from <= s_rel a /\ s_rel a + sig_size es a <= lim) /\
  (forall a b, In a l -> In b l -> a <> b -> s_rel a + sig_size es a <= s_rel b \/ s_rel b + sig_size es b <= s_rel a).
Proof.
  intros es l. induction l as [|x r IH]; intros from lim Hp H; [split; [intros a []|intros a b []]|].
  cbn [layout_e] in H. destruct H as [H1 [H2 H3]]. inversion Hp as [|? ? Hx Hr]; subst.
  pose proof (top_size_pos es x Hx) as Hpos.
  destruct (IH _ _ Hr H3) as [I1 I2]. split.
  - intros a [<-|Ha]; [lia|]. destruct (I1 a Ha). lia.
  - intros a b [<-|Ha] [<-|Hb] Hne.
    + contradiction.
    + left. destruct (I1 b Hb). lia.
    + right. destruct (I1 a Ha). lia.
    + apply I2; assumption.
Qed.

Lemma dedup_z_id : forall l seen, NoDup l -> (forall x, In x l -> ~ In x seen) -> dedup_z seen l = l.
Proof.
  induction l as [|x r IH]; intros seen Hnd Hs; [reflexivity|]. cbn [dedup_z]. inversion Hnd as [|? ? Hni Hr]; subst.
  rewrite (not_in_mem_z _ _ (Hs x (or_introl eq_refl))). f_equal. apply IH; [assumption|].
  intros y Hy [<-|Hin]; [contradiction|apply (Hs y (or_intror Hy) Hin)].
Qed.
Lemma ascending_by_id : forall l prev, ascending prev l -> ascending_by (fun x : Z => x) l.
Proof.
  induction l as [|x r IH]; intros prev H; [exact I|]. cbn in H. destruct H as [H1 H2]. split; [|eapply IH; eauto].
  destruct r as [|y q]; [exact I|]. cbn in H2. lia.
Qed.
Lemma sort_ascending_Z : forall l prev, ascending prev l -> sort_by Z.ltb l = l.
Proof. intros l prev H. apply (sort_by_ascending (fun x : Z => x)). eapply ascending_by_id; eauto. Qed.
Lemma verify_fold_ok : forall es gsize gcount kids size rel gids,
  (forall g, In g gids -> 0 <= g < gcount /\ verify_insert es gsize (filter (fun k => in_group k g) kids) size rel = Ok tt) ->
  fold_left (fun acc g => do _ <- acc;
               if (g <? 0) || (g >=? gcount) then Err "group id out of bounds"%string
               else verify_insert es gsize (filter (fun k => in_group k g) kids) size rel) gids (Ok tt) = Ok tt.
Proof.
  intros es gsize gcount kids size rel gids. induction gids as [|g r IH]; intros H; cbn [fold_left]; [reflexivity|].
  destruct (H g (or_introl eq_refl)) as [Hb Hv]. cbn [bind]. replace ((g <? 0) || (g >=? gcount)) with false by lia. rewrite Hv.
  apply IH. intros x Hx. apply H. right. assumption.
Qed.

Lemma sig_size_std : forall es s, s_kind s = KStandard -> sig_size es s = s_size s.
Proof. intros es s H. unfold sig_size. rewrite H. reflexivity. Qed.
Lemma sig_size_enum : forall es s, s_kind s = KEnum -> sig_size es s = enum_size (e_of es s).
Proof. intros es s H. unfold sig_size, e_of. rewrite H. reflexivity. Qed.

Section MuxImport.
  Variables (es : list enum_def) (env : ienv) (mpos : nat) (m : message) (mx : signal) (names : list string) (st0 : istate).
  Hypothesis Hmm : mmessage es names m.
  Hypothesis Hmx : In mx (m_signals m).
  Hypothesis Hmxm : is_muxb mx = true.
  Let sigs := m_signals m.
  Let msgid := u32 (m_canid m).
  Let o := m_order m.
  Let recs := recs_out m.
  Let selw := sel_width mx.
  Let mstart := s_rel mx.
  Hypothesis Henv : forall s, In s sigs -> is_muxb s = false -> env_sig es env st0 msgid s /\ enum_wf (e_of es s).
  Hypothesis Henvx : desc_of key_eqb (msgid, clear (s_name mx)) (ie_sig_desc env) = s_desc mx.
  Variable nst : bool.
  Hypothesis Hext : forall c, In c sigs -> is_topb c = false ->
    lookup key_eqb (msgid, clear (s_name c)) (ie_ext_muxes env) = match ext_of msgid mx nst c with [] => None | e :: _ => Some e end.
  Hypothesis Hrv0 : ProofsEnum.refs_valid st0.
  Hypothesis Huniq : one_mux sigs.

  Definition img (s : signal) : dsignal :=
    if is_muxb s then mux_dsig o recs s
    else if is_topb s then dsig_e es o recs s
    else child_dsig es o recs mx (u32 (grp s)) s.

  Let Hms : msigs_ok es sigs. Proof. destruct Hmm as [_ [_ [_ [_ [_ [_ [_ [H _]]]]]]]]. exact H. Qed.

  Lemma mx_top : top_ok es mx /\ is_topb mx = true.
  Proof.
    destruct Hms as [_ [_ [Htops [_ [Hch _]]]]].
    destruct (is_topb mx) eqn:Et.
    - split; [|reflexivity]. rewrite Forall_forall in Htops. apply Htops. apply filter_In. auto.
    - exfalso. destruct (Hch mx Hmx Et) as [p [_ [_ [_ [Hk _]]]]]. unfold is_muxb in Hmxm. destruct (s_kind mx); try discriminate. apply Hk. reflexivity.
  Qed.

  (* what is known of a signal that is not the multiplexer *)
  Lemma other_sig : forall s, In s sigs -> s <> mx ->
    is_muxb s = false /\ s_kind s <> KMux /\
    ((is_topb s = true /\ top_ok es s) \/ (is_topb s = false /\ child_ok es mx s)).
  Proof.
    intros s Hs Hne. destruct Hms as [_ [_ [Htops [_ [Hch _]]]]].
    assert (Hnm : is_muxb s = false).
    { destruct (is_muxb s) eqn:E; [|reflexivity]. exfalso. apply Hne. apply Huniq; assumption. }
    split; [assumption|]. split; [intros Hk; unfold is_muxb in Hnm; rewrite Hk in Hnm; discriminate|].
    destruct (is_topb s) eqn:Et.
    - left. split; [reflexivity|]. rewrite Forall_forall in Htops. apply Htops. apply filter_In. auto.
    - right. split; [reflexivity|]. destruct (Hch s Hs Et) as [p [Hp [_ [Hpm Hok]]]].
      rewrite (Huniq mx p Hmx Hp Hmxm Hpm). exact Hok.
  Qed.

  Lemma other_size : forall s, In s sigs -> s <> mx -> (s_kind s = KStandard -> 0 < s_size s < 2 ^ 32) /\ 0 < sig_size es s < 2 ^ 32.
  Proof.
    intros s Hs Hne. destruct (other_sig s Hs Hne) as [Hnm [Hk Hc]]. destruct (Henv s Hs Hnm) as [_ Hwf].
    assert (Hstd : s_kind s = KStandard -> 0 < s_size s < 2 ^ 32).
    { destruct Hc as [[_ [_ [_ [_ [_ [_ [_ Hsz]]]]]]]|[_ [_ [_ [_ [_ [_ [_ [Hsz _]]]]]]]]].
      - intros E. rewrite E in Hsz. exact Hsz.
      - exact Hsz. }
    split; [exact Hstd|]. destruct (s_kind s) eqn:Ek.
    - rewrite (sig_size_std es s Ek). apply Hstd. reflexivity.
    - rewrite (sig_size_enum es s Ek). pose proof (enum_size_pos (e_of es s)). pose proof (enum_size_u32 _ Hwf) as Hu.
      unfold u32 in Hu. pose proof (Z.mod_pos_bound (enum_size (e_of es s)) (2 ^ 32) ltac:(lia)). lia.
    - exfalso. apply Hk. reflexivity.
  Qed.

  (* ---- the first loop: every signal but the switch is imported ---- *)
  Variable mid : Z.
  Definition ent (EI : signal -> Z) (p : Z * signal) : subtree * dsignal := ((rimg (fst p) (snd p) (EI (snd p)), []), img (snd p)).
  Definition childp (p : Z * signal) : bool := negb (is_topb (snd p)).
  Definition plainp (p : Z * signal) : bool := is_topb (snd p) && negb (is_muxb (snd p)).
  Definition last_of (la : Z) (Xl : list (Z * signal)) : Z :=
    fold_left (fun a p => if childp p then (if get_start_bit (img (snd p)) >? a then get_start_bit (img (snd p)) else a) else a) Xl la.

  Lemma img_fields : forall s, In s sigs -> s <> mx ->
    ds_name (img s) = clear (s_name s) /\ ds_size (img s) = sig_size es s /\ ds_muxed (img s) = negb (is_topb s) /\ ds_muxor (img s) = false.
  Proof.
    intros s Hs Hne. destruct (other_sig s Hs Hne) as [Hnm [Hk Hc]]. destruct (other_size s Hs Hne) as [Hstd Hsz]. destruct (Henv s Hs Hnm) as [_ Hwf].
    unfold img. rewrite Hnm.
    destruct Hc as [[Ht _]|[Ht _]]; rewrite Ht; unfold dsig_e, child_dsig, dsig_of; destruct (s_kind s) eqn:Ek; try (exfalso; apply Hk; reflexivity);
      cbn [ds_name ds_size ds_muxed ds_muxor negb];
      rewrite ?(sig_size_std es s Ek), ?(sig_size_enum es s Ek), ?(enum_size_u32 _ Hwf); rewrite ?u32_id by (specialize (Hstd eq_refl); lia); auto.
  Qed.

  Definition f1 (acc : result (istate * list (subtree * dsignal) * list (subtree * dsignal) * Z)) (p : Z * dsignal) :=
    let '(id, ds) := p in
    do (st0, muxed, stds, last) <- acc;
    if id =? mid then Ok (st0, muxed, stds, last) else
    do (s, st1) <- import_signal env st0 mpos msgid id ds;
    let sp := get_start_bit ds in
    if ds_muxed ds
    then Ok (st1, muxed ++ [((s, []), ds)], stds, if sp >? last then sp else last)
    else Ok (st1, muxed, stds ++ [((s, []), ds)], last).

  (* the exported line of a signal carries its data *)
  Lemma img_data : forall s, In s sigs -> s <> mx ->
    match s_kind s with
    | KStandard => ds_size (img s) = s_size s /\ ds_signed (img s) = s_signed s /\ ds_factor (img s) = s_scale s /\ ds_offset (img s) = s_offset s /\
                   ds_min (img s) = s_min s /\ ds_max (img s) = s_max s /\ ds_unit (img s) = s_unit s
    | _ => ds_size (img s) = enum_size (e_of es s)
    end.
  Proof.
    intros s Hs Hne. destruct (other_sig s Hs Hne) as [Hnm [Hk Hc]]. destruct (other_size s Hs Hne) as [Hstd _]. destruct (Henv s Hs Hnm) as [_ Hwf].
    unfold img. rewrite Hnm.
    destruct (is_topb s); unfold dsig_e, child_dsig, dsig_of; destruct (s_kind s) eqn:Ek; try (exfalso; apply Hk; reflexivity);
      cbn [ds_size ds_signed ds_factor ds_offset ds_min ds_max ds_unit];
      rewrite ?(enum_size_u32 _ Hwf); rewrite ?u32_id by (specialize (Hstd eq_refl); lia); auto 10.
  Qed.

  Lemma loop1 : forall Xl st mu sd la,
    (forall p, In p Xl -> In (snd p) sigs /\ (fst p = mid <-> snd p = mx)) -> NoDup (map snd Xl) ->
    Inv st -> ProofsEnum.st_le st0 st ->
    exists st' EI,
      fold_left f1 (map (fun p => (fst p, img (snd p))) Xl) (Ok (st, mu, sd, la))
      = Ok (st', mu ++ map (ent EI) (filter childp Xl), sd ++ map (ent EI) (filter plainp Xl), last_of la Xl) /\
      Inv st' /\ ProofsEnum.st_le st st' /\
      (forall p, In p Xl -> snd p <> mx -> EIok es st' (snd p) (EI (snd p))) /\
      (forall p, In p Xl -> snd p <> mx -> lookup key_eqb (msgid, clear (s_name (snd p))) (is_sigmap st') = Some (mpos, fst p)) /\
      (forall k, (forall p, In p Xl -> k <> (msgid, clear (s_name (snd p)))) -> lookup key_eqb k (is_sigmap st') = lookup key_eqb k (is_sigmap st)).
  Proof.
    induction Xl as [|[id s] r IH]; intros st mu sd la HX Hnd HI Hle; cbn [map fold_left filter last_of].
    - exists st, (fun _ => 0). rewrite !app_nil_r. split; [reflexivity|]. split; [assumption|]. split; [apply ProofsEnum.st_le_refl|].
      split; [intros p []|]. split; [intros p []|auto].
    - destruct (HX (id, s) (or_introl eq_refl)) as [Hs Hmid]. cbn [fst snd] in Hs, Hmid.
      assert (HXr : forall p, In p r -> In (snd p) sigs /\ (fst p = mid <-> snd p = mx)) by (intros p Hp; apply HX; right; assumption).
      cbn [map] in Hnd. inversion Hnd as [|? ? Hni Hndr]; subst.
      unfold f1 at 2. cbn [bind fst snd].
      destruct (id =? mid) eqn:Em.
      + apply Z.eqb_eq in Em. assert (s = mx) by (apply Hmid; assumption). subst s.
        destruct mx_top as [_ Ht]. unfold childp, plainp. cbn [snd]. rewrite Ht, Hmxm. cbn [negb andb].
        destruct (IH st mu sd la HXr Hndr HI Hle) as [st' [EI [E1 [E2 [E3 [E6 [E4 E5]]]]]]]. exists st', EI.
        split; [exact E1|]. split; [exact E2|]. split; [exact E3|]. split; [|split].
        * intros p [<-|Hp] Hne; [cbn [snd] in Hne; contradiction|apply E6; assumption].
        * intros p [<-|Hp] Hne; [cbn [snd] in Hne; contradiction|apply E4; assumption].
        * intros k Hk. apply E5. intros p Hp. apply Hk. right. assumption.
      + assert (Hne : s <> mx) by (intros ->; apply Z.eqb_neq in Em; apply Em; apply Hmid; reflexivity).
        destruct (other_sig s Hs Hne) as [Hnm [Hk Hc]]. destruct (img_fields s Hs Hne) as [F1 [F2 [F3 F4]]].
        destruct (other_size s Hs Hne) as [Hstd _].
        destruct (Henv s Hs Hnm) as [He1 He2].
        destruct (import_signal_g es env st0 st mpos msgid id (img s) s Hk Hstd He2 He1 HI Hle F1 (img_data s Hs Hne))
          as [ei [st2 [Ei [I2 [L2 [K2 Hst2]]]]]].
        rewrite Ei. cbn [bind]. rewrite F3. unfold childp, plainp. cbn [snd]. rewrite Hnm.
        assert (Hfresh : forall p, In p r -> (msgid, clear (s_name s)) <> (msgid, clear (s_name (snd p)))).
        { intros p Hp Heq. inversion Heq as [Hq]. destruct Hms as [_ [Hnames _]].
          assert (s = snd p) by (apply (NoDup_map_inj (fun x => clear (s_name x)) sigs); try assumption; apply HXr; assumption).
          apply Hni. rewrite H. apply in_map. assumption. }
        assert (Hle2 : ProofsEnum.st_le st0 st2) by (eapply ProofsEnum.st_le_trans; [exact Hrv0|exact Hle|exact L2]).
        assert (Hrv : ProofsEnum.refs_valid st) by (destruct HI as [I1 _]; exact I1).
        assert (Hrv2 : ProofsEnum.refs_valid st2) by (destruct I2 as [I1 _]; exact I1).
        set (EIx := fun (EIr : signal -> Z) (x : signal) => if String.eqb (clear (s_name x)) (clear (s_name s)) then ei else EIr x).
        assert (HEI0 : forall EIr, EIx EIr s = ei) by (intros EIr; unfold EIx; rewrite String.eqb_refl; reflexivity).
        assert (HEIr : forall EIr p, In p r -> EIx EIr (snd p) = EIr (snd p)).
        { intros EIr p Hp. unfold EIx. destruct (String.eqb (clear (s_name (snd p))) (clear (s_name s))) eqn:E; [|reflexivity].
          apply String.eqb_eq in E. exfalso. apply (Hfresh p Hp). rewrite E. reflexivity. }
        assert (Hmapr : forall EIr (f : Z * signal -> bool), map (ent (EIx EIr)) (filter f r) = map (ent EIr) (filter f r)).
        { intros EIr f. apply map_ext_in. intros p Hp. apply filter_In in Hp. destruct Hp as [Hp _]. unfold ent. rewrite (HEIr EIr p Hp). reflexivity. }
        destruct (is_topb s) eqn:Et; cbn [negb andb map app].
        * destruct (IH st2 mu (sd ++ [((rimg id s ei, []), img s)]) la HXr Hndr I2 Hle2) as [st' [EIr [E1 [E2 [E3 [E6 [E4 E5]]]]]]].
          exists st', (EIx EIr). rewrite !Hmapr. unfold ent at 2. cbn [fst snd]. rewrite HEI0.
          split; [rewrite <- app_assoc in E1; exact E1|]. split; [exact E2|]. split; [eapply ProofsEnum.st_le_trans; eauto|]. split; [|split].
          -- intros p [<-|Hp] Hnx; cbn [fst snd]; [rewrite HEI0; eapply EIok_mono; eauto|rewrite (HEIr EIr p Hp); apply E6; assumption].
          -- intros p [<-|Hp] Hnx; cbn [fst snd]; [rewrite (E5 _ Hfresh), Hst2; apply lookup_key_head|apply E4; assumption].
          -- intros k Hk'. rewrite E5 by (intros p Hp; apply Hk'; right; assumption). rewrite Hst2. apply lookup_key_skip. apply (Hk' (id, s)). left. reflexivity.
        * destruct (IH st2 (mu ++ [((rimg id s ei, []), img s)]) sd (if get_start_bit (img s) >? la then get_start_bit (img s) else la) HXr Hndr I2 Hle2)
            as [st' [EIr [E1 [E2 [E3 [E6 [E4 E5]]]]]]].
          exists st', (EIx EIr). rewrite !Hmapr. unfold ent at 1. cbn [fst snd]. rewrite HEI0.
          split; [rewrite <- app_assoc in E1; exact E1|]. split; [exact E2|]. split; [eapply ProofsEnum.st_le_trans; eauto|]. split; [|split].
          -- intros p [<-|Hp] Hnx; cbn [fst snd]; [rewrite HEI0; eapply EIok_mono; eauto|rewrite (HEIr EIr p Hp); apply E6; assumption].
          -- intros p [<-|Hp] Hnx; cbn [fst snd]; [rewrite (E5 _ Hfresh), Hst2; apply lookup_key_head|apply E4; assumption].
          -- intros k Hk'. rewrite E5 by (intros p Hp; apply Hk'; right; assumption). rewrite Hst2. apply lookup_key_skip. apply (Hk' (id, s)). left. reflexivity.
  Qed.

  (* ---- geometry ---- *)
  Lemma msize_bounds : 0 <= m_size m <= 8.
  Proof. destruct Hmm as [_ [_ [_ [_ [_ [_ [H _]]]]]]]. exact H. Qed.

  Lemma tops_geo :
    (forall t, In t sigs -> is_topb t = true -> 0 <= s_rel t /\ s_rel t + sig_size es t <= m_size m * 8) /\
    (forall a b, In a sigs -> In b sigs -> is_topb a = true -> is_topb b = true -> a <> b ->
       s_rel a + sig_size es a <= s_rel b \/ s_rel b + sig_size es b <= s_rel a).
  Proof.
    destruct Hmm as [_ [_ [_ [_ [_ [_ [_ [_ [Hlay _]]]]]]]]]. destruct Hms as [_ [_ [Htops _]]].
    destruct (layout_pairwise es _ _ _ Htops Hlay) as [L1 L2]. split.
    - intros t Ht Htt. apply L1. apply filter_In. auto.
    - intros a b Ha Hb Hta Htb Hne. apply L2; try assumption; apply filter_In; auto.
  Qed.

  Lemma selw_facts : 1 <= selw <= 32 /\ s_gcount mx <= 2 ^ selw /\ 1 <= s_gcount mx /\ 1 <= s_gsize mx /\ s_gcount mx <= 2 ^ 32.
  Proof using Hmm Hmx Hmxm.
    clear Henv Henvx Hext Hrv0. destruct mx_top as [[_ [_ [_ [_ [_ [_ Hk]]]]]] _]. pose proof Hmxm as Hmk. unfold is_muxb in Hmk. destruct (s_kind mx); try discriminate.
    destruct Hk as [[Hg1 Hg2] Hgs]. unfold selw, sel_width, calc_size_from_value.
    destruct (s_gcount mx - 1 =? 0) eqn:E0.
    - change (2 ^ 1) with 2. lia.
    - replace (s_gcount mx - 1 <? 0) with false by lia.
      assert (Hv : 0 < s_gcount mx - 1 < 2 ^ 32) by lia.
      replace (s_gcount mx - 1 <? 2 ^ 63) with true by lia.
      pose proof (Z.log2_nonneg (s_gcount mx - 1)). assert (Z.log2 (s_gcount mx - 1) < 32) by (apply Z.log2_lt_pow2; lia).
      destruct (Z.log2_spec (s_gcount mx - 1) ltac:(lia)) as [_ Hup]. rewrite <- Z.add_1_r in Hup. lia.
  Qed.

  Lemma start_top : forall t, In t sigs -> is_topb t = true -> get_start_bit (img t) = s_rel t.
  Proof.
    intros t Ht Htt. destruct (proj1 tops_geo t Ht Htt) as [G1 G2]. pose proof msize_bounds.
    assert (Hpos : 0 < sig_size es t).
    { destruct Hms as [_ [_ [Htops _]]]. rewrite Forall_forall in Htops. apply (top_size_pos es t). apply Htops. apply filter_In. auto. }
    apply (gsb _ o); try lia; unfold img; rewrite Htt; destruct (is_muxb t); try reflexivity;
      unfold dsig_e; destruct (s_kind t); reflexivity.
  Qed.

  Lemma child_geo : forall c, In c sigs -> is_topb c = false ->
    0 <= s_rel c /\ 0 < sig_size es c /\ s_rel c + sig_size es c <= s_gsize mx /\
    mstart + selw + s_rel c + sig_size es c <= m_size m * 8 /\ 0 <= mstart.
  Proof.
    intros c Hc Hct. assert (Hne : c <> mx) by (intros ->; destruct mx_top as [_ H]; congruence).
    destruct (other_sig c Hc Hne) as [_ [_ [[Ht _]|[_ Hok]]]]; [congruence|].
    destruct Hok as [_ [_ [_ [_ [_ [_ [_ [Hr Hend]]]]]]]].
    destruct (other_size c Hc Hne) as [_ Hsz].
    destruct mx_top as [_ Hmt]. destruct (proj1 tops_geo mx Hmx Hmt) as [G1 G2].
    assert (Hss : sig_size es mx = s_gsize mx + selw).
    { unfold sig_size. unfold is_muxb in Hmxm. destruct (s_kind mx); try discriminate. reflexivity. }
    rewrite Hss in G2. unfold mstart. lia.
  Qed.

  Lemma start_child : forall c, In c sigs -> is_topb c = false -> get_start_bit (img c) = mstart + selw + s_rel c.
  Proof.
    intros c Hc Hct. destruct (child_geo c Hc Hct) as [G1 [G2 [G3 [G4 G5]]]]. pose proof msize_bounds. destruct selw_facts as [Hs _].
    assert (Hne : c <> mx) by (intros ->; destruct mx_top as [_ H']; congruence).
    destruct (other_sig c Hc Hne) as [Hnm _].
    apply (gsb _ o); try lia; unfold img; rewrite Hnm, Hct; unfold child_dsig; destruct (s_kind c); reflexivity.
  Qed.

  Definition mux_end : Z := mstart + selw + s_gsize mx.

  Lemma sig_size_mx : sig_size es mx = s_gsize mx + selw.
  Proof. unfold sig_size. unfold is_muxb in Hmxm. destruct (s_kind mx); try discriminate. reflexivity. Qed.

  Lemma last_bound : forall Xl la, (forall p, In p Xl -> In (snd p) sigs) -> la < mux_end -> last_of la Xl < mux_end.
  Proof.
    induction Xl as [|p r IH]; intros la HX Hla; cbn [last_of fold_left]; [exact Hla|]. fold (last_of (if childp p then (if get_start_bit (img (snd p)) >? la then get_start_bit (img (snd p)) else la) else la) r).
    apply IH; [intros q Hq; apply HX; right; assumption|].
    unfold childp. destruct (is_topb (snd p)) eqn:Et; cbn [negb]; [exact Hla|].
    rewrite (start_child (snd p) (HX p (or_introl eq_refl)) Et).
    destruct (child_geo (snd p) (HX p (or_introl eq_refl)) Et) as [G1 [G2 [G3 _]]]. unfold mux_end in *.
    destruct (_ >? la); lia.
  Qed.

  Definition f2 (st1 : istate) (msize last : Z) (acc : result (mstate * list (subtree * dsignal))) (p : subtree * dsignal) :=
    let '(t, ds) := p in
    do (ms, muxed2) <- acc;
    let sp := get_start_bit ds in
    if (sp >? mstart) && (sp <? last) then Ok (ms, muxed2 ++ [(t, ds)])
    else do ms' <- (let '(st0, sigs0) := ms in do sigs' <- msg_insert (is_enums st0) msize sigs0 t sp; Ok (st0, sigs')); Ok (ms', muxed2).

  Lemma plain_facts : forall t, In t sigs -> is_topb t = true -> is_muxb t = false -> 0 < sig_size es t /\ t <> mx.
  Proof.
    intros t Ht Htt Hnm. assert (Hne : t <> mx) by (intros ->; congruence).
    destruct (other_size t Ht Hne) as [_ Hsz]. split; [lia|assumption].
  Qed.

  Definition kstep (es' : list enum_def) (mx0 : signal) (acc : result (list signal * list signal)) (p : subtree * dsignal) :=
    do (kids, belows) <- acc;
    let rel := get_start_bit (snd p) - mstart - selw in
    do gids <- child_groups env msgid (s_gcount mx0) (fst (fst p)) (snd p);
    do c <- mux_insert es' mx0 kids (fst (fst p)) rel gids;
    Ok (kids ++ [c], belows ++ snd (fst p)).

  Definition mx_img (gs : Z) : signal :=
    mksignal mid (clear (s_name mx)) KMux mstart None [] 0 false fl_one fl_zero fl_zero fl_zero EmptyString
             0 (2 ^ selw) gs (s_desc mx) fl_zero 0 [].
  Definition cend (c : signal) : Z := sig_size es c + (mstart + selw + s_rel c).

  (* ---- with the enum indices the first loop resolved ---- *)
  Section WithEI.
    Variable EI : signal -> Z.
    Variable st1 : istate.
    Hypothesis HEI : forall s, In s sigs -> s <> mx -> EIok es st1 s (EI s).
    Let es1 := is_enums st1.

    Definition rim (p : Z * signal) : signal := rimg (fst p) (snd p) (EI (snd p)).
    Definition timg (p : Z * signal) : signal := place (rim p) (s_rel (snd p)) None [].
    (* the groups the importer stores: the exported membership, or none (fixed) when it covers the imported group
       count 2^width *)
    Definition igrp (c : signal) : list Z :=
      if Z.of_nat (length (mem_of (s_gcount mx) c)) =? 2 ^ selw then [] else mem_of (s_gcount mx) c.
    Definition kimg (p : Z * signal) : signal := place (rim p) (s_rel (snd p)) (Some mid) (igrp (snd p)).

    Lemma ent_rim : forall p, ent EI p = ((rim p, []), img (snd p)).
    Proof. reflexivity. Qed.
    Lemma rim_size : forall p, In (snd p) sigs -> snd p <> mx -> sig_size es1 (rim p) = sig_size es (snd p).
    Proof. intros p Hs Hne. destruct (other_sig _ Hs Hne) as [_ [Hk _]]. apply rimg_size; [assumption|apply HEI; assumption]. Qed.
    Lemma rim_name : forall p, s_name (rim p) = clear (s_name (snd p)).
    Proof. intros p. apply (rimg_fields (fst p) (snd p) (EI (snd p))). Qed.

    Lemma loop2 : forall last mu l done, last < mux_end ->
      NoDup (map snd (done ++ l)) ->
      (forall p, In p (done ++ l) -> In (snd p) sigs /\ is_topb (snd p) = true /\ is_muxb (snd p) = false) ->
      fold_left (f2 st1 (m_size m) last) (map (ent EI) l) (Ok ((st1, map timg done), mu)) = Ok ((st1, map timg (done ++ l)), mu).
    Proof.
      intros last mu l. induction l as [|p r IH]; intros done Hla Hnd HP; cbn [map fold_left]; [rewrite app_nil_r; reflexivity|].
      destruct (HP p ltac:(apply in_or_app; right; left; reflexivity)) as [Hs [Ht Hnm]].
      destruct (plain_facts _ Hs Ht Hnm) as [Hpos Hne].
      destruct (proj1 tops_geo _ Hs Ht) as [G1 G2]. destruct mx_top as [_ Hmt].
      unfold f2 at 2. rewrite ent_rim. cbv zeta. cbn [bind fst snd].
      rewrite (start_top _ Hs Ht).
      assert (Hcond : (s_rel (snd p) >? mstart) && (s_rel (snd p) <? last) = false).
      { destruct (proj2 tops_geo (snd p) mx Hs Hmx Ht Hmt Hne) as [Hd|Hd]; try rewrite sig_size_mx in Hd; unfold mux_end, mstart in *; lia. }
      rewrite Hcond.
      rewrite msg_insert_ok_g.
      - cbn [bind app]. replace (map timg done ++ [place (rim p) (s_rel (snd p)) None []]) with (map timg (done ++ [p]))
          by (rewrite map_app; reflexivity).
        rewrite (IH (done ++ [p])); [rewrite <- app_assoc; reflexivity|assumption|rewrite <- app_assoc; assumption|rewrite <- app_assoc; assumption].
      - rewrite rim_name. intros Hin. rewrite map_map in Hin. apply in_map_iff in Hin. destruct Hin as [q [Hq Hqin]].
        cbn [s_name timg place] in Hq. rewrite rim_name in Hq.
        destruct (HP q ltac:(apply in_or_app; left; assumption)) as [Hqs [Hqt Hqm]].
        destruct Hms as [_ [Hnm' _]]. assert (snd q = snd p) by (apply (NoDup_map_inj (fun s => clear (s_name s)) sigs); assumption).
        rewrite map_app in Hnd. cbn [map] in Hnd. apply NoDup_remove_2 in Hnd. apply Hnd. apply in_or_app. left. rewrite <- H. apply in_map. assumption.
      - intros x [].
      - constructor; [intros []|constructor].
      - assumption.
      - fold es1. rewrite (rim_size p Hs Hne). assumption.
      - fold es1. rewrite (rim_size p Hs Hne). assumption.
      - intros d Hd _. apply in_map_iff in Hd. destruct Hd as [q [<- Hqin]].
        destruct (HP q ltac:(apply in_or_app; left; assumption)) as [Hqs [Hqt Hqm]].
        destruct (plain_facts _ Hqs Hqt Hqm) as [_ Hqne].
        assert (Hpq : snd p <> snd q).
        { intros Heq. rewrite map_app in Hnd. cbn [map] in Hnd. apply NoDup_remove_2 in Hnd. apply Hnd. apply in_or_app. left. rewrite Heq. apply in_map. assumption. }
        fold es1. unfold timg. rewrite ProofsLayout.sig_size_place, (rim_size p Hs Hne), (rim_size q Hqs Hqne). unfold overlaps. cbn [s_rel place].
        destruct (proj2 tops_geo (snd p) (snd q) Hs Hqs Ht Hqt Hpq) as [Hd|Hd]; lia.
    Qed.

    (* ---- the multiplexer and its children ---- *)
    Definition ebit (a : Z) (l : list (Z * signal)) : Z :=
      fold_left (fun acc (p : subtree * dsignal) =>
                   let e := sig_size es1 (fst (fst p)) + get_start_bit (snd p) in if e >? acc then e else acc) (map (ent EI) l) a.

    Lemma child_entry : forall p, In (snd p) sigs -> is_topb (snd p) = false ->
      sig_size es1 (fst (fst (ent EI p))) + get_start_bit (snd (ent EI p)) = cend (snd p) /\ snd p <> mx.
    Proof.
      intros p Hs Ht. assert (Hne : snd p <> mx) by (intros Heq; destruct mx_top as [_ H']; rewrite Heq in Ht; congruence).
      split; [|assumption]. rewrite ent_rim. cbn [fst snd]. rewrite (start_child _ Hs Ht), (rim_size p Hs Hne). reflexivity.
    Qed.

    Lemma ebit_spec : forall l a, (forall p, In p l -> In (snd p) sigs /\ is_topb (snd p) = false) ->
      a <= ebit a l /\ (forall p, In p l -> cend (snd p) <= ebit a l) /\
      (forall B, a <= B -> (forall p, In p l -> cend (snd p) <= B) -> ebit a l <= B).
    Proof.
      intros l. induction l as [|p r IH]; intros a HP; unfold ebit; cbn [map fold_left].
      - split; [lia|]. split; [intros p []|intros B HB _; exact HB].
      - destruct (HP p (or_introl eq_refl)) as [Hs Ht]. destruct (child_entry p Hs Ht) as [He _]. cbv zeta. rewrite He.
        fold (ebit (if cend (snd p) >? a then cend (snd p) else a) r).
        destruct (IH (if cend (snd p) >? a then cend (snd p) else a) (fun q Hq => HP q (or_intror Hq))) as [I1 [I2 I3]].
        split; [destruct (cend (snd p) >? a) eqn:E; lia|]. split.
        + intros q [<-|Hq]; [destruct (cend (snd p) >? a) eqn:E; lia|apply I2; assumption].
        + intros B HB Hall. apply I3; [|intros q Hq; apply Hall; right; assumption].
          pose proof (Hall p (or_introl eq_refl)). destruct (cend (snd p) >? a); lia.
    Qed.

    Lemma igrp_spec : forall c, In c sigs -> is_topb c = false ->
      (igrp c = [] \/ (igrp c <> [] /\ ascending (-1) (igrp c) /\ (forall g, In g (igrp c) -> g < s_gcount mx))) /\
      (forall g, 0 <= g < s_gcount mx -> in_group (place (rim (0, c)) 0 (Some mid) (igrp c)) g = in_group c g) /\
      (s_groups c = [] -> mem_of (s_gcount mx) c = zrange 0 (Z.to_nat (s_gcount mx))).
    Proof.
      intros c Hc Hct. assert (Hne : c <> mx) by (intros ->; destruct mx_top as [_ H']; congruence).
      destruct (other_sig c Hc Hne) as [_ [_ [[Ht _]|[_ Hok]]]]; [congruence|].
      destruct selw_facts as [_ [_ [Hg1 _]]].
      destruct (mem_of_ascending mx c (child_gok es mx c Hok)) as [Ma Mb]. pose proof (mem_of_nonempty mx c (child_gok es mx c Hok)) as Mn.
      assert (Hfull : Z.of_nat (length (mem_of (s_gcount mx) c)) = 2 ^ selw -> mem_of (s_gcount mx) c = zrange 0 (Z.to_nat (2 ^ selw)) /\ s_gcount mx = 2 ^ selw).
      { intros Hl. destruct selw_facts as [_ [Hgc' _]].
        assert (E : mem_of (s_gcount mx) c = zrange 0 (length (mem_of (s_gcount mx) c))).
        { apply ascending_full; [exact Ma|]. intros g Hg. specialize (Mb g Hg). lia. }
        split; [rewrite E at 1; f_equal; lia|].
        destruct (ascending_count _ _ _ Ma Mb) as [En|Hcnt]; [contradiction|]. lia. }
      unfold igrp. destruct (Z.of_nat (length (mem_of (s_gcount mx) c)) =? 2 ^ selw) eqn:El.
      - apply Z.eqb_eq in El. destruct (Hfull El) as [Hz Hgc2]. split; [left; reflexivity|]. split.
        + intros g Hg. unfold in_group at 1. cbn [s_groups place]. symmetry.
          apply (in_group_mem mx c Hg1 g Hg). rewrite Hz. apply in_zrange. lia.
        + intros Eg. unfold mem_of. rewrite Eg. reflexivity.
      - split; [right; split; [exact Mn|split; assumption]|]. split.
        + intros g Hg. unfold in_group at 1. cbn [s_groups place].
          destruct (mem_of (s_gcount mx) c) as [|z0 zr] eqn:Ez; [contradiction|]. rewrite <- Ez.
          destruct (in_group c g) eqn:Eig.
          * apply mem_z_in. apply (in_group_mem mx c Hg1 g Hg). exact Eig.
          * destruct (mem_z g (mem_of (s_gcount mx) c)) eqn:Em; [|reflexivity]. apply mem_z_in in Em.
            apply (in_group_mem mx c Hg1 g Hg) in Em. congruence.
        + intros Eg. unfold mem_of. rewrite Eg. reflexivity.
    Qed.

    Lemma child_groups_igrp : forall p, In (snd p) sigs -> is_topb (snd p) = false ->
      child_groups env msgid (2 ^ selw) (rim p) (img (snd p)) = Ok (igrp (snd p)).
    Proof.
      intros p Hs Ht. assert (Hne : snd p <> mx) by (intros Heq; destruct mx_top as [_ H']; rewrite Heq in Ht; congruence).
      destruct (other_sig _ Hs Hne) as [Hnm [Hk [[Htt _]|[_ Hok]]]]; [congruence|].
      destruct (img_fields _ Hs Hne) as [F1 [F2 [F3 _]]].
      destruct selw_facts as [Hsw [Hgc' [Hg1 [_ Hg32]]]].
      destruct (mem_of_ascending mx (snd p) (child_gok es mx (snd p) Hok)) as [Ma Mb]. pose proof (mem_of_nonempty mx (snd p) (child_gok es mx (snd p) Hok)) as Mn.
      destruct (grp_head mx (snd p) (child_gok es mx (snd p) Hok)) as [mr Hmr]. pose proof (grp_range mx (snd p) (child_gok es mx (snd p) Hok)) as Hgr.
      unfold child_groups. rewrite rim_name, (Hext (snd p) Hs Ht). unfold ext_of.
      destruct (negb nst && Nat.eqb (length (mem_of (s_gcount mx) (snd p))) 1) eqn:El.
      - (* a single group and no SG_MUL_VAL_ entry: the switch value of the SG_ line *)
        rewrite F3, Ht. cbn [negb]. apply andb_true_iff in El. destruct El as [_ El]. apply Nat.eqb_eq in El. rewrite Hmr in El. destruct mr; [|discriminate El].
        assert (Hsw' : ds_switch (img (snd p)) = grp (snd p)).
        { unfold img. rewrite Hnm, Ht. unfold child_dsig. destruct (s_kind (snd p)); cbn [ds_switch]; apply u32_id; lia. }
        rewrite Hsw'. f_equal. unfold igrp. rewrite Hmr. cbn [length].
        assert (H2w : 2 <= 2 ^ selw) by (change 2 with (2 ^ 1) at 1; apply Z.pow_le_mono_r; lia).
        replace (Z.of_nat 1 =? 2 ^ selw) with false by lia. reflexivity.
      - cbn [em_ranges]. rewrite mux_ranges_roundtrip; [|assumption|intros x Hx; specialize (Mb x Hx); lia|].
        2:{ apply Z.pow_le_mono_r; lia. }
        cbn [bind]. rewrite dedup_z_id by (try (eapply ascending_nodup; exact Ma); intros x _ []).
        unfold igrp. reflexivity.
    Qed.

    Lemma mux_kid_step : forall mx0 done p,
      s_id mx0 = mid -> s_gcount mx0 = 2 ^ selw ->
      (forall q, In q (done ++ [p]) -> In (snd q) sigs /\ is_topb (snd q) = false /\ s_rel (snd q) + sig_size es (snd q) <= s_gsize mx0) ->
      NoDup (map snd (done ++ [p])) ->
      kstep es1 mx0 (Ok (map kimg done, [])) (ent EI p) = Ok (map kimg (done ++ [p]), []).
    Proof.
      intros mx0 done p Hid Hgc HP Hnd. unfold kstep.
      destruct (HP p ltac:(apply in_or_app; right; left; reflexivity)) as [Hs [Ht Hfit]].
      assert (Hne : snd p <> mx) by (intros Heq; destruct mx_top as [_ H']; rewrite Heq in Ht; congruence).
      destruct (other_sig _ Hs Hne) as [Hnm [Hk [[Htt _]|[_ Hok]]]]; [congruence|].
      destruct (child_geo _ Hs Ht) as [G1 [G2 [G3 [G4 G5]]]].
      destruct selw_facts as [Hsw [Hgc' [Hg1 [_ Hg32]]]].
      cbn [bind]. rewrite ent_rim. cbn [fst snd]. cbv zeta.
      pose proof (rim_size p Hs Hne) as Hcsz.
      rewrite Hgc, (child_groups_igrp p Hs Ht). cbn [bind].
      rewrite (start_child _ Hs Ht).
      replace (mstart + selw + s_rel (snd p) - mstart - selw) with (s_rel (snd p)) by lia.
      destruct (igrp_spec (snd p) Hs Ht) as [Hform [Hgrp_p _]].
      (* any child already inserted that shares group g with this one is disjoint from it *)
      assert (Hdisj : forall q g, In q done -> 0 <= g -> in_group (snd q) g = true -> in_group (snd p) g = true ->
                overlaps (s_rel (snd p)) (s_rel (snd p) + sig_size es (snd p)) (s_rel (kimg q)) (s_rel (kimg q) + sig_size es1 (kimg q)) = false).
      { intros q g Hq Hg0 Hqg Hpg.
        destruct (HP q ltac:(apply in_or_app; left; assumption)) as [Hqs [Hqt _]].
        assert (Hqne : snd q <> mx) by (intros Heq; destruct mx_top as [_ H']; rewrite Heq in Hqt; congruence).
        assert (Hpq : snd p <> snd q).
        { intros Heq. rewrite map_app in Hnd. cbn [map] in Hnd. apply NoDup_remove_2 in Hnd. apply Hnd. apply in_or_app. left. rewrite Heq. apply in_map. assumption. }
        destruct Hms as [_ [_ [_ [_ [_ Hdis]]]]].
        destruct (other_sig _ Hqs Hqne) as [_ [_ [[Hqtt _]|[_ Hqok]]]]; [congruence|].
        assert (Hpar : s_parent (snd p) = s_parent (snd q)) by (destruct Hok as [_ [P1 _]]; destruct Hqok as [_ [P2 _]]; congruence).
        unfold kimg. rewrite ProofsLayout.sig_size_place, (rim_size q Hqs Hqne). cbn [s_rel place]. unfold overlaps.
        destruct (Hdis (snd p) (snd q) Hs Hqs Ht Hqt Hpq Hpar (ex_intro _ g (conj Hg0 (conj Hpg Hqg)))) as [Hd|Hd]; lia. }
      assert (Hkq : forall q g, In q done -> 0 <= g < s_gcount mx -> in_group (kimg q) g = in_group (snd q) g).
      { intros q g Hq Hg. destruct (HP q ltac:(apply in_or_app; left; assumption)) as [Hqs [Hqt _]].
        destruct (igrp_spec (snd q) Hqs Hqt) as [_ [Hq2 _]]. rewrite <- (Hq2 g Hg). reflexivity. }
      unfold mux_insert.
      rewrite not_in_mem_str.
      2:{ rewrite rim_name. rewrite map_map. intros Hin. apply in_map_iff in Hin. destruct Hin as [q [Hq Hqin]].
          cbn [s_name kimg place] in Hq. rewrite rim_name in Hq.
          destruct (HP q ltac:(apply in_or_app; left; assumption)) as [Hqs [Hqt _]].
          destruct Hms as [_ [Hnm' _]]. assert (snd q = snd p) by (apply (NoDup_map_inj (fun s => clear (s_name s)) sigs); assumption).
          rewrite map_app in Hnd. cbn [map] in Hnd. apply NoDup_remove_2 in Hnd. apply Hnd. apply in_or_app. left. rewrite <- H. apply in_map. assumption. }
      fold es1. rewrite Hcsz.
      assert (Hver : forall kids', (forall d, In d kids' -> overlaps (s_rel (snd p)) (s_rel (snd p) + sig_size es (snd p)) (s_rel d) (s_rel d + sig_size es1 d) = false) ->
                verify_insert es1 (s_gsize mx0) kids' (sig_size es (snd p)) (s_rel (snd p)) = Ok tt).
      { intros kids' Hk'. unfold verify_insert.
        replace (s_rel (snd p) <? 0) with false by lia. replace (sig_size es (snd p) >? s_gsize mx0) with false by lia.
        replace (s_rel (snd p) + sig_size es (snd p) >? s_gsize mx0) with false by lia.
        replace (existsb _ kids') with false; [reflexivity|].
        symmetry. destruct (existsb _ kids') eqn:E; [|reflexivity]. exfalso.
        apply existsb_exists in E. destruct E as [d [Hd Ho]]. rewrite (Hk' d Hd) in Ho. discriminate. }
      assert (Hfin : map kimg done ++ [place (rim p) (s_rel (snd p)) (Some (s_id mx0)) (igrp (snd p))] = map kimg (done ++ [p])).
      { rewrite map_app. cbn [map]. unfold kimg. rewrite Hid. reflexivity. }
      destruct Hform as [Hn0|[Hn0 [Ha Hb]]].
      - (* fixed: against every child *)
        rewrite Hn0 in *. rewrite Hver.
        + cbn [bind]. rewrite Hfin, app_nil_r. reflexivity.
        + intros d Hd. apply in_map_iff in Hd. destruct Hd as [q [<- Hq]].
          destruct (HP q ltac:(apply in_or_app; left; assumption)) as [Hqs [Hqt _]].
          assert (Hqne : snd q <> mx) by (intros Heq; destruct mx_top as [_ H']; rewrite Heq in Hqt; congruence).
          destruct (other_sig _ Hqs Hqne) as [_ [_ [[Hqtt _]|[_ Hqok]]]]; [congruence|].
          pose proof (grp_range mx (snd q) (child_gok es mx (snd q) Hqok)) as Hgq.
          apply (Hdisj q (grp (snd q)) Hq ltac:(lia) (in_group_grp_true mx (snd q) (child_gok es mx (snd q) Hqok) Hg1)).
          rewrite <- (Hgrp_p (grp (snd q)) Hgq). reflexivity.
      - remember (igrp (snd p)) as gl eqn:Egl. destruct gl as [|g0 gr]; [contradiction|].
        rewrite dedup_z_id by (try (eapply ascending_nodup; exact Ha); intros x _ []).
        rewrite verify_fold_ok.
        + cbn [bind]. rewrite (sort_ascending_Z _ _ Ha). rewrite Hfin, app_nil_r. reflexivity.
        + intros g Hg. pose proof (ascending_lb _ _ _ Ha Hg) as Hlb. specialize (Hb g Hg). split; [lia|].
          apply Hver. intros d Hd. apply filter_In in Hd. destruct Hd as [Hd Hdg]. apply in_map_iff in Hd. destruct Hd as [q [<- Hq]].
          rewrite (Hkq q g Hq ltac:(lia)) in Hdg.
          apply (Hdisj q g Hq ltac:(lia) Hdg).
          rewrite <- (Hgrp_p g ltac:(lia)). unfold in_group. cbn [s_groups place]. apply mem_z_in. assumption.
    Qed.

    Lemma mux_kids : forall mx0 l done,
      s_id mx0 = mid -> s_gcount mx0 = 2 ^ selw ->
      (forall p, In p (done ++ l) -> In (snd p) sigs /\ is_topb (snd p) = false /\ s_rel (snd p) + sig_size es (snd p) <= s_gsize mx0) ->
      NoDup (map snd (done ++ l)) ->
      fold_left (kstep es1 mx0) (map (ent EI) l) (Ok (map kimg done, [])) = Ok (map kimg (done ++ l), []).
    Proof.
      intros mx0 l. induction l as [|p r IH]; intros done Hid Hgc HP Hnd; cbn [map fold_left]; [rewrite app_nil_r; reflexivity|].
      rewrite mux_kid_step; try assumption.
      - assert (HI : forall x, x = done ++ p :: r -> (done ++ [p]) ++ r = x) by (intros x ->; rewrite <- app_assoc; reflexivity).
        pose proof (IH (done ++ [p]) Hid Hgc) as HI2. rewrite (HI _ eq_refl) in HI2. exact (HI2 HP Hnd).
      - intros q Hq. apply HP. apply in_app_or in Hq. apply in_or_app. destruct Hq as [Hq|[<-|[]]]; [left; assumption|right; left; reflexivity].
      - replace (done ++ p :: r) with ((done ++ [p]) ++ r) in Hnd by (rewrite <- app_assoc; reflexivity).
        rewrite map_app in Hnd. eapply NoDup_prefix. exact Hnd.
    Qed.

    (* ---- the construction of the multiplexer from the children pending for it (any state with these enums) ---- *)
    Definition gsz (KX : list (Z * signal)) : Z := if ebit 0 KX >? 0 then ebit 0 KX - mstart - selw else 1.
    Lemma mux_build : forall stx KX,
      is_enums stx = es1 -> NoDup (map snd KX) -> (forall p, In p KX -> In (snd p) sigs /\ is_topb (snd p) = false) ->
        import_mux_signal env stx mpos msgid (m_size m) mid (img mx) (map (ent EI) KX)
        = Ok ((place (mx_img (gsz KX)) 0 None [], map kimg KX), set_sigmap stx (((msgid, clear (s_name mx)), (mpos, mid)) :: is_sigmap stx)) /\
        1 <= gsz KX <= s_gsize mx.
    Proof.
      intros stx KX Hes HndK HCH.
      destruct mx_top as [Hmtop Hmt].
      assert (Himx : ds_size (img mx) = selw /\ ds_name (img mx) = clear (s_name mx) /\ get_start_bit (img mx) = mstart).
      { destruct selw_facts as [Hs _]. split; [|split]; try (unfold img; rewrite Hmxm; reflexivity).
        - unfold img. rewrite Hmxm. cbn [ds_size mux_dsig]. apply u32_id. fold selw. lia.
        - apply start_top; assumption. }
      destruct Himx as [M2 [M3 M4]].
      pose proof msize_bounds as Hmb.
      unfold import_mux_signal. rewrite M2, M3, M4, Hes.
      fold (ebit 0 KX).
      destruct (ebit_spec KX 0 HCH) as [B1 [B2 B3]].
      assert (Hbeyond : existsb (fun p : subtree * dsignal => sig_size es1 (fst (fst p)) + get_start_bit (snd p) >? m_size m * 8)
                          (map (ent EI) KX) = false).
      { destruct (existsb _ _) eqn:E; [|reflexivity]. exfalso. apply existsb_exists in E. destruct E as [e [He Hgt]].
        apply in_map_iff in He. destruct He as [p [<- Hp]]. destruct (HCH p Hp) as [Hs Ht].
        rewrite (proj1 (child_entry p Hs Ht)) in Hgt. destruct (child_geo _ Hs Ht) as [_ [_ [_ [G4 _]]]]. unfold cend in Hgt. lia. }
      rewrite Hbeyond.
      destruct selw_facts as [Hsw [Hgc [Hg1 [Hgs1 Hg32]]]].
      replace (selw =? 0) with false by lia.
      assert (Hcv : calc_value_from_size selw = 2 ^ selw).
      { unfold calc_value_from_size. replace (selw <=? 0) with false by lia. replace (selw <? 63) with true by lia. reflexivity. }
      rewrite Hcv. assert (H2p : 0 < 2 ^ selw) by (apply Z.pow_pos_nonneg; lia). replace (2 ^ selw <=? 0) with false by lia.
      set (eb := ebit 0 KX) in *.
      assert (Hgsz : 1 <= (if eb >? 0 then eb - mstart - selw else 1) <= s_gsize mx).
      { destruct (eb >? 0) eqn:Eeb; [|lia]. destruct (proj1 tops_geo mx Hmx Hmt) as [T1 _].
        assert (Hub : eb <= mstart + selw + s_gsize mx).
        { apply B3; [unfold mstart; lia|]. intros p Hp. destruct (HCH p Hp) as [Hs Ht]. destruct (child_geo _ Hs Ht) as [_ [_ [G3 _]]]. unfold cend. lia. }
        split; [|lia].
        destruct KX as [|p0 r0] eqn:Ec; [unfold eb, ebit in Eeb; cbn in Eeb; lia|].
        destruct (HCH p0 (or_introl eq_refl)) as [Hs Ht]. destruct (child_geo _ Hs Ht) as [G1 [G2 _]].
        pose proof (B2 p0 (or_introl eq_refl)) as Hb. unfold cend in Hb. lia. }
      set (gs := if eb >? 0 then eb - mstart - selw else 1) in *.
      replace (gs <=? 0) with false by lia.
      change (gsz KX) with gs. split; [|exact Hgsz].
      pose proof (mux_kids (mksignal mid (clear (s_name mx)) KMux 0 None [] 0 false fl_one fl_zero fl_zero fl_zero EmptyString 0 (2 ^ selw) gs EmptyString fl_zero 0 [])
                    KX [] eq_refl eq_refl) as EK. cbn [app map] in EK.
      unfold mux_children.
      change (fold_left _ (map (ent EI) KX) (Ok ([], []))) with
        (fold_left (kstep es1 (mksignal mid (clear (s_name mx)) KMux 0 None [] 0 false fl_one fl_zero fl_zero fl_zero EmptyString 0 (2 ^ selw) gs EmptyString fl_zero 0 []))
                   (map (ent EI) KX) (Ok ([], []))).
      rewrite EK.
      2:{ intros p Hp. destruct (HCH p Hp) as [Hs Ht]. split; [assumption|]. split; [assumption|]. cbn [s_gsize].
          pose proof (B2 p Hp) as Hb. unfold cend in Hb. unfold gs. destruct (eb >? 0) eqn:Eeb; [lia|].
          destruct (child_geo _ Hs Ht) as [G1 [G2 _]]. destruct (proj1 tops_geo mx Hmx Hmt) as [T1 _]. unfold mstart in *. lia. }
      2:{ assumption. }
      cbn [bind fst snd app].
      pose proof Henvx as Henvx'. unfold desc_of in Henvx'.
      assert (Hmx1 : (match lookup key_eqb (msgid, clear (s_name mx)) (ie_sig_desc env) with
                      | Some d => set_desc (mksignal mid (clear (s_name mx)) KMux 0 None [] 0 false fl_one fl_zero fl_zero fl_zero EmptyString 0 (2 ^ selw) gs EmptyString fl_zero 0 []) d
                      | None => mksignal mid (clear (s_name mx)) KMux 0 None [] 0 false fl_one fl_zero fl_zero fl_zero EmptyString 0 (2 ^ selw) gs EmptyString fl_zero 0 [] end)
                     = place (mx_img gs) 0 None []).
      { unfold mx_img. destruct (lookup key_eqb (msgid, clear (s_name mx)) (ie_sig_desc env)); cbn; rewrite <- Henvx'; reflexivity. }
      rewrite Hmx1. rewrite app_nil_r. reflexivity.
    Qed.

    (* ---- the message after the first loop ---- *)
    Lemma ims_rest : forall S' last0,
      Permutation sigs S' -> In (mid, mx) (index_from 0 S') ->
      let X := index_from 0 S' in
      last0 = last_of (-1) X ->
      exists gs,
        (do r2 <- fold_left (f2 st1 (m_size m) last0) (map (ent EI) (filter plainp X)) (Ok ((st1, []), map (ent EI) (filter childp X)));
         let '((st2, sg), muxed2) := r2 in
         do (mt, st3) <- import_mux_signal env st2 mpos msgid (m_size m) mid (img mx) muxed2;
         (let '(st4, sigs0) := (st3, sg) in do sigs' <- msg_insert (is_enums st4) (m_size m) sigs0 mt mstart; Ok (st4, sigs')))
        = Ok (set_sigmap st1 (((msgid, clear (s_name mx)), (mpos, mid)) :: is_sigmap st1),
              map timg (filter plainp X) ++ [mx_img gs] ++ map kimg (filter childp X)) /\
        1 <= gs <= s_gsize mx.
    Proof.
      intros S' last0 Hperm Hmid X Hlast0.
      pose proof Hms as [Hids [Hnames _]].
      assert (HndS : NoDup S').
      { eapply Permutation_NoDup; [exact Hperm|]. eapply NoDup_map_inv. exact Hids. }
      assert (HinS : forall s, In s S' <-> In s sigs) by (intros s; split; intros H; [eapply Permutation_in; [apply Permutation_sym; exact Hperm|exact H]|eapply Permutation_in; eauto]).
      assert (HX : forall p, In p X -> In (snd p) sigs /\ (fst p = mid <-> snd p = mx)).
      { intros [i x] Hp. cbn [fst snd]. pose proof (index_from_range _ _ _ _ Hp) as [_ Hx]. split; [apply HinS; assumption|].
        pose proof (ProofsIds.index_from_fst_nodup S' 0) as Hn1. pose proof (index_from_snd_nodup S' 0 HndS) as Hn2. fold X in Hn1, Hn2. split; intros E; subst.
        - pose proof (NoDup_map_inj fst X (mid, x) (mid, mx) Hn1 Hp Hmid eq_refl) as Heq. inversion Heq; reflexivity.
        - pose proof (NoDup_map_inj snd X (i, mx) (mid, mx) Hn2 Hp Hmid eq_refl) as Heq. inversion Heq; reflexivity. }
      destruct mx_top as [Hmtop Hmt].
      assert (Himx : ds_muxed (img mx) = false /\ ds_size (img mx) = selw /\ ds_name (img mx) = clear (s_name mx) /\ get_start_bit (img mx) = mstart).
      { destruct selw_facts as [Hs _]. split; [|split; [|split]]; try (unfold img; rewrite Hmxm; reflexivity).
        - unfold img. rewrite Hmxm. cbn [ds_size mux_dsig]. apply u32_id. fold selw. lia.
        - apply start_top; assumption. }
      destruct Himx as [M1 [M2 [M3 M4]]].
      assert (Hlast : last0 < mux_end).
      { subst last0. apply last_bound; [intros p Hp; apply HX; assumption|]. unfold mux_end. destruct selw_facts as [? [? [? [? ?]]]].
        destruct (proj1 tops_geo mx Hmx Hmt). unfold mstart. lia. }
      pose proof msize_bounds as Hmb.
      assert (HTP : forall p, In p (filter plainp X) -> In (snd p) sigs /\ is_topb (snd p) = true /\ is_muxb (snd p) = false).
      { intros p Hp. apply filter_In in Hp. destruct Hp as [Hp Hpp]. unfold plainp in Hpp. apply andb_true_iff in Hpp. destruct Hpp as [P1 P2].
        apply negb_true_iff in P2. split; [apply HX; assumption|auto]. }
      assert (HCH : forall p, In p (filter childp X) -> In (snd p) sigs /\ is_topb (snd p) = false).
      { intros p Hp. apply filter_In in Hp. destruct Hp as [Hp Hpp]. unfold childp in Hpp. apply negb_true_iff in Hpp. split; [apply HX; assumption|assumption]. }
      pose proof (loop2 last0 (map (ent EI) (filter childp X)) (filter plainp X) [] Hlast) as E4. cbn [app map] in E4.
      rewrite E4 by (try assumption; apply NoDup_map_filter; apply index_from_snd_nodup; assumption). cbn [bind].
      (* the multiplexer *)
      unfold import_mux_signal. rewrite M2, M3, M4.
      fold es1. fold (ebit 0 (filter childp X)).
      destruct (ebit_spec (filter childp X) 0 HCH) as [B1 [B2 B3]].
      assert (Hbeyond : existsb (fun p : subtree * dsignal => sig_size es1 (fst (fst p)) + get_start_bit (snd p) >? m_size m * 8)
                          (map (ent EI) (filter childp X)) = false).
      { destruct (existsb _ _) eqn:E; [|reflexivity]. exfalso. apply existsb_exists in E. destruct E as [e [He Hgt]].
        apply in_map_iff in He. destruct He as [p [<- Hp]]. destruct (HCH p Hp) as [Hs Ht].
        rewrite (proj1 (child_entry p Hs Ht)) in Hgt. destruct (child_geo _ Hs Ht) as [_ [_ [_ [G4 _]]]]. unfold cend in Hgt. lia. }
      rewrite Hbeyond.
      destruct selw_facts as [Hsw [Hgc [Hg1 [Hgs1 Hg32]]]].
      replace (selw =? 0) with false by lia.
      assert (Hcv : calc_value_from_size selw = 2 ^ selw).
      { unfold calc_value_from_size. replace (selw <=? 0) with false by lia. replace (selw <? 63) with true by lia. reflexivity. }
      rewrite Hcv. assert (H2p : 0 < 2 ^ selw) by (apply Z.pow_pos_nonneg; lia). replace (2 ^ selw <=? 0) with false by lia.
      set (eb := ebit 0 (filter childp X)) in *.
      assert (Hgsz : 1 <= (if eb >? 0 then eb - mstart - selw else 1) <= s_gsize mx).
      { destruct (eb >? 0) eqn:Eeb; [|lia]. destruct (proj1 tops_geo mx Hmx Hmt) as [T1 _].
        assert (Hub : eb <= mstart + selw + s_gsize mx).
        { apply B3; [unfold mstart; lia|]. intros p Hp. destruct (HCH p Hp) as [Hs Ht]. destruct (child_geo _ Hs Ht) as [_ [_ [G3 _]]]. unfold cend. lia. }
        split; [|lia].
        destruct (filter childp X) as [|p0 r0] eqn:Ec; [unfold eb, ebit in Eeb; cbn in Eeb; lia|].
        destruct (HCH p0 (or_introl eq_refl)) as [Hs Ht]. destruct (child_geo _ Hs Ht) as [G1 [G2 _]].
        pose proof (B2 p0 (or_introl eq_refl)) as Hb. unfold cend in Hb. lia. }
      set (gs := if eb >? 0 then eb - mstart - selw else 1) in *.
      replace (gs <=? 0) with false by lia.
      exists gs. split; [|exact Hgsz].
      pose proof (mux_kids (mksignal mid (clear (s_name mx)) KMux 0 None [] 0 false fl_one fl_zero fl_zero fl_zero EmptyString 0 (2 ^ selw) gs EmptyString fl_zero 0 [])
                    (filter childp X) [] eq_refl eq_refl) as EK. cbn [app map] in EK.
      unfold mux_children.
      change (fold_left _ (map (ent EI) (filter childp X)) (Ok ([], []))) with
        (fold_left (kstep es1 (mksignal mid (clear (s_name mx)) KMux 0 None [] 0 false fl_one fl_zero fl_zero fl_zero EmptyString 0 (2 ^ selw) gs EmptyString fl_zero 0 []))
                   (map (ent EI) (filter childp X)) (Ok ([], []))).
      rewrite EK.
      2:{ intros p Hp. destruct (HCH p Hp) as [Hs Ht]. split; [assumption|]. split; [assumption|]. cbn [s_gsize].
          pose proof (B2 p Hp) as Hb. unfold cend in Hb. unfold gs. destruct (eb >? 0) eqn:Eeb; [lia|].
          destruct (child_geo _ Hs Ht) as [G1 [G2 _]]. destruct (proj1 tops_geo mx Hmx Hmt) as [T1 _]. unfold mstart in *. lia. }
      2:{ apply NoDup_map_filter. apply index_from_snd_nodup. assumption. }
      cbn [bind fst snd app].
      (* the final insertion of the multiplexer with its children *)
      pose proof Henvx as Henvx'. unfold desc_of in Henvx'.
      assert (Hmx1 : (match lookup key_eqb (msgid, clear (s_name mx)) (ie_sig_desc env) with
                      | Some d => set_desc (mksignal mid (clear (s_name mx)) KMux 0 None [] 0 false fl_one fl_zero fl_zero fl_zero EmptyString 0 (2 ^ selw) gs EmptyString fl_zero 0 []) d
                      | None => mksignal mid (clear (s_name mx)) KMux 0 None [] 0 false fl_one fl_zero fl_zero fl_zero EmptyString 0 (2 ^ selw) gs EmptyString fl_zero 0 [] end)
                     = place (mx_img gs) 0 None []).
      { unfold mx_img. destruct (lookup key_eqb (msgid, clear (s_name mx)) (ie_sig_desc env)); cbn; rewrite <- Henvx'; reflexivity. }
      rewrite Hmx1. rewrite app_nil_r.
      assert (Hsw2 : sel_width (mx_img gs) = selw).
      { unfold sel_width. cbn [s_gcount mx_img]. apply ProofsIds.calc_size_sel. lia. }
      rewrite msg_insert_ok_g.
      - cbn [bind]. reflexivity.
      - cbn [s_name place mx_img]. rewrite map_map. intros Hin. apply in_map_iff in Hin. destruct Hin as [q [Hq Hqin]].
        destruct (HTP q Hqin) as [Hqs [Hqt Hqm]]. destruct (plain_facts _ Hqs Hqt Hqm) as [_ Hqne].
        cbn [s_name timg place] in Hq. rewrite rim_name in Hq.
        apply Hqne. apply (NoDup_map_inj (fun s => clear (s_name s)) sigs); assumption.
      - intros x Hx Hin. apply in_map_iff in Hx. destruct Hx as [c [<- Hc]]. destruct (HCH c Hc) as [Hcs Hct].
        assert (Hcne : snd c <> mx) by (intros Heq; rewrite Heq in Hct; congruence).
        rewrite map_map in Hin. apply in_map_iff in Hin. destruct Hin as [q [Hq Hqin]].
        destruct (HTP q Hqin) as [Hqs [Hqt Hqm]]. destruct (plain_facts _ Hqs Hqt Hqm) as [_ Hqne].
        cbn [s_name timg kimg place] in Hq. rewrite !rim_name in Hq.
        assert (snd q = snd c) by (apply (NoDup_map_inj (fun s => clear (s_name s)) sigs); assumption). congruence.
      - cbn [map s_name place mx_img]. constructor.
        + rewrite map_map. intros Hin. apply in_map_iff in Hin. destruct Hin as [c [Hq Hc]]. destruct (HCH c Hc) as [Hcs Hct].
          assert (Hcne : snd c <> mx) by (intros Heq; rewrite Heq in Hct; congruence).
          cbn [s_name kimg place] in Hq. rewrite rim_name in Hq.
          apply Hcne. apply (NoDup_map_inj (fun s => clear (s_name s)) sigs); assumption.
        + rewrite map_map. 
          assert (Hext2 : map (fun x => s_name (kimg x)) (filter childp X) = map (fun p => clear (s_name (snd p))) (filter childp X)).
          { apply map_ext_in. intros c Hc. cbn [s_name kimg place]. apply rim_name. }
          rewrite Hext2. rewrite <- (map_map snd (fun s => clear (s_name s))).
          eapply NoDup_map_filter2; [|apply NoDup_map_filter; apply index_from_snd_nodup; assumption].
          intros a b Ha Hb Hab. apply (NoDup_map_inj (fun s => clear (s_name s)) sigs); try assumption.
          * apply in_map_iff in Ha. destruct Ha as [pa [<- Hpa]]. apply (HCH pa Hpa).
          * apply in_map_iff in Hb. destruct Hb as [pb [<- Hpb]]. apply (HCH pb Hpb).
      - unfold mstart. destruct (proj1 tops_geo mx Hmx Hmt). assumption.
      - unfold sig_size. cbn [s_kind place mx_img s_gsize]. rewrite sel_width_place, Hsw2. lia.
      - unfold sig_size. cbn [s_kind place mx_img s_gsize]. rewrite sel_width_place, Hsw2.
        destruct (proj1 tops_geo mx Hmx Hmt) as [T1 T2]. rewrite sig_size_mx in T2. unfold mstart. lia.
      - intros d Hd _. apply in_map_iff in Hd. destruct Hd as [q [<- Hqin]].
        destruct (HTP q Hqin) as [Hqs [Hqt Hqm]]. destruct (plain_facts _ Hqs Hqt Hqm) as [_ Hqne].
        cbn [is_enums set_sigmap]. fold es1.
        replace (sig_size es1 (timg q)) with (sig_size es (snd q))
          by (unfold timg; rewrite ProofsLayout.sig_size_place; symmetry; apply rim_size; assumption).
        assert (Hmsz : sig_size es1 (place (mx_img gs) 0 None []) = gs + selw)
          by (unfold sig_size; cbn [s_kind place mx_img s_gsize]; rewrite sel_width_place, Hsw2; reflexivity).
        rewrite Hmsz. unfold overlaps. cbn [s_rel timg place].
        destruct (proj2 tops_geo mx (snd q) Hmx Hqs Hmt Hqt (fun E => Hqne (eq_sym E))) as [Hd|Hd]; rewrite ?sig_size_mx in Hd; unfold mstart in *; lia.
    Qed.
  End WithEI.

  Lemma ims_mux : forall st S' dname dtx D,
    Permutation sigs S' -> In (mid, mx) (index_from 0 S') ->
    sort_by (fun a b => get_start_bit a <? get_start_bit b) D = map img S' ->
    Inv st -> ProofsEnum.st_le st0 st ->
    let X := index_from 0 S' in
    exists st' EI gs,
      import_message_signals env st mpos (mkdmessage msgid dname (u32 (m_size m)) dtx D)
      = Ok (st', map (timg EI) (filter plainp X) ++ [mx_img gs] ++ map (kimg EI) (filter childp X)) /\
      Inv st' /\ ProofsEnum.st_le st st' /\
      1 <= gs <= s_gsize mx /\
      (forall s, In s sigs -> s <> mx -> EIok es st' s (EI s)) /\
      (forall p, In p X -> lookup key_eqb (msgid, clear (s_name (snd p))) (is_sigmap st') = Some (mpos, fst p)) /\
      (forall k, (forall s, In s sigs -> k <> (msgid, clear (s_name s))) -> lookup key_eqb k (is_sigmap st') = lookup key_eqb k (is_sigmap st)).
  Proof.
    intros st S' dname dtx D Hperm Hmid Hsort HI Hle X.
    pose proof Hms as [Hids [Hnames _]].
    assert (HndS : NoDup S').
    { eapply Permutation_NoDup; [exact Hperm|]. eapply NoDup_map_inv. exact Hids. }
    assert (HinS : forall s, In s S' <-> In s sigs) by (intros s; split; intros H; [eapply Permutation_in; [apply Permutation_sym; exact Hperm|exact H]|eapply Permutation_in; eauto]).
    assert (HX : forall p, In p X -> In (snd p) sigs /\ (fst p = mid <-> snd p = mx)).
    { intros [i x] Hp. cbn [fst snd]. pose proof (index_from_range _ _ _ _ Hp) as [_ Hx]. split; [apply HinS; assumption|].
      pose proof (ProofsIds.index_from_fst_nodup S' 0) as Hn1. pose proof (index_from_snd_nodup S' 0 HndS) as Hn2. fold X in Hn1, Hn2. split; intros E; subst.
      - pose proof (NoDup_map_inj fst X (mid, x) (mid, mx) Hn1 Hp Hmid eq_refl) as Heq. inversion Heq; reflexivity.
      - pose proof (NoDup_map_inj snd X (i, mx) (mid, mx) Hn2 Hp Hmid eq_refl) as Heq. inversion Heq; reflexivity. }
    assert (Hfil : filter (fun p : Z * dsignal => ds_muxor (snd p)) (map (fun p => (fst p, img (snd p))) X) = [(mid, img mx)]).
    { assert (G : forall l, (forall p, In p l -> In (snd p) sigs) -> NoDup (map snd l) ->
                filter (fun p : Z * dsignal => ds_muxor (snd p)) (map (fun p => (fst p, img (snd p))) l)
                = map (fun p => (fst p, img (snd p))) (filter (fun p => is_muxb (snd p)) l)).
      { induction l as [|p r IH]; intros Hl Hn; [reflexivity|]. cbn [map filter fst snd].
        assert (Hm : ds_muxor (img (snd p)) = is_muxb (snd p)).
        { destruct (is_muxb (snd p)) eqn:E.
          - unfold img. rewrite E. reflexivity.
          - assert (Hne : snd p <> mx) by (intros Heq; rewrite Heq in E; congruence).
            apply (img_fields (snd p) (Hl p (or_introl eq_refl)) Hne). }
        rewrite Hm. cbn [map] in Hn. inversion Hn; subst. rewrite IH by (try assumption; intros q Hq; apply Hl; right; assumption).
        destruct (is_muxb (snd p)); reflexivity. }
      rewrite G by (try (apply index_from_snd_nodup; assumption); intros p Hp; apply HX; assumption).
      assert (G2 : filter (fun p : Z * signal => is_muxb (snd p)) X = [(mid, mx)]).
      { pose proof (index_from_snd_nodup S' 0 HndS) as Hn2. fold X in Hn2.
        apply in_split in Hmid. destruct Hmid as [A [B HAB]]. fold X in HAB. rewrite HAB in *. rewrite filter_app. cbn [filter snd]. rewrite Hmxm.
        rewrite map_app in Hn2. cbn [map snd] in Hn2.
        assert (HA : filter (fun p : Z * signal => is_muxb (snd p)) A = []).
        { apply Proofs.filter_nil. intros q Hq. destruct (is_muxb (snd q)) eqn:E; [|reflexivity]. exfalso.
          pose proof Huniq as Hu.
          assert (snd q = mx) by (apply Hu; try assumption; apply (proj1 (HX q ltac:(apply in_or_app; left; assumption)))).
          apply NoDup_remove_2 in Hn2. apply Hn2. apply in_or_app. left. rewrite <- H. apply in_map. assumption. }
        assert (HB : filter (fun p : Z * signal => is_muxb (snd p)) B = []).
        { apply Proofs.filter_nil. intros q Hq. destruct (is_muxb (snd q)) eqn:E; [|reflexivity]. exfalso.
          pose proof Huniq as Hu.
          assert (snd q = mx) by (apply Hu; try assumption; apply (proj1 (HX q ltac:(apply in_or_app; right; right; assumption)))).
          apply NoDup_remove_2 in Hn2. apply Hn2. apply in_or_app. right. rewrite <- H. apply in_map. assumption. }
        rewrite HA, HB. reflexivity. }
      rewrite G2. reflexivity. }
    destruct mx_top as [Hmtop Hmt].
    assert (M1 : ds_muxed (img mx) = false) by (unfold img; rewrite Hmxm; reflexivity).
    assert (M4 : get_start_bit (img mx) = mstart) by (apply start_top; assumption).
    unfold import_message_signals. cbv zeta. cbn [dm_signals dm_id dm_size]. rewrite Hsort, index_from_map_img. fold X. rewrite Hfil.
    rewrite M1.
    destruct (loop1 X st [] [] (-1) HX (index_from_snd_nodup S' 0 HndS) HI Hle) as [st1 [EI [E1 [I1 [L1 [K1 [E4s E5s]]]]]]]. cbn [app] in E1.
    change (fold_left _ (map (fun p => (fst p, img (snd p))) X) (Ok (st, [], [], -1))) with
      (fold_left f1 (map (fun p => (fst p, img (snd p))) X) (Ok (st, [], [], -1))).
    rewrite E1. cbn [bind]. rewrite M4.
    pose proof msize_bounds as Hmb. rewrite (u32_id (m_size m)) by lia.
    assert (HEI : forall s, In s sigs -> s <> mx -> EIok es st1 s (EI s)).
    { intros s Hs Hne. assert (Hs' : In s S') by (apply HinS; assumption). destruct (in_index_from S' 0 s Hs') as [i Hi]. apply (K1 (i, s) Hi Hne). }
    destruct (ims_rest EI st1 HEI S' (last_of (-1) X) Hperm Hmid eq_refl) as [gs [Er Hgs]]. fold X in Er.
    exists (set_sigmap st1 (((msgid, clear (s_name mx)), (mpos, mid)) :: is_sigmap st1)), EI, gs.
    split; [exact Er|]. split; [exact I1|]. split.
    { eapply ProofsEnum.st_le_trans; [destruct HI as [R _]; exact R|exact L1|apply ProofsEnum.st_le_sigmap]. }
    split; [exact Hgs|]. split; [exact HEI|]. split.
    - intros p Hp. cbn [is_sigmap set_sigmap]. destruct (HX p Hp) as [Hps Hpm].
      destruct p as [i x]. cbn [fst snd] in *.
      assert (Hdec : x = mx \/ x <> mx).
      { destruct (Z.eq_dec i mid) as [E|E]; [left; apply Hpm; exact E|right; intros Ex; apply E; apply Hpm; exact Ex]. }
      destruct Hdec as [->|Hxne].
      * assert (i = mid) by (apply Hpm; reflexivity). subst i. apply lookup_key_head.
      * rewrite lookup_key_skip.
        -- apply (E4s (i, x) Hp Hxne).
        -- intros Heq. inversion Heq as [Hq]. apply Hxne. apply (NoDup_map_inj (fun s => clear (s_name s)) sigs); assumption.
    - intros k Hk. cbn [is_sigmap set_sigmap]. rewrite lookup_key_skip by (apply Hk; exact Hmx).
      apply E5s. intros p Hp. apply Hk. apply HX. assumption.
  Qed.

  (* ---- what the exporter wrote is the image of a permutation of the signals ---- *)
  Definition walk_kids : list signal := walk_of sigs mx.
  Definition S0 : list signal := flat_map (fun t => t :: (if is_muxb t then walk_kids else [])) (filter is_topb sigs).

  Lemma kids_children : kids_ok es sigs mx.
  Proof using Hmm Hmx Hmxm. eapply kids_ok_of; eauto. Qed.

  Lemma child_in_sigs : forall c, In c (children sigs mx) -> In c sigs /\ is_topb c = false /\ child_ok es mx c.
  Proof using Hmm Hmx Hmxm.
    intros c Hc. destruct kids_children as [HK _]. rewrite Forall_forall in HK. pose proof (HK c Hc) as Hok.
    unfold children in Hc. apply Proofs.In_sort_by in Hc. apply filter_In in Hc. destruct Hc as [Hc Hp].
    split; [assumption|]. split; [|assumption]. unfold is_topb. destruct (s_parent c); [reflexivity|discriminate].
  Qed.

  Lemma D_img : flat_map (tdsigs es sigs o recs) (filter is_topb sigs) = map img S0.
  Proof.
    unfold S0. assert (G : forall l, (forall t, In t l -> In t sigs /\ is_topb t = true) ->
                     flat_map (tdsigs es sigs o recs) l = map img (flat_map (fun t => t :: (if is_muxb t then walk_kids else [])) l)).
    { induction l as [|t r IH]; intros Hl; [reflexivity|]. cbn [flat_map]. rewrite map_app, IH by (intros x Hx; apply Hl; right; assumption).
      f_equal. destruct (Hl t (or_introl eq_refl)) as [Ht Htt]. cbn [map]. unfold tdsigs.
      destruct (is_muxb t) eqn:Em.
      - assert (t = mx) by (apply Huniq; assumption). subst t.
        unfold is_muxb in Em. destruct (s_kind mx) eqn:Ek; try discriminate.
        f_equal; [unfold img; rewrite Hmxm; reflexivity|].
        unfold wsigs, walk_kids, walk_of. rewrite map_flat_map. apply flat_map_ext_in_simple. intros id _.
        apply map_ext_in. intros c Hc. apply filter_In in Hc. destruct Hc as [Hc Hg].
        destruct (child_in_sigs c Hc) as [Hcs [Hct Hok]].
        assert (Hcne : c <> mx) by (intros ->; destruct mx_top as [_ H']; congruence).
        destruct (other_sig c Hcs Hcne) as [Hnm _]. unfold img. rewrite Hnm, Hct.
        apply Z.eqb_eq in Hg. rewrite Hg. reflexivity.
      - unfold img. rewrite Em, Htt. unfold is_muxb in Em. destruct (s_kind t); try discriminate; reflexivity. }
    apply G. intros t Ht. apply filter_In in Ht. exact Ht.
  Qed.

  Lemma S0_perm : Permutation sigs S0.
  Proof using Hmm Hmx Hmxm Huniq.
    clear Henv Henvx Hext Hrv0.
    pose proof Hms as [Hids [_ [_ [_ [Hch _]]]]]. pose proof Huniq as Hu.
    assert (Hnd : NoDup sigs) by (eapply NoDup_map_inv; exact Hids).
    destruct mx_top as [_ Hmt].
    (* S0 ~ tops ++ walk_kids *)
    assert (P1 : Permutation S0 (filter is_topb sigs ++ walk_kids)).
    { unfold S0. eapply Permutation_trans; [apply flat_map_cons_perm|]. apply Permutation_app_head.
      rewrite (flat_map_single (fun t => if is_muxb t then walk_kids else []) (filter is_topb sigs) mx).
      - rewrite Hmxm. apply Permutation_refl.
      - apply NoDup_filter. assumption.
      - apply filter_In. auto.
      - intros y Hy Hne. destruct (is_muxb y) eqn:E; [|reflexivity]. exfalso. apply Hne. apply filter_In in Hy. apply Hu; tauto. }
    (* walk_kids ~ the children *)
    assert (P2 : Permutation walk_kids (filter (fun s => negb (is_topb s)) sigs)).
    { unfold walk_kids, walk_of.
      eapply Permutation_trans; [apply walk_perm|].
      rewrite filter_all.
      2:{ intros c Hc. destruct (child_in_sigs c Hc) as [_ [_ Hok]]. pose proof (grp_range mx c (child_gok es mx c Hok)) as Hg.
          destruct selw_facts as [_ [_ [Hg1 _]]]. rewrite Z2Nat.id by lia. lia. }
      unfold children. eapply Permutation_trans; [apply Permutation_sym, sort_by_perm|].
      erewrite filter_ext_in; [apply Permutation_refl|]. intros c Hc. cbn beta. unfold is_topb.
      destruct (s_parent c) as [q|] eqn:Ep; cbn [negb]; [|reflexivity].
      destruct (Hch c Hc ltac:(unfold is_topb; rewrite Ep; reflexivity)) as [p [Hp [_ [Hpm [_ [Hpp _]]]]]].
      rewrite (Hu mx p Hmx Hp Hmxm Hpm). rewrite Ep in Hpp. inversion Hpp. apply Z.eqb_refl. }
    eapply Permutation_trans; [|apply Permutation_sym; exact P1].
    eapply Permutation_trans; [|apply Permutation_app_head; apply Permutation_sym; exact P2].
    eapply Permutation_trans; [|apply Permutation_sym; apply filter_partition_perm; intros x _; destruct (is_topb x); reflexivity].
    rewrite filter_all; [apply Permutation_refl|]. intros x _. destruct (is_topb x); reflexivity.
  Qed.
End MuxImport.

(* ---------------- a message with a multiplexer, as a whole ---------------- *)
Definition mux_result (mx : signal) (mid gs : Z) (EI : signal -> Z) (S' : list signal) : list signal :=
  let X := index_from 0 S' in
  map (timg EI) (filter plainp X) ++ [mx_img mx mid gs] ++ map (kimg mx mid EI) (filter childp X).

Lemma img_common : forall es m mx s,
  ds_order (img es m mx s) = m_order m /\ ds_receivers (img es m mx s) = recs_out m.
Proof.
  intros es m mx s. unfold img. destruct (is_muxb s); [split; reflexivity|].
  destruct (is_topb s); [|unfold child_dsig; destruct (s_kind s); split; reflexivity].
  destruct (dsig_e_fields es (m_order m) (recs_out m) s) as [H1 [H2 _]]. split; assumption.
Qed.

Lemma import_message_mux : forall es env st0 names nodes st done m mx,
  mmessage es names m -> In mx (m_signals m) -> is_muxb mx = true ->
  (forall s, In s (m_signals m) -> is_muxb s = false -> env_sig es env st0 (u32 (m_canid m)) s /\ enum_wf (e_of es s)) ->
  desc_of key_eqb (u32 (m_canid m), clear (s_name mx)) (ie_sig_desc env) = s_desc mx ->
  (forall c, In c (m_signals m) -> is_topb c = false ->
     lookup key_eqb (u32 (m_canid m), clear (s_name c)) (ie_ext_muxes env)
     = match ext_of (u32 (m_canid m)) mx (many_of (m_signals m)) c with [] => None | e :: _ => Some e end) ->
  one_mux (m_signals m) ->
  ProofsEnum.refs_valid st0 -> Inv st -> ProofsEnum.st_le st0 st ->
  desc_of Z.eqb (u32 (m_canid m)) (ie_msg_desc env) = m_desc m ->
  (forall r, In r names -> In (clear r) (map n_name nodes)) ->
  (forall r, In r names -> clear r <> dummy_node) ->
  ~ In (m_canid m) (map m_canid done) ->
  ~ In (clear (m_sender m), clear (m_name m)) (map (fun x => (m_sender x, m_name x)) done) ->
  exists st' S' mid gs EI,
    import_message env (st, done) nodes (dmsg_m es m)
    = Ok (st', done ++ [mkmessage (m_canid m) (clear (m_name m)) (m_size m) (m_order m) 0 0 0 0
                                  (clear (m_sender m)) (recs_in m) (m_desc m) [] (mux_result mx mid gs EI S')]) /\
    Permutation (m_signals m) S' /\ In (mid, mx) (index_from 0 S') /\ 1 <= gs <= s_gsize mx /\
    Inv st' /\ ProofsEnum.st_le st st' /\
    (forall s, In s (m_signals m) -> s <> mx -> EIok es st' s (EI s)) /\
    (forall p, In p (index_from 0 S') -> lookup key_eqb (u32 (m_canid m), clear (s_name (snd p))) (is_sigmap st') = Some (length done, fst p)) /\
    (forall k, (forall s, In s (m_signals m) -> k <> (u32 (m_canid m), clear (s_name s))) -> lookup key_eqb k (is_sigmap st') = lookup key_eqb k (is_sigmap st)).
Proof.
  intros es env st0 names nodes st done m mx Hmm Hmx Hmxm Henv Henvx Hext Huniq Hrv0 HI Hle Hmd Hnodes Hnd Hcan Hpair.
  pose proof Hmm as [Ha [Hc [Hdl [Hsd [Hst [Hid [Hsz [Hms [Hlay [Hsn [Hrc [Hrn Hre]]]]]]]]]]]].
  (* the sorted signal list is the image of a permutation *)
  pose proof (D_img es m mx names Hmm Hmx Hmxm Huniq) as HD.
  pose proof (S0_perm es m mx names Hmm Hmx Hmxm Huniq) as HP0.
  set (D := flat_map (tdsigs es (m_signals m) (m_order m) (recs_out m)) (filter is_topb (m_signals m))) in *.
  assert (Hsorted : exists S', sort_by (fun a b => get_start_bit a <? get_start_bit b) D = map (img es m mx) S' /\ Permutation (m_signals m) S').
  { assert (Hp : Permutation (sort_by (fun a b => get_start_bit a <? get_start_bit b) D) (map (img es m mx) (S0 m mx)))
      by (rewrite <- HD; apply Permutation_sym, sort_by_perm).
    apply Permutation_map_inv in Hp. destruct Hp as [S' [E1 E2]]. exists S'. split; [exact E1|].
    eapply Permutation_trans; eauto. }
  destruct Hsorted as [S' [Hsort HpS]].
  assert (HmxS : In mx S') by (eapply Permutation_in; eauto).
  destruct (in_index_from S' 0 mx HmxS) as [mid Hmid].
  destruct (ims_mux es env (length done) m mx names st0 Hmm Hmx Hmxm Henv Henvx (many_of (m_signals m)) Hext Hrv0 Huniq mid st S' (clear (m_name m)) (clear (m_sender m)) D HpS Hmid Hsort HI Hle)
    as [st' [EI [gs [Hsig [HI' [Hle' [Hgs [HEI [Hsm1 Hsm2]]]]]]]]].
  exists st', S', mid, gs, EI.
  split; [|exact (conj HpS (conj Hmid (conj Hgs (conj HI' (conj Hle' (conj HEI (conj Hsm1 Hsm2)))))))].
  unfold import_message. cbv zeta. unfold dmsg_m. cbn [dm_signals dm_id dm_size dm_tx dm_name]. fold D.
  unfold desc_of in Hmd. rewrite Hmd. rewrite Hsort.
  destruct S' as [|s0 sr] eqn:ES; [destruct HmxS|]. rewrite <- ES in *.
  assert (Hne : m_signals m <> []) by (intros E; rewrite E in Hmx; destruct Hmx).
  assert (Hord : match map (img es m mx) S' with [] => LittleEndian | s :: _ => ds_order s end = m_order m).
  { rewrite ES. cbn [map]. apply (img_common es m mx s0). }
  rewrite Hord.
  assert (Hfo : forallb (fun s => bo_eqb (ds_order s) (m_order m)) (map (img es m mx) S') = true).
  { apply forallb_forall. intros ds Hin. apply in_map_iff in Hin. destruct Hin as [s [<- _]].
    rewrite (proj1 (img_common es m mx s)). destruct (m_order m); reflexivity. }
  rewrite Hfo. cbn [negb].
  assert (Hrin0 : recs_in m = map clear (sort_by str_ltb (m_receivers m))).
  { unfold recs_in. destruct (m_signals m); [contradiction|reflexivity]. }
  assert (Hrecs : filter (fun r => negb (String.eqb r dummy_node)) (dedup_str [] (flat_map ds_receivers (map (img es m mx) S'))) = recs_in m).
  { rewrite ES. cbn [map]. rewrite (dedup_copies (recs_out m)).
    - rewrite Hrin0. unfold recs_out. destruct (m_receivers m) as [|r0 rr] eqn:Er; [reflexivity|].
      apply filter_all. intros x Hx. apply in_map_iff in Hx. destruct Hx as [y [Hy Hin]]. subst x.
      rewrite In_sort_str in Hin.
      destruct (String.eqb (clear y) dummy_node) eqn:E; [|reflexivity].
      apply String.eqb_eq in E. exfalso. apply (Hnd y); [apply Hrc; assumption|assumption].
    - unfold recs_out. destruct (m_receivers m) as [|r0 rr] eqn:Er; [constructor; [intros []|constructor]|].
      eapply Permutation_NoDup; [|exact Hrn]. apply Permutation_map. apply sort_by_perm.
    - intros x Hx. destruct Hx as [Hx|Hx]; [subst; apply (img_common es m mx s0)|].
      apply in_map_iff in Hx. destruct Hx as [y [<- _]]. apply (img_common es m mx y). }
  rewrite Hrecs.
  assert (Hrin : forallb (fun r => mem_str r (map n_name nodes)) (recs_in m) = true).
  { apply forallb_forall. intros x Hx. rewrite Hrin0 in Hx.
    apply in_map_iff in Hx. destruct Hx as [y [Hy Hin]]. subst x. rewrite In_sort_str in Hin.
    unfold mem_str. apply existsb_exists. exists (clear y). split; [apply Hnodes, Hrc; assumption|apply String.eqb_refl]. }
  rewrite Hrin. cbn [negb].
  assert (Htx : mem_str (clear (m_sender m)) (map n_name nodes) = true).
  { unfold mem_str. apply existsb_exists. exists (clear (m_sender m)). split; [apply Hnodes; assumption|apply String.eqb_refl]. }
  rewrite Htx. cbn [negb].
  assert (Hname : mem_str (clear (m_name m))
                    (map m_name (filter (fun x => String.eqb (m_sender x) (clear (m_sender m))) done)) = false).
  { apply not_in_mem_str. intros Hin. apply in_map_iff in Hin. destruct Hin as [x [Hx Hin]].
    apply filter_In in Hin. destruct Hin as [Hin Hs]. apply String.eqb_eq in Hs.
    apply Hpair. apply in_map_iff. exists x. split; [rewrite Hs, Hx; reflexivity|assumption]. }
  rewrite Hname.
  rewrite (u32_id (m_size m)) by lia. replace (m_size m >? 8) with false by lia.
  rewrite (u32_id (m_canid m)) by lia. rewrite (not_in_mem_z _ _ Hcan).
  rewrite (u32_id (m_canid m)) in Hsig by lia. rewrite (u32_id (m_size m)) in Hsig by lia.
  match goal with |- bind ?x ?k = _ => replace x with (@Ok (istate * list signal) (st', mux_result mx mid gs EI S')) end.
  cbn [bind]. reflexivity.
Qed.

(* ---------------- projection of a message with a multiplexer ---------------- *)
From Acme.C11 Require RoundTripAttr.
Section MuxProj.
  Variables (es : list enum_def) (st : istate) (names : list string) (m : message) (mx : signal) (mid gs : Z) (EI : signal -> Z) (S' : list signal).
  Hypothesis Hmm : mmessage es names m.
  Hypothesis Hmx : In mx (m_signals m).
  Hypothesis Hmxm : is_muxb mx = true.
  Hypothesis Huniq : one_mux (m_signals m).
  Hypothesis Hwf : forall s, In s (m_signals m) -> enum_wf (e_of es s).
  Hypothesis HEI : forall s, In s (m_signals m) -> s <> mx -> EIok es st s (EI s).
  Hypothesis HpS : Permutation (m_signals m) S'.
  Hypothesis Hmid : In (mid, mx) (index_from 0 S').
  Let sigs := m_signals m.
  Let X := index_from 0 S'.
  Let R := mux_result mx mid gs EI S'.
  Let es' := is_enums st.
  Let Hms : msigs_ok es sigs. Proof. destruct Hmm as [_ [_ [_ [_ [_ [_ [_ [H _]]]]]]]]. exact H. Qed.

  Definition Fimg (p : Z * signal) : signal :=
    if is_muxb (snd p) then mx_img mx (fst p) gs
    else if is_topb (snd p) then timg EI p else kimg mx mid EI p.
  Definition Y : list (Z * signal) := filter plainp X ++ [(mid, mx)] ++ filter childp X.

  Lemma HndS : NoDup S'.
  Proof. destruct Hms as [Hids _]. eapply Permutation_NoDup; [exact HpS|]. eapply NoDup_map_inv. exact Hids. Qed.

  Lemma X_in : forall p, In p X -> In (snd p) sigs.
  Proof.
    intros [i x] Hp. cbn [snd]. apply index_from_range in Hp. destruct Hp as [_ Hx].
    eapply Permutation_in; [apply Permutation_sym; exact HpS|exact Hx].
  Qed.

  Lemma mux_filter : filter (fun p : Z * signal => is_muxb (snd p)) X = [(mid, mx)].
  Proof.
    pose proof (index_from_snd_nodup S' 0 HndS) as Hn2. fold X in Hn2.
    pose proof Hmid as Hm2. fold X in Hm2. apply in_split in Hm2. destruct Hm2 as [A [B HAB]].
    assert (HXi := X_in). rewrite HAB in *. rewrite filter_app. cbn [filter snd]. rewrite Hmxm.
    rewrite map_app in Hn2. cbn [map snd] in Hn2. pose proof Huniq as Hu.
    assert (HA : filter (fun p : Z * signal => is_muxb (snd p)) A = []).
    { apply Proofs.filter_nil. intros q Hq. destruct (is_muxb (snd q)) eqn:E; [|reflexivity]. exfalso.
      assert (snd q = mx) by (apply Hu; try assumption; apply HXi; apply in_or_app; left; assumption).
      apply NoDup_remove_2 in Hn2. apply Hn2. apply in_or_app. left. rewrite <- H. apply in_map. assumption. }
    assert (HB : filter (fun p : Z * signal => is_muxb (snd p)) B = []).
    { apply Proofs.filter_nil. intros q Hq. destruct (is_muxb (snd q)) eqn:E; [|reflexivity]. exfalso.
      assert (snd q = mx) by (apply Hu; try assumption; apply HXi; apply in_or_app; right; right; assumption).
      apply NoDup_remove_2 in Hn2. apply Hn2. apply in_or_app. right. rewrite <- H. apply in_map. assumption. }
    rewrite HA, HB. reflexivity.
  Qed.

  Lemma mx_is_top : is_topb mx = true.
  Proof.
    destruct Hms as [_ [_ [_ [_ [Hch _]]]]]. destruct (is_topb mx) eqn:Et; [reflexivity|]. exfalso.
    destruct (Hch mx Hmx Et) as [p [_ [_ [_ [Hk _]]]]]. unfold is_muxb in Hmxm. destruct (s_kind mx); try discriminate. apply Hk. reflexivity.
  Qed.

  Lemma XY_perm : Permutation X Y.
  Proof.
    unfold Y. rewrite <- mux_filter.
    assert (E1 : Permutation X (filter plainp X ++ filter (fun p => negb (plainp p)) X)).
    { eapply Permutation_trans; [|apply Permutation_sym; apply filter_partition_perm; intros x _; destruct (plainp x); reflexivity].
      rewrite filter_all; [apply Permutation_refl|]. intros x _. destruct (plainp x); reflexivity. }
    eapply Permutation_trans; [exact E1|]. apply Permutation_app_head.
    eapply Permutation_trans; [|apply Permutation_sym; apply filter_partition_perm].
    - erewrite filter_ext_in; [apply Permutation_refl|]. intros p Hp. unfold plainp, childp. cbn beta.
      destruct (is_muxb (snd p)) eqn:Em, (is_topb (snd p)) eqn:Et; reflexivity.
    - intros p Hp. unfold childp. destruct (is_muxb (snd p)) eqn:Em, (is_topb (snd p)) eqn:Et; try reflexivity.
      exfalso. pose proof Huniq as Hu. assert (snd p = mx) by (apply Hu; try assumption; apply X_in; assumption).
      rewrite H in Et. rewrite mx_is_top in Et. discriminate.
  Qed.

  Lemma R_map : R = map Fimg Y.
  Proof.
    unfold R, mux_result, Y. fold X. rewrite !map_app. cbn [map]. f_equal; [|f_equal].
    - apply map_ext_in. intros p Hp. apply filter_In in Hp. destruct Hp as [_ Hp]. unfold plainp in Hp. apply andb_true_iff in Hp. destruct Hp as [P1 P2].
      apply negb_true_iff in P2. unfold Fimg. rewrite P2, P1. reflexivity.
    - unfold Fimg. cbn [fst snd]. rewrite Hmxm. reflexivity.
    - apply map_ext_in. intros p Hp. apply filter_In in Hp. destruct Hp as [Hpx Hp]. unfold childp in Hp. apply negb_true_iff in Hp.
      unfold Fimg. rewrite Hp. destruct (is_muxb (snd p)) eqn:Em; [|reflexivity].
      exfalso. pose proof Huniq as Hu. assert (snd p = mx) by (apply Hu; try assumption; apply X_in; assumption).
      rewrite H in Hp. rewrite mx_is_top in Hp. discriminate.
  Qed.

  Lemma Fimg_id : forall p, s_id (Fimg p) = fst p.
  Proof.
    intros p. unfold Fimg. destruct (is_muxb (snd p)); [reflexivity|].
    destruct (is_topb (snd p)); cbn [s_id timg kimg place]; apply (rimg_fields (fst p) (snd p) (EI (snd p))).
  Qed.

  Lemma Fimg_facts : forall p, In p X ->
    s_name (Fimg p) = clear (s_name (snd p)) /\ s_attrs (Fimg p) = [] /\ s_startval (Fimg p) = fl_zero /\ s_sendtype (Fimg p) = 0.
  Proof.
    intros p Hp. pose proof (X_in p Hp) as Hs. pose proof Huniq as Hu.
    unfold Fimg. destruct (is_muxb (snd p)) eqn:Em.
    - rewrite (Hu (snd p) mx Hs Hmx Em Hmxm). cbn. auto.
    - destruct (rimg_fields (fst p) (snd p) (EI (snd p))) as [_ [F2 [_ [F4 [F5 F6]]]]].
      destruct (is_topb (snd p)); cbn [s_name s_attrs s_startval s_sendtype timg kimg place]; auto.
  Qed.

  Lemma R_ids : NoDup (map s_id R).
  Proof.
    rewrite R_map, map_map. rewrite (map_ext _ fst) by apply Fimg_id.
    eapply Permutation_NoDup; [apply Permutation_map; exact XY_perm|]. apply ProofsIds.index_from_fst_nodup.
  Qed.

  Lemma mx_in_R : In (mx_img mx mid gs) R.
  Proof. unfold R, mux_result. apply in_or_app. right. left. reflexivity. Qed.

  Hypothesis Hgs : 1 <= gs.

  Lemma find_mx : find_sig R mid = Some (mx_img mx mid gs).
  Proof. apply (ProofsIds.find_sig_unique R (mx_img mx mid gs) R_ids mx_in_R). Qed.

  Lemma R_len : exists k, length R = S k.
  Proof. pose proof mx_in_R as H. destruct R as [|x r]; [destruct H|]. exists (length r). reflexivity. Qed.

  Lemma sigs_len : exists k, length sigs = S k.
  Proof. pose proof Hmx as H. fold sigs in H. destruct sigs as [|x r]; [destruct H|]. exists (length r). reflexivity. Qed.

  Lemma selw_img : sel_width (mx_img mx mid gs) = sel_width mx.
  Proof.
    destruct (selw_facts es m mx names Hmm Hmx Hmxm) as [Hs _].
    unfold sel_width at 1. cbn [s_gcount mx_img]. apply ProofsIds.calc_size_sel. lia.
  Qed.

  (* the data part of the projection of an imported standard / enum signal *)
  Lemma rimg_proj : forall id s, In s sigs -> s <> mx -> s_kind s <> KMux ->
    let x := rimg id s (EI s) in
    s_kind x = s_kind s /\ sig_size es' x = sig_size es s /\
    (s_kind s = KStandard -> s_signed x = s_signed s /\ s_scale x = s_scale s /\ s_offset x = s_offset s /\ s_min x = s_min s /\
                             s_max x = s_max s /\ s_unit x = s_unit s) /\
    (s_kind s = KEnum -> sorted_enum_values (nth_enum es' (s_enum x)) = sorted_enum_values (nth_enum es (s_enum s))).
  Proof.
    intros id s Hs Hne Hk x. pose proof (HEI s Hs Hne) as HE. pose proof (Hwf s Hs) as Hw.
    split; [unfold x, rimg; destruct (s_kind s); try reflexivity; exfalso; apply Hk; reflexivity|].
    split; [apply rimg_size; assumption|]. split.
    - intros E. unfold x, rimg. rewrite E. cbn. auto 10.
    - intros E. destruct (HE E) as [_ [Hv _]]. unfold x, rimg. rewrite E. cbn [s_enum]. unfold es'. rewrite Hv. rewrite (evals_id _ Hw). reflexivity.
  Qed.

  Lemma proj_pt : forall p, In p X -> proj_signal es' R (Fimg p) = proj_signal es sigs (snd p).
  Proof.
    intros p Hp. pose proof (X_in p Hp) as Hs. destruct Hms as [Hids _].
    destruct (is_muxb (snd p)) eqn:Em.
    - (* the multiplexer *)
      assert (Hpm : snd p = mx) by (apply Huniq; assumption).
      assert (Hpi : fst p = mid).
      { pose proof (index_from_snd_nodup S' 0 HndS) as Hn2. fold X in Hn2.
        assert (p = (mid, mx)) by (apply (NoDup_map_inj snd X); [assumption|assumption|exact Hmid|rewrite Hpm; reflexivity]). subst p. reflexivity. }
      unfold Fimg. rewrite Em, Hpm, Hpi.
      destruct (mx_top es m mx names Hmm Hmx Hmxm) as [[Hp0 [Hg0 [Hv0 [Ht0 [Ha0 _]]]]] _].
      unfold proj_signal, membership. rewrite !abs_start_top by (try assumption; reflexivity).
      pose proof Hmxm as Hmk. unfold is_muxb in Hmk. destruct (s_kind mx) eqn:Ek; try discriminate.
      cbn [s_kind s_name s_rel s_parent s_groups s_desc s_startval s_sendtype s_attrs mx_img]. rewrite selw_img, ?Ek, Hp0, Hv0, Ht0, Ha0, clear_spaces_idem. reflexivity.
    - assert (Hne : snd p <> mx) by (intros Heq; rewrite Heq in Em; congruence).
      destruct (other_sig es m mx names Hmm Hmx Hmxm Huniq (snd p) Hs Hne) as [_ [Hk Hc]].
      destruct (rimg_proj (fst p) (snd p) Hs Hne Hk) as [Q1 [Q2 [Q3 Q4]]]. cbv zeta in Q1, Q2, Q3, Q4.
      destruct (rimg_fields (fst p) (snd p) (EI (snd p))) as [F1 [F2 [F3 [F4 [F5 F6]]]]].
      unfold Fimg. rewrite Em.
      destruct Hc as [[Ht [Hp0 [Hg0 [Hv0 [Ht0 [Ha0 [Hr0 Hsz]]]]]]]|[Ht Hok]]; rewrite Ht.
      + (* a top-level signal beside the multiplexer *)
        unfold proj_signal, membership. rewrite !abs_start_top by (try assumption; reflexivity).
        unfold timg. rewrite ProofsLayout.sig_size_place.
        cbn [s_kind s_name s_rel s_parent s_groups s_signed s_scale s_offset s_min s_max s_unit s_enum s_desc s_startval s_sendtype s_attrs place].
        fold (rim EI p). unfold rim. rewrite Q1, Q2, F2, F3, F4, F5, F6, Hp0, Hv0, Ht0, Ha0, clear_spaces_idem.
        destruct (s_kind (snd p)) eqn:Ek; try (exfalso; apply Hk; reflexivity).
        * destruct (Q3 eq_refl) as [A1 [A2 [A3 [A4 [A5 A6]]]]]. rewrite A1, A2, A3, A4, A5, A6. reflexivity.
        * rewrite (Q4 eq_refl). reflexivity.
      + (* a multiplexed signal *)
        destruct Hok as [_ [Hpar [Hgok [Hv0 [Ht0 [Ha0 _]]]]]].
        assert (Hmem : membership R (kimg mx mid EI p) = membership sigs (snd p)).
        { unfold membership, kimg. cbn [s_parent s_groups place]. rewrite Hpar, find_mx, (ProofsIds.find_sig_unique sigs mx Hids Hmx).
          cbn [s_gcount mx_img]. unfold igrp.
          destruct (selw_facts es m mx names Hmm Hmx Hmxm) as [_ [Hgw [Hg1 _]]].
          exact (igrp_membership mx (snd p) (sel_width mx) (conj Hk Hgok) Hg1 Hgw). }
        destruct R_len as [k HRl]. destruct sigs_len as [k2 HSl].
        unfold proj_signal. rewrite Hmem, HRl, HSl. cbn [abs_start].
        unfold kimg. rewrite ProofsLayout.sig_size_place.
        cbn [s_kind s_name s_rel s_parent s_groups s_signed s_scale s_offset s_min s_max s_unit s_enum s_desc s_startval s_sendtype s_attrs place].
        rewrite find_mx. rewrite Hpar.
        rewrite (ProofsIds.find_sig_unique sigs mx Hids Hmx).
        rewrite !abs_start_top by (try reflexivity; apply (proj1 (mx_top es m mx names Hmm Hmx Hmxm))).
        fold (rim EI p). unfold rim. rewrite Q1, Q2, F2, F3, F4, F5, F6, Hv0, Ht0, Ha0, selw_img, clear_spaces_idem.
        cbn [s_name s_rel mx_img]. rewrite clear_spaces_idem.
        destruct (s_kind (snd p)) eqn:Ek; try (exfalso; apply Hk; reflexivity).
        * destruct (Q3 eq_refl) as [A1 [A2 [A3 [A4 [A5 A6]]]]]. rewrite A1, A2, A3, A4, A5, A6. reflexivity.
        * rewrite (Q4 eq_refl). reflexivity.
  Qed.

  Lemma proj_sigs_mux :
    sort_by (fun a b => str_ltb (ps_name a) (ps_name b)) (map (proj_signal es' R) R)
    = sort_by (fun a b => str_ltb (ps_name a) (ps_name b)) (map (proj_signal es sigs) sigs).
  Proof.
    assert (HR1 : map (proj_signal es' R) R = map (fun p => proj_signal es' R (Fimg p)) Y).
    { transitivity (map (proj_signal es' R) (map Fimg Y)); [f_equal; exact R_map|apply map_map]. }
    assert (HR2 : Permutation (map (proj_signal es' R) R) (map (proj_signal es sigs) sigs)).
    { rewrite HR1.
      eapply Permutation_trans; [apply Permutation_map; apply Permutation_sym; exact XY_perm|].
      rewrite (map_ext_in _ (fun p => proj_signal es sigs (snd p))) by (intros p Hp; apply proj_pt; assumption).
      rewrite <- (map_map snd (proj_signal es sigs)). unfold X. rewrite Proofs.index_from_snd.
      apply Permutation_map. apply Permutation_sym. exact HpS. }
    apply (RoundTripAttr.keyed_sort_perm_eq ps_name); [exact HR2|].
    eapply Permutation_NoDup; [apply Permutation_map; apply Permutation_sym; exact HR2|].
    rewrite map_map. destruct Hms as [_ [Hn _]]. exact Hn.
  Qed.
End MuxProj.

(* ---------------- several multiplexers in one message: the message restricted to one of them ---------------- *)
Definition keepb (t s : signal) : bool :=
  (is_topb s && negb (is_muxb s)) || (s_id s =? s_id t) || (match s_parent s with Some q => q =? s_id t | None => false end).
Definition restrict (m : message) (t : signal) : message := set_m_signals m (filter (keepb t) (m_signals m)).

Lemma layout_e_from_le : forall es l from from' lim, from' <= from -> layout_e es from lim l -> layout_e es from' lim l.
Proof. intros es l from from' lim H Hl. destruct l as [|a r]; [exact I|]. cbn in *. destruct Hl as [H1 [H2 H3]]. split; [lia|split; assumption]. Qed.
Lemma layout_e_filter : forall es (f : signal -> bool) l from lim, Forall (top_ok es) l -> layout_e es from lim l -> layout_e es from lim (filter f l).
Proof.
  intros es f l. induction l as [|a r IH]; intros from lim Hf H; cbn [filter]; [exact I|].
  cbn [layout_e] in H. destruct H as [H1 [H2 H3]]. inversion Hf as [|? ? Ha Hr]; subst.
  destruct (f a).
  - cbn [layout_e]. split; [assumption|]. split; [assumption|]. apply IH; assumption.
  - apply (layout_e_from_le es _ (s_rel a + sig_size es a)); [pose proof (top_size_pos es a Ha); lia|]. apply IH; assumption.
Qed.
Lemma filter_filter_comm : forall {A} (f g : A -> bool) l, filter f (filter g l) = filter g (filter f l).
Proof. intros A f g l. induction l as [|x r IH]; [reflexivity|]. cbn [filter]. destruct (f x) eqn:Ef, (g x) eqn:Eg; cbn [filter]; rewrite ?Ef, ?Eg, IH; reflexivity. Qed.

Lemma restrict_ok : forall es names m t, mmessage es names m -> In t (m_signals m) -> is_muxb t = true ->
  mmessage es names (restrict m t) /\ one_mux (m_signals (restrict m t)) /\ In t (m_signals (restrict m t)) /\
  (forall s, In s (m_signals (restrict m t)) -> In s (m_signals m)) /\
  (forall s, In s (m_signals m) -> is_topb s = true -> is_muxb s = false -> In s (m_signals (restrict m t))) /\
  (forall c, In c (m_signals m) -> s_parent c = Some (s_id t) -> In c (m_signals (restrict m t))) /\
  (forall c, In c (m_signals (restrict m t)) -> is_topb c = false -> s_parent c = Some (s_id t)).
Proof.
  intros es names m t [Ha [Hc [Hdl [Hsd [Hst [Hid [Hsz [Hms [Hlay [Hsn [Hrc [Hrn Hre]]]]]]]]]]]] Ht Htm.
  pose proof Hms as [Hids [Hnames [Htops [Htopm [Hch Hdis]]]]].
  set (sg := filter (keepb t) (m_signals m)).
  assert (Hsub : forall s, In s sg -> In s (m_signals m)) by (intros s Hs; apply filter_In in Hs; tauto).
  assert (Hkeep : forall s, In s sg -> keepb t s = true) by (intros s Hs; apply filter_In in Hs; tauto).
  assert (Htt : is_topb t = true) by (apply Htopm; assumption).
  assert (Htin : In t sg) by (apply filter_In; split; [assumption|unfold keepb; rewrite Z.eqb_refl, orb_true_r; reflexivity]).
  assert (Hmuxt : forall s, In s sg -> is_muxb s = true -> s = t).
  { intros s Hs Hm. pose proof (Hkeep s Hs) as Hk. unfold keepb in Hk. rewrite Hm in Hk. cbn [negb] in Hk. rewrite andb_false_r in Hk. cbn [orb] in Hk.
    pose proof (Htopm s (Hsub s Hs) Hm) as Hx. unfold is_topb in Hx.
    destruct (s_parent s) eqn:Ep; [discriminate|].
    rewrite orb_false_r in Hk. apply Z.eqb_eq in Hk. apply (NoDup_map_inj s_id (m_signals m)); auto. }
  assert (Hchild : forall c, In c sg -> is_topb c = false -> s_parent c = Some (s_id t)).
  { intros c Hc0 Hct. pose proof (Hkeep c Hc0) as Hk. unfold keepb in Hk. rewrite Hct in Hk. cbn [andb orb] in Hk.
    apply orb_true_iff in Hk. destruct Hk as [Hk|Hk].
    - apply Z.eqb_eq in Hk. assert (c = t) by (apply (NoDup_map_inj s_id (m_signals m)); auto). subst c. congruence.
    - destruct (s_parent c) as [q|]; [apply Z.eqb_eq in Hk; subst; reflexivity|discriminate]. }
  unfold restrict. cbn [m_signals set_m_signals]. fold sg.
  split; [|split; [|split; [exact Htin|split; [exact Hsub|split; [|split; [|exact Hchild]]]]]].
  - unfold mmessage. cbn [m_attrs m_cycle m_delay m_startdelay m_sendtype m_canid m_size m_signals m_sender m_receivers set_m_signals]. fold sg.
    refine (conj Ha (conj Hc (conj Hdl (conj Hsd (conj Hst (conj Hid (conj Hsz (conj _ (conj _ (conj Hsn (conj Hrc (conj Hrn _)))))))))))).
    + split; [apply NoDup_map_filter; assumption|]. split; [apply NoDup_map_filter; assumption|]. split.
      { unfold sg. rewrite filter_filter_comm. apply Forall_filter. assumption. }
      split; [intros a Ha0 Hma; apply Htopm; [apply Hsub; assumption|assumption]|]. split.
      * intros c Hc0 Hct. destruct (Hch c (Hsub c Hc0) Hct) as [mx [Hmx [Hmt [Hmm Hok]]]].
        assert (mx = t).
        { apply (NoDup_map_inj s_id (m_signals m)); auto. destruct Hok as [_ [Hp _]]. rewrite (Hchild c Hc0 Hct) in Hp. inversion Hp. reflexivity. }
        subst mx. exists t. auto.
      * intros c c' Hc0 Hc1. apply Hdis; apply Hsub; assumption.
    + unfold sg. rewrite filter_filter_comm. apply layout_e_filter; assumption.
    + intros E. rewrite E in Htin. destruct Htin.
  - intros a b Ha0 Hb0 Hma Hmb. rewrite (Hmuxt a Ha0 Hma), (Hmuxt b Hb0 Hmb). reflexivity.
  - intros s Hs Hst0 Hsm. apply filter_In. split; [assumption|]. unfold keepb. rewrite Hst0, Hsm. reflexivity.
  - intros c Hc0 Hp. apply filter_In. split; [assumption|]. unfold keepb. rewrite Hp, Z.eqb_refl. rewrite !orb_true_r. reflexivity.
Qed.

Lemma in_skipn : forall {A} (l : list A) n x, In x (skipn n l) -> In x l.
Proof.
  intros A l. induction l as [|a r IH]; intros n x H; destruct n; cbn in *; auto. right. eapply IH. exact H.
Qed.

Lemma nth_error_not_in_skipn : forall {A} (l : list A) j x, NoDup l -> nth_error l j = Some x -> ~ In x (skipn (S j) l).
Proof.
  intros A l. induction l as [|a r IH]; intros j x Hnd Hj; [destruct j; discriminate|]. inversion Hnd as [|? ? Hni Hr]; subst.
  destruct j as [|j]; cbn [nth_error skipn] in *.
  - inversion Hj; subst. intros Hin. apply Hni. exact Hin.
  - apply IH; assumption.
Qed.
Lemma in_firstn : forall {A} (l : list A) n x, In x (firstn n l) -> In x l.
Proof.
  intros A l. induction l as [|a r IH]; intros n x H; destruct n; cbn in *; try contradiction. destruct H as [H|H]; [left; assumption|right; eapply IH; eassumption].
Qed.
Lemma skipn_nth_error : forall {A} (l : list A) j x, nth_error l j = Some x -> skipn j l = x :: skipn (S j) l.
Proof.
  intros A l. induction l as [|a r IH]; intros j x Hj; [destruct j; discriminate|]. destruct j as [|j]; cbn [nth_error skipn] in *.
  - inversion Hj. reflexivity.
  - apply IH. assumption.
Qed.
Lemma firstn_snoc_nth : forall {A} (l : list A) j x, nth_error l j = Some x -> firstn (S j) l = firstn j l ++ [x].
Proof.
  intros A l. induction l as [|a r IH]; intros j x Hj; [destruct j; discriminate|]. destruct j as [|j]; cbn [nth_error firstn app] in *.
  - inversion Hj. reflexivity.
  - f_equal. apply IH. assumption.
Qed.

(* appending to the n-th list of a list of lists that is a map *)
Lemma app_nth_map_snoc : forall {A B} (F : A -> list B) (sel : A -> bool) (x : B) (l : list A) n,
  (n < length l)%nat -> (forall j a, nth_error l j = Some a -> (sel a = true <-> j = n)) ->
  app_nth n x (map F l) = map (fun a => F a ++ (if sel a then [x] else [])) l.
Proof.
  intros A B F sel x l. induction l as [|a r IH]; intros n Hn Hsel; [cbn in Hn; lia|].
  unfold app_nth in *. destruct n as [|n].
  - cbn [map nth replace_nth]. rewrite (proj2 (Hsel 0%nat a eq_refl) eq_refl). f_equal.
    apply map_ext_in. intros b Hb. apply In_nth_error in Hb. destruct Hb as [j Hj].
    destruct (sel b) eqn:E; [|rewrite app_nil_r; reflexivity]. exfalso.
    pose proof (proj1 (Hsel (S j) b Hj) E). discriminate.
  - cbn [map nth replace_nth]. destruct (sel a) eqn:E; [pose proof (proj1 (Hsel 0%nat a eq_refl) E); discriminate|]. rewrite app_nil_r. f_equal.
    apply IH; [cbn in Hn; lia|]. intros j b Hj. specialize (Hsel (S j) b Hj). split; intros H; [apply Hsel in H; lia|apply Hsel; lia].
Qed.

(* the position table of the switches: names distinct, so every name finds its position *)
Lemma mux_names_lookup : forall muxes j p, NoDup (map (fun q : Z * dsignal => ds_name (snd q)) muxes) ->
  nth_error muxes j = Some p ->
  lookup String.eqb (ds_name (snd p))
    (fold_left (fun acc (p : nat * (Z * dsignal)) => let '(i, (_, ds)) := p in (ds_name ds, i) :: acc) (combine (seq 0 (length muxes)) muxes) []) = Some j.
Proof.
  intros muxes j p Hnd Hj.
  assert (G : forall l (k : nat) acc, NoDup (map (fun q : Z * dsignal => ds_name (snd q)) l) ->
            (forall i q, nth_error l i = Some q ->
               lookup String.eqb (ds_name (snd q))
                 (fold_left (fun acc (p : nat * (Z * dsignal)) => let '(i, (_, ds)) := p in (ds_name ds, i) :: acc) (combine (seq k (length l)) l) acc) = Some (k + i)%nat)).
  { induction l as [|[z ds] r IH]; intros k acc Hn i q Hi; [destruct i; discriminate|].
    cbn [length seq combine fold_left]. cbn [map snd] in Hn. inversion Hn as [|? ? Hni Hr]; subst.
    destruct i as [|i].
    - cbn in Hi. inversion Hi; subst q. cbn [snd].
      assert (Hkeep : forall l2 k2 acc2, ~ In (ds_name ds) (map (fun q : Z * dsignal => ds_name (snd q)) l2) ->
                lookup String.eqb (ds_name ds) (fold_left (fun acc (p : nat * (Z * dsignal)) => let '(i, (_, ds)) := p in (ds_name ds, i) :: acc) (combine (seq k2 (length l2)) l2) acc2)
                = lookup String.eqb (ds_name ds) acc2).
      { induction l2 as [|[z2 d2] r2 IH2]; intros k2 acc2 Hn2; [reflexivity|]. cbn [length seq combine fold_left].
        rewrite IH2 by (intros Hc; apply Hn2; right; assumption). cbn [lookup].
        destruct (String.eqb (ds_name ds) (ds_name d2)) eqn:E; [|reflexivity]. apply String.eqb_eq in E. exfalso. apply Hn2. left. symmetry. exact E. }
      rewrite Hkeep by assumption. cbn [lookup]. rewrite String.eqb_refl. f_equal. lia.
    - cbn in Hi. rewrite (IH (S k) _ Hr i q Hi). f_equal. lia. }
  rewrite (G muxes 0%nat [] Hnd j p Hj). reflexivity.
Qed.

Section MultiImport.
  Variables (es : list enum_def) (env : ienv) (mpos : nat) (m : message) (names : list string) (st0 : istate).
  Hypothesis Hmm : mmessage es names m.
  Let sigs := m_signals m.
  Let msgid := u32 (m_canid m).
  Let o := m_order m.
  Let recs := recs_out m.
  Hypothesis Henv : forall s, In s sigs -> is_muxb s = false -> env_sig es env st0 msgid s /\ enum_wf (e_of es s).
  Hypothesis Henvx : forall t, In t sigs -> is_muxb t = true -> desc_of key_eqb (msgid, clear (s_name t)) (ie_sig_desc env) = s_desc t.
  Hypothesis Hext : forall t c, In t sigs -> is_muxb t = true -> In c sigs -> s_parent c = Some (s_id t) ->
    lookup key_eqb (msgid, clear (s_name c)) (ie_ext_muxes env)
    = Some (mkdextmux msgid (clear (s_name t)) (clear (s_name c)) (ranges_of (mem_of (s_gcount t) c))).
  Hypothesis Hextm : forall t, In t sigs -> is_topb t = true -> lookup key_eqb (msgid, clear (s_name t)) (ie_ext_muxes env) = None.
  Hypothesis Hrv0 : ProofsEnum.refs_valid st0.
  Let Hms : msigs_ok es sigs. Proof. destruct Hmm as [_ [_ [_ [_ [_ [_ [_ [H _]]]]]]]]. exact H. Qed.

  (* the multiplexer of a multiplexed signal *)
  Definition par (c : signal) : signal :=
    match s_parent c with Some q => match find_sig sigs q with Some t => t | None => c end | None => c end.

  Lemma par_spec : forall c, In c sigs -> is_topb c = false ->
    In (par c) sigs /\ is_muxb (par c) = true /\ is_topb (par c) = true /\ child_ok es (par c) c /\ s_parent c = Some (s_id (par c)).
  Proof.
    intros c Hc Hct. destruct Hms as [Hids [_ [_ [_ [Hch _]]]]]. destruct (Hch c Hc Hct) as [mx [Hmx [Hmt [Hmm' Hok]]]].
    pose proof Hok as [_ [Hp _]]. unfold par. rewrite Hp, (ProofsIds.find_sig_unique sigs mx Hids Hmx). auto.
  Qed.

  Lemma par_of : forall t c, In t sigs -> In c sigs -> s_parent c = Some (s_id t) -> par c = t.
  Proof.
    intros t c Ht Hc Hp. destruct Hms as [Hids _]. unfold par. rewrite Hp, (ProofsIds.find_sig_unique sigs t Hids Ht). reflexivity.
  Qed.

  Definition imgM (s : signal) : dsignal :=
    if is_muxb s then mux_dsig o recs s
    else if is_topb s then dsig_e es o recs s
    else child_dsig es o recs (par s) (u32 (grp s)) s.

  (* the restriction to one multiplexer sees the same lines *)
  Lemma imgM_restrict : forall t s, In t sigs -> is_muxb t = true -> In s (m_signals (restrict m t)) ->
    img es (restrict m t) t s = imgM s.
  Proof.
    intros t s Ht Htm Hs. destruct (restrict_ok es names m t Hmm Ht Htm) as [_ [_ [_ [Hsub [_ [_ Hchild]]]]]].
    unfold img, imgM. cbn [m_order m_receivers restrict set_m_signals]. change (recs_out (set_m_signals m (filter (keepb t) (m_signals m)))) with recs.
    destruct (is_muxb s); [reflexivity|]. destruct (is_topb s) eqn:Et; [reflexivity|].
    rewrite (par_of t s Ht (Hsub s Hs) (Hchild s Hs Et)). reflexivity.
  Qed.
  (* ---- restriction-based facts about the exported lines ---- *)
  Hypothesis Hsome : exists t0, In t0 sigs /\ is_muxb t0 = true.

  Lemma restrict_env : forall t, In t sigs -> is_muxb t = true ->
    (forall s, In s (m_signals (restrict m t)) -> is_muxb s = false -> env_sig es env st0 (u32 (m_canid (restrict m t))) s /\ enum_wf (e_of es s)) /\
    (forall c, In c (m_signals (restrict m t)) -> is_topb c = false ->
       lookup key_eqb (u32 (m_canid (restrict m t)), clear (s_name c)) (ie_ext_muxes env)
       = match ext_of (u32 (m_canid (restrict m t))) t true c with [] => None | e :: _ => Some e end).
  Proof.
    intros t Ht Htm. destruct (restrict_ok es names m t Hmm Ht Htm) as [_ [_ [_ [Hsub [_ [_ Hchild]]]]]]. split.
    - intros s Hs Hnm. apply Henv; [apply Hsub; assumption|assumption].
    - intros c Hc Hct. change (u32 (m_canid (restrict m t))) with msgid. unfold ext_of. cbn [negb andb].
      apply (Hext t c Ht Htm (Hsub c Hc) (Hchild c Hc Hct)).
  Qed.

  Lemma imgM_fields : forall s, In s sigs -> is_muxb s = false ->
    ds_name (imgM s) = clear (s_name s) /\ ds_size (imgM s) = sig_size es s /\ ds_muxed (imgM s) = negb (is_topb s) /\ ds_muxor (imgM s) = false /\
    s_kind s <> KMux /\ (s_kind s = KStandard -> 0 < s_size s < 2 ^ 32) /\ 0 < sig_size es s /\
    match s_kind s with
    | KStandard => ds_size (imgM s) = s_size s /\ ds_signed (imgM s) = s_signed s /\ ds_factor (imgM s) = s_scale s /\ ds_offset (imgM s) = s_offset s /\
                   ds_min (imgM s) = s_min s /\ ds_max (imgM s) = s_max s /\ ds_unit (imgM s) = s_unit s
    | _ => ds_size (imgM s) = enum_size (e_of es s)
    end.
  Proof.
    intros s Hs Hnm.
    assert (Ht : exists t, In t sigs /\ is_muxb t = true /\ In s (m_signals (restrict m t))).
    { destruct (is_topb s) eqn:Et.
      - destruct Hsome as [t0 [H1 H2]]. exists t0. split; [assumption|]. split; [assumption|].
        destruct (restrict_ok es names m t0 Hmm H1 H2) as [_ [_ [_ [_ [Hpl _]]]]]. apply Hpl; assumption.
      - destruct (par_spec s Hs Et) as [P1 [P2 [_ [_ P5]]]]. exists (par s). split; [assumption|]. split; [assumption|].
        destruct (restrict_ok es names m (par s) Hmm P1 P2) as [_ [_ [_ [_ [_ [Hck _]]]]]]. apply Hck; assumption. }
    destruct Ht as [t [Ht [Htm Hst]]].
    destruct (restrict_ok es names m t Hmm Ht Htm) as [Hmt [Hu [Htin _]]].
    destruct (restrict_env t Ht Htm) as [He1 He2].
    assert (Hne : s <> t) by (intros ->; congruence).
    destruct (img_fields es env (restrict m t) t names st0 Hmt Htin Htm He1 true He2 Hu s Hst Hne) as [F1 [F2 [F3 F4]]].
    pose proof (img_data es env (restrict m t) t names st0 Hmt Htin Htm He1 true He2 Hu s Hst Hne) as F5.
    destruct (other_sig es (restrict m t) t names Hmt Htin Htm Hu s Hst Hne) as [_ [Hk _]].
    destruct (other_size es env (restrict m t) t names st0 Hmt Htin Htm He1 true He2 Hu s Hst Hne) as [Hstd Hsz].
    rewrite (imgM_restrict t s Ht Htm Hst) in F1, F2, F3, F4, F5.
    refine (conj F1 (conj F2 (conj F3 (conj F4 (conj Hk (conj Hstd (conj _ F5))))))). lia.
  Qed.

  Lemma imgM_start_top : forall t, In t sigs -> is_topb t = true -> get_start_bit (imgM t) = s_rel t.
  Proof.
    intros t Ht Htt. destruct (proj1 (tops_geo es m names Hmm) t Ht Htt) as [G1 G2]. pose proof (msize_bounds es m names Hmm).
    assert (Hpos : 0 < sig_size es t).
    { destruct Hms as [_ [_ [Htops _]]]. rewrite Forall_forall in Htops. apply (top_size_pos es t). apply Htops. apply filter_In. auto. }
    apply (gsb _ o); try lia; unfold imgM; rewrite Htt; destruct (is_muxb t); try reflexivity;
      unfold dsig_e; destruct (s_kind t); reflexivity.
  Qed.

  (* ---- the first loop: plain signals inserted at top level, multiplexed ones appended to the group of their multiplexer ---- *)
  Definition chof (t : signal) (p : Z * signal) : bool := match s_parent (snd p) with Some q => q =? s_id t | None => false end.
  Definition entM (EI : signal -> Z) (p : Z * signal) : subtree * dsignal := ((rim EI p, []), imgM (snd p)).
  Definition GR (EI : signal -> Z) (MU Xd : list (Z * signal)) : list (list (subtree * dsignal)) :=
    map (fun q => map (entM EI) (filter (chof (snd q)) Xd)) MU.

  Variable MU : list (Z * signal).
  Hypothesis HMU : forall q, In q MU -> In (snd q) sigs /\ is_muxb (snd q) = true.
  Hypothesis HMUall : forall t, In t sigs -> is_muxb t = true -> exists i, In (i, t) MU.
  Hypothesis HMUnd : NoDup (map snd MU).
  Let mux_idx (nm : string) : option nat :=
    lookup String.eqb nm (fold_left (fun acc (p : nat * (Z * dsignal)) => let '(i, (_, ds)) := p in (ds_name ds, i) :: acc)
                                    (combine (seq 0 (length (map (fun q => (fst q, imgM (snd q))) MU))) (map (fun q => (fst q, imgM (snd q))) MU)) []).

  Lemma mux_idx_spec : forall j q, nth_error MU j = Some q -> mux_idx (clear (s_name (snd q))) = Some j.
  Proof.
    intros j q Hj. unfold mux_idx.
    assert (Hn : nth_error (map (fun q => (fst q, imgM (snd q))) MU) j = Some (fst q, imgM (snd q))) by (rewrite nth_error_map, Hj; reflexivity).
    pose proof (mux_names_lookup (map (fun q => (fst q, imgM (snd q))) MU) j (fst q, imgM (snd q))) as HL. cbn [snd] in HL.
    assert (Hnm : forall q0, In q0 MU -> ds_name (imgM (snd q0)) = clear (s_name (snd q0))).
    { intros q0 Hq0. destruct (HMU q0 Hq0) as [_ Hm]. unfold imgM. rewrite Hm. reflexivity. }
    rewrite (Hnm q (nth_error_In _ _ Hj)) in HL. apply HL; [|exact Hn].
    rewrite map_map. cbn [snd]. rewrite (map_ext_in _ (fun q0 => clear (s_name (snd q0)))) by (intros q0 Hq0; apply Hnm; assumption).
    rewrite <- (map_map snd (fun s => clear (s_name s))). destruct Hms as [_ [Hnames _]].
    eapply NoDup_map_filter2; [|exact HMUnd]. intros a b Ha Hb Hab. apply (NoDup_map_inj (fun s => clear (s_name s)) sigs); try assumption.
    - apply in_map_iff in Ha. destruct Ha as [qa [<- Hqa]]. apply (HMU qa Hqa).
    - apply in_map_iff in Hb. destruct Hb as [qb [<- Hqb]]. apply (HMU qb Hqb).
  Qed.

  Definition f1M (acc : result (mstate * list (list (subtree * dsignal)))) (p : Z * dsignal) :=
    let '(id, ds) := p in
    do (ms, groups) <- acc;
    if ds_muxor ds then Ok (ms, groups) else
    do (s, st1) <- import_signal env (fst ms) mpos msgid id ds;
    if ds_muxed ds then
      match lookup key_eqb (msgid, ds_name ds) (ie_ext_muxes env) with
      | None => Err "extended multiplexing is required"%string
      | Some em =>
          match mux_idx (em_muxor em) with
          | None => Err "multiplexor not found"%string
          | Some mi => Ok ((st1, snd ms), app_nth mi ((s, []), ds) groups)
          end
      end
    else do ms' <- (let '(st0, sigs0) := (st1, snd ms) in do sigs' <- msg_insert (is_enums st0) (m_size m) sigs0 (s, []) (get_start_bit ds); Ok (st0, sigs')); Ok (ms', groups).

  Lemma chof_top : forall t p, is_topb (snd p) = true -> chof t p = false.
  Proof. intros t p H. unfold chof. unfold is_topb in H. destruct (s_parent (snd p)); [discriminate|reflexivity]. Qed.

  Lemma GR_skip : forall EI Xd p, is_topb (snd p) = true -> GR EI MU (Xd ++ [p]) = GR EI MU Xd.
  Proof.
    intros EI Xd p H. unfold GR. apply map_ext. intros q. rewrite filter_app. cbn [filter]. rewrite (chof_top (snd q) p H). rewrite app_nil_r. reflexivity.
  Qed.

  Lemma GR_child : forall EI Xd p mi i, In (snd p) sigs -> is_topb (snd p) = false -> nth_error MU mi = Some (i, par (snd p)) ->
    app_nth mi (entM EI p) (GR EI MU Xd) = GR EI MU (Xd ++ [p]).
  Proof.
    intros EI Xd p mi i Hs Ht Hmi. destruct (par_spec (snd p) Hs Ht) as [P1 [_ [_ [_ P5]]]]. destruct Hms as [Hids _].
    unfold GR. rewrite (app_nth_map_snoc _ (fun q => chof (snd q) p) (entM EI p) MU mi).
    - apply map_ext. intros q. rewrite filter_app, map_app. cbn [filter]. destruct (chof (snd q) p); reflexivity.
    - apply nth_error_Some. rewrite Hmi. discriminate.
    - intros j a Hj. unfold chof. rewrite P5. split.
      + intros E. apply Z.eqb_eq in E. destruct (HMU a (nth_error_In _ _ Hj)) as [Ha _].
        assert (Hsa : snd a = par (snd p)) by (apply (NoDup_map_inj s_id sigs); auto).
        assert (Hnth : nth_error (map snd MU) j = Some (par (snd p))) by (rewrite nth_error_map, Hj, <- Hsa; reflexivity).
        assert (Hnth2 : nth_error (map snd MU) mi = Some (par (snd p))) by (rewrite nth_error_map, Hmi; reflexivity).
        apply (proj1 (NoDup_nth_error (map snd MU)) HMUnd j mi); [apply nth_error_Some; rewrite Hnth; discriminate|congruence].
      + intros ->. rewrite Hmi in Hj. inversion Hj; subst a. cbn [snd]. apply Z.eqb_refl.
  Qed.

  Lemma loop1M : forall Xl Xd EIa st,
    (forall p, In p (Xd ++ Xl) -> In (snd p) sigs) -> NoDup (map snd (Xd ++ Xl)) ->
    Inv st -> ProofsEnum.st_le st0 st ->
    (forall q, In q Xd -> is_muxb (snd q) = false -> EIok es st (snd q) (EIa (snd q))) ->
    exists st' EI,
      fold_left f1M (map (fun p => (fst p, imgM (snd p))) Xl) (Ok ((st, map (timg EIa) (filter plainp Xd)), GR EIa MU Xd))
      = Ok ((st', map (timg EI) (filter plainp (Xd ++ Xl))), GR EI MU (Xd ++ Xl)) /\
      Inv st' /\ ProofsEnum.st_le st st' /\
      (forall q, In q (Xd ++ Xl) -> is_muxb (snd q) = false -> EIok es st' (snd q) (EI (snd q))) /\
      (forall q, In q Xd -> EI (snd q) = EIa (snd q)) /\
      (forall p, In p Xl -> is_muxb (snd p) = false -> lookup key_eqb (msgid, clear (s_name (snd p))) (is_sigmap st') = Some (mpos, fst p)) /\
      (forall k, (forall p, In p Xl -> k <> (msgid, clear (s_name (snd p)))) -> lookup key_eqb k (is_sigmap st') = lookup key_eqb k (is_sigmap st)).
  Proof.
    induction Xl as [|[id s] r IH]; intros Xd EIa st HX Hnd HI Hle HEa; cbn [map fold_left].
    - exists st, EIa. rewrite !app_nil_r. split; [reflexivity|]. split; [assumption|]. split; [apply ProofsEnum.st_le_refl|].
      split; [rewrite app_nil_r in *; exact HEa|]. split; [reflexivity|]. split; [intros p []|auto].
    - assert (Happ : forall {T} (a : list T) x b, (a ++ [x]) ++ b = a ++ x :: b) by (intros; rewrite <- app_assoc; reflexivity).
      pose proof (HX (id, s) ltac:(apply in_or_app; right; left; reflexivity)) as Hs. cbn [snd] in Hs.
      assert (HXn : forall p, In p ((Xd ++ [(id, s)]) ++ r) -> In (snd p) sigs) by (rewrite Happ; exact HX).
      assert (Hndn : NoDup (map snd ((Xd ++ [(id, s)]) ++ r))) by (rewrite Happ; exact Hnd).
      pose proof Hms as [Hids [Hnames [_ [Htopm _]]]].
      assert (Hfresh : forall q, In q (Xd ++ r) -> clear (s_name (snd q)) <> clear (s_name s)).
      { intros q Hq Heq. assert (snd q = s).
        { apply (NoDup_map_inj (fun x => clear (s_name x)) sigs); try assumption. apply HX. apply in_app_or in Hq. apply in_or_app. destruct Hq; [left|right; right]; assumption. }
        rewrite map_app in Hnd. cbn [map snd] in Hnd. apply NoDup_remove_2 in Hnd. apply Hnd. rewrite <- map_app. rewrite <- H. apply in_map. assumption. }
      unfold f1M at 2. cbn [bind fst snd].
      destruct (is_muxb s) eqn:Em.
      + (* a switch: built in the second loop *)
        assert (Hmo : ds_muxor (imgM s) = true) by (unfold imgM; rewrite Em; reflexivity). rewrite Hmo.
        assert (Htt : is_topb s = true) by (apply Htopm; assumption).
        assert (Hpl : filter plainp (Xd ++ [(id, s)]) = filter plainp Xd).
        { assert (Hpp : plainp (id, s) = false) by (unfold plainp; cbn [snd]; rewrite Em, Htt; reflexivity).
          rewrite filter_app. cbn [filter]. rewrite Hpp. apply app_nil_r. }
        destruct (IH (Xd ++ [(id, s)]) EIa st HXn Hndn HI Hle) as [st' [EI [E1 [E2 [E3 [E6 [E7 [E4 E5]]]]]]]].
        { intros q Hq Hqm. apply in_app_or in Hq. destruct Hq as [Hq|[<-|[]]]; [apply HEa; assumption|cbn [snd] in Hqm; congruence]. }
        rewrite Hpl, (GR_skip EIa Xd (id, s) Htt) in E1. rewrite Happ in E1, E6.
        exists st', EI. split; [exact E1|]. split; [exact E2|]. split; [exact E3|]. split; [exact E6|]. split.
        { intros q Hq. apply E7. apply in_or_app. left. assumption. }
        split.
        * intros p [<-|Hp] Hpm; [cbn [snd] in Hpm; congruence|apply E4; assumption].
        * intros k Hk. apply E5. intros p Hp. apply Hk. right. assumption.
      + destruct (imgM_fields s Hs Em) as [F1 [F2 [F3 [F4 [Hk [Hstd [Hpos F5]]]]]]].
        destruct (Henv s Hs Em) as [He1 He2].
        assert (Hmo : ds_muxor (imgM s) = false) by exact F4. rewrite Hmo.
        destruct (import_signal_g es env st0 st mpos msgid id (imgM s) s Hk Hstd He2 He1 HI Hle F1 F5) as [ei [st2 [Ei [I2 [L2 [K2 Hst2]]]]]].
        rewrite Ei. cbn [bind fst snd]. rewrite F3.
        assert (Hle2 : ProofsEnum.st_le st0 st2) by (eapply ProofsEnum.st_le_trans; [exact Hrv0|exact Hle|exact L2]).
        assert (Hrv : ProofsEnum.refs_valid st) by (destruct HI as [I1 _]; exact I1).
        set (EIb := fun (x : signal) => if String.eqb (clear (s_name x)) (clear (s_name s)) then ei else EIa x).
        assert (HEb0 : EIb s = ei) by (unfold EIb; rewrite String.eqb_refl; reflexivity).
        assert (HEbd : forall q, In q Xd -> EIb (snd q) = EIa (snd q)).
        { intros q Hq. unfold EIb. destruct (String.eqb (clear (s_name (snd q))) (clear (s_name s))) eqn:E; [|reflexivity].
          apply String.eqb_eq in E. exfalso. apply (Hfresh q); [apply in_or_app; left; assumption|exact E]. }
        assert (Htd : map (timg EIb) (filter plainp Xd) = map (timg EIa) (filter plainp Xd)).
        { apply map_ext_in. intros q Hq. apply filter_In in Hq. destruct Hq as [Hq _]. unfold timg, rim. rewrite (HEbd q Hq). reflexivity. }
        assert (Hgd : GR EIb MU Xd = GR EIa MU Xd).
        { unfold GR. apply map_ext. intros q0. apply map_ext_in. intros q Hq. apply filter_In in Hq. destruct Hq as [Hq _]. unfold entM, rim. rewrite (HEbd q Hq). reflexivity. }
        assert (HEab : forall q, In q (Xd ++ [(id, s)]) -> is_muxb (snd q) = false -> EIok es st2 (snd q) (EIb (snd q))).
        { intros q Hq Hqm. apply in_app_or in Hq. destruct Hq as [Hq|[<-|[]]].
          - rewrite (HEbd q Hq). eapply EIok_mono; [exact L2|]. apply HEa; assumption.
          - cbn [snd]. rewrite HEb0. exact K2. }
        assert (Hfin : forall st' EI,
          ProofsEnum.st_le st2 st' ->
          (forall q, In q (Xd ++ [(id, s)]) -> EI (snd q) = EIb (snd q)) ->
          (forall p, In p r -> is_muxb (snd p) = false -> lookup key_eqb (msgid, clear (s_name (snd p))) (is_sigmap st') = Some (mpos, fst p)) ->
          (forall k, (forall p, In p r -> k <> (msgid, clear (s_name (snd p)))) -> lookup key_eqb k (is_sigmap st') = lookup key_eqb k (is_sigmap st2)) ->
          ProofsEnum.st_le st st' /\ (forall q, In q Xd -> EI (snd q) = EIa (snd q)) /\
          (forall p, In p ((id, s) :: r) -> is_muxb (snd p) = false -> lookup key_eqb (msgid, clear (s_name (snd p))) (is_sigmap st') = Some (mpos, fst p)) /\
          (forall k, (forall p, In p ((id, s) :: r) -> k <> (msgid, clear (s_name (snd p)))) -> lookup key_eqb k (is_sigmap st') = lookup key_eqb k (is_sigmap st))).
        { intros st' EI E3 E7 E4 E5. split; [eapply ProofsEnum.st_le_trans; eauto|]. split.
          - intros q Hq. rewrite (E7 q (in_or_app _ _ _ (or_introl Hq))). apply HEbd. assumption.
          - split.
            + intros p [<-|Hp] Hpm; cbn [fst snd]; [|apply E4; assumption].
              rewrite E5, Hst2; [apply lookup_key_head|]. intros p Hp Heq. inversion Heq as [Hq]. apply (Hfresh p); [apply in_or_app; right; assumption|]. symmetry. exact Hq.
            + intros k Hk'. rewrite E5 by (intros p Hp; apply Hk'; right; assumption). rewrite Hst2. apply lookup_key_skip. apply (Hk' (id, s)). left. reflexivity. }
        destruct (is_topb s) eqn:Et; cbn [negb].
        * (* a plain top-level signal: inserted now *)
          rewrite (imgM_start_top s Hs Et).
          destruct (proj1 (tops_geo es m names Hmm) s Hs Et) as [G1 G2].
          assert (Hsz2 : sig_size (is_enums st2) (rimg id s ei) = sig_size es s) by (apply rimg_size; assumption).
          rewrite msg_insert_ok_g.
          -- cbn [bind app].
             assert (Hsg : map (timg EIa) (filter plainp Xd) ++ [place (rimg id s ei) (s_rel s) None []] = map (timg EIb) (filter plainp (Xd ++ [(id, s)]))).
             { assert (Hpp : plainp (id, s) = true) by (unfold plainp; cbn [snd]; rewrite Em, Et; reflexivity).
               rewrite filter_app, map_app, Htd. cbn [filter]. rewrite Hpp. cbn [map].
               change (timg EIb (id, s)) with (place (rimg id s (EIb s)) (s_rel s) None []). rewrite HEb0. reflexivity. }
             rewrite Hsg. rewrite <- Hgd, <- (GR_skip EIb Xd (id, s) Et).
             destruct (IH (Xd ++ [(id, s)]) EIb st2 HXn Hndn I2 Hle2 HEab) as [st' [EI [E1 [E2 [E3 [E6 [E7 [E4 E5]]]]]]]].
             rewrite Happ in E1, E6. exists st', EI. split; [exact E1|]. split; [exact E2|].
             destruct (Hfin st' EI E3 E7 E4 E5) as [A1 [A2 [A3 A4]]]. split; [exact A1|]. split; [exact E6|]. split; [exact A2|]. split; [exact A3|exact A4].
          -- destruct (rimg_fields id s ei) as [_ [Hn _]]. rewrite Hn. rewrite map_map. intros Hin. apply in_map_iff in Hin. destruct Hin as [q [Hq Hqin]].
             cbn [s_name timg place] in Hq. unfold rim in Hq. destruct (rimg_fields (fst q) (snd q) (EIa (snd q))) as [_ [Hn2 _]]. rewrite Hn2 in Hq.
             apply filter_In in Hqin. destruct Hqin as [Hqin _]. apply (Hfresh q); [apply in_or_app; left; assumption|exact Hq].
          -- intros x [].
          -- constructor; [intros []|constructor].
          -- assumption.
          -- rewrite Hsz2. assumption.
          -- rewrite Hsz2. assumption.
          -- intros d Hd _. apply in_map_iff in Hd. destruct Hd as [q [<- Hqin]]. apply filter_In in Hqin. destruct Hqin as [Hqin Hqp].
             unfold plainp in Hqp. apply andb_true_iff in Hqp. destruct Hqp as [Hqt Hqm]. apply negb_true_iff in Hqm.
             assert (Hqs : In (snd q) sigs) by (apply HX; apply in_or_app; left; assumption).
             assert (Hsq : s <> snd q).
             { intros Heq. apply (Hfresh q); [apply in_or_app; left; assumption|rewrite Heq; reflexivity]. }
             destruct (imgM_fields (snd q) Hqs Hqm) as [_ [_ [_ [_ [Hkq _]]]]].
             assert (Hszq : sig_size (is_enums st2) (timg EIa q) = sig_size es (snd q)).
             { unfold timg. rewrite ProofsLayout.sig_size_place. unfold rim. apply rimg_size; [assumption|]. eapply EIok_mono; [exact L2|]. apply HEa; assumption. }
             rewrite Hsz2, Hszq. unfold overlaps. cbn [s_rel timg place].
             destruct (proj2 (tops_geo es m names Hmm) s (snd q) Hs Hqs Et Hqt Hsq) as [Hd|Hd]; lia.
        * (* a multiplexed signal: appended to the items of its multiplexer *)
          destruct (par_spec s Hs Et) as [P1 [P2 [P3 [P4 P5]]]].
          rewrite F1, (Hext (par s) s P1 P2 Hs P5). cbn [em_muxor].
          destruct (HMUall (par s) P1 P2) as [ti Hti]. destruct (In_nth_error _ _ Hti) as [mi Hmi].
          pose proof (mux_idx_spec mi (ti, par s) Hmi) as Hmxi. cbn [snd] in Hmxi. rewrite Hmxi.
          assert (Hgr : app_nth mi (rimg id s ei, @nil signal, imgM s) (GR EIa MU Xd) = GR EIb MU (Xd ++ [(id, s)])).
          { rewrite <- Hgd. rewrite <- (GR_child EIb Xd (id, s) mi ti Hs Et Hmi). unfold entM, rim. cbn [fst snd]. rewrite HEb0. reflexivity. }
          rewrite Hgr.
          assert (Hpl : map (timg EIa) (filter plainp Xd) = map (timg EIb) (filter plainp (Xd ++ [(id, s)]))).
          { assert (Hpp : plainp (id, s) = false) by (unfold plainp; cbn [snd]; rewrite Et; reflexivity).
            rewrite filter_app. cbn [filter]. rewrite Hpp, app_nil_r. symmetry. exact Htd. }
          rewrite Hpl.
          destruct (IH (Xd ++ [(id, s)]) EIb st2 HXn Hndn I2 Hle2 HEab) as [st' [EI [E1 [E2 [E3 [E6 [E7 [E4 E5]]]]]]]].
          rewrite Happ in E1, E6. exists st', EI. split; [exact E1|]. split; [exact E2|].
          destruct (Hfin st' EI E3 E7 E4 E5) as [A1 [A2 [A3 A4]]]. split; [exact A1|]. split; [exact E6|]. split; [exact A2|]. split; [exact A3|exact A4].
  Qed.

  (* ---- the second loop: the multiplexers are built last to first and inserted at top level ---- *)
  Variable X : list (Z * signal).
  Hypothesis HX : forall p, In p X -> In (snd p) sigs.
  Hypothesis HXnd : NoDup (map snd X).
  Hypothesis HMUX : MU = filter (fun p => is_muxb (snd p)) X.
  Variable EI : signal -> Z.
  Variable st1 : istate.
  Hypothesis HEI : forall s, In s sigs -> is_muxb s = false -> EIok es st1 s (EI s).
  Let es1 := is_enums st1.

  Definition gsf (t : signal) : Z := gsz es (restrict m t) t EI st1 (filter (chof t) X).
  Definition midM (t : signal) : Z := match find (fun q => s_id (snd q) =? s_id t) MU with Some q => fst q | None => 0 end.
  Definition FM (p : Z * signal) : signal :=
    if is_muxb (snd p) then mx_img (snd p) (fst p) (gsf (snd p))
    else if is_topb (snd p) then timg EI p else kimg (par (snd p)) (midM (par (snd p))) EI p.
  Definition blockY (q : Z * signal) : list (Z * signal) := q :: filter (chof (snd q)) X.
  Definition YM (j : nat) : list (Z * signal) := filter plainp X ++ flat_map blockY (rev (skipn j MU)).

  Lemma MU_in_X : forall q, In q MU -> In q X /\ is_muxb (snd q) = true.
  Proof. intros q Hq. rewrite HMUX in Hq. apply filter_In in Hq. exact Hq. Qed.

  Lemma midM_spec : forall q, In q MU -> midM (snd q) = fst q.
  Proof.
    intros q Hq. unfold midM. destruct Hms as [Hids _].
    destruct (find (fun q0 => s_id (snd q0) =? s_id (snd q)) MU) as [q1|] eqn:Ef.
    - apply find_some in Ef. destruct Ef as [Hq1 E]. apply Z.eqb_eq in E.
      assert (Hs : snd q1 = snd q) by (apply (NoDup_map_inj s_id sigs); try assumption; [apply (HMU q1 Hq1)|apply (HMU q Hq)]).
      assert (q1 = q) by (apply (NoDup_map_inj snd MU); assumption). subst q1. reflexivity.
    - exfalso. pose proof (find_none _ _ Ef q Hq) as Hn. cbn beta in Hn. rewrite Z.eqb_refl in Hn. discriminate.
  Qed.

  (* the facts of one multiplexer, through the restricted message *)
  Lemma mux_facts : forall q, In q MU ->
    let t := snd q in let KX := filter (chof t) X in
    (forall stx, is_enums stx = es1 ->
       import_mux_signal env stx mpos msgid (m_size m) (fst q) (imgM t) (map (entM EI) KX)
       = Ok ((place (mx_img t (fst q) (gsf t)) 0 None [], map (kimg t (fst q) EI) KX), set_sigmap stx (((msgid, clear (s_name t)), (mpos, fst q)) :: is_sigmap stx))) /\
    1 <= gsf t <= s_gsize t /\
    NoDup (map snd KX) /\ (forall p, In p KX -> In (snd p) sigs /\ is_topb (snd p) = false /\ s_parent (snd p) = Some (s_id t)).
  Proof.
    intros q Hq t KX. destruct (HMU q Hq) as [Ht Htm]. fold t in Ht, Htm.
    destruct (restrict_ok es names m t Hmm Ht Htm) as [Hmt [Hu [Htin [Hsub [Hpl [Hck Hchild]]]]]].
    destruct (restrict_env t Ht Htm) as [He1 He2].
    assert (HK : forall p, In p KX -> In (snd p) sigs /\ is_topb (snd p) = false /\ s_parent (snd p) = Some (s_id t)).
    { intros p Hp. unfold KX in Hp. apply filter_In in Hp. destruct Hp as [Hp Hc]. unfold chof in Hc.
      destruct (s_parent (snd p)) as [pid|] eqn:Ep; [|discriminate]. apply Z.eqb_eq in Hc. subst pid.
      split; [apply HX; assumption|]. split; [unfold is_topb; rewrite Ep; reflexivity|reflexivity]. }
    assert (HndK : NoDup (map snd KX)) by (apply NoDup_map_filter; assumption).
    assert (HEIt : forall s, In s (m_signals (restrict m t)) -> s <> t -> EIok es st1 s (EI s)).
    { intros s Hs Hne. apply HEI; [apply Hsub; assumption|]. destruct (is_muxb s) eqn:E; [|reflexivity]. exfalso. apply Hne. apply Hu; assumption. }
    assert (HCH : forall p, In p KX -> In (snd p) (m_signals (restrict m t)) /\ is_topb (snd p) = false).
    { intros p Hp. destruct (HK p Hp) as [K1 [K2 K3]]. split; [apply Hck; assumption|assumption]. }
    assert (Hent : map (entM EI) KX = map (ent es (restrict m t) t EI) KX).
    { apply map_ext_in. intros p Hp. unfold entM, ent. rewrite (imgM_restrict t (snd p) Ht Htm (proj1 (HCH p Hp))). reflexivity. }
    split; [|split; [|split; [exact HndK|exact HK]]].
    - intros stx Hes. rewrite Hent, <- (imgM_restrict t t Ht Htm Htin).
      exact (proj1 (mux_build es env mpos (restrict m t) t names st0 Hmt Htin Htm He1 (Henvx t Ht Htm) true He2 Hu (fst q) EI st1 HEIt stx KX Hes HndK HCH)).
    - exact (proj2 (mux_build es env mpos (restrict m t) t names st0 Hmt Htin Htm He1 (Henvx t Ht Htm) true He2 Hu (fst q) EI st1 HEIt st1 KX eq_refl HndK HCH)).
  Qed.

  Lemma FM_facts : forall p, In p X ->
    s_name (FM p) = clear (s_name (snd p)) /\ is_topb (FM p) = is_topb (snd p) /\
    (is_topb (snd p) = true -> s_rel (FM p) = s_rel (snd p) /\ 0 < sig_size es1 (FM p) <= sig_size es (snd p)).
  Proof.
    intros p Hp. pose proof (HX p Hp) as Hs. unfold FM. destruct (is_muxb (snd p)) eqn:Em.
    - assert (Hq : In p MU) by (rewrite HMUX; apply filter_In; auto).
      pose proof (mux_facts p Hq) as Hmf; cbv zeta in Hmf; destruct Hmf as [_ [Hgs _]]. cbn zeta in Hgs.
      destruct (selw_facts es m (snd p) names Hmm Hs Em) as [Hsw _].
      pose proof Hms as [_ [_ [_ [Htopm _]]]]. pose proof (Htopm _ Hs Em) as Htt.
      split; [reflexivity|]. split; [unfold is_topb in *; cbn [s_parent mx_img]; destruct (s_parent (snd p)); [discriminate|reflexivity]|].
      intros _. split; [reflexivity|]. unfold sig_size. cbn [s_kind mx_img s_gsize].
      assert (Hsw2 : sel_width (mx_img (snd p) (fst p) (gsf (snd p))) = sel_width (snd p)).
      { unfold sel_width at 1. cbn [s_gcount mx_img]. apply ProofsIds.calc_size_sel. lia. }
      rewrite Hsw2. unfold is_muxb in Em. destruct (s_kind (snd p)); try discriminate. lia.
    - destruct (imgM_fields (snd p) Hs Em) as [_ [_ [_ [_ [Hk [_ [Hpos _]]]]]]].
      assert (Hsz : sig_size es1 (rim EI p) = sig_size es (snd p)) by (unfold rim; apply rimg_size; [assumption|apply HEI; assumption]).
      destruct (rimg_fields (fst p) (snd p) (EI (snd p))) as [_ [Hn _]].
      destruct (is_topb (snd p)) eqn:Et.
      + split; [exact Hn|]. split; [reflexivity|]. intros _. split; [reflexivity|]. unfold timg. rewrite ProofsLayout.sig_size_place, Hsz. lia.
      + split; [exact Hn|]. split; [reflexivity|]. intros Hc; discriminate Hc.
  Qed.

  Lemma blockY_FM : forall q, In q MU ->
    map FM (blockY q) = mx_img (snd q) (fst q) (gsf (snd q)) :: map (kimg (snd q) (fst q) EI) (filter (chof (snd q)) X).
  Proof.
    intros q Hq. destruct (HMU q Hq) as [Ht Htm]. unfold blockY. cbn [map]. f_equal.
    - unfold FM. rewrite Htm. reflexivity.
    - apply map_ext_in. intros p Hp. pose proof (mux_facts q Hq) as Hmf; cbv zeta in Hmf; destruct Hmf as [_ [_ [_ HK]]]. destruct (HK p Hp) as [K1 [K2 K3]].
      unfold FM. destruct (par_spec (snd p) K1 K2) as [_ [_ [_ [[Hk _] _]]]].
      assert (Hnm : is_muxb (snd p) = false) by (unfold is_muxb; destruct (s_kind (snd p)); try reflexivity; exfalso; apply Hk; reflexivity).
      rewrite Hnm, K2, (par_of (snd q) (snd p) Ht K1 K3), (midM_spec q Hq). reflexivity.
  Qed.

  Definition stepM (acc : result (mstate * list (list (subtree * dsignal)))) (j : nat) :=
    do (ms, groups) <- acc;
    (let '(mid, dmx) := nth j (map (fun q => (fst q, imgM (snd q))) MU)
                            (0, mkdsignal EmptyString false false 0 0 0 LittleEndian false fl_one fl_zero fl_zero fl_zero EmptyString []) in
     do (mt, st2) <- import_mux_signal env (fst ms) mpos msgid (m_size m) mid dmx (nth j groups []);
     match lookup key_eqb (msgid, ds_name dmx) (ie_ext_muxes env) with
     | None => if ds_muxed dmx then Err "extended multiplexing is required"%string else
               do ms' <- (let '(st3, sigs0) := (st2, snd ms) in do sigs' <- msg_insert (is_enums st3) (m_size m) sigs0 mt (get_start_bit dmx); Ok (st3, sigs'));
               Ok (ms', groups)
     | Some em =>
         match mux_idx (em_muxor em) with
         | None => Err "multiplexor not found"%string
         | Some mi => if Nat.leb j mi then Err "multiplexor not placed before its multiplexer"%string
                      else Ok ((st2, snd ms), app_nth mi (mt, dmx) groups)
         end
     end).

  Lemma YM_in : forall j p, In p (YM j) -> In p X /\ (is_muxb (snd p) = true -> In p (skipn j MU)) /\
    (is_topb (snd p) = false -> exists q, In q (skipn j MU) /\ s_parent (snd p) = Some (s_id (snd q))).
  Proof.
    intros j p Hp. unfold YM in Hp. apply in_app_or in Hp. destruct Hp as [Hp|Hp].
    - apply filter_In in Hp. destruct Hp as [Hp Hpp]. unfold plainp in Hpp. apply andb_true_iff in Hpp. destruct Hpp as [P1 P2]. apply negb_true_iff in P2.
      split; [assumption|]. split; intros H; congruence.
    - apply in_flat_map in Hp. destruct Hp as [q [Hq Hp]]. apply in_rev in Hq.
      assert (HqM : In q MU) by (eapply in_skipn; exact Hq).
      destruct (MU_in_X q HqM) as [HqX Hqm]. destruct Hp as [<-|Hp].
      + split; [assumption|]. split; [intros _; assumption|]. intros Ht. pose proof Hms as [_ [_ [_ [Htopm _]]]].
        destruct (HMU q HqM) as [Hqs _]. rewrite (Htopm _ Hqs Hqm) in Ht. discriminate.
      + pose proof (mux_facts q HqM) as Hmf; cbv zeta in Hmf; destruct Hmf as [_ [_ [_ HK]]]. destruct (HK p Hp) as [K1 [K2 K3]]. apply filter_In in Hp. destruct Hp as [Hp _].
        split; [assumption|]. split.
        * intros Hm. exfalso. destruct (par_spec (snd p) K1 K2) as [_ [_ [_ [[Hk _] _]]]]. unfold is_muxb in Hm. destruct (s_kind (snd p)); try discriminate. apply Hk. reflexivity.
        * intros _. exists q. auto.
  Qed.

  Lemma loop2M : forall j st, (j <= length MU)%nat -> is_enums st = es1 ->
    exists st',
      fold_left stepM (rev (seq 0 j)) (Ok ((st, map FM (YM j)), GR EI MU X)) = Ok ((st', map FM (YM 0)), GR EI MU X) /\
      is_enums st' = es1 /\ is_enum_refs st' = is_enum_refs st /\
      (forall q, In q (firstn j MU) -> lookup key_eqb (msgid, clear (s_name (snd q))) (is_sigmap st') = Some (mpos, fst q)) /\
      (forall k, (forall q, In q (firstn j MU) -> k <> (msgid, clear (s_name (snd q)))) -> lookup key_eqb k (is_sigmap st') = lookup key_eqb k (is_sigmap st)).
  Proof.
    induction j as [|j IH]; intros st Hj Hes.
    - cbn [seq rev fold_left firstn]. exists st. split; [reflexivity|]. split; [assumption|]. split; [reflexivity|]. split; [intros q []|auto].
    - rewrite seq_S, rev_unit. cbn [plus fold_left].
      destruct (nth_error MU j) as [q|] eqn:Eq; [|apply nth_error_None in Eq; lia].
      pose proof (nth_error_In _ _ Eq) as HqM. destruct (HMU q HqM) as [Ht Htm]. set (t := snd q) in *.
      pose proof Hms as [Hids [Hnames [_ [Htopm _]]]]. pose proof (Htopm t Ht Htm) as Htt.
      pose proof (mux_facts q HqM) as Hmf. cbv zeta in Hmf. fold t in Hmf. destruct Hmf as [Hbuild [Hgs [HndK HK]]].
      set (KX := filter (chof t) X) in *.
      unfold stepM at 2. cbn [bind fst snd].
      assert (Hn1 : nth j (map (fun q0 => (fst q0, imgM (snd q0))) MU)
                        (0, mkdsignal EmptyString false false 0 0 0 LittleEndian false fl_one fl_zero fl_zero fl_zero EmptyString []) = (fst q, imgM t)).
      { apply nth_error_nth. rewrite nth_error_map, Eq. reflexivity. }
      rewrite Hn1.
      assert (Hn2 : nth j (GR EI MU X) [] = map (entM EI) KX).
      { apply nth_error_nth. unfold GR. rewrite nth_error_map, Eq. reflexivity. }
      rewrite Hn2, (Hbuild st Hes). cbn [bind].
      assert (Hnm : ds_name (imgM t) = clear (s_name t) /\ ds_muxed (imgM t) = false) by (unfold imgM; rewrite Htm; split; reflexivity).
      destruct Hnm as [Hnm1 Hnm2]. rewrite Hnm1, (Hextm t Ht Htt), Hnm2, (imgM_start_top t Ht Htt).
      set (st2 := set_sigmap st (((msgid, clear (s_name t)), (mpos, fst q)) :: is_sigmap st)).
      assert (Hes2 : is_enums st2 = es1) by exact Hes.
      destruct (proj1 (tops_geo es m names Hmm) t Ht Htt) as [G1 G2].
      destruct (selw_facts es m t names Hmm Ht Htm) as [Hsw _].
      assert (Hsz : sig_size es t = s_gsize t + sel_width t) by (unfold sig_size; unfold is_muxb in Htm; destruct (s_kind t); try discriminate; reflexivity).
      assert (Hszr : sig_size (is_enums st2) (place (mx_img t (fst q) (gsf t)) 0 None []) = gsf t + sel_width t).
      { unfold sig_size. cbn [s_kind place mx_img s_gsize]. rewrite sel_width_place. f_equal. unfold sel_width at 1. cbn [s_gcount mx_img]. apply ProofsIds.calc_size_sel. lia. }
      assert (Hnotin : ~ In q (skipn (S j) MU)).
      { apply nth_error_not_in_skipn; [eapply NoDup_map_inv; exact HMUnd|exact Eq]. }
      assert (Hsame : forall q', In q' MU -> snd q' = t -> q' = q) by (intros q' Hq' E; apply (NoDup_map_inj snd MU); assumption).
      rewrite msg_insert_ok_g.
      + cbn [bind].
        assert (Hnew : map FM (YM (S j)) ++ [place (place (mx_img t (fst q) (gsf t)) 0 None []) (s_rel t) None []] ++ map (kimg t (fst q) EI) KX = map FM (YM j)).
        { unfold YM. rewrite (skipn_nth_error MU j q Eq). cbn [rev]. rewrite flat_map_app. cbn [flat_map]. rewrite app_nil_r.
          rewrite (app_assoc (filter plainp X)). rewrite (map_app FM (filter plainp X ++ flat_map blockY (rev (skipn (S j) MU)))).
          rewrite (blockY_FM q HqM). reflexivity. }
        rewrite Hnew.
        destruct (IH st2 ltac:(lia) Hes2) as [st' [E1 [E2 [E3 [E4 E5]]]]].
        exists st'. split; [exact E1|]. split; [exact E2|]. split; [exact E3|]. split.
        * intros q' Hq'. rewrite (firstn_snoc_nth MU j q Eq) in Hq'. apply in_app_or in Hq'. destruct Hq' as [Hq'|[<-|[]]]; [apply E4; assumption|].
          rewrite E5; [unfold st2; cbn [is_sigmap set_sigmap]; apply lookup_key_head|].
          intros q' Hq' Heq. inversion Heq as [Hn]. assert (HqM' : In q' MU) by (eapply in_firstn; exact Hq').
          assert (snd q' = t) by (apply (NoDup_map_inj (fun x => clear (s_name x)) sigs); try assumption; [apply (HMU q' HqM')|symmetry; exact Hn]).
          pose proof (Hsame q' HqM' H) as ->.
          assert (Hnd2 : NoDup MU) by (eapply NoDup_map_inv; exact HMUnd).
          clear - Hq' Eq Hnd2. revert j Hq' Eq. induction MU as [|a r IHl]; intros j Hq' Eq; [destruct j; discriminate|].
          inversion Hnd2 as [|? ? Hni Hr]; subst. destruct j as [|j]; cbn [firstn nth_error] in *; [destruct Hq'|].
          destruct Hq' as [<-|Hq']; [apply Hni; eapply nth_error_In; exact Eq|apply (IHl Hr j Hq' Eq)].
        * intros k Hk. rewrite E5 by (intros q' Hq'; apply Hk; rewrite (firstn_snoc_nth MU j q Eq); apply in_or_app; left; assumption).
          unfold st2. cbn [is_sigmap set_sigmap]. apply lookup_key_skip. apply (Hk q). rewrite (firstn_snoc_nth MU j q Eq). apply in_or_app. right. left. reflexivity.
      + (* the name of the multiplexer is new *)
        cbn [s_name place mx_img]. rewrite map_map. intros Hin. apply in_map_iff in Hin. destruct Hin as [p [Hpn Hp]].
        destruct (YM_in (S j) p Hp) as [HpX [Hpm _]]. destruct (FM_facts p HpX) as [F1 _]. rewrite F1 in Hpn.
        assert (Hpt : snd p = t) by (apply (NoDup_map_inj (fun x => clear (s_name x)) sigs); try assumption; apply HX; assumption).
        assert (Hpm' : is_muxb (snd p) = true) by (rewrite Hpt; exact Htm).
        pose proof (Hpm Hpm') as Hps. apply Hnotin. rewrite <- (Hsame p (in_skipn _ _ _ Hps) Hpt). exact Hps.
      + (* the names of its children are new *)
        intros x Hx Hin. apply in_map_iff in Hx. destruct Hx as [c [<- Hc]]. destruct (HK c Hc) as [K1 [K2 K3]].
        rewrite map_map in Hin. apply in_map_iff in Hin. destruct Hin as [p [Hpn Hp]].
        destruct (YM_in (S j) p Hp) as [HpX [_ Hpc]]. destruct (FM_facts p HpX) as [F1 _]. rewrite F1 in Hpn.
        cbn [s_name kimg place] in Hpn. unfold rim in Hpn. destruct (rimg_fields (fst c) (snd c) (EI (snd c))) as [_ [Hnc _]]. rewrite Hnc in Hpn.
        assert (Hpc' : snd p = snd c) by (apply (NoDup_map_inj (fun x => clear (s_name x)) sigs); try assumption; apply HX; assumption).
        destruct (Hpc ltac:(rewrite Hpc'; exact K2)) as [q' [Hq' Hpar]]. rewrite Hpc', K3 in Hpar. inversion Hpar as [Hid].
        assert (HqM' : In q' MU) by (eapply in_skipn; exact Hq').
        assert (snd q' = t) by (apply (NoDup_map_inj s_id sigs); try assumption; [apply (HMU q' HqM')|symmetry; exact Hid]).
        apply Hnotin. rewrite <- (Hsame q' HqM' H). exact Hq'.
      + (* the multiplexer and its children carry distinct names *)
        cbn [map s_name place mx_img]. rewrite map_map.
        assert (Hext2 : map (fun x => s_name (kimg t (fst q) EI x)) KX = map (fun p => clear (s_name (snd p))) KX).
        { apply map_ext_in. intros c Hc. cbn [s_name kimg place]. unfold rim. apply (rimg_fields (fst c) (snd c) (EI (snd c))). }
        rewrite Hext2. rewrite <- (map_map snd (fun x => clear (s_name x))).
        change (clear (s_name t) :: map (fun x => clear (s_name x)) (map snd KX)) with (map (fun x => clear (s_name x)) (t :: map snd KX)).
        eapply NoDup_map_filter2.
        * intros a b Ha Hb Hab. apply (NoDup_map_inj (fun x => clear (s_name x)) sigs); try assumption.
          -- destruct Ha as [<-|Ha]; [assumption|]. apply in_map_iff in Ha. destruct Ha as [pa [<- Hpa]]. apply (HK pa Hpa).
          -- destruct Hb as [<-|Hb]; [assumption|]. apply in_map_iff in Hb. destruct Hb as [pb [<- Hpb]]. apply (HK pb Hpb).
        * constructor; [|exact HndK]. intros Hin. apply in_map_iff in Hin. destruct Hin as [c [Hct Hc]]. destruct (HK c Hc) as [_ [K2 _]]. rewrite Hct in K2. congruence.
      + assumption.
      + rewrite Hszr. lia.
      + rewrite Hszr. rewrite Hsz in G2. lia.
      + intros d Hd Hdt. apply in_map_iff in Hd. destruct Hd as [p [<- Hp]].
        destruct (YM_in (S j) p Hp) as [HpX [Hpm _]]. destruct (FM_facts p HpX) as [_ [F2 F3]]. rewrite F2 in Hdt. destruct (F3 Hdt) as [R1 R2].
        assert (Hne : t <> snd p).
        { intros Heq. assert (Hpm' : is_muxb (snd p) = true) by (rewrite <- Heq; exact Htm).
          pose proof (Hpm Hpm') as Hps. apply Hnotin. rewrite <- (Hsame p (in_skipn _ _ _ Hps) (eq_sym Heq)). exact Hps. }
        rewrite Hszr, R1. fold es1 in R2. rewrite Hes2. unfold overlaps.
        destruct (proj2 (tops_geo es m names Hmm) t (snd p) Ht (HX p HpX) Htt Hdt Hne) as [Hd|Hd]; rewrite ?Hsz in Hd; lia.
  Qed.

End MultiImport.

Lemma Permutation_filter_len : forall {A} (f : A -> bool) l l', Permutation l l' -> length (filter f l) = length (filter f l').
Proof.
  intros A f l l' H. induction H; cbn [filter]; try reflexivity.
  - destruct (f x); cbn [length]; rewrite IHPermutation; reflexivity.
  - destruct (f x), (f y); reflexivity.
  - congruence.
Qed.
Lemma filter_filter_sub : forall {A} (f g : A -> bool) l, (forall x, In x l -> f x = true -> g x = true) -> filter f (filter g l) = filter f l.
Proof.
  intros A f g l. induction l as [|x r IH]; intros H; [reflexivity|]. cbn [filter].
  destruct (g x) eqn:Eg; cbn [filter]; destruct (f x) eqn:Ef; try (rewrite IH by (intros y Hy; apply H; right; assumption); reflexivity).
  rewrite (H x (or_introl eq_refl) Ef) in Eg. discriminate.
Qed.
Lemma map_const_repeat : forall {A B} (b : B) (l : list A), map (fun _ => b) l = repeat b (length l).
Proof. intros A B b l. induction l as [|x r IH]; [reflexivity|]. cbn. rewrite IH. reflexivity. Qed.

Section MultiWhole.
  Variables (es : list enum_def) (env : ienv) (mpos : nat) (m : message) (names : list string) (st0 : istate).
  Hypothesis Hmm : mmessage es names m.
  Let sigs := m_signals m.
  Let msgid := u32 (m_canid m).
  Hypothesis Henv : forall s, In s sigs -> is_muxb s = false -> env_sig es env st0 msgid s /\ enum_wf (e_of es s).
  Hypothesis Henvx : forall t, In t sigs -> is_muxb t = true -> desc_of key_eqb (msgid, clear (s_name t)) (ie_sig_desc env) = s_desc t.
  Hypothesis Hext : forall t c, In t sigs -> is_muxb t = true -> In c sigs -> s_parent c = Some (s_id t) ->
    lookup key_eqb (msgid, clear (s_name c)) (ie_ext_muxes env)
    = Some (mkdextmux msgid (clear (s_name t)) (clear (s_name c)) (ranges_of (mem_of (s_gcount t) c))).
  Hypothesis Hextm : forall t, In t sigs -> is_topb t = true -> lookup key_eqb (msgid, clear (s_name t)) (ie_ext_muxes env) = None.
  Hypothesis Hrv0 : ProofsEnum.refs_valid st0.
  Hypothesis Hmany : many_of sigs = true.

  Lemma ims_multi : forall st S' dname dtx D,
    Permutation sigs S' ->
    sort_by (fun a b => get_start_bit a <? get_start_bit b) D = map (imgM es m) S' ->
    Inv st -> ProofsEnum.st_le st0 st ->
    let X := index_from 0 S' in
    let MU := filter (fun p : Z * signal => is_muxb (snd p)) X in
    exists st' EI st1,
      import_message_signals env st mpos (mkdmessage msgid dname (u32 (m_size m)) dtx D)
      = Ok (st', map (FM es m MU X EI st1) (YM MU X 0)) /\
      Inv st' /\ ProofsEnum.st_le st st' /\ is_enums st' = is_enums st1 /\ is_enum_refs st' = is_enum_refs st1 /\
      (forall s, In s sigs -> is_muxb s = false -> EIok es st1 s (EI s)) /\
      (forall p, In p X -> lookup key_eqb (msgid, clear (s_name (snd p))) (is_sigmap st') = Some (mpos, fst p)) /\
      (forall k, (forall s, In s sigs -> k <> (msgid, clear (s_name s))) -> lookup key_eqb k (is_sigmap st') = lookup key_eqb k (is_sigmap st)).
  Proof.
    intros st S' dname dtx D Hperm Hsort HI Hle X MU.
    pose proof Hmm as [_ [_ [_ [_ [_ [Hid [Hsz [Hms _]]]]]]]]. pose proof Hms as [Hids [Hnames [_ [Htopm _]]]].
    assert (HndS : NoDup S') by (eapply Permutation_NoDup; [exact Hperm|]; eapply NoDup_map_inv; exact Hids).
    assert (HinS : forall s, In s S' <-> In s sigs) by (intros s; split; intros H; [eapply Permutation_in; [apply Permutation_sym; exact Hperm|exact H]|eapply Permutation_in; eauto]).
    assert (HX : forall p, In p X -> In (snd p) sigs).
    { intros [i x] Hp. cbn [snd]. pose proof (index_from_range _ _ _ _ Hp) as [_ Hx]. apply HinS. assumption. }
    assert (HXnd : NoDup (map snd X)) by (apply index_from_snd_nodup; assumption).
    assert (HMUin : forall q, In q MU -> In (snd q) sigs /\ is_muxb (snd q) = true).
    { intros q Hq. apply filter_In in Hq. destruct Hq as [Hq Hqm]. split; [apply HX; assumption|assumption]. }
    assert (HMUall : forall t, In t sigs -> is_muxb t = true -> exists i, In (i, t) MU).
    { intros t Ht Htm. destruct (in_index_from S' 0 t (proj2 (HinS t) Ht)) as [i Hi]. exists i. apply filter_In. split; assumption. }
    assert (HMUnd : NoDup (map snd MU)) by (apply NoDup_map_filter; assumption).
    assert (Hlen : (2 <= length MU)%nat).
    { assert (E1 : map snd MU = filter is_muxb S').
      { unfold MU, X. rewrite <- (Proofs.index_from_snd S' 0) at 2. generalize (index_from 0 S'). intros l.
        induction l as [|p r IH]; [reflexivity|]. cbn [filter map]. destruct (is_muxb (snd p)); cbn [map]; rewrite IH; reflexivity. }
      rewrite <- (map_length snd MU), E1, <- (Permutation_filter_len is_muxb sigs S' Hperm).
      unfold many_of in Hmany. apply Nat.ltb_lt in Hmany.
      change (fun s : signal => match s_kind s with KMux => true | _ => false end) with is_muxb in Hmany.
      rewrite filter_filter_sub in Hmany by (intros x Hx Hxm; apply Htopm; assumption). lia. }
    assert (Hsome : exists t0, In t0 sigs /\ is_muxb t0 = true).
    { destruct MU as [|q0 r0] eqn:EM; [cbn in Hlen; lia|]. exists (snd q0). apply HMUin. left. reflexivity. }
    unfold import_message_signals. cbv zeta. cbn [dm_signals dm_id dm_size]. rewrite Hsort, index_from_map_img. fold X.
    rewrite (u32_id (m_size m)) by lia.
    assert (Hfil : filter (fun p : Z * dsignal => ds_muxor (snd p)) (map (fun p => (fst p, imgM es m (snd p))) X)
                   = map (fun q => (fst q, imgM es m (snd q))) MU).
    { unfold MU. generalize X. intros l. induction l as [|p r IH]; [reflexivity|]. cbn [map filter fst snd].
      assert (Hm : ds_muxor (imgM es m (snd p)) = is_muxb (snd p)).
      { unfold imgM. destruct (is_muxb (snd p)); [reflexivity|]. destruct (is_topb (snd p)); [unfold dsig_e; destruct (s_kind (snd p)); reflexivity|].
        unfold child_dsig. destruct (s_kind (snd p)); reflexivity. }
      rewrite Hm. destruct (is_muxb (snd p)); cbn [map]; rewrite IH; reflexivity. }
    rewrite Hfil.
    destruct MU as [|q1 [|q2 qr]] eqn:EMU; [cbn in Hlen; lia|cbn in Hlen; lia|]. rewrite <- EMU in *. clear Hlen.
    assert (Hshape : exists a b c, map (fun q => (fst q, imgM es m (snd q))) MU = a :: b :: c) by (rewrite EMU; cbn [map]; eauto).
    destruct Hshape as [ma [mb [mc Hshape]]]. rewrite Hshape. rewrite <- Hshape. destruct ma as [ma1 ma2].
    (* the first loop *)
    destruct (loop1M es env mpos m names st0 Hmm Henv Henvx Hext Hextm Hrv0 Hsome MU HMUin HMUall HMUnd X [] (fun _ => 0) st) as [st1 [EI [E1 [I1 [L1 [K1 [_ [S1 S2]]]]]]]];
      try assumption; [intros q []|].
    cbn [app filter map] in E1.
    assert (HG0 : GR es m (fun _ => 0) MU [] = repeat [] (length (map (fun q => (fst q, imgM es m (snd q))) MU))).
    { unfold GR. cbn [filter map]. rewrite map_length. apply map_const_repeat. }
    rewrite HG0 in E1.
    change (fold_left _ (map (fun p => (fst p, imgM es m (snd p))) X) (Ok (st, [], repeat [] _)))
      with (fold_left (f1M es env mpos m MU) (map (fun p => (fst p, imgM es m (snd p))) X) (Ok (st, [], repeat [] (length (map (fun q => (fst q, imgM es m (snd q))) MU))))).
    rewrite E1. cbn [bind].
    assert (HEI : forall s, In s sigs -> is_muxb s = false -> EIok es st1 s (EI s)).
    { intros s Hs Hnm. destruct (in_index_from S' 0 s (proj2 (HinS s) Hs)) as [i Hi]. apply (K1 (i, s) Hi Hnm). }
    (* the second loop *)
    destruct (loop2M es env mpos m names st0 Hmm Henv Henvx Hext Hextm Hsome MU HMUin HMUall HMUnd X HX HXnd eq_refl EI st1 HEI (length MU) st1 (Nat.le_refl _) eq_refl)
      as [st' [E2 [Ees [Erf [S3 S4]]]]].
    assert (HY : YM MU X (length MU) = filter plainp X) by (unfold YM; rewrite skipn_all; cbn [rev flat_map]; apply app_nil_r).
    rewrite HY in E2.
    assert (Hmap : map (timg EI) (filter plainp X) = map (FM es m MU X EI st1) (filter plainp X)).
    { apply map_ext_in. intros p Hp. apply filter_In in Hp. destruct Hp as [_ Hp]. unfold plainp in Hp. apply andb_true_iff in Hp. destruct Hp as [P1 P2].
      apply negb_true_iff in P2. unfold FM. rewrite P2, P1. reflexivity. }
    rewrite Hmap.
    change (fold_left _ (rev (seq 0 (length (map (fun q => (fst q, imgM es m (snd q))) MU)))) (Ok (st1, map (FM es m MU X EI st1) (filter plainp X), GR es m EI MU X)))
      with (fold_left (stepM es env mpos m MU) (rev (seq 0 (length (map (fun q => (fst q, imgM es m (snd q))) MU)))) (Ok (st1, map (FM es m MU X EI st1) (filter plainp X), GR es m EI MU X))).
    rewrite map_length.
    rewrite E2. cbn [bind fst].
    exists st', EI, st1. split; [reflexivity|].
    assert (Hinv' : Inv st').
    { destruct I1 as [A1 [A2 A3]]. unfold Inv, ProofsEnum.refs_valid. rewrite Ees, Erf. auto. }
    split; [exact Hinv'|]. split.
    { eapply ProofsEnum.st_le_trans; [destruct HI as [R _]; exact R|exact L1|]. apply ProofsLayout.st_le_same; assumption. }
    split; [exact Ees|]. split; [exact Erf|]. split; [exact HEI|]. split.
    - intros p Hp. destruct (is_muxb (snd p)) eqn:Em.
      + apply S3. rewrite firstn_all. apply filter_In. split; assumption.
      + rewrite S4; [apply (S1 p Hp Em)|]. intros q Hq Heq. inversion Heq as [Hn]. rewrite firstn_all in Hq. destruct (HMUin q Hq) as [Hqs Hqm].
        assert (snd p = snd q) by (apply (NoDup_map_inj (fun x => clear (s_name x)) sigs); try assumption; apply HX; assumption). congruence.
    - intros k Hk. rewrite S4; [apply S2; intros p Hp; apply Hk; apply HX; assumption|].
      intros q Hq. rewrite firstn_all in Hq. apply Hk. apply (HMUin q Hq).
  Qed.
End MultiWhole.

(* ---------------- the export order of a message with any number of top-level multiplexers ---------------- *)
Lemma filter_keys_perm : forall {A K} (f : K -> A -> bool) (ks : list K) (l : list A),
  (forall k k' x, In k ks -> In k' ks -> In x l -> f k x = true -> f k' x = true -> k = k') -> NoDup ks ->
  Permutation (filter (fun x => existsb (fun k => f k x) ks) l) (flat_map (fun k => filter (f k) l) ks).
Proof.
  intros A K f ks. induction ks as [|k r IH]; intros l Hu Hnd; cbn [existsb flat_map].
  - rewrite Proofs.filter_nil by reflexivity. apply Permutation_refl.
  - inversion Hnd as [|? ? Hni Hnr]; subst.
    eapply Permutation_trans; [apply Permutation_sym, filter_partition_perm|apply Permutation_app_head, IH].
    + intros x Hx. destruct (f k x) eqn:E1; [|reflexivity]. cbn [andb].
      destruct (existsb (fun k0 => f k0 x) r) eqn:E2; [|reflexivity]. exfalso.
      apply existsb_exists in E2. destruct E2 as [k' [Hk' E3]].
      assert (k = k') by (apply (Hu k k' x); [left; reflexivity|right; assumption|assumption|assumption|assumption]). subst. contradiction.
    + intros a b x Ha Hb. apply Hu; right; assumption.
    + assumption.
Qed.
Lemma flat_map_perm_ext : forall {A B} (f g : A -> list B) l, (forall x, In x l -> Permutation (f x) (g x)) -> Permutation (flat_map f l) (flat_map g l).
Proof.
  intros A B f g l. induction l as [|x r IH]; intros H; [apply Permutation_refl|]. cbn [flat_map].
  apply Permutation_app; [apply H; left; reflexivity|apply IH; intros y Hy; apply H; right; assumption].
Qed.

Section MultiOrder.
  Variables (es : list enum_def) (names : list string) (m : message).
  Hypothesis Hmm : mmessage es names m.
  Let sigs := m_signals m.
  Let Hms : msigs_ok es sigs. Proof. destruct Hmm as [_ [_ [_ [_ [_ [_ [_ [H _]]]]]]]]. exact H. Qed.

  Definition kf (t x : signal) : bool := is_muxb t && match s_parent x with Some q => q =? s_id t | None => false end.

  Lemma SXg_perm : Permutation sigs (SX m).
  Proof.
    pose proof Hms as [Hids [_ [_ [Htopm [Hch _]]]]].
    assert (Hnd : NoDup sigs) by (eapply NoDup_map_inv; exact Hids).
    set (tops := filter is_topb sigs).
    assert (P1 : Permutation (SX m) (tops ++ flat_map (fun t => if is_muxb t then walk_of sigs t else []) tops)).
    { unfold SX. fold sigs. fold tops. apply (flat_map_cons_perm (fun t => if is_muxb t then walk_of sigs t else []) tops). }
    assert (P2 : Permutation (filter (fun x => negb (is_topb x)) sigs) (flat_map (fun t => filter (kf t) sigs) tops)).
    { rewrite (filter_ext_in (fun x => negb (is_topb x)) (fun x => existsb (fun t => kf t x) tops)).
      - apply filter_keys_perm; [|apply NoDup_filter; assumption].
        intros k k' x Hk Hk' Hx E1 E2. unfold tops in Hk, Hk'. apply filter_In in Hk. apply filter_In in Hk'.
        unfold kf in E1, E2. apply andb_true_iff in E1. apply andb_true_iff in E2. destruct E1 as [_ E1]. destruct E2 as [_ E2].
        destruct (s_parent x) as [q|]; [|discriminate]. apply Z.eqb_eq in E1. apply Z.eqb_eq in E2.
        apply (NoDup_map_inj s_id sigs); try tauto. congruence.
      - intros x Hx. destruct (is_topb x) eqn:Et; cbn [negb].
        + destruct (existsb (fun t => kf t x) tops) eqn:E; [|reflexivity]. apply existsb_exists in E. destruct E as [t [_ E]].
          unfold kf in E. unfold is_topb in Et. destruct (s_parent x); [discriminate|]. rewrite andb_false_r in E. discriminate.
        + symmetry. apply existsb_exists. destruct (Hch x Hx Et) as [mx [Hmx [Hmt [Hmxm [_ [Hp _]]]]]]. exists mx. split; [apply filter_In; auto|].
          unfold kf. rewrite Hmxm, Hp, Z.eqb_refl. reflexivity. }
    assert (P3 : Permutation (flat_map (fun t => filter (kf t) sigs) tops) (flat_map (fun t => if is_muxb t then walk_of sigs t else []) tops)).
    { apply flat_map_perm_ext. intros t Ht. unfold tops in Ht. apply filter_In in Ht. destruct Ht as [Ht Htt]. unfold kf.
      destruct (is_muxb t) eqn:Em; cbn [andb]; [|rewrite Proofs.filter_nil by reflexivity; apply Permutation_refl].
      apply Permutation_sym. unfold walk_of. eapply Permutation_trans; [apply walk_perm|].
      rewrite filter_all.
      - unfold children. apply Permutation_sym, sort_by_perm.
      - intros c Hc. destruct (kids_ok_of es sigs t Hms Ht Em) as [HK _]. rewrite Forall_forall in HK.
        pose proof (grp_range t c (child_gok es t c (HK c Hc))) as Hg.
        destruct (selw_facts es m t names Hmm Ht Em) as [_ [_ [Hg1 _]]]. rewrite Z2Nat.id by lia. lia. }
    eapply Permutation_trans; [|apply Permutation_sym; exact P1].
    eapply Permutation_trans; [|apply Permutation_app_head; exact P3].
    eapply Permutation_trans; [|apply Permutation_app_head; exact P2].
    eapply Permutation_trans; [|apply Permutation_sym; apply filter_partition_perm; intros x _; destruct (is_topb x); reflexivity].
    rewrite filter_all; [apply Permutation_refl|]. intros x _. destruct (is_topb x); reflexivity.
  Qed.

  Lemma child_in_sigs_g : forall t c, In t sigs -> is_muxb t = true -> In c (children sigs t) ->
    In c sigs /\ is_topb c = false /\ child_ok es t c /\ is_muxb c = false /\ par m c = t.
  Proof.
    intros t c Ht Htm Hc. destruct (kids_ok_of es sigs t Hms Ht Htm) as [HK _]. rewrite Forall_forall in HK. pose proof (HK c Hc) as Hok.
    unfold children in Hc. apply Proofs.In_sort_by in Hc. apply filter_In in Hc. destruct Hc as [Hc Hp].
    assert (Hpp : s_parent c = Some (s_id t)) by (destruct Hok as [_ [H _]]; exact H).
    split; [assumption|]. split; [unfold is_topb; rewrite Hpp; reflexivity|]. split; [assumption|]. split.
    - destruct Hok as [Hk _]. unfold is_muxb. destruct (s_kind c); try reflexivity. exfalso. apply Hk. reflexivity.
    - apply (par_of es m names Hmm t c Ht Hc Hpp).
  Qed.

  Lemma D_imgM : flat_map (tdsigs es sigs (m_order m) (recs_out m)) (filter is_topb sigs) = map (imgM es m) (SX m).
  Proof.
    unfold SX. fold sigs.
    assert (G : forall l, (forall t, In t l -> In t sigs /\ is_topb t = true) ->
              flat_map (tdsigs es sigs (m_order m) (recs_out m)) l = map (imgM es m) (flat_map (tx sigs) l)).
    { induction l as [|t r IH]; intros Hl; [reflexivity|]. cbn [flat_map]. rewrite map_app, IH by (intros x Hx; apply Hl; right; assumption).
      f_equal. destruct (Hl t (or_introl eq_refl)) as [Ht Htt]. unfold tx. cbn [map]. unfold tdsigs.
      destruct (is_muxb t) eqn:Em.
      - pose proof Em as Ek. unfold is_muxb in Ek. destruct (s_kind t) eqn:Ekk; try discriminate.
        f_equal; [unfold imgM; rewrite Em; reflexivity|].
        unfold wsigs, walk_of. rewrite map_flat_map. apply flat_map_ext_in_simple. intros id _.
        apply map_ext_in. intros c Hc. apply filter_In in Hc. destruct Hc as [Hc Hg].
        destruct (child_in_sigs_g t c Ht Em Hc) as [Hcs [Hct [Hok [Hnm Hpar]]]].
        unfold imgM. rewrite Hnm, Hct, Hpar. apply Z.eqb_eq in Hg. rewrite Hg. reflexivity.
      - unfold imgM. rewrite Em, Htt. unfold is_muxb in Em. destruct (s_kind t); try discriminate; reflexivity. }
    apply G. intros t Ht. apply filter_In in Ht. exact Ht.
  Qed.
End MultiOrder.

(* ---------------- projection of a message with several multiplexers ---------------- *)
Section MultiProj.
  Variables (es : list enum_def) (st : istate) (names : list string) (m : message) (EI : signal -> Z) (S' : list signal) (st1 : istate).
  Hypothesis Hmm : mmessage es names m.
  Let sigs := m_signals m.
  Hypothesis Hwf : forall s, In s sigs -> enum_wf (e_of es s).
  Hypothesis HEI : forall s, In s sigs -> is_muxb s = false -> EIok es st s (EI s).
  Hypothesis HpS : Permutation sigs S'.
  Let X := index_from 0 S'.
  Let MU := filter (fun p : Z * signal => is_muxb (snd p)) X.
  Let F := FM es m MU X EI st1.
  Let R := map F (YM MU X 0).
  Let es' := is_enums st.
  Let Hms : msigs_ok es sigs. Proof. destruct Hmm as [_ [_ [_ [_ [_ [_ [_ [H _]]]]]]]]. exact H. Qed.

  Lemma HndSM : NoDup S'.
  Proof. destruct Hms as [Hids _]. eapply Permutation_NoDup; [exact HpS|]. eapply NoDup_map_inv. exact Hids. Qed.
  Lemma XM_in : forall p, In p X -> In (snd p) sigs.
  Proof.
    intros [i x] Hp. cbn [snd]. apply index_from_range in Hp. destruct Hp as [_ Hx].
    eapply Permutation_in; [apply Permutation_sym; exact HpS|exact Hx].
  Qed.
  Lemma XM_nd : NoDup (map snd X).
  Proof. apply index_from_snd_nodup. exact HndSM. Qed.
  Lemma MU_in : forall q, In q MU -> In q X /\ In (snd q) sigs /\ is_muxb (snd q) = true /\ is_topb (snd q) = true.
  Proof.
    intros q Hq. apply filter_In in Hq. destruct Hq as [Hq Hm]. pose proof (XM_in q Hq) as Hs.
    destruct Hms as [_ [_ [_ [Htopm _]]]]. auto.
  Qed.
  Lemma MU_nd : NoDup (map snd MU).
  Proof. apply NoDup_map_filter. exact XM_nd. Qed.
  Lemma MU_all : forall t, In t sigs -> is_muxb t = true -> exists i, In (i, t) MU.
  Proof.
    intros t Ht Htm. assert (HtS : In t S') by (eapply Permutation_in; eauto).
    destruct (in_index_from S' 0 t HtS) as [i Hi]. exists i. apply filter_In. split; assumption.
  Qed.

  Lemma XYM_perm : Permutation X (YM MU X 0).
  Proof.
    pose proof Hms as [Hids _].
    unfold YM. cbn [skipn].
    assert (E1 : Permutation X (filter plainp X ++ filter (fun p => negb (plainp p)) X)).
    { eapply Permutation_trans; [|apply Permutation_sym; apply filter_partition_perm; intros x _; destruct (plainp x); reflexivity].
      rewrite filter_all; [apply Permutation_refl|]. intros x _. destruct (plainp x); reflexivity. }
    eapply Permutation_trans; [exact E1|]. apply Permutation_app_head.
    assert (E2 : Permutation (filter (fun p => negb (plainp p)) X) (MU ++ filter childp X)).
    { eapply Permutation_trans; [|apply Permutation_sym; apply filter_partition_perm].
      - erewrite filter_ext_in; [apply Permutation_refl|]. intros p Hp. unfold plainp, childp. cbn beta.
        destruct (is_muxb (snd p)) eqn:Em, (is_topb (snd p)) eqn:Et; reflexivity.
      - intros p Hp. unfold childp. destruct (is_muxb (snd p)) eqn:Em, (is_topb (snd p)) eqn:Et; try reflexivity.
        exfalso. destruct Hms as [_ [_ [_ [Htopm _]]]]. rewrite (Htopm _ (XM_in p Hp) Em) in Et. discriminate. }
    eapply Permutation_trans; [exact E2|].
    assert (E3 : Permutation (filter childp X) (flat_map (fun q => filter (chof (snd q)) X) MU)).
    { rewrite (filter_ext_in childp (fun p => existsb (fun q => chof (snd q) p) MU)).
      - apply filter_keys_perm.
        + intros k k' x Hk Hk' Hx C1 C2. unfold chof in C1, C2. destruct (s_parent (snd x)); [|discriminate].
          apply Z.eqb_eq in C1. apply Z.eqb_eq in C2.
          destruct (MU_in k Hk) as [_ [Hks _]]. destruct (MU_in k' Hk') as [_ [Hks' _]].
          assert (snd k = snd k') by (apply (NoDup_map_inj s_id sigs); try assumption; congruence).
          apply (NoDup_map_inj snd MU); try assumption. exact MU_nd.
        + eapply NoDup_map_inv. exact MU_nd.
      - intros p Hp. unfold childp. destruct (is_topb (snd p)) eqn:Et; cbn [negb].
        + destruct (existsb (fun q => chof (snd q) p) MU) eqn:E; [|reflexivity]. apply existsb_exists in E. destruct E as [q [_ E]].
          unfold chof in E. unfold is_topb in Et. destruct (s_parent (snd p)); discriminate.
        + symmetry. apply existsb_exists. destruct (par_spec es m names Hmm (snd p) (XM_in p Hp) Et) as [P1 [P2 [_ [_ P5]]]].
          destruct (MU_all _ P1 P2) as [i Hi]. exists (i, par m (snd p)). split; [assumption|]. unfold chof. cbn [snd]. rewrite P5. apply Z.eqb_refl. }
    eapply Permutation_trans; [apply Permutation_app_head; exact E3|].
    eapply Permutation_trans; [apply Permutation_sym; apply (flat_map_cons_perm (fun q => filter (chof (snd q)) X) MU)|].
    change (fun t : Z * signal => t :: filter (chof (snd t)) X) with (blockY X).
    apply Permutation_flat_map. apply Permutation_rev.
  Qed.

  Lemma FM_id : forall p, s_id (F p) = fst p.
  Proof.
    intros p. unfold F, FM. destruct (is_muxb (snd p)); [reflexivity|].
    destruct (is_topb (snd p)); cbn [s_id timg kimg place]; apply (rimg_fields (fst p) (snd p) (EI (snd p))).
  Qed.
  Lemma FM_name : forall p, s_name (F p) = clear (s_name (snd p)).
  Proof.
    intros p. unfold F, FM. destruct (is_muxb (snd p)); [reflexivity|].
    destruct (is_topb (snd p)); cbn [s_name timg kimg place]; apply (rimg_fields (fst p) (snd p) (EI (snd p))).
  Qed.
  Lemma RM_in : forall p, In p X -> In (F p) R.
  Proof. intros p Hp. unfold R. apply in_map. eapply Permutation_in; [exact XYM_perm|exact Hp]. Qed.
  Lemma RM_ids : NoDup (map s_id R).
  Proof.
    unfold R. rewrite map_map. rewrite (map_ext _ fst) by apply FM_id.
    eapply Permutation_NoDup; [apply Permutation_map; exact XYM_perm|]. apply ProofsIds.index_from_fst_nodup.
  Qed.
  Lemma RM_len : Datatypes.length R = Datatypes.length sigs.
  Proof.
    unfold R. rewrite map_length. rewrite <- (Permutation_length XYM_perm). unfold X. rewrite <- (map_length snd (index_from 0 S')), Proofs.index_from_snd.
    symmetry. apply Permutation_length. exact HpS.
  Qed.
  Lemma find_mxM : forall q, In q MU -> find_sig R (fst q) = Some (mx_img (snd q) (fst q) (gsf es m X EI st1 (snd q))).
  Proof.
    intros q Hq. destruct (MU_in q Hq) as [HqX [_ [Hm _]]].
    apply (ProofsIds.find_sig_unique R (mx_img (snd q) (fst q) (gsf es m X EI st1 (snd q))) RM_ids).
    pose proof (RM_in q HqX) as Hin. unfold F, FM in Hin. rewrite Hm in Hin. exact Hin.
  Qed.
  Lemma selw_imgM : forall t mid gs, In t sigs -> is_muxb t = true -> sel_width (mx_img t mid gs) = sel_width t.
  Proof.
    intros t mid gs Ht Htm. destruct (selw_facts es m t names Hmm Ht Htm) as [Hs _].
    unfold sel_width at 1. cbn [s_gcount mx_img]. apply ProofsIds.calc_size_sel. lia.
  Qed.

  Lemma proj_ptM : forall p, In p X -> proj_signal es' R (F p) = proj_signal es sigs (snd p).
  Proof.
    intros p Hp. pose proof (XM_in p Hp) as Hs. pose proof Hms as [Hids [_ [Htops _]]].
    destruct (is_muxb (snd p)) eqn:Em.
    - (* a multiplexer *)
      unfold F, FM. rewrite Em.
      destruct (mx_top es m (snd p) names Hmm Hs Em) as [[Hp0 [Hg0 [Hv0 [Ht0 [Ha0 _]]]]] _].
      unfold proj_signal, membership. rewrite !ProofsIds.abs_start_top by (try assumption; reflexivity).
      pose proof Em as Hmk. unfold is_muxb in Hmk. destruct (s_kind (snd p)) eqn:Ek; try discriminate.
      cbn [s_kind s_name s_rel s_parent s_groups s_desc s_startval s_sendtype s_attrs mx_img].
      rewrite (selw_imgM (snd p) _ _ Hs Em), ?Ek, Hp0, Hv0, Ht0, Ha0, clear_spaces_idem. reflexivity.
    - assert (Hk : s_kind (snd p) <> KMux) by (intros E; unfold is_muxb in Em; rewrite E in Em; discriminate).
      pose proof (HEI (snd p) Hs Em) as HE. pose proof (Hwf (snd p) Hs) as Hw.
      assert (Q1 : s_kind (rim EI p) = s_kind (snd p)) by (unfold rim, rimg; destruct (s_kind (snd p)); try reflexivity; exfalso; apply Hk; reflexivity).
      assert (Q2 : sig_size es' (rim EI p) = sig_size es (snd p)) by (apply rimg_size; assumption).
      assert (Q3 : s_kind (snd p) = KStandard -> s_signed (rim EI p) = s_signed (snd p) /\ s_scale (rim EI p) = s_scale (snd p) /\ s_offset (rim EI p) = s_offset (snd p) /\
                     s_min (rim EI p) = s_min (snd p) /\ s_max (rim EI p) = s_max (snd p) /\ s_unit (rim EI p) = s_unit (snd p))
        by (intros E; unfold rim, rimg; rewrite E; cbn; auto 10).
      assert (Q4 : s_kind (snd p) = KEnum -> sorted_enum_values (nth_enum es' (s_enum (rim EI p))) = sorted_enum_values (nth_enum es (s_enum (snd p)))).
      { intros E. destruct (HE E) as [_ [Hv _]]. unfold rim, rimg. rewrite E. cbn [s_enum]. unfold es'. rewrite Hv. rewrite (evals_id _ Hw). reflexivity. }
      destruct (rimg_fields (fst p) (snd p) (EI (snd p))) as [F1 [F2 [F3 [F4 [F5 F6]]]]].
      unfold F, FM. rewrite Em.
      destruct (is_topb (snd p)) eqn:Et.
      + (* a top-level signal beside the multiplexers *)
        rewrite Forall_forall in Htops. destruct (Htops (snd p) ltac:(apply filter_In; auto)) as [Hp0 [Hg0 [Hv0 [Ht0 [Ha0 _]]]]].
        unfold proj_signal, membership. rewrite !ProofsIds.abs_start_top by (try assumption; reflexivity).
        unfold timg. rewrite ProofsLayout.sig_size_place.
        cbn [s_kind s_name s_rel s_parent s_groups s_signed s_scale s_offset s_min s_max s_unit s_enum s_desc s_startval s_sendtype s_attrs place].
        unfold rim in *. rewrite Q1, Q2, F2, F3, F4, F5, F6, Hp0, Hv0, Ht0, Ha0, clear_spaces_idem.
        destruct (s_kind (snd p)) eqn:Ek; try (exfalso; apply Hk; reflexivity).
        * destruct (Q3 eq_refl) as [A1 [A2 [A3 [A4 [A5 A6]]]]]. rewrite A1, A2, A3, A4, A5, A6. reflexivity.
        * rewrite (Q4 eq_refl). reflexivity.
      + (* a multiplexed signal *)
        destruct (par_spec es m names Hmm (snd p) Hs Et) as [P1 [P2 [P3 [Hok P5]]]].
        set (t := par m (snd p)) in *.
        destruct (MU_all t P1 P2) as [i Hi].
        assert (Hmid : midM MU t = i) by (apply (midM_spec es m names Hmm MU (fun q Hq => conj (proj1 (proj2 (MU_in q Hq))) (proj1 (proj2 (proj2 (MU_in q Hq))))) MU_nd (i, t) Hi)).
        pose proof (find_mxM (i, t) Hi) as Hfind. cbn [fst snd] in Hfind.
        destruct Hok as [_ [Hpar [Hgok [Hv0 [Ht0 [Ha0 _]]]]]].
        rewrite Hmid.
        assert (Hmem : membership R (kimg t i EI p) = membership sigs (snd p)).
        { unfold membership, kimg. cbn [s_parent s_groups place]. rewrite Hpar, Hfind, (ProofsIds.find_sig_unique sigs t Hids P1).
          cbn [s_gcount mx_img]. unfold igrp.
          destruct (selw_facts es m t names Hmm P1 P2) as [_ [Hgw [Hg1 _]]].
          exact (igrp_membership t (snd p) (sel_width t) (conj Hk Hgok) Hg1 Hgw). }
        assert (HSl : exists k2, Datatypes.length sigs = S k2) by (destruct sigs as [|x r]; [destruct Hs|exists (Datatypes.length r); reflexivity]).
        destruct HSl as [k2 HSl].
        unfold proj_signal. rewrite Hmem, RM_len, HSl. cbn [abs_start].
        unfold kimg. rewrite ProofsLayout.sig_size_place.
        cbn [s_kind s_name s_rel s_parent s_groups s_signed s_scale s_offset s_min s_max s_unit s_enum s_desc s_startval s_sendtype s_attrs place].
        rewrite Hfind. rewrite Hpar.
        rewrite (ProofsIds.find_sig_unique sigs t Hids P1).
        rewrite !ProofsIds.abs_start_top by (try reflexivity; apply (proj1 (mx_top es m t names Hmm P1 P2))).
        unfold rim in *. rewrite Q1, Q2, F2, F3, F4, F5, F6, Hv0, Ht0, Ha0, (selw_imgM t _ _ P1 P2), clear_spaces_idem.
        cbn [s_name s_rel mx_img]. rewrite clear_spaces_idem.
        destruct (s_kind (snd p)) eqn:Ek; try (exfalso; apply Hk; reflexivity).
        * destruct (Q3 eq_refl) as [A1 [A2 [A3 [A4 [A5 A6]]]]]. rewrite A1, A2, A3, A4, A5, A6. reflexivity.
        * rewrite (Q4 eq_refl). reflexivity.
  Qed.

  Lemma proj_sigs_multi :
    sort_by (fun a b => str_ltb (ps_name a) (ps_name b)) (map (proj_signal es' R) R)
    = sort_by (fun a b => str_ltb (ps_name a) (ps_name b)) (map (proj_signal es sigs) sigs).
  Proof.
    assert (HR1 : map (proj_signal es' R) R = map (fun p => proj_signal es' R (F p)) (YM MU X 0)) by (unfold R at 2; apply map_map).
    assert (HR2 : Permutation (map (proj_signal es' R) R) (map (proj_signal es sigs) sigs)).
    { rewrite HR1.
      eapply Permutation_trans; [apply Permutation_map; apply Permutation_sym; exact XYM_perm|].
      rewrite (map_ext_in _ (fun p => proj_signal es sigs (snd p))) by (intros p Hp; apply proj_ptM; assumption).
      rewrite <- (map_map snd (proj_signal es sigs)). unfold X. rewrite Proofs.index_from_snd.
      apply Permutation_map. apply Permutation_sym. exact HpS. }
    apply (RoundTripAttr.keyed_sort_perm_eq ps_name); [exact HR2|].
    eapply Permutation_NoDup; [apply Permutation_map; apply Permutation_sym; exact HR2|].
    rewrite map_map. destruct Hms as [_ [Hn _]]. exact Hn.
  Qed.
End MultiProj.

(* ---------------- a message with several multiplexers, as a whole ---------------- *)
Lemma imgM_common : forall es m s, ds_order (imgM es m s) = m_order m /\ ds_receivers (imgM es m s) = recs_out m.
Proof.
  intros es m s. unfold imgM. destruct (is_muxb s); [split; reflexivity|].
  destruct (is_topb s); [|unfold child_dsig; destruct (s_kind s); split; reflexivity].
  destruct (dsig_e_fields es (m_order m) (recs_out m) s) as [H1 [H2 _]]. split; assumption.
Qed.

Lemma import_message_hdr : forall es env names nodes st done m (im : signal -> dsignal) S' st' Rs,
  mmessage es names m ->
  (forall s, ds_order (im s) = m_order m /\ ds_receivers (im s) = recs_out m) ->
  sort_by (fun a b => get_start_bit a <? get_start_bit b)
    (flat_map (tdsigs es (m_signals m) (m_order m) (recs_out m)) (filter is_topb (m_signals m))) = map im S' ->
  S' <> [] -> m_signals m <> [] ->
  import_message_signals env st (length done)
    (mkdmessage (u32 (m_canid m)) (clear (m_name m)) (u32 (m_size m)) (clear (m_sender m))
       (flat_map (tdsigs es (m_signals m) (m_order m) (recs_out m)) (filter is_topb (m_signals m)))) = Ok (st', Rs) ->
  desc_of Z.eqb (u32 (m_canid m)) (ie_msg_desc env) = m_desc m ->
  (forall r, In r names -> In (clear r) (map n_name nodes)) ->
  (forall r, In r names -> clear r <> dummy_node) ->
  ~ In (m_canid m) (map m_canid done) ->
  ~ In (clear (m_sender m), clear (m_name m)) (map (fun x => (m_sender x, m_name x)) done) ->
  import_message env (st, done) nodes (dmsg_m es m)
  = Ok (st', done ++ [mkmessage (m_canid m) (clear (m_name m)) (m_size m) (m_order m) 0 0 0 0
                                (clear (m_sender m)) (recs_in m) (m_desc m) [] Rs]).
Proof.
  intros es env names nodes st done m im S' st' Rs Hmm Hcommon Hsort HS Hne Hsig Hmd Hnodes Hnd Hcan Hpair.
  pose proof Hmm as [Ha [Hc [Hdl [Hsd [Hst [Hid [Hsz [Hms [Hlay [Hsn [Hrc [Hrn Hre]]]]]]]]]]]].
  set (D := flat_map (tdsigs es (m_signals m) (m_order m) (recs_out m)) (filter is_topb (m_signals m))) in *.
  unfold import_message. cbv zeta. unfold dmsg_m. cbn [dm_signals dm_id dm_size dm_tx dm_name]. fold D.
  unfold desc_of in Hmd. rewrite Hmd. rewrite Hsort.
  destruct S' as [|s0 sr] eqn:ES; [contradiction|]. rewrite <- ES in *.
  assert (Hord : match map im S' with [] => LittleEndian | s :: _ => ds_order s end = m_order m).
  { rewrite ES. cbn [map]. apply (Hcommon s0). }
  rewrite Hord.
  assert (Hfo : forallb (fun s => bo_eqb (ds_order s) (m_order m)) (map im S') = true).
  { apply forallb_forall. intros ds Hin. apply in_map_iff in Hin. destruct Hin as [s [<- _]].
    rewrite (proj1 (Hcommon s)). destruct (m_order m); reflexivity. }
  rewrite Hfo. cbn [negb].
  assert (Hrin0 : recs_in m = map clear (sort_by str_ltb (m_receivers m))).
  { unfold recs_in. destruct (m_signals m); [contradiction|reflexivity]. }
  assert (Hrecs : filter (fun r => negb (String.eqb r dummy_node)) (dedup_str [] (flat_map ds_receivers (map im S'))) = recs_in m).
  { rewrite ES. cbn [map]. rewrite (dedup_copies (recs_out m)).
    - rewrite Hrin0. unfold recs_out. destruct (m_receivers m) as [|r0 rr] eqn:Er; [reflexivity|].
      apply filter_all. intros x Hx. apply in_map_iff in Hx. destruct Hx as [y [Hy Hin]]. subst x.
      rewrite In_sort_str in Hin.
      destruct (String.eqb (clear y) dummy_node) eqn:E; [|reflexivity].
      apply String.eqb_eq in E. exfalso. apply (Hnd y); [apply Hrc; assumption|assumption].
    - unfold recs_out. destruct (m_receivers m) as [|r0 rr] eqn:Er; [constructor; [intros []|constructor]|].
      eapply Permutation_NoDup; [|exact Hrn]. apply Permutation_map. apply sort_by_perm.
    - intros x Hx. destruct Hx as [Hx|Hx]; [subst; apply (Hcommon s0)|].
      apply in_map_iff in Hx. destruct Hx as [y [<- _]]. apply (Hcommon y). }
  rewrite Hrecs.
  assert (Hrin : forallb (fun r => mem_str r (map n_name nodes)) (recs_in m) = true).
  { apply forallb_forall. intros x Hx. rewrite Hrin0 in Hx.
    apply in_map_iff in Hx. destruct Hx as [y [Hy Hin]]. subst x. rewrite In_sort_str in Hin.
    unfold mem_str. apply existsb_exists. exists (clear y). split; [apply Hnodes, Hrc; assumption|apply String.eqb_refl]. }
  rewrite Hrin. cbn [negb].
  assert (Htx : mem_str (clear (m_sender m)) (map n_name nodes) = true).
  { unfold mem_str. apply existsb_exists. exists (clear (m_sender m)). split; [apply Hnodes; assumption|apply String.eqb_refl]. }
  rewrite Htx. cbn [negb].
  assert (Hname : mem_str (clear (m_name m))
                    (map m_name (filter (fun x => String.eqb (m_sender x) (clear (m_sender m))) done)) = false).
  { apply not_in_mem_str. intros Hin. apply in_map_iff in Hin. destruct Hin as [x [Hx Hin]].
    apply filter_In in Hin. destruct Hin as [Hin Hs]. apply String.eqb_eq in Hs.
    apply Hpair. apply in_map_iff. exists x. split; [rewrite Hs, Hx; reflexivity|assumption]. }
  rewrite Hname.
  rewrite (u32_id (m_size m)) by lia. replace (m_size m >? 8) with false by lia.
  rewrite (u32_id (m_canid m)) by lia. rewrite (not_in_mem_z _ _ Hcan).
  rewrite (u32_id (m_canid m)) in Hsig by lia. rewrite (u32_id (m_size m)) in Hsig by lia.
  match goal with |- bind ?x ?k = _ => replace x with (@Ok (istate * list signal) (st', Rs)) end.
  cbn [bind]. reflexivity.
Qed.

Lemma import_message_multi : forall es env st0 names nodes st done m,
  mmessage es names m -> many_of (m_signals m) = true ->
  (forall s, In s (m_signals m) -> is_muxb s = false -> env_sig es env st0 (u32 (m_canid m)) s /\ enum_wf (e_of es s)) ->
  (forall t, In t (m_signals m) -> is_muxb t = true -> desc_of key_eqb (u32 (m_canid m), clear (s_name t)) (ie_sig_desc env) = s_desc t) ->
  (forall t c, In t (m_signals m) -> is_muxb t = true -> In c (m_signals m) -> s_parent c = Some (s_id t) ->
     lookup key_eqb (u32 (m_canid m), clear (s_name c)) (ie_ext_muxes env)
     = Some (mkdextmux (u32 (m_canid m)) (clear (s_name t)) (clear (s_name c)) (ranges_of (mem_of (s_gcount t) c)))) ->
  (forall t, In t (m_signals m) -> is_topb t = true -> lookup key_eqb (u32 (m_canid m), clear (s_name t)) (ie_ext_muxes env) = None) ->
  ProofsEnum.refs_valid st0 -> Inv st -> ProofsEnum.st_le st0 st ->
  desc_of Z.eqb (u32 (m_canid m)) (ie_msg_desc env) = m_desc m ->
  (forall r, In r names -> In (clear r) (map n_name nodes)) ->
  (forall r, In r names -> clear r <> dummy_node) ->
  ~ In (m_canid m) (map m_canid done) ->
  ~ In (clear (m_sender m), clear (m_name m)) (map (fun x => (m_sender x, m_name x)) done) ->
  exists st' S' EI st1,
    let X := index_from 0 S' in
    let MU := filter (fun p : Z * signal => is_muxb (snd p)) X in
    import_message env (st, done) nodes (dmsg_m es m)
    = Ok (st', done ++ [mkmessage (m_canid m) (clear (m_name m)) (m_size m) (m_order m) 0 0 0 0
                                  (clear (m_sender m)) (recs_in m) (m_desc m) [] (map (FM es m MU X EI st1) (YM MU X 0))]) /\
    Permutation (m_signals m) S' /\
    Inv st' /\ ProofsEnum.st_le st st' /\
    (forall s, In s (m_signals m) -> is_muxb s = false -> EIok es st' s (EI s)) /\
    (forall p, In p X -> lookup key_eqb (u32 (m_canid m), clear (s_name (snd p))) (is_sigmap st') = Some (length done, fst p)) /\
    (forall k, (forall s, In s (m_signals m) -> k <> (u32 (m_canid m), clear (s_name s))) -> lookup key_eqb k (is_sigmap st') = lookup key_eqb k (is_sigmap st)).
Proof.
  intros es env st0 names nodes st done m Hmm Hmany Henv Henvx Hext Hextm Hrv0 HI Hle Hmd Hnodes Hnd Hcan Hpair.
  pose proof (D_imgM es names m Hmm) as HD.
  pose proof (SXg_perm es names m Hmm) as HP0.
  set (D := flat_map (tdsigs es (m_signals m) (m_order m) (recs_out m)) (filter is_topb (m_signals m))) in *.
  assert (Hsorted : exists S', sort_by (fun a b => get_start_bit a <? get_start_bit b) D = map (imgM es m) S' /\ Permutation (m_signals m) S').
  { assert (Hp : Permutation (sort_by (fun a b => get_start_bit a <? get_start_bit b) D) (map (imgM es m) (SX m)))
      by (rewrite <- HD; apply Permutation_sym, sort_by_perm).
    apply Permutation_map_inv in Hp. destruct Hp as [S' [E1 E2]]. exists S'. split; [exact E1|].
    eapply Permutation_trans; eauto. }
  destruct Hsorted as [S' [Hsort HpS]].
  destruct (ims_multi es env (length done) m names st0 Hmm Henv Henvx Hext Hextm Hrv0 Hmany st S' (clear (m_name m)) (clear (m_sender m)) D HpS Hsort HI Hle)
    as [st' [EI [st1 [Hsig [HI' [Hle' [Ees [Erf [HEI [Hsm1 Hsm2]]]]]]]]]].
  exists st', S', EI, st1. cbv zeta.
  assert (Hne : m_signals m <> []).
  { intros E. rewrite E in Hmany. cbn in Hmany. discriminate. }
  assert (HS : S' <> []).
  { intros E. rewrite E in HpS. apply Permutation_sym, Permutation_nil in HpS. contradiction. }
  split; [exact (import_message_hdr es env names nodes st done m (imgM es m) S' st' _ Hmm (imgM_common es m) Hsort HS Hne Hsig Hmd Hnodes Hnd Hcan Hpair)|].
  split; [exact HpS|]. split; [exact HI'|]. split; [exact Hle'|]. split; [|split; [exact Hsm1|exact Hsm2]].
  intros s Hs Hnm Hk. destruct (HEI s Hs Hnm Hk) as [H1 [H2 H3]]. rewrite Ees, Erf. auto.
Qed.

(* ---------------- the environment of the import, for an mbus ---------------- *)
Lemma mbus_keyed : forall b, mbus b -> keyed_bus b.
Proof.
  intros b [_ [_ [Hnd [_ [_ [Hms [Hcan [_ [Hg _]]]]]]]]]. repeat split; try assumption;
    rewrite Forall_forall in Hms; destruct (Hms m H) as [_ [_ [_ [_ [_ [Hid [_ [[_ [Hnn _]] _]]]]]]]]; solve [lia|assumption].
Qed.

Lemma env_sig_m : forall b nreg es0 es' se' md nd,
  keyed_bus b -> Forall enum_wf (b_enums b) ->
  fold_left (fun acc ve => do a <- acc; import_value_encoding nreg a ve) (bus_vencs b) (Ok (es0, [])) = Ok (es', se') ->
  forall m s, In m (b_messages b) -> In s (m_signals m) ->
  env_sig (b_enums b) (mkienv nd md (rev (spairs (doc_cms b))) se' []) (mkistate es' [] []) (u32 (m_canid m)) s.
Proof.
  intros b nreg es0 es' se' md nd Hkb Hes Hfold m s Hm Hs.
  assert (Hwf : forall x, enum_wf (e_of (b_enums b) x)) by (intros x; apply enum_wf_nth; assumption).
  split; [cbn [ie_sig_desc]; apply (sig_desc_ok b Hkb); assumption|].
  cbn [ie_sig_enums is_enums].
  pose proof (Proofs.valenc_fold_keys _ _ _ _ _ _ Hfold) as Hkeys.
  destruct (ProofsEnum.valenc_fold_resolved _ _ _ _ _ _ Hfold) as [_ Hres].
  assert (Hkind : forall ve, In ve (bus_vencs b) -> ve_signal ve = true ->
            (ve_msg ve, ve_sig ve) = (u32 (m_canid m), clear (s_name s)) ->
            s_kind s = KEnum /\ ve_values ve = evals (e_of (b_enums b) s)).
  { intros ve Hin _ Hk. apply in_bus_vencs in Hin. destruct Hin as [m' [s' [Hm' [Hs' [Hk' ->]]]]].
    cbn [ve_msg ve_sig ve_values] in *. inversion Hk as [[K1 K2]].
    destruct (key_inj b Hkb m' m s' s Hm' Hm Hs' Hs K1 K2) as [-> ->]. auto. }
  assert (Hnone : s_kind s <> KEnum -> lookup key_eqb (u32 (m_canid m), clear (s_name s)) se' = None).
  { intros Hne. destruct (lookup key_eqb (u32 (m_canid m), clear (s_name s)) se') as [ei|] eqn:El; [|reflexivity].
    exfalso. assert (Hin : In (u32 (m_canid m), clear (s_name s)) (map fst se')) by (apply Proofs.lookup_some_in; eauto).
    apply Hkeys in Hin. destruct Hin as [[]|[ve [H1 [H2 H3]]]]. destruct (Hkind ve H1 H2 H3) as [Hc _]. contradiction. }
  destruct (s_kind s) eqn:Ek.
  - apply Hnone. discriminate.
  - assert (Hin : In (u32 (m_canid m), clear (s_name s)) (map fst se')).
    { apply Hkeys. right. exists (mkdvalenc true (u32 (m_canid m)) (clear (s_name s)) (evals (e_of (b_enums b) s))).
      split; [apply in_bus_vencs; exists m, s; auto|auto]. }
    apply Proofs.lookup_some_in in Hin. destruct Hin as [ei0 El]. exists ei0. split; [assumption|].
    specialize (Hres _ _ El).
    destruct (ProofsEnum.last_valenc (bus_vencs b) (u32 (m_canid m), clear (s_name s))) as [v|] eqn:Elv; [|discriminate].
    destruct Hres as [Hr Hv]. split; [assumption|]. rewrite Hv.
    apply last_valenc_in in Elv. destruct Elv as [ve [H1 [H2 [H3 ->]]]].
    destruct (Hkind ve H1 H2 H3) as [_ ->]. apply vsort_evals. apply Hwf.
  - apply Hnone. discriminate.
Qed.

(* ---------------- a message without multiplexer is a message of RoundTripEnum ---------------- *)
Lemma mmessage_plain : forall es names m, mmessage es names m ->
  (forall s, In s (m_signals m) -> is_muxb s = false) ->
  emessage es names m /\ dmsg_m es m = dmsg_e es m.
Proof.
  intros es names m [Ha [Hc [Hdl [Hsd [Hst [Hid [Hsz [Hms [Hlay [Hsn [Hrc [Hrn Hre]]]]]]]]]]]] Hnm.
  pose proof Hms as [Hids [Hnames [Htops [_ [Hch _]]]]].
  assert (Hall : filter is_topb (m_signals m) = m_signals m).
  { apply filter_all. intros s Hs. destruct (is_topb s) eqn:Et; [reflexivity|]. exfalso.
    destruct (Hch s Hs Et) as [mx [Hmx [_ [Hm _]]]]. rewrite (Hnm mx Hmx) in Hm. discriminate. }
  rewrite Hall in *. split.
  - refine (conj Ha (conj Hc (conj Hdl (conj Hsd (conj Hst (conj Hid (conj Hsz (conj _ (conj Hlay (conj Hnames (conj Hsn (conj Hrc (conj Hrn Hre))))))))))))).
    apply Forall_forall. intros s Hs. rewrite Forall_forall in Htops. destruct (Htops s Hs) as [H1 [H2 [H3 [H4 [H5 [H6 H7]]]]]].
    refine (conj H1 (conj H2 (conj H3 (conj H4 (conj H5 (conj H6 _)))))). specialize (Hnm s Hs). unfold is_muxb in Hnm. destruct (s_kind s); try assumption. discriminate.
  - unfold dmsg_m, dmsg_e. rewrite Hall. f_equal.
    assert (G : forall sg l, (forall s, In s l -> is_muxb s = false) ->
              flat_map (tdsigs es sg (m_order m) (recs_out m)) l = map (dsig_e es (m_order m) (recs_out m)) l).
    { intros sg l. induction l as [|s r IH]; intros Hl; [reflexivity|]. cbn [flat_map map]. rewrite IH by (intros x Hx; apply Hl; right; assumption).
      specialize (Hl s (or_introl eq_refl)). unfold tdsigs. unfold is_muxb in Hl. destruct (s_kind s); try discriminate; reflexivity. }
    apply G. assumption.
Qed.

(* ---------------- any message of the fragment ---------------- *)
Definition multi_result (es : list enum_def) (m : message) (EI : signal -> Z) (st1 : istate) (S' : list signal) : list signal :=
  let X := index_from 0 S' in
  let MU := filter (fun p : Z * signal => is_muxb (snd p)) X in
  map (FM es m MU X EI st1) (YM MU X 0).

Definition Rmsg_m (es : list enum_def) (st : istate) (m m' : message) : Prop :=
  ((forall s, In s (m_signals m) -> is_muxb s = false) /\ Rmsg es st m m') \/
  (exists mx mid gs S' EI, In mx (m_signals m) /\ is_muxb mx = true /\ one_mux (m_signals m) /\
     m' = mkmessage (m_canid m) (clear (m_name m)) (m_size m) (m_order m) 0 0 0 0 (clear (m_sender m)) (recs_in m) (m_desc m) []
                    (mux_result mx mid gs EI S') /\
     Permutation (m_signals m) S' /\ In (mid, mx) (index_from 0 S') /\ 1 <= gs /\
     (forall s, In s (m_signals m) -> s <> mx -> EIok es st s (EI s))) \/
  (exists S' EI st1, many_of (m_signals m) = true /\
     m' = mkmessage (m_canid m) (clear (m_name m)) (m_size m) (m_order m) 0 0 0 0 (clear (m_sender m)) (recs_in m) (m_desc m) []
                    (multi_result es m EI st1 S') /\
     Permutation (m_signals m) S' /\
     (forall s, In s (m_signals m) -> is_muxb s = false -> EIok es st s (EI s))).

Lemma Rmsg_m_mono : forall es st st' m m', ProofsEnum.st_le st st' -> Rmsg_m es st m m' -> Rmsg_m es st' m m'.
Proof.
  intros es st st' m m' Hle [[H1 H2]|[[mx [mid [gs [S' [EI [A1 [A2 [A0 [A3 [A4 [A5 [A6 A7]]]]]]]]]]]]|[S' [EI [st1 [B1 [B2 [B3 B4]]]]]]]].
  - left. split; [assumption|eapply Rmsg_mono; eauto].
  - right. left. exists mx, mid, gs, S', EI. refine (conj A1 (conj A2 (conj A0 (conj A3 (conj A4 (conj A5 (conj A6 _))))))). intros x Hx Hne. eapply EIok_mono; eauto.
  - right. right. exists S', EI, st1. refine (conj B1 (conj B2 (conj B3 _))). intros x Hx Hnm. eapply EIok_mono; eauto.
Qed.

Lemma Rmsg_m_head : forall es st m m', Rmsg_m es st m m' ->
  m_canid m' = m_canid m /\ m_sender m' = clear (m_sender m) /\ m_name m' = clear (m_name m).
Proof.
  intros es st m m' [[_ [sg [-> _]]]|[[mx [mid [gs [S' [EI [_ [_ [_ [-> _]]]]]]]]]|[S' [EI [st1 [_ [-> _]]]]]]]; cbn; auto.
Qed.

(* the signal map after the import of a message: every signal is found, under its sanitised name, at its position *)
Definition sm_rel (sm : list (key * (nat * Z))) (p : nat) (m m' : message) : Prop :=
  forall s, In s (m_signals m) -> exists s', In s' (m_signals m') /\ s_name s' = clear (s_name s) /\
    lookup key_eqb (u32 (m_canid m), clear (s_name s)) sm = Some (p, s_id s').

Lemma Rsig_name_id : forall es st id s s', Rsig es st id s s' -> s_name s' = clear (s_name s) /\ s_id s' = id.
Proof.
  intros es st id s s' H. unfold Rsig in H. destruct (s_kind s); [subst; cbn; auto| |]; destruct H as [ei [-> _]]; cbn; auto.
Qed.

(* the SG_MUL_VAL_ table of the import answers for the children of a message's multiplexers, and has no entry for a
   top-level signal *)
Definition ext_ok (env : ienv) (m : message) : Prop :=
  (forall mx c, In mx (m_signals m) -> is_muxb mx = true -> In c (m_signals m) -> s_parent c = Some (s_id mx) ->
    lookup key_eqb (u32 (m_canid m), clear (s_name c)) (ie_ext_muxes env)
    = match ext_of (u32 (m_canid m)) mx (many_of (m_signals m)) c with [] => None | e :: _ => Some e end) /\
  (forall t, In t (m_signals m) -> is_topb t = true -> lookup key_eqb (u32 (m_canid m), clear (s_name t)) (ie_ext_muxes env) = None).

Lemma import_message_m : forall es env st0 names nodes st done m,
  mmessage es names m -> env_msg es env st0 m -> ext_ok env m ->
  ProofsEnum.refs_valid st0 -> Inv st -> ProofsEnum.st_le st0 st ->
  (forall r, In r names -> In (clear r) (map n_name nodes)) ->
  (forall r, In r names -> clear r <> dummy_node) ->
  ~ In (m_canid m) (map m_canid done) ->
  ~ In (clear (m_sender m), clear (m_name m)) (map (fun x => (m_sender x, m_name x)) done) ->
  exists st' m',
    import_message env (st, done) nodes (dmsg_m es m) = Ok (st', done ++ [m']) /\
    Inv st' /\ ProofsEnum.st_le st st' /\ Rmsg_m es st' m m' /\
    sm_rel (is_sigmap st') (length done) m m' /\
    (forall k, (forall s, In s (m_signals m) -> k <> (u32 (m_canid m), clear (s_name s))) -> lookup key_eqb k (is_sigmap st') = lookup key_eqb k (is_sigmap st)).
Proof.
  intros es env st0 names nodes st done m Hmm Henv [Hext Hextm] Hrv0 HI Hle Hnodes Hnd Hcan Hpair.
  pose proof Hmm as [_ [_ [_ [_ [_ [_ [_ [Hms _]]]]]]]].
  destruct (existsb is_muxb (m_signals m)) eqn:Ex.
  - (* at least one multiplexer *)
    apply existsb_exists in Ex. destruct Ex as [mx [Hmx Hmxm]].
    destruct Henv as [Hmd Hsig].
    assert (Henv1 : forall s, In s (m_signals m) -> is_muxb s = false -> env_sig es env st0 (u32 (m_canid m)) s /\ enum_wf (e_of es s))
      by (intros s Hs _; apply Hsig; assumption).
    assert (Henvx : forall t, In t (m_signals m) -> is_muxb t = true -> desc_of key_eqb (u32 (m_canid m), clear (s_name t)) (ie_sig_desc env) = s_desc t)
      by (intros t Ht _; destruct (Hsig t Ht) as [[Hd _] _]; exact Hd).
    destruct (many_of (m_signals m)) eqn:Emany.
    + (* several *)
      assert (Hext2 : forall t c, In t (m_signals m) -> is_muxb t = true -> In c (m_signals m) -> s_parent c = Some (s_id t) ->
                lookup key_eqb (u32 (m_canid m), clear (s_name c)) (ie_ext_muxes env)
                = Some (mkdextmux (u32 (m_canid m)) (clear (s_name t)) (clear (s_name c)) (ranges_of (mem_of (s_gcount t) c)))).
      { intros t c Ht Htm Hc Hp. rewrite (Hext t c Ht Htm Hc Hp). reflexivity. }
      destruct (import_message_multi es env st0 names nodes st done m Hmm Emany Henv1 Henvx Hext2 Hextm Hrv0 HI Hle Hmd Hnodes Hnd Hcan Hpair)
        as [st' [S' [EI [st1 Hres]]]]. cbv zeta in Hres. destruct Hres as [E [Hp [HI' [Hle' [HEI [Hsm1 Hsm2]]]]]].
      exists st'. eexists. split; [exact E|].
      split; [exact HI'|]. split; [exact Hle'|]. split; [|split].
      * right. right. exists S', EI, st1. refine (conj Emany (conj eq_refl (conj Hp HEI))).
      * intros s Hs. assert (HsS : In s S') by (eapply Permutation_in; eauto).
        destruct (in_index_from S' 0 s HsS) as [i Hi]. specialize (Hsm1 (i, s) Hi). cbn [fst snd] in Hsm1.
        cbn [m_signals].
        exists (FM es m (filter (fun p : Z * signal => is_muxb (snd p)) (index_from 0 S')) (index_from 0 S') EI st1 (i, s)). split.
        -- apply (RM_in es names m EI S' st1 Hmm Hp (i, s) Hi).
        -- rewrite (FM_id es m EI S' st1 (i, s)). cbn [fst]. split; [|exact Hsm1]. apply (FM_name es m EI S' st1 (i, s)).
      * exact Hsm2.
    + (* exactly one *)
      pose proof (count_one_mux es _ Hms Emany) as Huniq.
      assert (Hext1 : forall c, In c (m_signals m) -> is_topb c = false ->
                lookup key_eqb (u32 (m_canid m), clear (s_name c)) (ie_ext_muxes env)
                = match ext_of (u32 (m_canid m)) mx (many_of (m_signals m)) c with [] => None | e :: _ => Some e end).
      { intros c Hc Hct. destruct Hms as [_ [_ [_ [_ [Hch _]]]]]. destruct (Hch c Hc Hct) as [q [Hq [_ [Hqm [_ [Hp _]]]]]].
        rewrite (Huniq mx q Hmx Hq Hmxm Hqm), Emany. apply Hext; assumption. }
      destruct (import_message_mux es env st0 names nodes st done m mx Hmm Hmx Hmxm Henv1 (Henvx mx Hmx Hmxm) Hext1 Huniq Hrv0 HI Hle Hmd Hnodes Hnd Hcan Hpair)
        as [st' [S' [mid [gs [EI [E [Hp [Hmid [Hgs [HI' [Hle' [HEI [Hsm1 Hsm2]]]]]]]]]]]]].
      exists st'. eexists. split; [exact E|].
      split; [exact HI'|]. split; [exact Hle'|]. split; [|split].
      * right. left. exists mx, mid, gs, S', EI. refine (conj Hmx (conj Hmxm (conj Huniq (conj eq_refl (conj Hp (conj Hmid (conj _ HEI))))))). lia.
      * intros s Hs. assert (HsS : In s S') by (eapply Permutation_in; eauto).
        destruct (in_index_from S' 0 s HsS) as [i Hi]. specialize (Hsm1 (i, s) Hi). cbn [fst snd] in Hsm1.
        cbn [m_signals].
        exists (Fimg mx mid gs EI (i, s)). split.
        -- rewrite (R_map es names m mx mid gs EI S' Hmm Hmx Hmxm Huniq Hp).
           apply in_map. eapply Permutation_in; [apply (XY_perm es names m mx mid S' Hmm Hmx Hmxm Huniq Hp Hmid)|exact Hi].
        -- rewrite (Fimg_id mx mid gs EI (i, s)). cbn [fst]. split; [|exact Hsm1].
           apply (Fimg_facts m mx mid gs EI S' Hmx Hmxm Huniq Hp (i, s) Hi).
      * exact Hsm2.
  - (* none *)
    assert (Hnm : forall s, In s (m_signals m) -> is_muxb s = false).
    { intros s Hs. destruct (is_muxb s) eqn:E; [|reflexivity]. assert (existsb is_muxb (m_signals m) = true) by (apply existsb_exists; eauto). congruence. }
    destruct (mmessage_plain es names m Hmm Hnm) as [Hem Hdm]. rewrite Hdm.
    destruct (import_message_e es env st0 names nodes st done m Hem Henv Hrv0 HI Hle Hnodes Hnd Hcan Hpair)
      as [st' [m' [E [HI' [Hle' [HR [HL1 HL2]]]]]]].
    exists st', m'. split; [exact E|]. split; [exact HI'|]. split; [exact Hle'|]. split; [left; split; assumption|]. split; [|exact HL2].
    intros s Hs. destruct (in_index_from (m_signals m) 0 s Hs) as [j Hj]. destruct HR as [sg [-> HF]]. cbn [m_signals].
    destruct (ProofsMux.Forall2_in_l _ _ _ _ HF Hj) as [s' [Hs' HRs]]. cbn [fst snd] in HRs.
    destruct (Rsig_name_id _ _ _ _ _ HRs) as [N1 N2]. exists s'. split; [assumption|]. split; [assumption|]. rewrite N2. apply (HL1 j s Hj).
Qed.

Fixpoint SMs (sm : list (key * (nat * Z))) (p : nat) (l l' : list message) : Prop :=
  match l, l' with
  | [], [] => True
  | m :: r, m' :: r' => sm_rel sm p m m' /\ SMs sm (S p) r r'
  | _, _ => False
  end.

Lemma import_messages_m : forall es env st0 names nodes l st done,
  Forall (mmessage es names) l -> (forall m, In m l -> env_msg es env st0 m) -> (forall m, In m l -> ext_ok env m) ->
  ProofsEnum.refs_valid st0 -> Inv st -> ProofsEnum.st_le st0 st ->
  (forall r, In r names -> In (clear r) (map n_name nodes)) ->
  (forall r, In r names -> clear r <> dummy_node) ->
  NoDup (map m_canid done ++ map m_canid l) ->
  NoDup (map (fun x => (m_sender x, m_name x)) done ++ map (fun m => (clear (m_sender m), clear (m_name m))) l) ->
  exists st' msgs',
    fold_left (fun acc dm => do a <- acc; import_message env a nodes dm) (map (dmsg_m es) l) (Ok (st, done))
    = Ok (st', done ++ msgs') /\ Inv st' /\ ProofsEnum.st_le st st' /\ Forall2 (Rmsg_m es st') l msgs' /\
    SMs (is_sigmap st') (length done) l msgs' /\
    (forall k, (forall m s, In m l -> In s (m_signals m) -> k <> (u32 (m_canid m), clear (s_name s))) ->
       lookup key_eqb k (is_sigmap st') = lookup key_eqb k (is_sigmap st)).
Proof.
  intros es env st0 names nodes l. induction l as [|m r IH]; intros st done Hp Henv Hext Hrv0 HI Hle Hn Hd Hc Hq.
  - cbn. exists st, []. rewrite app_nil_r. split; [reflexivity|]. split; [assumption|]. split; [apply ProofsEnum.st_le_refl|]. split; [constructor|]. split; [exact I|auto].
  - inversion Hp as [|? ? Hpm Hpr]; subst. cbn [map fold_left bind].
    destruct (import_message_m es env st0 names nodes st done m Hpm (Henv m (or_introl eq_refl)) (Hext m (or_introl eq_refl)) Hrv0 HI Hle Hn Hd)
      as [st1 [m' [E1 [HI1 [Hle1 [HR [HS1 HS2]]]]]]].
    + cbn [map] in Hc. apply NoDup_remove_2 in Hc. intros Hin. apply Hc. apply in_or_app. left. assumption.
    + cbn [map] in Hq. apply NoDup_remove_2 in Hq. intros Hin. apply Hq. apply in_or_app. left. assumption.
    + rewrite E1. destruct (Rmsg_m_head _ _ _ _ HR) as [K1 [K2 K3]].
      assert (Hkeys : forall x s s', In x r -> (u32 (m_canid m), clear (s_name s)) <> (u32 (m_canid x), clear (s_name s'))).
      { intros x s s' Hx Heq. inversion Heq as [[Hq1 Hq2]].
        rewrite Forall_forall in Hpr. destruct Hpm as [_ [_ [_ [_ [_ [Hid _]]]]]]. destruct (Hpr x Hx) as [_ [_ [_ [_ [_ [Hidx _]]]]]].
        rewrite !u32_id in Hq1 by assumption.
        cbn [map] in Hc. apply NoDup_app_r in Hc. inversion Hc as [|? ? Hni _]; subst. apply Hni. rewrite Hq1. apply in_map. assumption. }
      destruct (IH st1 (done ++ [m'])) as [st' [msgs' [F1 [F2 [F3 [F4 [F5 F6]]]]]]]; try assumption.
      * intros x Hx. apply Henv. right. assumption.
      * intros x Hx. apply Hext. right. assumption.
      * eapply ProofsEnum.st_le_trans; [exact Hrv0|exact Hle|exact Hle1].
      * rewrite map_app. cbn [map]. rewrite K1, <- app_assoc. exact Hc.
      * rewrite map_app. cbn [map]. rewrite K2, K3, <- app_assoc. exact Hq.
      * exists st', (m' :: msgs'). split; [rewrite F1, <- app_assoc; reflexivity|]. split; [assumption|].
        split; [eapply ProofsEnum.st_le_trans; [exact (proj1 HI)|exact Hle1|exact F3]|].
        split; [constructor; [eapply Rmsg_m_mono; eauto|assumption]|]. split.
        -- cbn [SMs]. split.
           ++ intros s Hs. destruct (HS1 s Hs) as [s' [A1 [A2 A3]]]. exists s'. split; [assumption|]. split; [assumption|].
              rewrite F6 by (intros y t Hy _; apply Hkeys; assumption). exact A3.
           ++ rewrite app_length in F5. cbn [length] in F5. replace (length done + 1)%nat with (S (length done)) in F5 by lia. exact F5.
        -- intros k Hk. rewrite F6 by (intros y t Hy Ht; apply Hk; [right; assumption|assumption]).
           apply HS2. intros t Ht. apply Hk; [left; reflexivity|assumption].
Qed.

(* ---------------- projection of any message of the fragment ---------------- *)
Lemma proj_message_m : forall names es st m m',
  mmessage es names m -> (forall s, In s (m_signals m) -> enum_wf (e_of es s)) ->
  Rmsg_m es st m m' -> proj_message (is_enums st) m' = proj_message es m.
Proof.
  intros names es st m m' Hmm Hwf [[Hnm HR]|[[mx [mid [gs [S' [EI [Hmx [Hmxm [Huniq [-> [HpS [Hmid [Hgs HEI]]]]]]]]]]]]|[S' [EI [st1 [Hmany [-> [HpS HEI]]]]]]]].
  - destruct (mmessage_plain es names m Hmm Hnm) as [Hem _]. eapply proj_message_e; eauto.
  - pose proof Hmm as [Ha [Hc [Hdl [Hsd [Hst [Hid [Hsz [Hms [Hlay [Hsn [Hrc [Hrn Hre]]]]]]]]]]]].
    unfold proj_message.
    cbn [m_canid m_name m_size m_order m_cycle m_delay m_startdelay m_sendtype m_sender m_receivers m_desc m_attrs m_signals].
    rewrite Ha, Hc, Hdl, Hsd, Hst, !clear_spaces_idem.
    rewrite (proj_sigs_mux es st names m mx mid gs EI S' Hmm Hmx Hmxm Huniq Hwf HEI HpS Hmid).
    assert (Hne : m_signals m <> []) by (intros E; rewrite E in Hmx; destruct Hmx).
    assert (Hr : mux_result mx mid gs EI S' <> []).
    { unfold mux_result. intros E. apply app_eq_nil in E. destruct E as [_ E]. discriminate E. }
    destruct (mux_result mx mid gs EI S') eqn:ER; [contradiction|].
    destruct (m_signals m) eqn:ES; [contradiction|].
    assert (Hrecs : sort_by str_ltb (map clear (recs_in m)) = sort_by str_ltb (map clear (m_receivers m))).
    { unfold recs_in. rewrite ES.
      rewrite map_map. rewrite (map_ext (fun x => clear (clear x)) clear) by (intros; apply clear_spaces_idem).
      apply sort_str_perm_eq. apply Permutation_map. apply Permutation_sym. apply sort_by_perm. }
    rewrite Hrecs. reflexivity.
  - pose proof Hmm as [Ha [Hc [Hdl [Hsd [Hst [Hid [Hsz [Hms [Hlay [Hsn [Hrc [Hrn Hre]]]]]]]]]]]].
    unfold proj_message.
    cbn [m_canid m_name m_size m_order m_cycle m_delay m_startdelay m_sendtype m_sender m_receivers m_desc m_attrs m_signals].
    rewrite Ha, Hc, Hdl, Hsd, Hst, !clear_spaces_idem.
    unfold multi_result. cbv zeta.
    rewrite (proj_sigs_multi es st names m EI S' st1 Hmm Hwf HEI HpS).
    assert (Hne : m_signals m <> []) by (intros E; rewrite E in Hmany; cbn in Hmany; discriminate).
    pose proof (RM_len es names m EI S' st1 Hmm HpS) as Hlen.
    destruct (map _ (YM _ _ 0)) eqn:ER; [destruct (m_signals m); [contradiction|discriminate Hlen]|].
    destruct (m_signals m) eqn:ES; [contradiction|].
    assert (Hrecs : sort_by str_ltb (map clear (recs_in m)) = sort_by str_ltb (map clear (m_receivers m))).
    { unfold recs_in. rewrite ES.
      rewrite map_map. rewrite (map_ext (fun x => clear (clear x)) clear) by (intros; apply clear_spaces_idem).
      apply sort_str_perm_eq. apply Permutation_map. apply Permutation_sym. apply sort_by_perm. }
    rewrite Hrecs. reflexivity.
Qed.

(* ---------------- the bus with its signals in export order ---------------- *)
Lemma S0_SX : forall es names m mx, mmessage es names m -> In mx (m_signals m) -> is_muxb mx = true -> one_mux (m_signals m) -> S0 m mx = SX m.
Proof.
  intros es names m mx Hmm Hmx Hmxm Hu. unfold S0, SX, tx. apply flat_map_ext_in_simple. intros t Ht. apply filter_In in Ht. destruct Ht as [Ht _].
  destruct (is_muxb t) eqn:E; [|reflexivity].
  rewrite (Hu t mx Ht Hmx E Hmxm). reflexivity.
Qed.

Lemma SX_perm : forall es names m, mmessage es names m -> Permutation (m_signals m) (SX m).
Proof. exact SXg_perm. Qed.

Lemma xbus_keyed : forall b, mbus b -> keyed_bus (xbus b).
Proof.
  intros b Hb. pose proof (mbus_keyed b Hb) as [K1 [K2 [K3 K4]]]. pose proof Hb as [_ [_ [_ [_ [_ [Hms _]]]]]].
  unfold xbus. split; [|split; [|split]]; cbn [b_nodes b_messages set_b_messages].
  - rewrite (flat_map_ext_in_simple _ (fun n => map xmsg (filter (fun m => String.eqb (m_sender m) (n_name n)) (b_messages b)))) by (intros n _; apply filter_xmsg).
    rewrite <- (map_flat_map xmsg (fun n => filter (fun m => String.eqb (m_sender m) (n_name n)) (b_messages b)) (b_nodes b)). rewrite K1. reflexivity.
  - exact K2.
  - rewrite map_map. exact K3.
  - intros xm Hxm. apply in_map_iff in Hxm. destruct Hxm as [m [<- Hm]]. destruct (K4 m Hm) as [Hid Hn]. split; [exact Hid|].
    cbn [m_signals xmsg set_m_signals]. rewrite Forall_forall in Hms.
    eapply Permutation_NoDup; [apply Permutation_map; apply (SX_perm _ _ m (Hms m Hm))|exact Hn].
Qed.

(* ---------------- the SG_MUL_VAL_ table of an exported bus ---------------- *)
Lemma lookup_key_unique : forall {V} (l : list (key * V)) k v,
  In (k, v) l -> (forall v', In (k, v') l -> v' = v) -> lookup key_eqb k l = Some v.
Proof.
  intros V l. induction l as [|[k0 v0] r IH]; intros k v Hin Hu; [destruct Hin|]. cbn [lookup].
  destruct (key_eqb k k0) eqn:E.
  - apply key_eqb_eq in E. subst k0. f_equal. apply Hu. left. reflexivity.
  - destruct Hin as [Hin|Hin]; [inversion Hin; subst; rewrite (proj2 (key_eqb_eq k k) eq_refl) in E; discriminate|].
    apply IH; [assumption|]. intros v' Hv'. apply Hu. right. assumption.
Qed.
Lemma lookup_key_absent : forall {V} (l : list (key * V)) k, (forall v, ~ In (k, v) l) -> lookup key_eqb k l = None.
Proof.
  intros V l. induction l as [|[k0 v0] r IH]; intros k H; [reflexivity|]. cbn [lookup].
  destruct (key_eqb k k0) eqn:E.
  - apply key_eqb_eq in E. subst k0. exfalso. apply (H v0). left. reflexivity.
  - apply IH. intros v Hv. apply (H v). right. assumption.
Qed.
Lemma in_import_ext_muxes : forall l k em, In (k, em) (import_ext_muxes l) <-> In em l /\ k = (em_msg em, em_muxed em).
Proof.
  intros l k em. unfold import_ext_muxes.
  assert (G : forall l acc, In (k, em) (fold_left (fun acc em0 => ((em_msg em0, em_muxed em0), em0) :: acc) l acc)
                            <-> (In em l /\ k = (em_msg em, em_muxed em)) \/ In (k, em) acc).
  { induction l0 as [|e r IH]; intros acc; cbn [fold_left].
    - split; [intros H; right; assumption|intros [[[] _]|H]; assumption].
    - rewrite IH. cbn [In]. split.
      + intros [[H1 H2]|[H|H]]; [left; split; [right; assumption|assumption]| |right; assumption].
        inversion H; subst. left. split; [left; reflexivity|reflexivity].
      + intros [[[->|H1] H2]|H]; [right; left; rewrite H2; reflexivity|left; auto|right; right; assumption]. }
  rewrite G. split; [intros [H|[]]; assumption|intros H; left; assumption].
Qed.

Lemma in_walk_of : forall es sigs mx c, kids_ok es sigs mx -> 1 <= s_gcount mx -> (In c (walk_of sigs mx) <-> In c (children sigs mx)).
Proof.
  intros es sigs mx c [HK _] Hg. unfold walk_of. rewrite in_flat_map. split.
  - intros [id [_ Hc]]. apply filter_In in Hc. tauto.
  - intros Hc. exists (grp c). rewrite Forall_forall in HK. pose proof (grp_range mx c (child_gok es mx c (HK c Hc))) as Hr. split.
    + apply in_zrange. lia.
    + apply filter_In. split; [assumption|apply Z.eqb_refl].
Qed.

Lemma ext_ok_bus : forall b nd md sd se, mbus b -> forall m, In m (b_messages b) -> ext_ok (mkienv nd md sd se (import_ext_muxes (bus_exts b))) m.
Proof.
  intros b nd md sd se Hb m Hm. cbn [ie_ext_muxes].
  pose proof (mbus_keyed b Hb) as [_ [_ [Hcan Hk4]]]. pose proof Hb as [_ [_ [_ [_ [_ [Hms _]]]]]]. rewrite Forall_forall in Hms.
  (* every entry of the table comes from a child of a multiplexer of a message *)
  assert (Hsrc : forall k em, In (k, em) (import_ext_muxes (bus_exts b)) ->
            exists m' mx' c', In m' (b_messages b) /\ In mx' (m_signals m') /\ is_muxb mx' = true /\ In c' (m_signals m') /\ s_parent c' = Some (s_id mx') /\
                              In em (ext_of (u32 (m_canid m')) mx' (many_of (m_signals m')) c') /\ k = (u32 (m_canid m'), clear (s_name c'))).
  { intros k em Hin. apply in_import_ext_muxes in Hin. destruct Hin as [Hin ->]. unfold bus_exts in Hin. apply in_flat_map in Hin.
    destruct Hin as [m' [Hm' Hin]]. unfold msg_exts in Hin. apply in_flat_map in Hin. destruct Hin as [t [Ht Hin]].
    apply filter_In in Ht. destruct Ht as [Ht Htt]. unfold texts in Hin. destruct (is_muxb t) eqn:Em; [|destruct Hin].
    apply in_flat_map in Hin. destruct Hin as [c' [Hc' Hin]].
    pose proof (Hms m' Hm') as Hmm'. pose proof Hmm' as [_ [_ [_ [_ [_ [_ [_ [Hmso _]]]]]]]].
    pose proof (kids_ok_of _ _ t Hmso Ht Em) as Hko.
    assert (Hg1 : 1 <= s_gcount t) by (destruct (selw_facts _ m' t _ Hmm' Ht Em) as [_ [_ [H _]]]; exact H).
    apply (in_walk_of _ _ _ _ Hko Hg1) in Hc'.
    destruct (child_in_sigs_g _ _ m' Hmm' t c' Ht Em Hc') as [Hcs [_ [[_ [Hp _]] _]]].
    exists m', t, c'. split; [assumption|]. split; [assumption|]. split; [assumption|]. split; [assumption|].
    split; [assumption|]. split; [assumption|].
    unfold ext_of in Hin. destruct (negb _ && Nat.eqb _ 1); [destruct Hin|]. destruct Hin as [<-|[]]. reflexivity. }
  (* the keys determine message and child, the child determines its multiplexer *)
  assert (Hkey : forall m' mx' c' mx c, In m' (b_messages b) -> In mx' (m_signals m') -> In c' (m_signals m') -> s_parent c' = Some (s_id mx') ->
            In mx (m_signals m) -> In c (m_signals m) -> s_parent c = Some (s_id mx) ->
            (u32 (m_canid m'), clear (s_name c')) = (u32 (m_canid m), clear (s_name c)) -> m' = m /\ mx' = mx /\ c' = c).
  { intros m' mx' c' mx c Hm' Hmx' Hc' Hp' Hmx Hc Hp Heq. inversion Heq as [[E1 E2]].
    destruct (Hk4 m Hm) as [Hid Hn]. destruct (Hk4 m' Hm') as [Hid' _]. rewrite !u32_id in E1 by assumption.
    assert (m' = m) by (apply (NoDup_map_inj m_canid (b_messages b)); assumption). subst m'.
    destruct (Hms m Hm) as [_ [_ [_ [_ [_ [_ [_ [[Hids _] _]]]]]]]].
    assert (c' = c) by (apply (NoDup_map_inj (fun s => clear (s_name s)) (m_signals m)); assumption). subst c'.
    split; [reflexivity|]. split; [|reflexivity]. apply (NoDup_map_inj s_id (m_signals m)); try assumption. congruence. }
  pose proof (Hms m Hm) as Hmm. pose proof Hmm as [_ [_ [_ [_ [_ [_ [_ [Hmso _]]]]]]]].
  split.
  - intros mx c Hmx Hmxm Hc Hp.
    destruct (ext_of (u32 (m_canid m)) mx (many_of (m_signals m)) c) as [|e er] eqn:Ee.
    + apply lookup_key_absent. intros em Hin. destruct (Hsrc _ _ Hin) as [m' [mx' [c' [H1 [H2 [H3 [H4 [H5 [H6 H7]]]]]]]]].
      destruct (Hkey m' mx' c' mx c H1 H2 H4 H5 Hmx Hc Hp (eq_sym H7)) as [-> [-> ->]]. rewrite Ee in H6. destruct H6.
    + assert (Her : er = []) by (unfold ext_of in Ee; destruct (negb _ && Nat.eqb _ 1); [discriminate|inversion Ee; reflexivity]). subst er.
      apply lookup_key_unique.
      * apply in_import_ext_muxes. split.
        -- unfold bus_exts. apply in_flat_map. exists m. split; [assumption|]. unfold msg_exts. apply in_flat_map. exists mx. split.
           ++ apply filter_In. split; [assumption|]. apply (proj2 (mx_top _ m mx _ Hmm Hmx Hmxm)).
           ++ unfold texts. rewrite Hmxm. apply in_flat_map. exists c. split; [|rewrite Ee; left; reflexivity].
              pose proof (kids_ok_of _ _ mx Hmso Hmx Hmxm) as Hko.
              assert (Hg1 : 1 <= s_gcount mx) by (destruct (selw_facts _ m mx _ Hmm Hmx Hmxm) as [_ [_ [H _]]]; exact H).
              apply (in_walk_of _ _ _ _ Hko Hg1). unfold children. apply Proofs.In_sort_by. apply filter_In. split; [assumption|].
              rewrite Hp. apply Z.eqb_refl.
        -- unfold ext_of in Ee. destruct (negb _ && Nat.eqb _ 1); [discriminate|]. inversion Ee. reflexivity.
      * intros em Hin. destruct (Hsrc _ _ Hin) as [m' [mx' [c' [H1 [H2 [H3 [H4 [H5 [H6 H7]]]]]]]]].
        destruct (Hkey m' mx' c' mx c H1 H2 H4 H5 Hmx Hc Hp (eq_sym H7)) as [-> [-> ->]]. rewrite Ee in H6. destruct H6 as [<-|[]]. reflexivity.
  - intros t Ht Htt. apply lookup_key_absent. intros em Hin. destruct (Hsrc _ _ Hin) as [m' [mx' [c' [H1 [H2 [H3 [H4 [H5 [H6 H7]]]]]]]]].
    inversion H7 as [[E1 E2]].
    destruct (Hk4 m Hm) as [Hid Hn]. destruct (Hk4 m' H1) as [Hid' _]. rewrite !u32_id in E1 by assumption.
    assert (m = m') by (apply (NoDup_map_inj m_canid (b_messages b)); assumption). subst m'.
    assert (t = c') by (apply (NoDup_map_inj (fun s => clear (s_name s)) (m_signals m)); assumption). subst c'.
    unfold is_topb in Htt. rewrite H5 in Htt. discriminate.
Qed.

(* ---------------- the structural part of the import for any document that carries the exported structure
   of an mbus (used by RoundTripAll with non-empty attribute sections) ---------------- *)
Lemma import_struct_m : forall b L d, mbus b ->
  d_filename d = b_name b -> d_nodes d = map (fun n => clear (n_name n)) (b_nodes b) ->
  d_valtables d = map (table_of (b_enums b)) L -> d_messages d = map (dmsg_m (b_enums b)) (b_messages b) ->
  d_comments d = doc_cms (xbus b) -> d_valencs d = bus_vencs (xbus b) -> d_extmuxes d = bus_exts b ->
  exists st' msgs',
    import d = (do b1 <- import_attributes (is_sigmap st') d
                           (mkbus (b_name b) (b_desc b) []
                                  (mk_nodes 0 (b_nodes b) ++ [mknode dummy_node 1024 EmptyString []]) (is_enums st') msgs');
                finish b1) /\
    Forall2 (Rmsg_m (b_enums b) st') (b_messages b) msgs' /\
    SMs (is_sigmap st') 0 (b_messages b) msgs'.
Proof.
  intros b L d Hb D1 D2 D3 D4 D5 D6 D7. pose proof Hb as [Ha [Hn [Hnn [Hdm [Hlen [Hm [Hcan [Hpair [Hg Hes]]]]]]]]].
  pose proof (xbus_keyed b Hb) as Hkx.
  unfold import. rewrite D1, D2, D3, D4, D5, D6, D7.
  rewrite import_comments_spec, (gdesc_doc (xbus b) Hkx).
  destruct (tables_ok (b_enums b) L [] Hes) as [reg [T1 T2]]. cbn [app] in T1. rewrite T1. cbn [bind].
  destruct (valencs_ok (length reg) (bus_vencs (xbus b)) reg []) as [new [se' [V1 V2]]].
  { apply Forall_forall. intros ve Hin. apply in_bus_vencs in Hin. destruct Hin as [m [s [_ [_ [_ ->]]]]].
    cbn [ve_values]. apply evals_ok. apply enum_wf_nth. assumption. }
  rewrite V1. cbn [bind fst snd].
  change (b_desc (xbus b)) with (b_desc b).
  rewrite import_nodes_ok; [|assumption|assumption|assumption|intros n Hin; apply (node_desc_ok (xbus b) Hkx); assumption].
  cbn [bind].
  set (nd := rev (npairs (doc_cms (xbus b)))). set (md := rev (mpairs (doc_cms (xbus b)))). set (sd := rev (spairs (doc_cms (xbus b)))).
  set (st0 := mkistate (reg ++ new) [] []).
  set (nodes' := mk_nodes 0 (b_nodes b) ++ [mknode dummy_node 1024 EmptyString []]).
  assert (Hnames' : map n_name nodes' = map (fun n => clear (n_name n)) (b_nodes b) ++ [dummy_node]).
  { unfold nodes'. rewrite map_app, mk_nodes_names. reflexivity. }
  assert (HI0 : Inv st0).
  { assert (Hall : forall i, 0 <= i < Z.of_nat (length (reg ++ new)) -> fresh (nth_enum (reg ++ new) i)).
    { intros i Hi. assert (HF : Forall fresh (reg ++ new)) by (apply Forall_app; split; assumption).
      rewrite Forall_forall in HF. apply HF. unfold nth_enum. apply nth_In. lia. }
    split; [intros r []|]. split; intros i Hi; cbn [is_enums st0] in *; [apply (Hall i Hi)|intros _; apply (Hall i Hi)]. }
  assert (Hwf : forall x, enum_wf (e_of (b_enums b) x)) by (intros x; apply enum_wf_nth; assumption).
  assert (Henvm : forall m, In m (b_messages b) -> env_msg (b_enums b) (mkienv nd md sd se' (import_ext_muxes (bus_exts b))) st0 m).
  { intros m Hin. assert (Hxin : In (xmsg m) (b_messages (xbus b))) by (apply in_map; assumption). split.
    - cbn [ie_msg_desc]. apply (msg_desc_ok (xbus b) Hkx (xmsg m) Hxin).
    - intros s Hs. split; [|apply Hwf].
      assert (Hsx : In s (m_signals (xmsg m))).
      { cbn [m_signals xmsg set_m_signals]. rewrite Forall_forall in Hm. eapply Permutation_in; [apply (SX_perm _ _ m (Hm m Hin))|exact Hs]. }
      pose proof (env_sig_m (xbus b) (length reg) reg (reg ++ new) se' md nd Hkx Hes V1 (xmsg m) s Hxin Hsx) as He. exact He. }
  destruct (import_messages_m (b_enums b) (mkienv nd md sd se' (import_ext_muxes (bus_exts b))) st0 (map n_name (b_nodes b)) nodes' (b_messages b) st0 [])
    as [st' [msgs' [F1 [F2 [F3 [F4 [F5 F6]]]]]]]; try assumption; try reflexivity.
  - intros m Hin. apply ext_ok_bus; assumption.
  - intros r [].
  - apply ProofsEnum.st_le_refl.
  - intros r Hr. rewrite Hnames'. apply in_or_app. left. apply in_map_iff in Hr. destruct Hr as [n [Hr Hin]]. subst r.
    apply in_map_iff. exists n. auto.
  - intros r Hr Heq. apply Hdm. apply in_map_iff in Hr. destruct Hr as [n [Hr Hin]]. subst r.
    rewrite <- Heq. apply in_map_iff. exists n. auto.
  - cbn [app] in F1. exists st', msgs'. split; [|split; [exact F4|exact F5]].
    match goal with |- bind ?x ?k = _ => replace x with (@Ok (istate * list message) (st', msgs')) by (symmetry; exact F1) end.
    cbn [bind]. reflexivity.
Qed.

(* ---------------- the theorem ---------------- *)
Theorem export_import_mux_thm : forall b, mbus b ->
  exists b', export_import b = Ok b' /\ proj_bus b' = proj_bus b.
Proof.
  intros b Hb. pose proof Hb as [Ha [Hn [Hnn [Hdm [Hlen [Hm [Hcan [Hpair [Hg Hes]]]]]]]]].
  destruct (export_m b Hb) as [L HE]. unfold export_import. rewrite HE.
  set (d := text_roundtrip (mdoc b L)).
  assert (D2 : d_nodes d = map (fun n => clear (n_name n)) (b_nodes b)) by reflexivity.
  destruct (import_struct_m b L d Hb eq_refl D2 eq_refl eq_refl eq_refl eq_refl eq_refl) as [st' [msgs' [HI [HF HS]]]].
  assert (Hwf : forall x, enum_wf (e_of (b_enums b) x)) by (intros x; apply enum_wf_nth; assumption).
  assert (Hnos : existsb (fun m => String.eqb (m_sender m) dummy_node) msgs' = false).
  { destruct (existsb _ _) eqn:E; [|reflexivity]. apply existsb_exists in E. destruct E as [x [Hx He]].
    destruct (Forall2_in_r _ _ _ _ HF Hx) as [m [Hin HR]]. destruct (Rmsg_m_head _ _ _ _ HR) as [_ [Hs _]]. rewrite Hs in He.
    apply String.eqb_eq in He. exfalso. apply Hdm.
    rewrite Forall_forall in Hm. destruct (Hm m Hin) as [_ [_ [_ [_ [_ [_ [_ [_ [_ [Hsn _]]]]]]]]]].
    apply in_map_iff in Hsn. destruct Hsn as [n [Hs' Hn']]. rewrite <- He, <- Hs'. apply in_map_iff. exists n. auto. }
  exists (mkbus (b_name b) (b_desc b) [] (mk_nodes 0 (b_nodes b)) (is_enums st') msgs'). split.
  { rewrite HI. unfold import_attributes. cbn [d_attrdefs d_attrs d_attrvals fold_left bind d text_roundtrip mdoc map].
    unfold finish. cbn [b_messages b_nodes set_b_nodes]. rewrite Hnos.
    rewrite filter_app, mk_nodes_not_dummy by assumption. cbn [filter String.eqb negb app]. rewrite app_nil_r.
    reflexivity. }
  unfold proj_bus. cbn [b_desc b_attrs b_nodes b_enums b_messages]. rewrite Ha.
  f_equal.
  + clear - Hn. revert Hn. generalize 0. generalize (b_nodes b). induction l as [|n r IH]; intros i Hf; cbn [map mk_nodes]; [reflexivity|].
    inversion Hf as [|? ? Hna Hr]; subst. rewrite IH by assumption. f_equal.
    unfold proj_node. cbn [n_name n_desc n_attrs]. rewrite Hna, clear_spaces_idem. reflexivity.
  + f_equal. eapply (Forall2_map_eq (Rmsg_m (b_enums b) st')); [exact HF|].
    intros m m' Hin HR. rewrite Forall_forall in Hm. eapply (proj_message_m (map n_name (b_nodes b))); [apply Hm; assumption|intros; apply Hwf|exact HR].
Qed.

(* ------------------------------------------------------------------------------------------
   the hypothesis is satisfiable: a message with a plain signal, a 4-group multiplexer whose groups
   overlay each other (one child in group 0, two in group 1), and a plain signal behind it; a second
   message without multiplexer holding an enum signal
   ------------------------------------------------------------------------------------------ *)
Local Open Scope string_scope.
Definition std_sig (id : Z) (name : string) (rel size : Z) (parent : option Z) (groups : list Z) (desc : string) : signal :=
  mksignal id name KStandard rel parent groups size false fl_one fl_zero fl_zero (mkfl 255 0) "" 0 0 0 desc fl_zero 0 [].
Definition example_mux_bus : bus :=
  mkbus "bus" "mux" []
    [mknode "ECU 1" 3 "" []; mknode "GW" 7 "" []]
    [ mkenum "on off" [(1, "on"); (0, "off")] 1 0 ]
    [ mkmessage 256 "status" 4 LittleEndian 0 0 0 0 "ECU 1" ["GW"] "" []
        [ std_sig 0 "a" 0 8 None [] "first";
          mksignal 1 "mode sel" KMux 8 None [] 0 false fl_one fl_zero fl_zero fl_zero "" 0 4 16 "the switch" fl_zero 0 [];
          std_sig 2 "c0" 0 8 (Some 1) [0; 2] "in two groups";
          mksignal 3 "c1" KEnum 0 (Some 1) [1] 0 false fl_one fl_zero fl_zero fl_zero "" 0 0 0 "an enum child" fl_zero 0 [];
          std_sig 4 "c 2" 4 4 (Some 1) [1] "a described child";
          std_sig 6 "fx" 8 8 (Some 1) [] "fixed: in every group";
          mksignal 5 "z" KEnum 26 None [] 0 false fl_one fl_zero fl_zero fl_zero "" 0 0 0 "an enum beside the switch" fl_zero 0 [] ];
      mkmessage 512 "other" 1 BigEndian 0 0 0 0 "GW" [] "second" []
        [ mksignal 0 "n" KEnum 0 None [] 0 false fl_one fl_zero fl_zero fl_zero "" 0 0 0 "" fl_zero 0 [] ];
      mkmessage 768 "dual" 8 LittleEndian 0 0 0 0 "GW" ["ECU 1"] "two multiplexers" []
        [ mksignal 0 "m a" KMux 0 None [] 0 false fl_one fl_zero fl_zero fl_zero "" 0 2 8 "first switch" fl_zero 0 [];
          std_sig 1 "ka" 0 8 (Some 0) [0] "";
          mksignal 2 "m b" KMux 16 None [] 0 false fl_one fl_zero fl_zero fl_zero "" 0 2 8 "" fl_zero 0 [];
          std_sig 3 "kb" 0 4 (Some 2) [1] "under the second switch";
          std_sig 4 "kf" 4 4 (Some 2) [] "";
          std_sig 5 "p" 40 8 None [] "" ] ].

Ltac in_cases H := cbn [In] in H; repeat (destruct H as [<-|H]); try contradiction.

Example example_mux_bus_ok : mbus example_mux_bus.
Proof.
  unfold mbus, example_mux_bus. cbn [b_desc b_attrs b_nodes b_messages b_enums map n_name n_desc n_attrs length].
  split; [reflexivity|]. split; [repeat constructor|]. split; [e_nodup|]. split; [vm_compute; intuition discriminate|].
  split; [cbn; lia|]. split.
  { constructor; [|constructor; [|constructor; [|constructor]]]; unfold mmessage;
      cbn [m_desc m_attrs m_cycle m_delay m_startdelay m_sendtype m_canid m_size m_signals m_sender m_receivers].
    - refine (conj eq_refl (conj eq_refl (conj eq_refl (conj eq_refl (conj eq_refl (conj _ (conj _ (conj _ (conj _ (conj _ (conj _ (conj _ _)))))))))))).
      + cbn; lia.
      + lia.
      + unfold msigs_ok. split; [e_nodup|]. split; [e_nodup|]. split.
        { cbn [filter is_topb std_sig s_parent]. repeat (apply Forall_cons; [unfold top_ok, std_sig; cbn; repeat split; try reflexivity; try lia|]). apply Forall_nil. }
        split.
        { intros a Ha Hma. in_cases Ha; first [reflexivity|cbn in Hma; discriminate Hma]. }
        split.
        { intros c Hc Ht. in_cases Hc; try (cbn in Ht; discriminate Ht);
            (eexists; split; [right; left; reflexivity|]; split; [reflexivity|]; split; [reflexivity|];
             unfold child_ok, std_sig; cbn [s_kind s_parent s_groups s_startval s_sendtype s_attrs s_size s_rel s_id s_gcount s_gsize];
             refine (conj _ (conj eq_refl (conj _ (conj eq_refl (conj eq_refl (conj eq_refl (conj _ (conj _ _))))))));
             [discriminate
             |unfold groups_ok; first [left; split; [reflexivity|lia]
                                      |right; split; [discriminate|]; split; [cbn; lia|intros g Hg; cbn in Hg; lia]]
             |intros Hc; first [lia|discriminate Hc]|lia|vm_compute; intros Hc; discriminate Hc]). }
        { intros c c' Hc Hc' Ht Ht' Hne _ [g [Hg0 [Hg1 Hg2]]]. in_cases Hc; in_cases Hc'; try (cbn in Ht; discriminate Ht); try (cbn in Ht'; discriminate Ht');
            try contradiction;
            try (vm_compute; first [left; intros Hc; discriminate Hc|right; intros Hc; discriminate Hc]);
            exfalso; unfold in_group, std_sig in Hg1, Hg2; cbn [s_groups mem_z existsb] in Hg1, Hg2; lia. }
      + cbn [filter is_topb std_sig s_parent]. cbn. repeat split; lia.
      + cbn; auto.
      + intros x Hx; cbn in Hx; cbn; intuition.
      + e_nodup.
      + intros Hx; discriminate Hx.
    - refine (conj eq_refl (conj eq_refl (conj eq_refl (conj eq_refl (conj eq_refl (conj _ (conj _ (conj _ (conj _ (conj _ (conj _ (conj _ _)))))))))))).
      + cbn; lia.
      + lia.
      + unfold msigs_ok. split; [e_nodup|]. split; [e_nodup|]. split.
        { cbn. repeat (apply Forall_cons; [unfold top_ok; cbn; repeat split; try reflexivity; try lia|]). apply Forall_nil. }
        split; [intros a Ha Hma; in_cases Ha; cbn in Hma; discriminate Hma|].
        split; [intros c Hc Ht; in_cases Hc; cbn in Ht; discriminate Ht|].
        intros c c' Hc Hc' Ht; in_cases Hc; cbn in Ht; discriminate Ht.
      + cbn. repeat split; try lia.
      + cbn; auto.
      + intros x Hx; cbn in Hx; contradiction.
      + constructor.
      + intros Hx; discriminate Hx.
    - refine (conj eq_refl (conj eq_refl (conj eq_refl (conj eq_refl (conj eq_refl (conj _ (conj _ (conj _ (conj _ (conj _ (conj _ (conj _ _)))))))))))).
      + cbn; lia.
      + lia.
      + unfold msigs_ok. split; [e_nodup|]. split; [e_nodup|]. split.
        { cbn [filter is_topb std_sig s_parent]. repeat (apply Forall_cons; [unfold top_ok, std_sig; cbn; repeat split; try reflexivity; try lia|]). apply Forall_nil. }
        split.
        { intros a Ha Hma. in_cases Ha; first [reflexivity|cbn in Hma; discriminate Hma]. }
        split.
        { intros c Hc Ht. in_cases Hc; try (cbn in Ht; discriminate Ht);
            (first [eexists; split; [left; reflexivity|]; split; [reflexivity|]; split; [reflexivity|];
                    unfold child_ok, std_sig; cbn [s_kind s_parent s_groups s_startval s_sendtype s_attrs s_size s_rel s_id s_gcount s_gsize];
                    refine (conj _ (conj eq_refl (conj _ (conj eq_refl (conj eq_refl (conj eq_refl (conj _ (conj _ _))))))))
                   |eexists; split; [right; right; left; reflexivity|]; split; [reflexivity|]; split; [reflexivity|];
                    unfold child_ok, std_sig; cbn [s_kind s_parent s_groups s_startval s_sendtype s_attrs s_size s_rel s_id s_gcount s_gsize];
                    refine (conj _ (conj eq_refl (conj _ (conj eq_refl (conj eq_refl (conj eq_refl (conj _ (conj _ _))))))))];
             [discriminate
             |unfold groups_ok; first [left; split; [reflexivity|lia]
                                      |right; split; [discriminate|]; split; [cbn; lia|intros g Hg; cbn in Hg; lia]]
             |intros Hc; first [lia|discriminate Hc]|lia|vm_compute; intros Hc; discriminate Hc]). }
        { intros c c' Hc Hc' Ht Ht' Hne Hpar [g [Hg0 [Hg1 Hg2]]]. in_cases Hc; in_cases Hc'; try (cbn in Ht; discriminate Ht); try (cbn in Ht'; discriminate Ht');
            try contradiction; try (cbn in Hpar; discriminate Hpar);
            try (vm_compute; first [left; intros Hc; discriminate Hc|right; intros Hc; discriminate Hc]);
            exfalso; unfold in_group, std_sig in Hg1, Hg2; cbn [s_groups mem_z existsb] in Hg1, Hg2; lia. }
      + cbn [filter is_topb std_sig s_parent]. cbn. repeat split; lia.
      + cbn; auto.
      + intros x Hx; cbn in Hx; cbn; intuition.
      + e_nodup.
      + intros Hx; discriminate Hx. }
  split; [e_nodup|]. split; [e_nodup|]. split; [reflexivity|].
  repeat (apply Forall_cons;
    [unfold enum_wf; cbn [en_values en_maxindex en_minsize];
     split; [e_nodup|]; split; [e_nodup|];
     split; [intros v Hv; cbn in Hv; intuition (subst; cbn; lia)|]; split; cbn; lia|]).
  apply Forall_nil.
Qed.

Example example_mux_bus_roundtrip :
  exists b', export_import example_mux_bus = Ok b' /\ proj_bus b' = proj_bus example_mux_bus /\
             map (fun m => map (fun s => (s_name s, s_rel s, s_parent s, s_groups s)) (m_signals m)) (b_messages b')
             = [[("a", 0, None, []); ("z", 26, None, []); ("mode_sel", 8, None, []);
                 ("c0", 0, Some 1, [0; 2]); ("c1", 0, Some 1, [1]); ("c_2", 4, Some 1, [1]); ("fx", 8, Some 1, [])]; [("n", 0, None, [])];
                [("p", 40, None, []); ("m_b", 16, None, []); ("kb", 0, Some 2, [1]); ("kf", 4, Some 2, []); ("m_a", 0, None, []); ("ka", 0, Some 0, [0])]].
Proof. eexists. split; [vm_compute; reflexivity|]. split; vm_compute; reflexivity. Qed.

(* ------------------------------------------------------------------------------------------
   edge cases of the group lists inside the fragment: a multiplexer with ONE group holding a child that lists it and
   a fixed child (the fixed child comes back listing group 0: same membership), and a child that lists EVERY group
   of a 2-group multiplexer (it comes back fixed: same membership)
   ------------------------------------------------------------------------------------------ *)
Definition example_edge_bus : bus :=
  mkbus "bus" "" [] [mknode "E" 0 "" []] []
    [ mkmessage 200 "one" 8 LittleEndian 0 0 0 0 "E" [] "" []
        [ mksignal 0 "s" KMux 0 None [] 0 false fl_one fl_zero fl_zero fl_zero "" 0 1 8 "" fl_zero 0 [];
          std_sig 1 "x" 0 4 (Some 0) [0] "";
          std_sig 2 "y" 4 4 (Some 0) [] "" ];
      mkmessage 201 "all" 8 LittleEndian 0 0 0 0 "E" [] "" []
        [ mksignal 0 "t" KMux 0 None [] 0 false fl_one fl_zero fl_zero fl_zero "" 0 2 8 "" fl_zero 0 [];
          std_sig 1 "u" 0 4 (Some 0) [0; 1] "" ] ].

Example example_edge_bus_ok : mbus example_edge_bus.
Proof.
  unfold mbus, example_edge_bus. cbn [b_desc b_attrs b_nodes b_messages b_enums map n_name n_desc n_attrs length].
  split; [reflexivity|]. split; [repeat constructor|]. split; [e_nodup|]. split; [vm_compute; intuition discriminate|].
  split; [cbn; lia|]. split.
  { constructor; [|constructor; [|constructor]]; unfold mmessage;
      cbn [m_desc m_attrs m_cycle m_delay m_startdelay m_sendtype m_canid m_size m_signals m_sender m_receivers].
    - refine (conj eq_refl (conj eq_refl (conj eq_refl (conj eq_refl (conj eq_refl (conj _ (conj _ (conj _ (conj _ (conj _ (conj _ (conj _ _)))))))))))).
      + cbn; lia.
      + lia.
      + unfold msigs_ok. split; [e_nodup|]. split; [e_nodup|]. split.
        { cbn [filter is_topb std_sig s_parent]. repeat (apply Forall_cons; [unfold top_ok, std_sig; cbn; repeat split; try reflexivity; try lia|]). apply Forall_nil. }
        split.
        { intros a Ha Hma. in_cases Ha; first [reflexivity|cbn in Hma; discriminate Hma]. }
        split.
        { intros c Hc Ht. in_cases Hc; try (cbn in Ht; discriminate Ht);
            (first [eexists; split; [left; reflexivity|]; split; [reflexivity|]; split; [reflexivity|];
                    unfold child_ok, std_sig; cbn [s_kind s_parent s_groups s_startval s_sendtype s_attrs s_size s_rel s_id s_gcount s_gsize];
                    refine (conj _ (conj eq_refl (conj _ (conj eq_refl (conj eq_refl (conj eq_refl (conj _ (conj _ _))))))))
                   |eexists; split; [right; right; left; reflexivity|]; split; [reflexivity|]; split; [reflexivity|];
                    unfold child_ok, std_sig; cbn [s_kind s_parent s_groups s_startval s_sendtype s_attrs s_size s_rel s_id s_gcount s_gsize];
                    refine (conj _ (conj eq_refl (conj _ (conj eq_refl (conj eq_refl (conj eq_refl (conj _ (conj _ _))))))))];
             [discriminate
             |unfold groups_ok; first [left; split; [reflexivity|lia]
                                      |right; split; [discriminate|]; split; [cbn; lia|intros g Hg; cbn in Hg; lia]]
             |intros Hc; first [lia|discriminate Hc]|lia|vm_compute; intros Hc; discriminate Hc]). }
        { intros c c' Hc Hc' Ht Ht' Hne Hpar [g [Hg0 [Hg1 Hg2]]]. in_cases Hc; in_cases Hc'; try (cbn in Ht; discriminate Ht); try (cbn in Ht'; discriminate Ht');
            try contradiction; try (cbn in Hpar; discriminate Hpar);
            try (vm_compute; first [left; intros Hc; discriminate Hc|right; intros Hc; discriminate Hc]);
            exfalso; unfold in_group, std_sig in Hg1, Hg2; cbn [s_groups mem_z existsb] in Hg1, Hg2; lia. }
      + cbn [filter is_topb std_sig s_parent]. cbn. repeat split; lia.
      + cbn; auto.
      + intros x Hx; cbn in Hx; cbn; intuition.
      + e_nodup.
      + intros Hx; discriminate Hx.
    - refine (conj eq_refl (conj eq_refl (conj eq_refl (conj eq_refl (conj eq_refl (conj _ (conj _ (conj _ (conj _ (conj _ (conj _ (conj _ _)))))))))))).
      + cbn; lia.
      + lia.
      + unfold msigs_ok. split; [e_nodup|]. split; [e_nodup|]. split.
        { cbn [filter is_topb std_sig s_parent]. repeat (apply Forall_cons; [unfold top_ok, std_sig; cbn; repeat split; try reflexivity; try lia|]). apply Forall_nil. }
        split.
        { intros a Ha Hma. in_cases Ha; first [reflexivity|cbn in Hma; discriminate Hma]. }
        split.
        { intros c Hc Ht. in_cases Hc; try (cbn in Ht; discriminate Ht);
            (first [eexists; split; [left; reflexivity|]; split; [reflexivity|]; split; [reflexivity|];
                    unfold child_ok, std_sig; cbn [s_kind s_parent s_groups s_startval s_sendtype s_attrs s_size s_rel s_id s_gcount s_gsize];
                    refine (conj _ (conj eq_refl (conj _ (conj eq_refl (conj eq_refl (conj eq_refl (conj _ (conj _ _))))))))
                   |eexists; split; [right; right; left; reflexivity|]; split; [reflexivity|]; split; [reflexivity|];
                    unfold child_ok, std_sig; cbn [s_kind s_parent s_groups s_startval s_sendtype s_attrs s_size s_rel s_id s_gcount s_gsize];
                    refine (conj _ (conj eq_refl (conj _ (conj eq_refl (conj eq_refl (conj eq_refl (conj _ (conj _ _))))))))];
             [discriminate
             |unfold groups_ok; first [left; split; [reflexivity|lia]
                                      |right; split; [discriminate|]; split; [cbn; lia|intros g Hg; cbn in Hg; lia]]
             |intros Hc; first [lia|discriminate Hc]|lia|vm_compute; intros Hc; discriminate Hc]). }
        { intros c c' Hc Hc' Ht Ht' Hne Hpar [g [Hg0 [Hg1 Hg2]]]. in_cases Hc; in_cases Hc'; try (cbn in Ht; discriminate Ht); try (cbn in Ht'; discriminate Ht');
            try contradiction; try (cbn in Hpar; discriminate Hpar);
            try (vm_compute; first [left; intros Hc; discriminate Hc|right; intros Hc; discriminate Hc]);
            exfalso; unfold in_group, std_sig in Hg1, Hg2; cbn [s_groups mem_z existsb] in Hg1, Hg2; lia. }
      + cbn [filter is_topb std_sig s_parent]. cbn. repeat split; lia.
      + cbn; auto.
      + intros x Hx; cbn in Hx; cbn; intuition.
      + e_nodup.
      + intros Hx; discriminate Hx. }
  split; [e_nodup|]. split; [e_nodup|]. split; [reflexivity|]. constructor.
Qed.

Example example_edge_bus_roundtrip :
  exists b', export_import example_edge_bus = Ok b' /\ proj_bus b' = proj_bus example_edge_bus /\
             map (fun m => map (fun s => (s_name s, s_parent s, s_groups s)) (m_signals m)) (b_messages b')
             = [[("s", None, []); ("x", Some 0, [0]); ("y", Some 0, [0])]; [("t", None, []); ("u", Some 0, [])]].
Proof. eexists. split; [vm_compute; reflexivity|]. split; vm_compute; reflexivity. Qed.
