(* C11 — facts about the exporter's name sanitising (helpers.go clearSpaces) and about the
   byte-wise string order used by the sorted getters. *)
From Coq Require Import String Ascii ZArith List Bool Lia.
From Coq Require Import OrderedTypeEx.
From Acme.C10 Require Import DbcDoc.
Import ListNotations.

(* ---- clear_spaces is idempotent ---- *)
Definition is_blank (c : ascii) : bool := Nat.eqb (nat_of_ascii c) 32.

Lemma blank_is_space : forall c, is_blank c = true -> is_space c = true.
Proof. intros c H. unfold is_blank in H. unfold is_space. rewrite H. reflexivity. Qed.

Definition underscore_of (c : ascii) : ascii := if is_blank c then "_"%char else c.

Lemma underscore_not_space : forall c, is_space c = false -> is_space (underscore_of c) = false.
Proof.
  intros c H. unfold underscore_of. destruct (is_blank c) eqn:E; [|assumption].
  apply blank_is_space in E. congruence.
Qed.
Lemma underscore_not_blank : forall c, is_blank (underscore_of c) = false.
Proof. intros c. unfold underscore_of. destruct (is_blank c) eqn:E; [reflexivity|assumption]. Qed.

Lemma s2u_cons : forall c r, spaces_to_underscore (String c r) = String (underscore_of c) (spaces_to_underscore r).
Proof. reflexivity. Qed.

Lemma s2u_idem : forall s, spaces_to_underscore (spaces_to_underscore s) = spaces_to_underscore s.
Proof.
  induction s as [|c r IH]; [reflexivity|]. rewrite !s2u_cons, IH. f_equal.
  unfold underscore_of at 1. rewrite underscore_not_blank. reflexivity.
Qed.

(* all_space is preserved in the negative direction by the replacement *)
Lemma all_space_s2u : forall s, all_space s = false -> all_space (spaces_to_underscore s) = false.
Proof.
  induction s as [|c r IH]; intros H; [discriminate|]. rewrite s2u_cons. cbn [all_space] in *.
  destruct (is_space c) eqn:E.
  - cbn [andb] in H. destruct (is_space (underscore_of c)); [apply IH; assumption|reflexivity].
  - rewrite underscore_not_space by assumption. reflexivity.
Qed.

(* a string is "trimmed" when neither its first nor its last character is white space *)
Fixpoint ends_nonspace (s : string) : bool :=
  match s with
  | EmptyString => true
  | String c EmptyString => negb (is_space c)
  | String c r => ends_nonspace r
  end.
Definition starts_nonspace (s : string) : bool :=
  match s with EmptyString => true | String c _ => negb (is_space c) end.

Lemma trim_left_fix : forall s, starts_nonspace s = true -> trim_left s = s.
Proof. intros [|c r] H; [reflexivity|]. cbn in *. destruct (is_space c); [discriminate|reflexivity]. Qed.

Lemma ends_nonspace_all_space : forall s, s <> EmptyString -> ends_nonspace s = true -> all_space s = false.
Proof.
  induction s as [|c r IH]; intros Hne H; [contradiction|].
  destruct r as [|d q].
  - cbn in *. destruct (is_space c); [discriminate|reflexivity].
  - change (all_space (String c (String d q))) with (is_space c && all_space (String d q))%bool.
    change (ends_nonspace (String c (String d q))) with (ends_nonspace (String d q)) in H.
    rewrite (IH ltac:(discriminate) H). apply andb_false_r.
Qed.

Lemma trim_right_fix : forall s, ends_nonspace s = true -> trim_right s = s.
Proof.
  induction s as [|c r IH]; intros H; [reflexivity|].
  cbn [trim_right]. rewrite (ends_nonspace_all_space (String c r) ltac:(discriminate) H).
  f_equal. destruct r as [|d q]; [reflexivity|]. apply IH. exact H.
Qed.

Lemma trim_left_starts : forall s, starts_nonspace (trim_left s) = true.
Proof.
  induction s as [|c r IH]; [reflexivity|]. cbn [trim_left]. destruct (is_space c) eqn:E; [assumption|].
  cbn. rewrite E. reflexivity.
Qed.

Lemma trim_right_ends : forall s, ends_nonspace (trim_right s) = true.
Proof.
  induction s as [|c r IH]; [reflexivity|]. cbn [trim_right].
  destruct (all_space (String c r)) eqn:E; [reflexivity|].
  cbn [all_space] in E. destruct r as [|d q].
  - cbn in *. rewrite andb_true_r in E. rewrite E. reflexivity.
  - cbn [trim_right] in *. destruct (all_space (String d q)) eqn:E2.
    + rewrite andb_true_r in E. cbn. rewrite E. reflexivity.
    + change (ends_nonspace (String c (String d (trim_right q)))) with (ends_nonspace (String d (trim_right q))).
      exact IH.
Qed.

Lemma trim_right_starts : forall s, starts_nonspace s = true -> starts_nonspace (trim_right s) = true.
Proof.
  intros [|c r] H; [reflexivity|]. cbn [trim_right]. destruct (all_space (String c r)); [reflexivity|exact H].
Qed.

Lemma s2u_starts : forall s, starts_nonspace s = true -> starts_nonspace (spaces_to_underscore s) = true.
Proof.
  intros [|c r] H; [reflexivity|]. rewrite s2u_cons. cbn in *. apply negb_true_iff in H.
  rewrite underscore_not_space by assumption. reflexivity.
Qed.
Lemma s2u_ends : forall s, ends_nonspace s = true -> ends_nonspace (spaces_to_underscore s) = true.
Proof.
  induction s as [|c r IH]; intros H; [reflexivity|]. rewrite s2u_cons.
  destruct r as [|d q].
  - cbn in *. apply negb_true_iff in H. rewrite underscore_not_space by assumption. reflexivity.
  - rewrite s2u_cons. rewrite s2u_cons in IH.
    change (ends_nonspace (String (underscore_of c) (String (underscore_of d) (spaces_to_underscore q))))
      with (ends_nonspace (String (underscore_of d) (spaces_to_underscore q))).
    apply IH. exact H.
Qed.

Theorem clear_spaces_idem : forall s, clear_spaces (clear_spaces s) = clear_spaces s.
Proof.
  intros s. unfold clear_spaces.
  set (t := trim_right (trim_left s)).
  assert (Hs : starts_nonspace t = true) by (apply trim_right_starts, trim_left_starts).
  assert (He : ends_nonspace t = true) by apply trim_right_ends.
  rewrite (trim_left_fix _ (s2u_starts _ Hs)).
  rewrite (trim_right_fix _ (s2u_ends _ He)).
  apply s2u_idem.
Qed.

(* ---- insertion sort by a strict total order is canonical on permutations ---- *)
From Coq Require Import Permutation.
From Acme.C10 Require Import BusModel.

Lemma In_insert_sorted_aux : forall {A} (ltb : A -> A -> bool) x y l, In x (insert_sorted ltb y l) -> x = y \/ In x l.
Proof.
  intros A ltb x y l. induction l as [|z r IH]; cbn.
  - intros [H|[]]; auto.
  - destruct (ltb z y); cbn; [|intuition]. intros [H|H]; [auto|]. apply IH in H. intuition.
Qed.

Section SortCanonical.
  Context {A : Type} (ltb : A -> A -> bool).
  Hypothesis ltb_trans : forall a b c, ltb a b = true -> ltb b c = true -> ltb a c = true.
  Hypothesis ltb_irrefl : forall a, ltb a a = false.
  Hypothesis ltb_total : forall a b, ltb a b = false -> ltb b a = false -> a = b.

  Fixpoint sorted (l : list A) : Prop :=
    match l with [] => True | x :: r => (forall y, In y r -> ltb y x = false) /\ sorted r end.

  Lemma ltb_asym : forall a b, ltb a b = true -> ltb b a = false.
  Proof.
    intros a b H. destruct (ltb b a) eqn:E; [|reflexivity].
    rewrite <- (ltb_irrefl a). symmetry. eapply ltb_trans; eauto.
  Qed.

  Lemma insert_sorted_sorted : forall x l, sorted l -> sorted (insert_sorted ltb x l).
  Proof.
    intros x l. induction l as [|y r IH]; intros Hs; cbn.
    - split; [intros y []|exact I].
    - destruct Hs as [Hy Hr]. destruct (ltb y x) eqn:E; cbn.
      + split; [|apply IH; assumption]. intros z Hz. apply (In_insert_sorted_aux ltb) in Hz.
        destruct Hz as [Hz|Hz]; [subst; apply ltb_asym; assumption|apply Hy; assumption].
      + split; [|split; assumption]. intros z [Hz|Hz]; [subst; assumption|].
        destruct (ltb z x) eqn:Ez; [|reflexivity]. exfalso.
        pose proof (Hy z Hz) as Hzy.
        destruct (ltb x y) eqn:Exy.
        * rewrite (ltb_trans z x y Ez Exy) in Hzy. discriminate.
        * assert (x = y) by (apply ltb_total; assumption). subst. congruence.
  Qed.

  Lemma sort_by_sorted : forall l, sorted (sort_by ltb l).
  Proof. induction l as [|x r IH]; cbn; [exact I|]. apply insert_sorted_sorted. assumption. Qed.

  Lemma insert_sorted_perm : forall x l, Permutation (x :: l) (insert_sorted ltb x l).
  Proof.
    intros x l. induction l as [|y r IH]; cbn; [reflexivity|].
    destruct (ltb y x); [|reflexivity]. rewrite perm_swap. constructor. assumption.
  Qed.
  Lemma sort_by_perm : forall l, Permutation l (sort_by ltb l).
  Proof.
    induction l as [|x r IH]; cbn; [constructor|].
    rewrite <- insert_sorted_perm. constructor. assumption.
  Qed.

  Lemma sorted_perm_eq : forall l l', sorted l -> sorted l' -> Permutation l l' -> l = l'.
  Proof.
    induction l as [|x r IH]; intros l' Hs Hs' Hp.
    - apply Permutation_nil in Hp. subst. reflexivity.
    - destruct l' as [|y r']; [apply Permutation_sym, Permutation_nil in Hp; discriminate|].
      destruct Hs as [Hx Hr]. destruct Hs' as [Hy Hr'].
      assert (x = y).
      { assert (Hin1 : In y (x :: r)) by (eapply Permutation_in; [apply Permutation_sym; exact Hp|left; reflexivity]).
        assert (Hin2 : In x (y :: r')) by (eapply Permutation_in; [exact Hp|left; reflexivity]).
        destruct Hin1 as [H|H]; [assumption|]. destruct Hin2 as [H2|H2]; [symmetry; assumption|].
        apply ltb_total; [apply Hy; assumption|apply Hx; assumption]. }
      subst y. f_equal. apply IH; try assumption. eapply Permutation_cons_inv; eauto.
  Qed.

  Lemma sort_by_perm_eq : forall l l', Permutation l l' -> sort_by ltb l = sort_by ltb l'.
  Proof.
    intros l l' Hp. apply sorted_perm_eq; try apply sort_by_sorted.
    rewrite <- (sort_by_perm l), <- (sort_by_perm l'). assumption.
  Qed.

  Lemma sorted_sort_id : forall l, sorted l -> sort_by ltb l = l.
  Proof.
    intros l Hs. apply sorted_perm_eq; [apply sort_by_sorted|assumption|].
    apply Permutation_sym, sort_by_perm.
  Qed.
End SortCanonical.

Lemma str_ltb_trans : forall a b c, str_ltb a b = true -> str_ltb b c = true -> str_ltb a c = true.
Proof.
  intros a b c. unfold str_ltb. 
  destruct (String.compare a b) eqn:E1; try discriminate.
  destruct (String.compare b c) eqn:E2; try discriminate. intros _ _.
  apply String_as_OT.cmp_lt in E1, E2.
  pose proof (String_as_OT.lt_trans _ _ _ E1 E2) as H. apply String_as_OT.cmp_lt in H.
  unfold String_as_OT.cmp in H. rewrite H. reflexivity.
Qed.
Lemma str_ltb_irrefl : forall a, str_ltb a a = false.
Proof.
  intros a. unfold str_ltb. replace (String.compare a a) with Eq; [reflexivity|].
  symmetry. apply String_as_OT.cmp_eq. reflexivity.
Qed.
Lemma str_ltb_total : forall a b, str_ltb a b = false -> str_ltb b a = false -> a = b.
Proof.
  intros a b. unfold str_ltb. rewrite (String.compare_antisym a b).
  destruct (String.compare b a) eqn:E; cbn; try discriminate; intros _ _.
  symmetry. apply String.compare_eq_iff. assumption.
Qed.

Lemma sort_str_perm_eq : forall l l', Permutation l l' -> sort_by str_ltb l = sort_by str_ltb l'.
Proof. apply sort_by_perm_eq; [apply str_ltb_trans|apply str_ltb_irrefl|apply str_ltb_total]. Qed.
