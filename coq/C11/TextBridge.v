(* C11 — composition with the C08 stream.  `export_import` is stated over `text_roundtrip`, the
   MODELLED effect of dbc.Write followed by dbc.Parse on the exporter's document.  C08 proves, on its
   own model of the real writer / lexer / parser (coq/C08), that a document embedded into its AST
   (`BridgeC10.doc_to_file`) is written to a text that the parser accepts, and that the file read back
   is the embedding of `text_roundtrip d`.  Here the two are composed for the buses of the merged
   fragment: the text the writer model produces from `export b` is accepted by the parser model, the
   file it yields has exactly the sections of the embedding of `text_roundtrip (export b)`, and the
   import of that document reproduces the projection of `b`.

   Hypotheses, all inherited (none new): C08's oracle laws for strconv (`oracle_ok`, finite doubles,
   the two facts about the 'f' text of doubles), `ud_ok`; per bus `doc_ok` (identifiers, strings and
   ranges of the exported document are DBC-expressible - the names_ok-style proviso on the document)
   and `defs_small` (integral float attribute values up to 2^53, non-negative hex values).
   `example_all_bus_doc_ok` / `example_all_bus_defs_small` show the per-bus hypotheses hold for the
   example bus of the merged fragment (multiplexers, enums, attributes of every kind). *)
From Coq Require Import Arith NArith ZArith List Bool String Lia.
From Acme.C10 Require DbcDoc Export BusModel Import.
From Acme.C08 Require DbcAst Chars DbcLex DbcParse DbcWrite Expr ProofsFormat ProofsSections ProofsFile ProofsGood ProofsRoundTrip BridgeC10 Examples.
From Acme.C11 Require RoundTripAll.
Import ListNotations.

Module A := Acme.C08.DbcAst.
Module B := Acme.C08.BridgeC10.
Module D := Acme.C10.DbcDoc.
Module E := Acme.C10.Export.
Module M := Acme.C10.BusModel.
Module I := Acme.C10.Import.
Module R := Acme.C11.RoundTripAll.

(* the file read back has the sections of [t] and none of the sections the exporter never emits *)
Definition same_sections (n t : A.file) : Prop :=
  A.f_afs n = A.f_afs t /\ A.f_avs n = A.f_avs t /\
  A.f_bu n = A.f_bu t /\ A.f_vts n = A.f_vts t /\ A.f_msgs n = A.f_msgs t /\ A.f_cms n = A.f_cms t /\
  A.f_ads n = A.f_ads t /\ A.f_ves n = A.f_ves t /\ A.f_xms n = A.f_xms t /\
  A.f_txs n = [] /\ A.f_evs n = [] /\ A.f_eds n = [] /\ A.f_sts n = [] /\ A.f_srs n = [] /\
  A.f_sgs n = [] /\ A.f_svs n = [].

Section Compose.
Variable fb : D.fl -> N.
Variable ud : N -> bool.
Variable fmt : N -> A.str.
Variable prs : A.str -> option N.
Hypothesis Hud : Acme.C08.Expr.ud_ok ud.
Hypothesis Hor : Acme.C08.Expr.oracle_ok fmt prs.
Hypothesis Hfin : forall f, Acme.C08.Expr.fin (fb f) = true.
Hypothesis Hdec : forall f, D.fl_is_decimal f = true -> Acme.C08.DbcParse.has_dot (fmt (fb f)) = true.
Hypothesis Hint : forall f, D.fl_is_decimal f = false -> (Z.abs (E.fl_to_Z f) <= 9007199254740992)%Z ->
  fmt (fb f) = Acme.C08.DbcWrite.format_int (E.fl_to_Z f).

(* any document: written text accepted, sections = embedding of text_roundtrip *)
Lemma doc_text_reparsed : forall d, B.doc_ok (Acme.C08.DbcLex.peek_digits ud) d -> B.defs_small d ->
  exists f, Acme.C08.DbcParse.parse ud prs false (Acme.C08.DbcWrite.write fmt false (B.doc_to_file fb d)) = Acme.C08.DbcParse.OOk f
         /\ same_sections f (B.doc_to_file fb (E.text_roundtrip d)).
Proof.
  intros d Hok Hsm. eexists. split.
  - apply B.exporter_round_trip; eassumption.
  - exact (B.text_roundtrip_is_norm fb fmt Hdec Hint d Hsm).
Qed.

Lemma export_text_import : forall b, R.ambus b ->
  B.doc_ok (Acme.C08.DbcLex.peek_digits ud) (E.export b) -> B.defs_small (E.export b) ->
  exists f b',
    Acme.C08.DbcParse.parse ud prs false (Acme.C08.DbcWrite.write fmt false (B.doc_to_file fb (E.export b))) = Acme.C08.DbcParse.OOk f
    /\ same_sections f (B.doc_to_file fb (E.text_roundtrip (E.export b)))
    /\ I.import (E.text_roundtrip (E.export b)) = M.Ok b' /\ M.proj_bus b' = M.proj_bus b.
Proof.
  intros b Hb Hok Hsm.
  destruct (doc_text_reparsed _ Hok Hsm) as [f [Hp Hs]].
  destruct (R.export_import_all_thm b Hb) as [b' [Hi Hpr]].
  exists f, b'. repeat split; try assumption; try (apply Hs).
Qed.
End Compose.

