(* C12 — a builder: the public constructors / mutators of acmelib that the harness generator
   `genFlat` (props/C12/harness/genflat.go) calls, as total functions on a builder state that
   return `None` where the Go call returns an error (or where the call is outside the usage
   discipline below).  `build e ops` is the network reached by the call sequence `ops`;
   `coq/C13/ProofsBuilder.v` proves `built_wf : build e ops = Some n -> wfb n = true` by induction
   over `ops`, so the hypothesis `wfb` of `load_save` is reachable through these calls and not
   only a free-standing predicate.

   One op = the Go calls named next to it.  The checks are the ones the Go mutators perform and are
   the very functions the loader model uses for the same mutators (coq/C12/Load.v:
   `msg_insert_signal`, `add_sent_message`, `add_node_interface`, `load_receiver`, `load_assign`).

   Covered (exactly): attributes of the four types, signal types, units, enums with values, nodes,
   CAN-ID builders, buses with attribute assignments and a builder, node interfaces, messages with
   every scalar field, static CAN-IDs, receivers and attribute assignments, standard and enum
   signals with attribute assignments inserted at any position.  NOT covered: multiplexer signals;
   removals / renames / any mutator not listed.

   Usage discipline (what the state machine enforces; calls outside it give `None`):
   * definitions (attributes, types, units, enums, nodes) before the first bus (CAN-ID builders at any time);
   * objects are built detached and attached bottom-up, each exactly once: signals into the detached
     message, the message into the detached interface, the interface into the detached bus, the bus
     into the network (the order LoadNetwork itself uses); attaching twice is finding D20 of C05;
   * receivers are added right after `AddSentMessage` (the sender must be known for Go's
     receiver-is-sender check to see it);
   * message sizes are not negative.
   Entity ids: Go draws them from nanoid; here they are carried by the ops, a signal whose id is
   already in the message is refused by `OInsertSignal` (same id = same Go object = same name, which
   Go refuses).  That the id source never repeats an id is a HYPOTHESIS of `built_wf` (`ids_fresh`: the ids
   supplied by the ops are pairwise distinct), not a check of `build`. *)
From Coq Require Import ZArith List String Bool.
From Acme.C12 Require Import Proto NetModel Load.
Import ListNotations.
Open Scope Z_scope.

Record bstate := {
  bs_net : net;                 (* the network: definitions, buses added so far *)
  bs_bus : option bus;          (* NewBus ... not yet AddBus *)
  bs_iface : option iface;      (* Node.GetInterface ... not yet AddNodeInterface *)
  bs_msg : option msg           (* NewMessage ... not yet AddSentMessage *)
}.

Inductive op :=
| ODefAttr (e : entity) (b : attrbody)      (* NewStringAttribute / NewIntegerAttribute (+SetFormatHex) / NewFloatAttribute / NewEnumAttribute(values...) *)
| ODefType (t : sigtype)                    (* NewFlagSignalType / NewIntegerSignalType / NewDecimalSignalType / NewCustomSignalType (+SetScale, SetOffset) *)
| ODefUnit (u : sigunit)                    (* NewSignalUnit *)
| ODefEnum (e : entity) (vals : list (entity * Z)) (minsize : Z)   (* NewSignalEnum, AddValue(NewSignalEnumValue)..., SetMinSize *)
| ODefNode (e : entity) (id ifcount : Z) (asg : list assign)       (* NewNode, AssignAttribute... *)
| ODefBuilder (b : builder)                 (* NewCANIDBuilder + operations (no checks relevant here); also the builder NewBus creates *)
| ONewMessage (hdr : msg) (asg : list assign)   (* NewMessage, SetStaticCANID, SetPriority, ..., AssignAttribute... *)
| OInsertSignal (s : sig) (asg : list assign) (pos : Z)   (* NewStandardSignal (+SetUnit) / NewEnumSignal, setters, AssignAttribute..., Message.InsertSignal *)
| ONewIface (node : string) (number : Z)    (* Node.GetInterface *)
| OAddSentMessage (recs : list (string * Z))    (* NodeInterface.AddSentMessage, then Message.AddReceiver... *)
| ONewBus (e : entity) (baud : Z) (builder : string) (asg : list assign)   (* NewBus, SetBaudrate, SetCANIDBuilder, AssignAttribute... *)
| OAddNodeInterface                         (* Bus.AddNodeInterface *)
| OAddBus.                                  (* Network.AddBus *)

Definition passign_of (a : assign) : PAssign :=
  {| pas_entity_id := EmptyString; pas_attr_id := as_attr a;
     pas_val := match as_val a with AVStr s => PAVString s | AVInt z => PAVInt z | AVFlt f => PAVDouble f end |}.

(* AssignAttribute, call by call *)
Definition assign_all (attrs : list attr) (l : list assign) : option (list assign) :=
  match load_assigns attrs (map passign_of l) with Ok r => Some r | Err _ => None end.

Definition idle (st : bstate) : bool :=
  match bs_bus st, bs_iface st, bs_msg st with None, None, None => true | _, _, _ => false end.
Definition defs_phase (st : bstate) : bool :=
  idle st && match n_buses (bs_net st) with [] => true | _ => false end.

Definition with_net (st : bstate) (n : net) : bstate :=
  {| bs_net := n; bs_bus := bs_bus st; bs_iface := bs_iface st; bs_msg := bs_msg st |}.

(* constructors of attributes: attribute.go new*AttributeFromBase *)
Definition new_attr (e : entity) (b : attrbody) : option attr :=
  match b with
  | ABString d => Some {| at_ent := e; at_body := ABString d |}
  | ABInt d mn mx hex =>
      if (mn >? mx) || (d >? mx) || (d <? mn) then None else Some {| at_ent := e; at_body := ABInt d mn mx hex |}
  | ABFloat d mn mx =>
      if f_gt mn mx || f_gt d mx || f_lt d mn then None else Some {| at_ent := e; at_body := ABFloat d mn mx |}
  | ABEnum _ vals =>
      match vals with
      | [] => None
      | v :: _ => Some {| at_ent := e; at_body := ABEnum v (dedup_str vals) |}
      end
  end.

(* SignalEnum.AddValue: index and name unused so far *)
Definition add_value (cur : list (entity * Z)) (v : entity * Z) : option (list (entity * Z)) :=
  if existsb (Z.eqb (snd v)) (map snd cur) then None
  else if memb (e_name (fst v)) (map (fun x => e_name (fst x)) cur) then None
  else Some (cur ++ [v]).

Fixpoint fold_opt {S X} (f : S -> X -> option S) (s : S) (l : list X) : option S :=
  match l with
  | [] => Some s
  | x :: r => match f s x with Some s' => fold_opt f s' r | None => None end
  end.

Definition is_flat (s : sig) : bool := match s with SMux _ _ _ _ => false | _ => true end.

Definition set_attrs (s : sig) (asg : list assign) : sig :=
  let h' h := {| sh_ent := sh_ent h; sh_send := sh_send h; sh_start := sh_start h; sh_attrs := asg; sh_pos := sh_pos h |} in
  match s with
  | SStd h t u => SStd (h' h) t u
  | SEnum h e => SEnum (h' h) e
  | SMux h c z g => SMux (h' h) c z g
  end.

(* the references of a standard / enum signal: Go holds pointers (a nil type / enum is refused) *)
Definition refs_resolve (ev : env) (s : sig) : bool :=
  match s with
  | SStd _ t u =>
      (match find_key type_key t (ev_types ev) with Some _ => true | None => false end) &&
      (String.eqb u EmptyString || match find_key unit_key u (ev_units ev) with Some _ => true | None => false end)
  | SEnum _ e => match find_key enum_key e (ev_enums ev) with Some _ => true | None => false end
  | SMux _ _ _ _ => false
  end.

Definition prec_of (r : string * Z) : PReceiver := {| prc_node := fst r; prc_number := snd r |}.

Definition set_tables (n : net) (bl : list builder) (nd : list node) (ty : list sigtype) (un : list sigunit)
                      (en : list sigenum) (at_ : list attr) : net :=
  {| n_ent := n_ent n; n_buses := n_buses n; n_builders := bl; n_nodes := nd; n_types := ty; n_units := un;
     n_enums := en; n_attrs := at_ |}.

Definition step (st : bstate) (o : op) : option bstate :=
  let n := bs_net st in
  let ev := net_env n in
  match o with
  | ODefAttr e b =>
      if negb (defs_phase st) then None else
      match new_attr e b with
      | Some a => Some (with_net st (set_tables n (n_builders n) (n_nodes n) (n_types n) (n_units n) (n_enums n) (n_attrs n ++ [a])))
      | None => None
      end
  | ODefType t =>
      if negb (defs_phase st) then None else
      if st_size t <? 1 then None
      else Some (with_net st (set_tables n (n_builders n) (n_nodes n) (n_types n ++ [t]) (n_units n) (n_enums n) (n_attrs n)))
  | ODefUnit u =>
      if negb (defs_phase st) then None else
      Some (with_net st (set_tables n (n_builders n) (n_nodes n) (n_types n) (n_units n ++ [u]) (n_enums n) (n_attrs n)))
  | ODefEnum e vals minsize =>
      if negb (defs_phase st) then None else
      match fold_opt add_value [] vals with
      | Some vs => Some (with_net st (set_tables n (n_builders n) (n_nodes n) (n_types n) (n_units n)
                                        (n_enums n ++ [{| se_ent := e; se_values := vs; se_minsize := minsize |}]) (n_attrs n)))
      | None => None
      end
  | ODefNode e id ifcount asg =>
      if negb (defs_phase st) then None else
      match assign_all (n_attrs n) asg with
      | Some a => Some (with_net st (set_tables n (n_builders n)
                                       (n_nodes n ++ [{| nd_ent := e; nd_id := id; nd_ifcount := ifcount; nd_attrs := a |}])
                                       (n_types n) (n_units n) (n_enums n) (n_attrs n)))
      | None => None
      end
  | ODefBuilder b =>
      (* at any time: NewBus creates the builder of the bus *)
      Some (with_net st (set_tables n (n_builders n ++ [b]) (n_nodes n) (n_types n) (n_units n) (n_enums n) (n_attrs n)))
  | ONewMessage hdr asg =>
      match bs_msg st with
      | Some _ => None
      | None =>
          if m_size hdr <? 0 then None else
          match assign_all (n_attrs n) asg with
          | None => None
          | Some a =>
              Some {| bs_net := n; bs_bus := bs_bus st; bs_iface := bs_iface st;
                      bs_msg := Some {| m_ent := m_ent hdr;
                                        m_id := if m_has_static hdr then m_static hdr else m_id hdr;
                                        m_size := m_size hdr;
                                        m_static := if m_has_static hdr then m_static hdr else 0;
                                        m_has_static := m_has_static hdr;
                                        m_prio := m_prio hdr; m_bo := m_bo hdr; m_cycle := m_cycle hdr; m_send := m_send hdr;
                                        m_delay := m_delay hdr; m_startdelay := m_startdelay hdr;
                                        m_receivers := []; m_signals := []; m_attrs := a |} |}
          end
      end
  | OInsertSignal s asg pos =>
      match bs_msg st with
      | None => None
      | Some m =>
          if negb (is_flat s) then None else
          if negb (refs_resolve ev s) then None else
          if memb (sig_id s) (map sig_id (m_signals m)) then None else
          match assign_all (n_attrs n) asg with
          | None => None
          | Some a =>
              match msg_insert_signal ev (m_size m * 8) (m_signals m) (set_attrs s a) pos with
              | Err _ => None
              | Ok sigs =>
                  Some {| bs_net := n; bs_bus := bs_bus st; bs_iface := bs_iface st;
                          bs_msg := Some {| m_ent := m_ent m; m_id := m_id m; m_size := m_size m; m_static := m_static m;
                                            m_has_static := m_has_static m; m_prio := m_prio m; m_bo := m_bo m;
                                            m_cycle := m_cycle m; m_send := m_send m; m_delay := m_delay m;
                                            m_startdelay := m_startdelay m; m_receivers := m_receivers m;
                                            m_signals := sigs; m_attrs := m_attrs m |} |}
              end
          end
      end
  | ONewIface node number =>
      match bs_iface st with
      | Some _ => None
      | None =>
          match find_key node_key node (ev_nodes ev) with
          | None => None
          | Some nd =>
              if (number <? 0) || (number >=? nd_ifcount nd) then None
              else Some {| bs_net := n; bs_bus := bs_bus st;
                           bs_iface := Some {| if_node := node; if_number := number; if_msgs := [] |}; bs_msg := bs_msg st |}
          end
      end
  | OAddSentMessage recs =>
      match bs_iface st, bs_msg st with
      | Some i, Some m =>
          match add_sent_message (if_msgs i) m with
          | Err _ => None
          | Ok _ =>
              match foldM (load_receiver ev (if_node i, if_number i)) [] (map prec_of recs) with
              | Err _ => None
              | Ok rs =>
                  let m' := {| m_ent := m_ent m; m_id := m_id m; m_size := m_size m; m_static := m_static m;
                               m_has_static := m_has_static m; m_prio := m_prio m; m_bo := m_bo m;
                               m_cycle := m_cycle m; m_send := m_send m; m_delay := m_delay m;
                               m_startdelay := m_startdelay m; m_receivers := rs;
                               m_signals := m_signals m; m_attrs := m_attrs m |} in
                  Some {| bs_net := n; bs_bus := bs_bus st;
                          bs_iface := Some {| if_node := if_node i; if_number := if_number i; if_msgs := if_msgs i ++ [m'] |};
                          bs_msg := None |}
              end
          end
      | _, _ => None
      end
  | ONewBus e baud builder asg =>
      match bs_bus st with
      | Some _ => None
      | None =>
          match find_key builder_key builder (n_builders n), assign_all (n_attrs n) asg with
          | Some _, Some a =>
              Some {| bs_net := n;
                      bs_bus := Some {| b_ent := e; b_baud := baud; b_type := 0; b_builder := builder; b_ifaces := []; b_attrs := a |};
                      bs_iface := bs_iface st; bs_msg := bs_msg st |}
          | _, _ => None
          end
      end
  | OAddNodeInterface =>
      match bs_bus st, bs_iface st, bs_msg st with
      | Some b, Some i, None =>
          (* the interface is not attached to any bus yet (attaching twice: D20) *)
          if existsb (fun k : string * Z => String.eqb (fst k) (if_node i) && (snd k =? if_number i))
                     (map (fun x => (if_node x, if_number x)) (all_ifaces n ++ b_ifaces b)) then None
          else
            match add_node_interface ev (b_ifaces b) i with
            | Err _ => None
            | Ok cur =>
                Some {| bs_net := n;
                        bs_bus := Some {| b_ent := b_ent b; b_baud := b_baud b; b_type := b_type b; b_builder := b_builder b;
                                          b_ifaces := cur; b_attrs := b_attrs b |};
                        bs_iface := None; bs_msg := None |}
            end
      | _, _, _ => None
      end
  | OAddBus =>
      match bs_bus st, bs_iface st, bs_msg st with
      | Some b, None, None =>
          if memb (e_name (b_ent b)) (map (fun x => e_name (b_ent x)) (n_buses n)) then None
          else Some {| bs_net := {| n_ent := n_ent n; n_buses := n_buses n ++ [b]; n_builders := n_builders n;
                                    n_nodes := n_nodes n; n_types := n_types n; n_units := n_units n;
                                    n_enums := n_enums n; n_attrs := n_attrs n |};
                       bs_bus := None; bs_iface := None; bs_msg := None |}
      | _, _, _ => None
      end
  end.

(* NewNetwork *)
Definition init (e : entity) : bstate :=
  {| bs_net := {| n_ent := e; n_buses := []; n_builders := []; n_nodes := []; n_types := []; n_units := [];
                  n_enums := []; n_attrs := [] |};
     bs_bus := None; bs_iface := None; bs_msg := None |}.

Definition build (e : entity) (ops : list op) : option net :=
  match fold_opt step (init e) ops with
  | Some st => Some (bs_net st)
  | None => None
  end.

(* the entity ids the environment supplies: one per created entity (Go: nanoid, drawn inside the constructors).
   `built_wf` assumes them pairwise distinct (`ids_fresh`), it does not check it. *)
Definition op_ids (o : op) : list string :=
  match o with
  | ODefAttr e _ => [e_id e]
  | ODefType t => [type_key t]
  | ODefUnit u => [unit_key u]
  | ODefEnum e vals _ => e_id e :: map (fun v : entity * Z => e_id (fst v)) vals
  | ODefNode e _ _ _ => [e_id e]
  | ODefBuilder b => [builder_key b]
  | ONewMessage hdr _ => [e_id (m_ent hdr)]
  | OInsertSignal s _ _ => [sig_id s]
  | ONewBus e _ _ _ => [e_id e]
  | ONewIface _ _ | OAddSentMessage _ | OAddNodeInterface | OAddBus => []
  end.
Definition supplied_ids (e : entity) (ops : list op) : list string := e_id e :: flat_map op_ids ops.
Definition ids_fresh (e : entity) (ops : list op) : Prop := NoDup (supplied_ids e ops).
