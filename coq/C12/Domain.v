(* C12 — `in_domain`: the value ranges the save format can carry.  Outside it the round trip is
   not claimed (the saver narrows Go ints to uint32 / int32, the loader cannot tell a missing
   from a zero field, and a negative-zero start value is read back as +0). *)
From Coq Require Import ZArith List String Bool.
From Acme.C12 Require Import Proto NetModel.
Import ListNotations.
Open Scope Z_scope.

Definition u32_ok (z : Z) : bool := (0 <=? z) && (z <? 4294967296).
Definition i32_ok (z : Z) : bool := (-2147483648 <=? z) && (z <? 2147483648).
Definition in_range (lo hi z : Z) : bool := (lo <=? z) && (z <=? hi).

Definition ent_dom (e : entity) : bool := time_valid (e_time e).
Definition assign_dom (a : assign) : bool := match as_val a with AVInt z => i32_ok z | _ => true end.

Definition head_dom (h : sighead) : bool :=
  ent_dom (sh_ent h) && in_range 0 7 (sh_send h) && negb (sh_start h =? two63) &&
  forallb assign_dom (sh_attrs h) && u32_ok (sh_pos h).

Fixpoint sig_dom (s : sig) : bool :=
  head_dom (sig_head s) &&
  match s with
  | SMux _ c z groups => u32_ok c && u32_ok z && forallb (fun g => forallb (fun x : bool * sig => sig_dom (snd x)) g) groups
  | _ => true
  end.

Definition msg_dom (m : msg) : bool :=
  ent_dom (m_ent m) && u32_ok (m_id m) && u32_ok (m_size m) && u32_ok (m_static m) &&
  in_range 0 3 (m_prio m) && in_range 0 1 (m_bo m) && u32_ok (m_cycle m) && in_range 0 4 (m_send m) &&
  u32_ok (m_delay m) && u32_ok (m_startdelay m) &&
  forallb (fun r => u32_ok (snd r)) (m_receivers m) && forallb sig_dom (m_signals m) && forallb assign_dom (m_attrs m).

Definition iface_dom (i : iface) : bool := i32_ok (if_number i) && forallb msg_dom (if_msgs i).

Definition bus_dom (b : bus) : bool :=
  ent_dom (b_ent b) && u32_ok (b_baud b) && (b_type b =? 0) && forallb iface_dom (b_ifaces b) && forallb assign_dom (b_attrs b).

Definition builder_dom (b : builder) : bool :=
  ent_dom (cb_ent b) && forallb (fun o => let '(k, f, l) := o in in_range 0 3 k && u32_ok f && u32_ok l) (cb_ops b).
Definition node_dom (n : node) : bool :=
  ent_dom (nd_ent n) && u32_ok (nd_id n) && u32_ok (nd_ifcount n) && forallb assign_dom (nd_attrs n).
Definition type_dom (t : sigtype) : bool := ent_dom (st_ent t) && in_range 0 3 (st_kind t) && u32_ok (st_size t).
Definition unit_dom (u : sigunit) : bool := ent_dom (su_ent u) && in_range 0 3 (su_kind u).
Definition enum_dom (e : sigenum) : bool :=
  ent_dom (se_ent e) && in_range 1 4294967295 (se_minsize e) &&
  forallb (fun v => ent_dom (fst v) && u32_ok (snd v)) (se_values e).
Definition attr_dom (a : attr) : bool :=
  ent_dom (at_ent a) &&
  match at_body a with ABInt d mn mx _ => i32_ok d && i32_ok mn && i32_ok mx | _ => true end.

Definition in_domain (n : net) : bool :=
  ent_dom (n_ent n) && forallb bus_dom (n_buses n) && forallb builder_dom (n_builders n) &&
  forallb node_dom (n_nodes n) && forallb type_dom (n_types n) && forallb unit_dom (n_units n) &&
  forallb enum_dom (n_enums n) && forallb attr_dom (n_attrs n).
