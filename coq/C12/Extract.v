(* Extraction of the executable C12/C13 model for the correspondence check.
   ExtrOcamlBasic + ExtrOcamlString only; Z / positive stay inductive. *)
From Coq Require Import Extraction ExtrOcamlBasic ExtrOcamlString ZArith List String.
From Acme.C12 Require Import Proto NetModel Save Load Proj Domain Builder Received.
Extraction Language OCaml.
Extraction "extracted/c12_model.ml" save load wfb in_domain prune canon save_outputs selected build supplied_ids received_rel.
