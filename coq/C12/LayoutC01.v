(* C12/C13 — the layouts demanded by `wfb` are well-formed in the sense of C01: every message payload and every
   group of every multiplexer (at any depth) of a `wfb` network satisfies `Acme.C01.Layout.wfb`, the SAME boolean
   layout predicate about which C01 proves its theorems (sorted by start bit, pairwise disjoint, every length >= 1,
   inside the size).  So "a network satisfying the model invariants" (C13) / the hypothesis `wfb` (C12) speak about
   layouts with the predicate of C01, not with a private restatement.  (Acme.C01.Layout is imported read-only.) *)
From Coq Require Import ZArith List String Bool Lia.
From Acme.C01 Require Layout.
From Acme.C12 Require Import NetModel Lemmas.
Import ListNotations.
Open Scope Z_scope.

(* a layout of this model as a C01 view: handle = index in the list, start = relative start bit, len = size *)
Fixpoint items_from (ev : env) (k : nat) (l : list sig) : list Layout.item :=
  match l with
  | [] => []
  | s :: r => (k, sig_pos s, sig_size ev s) :: items_from ev (S k) r
  end.
Definition items (ev : env) (l : list sig) : list Layout.item := items_from ev 0 l.

Lemma layout_okb_from_le : forall ev L l from, layout_okb ev L from l = true -> from <= L.
Proof.
  intros ev L l; induction l as [|t r IH]; intros from H; cbn in H.
  - now apply Z.leb_le.
  - apply andb_true_iff in H. destruct H as [H H3]. apply andb_true_iff in H. destruct H as [H1 H2].
    apply Z.leb_le in H1, H2. specialize (IH _ H3). lia.
Qed.

Lemma layout_okb_c01_from : forall ev L l from k,
  layout_okb ev L from l = true -> Layout.wfb_from from L (items_from ev k l) = true.
Proof.
  intros ev L l; induction l as [|t r IH]; intros from k H; cbn in *; [reflexivity|].
  apply andb_true_iff in H. destruct H as [H H3]. apply andb_true_iff in H. destruct H as [H1 H2].
  unfold Layout.i_start, Layout.i_len, Layout.i_end; cbn.
  rewrite H1, H2. cbn. rewrite (IH _ (S k) H3), andb_true_r.
  apply Z.leb_le. eapply layout_okb_from_le; eauto.
Qed.

Lemma layout_okb_c01 : forall ev L l, layout_okb ev L 0 l = true -> Layout.wfb L (items ev l) = true.
Proof. intros. unfold Layout.wfb, items. now apply layout_okb_c01_from. Qed.

(* every group of every multiplexer below a signal *)
Fixpoint sig_c01_okb (ev : env) (s : sig) : bool :=
  match s with
  | SMux _ _ z groups =>
      forallb (fun g => Layout.wfb z (items ev (map snd g)) &&
                        forallb (fun x : bool * sig => sig_c01_okb ev (snd x)) g) groups
  | _ => true
  end.

Definition msg_c01_okb (ev : env) (m : msg) : bool :=
  Layout.wfb (m_size m * 8) (items ev (m_signals m)) && forallb (sig_c01_okb ev) (m_signals m).

Definition net_c01_okb (n : net) : bool :=
  forallb (msg_c01_okb (net_env n)) (flat_map if_msgs (flat_map b_ifaces (n_buses n))).

Lemma sig_okb_c01 : forall ev s, sig_okb ev s = true -> sig_c01_okb ev s = true.
Proof.
  intros ev s. induction s as [h t u|h e|h c z groups IH] using sig_ind'; intros Hok; [reflexivity|reflexivity|].
  cbn in Hok. apply andb_true_iff in Hok. destruct Hok as [_ Hok].
  apply andb_true_iff in Hok. destruct Hok as [_ K].
  cbn. apply forallb_forall. intros g Hg. rewrite forallb_forall in K. specialize (K g Hg).
  apply andb_true_iff in K. destruct K as [Kl Ks]. rewrite (layout_okb_c01 _ _ _ Kl). cbn.
  apply forallb_forall. intros x Hx. rewrite Forall_forall in IH. specialize (IH g Hg). rewrite Forall_forall in IH.
  apply (IH x Hx). rewrite forallb_forall in Ks. auto.
Qed.

Theorem wfb_layouts_c01_lemma : forall n, wfb n = true -> net_c01_okb n = true.
Proof.
  intros n H. unfold wfb, wfb_gen in H.
  repeat (apply andb_true_iff in H; let K := fresh "W" in destruct H as [H K]).
  unfold net_c01_okb. apply forallb_forall. intros m Hm.
  apply in_flat_map in Hm. destruct Hm as (i & Hi & Hm). apply in_flat_map in Hi. destruct Hi as (b & Hb & Hi).
  rewrite forallb_forall in W4. specialize (W4 b Hb). unfold bus_okb in W4.
  repeat (apply andb_true_iff in W4; let K := fresh "B" in destruct W4 as [W4 K]).
  rewrite forallb_forall in B3. specialize (B3 i Hi). unfold iface_okb in B3.
  repeat (apply andb_true_iff in B3; let K := fresh "I" in destruct B3 as [B3 K]).
  rewrite forallb_forall in I2. specialize (I2 m Hm).
  unfold msg_okb in I2. apply andb_true_iff in I2. destruct I2 as [_ S]. unfold msg_sigs_okb in S.
  repeat (apply andb_true_iff in S; let K := fresh "S" in destruct S as [S K]).
  unfold msg_c01_okb. rewrite (layout_okb_c01 _ _ _ S). cbn.
  apply forallb_forall. intros s Hs. apply sig_okb_c01. rewrite forallb_forall in S3. auto.
Qed.
