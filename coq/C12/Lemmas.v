(* C12/C13 — generic facts about the list helpers of NetModel.v / Load.v. *)
From Coq Require Import ZArith List String Bool Lia.
From Acme.C12 Require Import Proto NetModel Load.
Import ListNotations.
Open Scope Z_scope.

(* ---------------------------------------------------------------- results / monadic folds *)
Lemma bind_ok : forall {A B} (r : result A) (f : A -> result B) b,
  bind r f = Ok b -> exists a, r = Ok a /\ f a = Ok b.
Proof. intros A B [a|c] f b H; cbn in H; [eauto|discriminate]. Qed.

Ltac bind_inv H :=
  let a := fresh "a" in let Ha := fresh "Ha" in
  apply bind_ok in H; destruct H as (a & Ha & H).

Lemma mapM_ok : forall {A B} (f : A -> result B) l l',
  mapM f l = Ok l' -> Forall2 (fun a b => f a = Ok b) l l'.
Proof.
  intros A B f l; induction l as [|a r IH]; intros l' H; cbn in H.
  - inversion H; constructor.
  - bind_inv H. bind_inv H. inversion H; subst. constructor; auto.
Qed.

Lemma mapM_all : forall {A B} (f : A -> result B) (P : B -> Prop) l l',
  (forall a b, In a l -> f a = Ok b -> P b) -> mapM f l = Ok l' -> Forall P l'.
Proof.
  intros A B f P l l' HP H. apply mapM_ok in H.
  induction H; constructor.
  - eapply HP; eauto using in_eq.
  - apply IHForall2. intros; eapply HP; eauto using in_cons.
Qed.

Lemma foldM_inv : forall {A S} (f : S -> A -> result S) (P : S -> Prop) l s0 s,
  (forall s a s', In a l -> P s -> f s a = Ok s' -> P s') -> P s0 -> foldM f s0 l = Ok s -> P s.
Proof.
  intros A S f P l; induction l as [|a r IH]; intros s0 s Hstep H0 H; cbn in H.
  - inversion H; subst; auto.
  - bind_inv H. eapply IH; [| |exact H].
    + intros; eapply Hstep; eauto using in_cons.
    + eapply Hstep; eauto using in_eq.
Qed.

(* ---------------------------------------------------------------- membership / nodup *)
Lemma memb_In : forall x l, memb x l = true <-> In x l.
Proof.
  intros x l; unfold memb; rewrite existsb_exists; split.
  - intros (y & Hy & E). apply String.eqb_eq in E; subst; auto.
  - intros H; exists x; split; auto. apply String.eqb_refl.
Qed.

Lemma memb_false : forall x l, memb x l = false <-> ~ In x l.
Proof. intros; rewrite <- memb_In. destruct (memb x l); split; congruence. Qed.

Lemma memb_app : forall x a b, memb x (a ++ b) = memb x a || memb x b.
Proof. intros; unfold memb; apply existsb_app. Qed.

Lemma nodupb_NoDup : forall l, nodupb l = true <-> NoDup l.
Proof.
  induction l as [|x r IH]; cbn.
  - split; auto using NoDup_nil.
  - rewrite andb_true_iff, negb_true_iff, memb_false, IH. split.
    + intros [A B]; constructor; auto.
    + intros H; inversion H; auto.
Qed.

Lemma nodupb_snoc : forall l x, nodupb l = true -> memb x l = false -> nodupb (l ++ [x]) = true.
Proof.
  intros l x H1 H2. apply nodupb_NoDup. apply nodupb_NoDup in H1. apply memb_false in H2.
  apply NoDup_rev in H1. rewrite <- (rev_involutive (l ++ [x])). apply NoDup_rev.
  rewrite rev_app_distr; cbn. constructor; auto. rewrite <- in_rev; auto.
Qed.

Lemma zmem_In : forall x l, existsb (Z.eqb x) l = true <-> In x l.
Proof.
  intros x l; rewrite existsb_exists; split.
  - intros (y & Hy & E). apply Z.eqb_eq in E; subst; auto.
  - intros H; exists x; split; auto. apply Z.eqb_refl.
Qed.

Lemma znodupb_NoDup : forall l, znodupb l = true <-> NoDup l.
Proof.
  induction l as [|x r IH]; cbn.
  - split; auto using NoDup_nil.
  - rewrite andb_true_iff, negb_true_iff, IH. split.
    + intros [A B]; constructor; auto. rewrite <- zmem_In. congruence.
    + intros H; inversion H; subst; split; auto.
      destruct (existsb (Z.eqb x) r) eqn:E; auto. apply zmem_In in E; contradiction.
Qed.

Lemma NoDup_snoc : forall {A} (l : list A) x, NoDup l -> ~ In x l -> NoDup (l ++ [x]).
Proof.
  intros A l x H1 H2. apply NoDup_rev in H1. rewrite <- (rev_involutive (l ++ [x])). apply NoDup_rev.
  rewrite rev_app_distr; cbn. constructor; auto. rewrite <- in_rev; auto.
Qed.

Lemma znodupb_snoc : forall l x, znodupb l = true -> existsb (Z.eqb x) l = false -> znodupb (l ++ [x]) = true.
Proof.
  intros l x H1 H2. apply znodupb_NoDup. apply znodupb_NoDup in H1. apply NoDup_snoc; auto.
  rewrite <- zmem_In; congruence.
Qed.

Definition pair_eqb (x y : string * Z) : bool := String.eqb (fst x) (fst y) && (snd x =? snd y).

Lemma pair_eqb_eq : forall x y, pair_eqb x y = true <-> x = y.
Proof.
  intros [a b] [c d]; unfold pair_eqb; cbn. rewrite andb_true_iff, String.eqb_eq, Z.eqb_eq.
  split; [intros [-> ->]; auto | intros H; inversion H; auto].
Qed.

Lemma pair_mem_In : forall x l, existsb (pair_eqb x) l = true <-> In x l.
Proof.
  intros x l; rewrite existsb_exists; split.
  - intros (y & Hy & E). apply pair_eqb_eq in E; subst; auto.
  - intros H; exists x; split; auto. apply pair_eqb_eq; auto.
Qed.

Lemma pair_nodupb_NoDup : forall l, pair_nodupb l = true <-> NoDup l.
Proof.
  induction l as [|x r IH]; cbn.
  - split; auto using NoDup_nil.
  - change (existsb (fun y : string * Z => String.eqb (fst x) (fst y) && (snd x =? snd y)) r)
      with (existsb (pair_eqb x) r).
    rewrite andb_true_iff, negb_true_iff, IH. split.
    + intros [A B]; constructor; auto. rewrite <- pair_mem_In. congruence.
    + intros H; inversion H; subst; split; auto.
      destruct (existsb (pair_eqb x) r) eqn:E; auto. apply pair_mem_In in E; contradiction.
Qed.

(* ---------------------------------------------------------------- find_key *)
Lemma find_key_Some : forall {A} (key : A -> string) k l a,
  find_key key k l = Some a -> In a l /\ key a = k.
Proof.
  intros A key k l; induction l as [|b r IH]; intros a H; cbn in H; [discriminate|].
  destruct (String.eqb (key b) k) eqn:E.
  - inversion H; subst. apply String.eqb_eq in E. auto using in_eq.
  - destruct (IH _ H); auto using in_cons.
Qed.

Lemma find_key_None : forall {A} (key : A -> string) k l,
  find_key key k l = None <-> ~ In k (map key l).
Proof.
  intros A key k l; induction l as [|b r IH]; cbn; [tauto|].
  destruct (String.eqb (key b) k) eqn:E.
  - apply String.eqb_eq in E. split; [discriminate | intros H; exfalso; apply H; auto].
  - apply String.eqb_neq in E. rewrite IH. tauto.
Qed.

Lemma find_key_In_nodup : forall {A} (key : A -> string) l a,
  NoDup (map key l) -> In a l -> find_key key (key a) l = Some a.
Proof.
  intros A key l; induction l as [|b r IH]; intros a Hnd Hin; cbn in *; [contradiction|].
  inversion Hnd; subst. destruct Hin as [->|Hin].
  - now rewrite String.eqb_refl.
  - destruct (String.eqb (key b) (key a)) eqn:E.
    + apply String.eqb_eq in E. exfalso. apply H1. rewrite E. apply in_map; auto.
    + auto.
Qed.

Lemma find_key_app : forall {A} (key : A -> string) k l1 l2,
  find_key key k (l1 ++ l2) = match find_key key k l1 with Some a => Some a | None => find_key key k l2 end.
Proof.
  intros A key k l1 l2; induction l1 as [|b r IH]; cbn; auto.
  destruct (String.eqb (key b) k); auto.
Qed.

(* ---------------------------------------------------------------- dedup_key *)
Lemma dedup_key_In : forall {A} (key : A -> string) l seen a,
  In a (dedup_key key l seen) -> In a l /\ ~ In (key a) seen.
Proof.
  intros A key l; induction l as [|b r IH]; intros seen a H; cbn in H; [contradiction|].
  destruct (memb (key b) seen) eqn:E.
  - destruct (IH _ _ H); auto using in_cons.
  - destruct H as [->|H].
    + apply memb_false in E; auto using in_eq.
    + destruct (IH _ _ H) as [H1 H2]. split; [auto using in_cons|]. intros C; apply H2; auto using in_cons.
Qed.

Lemma dedup_key_NoDup : forall {A} (key : A -> string) l seen,
  NoDup (map key (dedup_key key l seen)).
Proof.
  intros A key l; induction l as [|b r IH]; intros seen; cbn; [constructor|].
  destruct (memb (key b) seen) eqn:E; auto.
  cbn. constructor; auto. intros C. apply in_map_iff in C. destruct C as (a & Ea & Ha).
  apply dedup_key_In in Ha. destruct Ha as [_ Ha]. apply Ha. rewrite Ea. apply in_eq.
Qed.

Lemma dedup_key_keys : forall {A} (key : A -> string) l seen k,
  In k (map key l) -> ~ In k seen -> In k (map key (dedup_key key l seen)).
Proof.
  intros A key l; induction l as [|b r IH]; intros seen k H Hs; cbn in *; [contradiction|].
  destruct (memb (key b) seen) eqn:E.
  - destruct H as [<-|H]; [apply memb_In in E; contradiction | auto].
  - cbn. destruct (string_dec (key b) k) as [->|N]; auto.
    right. apply IH; [tauto|]. intros [C|C]; auto.
Qed.

Lemma dedup_key_id : forall {A} (key : A -> string) l seen,
  NoDup (map key l) -> (forall a, In a l -> ~ In (key a) seen) -> dedup_key key l seen = l.
Proof.
  intros A key l; induction l as [|b r IH]; intros seen Hnd Hs; cbn; auto.
  inversion Hnd; subst.
  destruct (memb (key b) seen) eqn:E.
  - apply memb_In in E. exfalso. eapply Hs; eauto using in_eq.
  - f_equal. apply IH; auto. intros a Ha [C|C].
    + apply H1. rewrite C. apply in_map; auto.
    + eapply Hs; eauto using in_cons.
Qed.

(* ---------------------------------------------------------------- induction over signal trees *)
Section SigInd.
  Variable P : sig -> Prop.
  Hypothesis Hstd : forall h t u, P (SStd h t u).
  Hypothesis Henum : forall h e, P (SEnum h e).
  Hypothesis Hmux : forall h c z groups,
      Forall (Forall (fun x : bool * sig => P (snd x))) groups -> P (SMux h c z groups).
  Fixpoint sig_ind' (s : sig) : P s :=
    match s with
    | SStd h t u => Hstd h t u
    | SEnum h e => Henum h e
    | SMux h c z groups =>
        Hmux h c z groups
             ((fix go (gs : list (list (bool * sig))) : Forall (Forall (fun x : bool * sig => P (snd x))) gs :=
                 match gs with
                 | [] => Forall_nil _
                 | g :: r =>
                     Forall_cons _
                       ((fix go2 (g : list (bool * sig)) : Forall (fun x : bool * sig => P (snd x)) g :=
                           match g with
                           | [] => Forall_nil _
                           | x :: q => Forall_cons _ (sig_ind' (snd x)) (go2 q)
                           end) g)
                       (go r)
                 end) groups)
    end.
End SigInd.

Section PSigInd.
  Variable P : PSignal -> Prop.
  Hypothesis Hbase : forall e k sd st a b,
      match b with PSBMux _ _ _ _ _ => False | _ => True end -> P (PSig e k sd st a b).
  Hypothesis Hmux : forall e k sd st a sigs fixed c z groups,
      Forall P sigs -> P (PSig e k sd st a (PSBMux sigs fixed c z groups)).
  Fixpoint psig_ind' (ps : PSignal) : P ps :=
    match ps with
    | PSig e k sd st a b =>
        match b as b0 return P (PSig e k sd st a b0) with
        | PSBNone => Hbase e k sd st a PSBNone I
        | PSBStd t u => Hbase e k sd st a (PSBStd t u) I
        | PSBEnum en => Hbase e k sd st a (PSBEnum en) I
        | PSBMux sigs fixed c z groups =>
            Hmux e k sd st a sigs fixed c z groups
                 ((fix go (l : list PSignal) : Forall P l :=
                     match l with [] => Forall_nil _ | x :: q => Forall_cons _ (psig_ind' x) (go q) end) sigs)
        end
    end.
End PSigInd.

(* ---------------------------------------------------------------- structural equality is reflexive *)
Lemma list_eqb_refl : forall {A} (eq : A -> A -> bool) l, Forall (fun a => eq a a = true) l -> list_eqb eq l l = true.
Proof. intros A eq l H; induction H; cbn; auto. now rewrite H, IHForall. Qed.

Lemma entity_eqb_refl : forall e, entity_eqb e e = true.
Proof. intros e; unfold entity_eqb. now rewrite !String.eqb_refl, !Z.eqb_refl. Qed.

Lemma assign_eqb_refl : forall a, assign_eqb a a = true.
Proof.
  intros a; unfold assign_eqb. rewrite String.eqb_refl. cbn.
  destruct (as_val a); cbn; auto using String.eqb_refl, Z.eqb_refl.
Qed.

Lemma head_eqb_refl : forall h, head_eqb h h = true.
Proof.
  intros h; unfold head_eqb. rewrite entity_eqb_refl, !Z.eqb_refl. cbn.
  rewrite list_eqb_refl; auto. apply Forall_forall; intros; apply assign_eqb_refl.
Qed.

Lemma sig_eqb_refl : forall s, sig_eqb s s = true.
Proof.
  induction s using sig_ind'; cbn.
  - now rewrite head_eqb_refl, !String.eqb_refl.
  - now rewrite head_eqb_refl, String.eqb_refl.
  - rewrite head_eqb_refl, !Z.eqb_refl. cbn.
    apply list_eqb_refl. eapply Forall_impl; [|exact H]. intros g Hg.
    apply list_eqb_refl. eapply Forall_impl; [|exact Hg]. intros x Hx. cbn in Hx. rewrite Hx.
    now destruct (fst x).
Qed.

Lemma child_eqb_refl : forall c, child_eqb c c = true.
Proof. intros c; unfold child_eqb. rewrite sig_eqb_refl. now destruct (fst c). Qed.

(* ---------------------------------------------------------------- flagged traversals *)
Lemma mapM_flagged_select : forall {A B} (f : A -> result B) l flags,
  mapM_flagged f l flags = mapM f (select l flags).
Proof.
  intros A B f l; induction l as [|p r IH]; intros [|[|] fr]; cbn; auto.
  destruct (f p); cbn; auto. now rewrite IH.
Qed.

Lemma flat_flagged_select : forall {A} (g : A -> list string) l flags,
  flat_flagged g l flags = flat_map g (select l flags).
Proof.
  intros A g l; induction l as [|p r IH]; intros [|[|] fr]; cbn; auto. now rewrite IH.
Qed.

Lemma select_In : forall {A} (l : list A) flags x, In x (select l flags) -> In x l.
Proof.
  intros A l; induction l as [|p r IH]; intros [|[|] fr] x H; cbn in *; try contradiction.
  - destruct H; eauto.
  - eauto.
Qed.

(* the selected elements have pairwise distinct keys *)
Lemma select_first_flags_nodup : forall {A} (key : A -> string) (l : list A) seen,
  NoDup (map key (select l (first_flags (map key l) seen))) /\
  forall x, In x (select l (first_flags (map key l) seen)) -> ~ In (key x) seen.
Proof.
  intros A key l; induction l as [|p r IH]; intros seen; cbn.
  - split; [constructor | contradiction].
  - destruct (memb (key p) seen) eqn:E; cbn.
    + apply IH.
    + destruct (IH (key p :: seen)) as [I1 I2]. split.
      * constructor; auto. intros C. apply in_map_iff in C. destruct C as (x & Ex & Hx).
        apply I2 in Hx. apply Hx. rewrite Ex. apply in_eq.
      * intros x [<-|Hx]; [now apply memb_false|]. intros C. apply (I2 _ Hx). now right.
Qed.
