(* C12/C13 — model of loader.go: `load : time -> PNet -> result net`.

   One function per loader function; every check that the Go loader or the public mutators it
   goes through (AddBus, AddNodeInterface, AddSentMessage, InsertSignal, SetStaticCANID,
   AddReceiver, AddValue, AssignAttribute, the new…FromEntity constructors) perform while a save
   is loaded appears here as an explicit `Err`; so do the loader's own checks of sizes and counts
   (message size against the bus, group size against the enclosing layout, group count against
   the number of saved groups) that precede every allocation.  Where the Go code would dereference an absent
   sub-message the model returns `Err MissingField`.

   `now` stands for time.Now(), used for entities without a valid creation time.

   Iteration over Go maps (signal payload refs) is modelled in file order; the outcome class
   (error / success and the loaded network) does not depend on the order, only which of several
   failing checks reports first does, and that is not compared.

   The duplicate entity-id check is done by the Go loader while it walks the file (loadEntity);
   the model performs it as a separate first pass over the same entities (`pnet_ids`), which
   gives the same outcome class. *)
From Coq Require Import ZArith List String Bool.
From Acme.C12 Require Import Proto NetModel.
Import ListNotations.
Open Scope Z_scope.

(* ---- enum translations (loader.go switch statements; no case = Go zero value) *)
Definition dec_1_4 (p : Z) : Z := if (1 <=? p) && (p <=? 4) then p - 1 else 0.   (* 1..4 -> Go 0..3 *)
Definition dec_byte_order (p : Z) : Z := if (1 <=? p) && (p <=? 2) then p - 1 else 0.
Definition dec_msg_send (p : Z) : Z := if (1 <=? p) && (p <=? 4) then p else 0.
Definition dec_sig_send (p : Z) : Z := if (1 <=? p) && (p <=? 7) then p else 0.
Definition dec_sig_kind (p : Z) : Z := if (1 <=? p) && (p <=? 3) then p else 1.   (* 1 std, 2 enum, 3 mux; default standard *)
Definition dec_attr_type (p : Z) : Z := if (1 <=? p) && (p <=? 4) then p else 1.  (* default string *)

Section Load.
Variable now : time.

Definition load_entity (pe : option PEntity) : result entity :=
  match pe with
  | None => Err MissingField
  | Some e =>
      Ok {| e_id := pe_id e; e_name := pe_name e; e_desc := pe_desc e;
            e_time := match pe_time e with Some t => if time_valid t then t else now | None => now end |}
  end.

(* ---- sequencing helpers *)
Section MapM.
  Context {A B : Type}.
  Variable f : A -> result B.
  Fixpoint mapM (l : list A) : result (list B) :=
    match l with
    | [] => Ok []
    | a :: r => do b <- f a; do bs <- mapM r; Ok (b :: bs)
    end.
End MapM.

Section FoldM.
  Context {A S : Type}.
  Variable f : S -> A -> result S.
  Fixpoint foldM (s : S) (l : list A) : result S :=
    match l with
    | [] => Ok s
    | a :: r => do s' <- f s a; foldM s' r
    end.
End FoldM.

(* only the elements whose flag is set (used with `first_flags`: first copy of every id) *)
Section Flagged.
  Context {A B : Type}.
  Variable f : A -> result B.
  Fixpoint mapM_flagged (l : list A) (flags : list bool) : result (list B) :=
    match l, flags with
    | p :: r, true :: fr => do c <- f p; do cs <- mapM_flagged r fr; Ok (c :: cs)
    | _ :: r, false :: fr => mapM_flagged r fr
    | _, _ => Ok []
    end.
  Variable g : A -> list string.
  Fixpoint flat_flagged (l : list A) (flags : list bool) : list string :=
    match l, flags with
    | p :: r, true :: fr => g p ++ flat_flagged r fr
    | _ :: r, false :: fr => flat_flagged r fr
    | _, _ => []
    end.
End Flagged.

Fixpoint select {A} (l : list A) (flags : list bool) : list A :=
  match l, flags with
  | p :: r, true :: fr => p :: select r fr
  | _ :: r, false :: fr => select r fr
  | _, _ => []
  end.

(* ---- attributes *)
Definition dedup_str (l : list string) : list string := dedup_key (fun x => x) l [].

(* loadEnumAttribute + newEnumAttributeFromBase: the default first, then the other values in file
   order, repeated values dropped *)
Definition enum_attr_values (def : string) (vals : list string) : list string :=
  dedup_str (def :: filter (fun v => negb (String.eqb v def)) vals).

Definition load_attr (pa : PAttribute) : result attr :=
  let typ := dec_attr_type (pat_type pa) in
  do ent <- load_entity (pat_ent pa);
  match pat_body pa with
  | PABNone => Err MissingOneof
  | PABString d => if typ =? 1 then Ok {| at_ent := ent; at_body := ABString d |} else Err InvalidOneof
  | PABInt d mn mx hex =>
      if negb (typ =? 2) then Err InvalidOneof
      else if mn >? mx then Err GreaterThan
      else if d >? mx then Err GreaterThan
      else if d <? mn then Err LowerThan
      else Ok {| at_ent := ent; at_body := ABInt d mn mx hex |}
  | PABFloat d mn mx =>
      if negb (typ =? 3) then Err InvalidOneof
      else if f_gt mn mx then Err GreaterThan
      else if f_gt d mx then Err GreaterThan
      else if f_lt d mn then Err LowerThan
      else Ok {| at_ent := ent; at_body := ABFloat d mn mx |}
  | PABEnum d vals =>
      if negb (typ =? 4) then Err InvalidOneof
      else if memb d vals then Ok {| at_ent := ent; at_body := ABEnum d (enum_attr_values d vals) |}
      else Err NotFound
  end.

(* loadAttributeAssignment + withAttributes.addAttributeAssignment: one assignment per attribute,
   a later one replaces the earlier one *)
Fixpoint assign_put (l : list assign) (a : assign) : list assign :=
  match l with
  | [] => [a]
  | b :: r => if String.eqb (as_attr b) (as_attr a) then a :: r else b :: assign_put r a
  end.

Definition load_assign (attrs : list attr) (cur : list assign) (pa : PAssign) : result (list assign) :=
  match find_key attr_key (pas_attr_id pa) attrs with
  | None => Err NotFound
  | Some ad =>
      let put v := do _ <- assign_check ad v; Ok (assign_put cur {| as_attr := pas_attr_id pa; as_val := v |}) in
      match pas_val pa with
      | PAVNone => Ok cur
      | PAVString s => put (AVStr s)
      | PAVInt z => put (AVInt z)
      | PAVDouble f => put (AVFlt f)
      end
  end.

Definition load_assigns (attrs : list attr) (l : list PAssign) : result (list assign) :=
  foldM (load_assign attrs) [] l.

(* ---- shared definitions *)
Definition load_builder (pb : PBuilder) : result builder :=
  do ent <- load_entity (pcb_ent pb);
  Ok {| cb_ent := ent; cb_ops := map (fun o => (dec_1_4 (pop_kind o), pop_from o, pop_len o)) (pcb_ops pb) |}.

Definition load_node (attrs : list attr) (pn : PNode) : result node :=
  do ent <- load_entity (pnd_ent pn);
  do asg <- load_assigns attrs (pnd_attrs pn);
  Ok {| nd_ent := ent; nd_id := pnd_id pn; nd_ifcount := pnd_ifcount pn; nd_attrs := asg |}.

Definition load_type (pt : PSigType) : result sigtype :=
  do ent <- load_entity (pst_ent pt);
  if pst_size pt <? 0 then Err Negative
  else if pst_size pt =? 0 then Err IsZero
  else Ok {| st_ent := ent; st_kind := dec_1_4 (pst_kind pt); st_size := pst_size pt; st_signed := pst_signed pt;
             st_min := pst_min pt; st_max := pst_max pt; st_scale := pst_scale pt; st_offset := pst_offset pt |}.

Definition load_unit (pu : PSigUnit) : result sigunit :=
  do ent <- load_entity (psu_ent pu);
  Ok {| su_ent := ent; su_kind := dec_1_4 (psu_kind pu); su_symbol := psu_symbol pu |}.

(* SignalEnum.AddValue on an enum nobody references yet *)
Definition enum_add_value (cur : list (entity * Z)) (pv : PEnumValue) : result (list (entity * Z)) :=
  do ent <- load_entity (pev_ent pv);
  if existsb (Z.eqb (pev_index pv)) (map snd cur) then Err Duplicated
  else if memb (e_name ent) (map (fun v => e_name (fst v)) cur) then Err Duplicated
  else Ok (cur ++ [(ent, pev_index pv)]).

Definition load_enum (pe : PSigEnum) : result sigenum :=
  do ent <- load_entity (psn_ent pe);
  do vals <- foldM enum_add_value [] (psn_values pe);
  Ok {| se_ent := ent; se_values := vals; se_minsize := if psn_minsize pe =? 0 then 1 else psn_minsize pe |}.

(* ---- signal payload refs: map[string]int filled in file order (the last position of an id wins),
   visited here in the order of first occurrence *)
Definition ref_key (r : PRef) := prf_id r.
Definition refs_map (refs : list PRef) : list (string * Z) :=
  map (fun r => (prf_id r, match find_last ref_key (prf_id r) refs with Some q => prf_pos q | None => prf_pos r end))
      (dedup_key ref_key refs []).

Fixpoint assoc_pos (k : string) (l : list (string * Z)) : option Z :=
  match l with [] => None | (a, p) :: r => if String.eqb a k then Some p else assoc_pos k r end.

(* ---- multiplexer groups *)
Definition groups_t := list (list (bool * sig)).
Definition child_key (c : bool * sig) : string := sig_id (snd c).

Fixpoint update_nth {A} (n : nat) (f : A -> A) (l : list A) : list A :=
  match l, n with
  | [], _ => []
  | a :: r, O => f a :: r
  | a :: r, S k => a :: update_nth k f r
  end.

(* MultiplexerSignal.verifySignalName on a multiplexer without parent message *)
Definition mux_name_clash (gs : groups_t) (c : sig) : bool :=
  existsb (fun d => String.eqb (sig_name (snd d)) (sig_name c) && negb (String.eqb (sig_id (snd d)) (sig_id c)))
          (List.concat gs).

Definition group_insert (fx : bool) (c : sig) (pos : Z) (g : list (bool * sig)) : list (bool * sig) :=
  (fix ins (g : list (bool * sig)) : list (bool * sig) :=
     match g with
     | [] => [(fx, sig_set_pos c pos)]
     | t :: r => if sig_pos (snd t) >? pos then (fx, sig_set_pos c pos) :: t :: r else t :: ins r
     end) g.

(* InsertSignal(signal, startBit) — fixed *)
Definition mux_insert_fixed (ev : env) (gsize : Z) (gs : groups_t) (c : sig) (pos : Z) : result groups_t :=
  if mux_name_clash gs c then Err Duplicated
  else if memb (sig_id c) (map child_key (List.concat gs)) then Err Duplicated
  else
    do _ <- foldM (fun (_ : unit) g => layout_verify ev gsize (map snd g) c pos) tt gs;
    Ok (map (group_insert true c pos) gs).

(* InsertSignal(signal, startBit, groupID) *)
Definition mux_insert_group (ev : env) (count gsize : Z) (gs : groups_t) (c : sig) (pos : Z) (g : Z) : result groups_t :=
  if mux_name_clash gs c then Err Duplicated
  else if g <? 0 then Err Negative
  else if g >=? count then Err OutOfBounds
  else
    match find_key child_key (sig_id c) (List.concat gs) with
    | Some d =>
        if fst d then Err Duplicated
        else if memb (sig_id c) (map child_key (nth (Z.to_nat g) gs [])) then Err Duplicated
        else if negb (pos =? sig_pos (snd d)) then Err Duplicated
        else
          do _ <- layout_verify ev gsize (map snd (nth (Z.to_nat g) gs [])) c pos;
          Ok (update_nth (Z.to_nat g) (group_insert false c pos) gs)
    | None =>
        do _ <- layout_verify ev gsize (map snd (nth (Z.to_nat g) gs [])) c pos;
        Ok (update_nth (Z.to_nat g) (group_insert false c pos) gs)
    end.

(* loadMultiplexerSignal, the loop over the groups: state = (groups, fixed ids already inserted) *)
Definition mux_load_ref (ev : env) (count gsize : Z) (children : list sig) (fixed : list string) (g : Z)
           (st : groups_t * list string) (r : string * Z) : result (groups_t * list string) :=
  let '(gs, insf) := st in
  let '(id, pos) := r in
  match find_key sig_id id children with
  | None => Err NotFound
  | Some c =>
      if memb id fixed then
        if memb id insf then Ok st
        else do gs' <- mux_insert_fixed ev gsize gs c pos; Ok (gs', id :: insf)
      else do gs' <- mux_insert_group ev count gsize gs c pos g; Ok (gs', insf)
  end.

Fixpoint mux_load_groups (ev : env) (count gsize : Z) (children : list sig) (fixed : list string)
         (g : Z) (st : groups_t * list string) (pgroups : list PPayload) : result (groups_t * list string) :=
  match pgroups with
  | [] => Ok st
  | refs :: r =>
      do st' <- foldM (mux_load_ref ev count gsize children fixed g) st (refs_map refs);
      mux_load_groups ev count gsize children fixed (g + 1) st' r
  end.

(* which elements of a list of saved signals are the first with their entity id
   (a signal held by several groups is saved once per group; only the first copy is loaded) *)
Definition psig_key (s : PSignal) : string := match psig_ent s with Some e => pe_id e | None => EmptyString end.
Fixpoint first_flags (keys : list string) (seen : list string) : list bool :=
  match keys with
  | [] => []
  | k :: r => if memb k seen then false :: first_flags r seen else true :: first_flags r (k :: seen)
  end.

(* `limit` is the size in bits of the layout the signal is going to be placed in *)
Fixpoint load_sig (ev : env) (limit : Z) (ps : PSignal) : result sig :=
  match ps with
  | PSig pent pkind psend pstart pattrs pbody =>
      let kind := dec_sig_kind pkind in
      do ent <- load_entity pent;
      let mk_head (asg : list assign) :=
        {| sh_ent := ent; sh_send := dec_sig_send psend; sh_start := if f_ne pstart f_zero then pstart else f_zero;
           sh_attrs := asg; sh_pos := 0 |} in
      match pbody with
      | PSBNone => Err MissingOneof
      | PSBStd t u =>
          if negb (kind =? 1) then Err InvalidOneof
          else match find_key type_key t (ev_types ev) with
               | None => Err NotFound
               | Some _ =>
                   if negb (String.eqb u "") && match find_key unit_key u (ev_units ev) with None => true | Some _ => false end
                   then Err NotFound
                   else do asg <- load_assigns (ev_attrs ev) pattrs; Ok (SStd (mk_head asg) t u)
               end
      | PSBEnum e =>
          if negb (kind =? 2) then Err InvalidOneof
          else match find_key enum_key e (ev_enums ev) with
               | None => Err NotFound
               | Some _ => do asg <- load_assigns (ev_attrs ev) pattrs; Ok (SEnum (mk_head asg) e)
               end
      | PSBMux psigs fixed count gsize pgroups =>
          if negb (kind =? 3) then Err InvalidOneof
          else if gsize >? limit then Err TooBig
          else if negb (Z.of_nat (List.length pgroups) =? count) then Err OutOfBounds
          else if count <? 0 then Err Negative
          else if count =? 0 then Err IsZero
          else if gsize <? 0 then Err Negative
          else if gsize =? 0 then Err IsZero
          else
            do children <- mapM_flagged (load_sig ev gsize) psigs (first_flags (map psig_key psigs) []);
            do st <- mux_load_groups ev count gsize children fixed 0
                                     (repeat [] (Z.to_nat count), []) pgroups;
            do asg <- load_assigns (ev_attrs ev) pattrs;
            Ok (SMux (mk_head asg) count gsize (fst st))
      end
  end.

(* ---- messages *)
(* Message.InsertSignal: the name of the inserted signal against every name registered in the
   message (top-level and multiplexed); then verifyNestedSignalNames: the signals it holds at any
   depth against the message and among themselves (equal names are tolerated only for one and
   the same signal, i.e. equal entity id); then the layout *)
Definition names_clash (t others : list sig) : bool :=
  existsb (fun a => existsb (fun b => String.eqb (sig_name a) (sig_name b) && negb (String.eqb (sig_id a) (sig_id b)))
                            (t ++ others)) t.

Definition msg_insert_signal (ev : env) (bits : Z) (cur : list sig) (s : sig) (pos : Z) : result (list sig) :=
  if memb (sig_name s) (map sig_name (flat_map sig_flat cur)) then Err Duplicated
  else if names_clash (sig_flat s) (flat_map sig_flat cur) then Err Duplicated
  else do _ <- layout_verify ev bits cur s pos; Ok (layout_insert cur s pos).

Definition load_msg_signal (ev : env) (bits : Z) (sigmap : list (string * Z)) (cur : list sig) (ps : PSignal)
  : result (list sig) :=
  do s <- load_sig ev bits ps;
  match assoc_pos (sig_id s) sigmap with
  | None => Err NotFound
  | Some pos => msg_insert_signal ev bits cur s pos
  end.

Fixpoint receiver_put (l : list (string * Z)) (r : string * Z) : list (string * Z) :=
  match l with
  | [] => [r]
  | b :: q => if String.eqb (fst b) (fst r) then r :: q else b :: receiver_put q r
  end.

(* loadMessage receivers: node by id, Node.GetInterface, Message.AddReceiver *)
Definition load_receiver (ev : env) (sender : string * Z) (cur : list (string * Z)) (pr : PReceiver)
  : result (list (string * Z)) :=
  match find_key node_key (prc_node pr) (ev_nodes ev) with
  | None => Err NotFound
  | Some nd =>
      if prc_number pr <? 0 then Err Negative
      else if prc_number pr >=? nd_ifcount nd then Err OutOfBounds
      else if String.eqb (prc_node pr) (fst sender) && (prc_number pr =? snd sender) then Err ReceiverIsSender
      else Ok (receiver_put cur (prc_node pr, prc_number pr))
  end.

Definition load_msg (ev : env) (sender : string * Z) (pm : PMessage) : result msg :=
  do ent <- load_entity (pm_ent pm);
  if pm_size pm >? 8 then Err TooBig else
  let sigmap := refs_map (match pm_payload pm with Some refs => refs | None => [] end) in
  do sigs <- foldM (load_msg_signal ev (pm_size pm * 8) sigmap) [] (pm_signals pm);
  do recs <- foldM (load_receiver ev sender) [] (pm_receivers pm);
  do asg <- load_assigns (ev_attrs ev) (pm_attrs pm);
  Ok {| m_ent := ent;
        m_id := if pm_has_static pm then pm_static pm else pm_id pm;
        m_size := pm_size pm;
        m_static := if pm_has_static pm then pm_static pm else 0;
        m_has_static := pm_has_static pm;
        m_prio := dec_1_4 (pm_prio pm); m_bo := dec_byte_order (pm_bo pm);
        m_cycle := pm_cycle pm; m_send := dec_msg_send (pm_send pm);
        m_delay := pm_delay pm; m_startdelay := pm_startdelay pm;
        m_receivers := recs; m_signals := sigs; m_attrs := asg |}.

(* NodeInterface.AddSentMessage on an interface not yet attached to a bus *)
Definition add_sent_message (cur : list msg) (m : msg) : result (list msg) :=
  if memb (e_name (m_ent m)) (map (fun x => e_name (m_ent x)) cur) then Err Duplicated
  else if m_has_static m then
    if existsb (fun x => m_has_static x && (m_static x =? m_static m)) cur then Err Duplicated else Ok (cur ++ [m])
  else
    if existsb (fun x => negb (m_has_static x) && (m_id x =? m_id m)) cur then Err Duplicated else Ok (cur ++ [m]).

(* ---- interfaces and buses *)
Definition load_iface (ev : env) (attached : list (string * Z)) (pi : PIface) : result iface :=
  match find_key node_key (pif_node pi) (ev_nodes ev) with
  | None => Err NotFound
  | Some nd =>
      if pif_number pi <? 0 then Err Negative
      else if pif_number pi >=? nd_ifcount nd then Err OutOfBounds
      else if existsb (fun a => String.eqb (fst a) (pif_node pi) && (snd a =? pif_number pi)) attached then Err Duplicated
      else
        do msgs <- foldM (fun cur pm => do m <- load_msg ev (pif_node pi, pif_number pi) pm; add_sent_message cur m)
                         [] (pif_msgs pi);
        Ok {| if_node := pif_node pi; if_number := pif_number pi; if_msgs := msgs |}
  end.

Definition node_name_of (ev : env) (i : iface) : string :=
  match node_of ev i with Some nd => e_name (nd_ent nd) | None => EmptyString end.
Definition node_id_of (ev : env) (i : iface) : Z :=
  match node_of ev i with Some nd => nd_id nd | None => 0 end.

Fixpoint static_ids_ok (busids : list Z) (l : list msg) : bool :=
  match l with
  | [] => true
  | m :: r => (negb (m_has_static m) || negb (existsb (Z.eqb (m_static m)) busids)) && static_ids_ok busids r
  end.

(* Bus.AddNodeInterface *)
Definition add_node_interface (ev : env) (cur : list iface) (i : iface) : result (list iface) :=
  if memb (node_name_of ev i) (map (node_name_of ev) cur) then Err Duplicated
  else if existsb (Z.eqb (node_id_of ev i)) (map (node_id_of ev) cur) then Err Duplicated
  else if negb (forallb (fun m => m_size m <=? 8) (if_msgs i)) then Err TooBig
  else if negb (static_ids_ok (map m_static (filter m_has_static (flat_map if_msgs cur))) (if_msgs i)) then Err Duplicated
  else Ok (cur ++ [i]).

Definition load_bus_iface (ev : env) (st : list iface * list (string * Z)) (pi : PIface)
  : result (list iface * list (string * Z)) :=
  let '(cur, attached) := st in
  do i <- load_iface ev attached pi;
  do cur' <- add_node_interface ev cur i;
  Ok (cur', (if_node i, if_number i) :: attached).

Definition load_bus (ev : env) (builders : list builder) (attached : list (string * Z)) (pb : PBus)
  : result (bus * list (string * Z)) :=
  do ent <- load_entity (pb_ent pb);
  if negb (String.eqb (pb_builder pb) "") && match find_key builder_key (pb_builder pb) builders with None => true | Some _ => false end
  then Err NotFound
  else
    do st <- foldM (load_bus_iface ev) ([], attached) (pb_ifaces pb);
    do asg <- load_assigns (ev_attrs ev) (pb_attrs pb);
    Ok ({| b_ent := ent; b_baud := pb_baud pb; b_type := 0; b_builder := pb_builder pb;
           b_ifaces := fst st; b_attrs := asg |}, snd st).

(* Network.AddBus *)
Definition load_net_bus (ev : env) (builders : list builder) (st : list bus * list (string * Z)) (pb : PBus)
  : result (list bus * list (string * Z)) :=
  let '(cur, attached) := st in
  do ba <- load_bus ev builders attached pb;
  if memb (e_name (b_ent (fst ba))) (map (fun b => e_name (b_ent b)) cur) then Err Duplicated
  else Ok (cur ++ [fst ba], snd ba).

(* ---- the entity ids the loader registers (loadEntity), for the duplicate check *)
Definition pent_ids (e : option PEntity) : list string := match e with Some x => [pe_id x] | None => [] end.

Fixpoint psig_ids (ps : PSignal) : list string :=
  match ps with
  | PSig pent _ _ _ _ pbody =>
      pent_ids pent ++
      match pbody with
      | PSBMux psigs _ _ _ _ => flat_flagged psig_ids psigs (first_flags (map psig_key psigs) [])
      | _ => []
      end
  end.

Definition pnet_ids (p : PNet) : list string :=
  let msgs := flat_map pif_msgs (flat_map pb_ifaces (pn_buses p)) in
  pent_ids (pn_ent p)
  ++ flat_map (fun b => pent_ids (pb_ent b)) (pn_buses p)
  ++ flat_map (fun m => pent_ids (pm_ent m)) msgs
  ++ flat_map (fun m => flat_map psig_ids (pm_signals m)) msgs
  ++ flat_map (fun b => pent_ids (pcb_ent b)) (pn_builders p)
  ++ flat_map (fun n => pent_ids (pnd_ent n)) (pn_nodes p)
  ++ flat_map (fun t => pent_ids (pst_ent t)) (pn_types p)
  ++ flat_map (fun u => pent_ids (psu_ent u)) (pn_units p)
  ++ flat_map (fun e => pent_ids (psn_ent e)) (pn_enums p)
  ++ flat_map (fun e => flat_map (fun v => pent_ids (pev_ent v)) (psn_values e)) (pn_enums p)
  ++ flat_map (fun a => pent_ids (pat_ent a)) (pn_attrs p).

Definition load (p : PNet) : result net :=
  if negb (nodupb (pnet_ids p)) then Err Duplicated
  else
    do ent <- load_entity (pn_ent p);
    do builders <- mapM load_builder (pn_builders p);
    do attrs <- mapM load_attr (pn_attrs p);
    do nodes <- mapM (load_node attrs) (pn_nodes p);
    do types <- mapM load_type (pn_types p);
    do units <- mapM load_unit (pn_units p);
    do enums <- mapM load_enum (pn_enums p);
    let ev := {| ev_types := types; ev_units := units; ev_enums := enums; ev_attrs := attrs; ev_nodes := nodes |} in
    do st <- foldM (load_net_bus ev builders) ([], []) (pn_buses p);
    Ok {| n_ent := ent; n_buses := fst st; n_builders := builders; n_nodes := nodes; n_types := types;
          n_units := units; n_enums := enums; n_attrs := attrs |}.

End Load.
