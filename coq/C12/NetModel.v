(* C12/C13 — a plain tree/record model of what the round-trip property observes of an acmelib
   Network (see props/C12/NOTES.md for the field-by-field correspondence with the Go getters).

   * Every Go entity becomes a record carrying its `entity` header (id, name, description,
     creation time).  The entity kind is implied by the position in the tree.
   * Definitions that Go shares by pointer (CAN-ID builders, nodes, signal types, units, enums,
     attributes) live once in a table of the network and are referenced by entity id, exactly
     as the save format does.
   * A message payload is the list of its top-level signals in layout order; a multiplexer
     holds one such list per group.  A multiplexed signal that belongs to several groups (or
     is fixed = in all groups) occurs in each of them (the same Go object is shared by those
     group layouts); `wf` demands that the occurrences are equal.  The bool paired with a
     multiplexed signal is the Go `fixedSignals` membership.
   * Go `int` / `uint32` are Z; float64 is its bit pattern with the IEEE order defined below;
     Go enums are their Go constant values. *)
From Coq Require Import ZArith List String Bool Ascii.
Import ListNotations.
Open Scope Z_scope.

(* ---------------------------------------------------------------- results *)
Inductive cause :=
| MissingField | MissingOneof | InvalidOneof | NotFound | Duplicated | Negative | OutOfBounds
| IsZero | IsNil | NoSpaceLeft | Intersect | InvalidType | TooBig | GreaterThan | LowerThan
| ReceiverIsSender.

Inductive result (A : Type) :=
| Ok (a : A)
| Err (c : cause).
Arguments Ok {A}.
Arguments Err {A}.

Definition bind {A B} (r : result A) (f : A -> result B) : result B :=
  match r with Ok a => f a | Err c => Err c end.
Notation "'do' x <- r ; k" := (bind r (fun x => k)) (at level 200, x pattern, r at level 100, k at level 200).

Definition is_ok {A} (r : result A) : bool := match r with Ok _ => true | Err _ => false end.

(* ---------------------------------------------------------------- float64 as bits *)
Definition f64 := Z.
Definition two63 := 9223372036854775808.
Definition f_inf_mag := 9218868437227405312.          (* 0x7FF0000000000000 *)
Definition f_isnan (b : f64) : bool := (b mod two63) >? f_inf_mag.
Definition f_ord (b : f64) : Z := if b <? two63 then b else two63 - b.
Definition f_lt (a b : f64) : bool := negb (f_isnan a) && negb (f_isnan b) && (f_ord a <? f_ord b).
Definition f_gt (a b : f64) : bool := f_lt b a.
Definition f_eq (a b : f64) : bool := negb (f_isnan a) && negb (f_isnan b) && (f_ord a =? f_ord b).
Definition f_ne (a b : f64) : bool := negb (f_eq a b).
Definition f_zero : f64 := 0.

(* ---------------------------------------------------------------- entities *)
Definition time := (Z * Z)%type.            (* seconds, nanoseconds *)
Definition time_valid (t : time) : bool :=
  let '(s, n) := t in
  (-62135596800 <=? s) && (s <=? 253402300799) && (0 <=? n) && (n <? 1000000000).

Record entity := { e_id : string; e_name : string; e_desc : string; e_time : time }.

Inductive aval := AVStr (s : string) | AVInt (z : Z) | AVFlt (f : f64).
Record assign := { as_attr : string; as_val : aval }.

Record builder := { cb_ent : entity; cb_ops : list (Z * Z * Z) }.   (* kind, from, len *)
Record node := { nd_ent : entity; nd_id : Z; nd_ifcount : Z; nd_attrs : list assign }.
Record sigtype := {
  st_ent : entity; st_kind : Z; st_size : Z; st_signed : bool;
  st_min : f64; st_max : f64; st_scale : f64; st_offset : f64 }.
Record sigunit := { su_ent : entity; su_kind : Z; su_symbol : string }.
Record sigenum := { se_ent : entity; se_values : list (entity * Z); se_minsize : Z }.

Inductive attrbody :=
| ABString (def : string)
| ABInt (def min max : Z) (hex : bool)
| ABFloat (def min max : f64)
| ABEnum (def : string) (values : list string).
Record attr := { at_ent : entity; at_body : attrbody }.

(* signals *)
Record sighead := {
  sh_ent : entity; sh_send : Z; sh_start : f64; sh_attrs : list assign; sh_pos : Z }.

Inductive sig :=
| SStd (h : sighead) (type_id unit_id : string)        (* unit_id "" = no unit *)
| SEnum (h : sighead) (enum_id : string)
| SMux (h : sighead) (count size : Z) (groups : list (list (bool * sig))).

Definition sig_head (s : sig) : sighead :=
  match s with SStd h _ _ => h | SEnum h _ => h | SMux h _ _ _ => h end.
Definition sig_id (s : sig) : string := e_id (sh_ent (sig_head s)).
Definition sig_name (s : sig) : string := e_name (sh_ent (sig_head s)).
Definition sig_pos (s : sig) : Z := sh_pos (sig_head s).
Definition set_head_pos (h : sighead) (p : Z) : sighead :=
  {| sh_ent := sh_ent h; sh_send := sh_send h; sh_start := sh_start h; sh_attrs := sh_attrs h; sh_pos := p |}.
Definition sig_set_pos (s : sig) (p : Z) : sig :=
  match s with
  | SStd h t u => SStd (set_head_pos h p) t u
  | SEnum h e => SEnum (set_head_pos h p) e
  | SMux h c z g => SMux (set_head_pos h p) c z g
  end.

Record msg := {
  m_ent : entity; m_id : Z; m_size : Z; m_static : Z; m_has_static : bool;
  m_prio : Z; m_bo : Z; m_cycle : Z; m_send : Z; m_delay : Z; m_startdelay : Z;
  m_receivers : list (string * Z);        (* node entity id, interface number *)
  m_signals : list sig;
  m_attrs : list assign }.

Record iface := { if_node : string; if_number : Z; if_msgs : list msg }.

Record bus := {
  b_ent : entity; b_baud : Z; b_type : Z;
  b_builder : string;                     (* "" = the bus's own default builder *)
  b_ifaces : list iface; b_attrs : list assign }.

Record net := {
  n_ent : entity; n_buses : list bus;
  n_builders : list builder; n_nodes : list node; n_types : list sigtype;
  n_units : list sigunit; n_enums : list sigenum; n_attrs : list attr }.

(* ---------------------------------------------------------------- small list helpers *)
Definition memb (x : string) (l : list string) : bool := existsb (String.eqb x) l.

Fixpoint nodupb (l : list string) : bool :=
  match l with [] => true | x :: r => negb (memb x r) && nodupb r end.

Fixpoint znodupb (l : list Z) : bool :=
  match l with [] => true | x :: r => negb (existsb (Z.eqb x) r) && znodupb r end.

Fixpoint pair_nodupb (l : list (string * Z)) : bool :=
  match l with
  | [] => true
  | x :: r => negb (existsb (fun y => String.eqb (fst x) (fst y) && (snd x =? snd y)) r) && pair_nodupb r
  end.

Fixpoint find_key {A} (key : A -> string) (k : string) (l : list A) : option A :=
  match l with
  | [] => None
  | a :: r => if String.eqb (key a) k then Some a else find_key key k r
  end.

(* last binding wins: the Go loader fills `map[string]X` in file order *)
Fixpoint find_last {A} (key : A -> string) (k : string) (l : list A) : option A :=
  match l with
  | [] => None
  | a :: r => match find_last key k r with Some b => Some b | None => if String.eqb (key a) k then Some a else None end
  end.

(* keep the first occurrence of every key *)
Fixpoint dedup_key {A} (key : A -> string) (l : list A) (seen : list string) : list A :=
  match l with
  | [] => []
  | a :: r => if memb (key a) seen then dedup_key key r seen else a :: dedup_key key r (key a :: seen)
  end.

(* ---------------------------------------------------------------- sizes *)
(* helpers.go calcSizeFromValue (values below 2^62: the loader only produces uint32 values) *)
Definition calc_size (v : Z) : Z :=
  if v =? 0 then 1 else if v <? 0 then 0 else Z.min 64 (Z.log2 v + 1).

Definition enum_maxindex (e : sigenum) : Z := fold_left (fun m v => Z.max m (snd v)) (se_values e) 0.
Definition enum_size (e : sigenum) : Z :=
  let s := calc_size (enum_maxindex e) in if se_minsize e >? s then se_minsize e else s.

Definition type_key (t : sigtype) := e_id (st_ent t).
Definition unit_key (u : sigunit) := e_id (su_ent u).
Definition enum_key (e : sigenum) := e_id (se_ent e).
Definition attr_key (a : attr) := e_id (at_ent a).
Definition node_key (n : node) := e_id (nd_ent n).
Definition builder_key (b : builder) := e_id (cb_ent b).

(* the definitions a signal tree refers to *)
Record env := { ev_types : list sigtype; ev_units : list sigunit; ev_enums : list sigenum;
                ev_attrs : list attr; ev_nodes : list node }.

Definition sig_size (ev : env) (s : sig) : Z :=
  match s with
  | SStd _ t _ => match find_key type_key t (ev_types ev) with Some ty => st_size ty | None => 0 end
  | SEnum _ e => match find_key enum_key e (ev_enums ev) with Some en => enum_size en | None => 0 end
  | SMux _ c z _ => z + calc_size (c - 1)
  end.

(* ---------------------------------------------------------------- traversals *)
(* distinct multiplexed signals of a multiplexer, in order of first occurrence *)
Definition mux_children (groups : list (list (bool * sig))) : list (bool * sig) :=
  dedup_key (fun c => sig_id (snd c)) (List.concat groups) [].

Fixpoint sig_flat (s : sig) : list sig :=
  s :: match s with
       | SMux _ _ _ groups => flat_map (fun g => flat_map (fun c : bool * sig => sig_flat (snd c)) g) groups
       | _ => []
       end.

(* all signals below a signal, every shared occurrence listed once (by id) *)
Definition sig_all (s : sig) : list sig := dedup_key sig_id (sig_flat s) [].
Definition msg_sigs (m : msg) : list sig := dedup_key sig_id (flat_map sig_flat (m_signals m)) [].

(* ---------------------------------------------------------------- attribute assignment check
   entity.go addAttributeAssignment *)
Definition assign_check (a : attr) (v : aval) : result unit :=
  match v, at_body a with
  | AVInt z, ABInt _ mn mx _ => if (z <? mn) || (z >? mx) then Err OutOfBounds else Ok tt
  | AVInt _, _ => Err InvalidType
  | AVFlt f, ABFloat _ mn mx => if f_lt f mn || f_gt f mx then Err OutOfBounds else Ok tt
  | AVFlt _, _ => Err InvalidType
  | AVStr _, ABString _ => Ok tt
  | AVStr s, ABEnum _ vals => if memb s vals then Ok tt else Err NotFound
  | AVStr _, _ => Err InvalidType
  end.

(* ---------------------------------------------------------------- layouts
   signal_layout.go verifyBeforeInsert / insert, on a list of signals in layout order *)
Fixpoint layout_scan (ev : env) (l : list sig) (pos endb : Z) : result unit :=
  match l with
  | [] => Ok tt
  | t :: r =>
      let ts := sig_pos t in
      let te := ts + sig_size ev t in
      if endb <=? ts then Ok tt
      else if pos >=? te then layout_scan ev r pos endb
      else Err Intersect
  end.

Definition layout_verify (ev : env) (lsize : Z) (l : list sig) (s : sig) (pos : Z) : result unit :=
  let sz := sig_size ev s in
  if pos <? 0 then Err Negative
  else if sz >? lsize then Err OutOfBounds
  else if pos + sz >? lsize then Err NoSpaceLeft
  else layout_scan ev l pos (pos + sz).

Fixpoint layout_insert (l : list sig) (s : sig) (pos : Z) : list sig :=
  match l with
  | [] => [sig_set_pos s pos]
  | t :: r => if sig_pos t >? pos then sig_set_pos s pos :: t :: r else t :: layout_insert r s pos
  end.

(* sorted, pairwise disjoint, sizes >= 1, inside [0, lsize) *)
Fixpoint layout_okb (ev : env) (lsize : Z) (from : Z) (l : list sig) : bool :=
  match l with
  | [] => from <=? lsize
  | t :: r => (from <=? sig_pos t) && (1 <=? sig_size ev t) && layout_okb ev lsize (sig_pos t + sig_size ev t) r
  end.

(* ---------------------------------------------------------------- well-formedness (boolean) *)
Definition assign_okb (ev : env) (a : assign) : bool :=
  match find_key attr_key (as_attr a) (ev_attrs ev) with
  | Some ad => is_ok (assign_check ad (as_val a))
  | None => false
  end.
Definition assigns_okb (ev : env) (l : list assign) : bool :=
  forallb (assign_okb ev) l && nodupb (map as_attr l).

Definition sig_eqb_id (a b : sig) : bool := String.eqb (sig_id a) (sig_id b).

Section ListEq.
  Context {A : Type}.
  Variable eq : A -> A -> bool.
  Fixpoint list_eqb (l1 l2 : list A) : bool :=
    match l1, l2 with
    | [], [] => true
    | a :: r1, b :: r2 => eq a b && list_eqb r1 r2
    | _, _ => false
    end.
End ListEq.

(* structural equality on signals is needed to state "shared occurrences are equal" as a
   boolean; positions, flags and the complete subtree are compared *)
Definition entity_eqb (a b : entity) : bool :=
  String.eqb (e_id a) (e_id b) && String.eqb (e_name a) (e_name b) && String.eqb (e_desc a) (e_desc b)
  && (fst (e_time a) =? fst (e_time b)) && (snd (e_time a) =? snd (e_time b)).
Definition aval_eqb (a b : aval) : bool :=
  match a, b with
  | AVStr x, AVStr y => String.eqb x y
  | AVInt x, AVInt y => x =? y
  | AVFlt x, AVFlt y => x =? y
  | _, _ => false
  end.
Definition assign_eqb (a b : assign) : bool := String.eqb (as_attr a) (as_attr b) && aval_eqb (as_val a) (as_val b).
Definition head_eqb (a b : sighead) : bool :=
  entity_eqb (sh_ent a) (sh_ent b) && (sh_send a =? sh_send b) && (sh_start a =? sh_start b)
  && list_eqb assign_eqb (sh_attrs a) (sh_attrs b) && (sh_pos a =? sh_pos b).
Fixpoint sig_eqb (a b : sig) : bool :=
  match a, b with
  | SStd h t u, SStd h' t' u' => head_eqb h h' && String.eqb t t' && String.eqb u u'
  | SEnum h e, SEnum h' e' => head_eqb h h' && String.eqb e e'
  | SMux h c z g, SMux h' c' z' g' =>
      head_eqb h h' && (c =? c') && (z =? z') &&
      list_eqb (list_eqb (fun p p' : bool * sig => Bool.eqb (fst p) (fst p') && sig_eqb (snd p) (snd p'))) g g'
  | _, _ => false
  end.

Definition child_eqb (a b : bool * sig) : bool := Bool.eqb (fst a) (fst b) && sig_eqb (snd a) (snd b).

(* every occurrence of an id in the groups equals the first one *)
Definition copies_okb (groups : list (list (bool * sig))) : bool :=
  let ch := mux_children groups in
  forallb (fun c => match find_key (fun x => sig_id (snd x)) (sig_id (snd c)) ch with
                    | Some d => child_eqb c d | None => false end) (List.concat groups).

(* a fixed signal is in every group *)
Definition fixed_okb (groups : list (list (bool * sig))) : bool :=
  forallb (fun c => negb (fst c) ||
                    forallb (fun g => memb (sig_id (snd c)) (map (fun x => sig_id (snd x)) g)) groups)
          (List.concat groups).

(* structure of one signal (recursively): references resolve, attributes valid, multiplexers valid *)
Fixpoint sig_okb (ev : env) (s : sig) : bool :=
  assigns_okb ev (sh_attrs (sig_head s)) &&
  match s with
  | SStd _ t u =>
      (match find_key type_key t (ev_types ev) with Some _ => true | None => false end) &&
      (String.eqb u "" || match find_key unit_key u (ev_units ev) with Some _ => true | None => false end)
  | SEnum _ e => match find_key enum_key e (ev_enums ev) with Some _ => true | None => false end
  | SMux _ c z groups =>
      (1 <=? c) && (1 <=? z) && (Z.of_nat (List.length groups) =? c) &&
      copies_okb groups && fixed_okb groups &&
      forallb (fun g => layout_okb ev z 0 (map snd g) && forallb (fun c : bool * sig => sig_okb ev (snd c)) g) groups
  end.

Definition receiver_okb (ev : env) (r : string * Z) : bool :=
  match find_key node_key (fst r) (ev_nodes ev) with
  | Some nd => (0 <=? snd r) && (snd r <? nd_ifcount nd)
  | None => false
  end.

(* entity ids inside a signal tree: the distinct members of a multiplexer have disjoint id sets
   that do not contain the id of the multiplexer (so equal ids only occur between the shared
   occurrences of one member) *)
Definition sig_ids (s : sig) : list string := map sig_id (sig_flat s).

Fixpoint disjointb (a b : list string) : bool :=
  match a with [] => true | x :: r => negb (memb x b) && disjointb r b end.

Fixpoint pairwise_disjointb (l : list (list string)) : bool :=
  match l with [] => true | a :: r => forallb (disjointb a) r && pairwise_disjointb r end.

Fixpoint tree_ids_okb (s : sig) : bool :=
  match s with
  | SMux _ _ _ groups =>
      let ch := map snd (mux_children groups) in
      negb (memb (sig_id s) (flat_map sig_ids ch)) &&
      pairwise_disjointb (map sig_ids ch) &&
      forallb (fun g => forallb (fun c : bool * sig => tree_ids_okb (snd c)) g) groups
  | _ => true
  end.

(* the signal part of a message: layout, every signal, names and ids over the whole tree *)
Definition msg_sigs_okb (ev : env) (m : msg) : bool :=
  layout_okb ev (m_size m * 8) 0 (m_signals m) &&
  forallb (sig_okb ev) (m_signals m) &&
  nodupb (map sig_name (msg_sigs m)) &&
  pairwise_disjointb (map sig_ids (m_signals m)) &&
  forallb tree_ids_okb (m_signals m).

(* the rest of a message *)
Definition msg_flat_okb (ev : env) (sender : string * Z) (m : msg) : bool :=
  assigns_okb ev (m_attrs m) &&
  (if m_has_static m then m_id m =? m_static m else m_static m =? 0) &&
  forallb (receiver_okb ev) (m_receivers m) &&
  nodupb (map fst (m_receivers m)) &&
  negb (existsb (fun r => String.eqb (fst r) (fst sender) && (snd r =? snd sender)) (m_receivers m)).

Section WithSigCheck.
Variable sigchk : env -> msg -> bool.

Definition msg_okb (ev : env) (sender : string * Z) (m : msg) : bool :=
  msg_flat_okb ev sender m && sigchk ev m.

Definition iface_okb (ev : env) (i : iface) : bool :=
  receiver_okb ev (if_node i, if_number i) &&
  forallb (msg_okb ev (if_node i, if_number i)) (if_msgs i) &&
  nodupb (map (fun m => e_name (m_ent m)) (if_msgs i)) &&
  znodupb (map m_id (filter (fun m => negb (m_has_static m)) (if_msgs i))) &&
  forallb (fun m => m_size m <=? 8) (if_msgs i).

Definition node_of (ev : env) (i : iface) : option node := find_key node_key (if_node i) (ev_nodes ev).

Definition bus_okb (ev : env) (builders : list builder) (b : bus) : bool :=
  assigns_okb ev (b_attrs b) &&
  (String.eqb (b_builder b) "" || match find_key builder_key (b_builder b) builders with Some _ => true | None => false end) &&
  forallb (iface_okb ev) (b_ifaces b) &&
  nodupb (map if_node (b_ifaces b)) &&
  nodupb (map (fun i => match node_of ev i with Some nd => e_name (nd_ent nd) | None => EmptyString end) (b_ifaces b)) &&
  znodupb (map (fun i => match node_of ev i with Some nd => nd_id nd | None => 0 end) (b_ifaces b)) &&
  znodupb (map m_static (filter m_has_static (flat_map if_msgs (b_ifaces b)))).

Definition attr_okb (a : attr) : bool :=
  match at_body a with
  | ABString _ => true
  | ABInt d mn mx _ => (mn <=? mx) && (mn <=? d) && (d <=? mx)
  | ABFloat d mn mx => negb (f_gt mn mx) && negb (f_gt d mx) && negb (f_lt d mn)
  | ABEnum d vals => nodupb vals && match vals with v :: _ => String.eqb v d | [] => false end
  end.

Definition enum_okb (e : sigenum) : bool :=
  nodupb (map (fun v => e_name (fst v)) (se_values e)) && znodupb (map snd (se_values e)).

(* every entity id of the network, shared multiplexed signals counted once *)
Definition net_ids (n : net) : list string :=
  e_id (n_ent n)
  :: map (fun b => e_id (b_ent b)) (n_buses n)
  ++ map (fun m => e_id (m_ent m)) (flat_map if_msgs (flat_map b_ifaces (n_buses n)))
  ++ flat_map (fun m => map sig_id (msg_sigs m)) (flat_map if_msgs (flat_map b_ifaces (n_buses n)))
  ++ map builder_key (n_builders n) ++ map node_key (n_nodes n) ++ map type_key (n_types n)
  ++ map unit_key (n_units n) ++ map enum_key (n_enums n)
  ++ flat_map (fun e => map (fun v => e_id (fst v)) (se_values e)) (n_enums n)
  ++ map attr_key (n_attrs n).

Definition net_env (n : net) : env :=
  {| ev_types := n_types n; ev_units := n_units n; ev_enums := n_enums n; ev_attrs := n_attrs n; ev_nodes := n_nodes n |}.

Definition all_ifaces (n : net) : list iface := flat_map b_ifaces (n_buses n).

Definition wfb_gen (n : net) : bool :=
  let ev := net_env n in
  nodupb (net_ids n) &&
  nodupb (map (fun b => e_name (b_ent b)) (n_buses n)) &&
  forallb (bus_okb ev (n_builders n)) (n_buses n) &&
  (* an interface is attached to at most one bus *)
  pair_nodupb (map (fun i => (if_node i, if_number i)) (all_ifaces n)) &&
  forallb (fun nd => assigns_okb ev (nd_attrs nd)) (n_nodes n) &&
  forallb (fun t => 1 <=? st_size t) (n_types n) &&
  forallb enum_okb (n_enums n) &&
  forallb attr_okb (n_attrs n).

End WithSigCheck.

(* well-formedness; `wfb_flat` is the same without the clauses about signal trees *)
Definition wfb (n : net) : bool := wfb_gen msg_sigs_okb n.
Definition wfb_flat (n : net) : bool := wfb_gen (fun _ _ => true) n.
