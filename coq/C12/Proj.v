(* C12/C13 — the comparison projection.  A Go network holds no tables: a shared definition
   exists for an observer only as far as some attached entity refers to it.  `prune` keeps
   exactly the table entries reachable from the buses (the same reference walk as the saver). *)
From Coq Require Import ZArith List String Bool.
From Acme.C12 Require Import Proto NetModel Save.
Import ListNotations.

Definition prune (n : net) : net :=
  {| n_ent := n_ent n; n_buses := n_buses n;
     n_builders := filter (fun b => memb (builder_key b) (ref_builders n)) (n_builders n);
     n_nodes := saved_nodes n;
     n_types := filter (fun t => memb (type_key t) (ref_types n)) (n_types n);
     n_units := filter (fun u => memb (unit_key u) (ref_units n)) (n_units n);
     n_enums := filter (fun e => memb (enum_key e) (ref_enums n)) (n_enums n);
     n_attrs := filter (fun a => memb (attr_key a) (ref_attrs n)) (n_attrs n) |}.
