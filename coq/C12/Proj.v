(* C12/C13 — the comparison projection.  A Go network holds no tables: a shared definition
   exists for an observer only as far as some attached entity refers to it.  `prune` keeps
   exactly the table entries reachable from the buses (the same reference walk as the saver);
   `canon` also puts them in the saver's order (stable sort by name; nodes by node id).
   `canon n` is what a save and load of `n` produces; `proj` = `canon` is the projection under
   which the round trip is the identity. *)
From Coq Require Import ZArith List String Bool.
From Acme.C12 Require Import Proto NetModel Save.
Import ListNotations.

Definition prune (n : net) : net :=
  {| n_ent := n_ent n; n_buses := n_buses n;
     n_builders := filter (fun b => memb (builder_key b) (ref_builders n)) (n_builders n);
     n_nodes := saved_nodes n;
     n_types := filter (fun t => memb (type_key t) (ref_types n)) (n_types n);
     n_units := filter (fun u => memb (unit_key u) (ref_units n)) (n_units n);
     n_enums := filter (fun e => memb (enum_key e) (ref_enums n)) (n_enums n);
     n_attrs := filter (fun a => memb (attr_key a) (ref_attrs n)) (n_attrs n) |}.

Definition canon (n : net) : net :=
  {| n_ent := n_ent n; n_buses := n_buses n;
     n_builders := isort (by_name cb_ent) (filter (fun b => memb (builder_key b) (ref_builders n)) (n_builders n));
     n_nodes := isort (fun a b => Z.leb (nd_id a) (nd_id b)) (saved_nodes n);
     n_types := isort (by_name st_ent) (filter (fun t => memb (type_key t) (ref_types n)) (n_types n));
     n_units := isort (by_name su_ent) (filter (fun u => memb (unit_key u) (ref_units n)) (n_units n));
     n_enums := isort (by_name se_ent) (filter (fun e => memb (enum_key e) (ref_enums n)) (n_enums n));
     n_attrs := isort (by_name at_ent) (filter (fun a => memb (attr_key a) (ref_attrs n)) (n_attrs n)) |}.

Definition proj (n : net) : net := canon n.
