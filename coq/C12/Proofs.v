(* C12 — entry points for Properties/C12.v: the full statement, the proved part, examples. *)
From Coq Require Import ZArith List String Bool Lia.
From Acme.C12 Require Import Proto NetModel Save Load Proj Domain ProofsRT5 ProofsRT7 ProofsRT8 ProofsSel.
Import ListNotations.
Open Scope Z_scope.
Open Scope string_scope.

(* The property at full strength: every well-formed network inside the value ranges of the
   format is reproduced by save followed by load, up to the order and pruning of the tables of
   shared definitions (proj). *)
Definition load_save_full_statement : Prop :=
  forall now n, wfb n = true -> in_domain n = true ->
    exists n', load now (save n) = Ok n' /\ proj n' = proj n.

Lemma load_save_full_statement_holds : load_save_full_statement.
Proof. intros now n Hwf Hdom. exists (canon n). apply load_save_lemma; auto. Qed.

(* ---- instances: the hypotheses are satisfiable by non-trivial networks, with and without
   multiplexers (fixed and multi-group members) *)
Definition pe (id name : string) : option PEntity :=
  Some {| pe_id := id; pe_kind := 0; pe_name := name; pe_desc := "d"; pe_time := Some (1700000000, 5) |}.
Definition ex_std (id name ty : string) : PSignal := PSig (pe id name) 1 3 4607182418800017408 [] (PSBStd ty "u").
Definition ex_enum (id name en : string) : PSignal := PSig (pe id name) 2 0 0 [{| pas_entity_id := id; pas_attr_id := "a"; pas_val := PAVInt 3 |}] (PSBEnum en).
Definition ex_mux : PSignal :=
  PSig (pe "mux" "mux") 3 0 0 []
       (PSBMux [ex_std "f" "fixed" "t4"; ex_std "g" "grouped" "t4"; ex_std "g" "grouped" "t4"] ["f"] 2 8
               [[{| prf_id := "f"; prf_pos := 0 |}; {| prf_id := "g"; prf_pos := 4 |}];
                [{| prf_id := "f"; prf_pos := 0 |}; {| prf_id := "g"; prf_pos := 4 |}]]).
Definition ex_msg (with_mux : bool) : PMessage :=
  {| pm_ent := pe "m" "msg";
     pm_signals := List.app [ex_std "s" "sig" "t4"; ex_enum "e" "esig" "en"] (if with_mux then [ex_mux] else []);
     pm_payload := Some (List.app [{| prf_id := "s"; prf_pos := 0 |}; {| prf_id := "e"; prf_pos := 4 |}]
                                  (if with_mux then [{| prf_id := "mux"; prf_pos := 8 |}] else []));
     pm_size := 8; pm_id := 1; pm_static := 0; pm_has_static := false; pm_prio := 2; pm_bo := 2; pm_cycle := 10;
     pm_send := 1; pm_delay := 0; pm_startdelay := 0; pm_receivers := [{| prc_node := "n"; prc_number := 1 |}];
     pm_attrs := [{| pas_entity_id := "m"; pas_attr_id := "a"; pas_val := PAVInt 3 |}] |}.
Definition ex_pnet (with_mux : bool) : PNet :=
  {| pn_ent := pe "net" "net";
     pn_buses := [{| pb_ent := pe "b" "bus";
                     pb_ifaces := [{| pif_number := 0; pif_node := "n"; pif_msgs := [ex_msg with_mux] |}];
                     pb_baud := 500000; pb_type := 1; pb_builder := "cb"; pb_attrs := [] |}];
     pn_builders := [{| pcb_ent := pe "cb" "builder"; pcb_ops := [{| pop_kind := 2; pop_from := 0; pop_len := 11 |}] |}];
     pn_nodes := [{| pnd_ent := pe "n" "node"; pnd_id := 1; pnd_ifcount := 2; pnd_attrs := [] |}];
     pn_types := [{| pst_ent := pe "t4" "t4"; pst_kind := 3; pst_size := 4; pst_signed := false;
                     pst_min := 0; pst_max := 0; pst_scale := 0; pst_offset := 0 |}];
     pn_units := [{| psu_ent := pe "u" "unit"; psu_kind := 2; psu_symbol := "V" |}];
     pn_enums := [{| psn_ent := pe "en" "enum"; psn_minsize := 3;
                     psn_values := [{| pev_ent := pe "v0" "V0"; pev_index := 0 |}; {| pev_ent := pe "v5" "V5"; pev_index := 5 |}] |}];
     pn_attrs := [{| pat_ent := pe "a" "att"; pat_type := 2; pat_body := PABInt 0 0 10 false |}] |}.

Definition net_of (p : PNet) : net :=
  match load (0, 0) p with
  | Ok n => n
  | Err _ => {| n_ent := {| e_id := ""; e_name := ""; e_desc := ""; e_time := (0, 0) |}; n_buses := []; n_builders := [];
                n_nodes := []; n_types := []; n_units := []; n_enums := []; n_attrs := [] |}
  end.

Definition ex_net_simple : net := net_of (ex_pnet false).
Definition ex_net_mux : net := net_of (ex_pnet true).

Example load_save_hypotheses_satisfiable :
  wfb ex_net_simple = true /\ in_domain ex_net_simple = true /\ net_simple ex_net_simple = true /\
  List.length (flat_map m_signals (flat_map if_msgs (flat_map b_ifaces (n_buses ex_net_simple)))) = 2%nat.
Proof. vm_compute. repeat split; reflexivity. Qed.

Example load_save_full_statement_on_a_multiplexer :
  wfb ex_net_mux = true /\ in_domain ex_net_mux = true /\ net_simple ex_net_mux = false /\
  load (0, 0) (save ex_net_mux) = Ok (canon ex_net_mux) /\ proj (canon ex_net_mux) = proj ex_net_mux.
Proof. vm_compute. repeat split; reflexivity. Qed.

(* outside in_domain the statement fails: the saver narrows Go ints to the field width and the loader cannot
   tell a zero field from an absent one.  Each exclusion of in_domain has its witness. *)
Example load_save_int_truncation_refuted :
  exists a : attr, attr_okb a = true /\ attr_dom a = false /\ load_attr (0, 0) (save_attr a) <> Ok a.
Proof.
  exists {| at_ent := {| e_id := "a"; e_name := "a"; e_desc := ""; e_time := (0, 0) |};
            at_body := ABInt 0 0 4294967296 false |}.
  repeat split; try reflexivity. vm_compute. discriminate.
Qed.

Example load_save_minsize_zero_refuted :
  exists e : sigenum, enum_okb e = true /\ enum_dom e = false /\ load_enum (0, 0) (save_enum e) <> Ok e.
Proof.
  exists {| se_ent := {| e_id := "e"; e_name := "e"; e_desc := ""; e_time := (0, 0) |}; se_values := []; se_minsize := 0 |}.
  repeat split; try reflexivity. vm_compute. discriminate.
Qed.

(* ... and for a negative-zero start value *)
Example load_save_negative_zero_refuted :
  exists s : sig, sig_dom s = false /\
    load_sig (0, 0) {| ev_types := [{| st_ent := {| e_id := "t"; e_name := "t"; e_desc := ""; e_time := (0, 0) |};
                                       st_kind := 2; st_size := 4; st_signed := false; st_min := 0; st_max := 0; st_scale := 0; st_offset := 0 |}];
                       ev_units := []; ev_enums := []; ev_attrs := []; ev_nodes := [] |} 64 (save_sig s)
    <> Ok (sig_set_pos s 0).
Proof.
  exists (SStd {| sh_ent := {| e_id := "s"; e_name := "s"; e_desc := ""; e_time := (0, 0) |}; sh_send := 0;
                  sh_start := two63; sh_attrs := []; sh_pos := 0 |} "t" "").
  split; [reflexivity|]. vm_compute. discriminate.
Qed.
