(* C12 — `canon` is idempotent: the projection of the loaded network is the projection of the original. *)
From Coq Require Import ZArith List String Bool Lia Permutation.
From Acme.C12 Require Import Proto NetModel Save Load Proj Lemmas ProofsRT1.
Import ListNotations.
Open Scope Z_scope.

Section Sorted.
  Context {A : Type}.
  Variable le : A -> A -> bool.
  Hypothesis le_total : forall a b, le a b = false -> le b a = true.

  Fixpoint sorted (l : list A) : Prop :=
    match l with
    | [] => True
    | x :: r => match r with [] => True | y :: _ => le x y = true end /\ sorted r
    end.

  Lemma ins_sorted_sorted : forall x l, sorted l -> sorted (ins_sorted le x l).
  Proof.
    intros x l; induction l as [|y r IH]; intros H; cbn; auto.
    destruct (le x y) eqn:E.
    - cbn. auto.
    - destruct H as [H1 H2]. specialize (IH H2). cbn. split; auto.
      destruct r as [|z q]; cbn in *.
      + now apply le_total.
      + destruct (le x z); [now apply le_total | auto].
  Qed.

  Lemma isort_sorted : forall l, sorted (isort le l).
  Proof. induction l as [|x r IH]; cbn; auto. now apply ins_sorted_sorted. Qed.

  Lemma isort_id : forall l, sorted l -> isort le l = l.
  Proof.
    induction l as [|x r IH]; intros H; cbn; auto. destruct H as [H1 H2]. unfold isort in *. cbn. rewrite IH by auto.
    destruct r as [|y q]; cbn; auto. now rewrite H1.
  Qed.

  Lemma isort_idem : forall l, isort le (isort le l) = isort le l.
  Proof. intros l. apply isort_id. apply isort_sorted. Qed.
End Sorted.

Lemma leb_total : forall a b, String.leb a b = false -> String.leb b a = true.
Proof.
  intros a b H. unfold String.leb in *. rewrite String.compare_antisym.
  destruct (String.compare a b); try discriminate. reflexivity.
Qed.

Lemma by_name_total : forall {A} (ent : A -> entity) a b, by_name ent a b = false -> by_name ent b a = true.
Proof. intros A ent a b H. unfold by_name in *. now apply leb_total. Qed.

Lemma zleb_total : forall {A} (f : A -> Z) a b, (f a <=? f b) = false -> (f b <=? f a) = true.
Proof. intros A f a b H. apply Z.leb_gt in H. apply Z.leb_le. lia. Qed.

Lemma filter_all : forall {A} (p : A -> bool) l, (forall x, In x l -> p x = true) -> filter p l = l.
Proof.
  intros A p l; induction l as [|a r IH]; intros H; cbn; auto. rewrite H by apply in_eq. f_equal. apply IH. intros; apply H; now right.
Qed.

Lemma filter_ext_in' : forall {A} (p q : A -> bool) l, (forall x, In x l -> p x = q x) -> filter p l = filter q l.
Proof.
  intros A p q l; induction l as [|a r IH]; intros H; cbn; auto. rewrite H by apply in_eq.
  rewrite IH; auto. intros; apply H; now right.
Qed.

Lemma memb_perm : forall x l l', (forall y, In y l <-> In y l') -> memb x l = memb x l'.
Proof.
  intros x l l' H. destruct (memb x l) eqn:E, (memb x l') eqn:E'; auto.
  - apply memb_In in E. apply H in E. apply memb_In in E. congruence.
  - apply memb_In in E'. apply H in E'. apply memb_In in E'. congruence.
Qed.

(* re-filtering and re-sorting a saved table changes nothing *)
Lemma canon_table_idem : forall {A} (le : A -> A -> bool) (p q : A -> bool) (l : list A),
  (forall a b, le a b = false -> le b a = true) ->
  (forall x, In x l -> p x = true -> q x = true) ->
  isort le (filter q (isort le (filter p l))) = isort le (filter p l).
Proof.
  intros A le p q l Htot Hpq. rewrite filter_all.
  - apply isort_idem; auto.
  - intros x Hx. apply isort_In in Hx. apply filter_In in Hx. destruct Hx; auto.
Qed.

Theorem canon_idem : forall n, canon (canon n) = canon n.
Proof.
  intros n.
  assert (Eb : ref_builders (canon n) = ref_builders n) by reflexivity.
  assert (En : ref_nodes (canon n) = ref_nodes n) by reflexivity.
  assert (Et : ref_types (canon n) = ref_types n) by reflexivity.
  assert (Eu : ref_units (canon n) = ref_units n) by reflexivity.
  assert (Ee : ref_enums (canon n) = ref_enums n) by reflexivity.
  assert (Es : saved_nodes (canon n) = isort (fun a b => nd_id a <=? nd_id b) (saved_nodes n)).
  { unfold saved_nodes at 1. rewrite En. cbn [n_nodes canon]. apply filter_all.
    intros x Hx. apply isort_In in Hx. unfold saved_nodes in Hx. apply filter_In in Hx. tauto. }
  assert (Ea : forall k, memb k (ref_attrs (canon n)) = memb k (ref_attrs n)).
  { intros k. apply memb_perm. intros y. unfold ref_attrs. rewrite Es.
    change (n_buses (canon n)) with (n_buses n). change (all_msgs (canon n)) with (all_msgs n).
    change (all_sigs (canon n)) with (all_sigs n).
    rewrite !in_map_iff. split; intros (a & Ea0 & Ha); exists a; split; auto;
      rewrite !in_app_iff in *; rewrite !in_flat_map in *;
      (destruct Ha as [Ha|[Ha|[Ha|(nd & Hnd & Ha)]]]; auto; right; right; right; exists nd; split; auto).
    - now apply isort_In in Hnd.
    - now apply isort_In. }
  unfold canon at 1. rewrite Eb, Et, Eu, Ee, Es. cbn [n_ent n_buses n_builders n_nodes n_types n_units n_enums n_attrs canon].
  unfold canon. f_equal.
  - apply canon_table_idem; auto using by_name_total.
  - apply isort_idem. intros a b. apply (zleb_total nd_id).
  - apply canon_table_idem; auto using by_name_total.
  - apply canon_table_idem; auto using by_name_total.
  - apply canon_table_idem; auto using by_name_total.
  - rewrite (filter_ext_in' _ (fun a => memb (attr_key a) (ref_attrs n))) by (intros; apply Ea).
    apply canon_table_idem; auto using by_name_total.
Qed.
