(* C12 — round trip of a multiplexer, part 1: what the saver emits (saveMultiplexerSignal).
   The signals kept by the emission loop, first copy of every id = the distinct members. *)
From Coq Require Import ZArith List String Bool Lia.
From Acme.C12 Require Import Proto NetModel Save Load Lemmas SigLemmas.
Import ListNotations.
Open Scope Z_scope.

Arguments memb : simpl never.

Lemma memb_cons : forall x a l, memb x (a :: l) = String.eqb x a || memb x l.
Proof. reflexivity. Qed.

Definition triple := (bool * string * PSignal)%type.
Definition tid (t : triple) : string := snd (fst t).
Definition tfx (t : triple) : bool := fst (fst t).

(* the triples the emission loop keeps *)
Fixpoint keep_group (g : list triple) (ins : list string) : list triple * list string :=
  match g with
  | [] => ([], ins)
  | (fx, id, ps) :: r =>
      if fx then
        if memb id ins then keep_group r ins
        else let '(k, i') := keep_group r (id :: ins) in ((fx, id, ps) :: k, i')
      else let '(k, i') := keep_group r ins in ((fx, id, ps) :: k, i')
  end.

Fixpoint keep_groups (gs : list (list triple)) (ins : list string) : list triple :=
  match gs with
  | [] => []
  | g :: r => let '(k, i') := keep_group g ins in k ++ keep_groups r i'
  end.

Lemma emit_group_keep : forall g ins,
  emit_group g ins =
  (map snd (fst (keep_group g ins)), map tid (filter tfx (fst (keep_group g ins))), snd (keep_group g ins)).
Proof.
  induction g as [|[[fx id] ps] r IH]; intros ins; cbn; auto.
  destruct fx.
  - destruct (memb id ins); [apply IH|].
    rewrite IH. destruct (keep_group r (id :: ins)) as [k i']. reflexivity.
  - rewrite IH. destruct (keep_group r ins) as [k i']. reflexivity.
Qed.

Lemma emit_groups_keep : forall gs ins,
  emit_groups gs ins = (map snd (keep_groups gs ins), map tid (filter tfx (keep_groups gs ins))).
Proof.
  induction gs as [|g r IH]; intros ins; cbn; auto.
  rewrite emit_group_keep. destruct (keep_group g ins) as [k i']. cbn [fst snd].
  rewrite IH. now rewrite !map_app, filter_app, map_app.
Qed.

(* ---- dedup_key only depends on the membership in `seen` *)
Lemma dedup_key_ext : forall {A} (key : A -> string) l s1 s2,
  (forall x, memb x s1 = memb x s2) -> dedup_key key l s1 = dedup_key key l s2.
Proof.
  intros A key l; induction l as [|a r IH]; intros s1 s2 H; cbn; auto.
  rewrite (H (key a)). destruct (memb (key a) s2); [apply IH; auto|].
  f_equal. apply IH. intros x. rewrite !memb_cons. now rewrite H.
Qed.

Lemma dedup_key_app : forall {A} (key : A -> string) a b seen,
  dedup_key key (a ++ b) seen = dedup_key key a seen ++ dedup_key key b (map key a ++ seen).
Proof.
  intros A key a; induction a as [|x r IH]; intros b seen; cbn; auto.
  destruct (memb (key x) seen) eqn:E.
  - rewrite IH. f_equal. apply dedup_key_ext. intros y. rewrite memb_cons.
    destruct (String.eqb y (key x)) eqn:E2; cbn; auto. apply String.eqb_eq in E2. subst.
    rewrite memb_app, E. now rewrite orb_true_r.
  - cbn. f_equal. rewrite IH. f_equal. apply dedup_key_ext. intros y.
    rewrite !memb_app, !memb_cons, !memb_app.
    destruct (String.eqb y (key x)); cbn; [now rewrite orb_true_r | reflexivity].
Qed.

Lemma dedup_key_ext_In : forall {A} (key : A -> string) l s1 s2,
  (forall x, In x s1 <-> In x s2) -> dedup_key key l s1 = dedup_key key l s2.
Proof.
  intros A key l s1 s2 H. apply dedup_key_ext. intros x.
  destruct (memb x s1) eqn:E1, (memb x s2) eqn:E2; auto.
  - apply memb_In in E1. apply H in E1. apply memb_In in E1. congruence.
  - apply memb_In in E2. apply H in E2. apply memb_In in E2. congruence.
Qed.

Lemma keep_group_props : forall g ins seen,
  incl ins seen ->
  dedup_key tid (fst (keep_group g ins)) seen = dedup_key tid g seen /\
  incl (snd (keep_group g ins)) (map tid g ++ seen) /\
  (forall x, In x (map tid (fst (keep_group g ins)) ++ seen) <-> In x (map tid g ++ seen)).
Proof.
  induction g as [|[[fx id] ps] r IH]; intros ins seen Hi.
  - cbn. split; [reflexivity|]. split; [exact Hi|]. intros x; tauto.
  - cbn [keep_group].
    assert (Hstep_keep : forall ins', incl ins' (id :: seen) ->
              ~ In id seen ->
              let kr := keep_group r ins' in
              dedup_key tid ((fx, id, ps) :: fst kr) seen = dedup_key tid ((fx, id, ps) :: r) seen /\
              incl (snd kr) (map tid ((fx, id, ps) :: r) ++ seen) /\
              (forall x, In x (map tid ((fx, id, ps) :: fst kr) ++ seen) <-> In x (map tid ((fx, id, ps) :: r) ++ seen))).
    { intros ins' Hi' Es0 kr. assert (Es : memb id seen = false) by (now apply memb_false).
      destruct (IH ins' (id :: seen) Hi') as (I1 & I2 & I3). fold kr in I1, I2, I3.
      split; [|split].
      - cbn [dedup_key]. change (tid (fx, id, ps)) with id. rewrite Es. f_equal. exact I1.
      - intros x Hx. apply I2 in Hx. cbn [map app]. change (tid (fx, id, ps)) with id.
        apply in_app_or in Hx. destruct Hx as [Hx|[<-|Hx]]; [right; apply in_or_app; auto | left; auto | right; apply in_or_app; auto].
      - intros x. cbn [map app]. change (tid (fx, id, ps)) with id. specialize (I3 x).
        cbn [In]. rewrite !in_app_iff in *. cbn [In] in *. tauto. }
    assert (Hstep_skip : forall ins', incl ins' seen -> In id seen ->
              let kr := keep_group r ins' in
              dedup_key tid (fst kr) seen = dedup_key tid ((fx, id, ps) :: r) seen /\
              incl (snd kr) (map tid ((fx, id, ps) :: r) ++ seen) /\
              (forall x, In x (map tid (fst kr) ++ seen) <-> In x (map tid ((fx, id, ps) :: r) ++ seen))).
    { intros ins' Hi' Es kr. destruct (IH ins' seen Hi') as (I1 & I2 & I3). fold kr in I1, I2, I3.
      split; [|split].
      - cbn [dedup_key]. change (tid (fx, id, ps)) with id. assert (Em : memb id seen = true) by (now apply memb_In). rewrite Em. exact I1.
      - intros x Hx. apply I2 in Hx. cbn [map app]. right. exact Hx.
      - intros x. cbn [map app]. change (tid (fx, id, ps)) with id. specialize (I3 x).
        cbn [In]. rewrite !in_app_iff in *. split; [tauto|]. intros [<-|[H|H]]; [right; exact Es | tauto | tauto]. }
    assert (Hkeep_seen : forall ins', incl ins' seen -> In id seen ->
              let kr := keep_group r ins' in
              dedup_key tid ((fx, id, ps) :: fst kr) seen = dedup_key tid ((fx, id, ps) :: r) seen /\
              incl (snd kr) (map tid ((fx, id, ps) :: r) ++ seen) /\
              (forall x, In x (map tid ((fx, id, ps) :: fst kr) ++ seen) <-> In x (map tid ((fx, id, ps) :: r) ++ seen))).
    { intros ins' Hi' Es0 kr. assert (Es : memb id seen = true) by (now apply memb_In).
      destruct (IH ins' seen Hi') as (I1 & I2 & I3). fold kr in I1, I2, I3.
      split; [|split].
      - cbn [dedup_key]. change (tid (fx, id, ps)) with id. rewrite Es. exact I1.
      - intros x Hx. apply I2 in Hx. cbn [map app]. right. exact Hx.
      - intros x. cbn [map app]. change (tid (fx, id, ps)) with id. specialize (I3 x).
        cbn [In]. rewrite !in_app_iff in *. tauto. }
    destruct fx.
    + destruct (memb id ins) eqn:E.
      * apply memb_In in E. exact (Hstep_skip ins Hi (Hi _ E)).
      * destruct (memb id seen) eqn:Es.
        -- assert (Hi' : incl (id :: ins) seen) by (intros y [<-|Hy]; [now apply memb_In | auto]).
           apply memb_In in Es. pose proof (Hkeep_seen (id :: ins) Hi' Es) as G. cbn zeta in G.
           destruct (keep_group r (id :: ins)) as [k i']. exact G.
        -- assert (Hi' : incl (id :: ins) (id :: seen)) by (intros y [<-|Hy]; [left; auto | right; auto]).
           apply memb_false in Es. pose proof (Hstep_keep (id :: ins) Hi' Es) as G. cbn zeta in G.
           destruct (keep_group r (id :: ins)) as [k i']. exact G.
    + destruct (memb id seen) eqn:Es.
      * apply memb_In in Es. pose proof (Hkeep_seen ins Hi Es) as G. cbn zeta in G. destruct (keep_group r ins) as [k i']. exact G.
      * assert (Hi' : incl ins (id :: seen)) by (intros y Hy; right; auto).
        apply memb_false in Es. pose proof (Hstep_keep ins Hi' Es) as G. cbn zeta in G. destruct (keep_group r ins) as [k i']. exact G.
Qed.

Lemma keep_groups_dedup : forall gs ins seen,
  incl ins seen ->
  dedup_key tid (keep_groups gs ins) seen = dedup_key tid (List.concat gs) seen.
Proof.
  induction gs as [|g r IH]; intros ins seen Hi; cbn [keep_groups List.concat]; auto.
  destruct (keep_group_props g ins seen Hi) as (I1 & I2 & I3).
  destruct (keep_group g ins) as [k i'] eqn:Ek. cbn [fst snd] in *.
  rewrite !dedup_key_app. rewrite I1. f_equal.
  rewrite (dedup_key_ext_In tid _ (map tid k ++ seen) (map tid g ++ seen) I3).
  apply IH. exact I2.
Qed.

(* first copies of a mapped list *)
Lemma select_first_flags_map : forall {A B} (f : A -> B) (keyA : A -> string) (keyB : B -> string) l seen,
  (forall a, keyB (f a) = keyA a) ->
  select (map f l) (first_flags (map keyB (map f l)) seen) = map f (dedup_key keyA l seen).
Proof.
  intros A B f keyA keyB l; induction l as [|a r IH]; intros seen H; cbn; auto.
  rewrite H. destruct (memb (keyA a) seen); cbn; [apply IH; auto|]. f_equal. apply IH; auto.
Qed.
