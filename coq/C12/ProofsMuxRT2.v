(* C12 — round trip of a multiplexer, part 2: layouts — strictly sorted lists with the same
   elements are equal; members of a valid layout are pairwise disjoint; a verified insertion keeps
   a layout valid. *)
From Coq Require Import ZArith List String Bool Lia Sorted.
From Acme.C12 Require Import Proto NetModel Save Load Lemmas SigLemmas.
Import ListNotations.
Open Scope Z_scope.

Section SortedUnique.
  Context {A : Type}.
  Variable p : A -> Z.

  Definition ssorted (l : list A) : Prop := StronglySorted (fun a b => p a < p b) l.

  Lemma ssorted_unique : forall l1 l2, ssorted l1 -> ssorted l2 -> incl l1 l2 -> incl l2 l1 -> l1 = l2.
  Proof.
    induction l1 as [|a r IH]; intros l2 S1 S2 I1 I2.
    - destruct l2 as [|b q]; auto. exfalso. apply (I2 b). apply in_eq.
    - destruct l2 as [|b q]; [exfalso; apply (I1 a); apply in_eq|].
      inversion S1 as [|? ? Sr Ha]; subst. inversion S2 as [|? ? Sq Hb]; subst.
      rewrite Forall_forall in Ha, Hb.
      assert (a = b).
      { destruct (I1 a (in_eq _ _)) as [E|Hin]; [auto|].
        destruct (I2 b (in_eq _ _)) as [E|Hin2]; [auto|].
        specialize (Hb a Hin). specialize (Ha b Hin2). lia. }
      subst b. f_equal. apply IH; auto.
      + intros x Hx. destruct (I1 x (in_cons _ _ _ Hx)) as [E|Hin]; auto. subst x. specialize (Ha a Hx). lia.
      + intros x Hx. destruct (I2 x (in_cons _ _ _ Hx)) as [E|Hin]; auto. subst x. specialize (Hb a Hx). lia.
  Qed.
End SortedUnique.

(* a valid layout: every element starts at or after `from`, has size >= 1, ends before the next one and inside lsize *)
Lemma layout_okb_facts : forall ev L l from,
  layout_okb ev L from l = true ->
  ssorted sig_pos l /\
  (forall t, In t l -> from <= sig_pos t /\ 1 <= sig_size ev t /\ sig_pos t + sig_size ev t <= L).
Proof.
  intros ev L l; induction l as [|a r IH]; intros from H; cbn in H.
  - split; [constructor | intros t []].
  - apply andb_true_iff in H. destruct H as [H H3]. apply andb_true_iff in H. destruct H as [H1 H2].
    apply Z.leb_le in H1, H2. destruct (IH _ H3) as [S F]. split.
    + constructor; auto. apply Forall_forall. intros t Ht. destruct (F t Ht). lia.
    + intros t [<-|Ht].
      * repeat split; auto. clear - H3 H2. revert H3. generalize (sig_pos a + sig_size ev a) as e. intros e H3.
        assert (G : forall l f, layout_okb ev L f l = true -> f <= L).
        { induction l as [|b q IHq]; intros f Hf; cbn in Hf; [now apply Z.leb_le in Hf|].
          apply andb_true_iff in Hf. destruct Hf as [Hf Hf3]. apply andb_true_iff in Hf. destruct Hf as [Hf1 Hf2].
          apply Z.leb_le in Hf1, Hf2. specialize (IHq _ Hf3). lia. }
        exact (G _ _ H3).
      * destruct (F t Ht) as (F1 & F2 & F3). repeat split; auto. lia.
Qed.

Lemma layout_okb_disjoint : forall ev L l from a b,
  layout_okb ev L from l = true -> In a l -> In b l -> a <> b ->
  sig_pos a + sig_size ev a <= sig_pos b \/ sig_pos b + sig_size ev b <= sig_pos a.
Proof.
  intros ev L l; induction l as [|x r IH]; intros from a b H Ha Hb Hne; [contradiction|].
  cbn in H. apply andb_true_iff in H. destruct H as [H H3]. apply andb_true_iff in H. destruct H as [H1 H2].
  destruct (layout_okb_facts _ _ _ _ H3) as [_ F].
  destruct Ha as [<-|Ha], Hb as [<-|Hb].
  - contradiction.
  - left. destruct (F b Hb). lia.
  - right. destruct (F a Ha). lia.
  - eapply IH; eauto.
Qed.

(* the scan succeeds against elements that are all disjoint from the new interval *)
Lemma layout_scan_disjoint : forall ev l pos endb,
  (forall t, In t l -> endb <= sig_pos t \/ sig_pos t + sig_size ev t <= pos) -> layout_scan ev l pos endb = Ok tt.
Proof.
  intros ev l; induction l as [|t r IH]; intros pos endb H; cbn; auto.
  destruct (endb <=? sig_pos t) eqn:E1; auto.
  destruct (pos >=? sig_pos t + sig_size ev t) eqn:E2.
  - apply IH. intros; apply H; now right.
  - apply Z.leb_gt in E1. rewrite Z.geb_leb in E2. apply Z.leb_gt in E2. destruct (H t (in_eq _ _)); lia.
Qed.

(* inserting keeps a valid layout valid (same statement as C13.ProofsLayout, for the round trip) *)
Lemma rt_layout_insert_ok : forall ev lsize s pos l from,
  1 <= sig_size ev s -> from <= pos -> pos + sig_size ev s <= lsize ->
  layout_okb ev lsize from l = true ->
  layout_scan ev l pos (pos + sig_size ev s) = Ok tt ->
  layout_okb ev lsize from (layout_insert l s pos) = true.
Proof.
  intros ev lsize s pos l; induction l as [|t r IH]; intros from Hsz Hfrom Hend Hok Hscan; cbn in *.
  - rewrite rt_sig_pos_set_pos, rt_sig_size_set_pos. rewrite !andb_true_iff, !Z.leb_le. lia.
  - rewrite !andb_true_iff in Hok. destruct Hok as [[H1 H2] H3]. apply Z.leb_le in H1, H2.
    destruct (pos + sig_size ev s <=? sig_pos t) eqn:E1.
    + apply Z.leb_le in E1.
      destruct (sig_pos t >? pos) eqn:E2; [|rewrite Z.gtb_ltb in E2; apply Z.ltb_ge in E2; lia].
      cbn. rewrite rt_sig_pos_set_pos, rt_sig_size_set_pos.
      rewrite !andb_true_iff, !Z.leb_le. repeat split; try lia. exact H3.
    + destruct (pos >=? sig_pos t + sig_size ev t) eqn:E3; [|discriminate].
      apply Z.geb_le in E3.
      destruct (sig_pos t >? pos) eqn:E2; [apply Z.gtb_lt in E2; lia|].
      cbn. rewrite !andb_true_iff, !Z.leb_le. repeat split; try lia. apply IH; auto.
Qed.

(* layouts only depend on the sizes *)
Lemma layout_okb_env : forall ev ev' L l from,
  (forall t, In t l -> sig_size ev' t = sig_size ev t) -> layout_okb ev' L from l = layout_okb ev L from l.
Proof.
  intros ev ev' L l; induction l as [|a r IH]; intros from H; cbn; auto.
  rewrite (H a (in_eq _ _)). rewrite IH; auto. intros; apply H; now right.
Qed.

Lemma layout_scan_env : forall ev ev' l pos endb,
  (forall t, In t l -> sig_size ev' t = sig_size ev t) -> layout_scan ev' l pos endb = layout_scan ev l pos endb.
Proof.
  intros ev ev' l; induction l as [|a r IH]; intros pos endb H; cbn; auto.
  rewrite (H a (in_eq _ _)). rewrite IH; auto. intros; apply H; now right.
Qed.
