(* C12 — round trip of a multiplexer, part 3: the loop of loadMultiplexerSignal over the saved
   groups rebuilds the groups. *)
From Coq Require Import ZArith List String Bool Lia Sorted.
From Acme.C12 Require Import Proto NetModel Save Load Domain Lemmas SigLemmas ProofsRT1 ProofsMuxRT2.
Import ListNotations.
Open Scope Z_scope.

Arguments u32 : simpl never.

(* ---- nth of mapped / updated lists *)
Lemma nth_map_lt : forall {A B} (f : A -> B) l j d d', (j < List.length l)%nat -> nth j (map f l) d' = f (nth j l d).
Proof. intros A B f l; induction l as [|a r IH]; intros [|j] d d' H; cbn in *; try lia; auto. apply IH. lia. Qed.

Lemma nth_update_nth : forall {A} (f : A -> A) l k j d,
  nth j (update_nth k f l) d = if Nat.eqb j k then (if Nat.ltb k (List.length l) then f (nth k l d) else d) else nth j l d.
Proof.
  intros A f l; induction l as [|a r IH]; intros k j d.
  - cbn. destruct (Nat.eqb j k); destruct j, k; reflexivity.
  - destruct k as [|k], j as [|j]; cbn; auto.
    rewrite IH. destruct (Nat.eqb j k); auto.
Qed.

Lemma rt_update_nth_length : forall {A} n (f : A -> A) l, List.length (update_nth n f l) = List.length l.
Proof. intros A n f l; revert n; induction l as [|a r IH]; intros [|n]; cbn; auto. Qed.

Lemma concat_nth_In : forall {A} (l : list (list A)) x,
  In x (List.concat l) <-> exists j, (j < List.length l)%nat /\ In x (nth j l []).
Proof.
  intros A l x. rewrite in_concat. split.
  - intros (g & Hg & Hx). destruct (In_nth _ _ [] Hg) as (j & Hj & E). exists j. rewrite E. auto.
  - intros (j & Hj & Hx). exists (nth j l []). split; auto. now apply nth_In.
Qed.

Lemma nth_beyond_nil : forall {A} (l : list (list A)) j x, In x (nth j l []) -> (j < List.length l)%nat.
Proof.
  intros A l j x H. destruct (Nat.ltb j (List.length l)) eqn:E; [now apply Nat.ltb_lt in E|].
  apply Nat.ltb_ge in E. rewrite nth_overflow in H by auto. contradiction.
Qed.

Lemma foldM_verify_intro : forall ev gsize (gs : groups_t) c pos,
  (forall g, In g gs -> layout_verify ev gsize (map snd g) c pos = Ok tt) ->
  foldM (fun (_ : unit) (g : list (bool * sig)) => layout_verify ev gsize (map snd g) c pos) tt gs = Ok tt.
Proof.
  intros ev gsize gs; induction gs as [|a r IH]; intros c pos H; cbn; auto.
  rewrite H by apply in_eq. cbn. apply IH. intros; apply H; now right.
Qed.

Lemma mux_name_clash_intro : forall (gs : groups_t) c,
  (forall d, In d (List.concat gs) -> sig_name (snd d) = sig_name c -> sig_id (snd d) = sig_id c) ->
  mux_name_clash gs c = false.
Proof.
  intros gs c H. unfold mux_name_clash. destruct (existsb _ _) eqn:E; auto. exfalso.
  apply existsb_exists in E. destruct E as (d & Hd & E). apply andb_true_iff in E. destruct E as [E1 E2].
  apply String.eqb_eq in E1. apply negb_true_iff, String.eqb_neq in E2. apply E2. auto.
Qed.

Lemma group_insert_In' : forall fx c pos g x,
  In x (group_insert fx c pos g) <-> x = (fx, sig_set_pos c pos) \/ In x g.
Proof.
  intros fx c pos g; induction g as [|t r IH]; intros x; cbn.
  - intuition.
  - destruct (sig_pos (snd t) >? pos); cbn; [intuition|]. fold (group_insert fx c pos r). rewrite IH. intuition.
Qed.

Lemma group_insert_snd' : forall fx c pos g, map snd (group_insert fx c pos g) = layout_insert (map snd g) c pos.
Proof.
  intros fx c pos g; induction g as [|t r IH]; cbn; auto.
  destruct (sig_pos (snd t) >? pos); cbn; auto. fold (group_insert fx c pos r). now rewrite IH.
Qed.

Section MuxFold.
Variable ev' : env.
Variable c z : Z.
Variable groups : groups_t.
Variable children : list sig.
Variable fixed : list string.

Hypothesis Hc : 1 <= c.
Hypothesis Hz : 1 <= z.
Hypothesis Hlen : List.length groups = Z.to_nat c.
Hypothesis Hlay : forall g, In g groups -> layout_okb ev' z 0 (map snd g) = true.
Hypothesis Hcop : forall x y, In x (List.concat groups) -> In y (List.concat groups) -> child_key x = child_key y -> x = y.
Hypothesis Hfix : forall x, In x (List.concat groups) -> fst x = true -> forall g, In g groups -> In x g.
Hypothesis Hnames : forall x y, In x (List.concat groups) -> In y (List.concat groups) ->
                                 sig_name (snd x) = sig_name (snd y) -> child_key x = child_key y.
Hypothesis Hpos : forall x, In x (List.concat groups) -> u32_ok (sig_pos (snd x)) = true.
Hypothesis Hch : forall x, In x (List.concat groups) -> find_key sig_id (child_key x) children = Some (sig_set_pos (snd x) 0).
Hypothesis Hfs : forall x, In x (List.concat groups) -> memb (child_key x) fixed = fst x.

Let ng := List.length groups.
Definition grp (j : nat) := nth j groups [].

Lemma grp_In_concat : forall j x, In x (grp j) -> In x (List.concat groups).
Proof. intros j x H. apply concat_nth_In. exists j. split; auto. eapply nth_beyond_nil; eauto. Qed.

Lemma grp_In_groups : forall j, (j < ng)%nat -> In (grp j) groups.
Proof. intros j H. apply nth_In. exact H. Qed.

Record rinv (k : nat) (P : list (bool * sig)) (gs : groups_t) (insf : list string) : Prop := {
  r_len : List.length gs = ng;
  r_sound : forall j x, In x (nth j gs []) -> In x (grp j);
  r_lay : forall j, (j < ng)%nat -> layout_okb ev' z 0 (map snd (nth j gs [])) = true;
  r_done : forall j x, (j < k)%nat -> In x (grp j) -> In x (nth j gs []);
  r_pref : forall x, In x P -> In x (nth k gs []);
  r_fix : forall x j j', In x (nth j gs []) -> fst x = true -> (j' < ng)%nat -> In x (nth j' gs []);
  r_insf : forall id, In id insf <-> exists j x, In x (nth j gs []) /\ fst x = true /\ child_key x = id;
  r_nonfix : forall j x, In x (nth j gs []) -> fst x = false -> (j < k)%nat \/ (j = k /\ In x P)
}.

(* the position and size facts of a member *)
Lemma member_bounds : forall j x, In x (grp j) ->
  0 <= sig_pos (snd x) /\ 1 <= sig_size ev' (snd x) /\ sig_pos (snd x) + sig_size ev' (snd x) <= z.
Proof.
  intros j x Hx. assert (Hj : (j < ng)%nat) by (eapply nth_beyond_nil; eauto).
  pose proof (Hlay _ (grp_In_groups j Hj)) as L. destruct (layout_okb_facts _ _ _ _ L) as [_ F].
  apply (F (snd x)). now apply in_map.
Qed.

(* verifying the member x against a state group that does not hold it *)
Lemma verify_member : forall j x gj,
  In x (grp j) -> (forall d, In d gj -> In d (grp j)) -> ~ In x gj ->
  layout_verify ev' z (map snd gj) (sig_set_pos (snd x) 0) (sig_pos (snd x)) = Ok tt.
Proof.
  intros j x gj Hx Hsub Hnot. destruct (member_bounds j x Hx) as (B1 & B2 & B3).
  unfold layout_verify. rewrite rt_sig_size_set_pos.
  destruct (sig_pos (snd x) <? 0) eqn:E1; [apply Z.ltb_lt in E1; lia|].
  destruct (sig_size ev' (snd x) >? z) eqn:E2; [apply Z.gtb_lt in E2; lia|].
  destruct (sig_pos (snd x) + sig_size ev' (snd x) >? z) eqn:E3; [apply Z.gtb_lt in E3; lia|].
  apply layout_scan_disjoint. intros t Ht. apply in_map_iff in Ht. destruct Ht as (d & <- & Hd).
  assert (Hj : (j < ng)%nat) by (eapply nth_beyond_nil; eauto).
  pose proof (Hlay _ (grp_In_groups j Hj)) as L.
  assert (Hne : snd x <> snd d).
  { intros E. assert (x = d).
    { apply Hcop; try (eapply grp_In_concat; eauto). unfold child_key. now rewrite E. }
    subst d. contradiction. }
  destruct (layout_okb_disjoint _ _ _ _ (snd x) (snd d) L) as [D|D]; auto.
  - now apply in_map.
  - apply in_map. auto.
Qed.

Lemma insert_member_ok : forall j x gj,
  In x (grp j) -> (forall d, In d gj -> In d (grp j)) -> ~ In x gj ->
  layout_okb ev' z 0 (map snd gj) = true ->
  layout_okb ev' z 0 (layout_insert (map snd gj) (sig_set_pos (snd x) 0) (sig_pos (snd x))) = true.
Proof.
  intros j x gj Hx Hsub Hnot Hok. destruct (member_bounds j x Hx) as (B1 & B2 & B3).
  pose proof (verify_member j x gj Hx Hsub Hnot) as V. unfold layout_verify in V.
  rewrite rt_sig_size_set_pos in V.
  destruct (sig_pos (snd x) <? 0); [discriminate|]. destruct (sig_size ev' (snd x) >? z); [discriminate|].
  destruct (sig_pos (snd x) + sig_size ev' (snd x) >? z); [discriminate|].
  apply rt_layout_insert_ok; auto; rewrite rt_sig_size_set_pos; auto.
Qed.

Lemma new_elem : forall x : bool * sig, (fst x, sig_set_pos (sig_set_pos (snd x) 0) (sig_pos (snd x))) = x.
Proof. intros [fx sx]. cbn. now rewrite sig_set_pos_twice, sig_set_pos_self. Qed.

Lemma state_member : forall gs d, List.length gs = ng -> (forall j y, In y (nth j gs []) -> In y (grp j)) ->
  In d (List.concat gs) -> exists j, (j < ng)%nat /\ In d (nth j gs []) /\ In d (List.concat groups).
Proof.
  intros gs d Hl Hs Hd. apply concat_nth_In in Hd. destruct Hd as (j & Hj & Hd). exists j. rewrite Hl in Hj.
  repeat split; auto. eapply grp_In_concat; eauto.
Qed.

Lemma key_c0 : forall x : bool * sig, sig_id (sig_set_pos (snd x) 0) = child_key x.
Proof. intros x. unfold child_key. apply rt_sig_id_set_pos. Qed.

(* ---- one payload ref: a fixed member met for the first time *)
Lemma step_fixed_new : forall k P gs insf x rest,
  (k < ng)%nat -> grp k = P ++ x :: rest -> fst x = true -> rinv k P gs insf -> ~ In (child_key x) insf ->
  exists gs', mux_insert_fixed ev' z gs (sig_set_pos (snd x) 0) (sig_pos (snd x)) = Ok gs' /\
              rinv k (P ++ [x]) gs' (child_key x :: insf).
Proof.
  intros k P gs insf x rest Hk Eg Hfx I Hnew. destruct I as [R1 R2 R3 R4 R5 R6 R7 R8].
  assert (Hxk : In x (grp k)) by (rewrite Eg; apply in_or_app; right; apply in_eq).
  assert (Hxc : In x (List.concat groups)) by (eapply grp_In_concat; eauto).
  assert (Hxj : forall j, (j < ng)%nat -> In x (grp j)) by (intros j Hj; apply Hfix; auto; now apply grp_In_groups).
  assert (Habsent : forall d, In d (List.concat gs) -> child_key d <> child_key x).
  { intros d Hd E. destruct (state_member gs d R1 R2 Hd) as (j & Hj & Hdj & Hdc).
    assert (d = x) by (apply Hcop; auto). subst d. apply Hnew. apply R7. exists j, x. auto. }
  unfold mux_insert_fixed.
  rewrite mux_name_clash_intro.
  2:{ intros d Hd Hn. destruct (state_member gs d R1 R2 Hd) as (j & Hj & Hdj & Hdc).
      rewrite rt_sig_name_set_pos in Hn. rewrite key_c0. apply (Hnames d x Hdc Hxc Hn). }
  rewrite key_c0.
  destruct (memb (child_key x) (map child_key (List.concat gs))) eqn:Em.
  { exfalso. apply memb_In in Em. apply in_map_iff in Em. destruct Em as (d & Ed & Hd). eapply Habsent; eauto. }
  rewrite foldM_verify_intro.
  2:{ intros g Hg. destruct (In_nth _ _ [] Hg) as (j & Hj & <-). rewrite R1 in Hj.
      apply (verify_member j x); auto.
      intros C. apply (Habsent x); auto. apply concat_nth_In. exists j. rewrite R1. auto. }
  cbn [bind]. eexists. split; [reflexivity|].
  assert (Hnth : forall j y, In y (nth j (map (group_insert true (sig_set_pos (snd x) 0) (sig_pos (snd x))) gs) []) <->
                             (j < ng)%nat /\ (y = x \/ In y (nth j gs []))).
  { intros j y. destruct (Nat.ltb j ng) eqn:Ej.
    - apply Nat.ltb_lt in Ej. rewrite (nth_map_lt _ gs j [] []) by (rewrite R1; auto).
      rewrite group_insert_In'. rewrite <- Hfx at 1. rewrite new_elem. tauto.
    - apply Nat.ltb_ge in Ej. rewrite nth_overflow by (rewrite map_length, R1; auto). split; [intros []|lia]. }
  constructor.
  - now rewrite map_length.
  - intros j y Hy. apply Hnth in Hy. destruct Hy as [Hj [->|Hy]]; auto.
  - intros j Hj. rewrite (nth_map_lt _ gs j [] []) by (rewrite R1; auto). rewrite group_insert_snd'.
    apply (insert_member_ok j x); auto.
    intros C. apply (Habsent x); auto. apply concat_nth_In. exists j. rewrite R1. auto.
  - intros j y Hj Hy. apply Hnth. split; [lia|]. right. auto.
  - intros y Hy. apply Hnth. split; auto. apply in_app_or in Hy. destruct Hy as [Hy|[<-|[]]]; auto.
  - intros y j j' Hy Hfy Hj'. apply Hnth. split; auto. apply Hnth in Hy. destruct Hy as [Hj [->|Hy]]; auto.
    right. eapply R6; eauto.
  - intros id. split.
    + intros [<-|Hid].
      * exists k, x. repeat split; auto. apply Hnth. auto.
      * apply R7 in Hid. destruct Hid as (j & y & Hy & Hfy & Ey). exists j, y. repeat split; auto.
        apply Hnth. split; [|auto]. rewrite <- R1. eapply nth_beyond_nil; eauto.
    + intros (j & y & Hy & Hfy & Ey). apply Hnth in Hy. destruct Hy as [Hj [->|Hy]]; [left; auto|].
      right. apply R7. eauto.
  - intros j y Hy Hfy. apply Hnth in Hy. destruct Hy as [Hj [->|Hy]]; [congruence|].
    destruct (R8 j y Hy Hfy) as [?|[? ?]]; auto. right. split; auto. apply in_or_app; auto.
Qed.

(* ---- a fixed member that is already in place *)
Lemma step_fixed_seen : forall k P gs insf x rest,
  (k < ng)%nat -> grp k = P ++ x :: rest -> fst x = true -> rinv k P gs insf -> In (child_key x) insf ->
  rinv k (P ++ [x]) gs insf.
Proof.
  intros k P gs insf x rest Hk Eg Hfx I Hseen. destruct I as [R1 R2 R3 R4 R5 R6 R7 R8].
  assert (Hxk : In x (grp k)) by (rewrite Eg; apply in_or_app; right; apply in_eq).
  assert (Hxc : In x (List.concat groups)) by (eapply grp_In_concat; eauto).
  constructor; auto.
  - intros y Hy. apply in_app_or in Hy. destruct Hy as [Hy|[<-|[]]]; auto.
    apply R7 in Hseen. destruct Hseen as (j & d & Hd & Hfd & Ed).
    assert (d = x). { apply Hcop; auto. eapply grp_In_concat. eapply R2; eauto. }
    subst d. eapply R6; eauto.
  - intros j y Hy Hfy. destruct (R8 j y Hy Hfy) as [?|[? ?]]; auto. right. split; auto. apply in_or_app; auto.
Qed.

Lemma ssorted_app_lt : forall {A} (p : A -> Z) a y b, ssorted p (a ++ y :: b) -> forall t, In t a -> p t < p y.
Proof.
  intros A p a; induction a as [|x r IH]; intros y b H t Ht; [contradiction|].
  cbn in H. inversion H as [|? ? Hr Hx]; subst. destruct Ht as [<-|Ht].
  - rewrite Forall_forall in Hx. apply Hx. apply in_or_app. right. apply in_eq.
  - eapply IH; eauto.
Qed.

Lemma prefix_fresh : forall k P x rest, (k < ng)%nat -> grp k = P ++ x :: rest -> ~ In x P.
Proof.
  intros k P x rest Hk Eg Hin.
  pose proof (Hlay (grp k) (grp_In_groups k Hk)) as L. destruct (layout_okb_facts _ _ _ _ L) as [S _]. rewrite Eg in S. rewrite map_app in S. cbn [map] in S.
  pose proof (ssorted_app_lt sig_pos _ _ _ S (snd x)) as Hlt. specialize (Hlt (in_map snd _ _ Hin)). lia.
Qed.

(* ---- a member of some groups only *)
Lemma step_nonfixed : forall k P gs insf x rest,
  (k < ng)%nat -> grp k = P ++ x :: rest -> fst x = false -> rinv k P gs insf ->
  exists gs', mux_insert_group ev' c z gs (sig_set_pos (snd x) 0) (sig_pos (snd x)) (Z.of_nat k) = Ok gs' /\
              rinv k (P ++ [x]) gs' insf.
Proof.
  intros k P gs insf x rest Hk Eg Hfx I. destruct I as [R1 R2 R3 R4 R5 R6 R7 R8].
  assert (Hxk : In x (grp k)) by (rewrite Eg; apply in_or_app; right; apply in_eq).
  assert (Hxc : In x (List.concat groups)) by (eapply grp_In_concat; eauto).
  assert (Hsame : forall d, In d (List.concat gs) -> child_key d = child_key x -> d = x).
  { intros d Hd E. destruct (state_member gs d R1 R2 Hd) as (j & Hj & Hdj & Hdc). apply Hcop; auto. }
  assert (Hnotk : ~ In x (nth k gs [])).
  { intros C. destruct (R8 k x C Hfx) as [?|[_ HP]]; [lia|]. eapply prefix_fresh; eauto. }
  unfold mux_insert_group.
  rewrite mux_name_clash_intro.
  2:{ intros d Hd Hn. destruct (state_member gs d R1 R2 Hd) as (j & Hj & Hdj & Hdc).
      rewrite rt_sig_name_set_pos in Hn. rewrite key_c0. apply (Hnames d x Hdc Hxc Hn). }
  destruct (Z.of_nat k <? 0) eqn:E0; [apply Z.ltb_lt in E0; lia|].
  destruct (Z.of_nat k >=? c) eqn:E1; [rewrite Z.geb_leb in E1; apply Z.leb_le in E1; unfold ng in Hk; lia|].
  rewrite Nat2Z.id. rewrite key_c0.
  assert (Hv : layout_verify ev' z (map snd (nth k gs [])) (sig_set_pos (snd x) 0) (sig_pos (snd x)) = Ok tt).
  { apply (verify_member k x); auto. }
  assert (Hres : rinv k (P ++ [x]) (update_nth k (group_insert false (sig_set_pos (snd x) 0) (sig_pos (snd x))) gs) insf).
  { assert (Hnth : forall j y, In y (nth j (update_nth k (group_insert false (sig_set_pos (snd x) 0) (sig_pos (snd x))) gs) []) <->
                               ((j = k /\ y = x) \/ In y (nth j gs []))).
    { intros j y. rewrite nth_update_nth. destruct (Nat.eqb j k) eqn:Ej.
      - apply Nat.eqb_eq in Ej. subst j. assert (El : Nat.ltb k (List.length gs) = true) by (apply Nat.ltb_lt; rewrite R1; auto).
        rewrite El. rewrite group_insert_In'. rewrite <- Hfx at 1. rewrite new_elem. tauto.
      - apply Nat.eqb_neq in Ej. split; [auto | intros [[? _]|?]; [contradiction | auto]]. }
    constructor.
    - now rewrite rt_update_nth_length.
    - intros j y Hy. apply Hnth in Hy. destruct Hy as [[-> ->]|Hy]; auto.
    - intros j Hj. rewrite nth_update_nth. destruct (Nat.eqb j k) eqn:Ej; auto.
      apply Nat.eqb_eq in Ej. subst j. assert (El : Nat.ltb k (List.length gs) = true) by (apply Nat.ltb_lt; rewrite R1; auto).
      rewrite El. rewrite group_insert_snd'. apply (insert_member_ok k x); auto.
    - intros j y Hj Hy. apply Hnth. right. auto.
    - intros y Hy. apply Hnth. apply in_app_or in Hy. destruct Hy as [Hy|[<-|[]]]; auto.
    - intros y j j' Hy Hfy Hj'. apply Hnth. right. apply Hnth in Hy. destruct Hy as [[_ ->]|Hy]; [congruence|].
      eapply R6; eauto.
    - intros id. rewrite R7. split; intros (j & y & Hy & Hfy & Ey); exists j, y; repeat split; auto.
      + apply Hnth. auto.
      + apply Hnth in Hy. destruct Hy as [[_ ->]|Hy]; [congruence | auto].
    - intros j y Hy Hfy. apply Hnth in Hy. destruct Hy as [[-> ->]|Hy].
      + right. split; auto. apply in_or_app. right. apply in_eq.
      + destruct (R8 j y Hy Hfy) as [?|[? ?]]; auto. right. split; auto. apply in_or_app; auto. }
  destruct (find_key child_key (child_key x) (List.concat gs)) as [d|] eqn:F.
  - apply find_key_Some in F. destruct F as [Fd Fk]. pose proof (Hsame d Fd Fk) as Ed. subst d.
    rewrite Hfx.
    destruct (memb (child_key x) (map child_key (nth k gs []))) eqn:Em.
    { exfalso. apply memb_In in Em. apply in_map_iff in Em. destruct Em as (y & Ey & Hy).
      assert (y = x). { apply Hsame; auto. apply concat_nth_In. exists k. rewrite R1. auto. }
      subst y. contradiction. }
    rewrite Z.eqb_refl. cbn [negb]. rewrite Hv. cbn [bind]. eexists. split; [reflexivity | exact Hres].
  - rewrite Hv. cbn [bind]. eexists. split; [reflexivity | exact Hres].
Qed.

(* ---- one payload ref *)
Lemma step_ref : forall k P gs insf x rest,
  (k < ng)%nat -> grp k = P ++ x :: rest -> rinv k P gs insf ->
  exists gs' insf',
    mux_load_ref ev' c z children fixed (Z.of_nat k) (gs, insf) (child_key x, sig_pos (snd x)) = Ok (gs', insf') /\
    rinv k (P ++ [x]) gs' insf'.
Proof.
  intros k P gs insf x rest Hk Eg I.
  assert (Hxk : In x (grp k)) by (rewrite Eg; apply in_or_app; right; apply in_eq).
  assert (Hxc : In x (List.concat groups)) by (eapply grp_In_concat; eauto).
  unfold mux_load_ref. rewrite (Hch x Hxc). rewrite (Hfs x Hxc).
  destruct (fst x) eqn:Hfx.
  - destruct (memb (child_key x) insf) eqn:Em.
    + apply memb_In in Em. exists gs, insf. split; auto. eapply step_fixed_seen; eauto.
    + apply memb_false in Em. destruct (step_fixed_new k P gs insf x rest Hk Eg Hfx I Em) as (gs' & E & I').
      rewrite E. cbn [bind]. eauto.
  - destruct (step_nonfixed k P gs insf x rest Hk Eg Hfx I) as (gs' & E & I').
    rewrite E. cbn [bind]. eauto.
Qed.

(* the refs of one saved group *)
Lemma NoDup_map_inj_on : forall {A B} (f : A -> B) l, NoDup l -> (forall x y, In x l -> In y l -> f x = f y -> x = y) -> NoDup (map f l).
Proof.
  intros A B f l; induction l as [|a r IH]; intros Hnd Hinj; cbn; constructor; inversion Hnd; subst.
  - intros C. apply in_map_iff in C. destruct C as (y & Ey & Hy). assert (y = a) by (apply Hinj; auto using in_eq, in_cons). subst. contradiction.
  - apply IH; auto. intros; apply Hinj; auto using in_cons.
Qed.

Lemma ssorted_NoDup : forall {A} (p : A -> Z) l, ssorted p l -> NoDup l.
Proof.
  intros A p l H; induction H; constructor; auto. intros C. rewrite Forall_forall in H0. specialize (H0 a C). lia.
Qed.

Lemma group_keys_nodup : forall k, (k < ng)%nat -> NoDup (map child_key (grp k)).
Proof.
  intros k Hk. pose proof (Hlay (grp k) (grp_In_groups k Hk)) as L. destruct (layout_okb_facts _ _ _ _ L) as [S _].
  apply ssorted_NoDup in S. apply NoDup_map_inv in S.
  apply NoDup_map_inj_on; auto. intros x y Hx Hy E. apply Hcop; auto; eapply grp_In_concat; eauto.
Qed.

Lemma group_refs_map : forall k, (k < ng)%nat ->
  refs_map (map (fun x : bool * sig => save_ref (snd x)) (grp k)) = map (fun x : bool * sig => (child_key x, sig_pos (snd x))) (grp k).
Proof.
  intros k Hk. unfold refs_map.
  pose proof (group_keys_nodup k Hk) as Hnd.
  assert (Hk' : map ref_key (map (fun x : bool * sig => save_ref (snd x)) (grp k)) = map child_key (grp k)) by (rewrite map_map; reflexivity).
  rewrite (dedup_key_id ref_key _ []); [|now rewrite Hk'|auto].
  rewrite map_map. apply map_ext_in. intros x Hx. cbn [save_ref prf_id prf_pos].
  change (sig_id (snd x)) with (ref_key (save_ref (snd x))).
  rewrite (find_last_nodup ref_key _ (save_ref (snd x))).
  - cbn. f_equal. apply u32_id. apply Hpos. eapply grp_In_concat; eauto.
  - now rewrite Hk'.
  - apply in_map_iff. exists x. auto.
Qed.

(* ---- one group *)
Lemma inner_loop : forall k rest P gs insf,
  (k < ng)%nat -> grp k = P ++ rest -> rinv k P gs insf ->
  exists gs' insf',
    foldM (mux_load_ref ev' c z children fixed (Z.of_nat k)) (gs, insf)
          (map (fun x : bool * sig => (child_key x, sig_pos (snd x))) rest) = Ok (gs', insf') /\
    rinv k (grp k) gs' insf'.
Proof.
  intros k rest; induction rest as [|x r IH]; intros P gs insf Hk Eg I.
  - cbn. exists gs, insf. split; auto. rewrite app_nil_r in Eg. now rewrite Eg.
  - cbn [map foldM]. destruct (step_ref k P gs insf x r Hk Eg I) as (gs1 & insf1 & E & I1).
    rewrite E. cbn [bind]. apply (IH (P ++ [x])); auto. now rewrite <- app_assoc.
Qed.

Lemma rinv_next : forall k gs insf, rinv k (grp k) gs insf -> rinv (S k) [] gs insf.
Proof.
  intros k gs insf [R1 R2 R3 R4 R5 R6 R7 R8]. constructor; auto.
  - intros j x Hj Hx. assert (j < k \/ j = k)%nat as [Hlt| ->] by lia; auto.
  - intros x [].
  - intros j x Hx Hfx. destruct (R8 j x Hx Hfx) as [?|[-> _]]; left; lia.
Qed.

(* ---- all groups *)
Lemma outer_loop : forall rest k gs insf,
  (k + List.length rest = ng)%nat -> (forall i, (i < List.length rest)%nat -> nth i rest [] = grp (k + i)) ->
  rinv k [] gs insf ->
  exists gs' insf',
    mux_load_groups ev' c z children fixed (Z.of_nat k) (gs, insf)
                    (map (map (fun x : bool * sig => save_ref (snd x))) rest) = Ok (gs', insf') /\
    rinv ng [] gs' insf'.
Proof.
  induction rest as [|g r IH]; intros k gs insf Hl Hnth I.
  - cbn in *. exists gs, insf. split; auto. replace ng with k by lia. exact I.
  - cbn [map mux_load_groups]. cbn [List.length] in Hl.
    assert (Hk : (k < ng)%nat) by lia.
    assert (Eg : g = grp k). { specialize (Hnth 0%nat ltac:(cbn; lia)). cbn in Hnth. now rewrite Nat.add_0_r in Hnth. }
    subst g. rewrite (group_refs_map k Hk).
    destruct (inner_loop k (grp k) [] gs insf Hk eq_refl I) as (gs1 & insf1 & E & I1).
    rewrite E. cbn [bind].
    replace (Z.of_nat k + 1) with (Z.of_nat (S k)) by lia.
    apply IH.
    + lia.
    + intros i Hi. specialize (Hnth (S i) ltac:(cbn; lia)). cbn in Hnth. rewrite Hnth. f_equal. lia.
    + now apply rinv_next.
Qed.

Lemma rinv_init : rinv 0 [] (repeat [] ng) [].
Proof.
  assert (E : forall j, nth j (repeat (@nil (bool * sig)) ng) [] = []).
  { intros j. destruct (Nat.ltb j ng) eqn:Ej.
    - apply nth_repeat.
    - apply Nat.ltb_ge in Ej. apply nth_overflow. now rewrite repeat_length. }
  constructor.
  - apply repeat_length.
  - intros j x Hx. rewrite E in Hx. contradiction.
  - intros j _. rewrite E. cbn. apply Z.leb_le. lia.
  - intros j x Hj. lia.
  - intros x [].
  - intros x j j' Hx. rewrite E in Hx. contradiction.
  - intros id. split; [intros [] | intros (j & x & Hx & _)]. rewrite E in Hx. contradiction.
  - intros j x Hx. rewrite E in Hx. contradiction.
Qed.

Lemma ssorted_map_inv : forall {A B} (f : A -> B) (p : B -> Z) l, ssorted p (map f l) -> ssorted (fun a => p (f a)) l.
Proof.
  intros A B f p l; induction l as [|a r IH]; intros H; cbn in *; [constructor|].
  inversion H as [|? ? HS HF]; subst. constructor.
  - apply IH. exact HS.
  - apply Forall_forall. intros b Hb. rewrite Forall_forall in HF. apply HF. now apply in_map.
Qed.

Theorem groups_rebuilt :
  exists insf, mux_load_groups ev' c z children fixed 0 (repeat [] (Z.to_nat c), [])
                 (map (map (fun x : bool * sig => save_ref (snd x))) groups) = Ok (groups, insf).
Proof.
  destruct (outer_loop groups 0 (repeat [] ng) []) as (gs & insf & E & I).
  - reflexivity.
  - intros i Hi. reflexivity.
  - apply rinv_init.
  - exists insf. rewrite <- Hlen. fold ng. change (Z.of_nat 0) with 0 in E. transitivity (@Ok (groups_t * list string) (gs, insf)); [exact E|]. f_equal. f_equal.
    destruct I as [R1 R2 R3 R4 R5 R6 R7 R8].
    apply (nth_ext gs groups [] []); auto.
    intros j Hj. rewrite R1 in Hj.
    pose proof (R3 j Hj) as L1. pose proof (Hlay (grp j) (grp_In_groups j Hj)) as L2.
    destruct (layout_okb_facts _ _ _ _ L1) as [S1 _]. destruct (layout_okb_facts _ _ _ _ L2) as [S2 _].
    apply ssorted_map_inv in S1. apply ssorted_map_inv in S2.
    apply (ssorted_unique (fun a : bool * sig => sig_pos (snd a))); auto.
    + intros x Hx. apply R2; auto.
    + intros x Hx. apply R4; auto.
Qed.

End MuxFold.
