(* C12 — round trip of a multiplexer, part 4: the boolean structural equality is sound; what
   well-formedness says about the members of a multiplexer. *)
From Coq Require Import ZArith List String Bool Lia.
From Acme.C12 Require Import Proto NetModel Save Load Lemmas SigLemmas.
Import ListNotations.
Open Scope Z_scope.

Lemma list_eqb_eq : forall {A} (eq : A -> A -> bool) l1 l2,
  Forall (fun a => forall b, eq a b = true -> a = b) l1 -> list_eqb eq l1 l2 = true -> l1 = l2.
Proof.
  intros A eq l1; induction l1 as [|a r IH]; intros l2 H E; destruct l2 as [|b q]; cbn in E; try discriminate; auto.
  apply andb_true_iff in E. destruct E as [E1 E2]. inversion H; subst. f_equal; auto.
Qed.

Lemma entity_eqb_eq : forall a b, entity_eqb a b = true -> a = b.
Proof.
  intros [i1 n1 d1 [s1 ns1]] [i2 n2 d2 [s2 ns2]] H. unfold entity_eqb in H. cbn [e_id e_name e_desc e_time fst snd] in H.
  apply andb_true_iff in H. destruct H as [H H5]. apply andb_true_iff in H. destruct H as [H H4].
  apply andb_true_iff in H. destruct H as [H H3]. apply andb_true_iff in H. destruct H as [H1 H2].
  apply String.eqb_eq in H1, H2, H3. apply Z.eqb_eq in H4, H5. now subst.
Qed.

Lemma assign_eqb_eq : forall a b, assign_eqb a b = true -> a = b.
Proof.
  intros [k1 v1] [k2 v2] H. unfold assign_eqb in H. cbn in H. apply andb_true_iff in H. destruct H as [H1 H2].
  apply String.eqb_eq in H1. subst. f_equal.
  destruct v1, v2; cbn in H2; try discriminate; f_equal; [now apply String.eqb_eq | now apply Z.eqb_eq | now apply Z.eqb_eq].
Qed.

Lemma head_eqb_eq : forall a b, head_eqb a b = true -> a = b.
Proof.
  intros [e1 s1 st1 a1 p1] [e2 s2 st2 a2 p2] H. unfold head_eqb in H. cbn [sh_ent sh_send sh_start sh_attrs sh_pos] in H.
  apply andb_true_iff in H. destruct H as [H Hp]. apply andb_true_iff in H. destruct H as [H Ha].
  apply andb_true_iff in H. destruct H as [H Hst]. apply andb_true_iff in H. destruct H as [He Hs].
  apply entity_eqb_eq in He. apply Z.eqb_eq in Hp, Hst, Hs.
  apply list_eqb_eq in Ha; [now subst|]. apply Forall_forall. intros x _ y. apply assign_eqb_eq.
Qed.

Lemma sig_eqb_eq : forall a b, sig_eqb a b = true -> a = b.
Proof.
  induction a using sig_ind'; intros b E; destruct b as [h' t' u'|h' e'|h' c' z' g']; cbn in E; try discriminate.
  - apply andb_true_iff in E. destruct E as [E Eu]. apply andb_true_iff in E. destruct E as [Eh Et].
    apply head_eqb_eq in Eh. apply String.eqb_eq in Et, Eu. now subst.
  - apply andb_true_iff in E. destruct E as [E1 E2]. apply head_eqb_eq in E1. apply String.eqb_eq in E2. now subst.
  - apply andb_true_iff in E. destruct E as [E Eg]. apply andb_true_iff in E. destruct E as [E Ez].
    apply andb_true_iff in E. destruct E as [Eh Ec]. apply head_eqb_eq in Eh. apply Z.eqb_eq in Ec, Ez. subst.
    f_equal. apply list_eqb_eq in Eg; auto.
    eapply Forall_impl; [|exact H]. intros g0 Hg g2 Eg2. apply list_eqb_eq in Eg2; auto.
    eapply Forall_impl; [|exact Hg]. intros [fx sx] Hx [fy sy] Ex. cbn in *.
    apply andb_true_iff in Ex. destruct Ex as [Ex1 Ex2]. apply eqb_prop in Ex1. apply Hx in Ex2. now subst.
Qed.

Lemma child_eqb_eq : forall a b, child_eqb a b = true -> a = b.
Proof.
  intros [fa sa] [fb sb] H. unfold child_eqb in H. cbn in H. apply andb_true_iff in H. destruct H as [H1 H2].
  apply eqb_prop in H1. apply sig_eqb_eq in H2. now subst.
Qed.

(* copies_okb: equal keys, equal members *)
Lemma copies_okb_spec : forall groups, copies_okb groups = true ->
  forall x y, In x (List.concat groups) -> In y (List.concat groups) -> child_key x = child_key y -> x = y.
Proof.
  intros groups H x y Hx Hy E. unfold copies_okb in H. rewrite forallb_forall in H.
  pose proof (H x Hx) as Cx. pose proof (H y Hy) as Cy.
  change (fun x0 : bool * sig => sig_id (snd x0)) with child_key in *.
  change (sig_id (snd x)) with (child_key x) in Cx. change (sig_id (snd y)) with (child_key y) in Cy.
  rewrite E in Cx. destruct (find_key child_key (child_key y) (mux_children groups)) as [d|]; [|discriminate].
  apply child_eqb_eq in Cx. apply child_eqb_eq in Cy. congruence.
Qed.

Lemma fixed_okb_spec : forall groups, copies_okb groups = true -> fixed_okb groups = true ->
  forall x, In x (List.concat groups) -> fst x = true -> forall g, In g groups -> In x g.
Proof.
  intros groups Hc H x Hx Hfx g Hg. unfold fixed_okb in H. rewrite forallb_forall in H.
  pose proof (H x Hx) as Fx. rewrite Hfx in Fx. cbn in Fx. rewrite forallb_forall in Fx. specialize (Fx g Hg).
  apply memb_In in Fx. apply in_map_iff in Fx. destruct Fx as (y & Ey & Hy).
  assert (y = x). { apply (copies_okb_spec groups Hc); auto. apply in_concat. eauto. }
  now subst.
Qed.
