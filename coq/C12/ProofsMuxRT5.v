(* C12 — round trip of a multiplexer, part 5: every signal tree loads back
   (load_sig (save_sig s) = s at position 0), by induction over the tree. *)
From Coq Require Import ZArith List String Bool Lia.
From Acme.C12 Require Import Proto NetModel Save Load Proj Domain Lemmas SigLemmas
     ProofsRT1 ProofsRT2 ProofsRT3 ProofsRT4 ProofsRT5 ProofsMuxRT1 ProofsMuxRT2 ProofsMuxRT3 ProofsMuxRT4.
Import ListNotations.
Open Scope Z_scope.

Arguments save_entity : simpl never.
Arguments load_entity : simpl never.
Arguments u32 : simpl never.
Arguments load_assigns : simpl never.
Arguments save_assigns : simpl never.
Arguments enc_sig_send : simpl never.
Arguments dec_sig_send : simpl never.
Arguments isort : simpl never.
Arguments emit_groups : simpl never.
Arguments mux_load_groups : simpl never.
Arguments first_flags : simpl never.

Definition tr (x : bool * sig) : triple := (fst x, child_key x, save_sig (snd x)).

Lemma psig_key_save : forall s, psig_key (save_sig s) = sig_id s.
Proof. intros [h t u|h e|h c z g]; reflexivity. Qed.

Lemma keep_group_incl : forall g ins t, In t (fst (keep_group g ins)) -> In t g.
Proof.
  induction g as [|[[fx id] ps] r IH]; intros ins t H; cbn in H; [contradiction|].
  destruct fx.
  - destruct (memb id ins); [right; eapply IH; eauto|].
    destruct (keep_group r (id :: ins)) as [k i'] eqn:E. cbn in H. destruct H as [<-|H]; [left; auto|].
    right. apply (IH (id :: ins)). rewrite E. exact H.
  - destruct (keep_group r ins) as [k i'] eqn:E. cbn in H. destruct H as [<-|H]; [left; auto|].
    right. apply (IH ins). rewrite E. exact H.
Qed.

Lemma keep_groups_incl : forall gs ins t, In t (keep_groups gs ins) -> In t (List.concat gs).
Proof.
  induction gs as [|g r IH]; intros ins t H; cbn in *; [contradiction|].
  destruct (keep_group g ins) as [k i'] eqn:E. apply in_app_or in H. apply in_or_app. destruct H as [H|H].
  - left. apply (keep_group_incl g ins). rewrite E. exact H.
  - right. eapply IH; eauto.
Qed.

Lemma concat_map_map : forall {A B} (f : A -> B) (l : list (list A)), List.concat (map (map f) l) = map f (List.concat l).
Proof. intros A B f l; induction l as [|a r IH]; cbn; auto. now rewrite map_app, IH. Qed.

Lemma dedup_key_map : forall {A B} (f : A -> B) (keyA : A -> string) (keyB : B -> string) l seen,
  (forall a, keyB (f a) = keyA a) -> dedup_key keyB (map f l) seen = map f (dedup_key keyA l seen).
Proof.
  intros A B f keyA keyB l; induction l as [|a r IH]; intros seen H; cbn; auto.
  rewrite H. destruct (memb (keyA a) seen); [apply IH; auto|]. cbn. f_equal. apply IH; auto.
Qed.

Lemma select_first_flags_map_in : forall {A B} (f : A -> B) (keyA : A -> string) (keyB : B -> string) l seen,
  (forall a, In a l -> keyB (f a) = keyA a) ->
  select (map f l) (first_flags (map keyB (map f l)) seen) = map f (dedup_key keyA l seen).
Proof.
  intros A B f keyA keyB l; induction l as [|a r IH]; intros seen H; cbn; auto.
  rewrite H by apply in_eq. unfold first_flags; fold first_flags. cbn.
  destruct (memb (keyA a) seen); cbn; [apply IH; intros; apply H; now right|].
  f_equal. apply IH; intros; apply H; now right.
Qed.

(* what the saver emits for the members of a multiplexer: the distinct members, in order of first occurrence *)
Lemma emitted_select : forall groups,
  let kept := keep_groups (map (map tr) groups) [] in
  select (map snd kept) (first_flags (map psig_key (map snd kept)) []) =
  map (fun x : bool * sig => save_sig (snd x)) (mux_children groups).
Proof.
  intros groups kept.
  rewrite (select_first_flags_map_in snd tid psig_key kept []).
  - unfold kept. rewrite keep_groups_dedup by (intros y []).
    rewrite concat_map_map. rewrite (dedup_key_map tr child_key tid) by reflexivity.
    rewrite map_map. reflexivity.
  - intros t Ht. apply keep_groups_incl in Ht. rewrite concat_map_map in Ht. apply in_map_iff in Ht.
    destruct Ht as (x & <- & _). cbn. apply psig_key_save.
Qed.

Lemma emitted_fixed : forall groups,
  (forall x y, In x (List.concat groups) -> In y (List.concat groups) -> child_key x = child_key y -> x = y) ->
  let kept := keep_groups (map (map tr) groups) [] in
  forall x, In x (List.concat groups) -> memb (child_key x) (map tid (filter tfx kept)) = fst x.
Proof.
  intros groups Hcop kept x Hx.
  assert (Hk : forall t, In t kept -> exists y, In y (List.concat groups) /\ t = tr y).
  { intros t Ht. apply keep_groups_incl in Ht. rewrite concat_map_map in Ht. apply in_map_iff in Ht.
    destruct Ht as (y & <- & Hy). eauto. }
  destruct (memb (child_key x) (map tid (filter tfx kept))) eqn:E.
  - apply memb_In in E. apply in_map_iff in E. destruct E as (t & Et & Ht). apply filter_In in Ht. destruct Ht as [Ht Hf].
    destruct (Hk t Ht) as (y & Hy & ->). cbn in Et, Hf. assert (y = x) by (apply Hcop; auto). subst y. now rewrite Hf.
  - destruct (fst x) eqn:Hfx; auto. exfalso. apply memb_false in E. apply E.
    (* the first occurrence of the id of x is kept *)
    assert (Hin : In (child_key x) (map tid (dedup_key tid kept []))).
    { unfold kept. rewrite keep_groups_dedup by (intros y []). apply dedup_key_keys; [|intros []].
      rewrite concat_map_map, map_map. apply in_map_iff. exists x. split; auto. }
    apply in_map_iff in Hin. destruct Hin as (t & Et & Ht). apply dedup_key_In in Ht. destruct Ht as [Ht _].
    apply in_map_iff. exists t. split; auto. apply filter_In. split; auto.
    destruct (Hk t Ht) as (y & Hy & ->). cbn in Et. assert (y = x) by (apply Hcop; auto). subst y. cbn. exact Hfx.
Qed.

Lemma mapM_map_to : forall {A B C} (f : A -> result B) (g : C -> A) (h : C -> B) l,
  (forall x, In x l -> f (g x) = Ok (h x)) -> mapM f (map g l) = Ok (map h l).
Proof.
  intros A B C f g h l; induction l as [|x r IH]; intros H; cbn; auto.
  rewrite H by apply in_eq. cbn. rewrite IH; auto. intros; apply H; now right.
Qed.

Section SigAll.
Variable now : time.
Variable n : net.

Let ev := net_env n.
Let ev' := net_env (canon n).

Hypothesis Htypes : agree type_key (ref_types n) (n_types n) (n_types (canon n)).
Hypothesis Hunits : agree unit_key (ref_units n) (n_units n) (n_units (canon n)).
Hypothesis Henums : agree enum_key (ref_enums n) (n_enums n) (n_enums (canon n)).
Hypothesis Hattrs : agree attr_key (ref_attrs n) (n_attrs n) (n_attrs (canon n)).

Definition sig_ctx (s : sig) : Prop :=
  (forall t, In t (sig_flat s) -> In t (all_sigs n)) /\ sig_okb ev s = true /\ sig_dom s = true /\ rt_name_inj (sig_flat s).

Lemma sig_flat_child : forall h c z groups g x,
  In g groups -> In x g -> forall t, In t (sig_flat (snd x)) -> In t (sig_flat (SMux h c z groups)).
Proof.
  intros h c z groups g x Hg Hx t Ht. cbn [sig_flat]. right. apply in_flat_map. exists g. split; auto.
  apply in_flat_map. exists x. split; auto.
Qed.

Definition mux_fits (lim : Z) (s : sig) : Prop := match s with SMux _ _ z _ => z <= lim | _ => True end.

Lemma calc_size_nonneg : forall v, 0 <= calc_size v.
Proof.
  intros v. unfold calc_size. destruct (v =? 0); [lia|]. destruct (v <? 0); [lia|].
  pose proof (Z.log2_nonneg v). lia.
Qed.

Theorem rt_sig_all : forall s, sig_ctx s -> forall lim, mux_fits lim s ->
  load_sig now ev' lim (save_sig s) = Ok (sig_set_pos s 0) /\ sig_size ev' s = sig_size ev s.
Proof.
  induction s using sig_ind'; intros (Hall & Hok & Hd & Hinj) lim Hfit.
  - apply (rt_sig_simple now n); auto. apply Hall. apply in_eq.
  - apply (rt_sig_simple now n); auto. apply Hall. apply in_eq.
  - (* multiplexer *)
    cbn [mux_fits] in Hfit.
    split; [|reflexivity].
    rename H into IHg.
    cbn [sig_okb sig_head] in Hok. apply andb_true_iff in Hok. destruct Hok as [Hasg Hok].
    apply andb_true_iff in Hok. destruct Hok as [Hok Hgrp]. apply andb_true_iff in Hok. destruct Hok as [Hok Hfixb].
    apply andb_true_iff in Hok. destruct Hok as [Hok Hcopb]. apply andb_true_iff in Hok. destruct Hok as [Hok Hlenb].
    apply andb_true_iff in Hok. destruct Hok as [Hc1 Hz1]. apply Z.leb_le in Hc1, Hz1. apply Z.eqb_eq in Hlenb.
    cbn [sig_dom sig_head] in Hd. apply andb_true_iff in Hd. destruct Hd as [Hhd Hd].
    apply andb_true_iff in Hd. destruct Hd as [Hd Hdg]. apply andb_true_iff in Hd. destruct Hd as [Hdc Hdz].
    unfold head_dom in Hhd. destruct (andb5 _ _ _ _ _ Hhd) as (D1 & D2 & D3 & D4 & D5).
    rewrite forallb_forall in Hgrp, Hdg.
    pose proof (copies_okb_spec groups Hcopb) as Hcop.
    pose proof (fixed_okb_spec groups Hcopb Hfixb) as Hfix.
    (* every member: context, hence the induction hypothesis *)
    assert (Hmem : forall x, In x (List.concat groups) -> exists g, In g groups /\ In x g).
    { intros x Hx. apply in_concat in Hx. destruct Hx as (g & Hg & Hx). eauto. }
    assert (Hctx : forall x, In x (List.concat groups) -> sig_ctx (snd x)).
    { intros x Hx. destruct (Hmem x Hx) as (g & Hg & Hxg).
      pose proof (Hgrp g Hg) as Gg. apply andb_true_iff in Gg. destruct Gg as [_ Gs]. rewrite forallb_forall in Gs.
      pose proof (Hdg g Hg) as Dg. rewrite forallb_forall in Dg.
      repeat split; auto.
      - intros t Ht. apply Hall. eapply sig_flat_child; eauto.
      - intros a b Ha Hb. apply Hinj; eapply sig_flat_child; eauto. }
    assert (IHx : forall x, In x (List.concat groups) ->
              load_sig now ev' z (save_sig (snd x)) = Ok (sig_set_pos (snd x) 0) /\ sig_size ev' (snd x) = sig_size ev (snd x)).
    { intros x Hx. destruct (Hmem x Hx) as (g & Hg & Hxg). rewrite Forall_forall in IHg. specialize (IHg g Hg).
      rewrite Forall_forall in IHg. apply (IHg x Hxg); [apply Hctx; auto|].
      (* a multiplexed multiplexer fits in the group that holds it *)
      pose proof (Hgrp g Hg) as Gg. apply andb_true_iff in Gg. destruct Gg as [Gl _].
      destruct (layout_okb_facts _ _ _ _ Gl) as [_ F]. specialize (F (snd x) (in_map snd _ _ Hxg)).
      destruct (snd x) as [h0 t0 u0|h0 e0|h0 c0 z0 g0]; cbn [mux_fits]; auto.
      cbn [sig_size] in F. pose proof (calc_size_nonneg (c0 - 1)). lia. }
    (* the saved form *)
    cbn [save_sig sig_head sig_kind_num].
    change (map (map (fun c0 : bool * sig => (fst c0, sig_id (snd c0), save_sig (snd c0)))) groups) with (map (map tr) groups).
    rewrite emit_groups_keep. set (kept := keep_groups (map (map tr) groups) []).
    cbn [load_sig]. rewrite load_save_entity by auto. cbn [bind].
    change (dec_sig_kind 3 =? 3) with true. cbn [negb].
    rewrite !u32_id by auto.
    destruct (z >? lim) eqn:E5; [apply Z.gtb_lt in E5; lia|].
    rewrite map_length. rewrite Hlenb, Z.eqb_refl. cbn [negb].
    destruct (c <? 0) eqn:E1; [apply Z.ltb_lt in E1; lia|]. destruct (c =? 0) eqn:E2; [apply Z.eqb_eq in E2; lia|].
    destruct (z <? 0) eqn:E3; [apply Z.ltb_lt in E3; lia|]. destruct (z =? 0) eqn:E4; [apply Z.eqb_eq in E4; lia|].
    (* the members are loaded once each *)
    rewrite mapM_flagged_select. unfold kept. rewrite emitted_select.
    rewrite (mapM_map_to _ _ (fun x : bool * sig => sig_set_pos (snd x) 0)).
    2:{ intros x Hx. apply IHx. unfold mux_children in Hx. apply dedup_key_In in Hx. tauto. }
    cbn [bind]. fold kept.
    (* the loop over the groups rebuilds them *)
    set (children := map (fun x : bool * sig => sig_set_pos (snd x) 0) (mux_children groups)).
    destruct (groups_rebuilt ev' c z groups children (map tid (filter tfx kept))) as (insf & Egr); auto.
    + lia.
    + intros g Hg. pose proof (Hgrp g Hg) as Gg. apply andb_true_iff in Gg. destruct Gg as [Gl _].
      rewrite (layout_okb_env ev ev'); auto.
      intros t Ht. apply in_map_iff in Ht. destruct Ht as (x & <- & Hx). apply IHx. apply in_concat. eauto.
    + intros x y Hx Hy Hn. unfold child_key. apply Hinj; auto.
      * destruct (Hmem x Hx) as (g & Hg & Hxg). eapply sig_flat_child; eauto. rewrite rt_sig_flat_head. apply in_eq.
      * destruct (Hmem y Hy) as (g & Hg & Hyg). eapply sig_flat_child; eauto. rewrite rt_sig_flat_head. apply in_eq.
    + intros x Hx. destruct (Hctx x Hx) as (_ & _ & Dx & _).
      destruct (snd x) as [h0 t0 u0|h0 e0|h0 c0 z0 g0]; cbn [sig_dom sig_head] in Dx; apply andb_true_iff in Dx; destruct Dx as [Dh _];
        unfold head_dom in Dh; destruct (andb5 _ _ _ _ _ Dh) as (_ & _ & _ & _ & Dp); exact Dp.
    + (* lookup of a member among the loaded children *)
      intros x Hx. unfold children.
      assert (Hkx : In (child_key x) (map child_key (mux_children groups))).
      { unfold mux_children. apply dedup_key_keys; [now apply in_map | intros []]. }
      apply in_map_iff in Hkx. destruct Hkx as (d & Ed & Hd0).
      assert (Hdcc : In d (List.concat groups)) by (unfold mux_children in Hd0; apply dedup_key_In in Hd0; tauto).
      assert (d = x) by (apply Hcop; auto). subst d.
      replace (child_key x) with (sig_id ((fun x0 : bool * sig => sig_set_pos (snd x0) 0) x)) by (cbn; apply rt_sig_id_set_pos).
      apply find_key_In_nodup.
      * rewrite map_map.
        rewrite (map_ext (fun x0 : bool * sig => sig_id (sig_set_pos (snd x0) 0)) child_key) by (intros a; apply rt_sig_id_set_pos).
        apply (dedup_key_NoDup child_key (List.concat groups) []).
      * exact (in_map (fun x0 : bool * sig => sig_set_pos (snd x0) 0) _ _ Hd0).
    + intros x Hx. apply emitted_fixed; auto.
    + rewrite Egr. cbn [bind fst].
      assert (HA : load_assigns (ev_attrs ev') (save_assigns (e_id (sh_ent h)) (sh_attrs h)) = Ok (sh_attrs h)).
      { apply (rt_sig_assigns n Hattrs (SMux h c z groups)); auto. apply Hall. apply in_eq. }

      rewrite HA. cbn [bind]. rewrite dec_enc_sig_send by auto. rewrite start_roundtrip by auto.
      destruct h; reflexivity.
Qed.

End SigAll.
