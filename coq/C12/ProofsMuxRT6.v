(* C12 — round trip of a multiplexer, part 6: entity ids and names inside well-formed signal
   trees: equal ids only between the shared occurrences of one member (which are equal); the ids the
   saver writes for a tree are duplicate free. *)
From Coq Require Import ZArith List String Bool Lia.
From Acme.C12 Require Import Proto NetModel Save Load Proj Domain Lemmas SigLemmas
     ProofsRT1 ProofsRT2 ProofsMuxRT1 ProofsMuxRT4 ProofsMuxRT5.
Import ListNotations.
Open Scope Z_scope.

Arguments emit_groups : simpl never.
Arguments first_flags : simpl never.

Lemma sig_ids_child : forall h c z groups x, In x (List.concat groups) -> incl (sig_ids (snd x)) (sig_ids (SMux h c z groups)).
Proof.
  intros h c z groups x Hx i Hi. unfold sig_ids in *. apply in_map_iff in Hi. destruct Hi as (t & <- & Ht).
  apply in_map. cbn [sig_flat]. right. apply in_concat in Hx. destruct Hx as (g & Hg & Hx).
  apply in_flat_map. exists g. split; auto. apply in_flat_map. exists x. split; auto.
Qed.

Lemma mux_children_rep : forall groups x,
  (forall a b, In a (List.concat groups) -> In b (List.concat groups) -> child_key a = child_key b -> a = b) ->
  In x (List.concat groups) -> In x (mux_children groups).
Proof.
  intros groups x Hcop Hx. assert (Hk : In (child_key x) (map child_key (mux_children groups))).
  { unfold mux_children. apply dedup_key_keys; [now apply in_map | intros []]. }
  apply in_map_iff in Hk. destruct Hk as (d & Ed & Hd).
  assert (d = x). { apply Hcop; auto. unfold mux_children in Hd. apply dedup_key_In in Hd. tauto. }
  now subst.
Qed.

Section Trees.
Variable ev : env.

(* equal ids inside a well-formed tree: the same signal *)
Theorem ids_eq_tree : forall s, sig_okb ev s = true -> tree_ids_okb s = true ->
  forall a b, In a (sig_flat s) -> In b (sig_flat s) -> sig_id a = sig_id b -> a = b.
Proof.
  induction s using sig_ind'; intros Hok Htree a b Ha Hb E.
  - cbn in Ha, Hb. destruct Ha as [<-|[]], Hb as [<-|[]]. reflexivity.
  - cbn in Ha, Hb. destruct Ha as [<-|[]], Hb as [<-|[]]. reflexivity.
  - rename H into IHg.
    cbn [sig_okb sig_head] in Hok. apply andb_true_iff in Hok. destruct Hok as [_ Hok].
    apply andb_true_iff in Hok. destruct Hok as [Hok Hgrp]. apply andb_true_iff in Hok. destruct Hok as [Hok _].
    apply andb_true_iff in Hok. destruct Hok as [_ Hcopb].
    pose proof (copies_okb_spec groups Hcopb) as Hcop.
    cbn [tree_ids_okb] in Htree. apply andb_true_iff in Htree. destruct Htree as [Htree T3].
    apply andb_true_iff in Htree. destruct Htree as [T1 T2].
    apply negb_true_iff, memb_false in T1. apply rt_pairwise_disjointb_iff in T2.
    apply ForallOrdPairs_map_inv in T2. apply ForallOrdPairs_map_inv in T2.
    rewrite forallb_forall in Hgrp, T3.
    assert (Hsub : forall t, In t (tl (sig_flat (SMux h c z groups))) ->
                    exists g x, In g groups /\ In x g /\ In t (sig_flat (snd x))).
    { intros t Ht. cbn [sig_flat tl] in Ht. apply in_flat_map in Ht. destruct Ht as (g & Hg & Ht).
      apply in_flat_map in Ht. destruct Ht as (x & Hx & Ht). eauto. }
    assert (Hroot : forall t, In t (tl (sig_flat (SMux h c z groups))) -> sig_id t <> sig_id (SMux h c z groups)).
    { intros t Ht Eid. destruct (Hsub t Ht) as (g & x & Hg & Hx & Htx). apply T1. rewrite <- Eid.
      apply in_flat_map. exists (snd x). split.
      - apply in_map. apply mux_children_rep; auto. apply in_concat. eauto.
      - now apply sig_ids_flat. }
    rewrite rt_sig_flat_head in Ha, Hb.
    destruct Ha as [<-|Ha], Hb as [<-|Hb]; auto.
    + exfalso. eapply Hroot; eauto.
    + exfalso. eapply Hroot; eauto.
    + destruct (Hsub a Ha) as (ga & xa & Hga & Hxa & Haa). destruct (Hsub b Hb) as (gb & xb & Hgb & Hxb & Hbb).
      assert (Hca : In xa (List.concat groups)) by (apply in_concat; eauto).
      assert (Hcb : In xb (List.concat groups)) by (apply in_concat; eauto).
      destruct (ForallOrdPairs_In T2 xa xb (mux_children_rep _ _ Hcop Hca) (mux_children_rep _ _ Hcop Hcb)) as [Ex|[D|D]].
      * subst xb. rewrite Forall_forall in IHg. specialize (IHg ga Hga). rewrite Forall_forall in IHg.
        apply (IHg xa Hxa); auto.
        -- pose proof (Hgrp ga Hga) as G. apply andb_true_iff in G. destruct G as [_ G]. rewrite forallb_forall in G. auto.
        -- pose proof (T3 ga Hga) as G. rewrite forallb_forall in G. auto.
      * exfalso. apply (D (sig_id a)); [now apply sig_ids_flat | rewrite E; now apply sig_ids_flat].
      * exfalso. apply (D (sig_id b)); [now apply sig_ids_flat | rewrite <- E; now apply sig_ids_flat].
Qed.

(* over the signal list of a message *)
Lemma ids_eq_msg : forall sigs,
  (forall s, In s sigs -> sig_okb ev s = true /\ tree_ids_okb s = true) ->
  ForallOrdPairs (fun a b => rt_disjoint (sig_ids a) (sig_ids b)) sigs ->
  forall a b, In a (flat_map sig_flat sigs) -> In b (flat_map sig_flat sigs) -> sig_id a = sig_id b -> a = b.
Proof.
  intros sigs Hs Hp a b Ha Hb E. apply in_flat_map in Ha. destruct Ha as (sa & Hsa & Ha).
  apply in_flat_map in Hb. destruct Hb as (sb & Hsb & Hb).
  destruct (ForallOrdPairs_In Hp sa sb Hsa Hsb) as [Ex|[D|D]].
  - subst sb. destruct (Hs sa Hsa). eapply ids_eq_tree; eauto.
  - exfalso. apply (D (sig_id a)); [now apply sig_ids_flat | rewrite E; now apply sig_ids_flat].
  - exfalso. apply (D (sig_id b)); [now apply sig_ids_flat | rewrite <- E; now apply sig_ids_flat].
Qed.

Lemma NoDup_map_inj_In : forall {A B} (f : A -> B) l x y, NoDup (map f l) -> In x l -> In y l -> f x = f y -> x = y.
Proof.
  intros A B f l; induction l as [|a r IH]; intros x y H Hx Hy E; [contradiction|].
  cbn in H. inversion H; subst. destruct Hx as [<-|Hx], Hy as [<-|Hy]; auto.
  - exfalso. apply H2. rewrite E. now apply in_map.
  - exfalso. apply H2. rewrite <- E. now apply in_map.
Qed.

Lemma name_inj_msg : forall sigs,
  (forall s, In s sigs -> sig_okb ev s = true /\ tree_ids_okb s = true) ->
  ForallOrdPairs (fun a b => rt_disjoint (sig_ids a) (sig_ids b)) sigs ->
  NoDup (map sig_name (dedup_key sig_id (flat_map sig_flat sigs) [])) ->
  rt_name_inj (flat_map sig_flat sigs).
Proof.
  intros sigs Hs Hp Hn a b Ha Hb E.
  assert (Hrep : forall t, In t (flat_map sig_flat sigs) -> In t (dedup_key sig_id (flat_map sig_flat sigs) [])).
  { intros t Ht. assert (Hk : In (sig_id t) (map sig_id (dedup_key sig_id (flat_map sig_flat sigs) []))).
    { apply dedup_key_keys; [now apply in_map | intros []]. }
    apply in_map_iff in Hk. destruct Hk as (d & Ed & Hd).
    assert (d = t). { eapply ids_eq_msg; eauto. apply dedup_key_In in Hd. tauto. }
    now subst. }
  f_equal. eapply (NoDup_map_inj_In sig_name); eauto.
Qed.

End Trees.

(* ---- the ids written by the saver for one signal tree *)
Lemma NoDup_flat_map_intro : forall {A} (f : A -> list string) l,
  ForallOrdPairs (fun a b => rt_disjoint (f a) (f b)) l -> (forall a, In a l -> NoDup (f a)) -> NoDup (flat_map f l).
Proof.
  intros A f l H; induction H as [|a r Ha Hr IH]; intros Hnd; cbn; [constructor|].
  assert (G : forall {B} (x y : list B), NoDup x -> NoDup y -> (forall t, In t x -> ~ In t y) -> NoDup (x ++ y)).
  { induction x as [|t q IHq]; intros y Hx Hy Hd; cbn; auto. inversion Hx; subst. constructor.
    - intros C. apply in_app_or in C. destruct C; [contradiction|]. eapply Hd; eauto using in_eq.
    - apply IHq; auto. intros; apply Hd; auto using in_cons. }
  apply G.
  - apply Hnd. apply in_eq.
  - apply IH. intros; apply Hnd; now right.
  - intros t Ht Ht'. apply in_flat_map in Ht'. destruct Ht' as (b & Hb & Ht'). rewrite Forall_forall in Ha.
    apply (Ha b Hb t); auto.
Qed.

Lemma psig_ids_save_mux : forall h c z groups,
  psig_ids (save_sig (SMux h c z groups)) =
  sig_id (SMux h c z groups) :: flat_map (fun x : bool * sig => psig_ids (save_sig (snd x))) (mux_children groups).
Proof.
  intros. cbn [save_sig sig_head sig_kind_num].
  change (map (map (fun c0 : bool * sig => (fst c0, sig_id (snd c0), save_sig (snd c0)))) groups) with (map (map tr) groups).
  rewrite emit_groups_keep. cbn [psig_ids pent_ids app]. f_equal.
  rewrite flat_flagged_select. rewrite emitted_select. clear. induction (mux_children groups) as [|x r IH]; cbn; auto. now rewrite IH.
Qed.

Lemma ForallOrdPairs_impl_in : forall {A} (R R' : A -> A -> Prop) l,
  (forall a b, In a l -> In b l -> R a b -> R' a b) -> ForallOrdPairs R l -> ForallOrdPairs R' l.
Proof.
  intros A R R' l HR H; induction H as [|a r Ha Hr IH]; constructor.
  - apply Forall_forall. intros b Hb. rewrite Forall_forall in Ha. apply HR; auto using in_eq, in_cons.
  - apply IH. intros; apply HR; auto using in_cons.
Qed.

Section SavedIds.
Variable ev : env.

Theorem psig_ids_save : forall s, sig_okb ev s = true -> tree_ids_okb s = true ->
  NoDup (psig_ids (save_sig s)) /\ incl (psig_ids (save_sig s)) (sig_ids s).
Proof.
  induction s using sig_ind'; intros Hok Htree.
  - cbn. split; [constructor; [intros []|constructor] | intros x Hx; exact Hx].
  - cbn. split; [constructor; [intros []|constructor] | intros x Hx; exact Hx].
  - rename H into IHg. rewrite psig_ids_save_mux.
    cbn [sig_okb sig_head] in Hok. apply andb_true_iff in Hok. destruct Hok as [_ Hok].
    apply andb_true_iff in Hok. destruct Hok as [Hok Hgrp]. apply andb_true_iff in Hok. destruct Hok as [Hok _].
    apply andb_true_iff in Hok. destruct Hok as [_ Hcopb].
    pose proof (copies_okb_spec groups Hcopb) as Hcop.
    cbn [tree_ids_okb] in Htree. apply andb_true_iff in Htree. destruct Htree as [Htree T3].
    apply andb_true_iff in Htree. destruct Htree as [T1 T2].
    apply negb_true_iff, memb_false in T1. apply rt_pairwise_disjointb_iff in T2.
    apply ForallOrdPairs_map_inv in T2. apply ForallOrdPairs_map_inv in T2.
    rewrite forallb_forall in Hgrp, T3.
    assert (Hchild : forall x, In x (mux_children groups) ->
              NoDup (psig_ids (save_sig (snd x))) /\ incl (psig_ids (save_sig (snd x))) (sig_ids (snd x))).
    { intros x Hx. unfold mux_children in Hx. apply dedup_key_In in Hx. destruct Hx as [Hx _].
      apply in_concat in Hx. destruct Hx as (g & Hg & Hx).
      rewrite Forall_forall in IHg. specialize (IHg g Hg). rewrite Forall_forall in IHg. apply (IHg x Hx).
      - pose proof (Hgrp g Hg) as G. apply andb_true_iff in G. destruct G as [_ G]. rewrite forallb_forall in G. auto.
      - pose proof (T3 g Hg) as G. rewrite forallb_forall in G. auto. }
    split.
    + constructor.
      * intros C. apply in_flat_map in C. destruct C as (x & Hx & C). apply T1.
        apply in_flat_map. exists (snd x). split; [now apply in_map|]. apply (proj2 (Hchild x Hx)); auto.
      * apply NoDup_flat_map_intro.
        -- eapply ForallOrdPairs_impl_in; [|exact T2].
           intros a b Ha Hb D t Ht Ht'. apply (D t); [apply (proj2 (Hchild a Ha)) | apply (proj2 (Hchild b Hb))]; auto.
        -- intros a Ha. apply Hchild; auto.
    + intros t [<-|Ht]; [apply sig_id_in_sig_ids|].
      apply in_flat_map in Ht. destruct Ht as (x & Hx & Ht). apply (proj2 (Hchild x Hx)) in Ht.
      eapply sig_ids_child; eauto. unfold mux_children in Hx. apply dedup_key_In in Hx. tauto.
Qed.

End SavedIds.
