(* C12 — round trip, part 1: generic facts, entities, shared definitions, assignments. *)
From Coq Require Import ZArith List String Bool Lia Permutation.
From Acme.C12 Require Import Proto NetModel Save Load Proj Domain Lemmas.
Import ListNotations.
Open Scope Z_scope.

(* ---------------------------------------------------------------- sorting / filtering *)
Lemma ins_sorted_perm : forall {A} (le : A -> A -> bool) x l, Permutation (ins_sorted le x l) (x :: l).
Proof.
  intros A le x l; induction l as [|y r IH]; cbn; auto.
  destruct (le x y); auto. eapply perm_trans; [apply perm_skip; exact IH | apply perm_swap].
Qed.

Lemma isort_perm : forall {A} (le : A -> A -> bool) l, Permutation (isort le l) l.
Proof.
  intros A le l; induction l as [|x r IH]; cbn; auto.
  eapply perm_trans; [apply ins_sorted_perm | apply perm_skip; exact IH].
Qed.

Lemma isort_In : forall {A} (le : A -> A -> bool) l x, In x (isort le l) <-> In x l.
Proof.
  intros; split; intros H.
  - eapply Permutation_in; [apply isort_perm | exact H].
  - eapply Permutation_in; [apply Permutation_sym, isort_perm | exact H].
Qed.

Lemma NoDup_map_filter : forall {A B} (f : A -> B) (p : A -> bool) l, NoDup (map f l) -> NoDup (map f (filter p l)).
Proof.
  intros A B f p l; induction l as [|a r IH]; intros H; cbn; [constructor|].
  inversion H; subst. destruct (p a); cbn; auto. constructor; auto.
  intros C. apply H2. apply in_map_iff in C. destruct C as (x & Ex & Hx). apply filter_In in Hx.
  apply in_map_iff. exists x; tauto.
Qed.

Lemma NoDup_map_canon : forall {A} (key : A -> string) (le : A -> A -> bool) (p : A -> bool) l,
  NoDup (map key l) -> NoDup (map key (isort le (filter p l))).
Proof.
  intros A key le p l H. eapply Permutation_NoDup.
  - apply Permutation_map. apply Permutation_sym. apply isort_perm.
  - apply NoDup_map_filter; auto.
Qed.

(* a referenced definition is found, unchanged, in the saved (filtered and sorted) table *)
Lemma find_key_canon : forall {A} (key : A -> string) (le : A -> A -> bool) (p : A -> bool) l k a,
  NoDup (map key l) -> find_key key k l = Some a -> p a = true ->
  find_key key k (isort le (filter p l)) = Some a.
Proof.
  intros A key le p l k a Hnd F Hp. apply find_key_Some in F. destruct F as [Hin <-].
  apply find_key_In_nodup.
  - apply NoDup_map_canon; auto.
  - apply isort_In. apply filter_In; auto.
Qed.

Lemma mapM_map_id : forall {A B} (f : A -> result B) (g : B -> A) l,
  (forall x, In x l -> f (g x) = Ok x) -> mapM f (map g l) = Ok l.
Proof.
  intros A B f g l; induction l as [|x r IH]; intros H; cbn; auto.
  rewrite H by apply in_eq. cbn. rewrite IH; auto. intros; apply H; now right.
Qed.

(* a fold that rebuilds a list element by element *)
Lemma foldM_rebuild : forall {A B S} (f : S -> A -> result S) (g : B -> A) (st_of : list B -> S) l,
  (forall pre x post, l = pre ++ x :: post -> f (st_of pre) (g x) = Ok (st_of (pre ++ [x]))) ->
  foldM f (st_of []) (map g l) = Ok (st_of l).
Proof.
  intros A B S f g st_of l H.
  assert (G : forall post pre, l = pre ++ post -> foldM f (st_of pre) (map g post) = Ok (st_of l)).
  { induction post as [|x r IH]; intros pre E; cbn.
    - now rewrite E, app_nil_r.
    - rewrite (H pre x r E). cbn. apply IH. now rewrite <- app_assoc. }
  apply (G l []); reflexivity.
Qed.

(* prefixes of a duplicate-free list *)
Lemma NoDup_prefix_fresh : forall {A B} (f : A -> B) pre x post,
  NoDup (map f (pre ++ x :: post)) -> ~ In (f x) (map f pre).
Proof.
  intros A B f pre x post H C. rewrite map_app in H. cbn in H.
  apply NoDup_remove_2 in H. apply H. apply in_or_app; auto.
Qed.

(* ---------------------------------------------------------------- numbers *)
Lemma u32_id : forall z, u32_ok z = true -> u32 z = z.
Proof. intros z H. unfold u32_ok in H. apply andb_true_iff in H. destruct H as [A B]. apply Z.leb_le in A. apply Z.ltb_lt in B. unfold u32. apply Z.mod_small. lia. Qed.

Lemma i32_id : forall z, i32_ok z = true -> i32 z = z.
Proof.
  intros z H. unfold i32_ok in H. apply andb_true_iff in H. destruct H as [A B]. apply Z.leb_le in A. apply Z.ltb_lt in B.
  unfold i32. rewrite Z.mod_small by lia. lia.
Qed.

Lemma in_range_spec : forall lo hi z, in_range lo hi z = true -> lo <= z <= hi.
Proof. intros lo hi z H. unfold in_range in H. apply andb_true_iff in H. destruct H as [A B]. apply Z.leb_le in A, B. lia. Qed.

Lemma dec_enc_0_3 : forall g, in_range 0 3 g = true -> dec_1_4 (enc_0_3 g) = g.
Proof.
  intros g H. apply in_range_spec in H. unfold enc_0_3, dec_1_4.
  assert (E : (0 <=? g) && (g <=? 3) = true) by (apply andb_true_iff; split; apply Z.leb_le; lia). rewrite E.
  assert (E2 : (1 <=? g + 1) && (g + 1 <=? 4) = true) by (apply andb_true_iff; split; apply Z.leb_le; lia). rewrite E2. lia.
Qed.

Lemma dec_enc_byte_order : forall g, in_range 0 1 g = true -> dec_byte_order (enc_byte_order g) = g.
Proof.
  intros g H. apply in_range_spec in H. unfold enc_byte_order, dec_byte_order.
  assert (E : (0 <=? g) && (g <=? 1) = true) by (apply andb_true_iff; split; apply Z.leb_le; lia). rewrite E.
  assert (E2 : (1 <=? g + 1) && (g + 1 <=? 2) = true) by (apply andb_true_iff; split; apply Z.leb_le; lia). rewrite E2. lia.
Qed.

Lemma dec_enc_msg_send : forall g, in_range 0 4 g = true -> dec_msg_send (enc_msg_send g) = g.
Proof.
  intros g H. apply in_range_spec in H. unfold enc_msg_send, dec_msg_send.
  destruct ((1 <=? g) && (g <=? 4)) eqn:E.
  - now rewrite E.
  - cbn. assert (g = 0). { destruct (Z.eq_dec g 0); auto. exfalso.
      assert ((1 <=? g) && (g <=? 4) = true) by (apply andb_true_iff; split; apply Z.leb_le; lia). congruence. }
    subst; reflexivity.
Qed.

Lemma dec_enc_sig_send : forall g, in_range 0 7 g = true -> dec_sig_send (enc_sig_send g) = g.
Proof.
  intros g H. apply in_range_spec in H. unfold enc_sig_send, dec_sig_send.
  destruct ((1 <=? g) && (g <=? 7)) eqn:E.
  - now rewrite E.
  - cbn. assert (g = 0). { destruct (Z.eq_dec g 0); auto. exfalso.
      assert ((1 <=? g) && (g <=? 7) = true) by (apply andb_true_iff; split; apply Z.leb_le; lia). congruence. }
    subst; reflexivity.
Qed.

Arguments save_entity : simpl never.
Arguments load_entity : simpl never.
Arguments u32 : simpl never.
Arguments i32 : simpl never.
Arguments enc_0_3 : simpl never.
Arguments dec_1_4 : simpl never.

Section RT1.
Variable now : time.

(* ---------------------------------------------------------------- entities *)
Lemma load_save_entity : forall k e, ent_dom e = true -> load_entity now (Some (save_entity k e)) = Ok e.
Proof. intros k [i nm d t] H. unfold ent_dom in H; cbn in H. unfold load_entity, save_entity; cbn. now rewrite H. Qed.

(* ---------------------------------------------------------------- attributes *)
Lemma dedup_str_id : forall l, nodupb l = true -> dedup_str l = l.
Proof.
  intros l H. unfold dedup_str. apply dedup_key_id.
  - rewrite map_id. now apply nodupb_NoDup.
  - intros a _ [].
Qed.

Lemma filter_neq_head : forall d r, ~ In d r -> filter (fun v => negb (String.eqb v d)) r = r.
Proof.
  intros d r; induction r as [|x q IH]; intros H; cbn; auto.
  destruct (String.eqb x d) eqn:E.
  - apply String.eqb_eq in E. subst. exfalso. apply H. apply in_eq.
  - cbn. f_equal. apply IH. intros C; apply H; now right.
Qed.

Lemma load_save_attr : forall a, attr_okb a = true -> attr_dom a = true -> load_attr now (save_attr a) = Ok a.
Proof.
  intros [e body] Hok Hdom. unfold attr_dom in Hdom; cbn in Hdom. apply andb_true_iff in Hdom. destruct Hdom as [He Hb].
  unfold load_attr, save_attr; cbn [pat_ent pat_type pat_body at_ent at_body].
  rewrite load_save_entity by auto. cbn [bind].
  unfold attr_okb in Hok; cbn in Hok.
  destruct body as [d|d mn mx hex|d mn mx|d vals]; cbn.
  - reflexivity.
  - apply andb_true_iff in Hb. destruct Hb as [Hb H3]. apply andb_true_iff in Hb. destruct Hb as [H1 H2].
    rewrite !i32_id by auto.
    apply andb_true_iff in Hok. destruct Hok as [Hok K3]. apply andb_true_iff in Hok. destruct Hok as [K1 K2].
    apply Z.leb_le in K1, K2, K3.
    destruct (mn >? mx) eqn:E1; [apply Z.gtb_lt in E1; lia|].
    destruct (d >? mx) eqn:E2; [apply Z.gtb_lt in E2; lia|].
    destruct (d <? mn) eqn:E3; [apply Z.ltb_lt in E3; lia|]. reflexivity.
  - apply andb_true_iff in Hok. destruct Hok as [Hok K3]. apply andb_true_iff in Hok. destruct Hok as [K1 K2].
    apply negb_true_iff in K1, K2, K3. now rewrite K1, K2, K3.
  - apply andb_true_iff in Hok. destruct Hok as [K1 K2]. destruct vals as [|v r]; [discriminate|].
    apply String.eqb_eq in K2. subst v. unfold memb at 1. cbn [existsb]. rewrite String.eqb_refl. cbn [orb].
    unfold enum_attr_values. cbn [filter]. rewrite String.eqb_refl. cbn [negb].
    cbn in K1. apply andb_true_iff in K1. destruct K1 as [K1a K1b]. apply negb_true_iff, memb_false in K1a.
    rewrite filter_neq_head by auto. do 4 f_equal.
    apply dedup_key_id.
    + rewrite map_id. now apply nodupb_NoDup.
    + intros a Ha [C|[]]. subst a. contradiction.
Qed.

(* ---------------------------------------------------------------- assignments *)
Lemma assign_put_fresh : forall l a, ~ In (as_attr a) (map as_attr l) -> assign_put l a = l ++ [a].
Proof.
  induction l as [|b r IH]; intros a H; cbn; auto.
  destruct (String.eqb (as_attr b) (as_attr a)) eqn:E.
  - apply String.eqb_eq in E. exfalso. apply H. left; auto.
  - f_equal. apply IH. intros C; apply H; now right.
Qed.

(* the attribute table `attrs'` agrees with the table `attrs` of the environment on the attributes used *)
Lemma load_save_assigns : forall ev attrs' owner l,
  assigns_okb ev l = true -> forallb assign_dom l = true ->
  (forall a, In a l -> find_key attr_key (as_attr a) attrs' = find_key attr_key (as_attr a) (ev_attrs ev)) ->
  load_assigns attrs' (save_assigns owner l) = Ok l.
Proof.
  intros ev attrs' owner l Hok Hdom Hfind. unfold load_assigns, save_assigns.
  apply (foldM_rebuild (load_assign attrs') _ (fun pre : list assign => pre) l).
  intros pre x post E. unfold assigns_okb in Hok. apply andb_true_iff in Hok. destruct Hok as [H1 H2].
  rewrite forallb_forall in H1, Hdom.
  assert (Hx : In x l) by (rewrite E; apply in_or_app; right; apply in_eq).
  specialize (H1 x Hx). specialize (Hdom x Hx). unfold assign_okb in H1.
  unfold load_assign; cbn [pas_attr_id pas_val]. rewrite (Hfind x Hx).
  destruct (find_key attr_key (as_attr x) (ev_attrs ev)) as [ad|]; [|discriminate].
  apply nodupb_NoDup in H2. rewrite E in H2. apply NoDup_prefix_fresh in H2.
  destruct x as [k v]; cbn [as_attr as_val] in *. unfold assign_dom in Hdom; cbn [as_val] in Hdom.
  destruct v as [s|z|f]; cbn [save_aval].
  - destruct (assign_check ad (AVStr s)) as [[]|]; [|discriminate]. cbn [bind]. now rewrite assign_put_fresh.
  - rewrite i32_id by auto. destruct (assign_check ad (AVInt z)) as [[]|]; [|discriminate]. cbn [bind]. now rewrite assign_put_fresh.
  - destruct (assign_check ad (AVFlt f)) as [[]|]; [|discriminate]. cbn [bind]. now rewrite assign_put_fresh.
Qed.

(* ---------------------------------------------------------------- builders, types, units, enums *)
Lemma load_save_builder : forall b, builder_dom b = true -> load_builder now (save_builder b) = Ok b.
Proof.
  intros [e ops] H. unfold builder_dom in H; cbn in H. apply andb_true_iff in H. destruct H as [He Hops].
  unfold load_builder, save_builder; cbn. rewrite load_save_entity by auto. cbn. f_equal. f_equal.
  rewrite map_map. rewrite <- (map_id ops) at 2. apply map_ext_in. intros [[k f] l] Hin.
  rewrite forallb_forall in Hops. specialize (Hops _ Hin). cbn in Hops.
  apply andb_true_iff in Hops. destruct Hops as [Hops H3]. apply andb_true_iff in Hops. destruct Hops as [H1 H2].
  cbn. now rewrite dec_enc_0_3, !u32_id.
Qed.

Lemma load_save_type : forall t, (1 <=? st_size t) = true -> type_dom t = true -> load_type now (save_type t) = Ok t.
Proof.
  intros [e k sz sg mn mx sc off] Hsz H. unfold type_dom in H; cbn in *.
  apply andb_true_iff in H. destruct H as [H H3]. apply andb_true_iff in H. destruct H as [H1 H2].
  unfold load_type, save_type; cbn. rewrite load_save_entity by auto. cbn. rewrite u32_id by auto.
  apply Z.leb_le in Hsz.
  destruct (sz <? 0) eqn:E1; [apply Z.ltb_lt in E1; lia|]. destruct (sz =? 0) eqn:E2; [apply Z.eqb_eq in E2; lia|].
  now rewrite dec_enc_0_3.
Qed.

Lemma load_save_unit : forall u, unit_dom u = true -> load_unit now (save_unit u) = Ok u.
Proof.
  intros [e k sym] H. unfold unit_dom in H; cbn in *. apply andb_true_iff in H. destruct H as [H1 H2].
  unfold load_unit, save_unit; cbn. rewrite load_save_entity by auto. cbn. now rewrite dec_enc_0_3.
Qed.

Lemma load_save_enum : forall e, enum_okb e = true -> enum_dom e = true -> load_enum now (save_enum e) = Ok e.
Proof.
  intros [e vals ms] Hok H. unfold enum_dom in H; cbn in *.
  apply andb_true_iff in H. destruct H as [H H3]. apply andb_true_iff in H. destruct H as [H1 H2].
  unfold enum_okb in Hok; cbn in Hok. apply andb_true_iff in Hok. destruct Hok as [K1 K2].
  unfold load_enum, save_enum; cbn. rewrite load_save_entity by auto. cbn.
  assert (F : foldM (enum_add_value now) []
                (map (fun v : entity * Z => {| pev_ent := Some (save_entity EK_SIGNAL_ENUM_VALUE (fst v)); pev_index := u32 (snd v) |}) vals)
              = Ok vals).
  { apply (foldM_rebuild (enum_add_value now) _ (fun pre : list (entity * Z) => pre) vals).
    intros pre x post E. rewrite forallb_forall in H3.
    assert (Hx : In x vals) by (rewrite E; apply in_or_app; right; apply in_eq).
    specialize (H3 x Hx). apply andb_true_iff in H3. destruct H3 as [Hxe Hxi].
    unfold enum_add_value; cbn. rewrite load_save_entity by auto. cbn. rewrite u32_id by auto.
    apply nodupb_NoDup in K1. apply znodupb_NoDup in K2. rewrite E in K1, K2.
    apply NoDup_prefix_fresh in K1. apply NoDup_prefix_fresh in K2.
    destruct (existsb (Z.eqb (snd x)) (map snd pre)) eqn:E1; [apply zmem_In in E1; contradiction|].
    destruct (memb (e_name (fst x)) (map (fun v : entity * Z => e_name (fst v)) pre)) eqn:E2; [apply memb_In in E2; contradiction|].
    destruct x; reflexivity. }
  rewrite F. cbn. apply in_range_spec in H2.
  assert (u32 ms = ms) by (apply u32_id; unfold u32_ok; apply andb_true_iff; split; [apply Z.leb_le|apply Z.ltb_lt]; lia).
  rewrite H. destruct (ms =? 0) eqn:E0; [apply Z.eqb_eq in E0; lia|]. reflexivity.
Qed.

End RT1.
