(* C12 — round trip, part 2: messages, interfaces, buses, the network (signal trees abstracted
   by the hypothesis `sigs_rt`, discharged in ProofsRT3). *)
From Coq Require Import ZArith List String Bool Lia Permutation.
From Acme.C12 Require Import Proto NetModel Save Load Proj Domain Lemmas ProofsRT1.
Import ListNotations.
Open Scope Z_scope.

Arguments save_entity : simpl never.
Arguments load_entity : simpl never.
Arguments u32 : simpl never.
Arguments i32 : simpl never.
Arguments enc_0_3 : simpl never.
Arguments dec_1_4 : simpl never.
Arguments enc_byte_order : simpl never.
Arguments dec_byte_order : simpl never.
Arguments enc_msg_send : simpl never.
Arguments dec_msg_send : simpl never.
Arguments load_assigns : simpl never.
Arguments save_assigns : simpl never.

Ltac andb_split H :=
  repeat match type of H with
         | (_ && _) = true => let H' := fresh "H" in apply andb_true_iff in H; destruct H as [H H']
         end.

Lemma andb2 : forall a b, a && b = true -> a = true /\ b = true.
Proof. intros a b H. now apply andb_true_iff in H. Qed.
Lemma andb5 : forall a b c d e, a && b && c && d && e = true -> a = true /\ b = true /\ c = true /\ d = true /\ e = true.
Proof. intros a b c d e H. destruct a, b, c, d, e; cbn in H; try discriminate; auto. Qed.
Lemma andb7 : forall a b c d e f g, a && b && c && d && e && f && g = true ->
  a = true /\ b = true /\ c = true /\ d = true /\ e = true /\ f = true /\ g = true.
Proof. intros a b c d e f g H. destruct a, b, c, d, e, f, g; cbn in H; try discriminate; repeat split; auto. Qed.

Lemma NoDup_app_disjoint' : forall {A} (a b : list A), NoDup (a ++ b) -> forall x, In x a -> ~ In x b.
Proof.
  induction a as [|y r IH]; intros b H x Hx; cbn in *; [contradiction|].
  inversion H; subst. destruct Hx as [<-|Hx].
  - intros C. apply H2. apply in_or_app; auto.
  - apply IH; auto.
Qed.
Lemma NoDup_app_l' : forall {A} (a b : list A), NoDup (a ++ b) -> NoDup a.
Proof. induction a as [|x r IH]; intros b H; cbn in *; [constructor|]. inversion H; subst. constructor; eauto. intros C; apply H2; apply in_or_app; auto. Qed.
Lemma NoDup_app_r' : forall {A} (a b : list A), NoDup (a ++ b) -> NoDup b.
Proof. induction a as [|x r IH]; intros b H; cbn in *; auto. inversion H; eauto. Qed.

Lemma receiver_put_fresh : forall l r, ~ In (fst r) (map fst l) -> receiver_put l r = l ++ [r].
Proof.
  induction l as [|b q IH]; intros r H; cbn; auto.
  destruct (String.eqb (fst b) (fst r)) eqn:E.
  - apply String.eqb_eq in E. exfalso. apply H. left; auto.
  - f_equal. apply IH. intros C; apply H; now right.
Qed.

Section RT2.
Variable now : time.
Variable sc : env -> msg -> bool.
Variable n : net.
Hypothesis Hwf : wfb_gen sc n = true.
Hypothesis Hdom : in_domain n = true.

Let ev := net_env n.
Let ev' := net_env (canon n).

(* what the saved tables still contain *)
Definition agree {A} (key : A -> string) (refs : list string) (t t' : list A) : Prop :=
  forall k a, In k refs -> find_key key k t = Some a -> find_key key k t' = Some a.

Hypothesis Hattrs : agree attr_key (ref_attrs n) (n_attrs n) (n_attrs (canon n)).
Hypothesis Hnodes : agree node_key (ref_nodes n) (n_nodes n) (n_nodes (canon n)).
Hypothesis Hbuilders : agree builder_key (ref_builders n) (n_builders n) (n_builders (canon n)).

(* the signals of every message round-trip (ProofsRT3) *)
Definition sigs_rt (m : msg) : Prop :=
  foldM (load_msg_signal now ev' (m_size m * 8) (refs_map (map save_ref (m_signals m)))) [] (map save_sig (m_signals m))
  = Ok (m_signals m).
Hypothesis Hsigs : forall m, In m (all_msgs n) -> sigs_rt m.

(* ---- assignments of an entity whose assignments are counted by ref_attrs *)
Lemma rt_assigns : forall owner l,
  assigns_okb ev l = true -> forallb assign_dom l = true ->
  (forall a, In a l -> In (as_attr a) (ref_attrs n)) ->
  load_assigns (ev_attrs ev') (save_assigns owner l) = Ok l.
Proof.
  intros owner l Hok Hd Href. apply (load_save_assigns ev); auto.
  intros a Ha. unfold assigns_okb in Hok. apply andb_true_iff in Hok. destruct Hok as [H1 _].
  rewrite forallb_forall in H1. specialize (H1 a Ha). unfold assign_okb in H1.
  destruct (find_key attr_key (as_attr a) (ev_attrs ev)) as [ad|] eqn:F; [|discriminate].
  apply (Hattrs _ _ (Href a Ha) F).
Qed.

(* ---- messages *)
Lemma rt_receivers : forall sender recs,
  forallb (receiver_okb ev) recs = true -> nodupb (map fst recs) = true ->
  existsb (fun r => String.eqb (fst r) (fst sender) && (snd r =? snd sender)) recs = false ->
  forallb (fun r => u32_ok (snd r)) recs = true ->
  (forall r, In r recs -> In (fst r) (ref_nodes n)) ->
  foldM (load_receiver ev' sender) [] (map (fun r => {| prc_node := fst r; prc_number := u32 (snd r) |}) recs) = Ok recs.
Proof.
  intros sender recs H1 H2 H3 H4 Href.
  apply (foldM_rebuild (load_receiver ev' sender) _ (fun pre : list (string * Z) => pre) recs).
  intros pre x post E.
  assert (Hx : In x recs) by (rewrite E; apply in_or_app; right; apply in_eq).
  rewrite forallb_forall in H1, H4. specialize (H1 x Hx). specialize (H4 x Hx).
  unfold receiver_okb in H1. destruct (find_key node_key (fst x) (ev_nodes ev)) as [nd|] eqn:F; [|discriminate].
  unfold load_receiver; cbn [prc_node prc_number]. rewrite u32_id by auto.
  pose proof (Hnodes _ _ (Href x Hx) F) as F'. change (n_nodes (canon n)) with (ev_nodes ev') in F'. rewrite F'.
  apply andb_true_iff in H1. destruct H1 as [A B]. apply Z.leb_le in A. apply Z.ltb_lt in B.
  destruct (snd x <? 0) eqn:E1; [apply Z.ltb_lt in E1; lia|].
  destruct (snd x >=? nd_ifcount nd) eqn:E2; [rewrite Z.geb_leb in E2; apply Z.leb_le in E2; lia|].
  destruct (String.eqb (fst x) (fst sender) && (snd x =? snd sender)) eqn:E3.
  { assert (existsb (fun r => String.eqb (fst r) (fst sender) && (snd r =? snd sender)) recs = true)
      by (apply existsb_exists; eauto). congruence. }
  apply nodupb_NoDup in H2. rewrite E in H2. apply NoDup_prefix_fresh in H2.
  rewrite receiver_put_fresh by auto. destruct x; reflexivity.
Qed.

Lemma rt_msg : forall sender m,
  In m (all_msgs n) ->
  msg_flat_okb ev sender m = true -> msg_dom m = true -> (m_size m <=? 8) = true ->
  load_msg now ev' sender (save_msg m) = Ok m.
Proof.
  intros sender m Hin Hok Hd Hsz8.
  unfold msg_flat_okb in Hok. andb_split Hok.
  unfold msg_dom in Hd. andb_split Hd.
  unfold load_msg, save_msg; cbn [pm_ent pm_signals pm_payload pm_size pm_id pm_static pm_has_static pm_prio pm_bo pm_cycle pm_send pm_delay pm_startdelay pm_receivers pm_attrs].
  rewrite load_save_entity by auto. cbn [bind].
  rewrite !u32_id by auto.
  apply Z.leb_le in Hsz8. destruct (m_size m >? 8) eqn:E8; [apply Z.gtb_lt in E8; lia|].
  pose proof (Hsigs m Hin) as Hs. unfold sigs_rt in Hs. rewrite Hs. cbn [bind].
  assert (Hrecs : foldM (load_receiver ev' sender) []
                    (map (fun r => {| prc_node := fst r; prc_number := u32 (snd r) |}) (m_receivers m)) = Ok (m_receivers m)).
  { apply rt_receivers; auto; [apply negb_true_iff; assumption|].
    intros r Hr. unfold ref_nodes. apply in_or_app. right. apply in_flat_map. exists m. split; auto. now apply in_map. }
  rewrite Hrecs. cbn [bind].
  assert (Hasg : load_assigns (ev_attrs ev') (save_assigns (e_id (m_ent m)) (m_attrs m)) = Ok (m_attrs m)).
  { apply rt_assigns; auto.
    intros a Ha. unfold ref_attrs. apply in_map. apply in_or_app. right. apply in_or_app. left. apply in_flat_map. eauto. }
  rewrite Hasg.
  cbn [bind]. rewrite dec_enc_0_3, dec_enc_byte_order, dec_enc_msg_send by auto.
  match goal with Hx : (if m_has_static m then _ else _) = true |- _ => rename Hx into Hstat end.
  destruct m as [me mid msz mst mhas mprio mbo mcyc msend mdel msdel mrecs msigs mattrs]; cbn in *.
  destruct mhas.
  - apply Z.eqb_eq in Hstat. subst mid. reflexivity.
  - apply Z.eqb_eq in Hstat. subst mst. reflexivity.
Qed.

(* ---- interfaces *)
Lemma rt_add_sent_message : forall pre m post,
  nodupb (map (fun x => e_name (m_ent x)) (pre ++ m :: post)) = true ->
  znodupb (map m_id (filter (fun x => negb (m_has_static x)) (pre ++ m :: post))) = true ->
  NoDup (map m_static (filter m_has_static (pre ++ m :: post))) ->
  add_sent_message pre m = Ok (pre ++ [m]).
Proof.
  intros pre m post H1 H2 H3. unfold add_sent_message.
  apply nodupb_NoDup in H1. apply NoDup_prefix_fresh in H1.
  destruct (memb _ _) eqn:E1; [apply memb_In in E1; contradiction|].
  rewrite filter_app in H2, H3. cbn [filter] in H2, H3.
  destruct (m_has_static m) eqn:Hs; cbn [negb] in *.
  - rewrite map_app in H3. cbn [map] in H3. apply NoDup_remove_2 in H3.
    destruct (existsb _ pre) eqn:E2; auto. exfalso. apply existsb_exists in E2. destruct E2 as (x & Hx & Ex).
    apply andb_true_iff in Ex. destruct Ex as [Exs Exe]. apply Z.eqb_eq in Exe.
    apply H3. apply in_or_app. left. rewrite <- Exe. apply in_map. apply filter_In. auto.
  - apply znodupb_NoDup in H2. rewrite map_app in H2. cbn [map] in H2. apply NoDup_remove_2 in H2.
    destruct (existsb _ pre) eqn:E2; auto. exfalso. apply existsb_exists in E2. destruct E2 as (x & Hx & Ex).
    apply andb_true_iff in Ex. destruct Ex as [Exs Exe]. apply Z.eqb_eq in Exe.
    apply H2. apply in_or_app. left. rewrite <- Exe. apply in_map. apply filter_In. auto.
Qed.

Lemma all_msgs_In : forall i m, In i (all_ifaces n) -> In m (if_msgs i) -> In m (all_msgs n).
Proof. intros i m Hi Hm. unfold all_msgs. apply in_flat_map. eauto. Qed.

Lemma rt_iface : forall att i,
  In i (all_ifaces n) ->
  iface_okb sc ev i = true -> iface_dom i = true ->
  NoDup (map m_static (filter m_has_static (if_msgs i))) ->
  ~ In (if_node i, if_number i) att ->
  load_iface now ev' att (save_iface i) = Ok i.
Proof.
  intros att i Hi Hok Hd Hst Hfresh.
  unfold iface_okb in Hok. destruct (andb5 _ _ _ _ _ Hok) as (Hrec & H0 & H1 & H2 & Hsz). clear Hok.
  unfold iface_dom in Hd. destruct (andb2 _ _ Hd) as (Hnum & Hd0). clear Hd.
  unfold receiver_okb in Hrec. cbn [fst snd] in Hrec.
  destruct (find_key node_key (if_node i) (ev_nodes ev)) as [nd|] eqn:F; [|discriminate].
  unfold load_iface, save_iface; cbn [pif_number pif_node pif_msgs].
  assert (Href : In (if_node i) (ref_nodes n)) by (unfold ref_nodes; apply in_or_app; left; now apply in_map).
  pose proof (Hnodes _ _ Href F) as F'. change (n_nodes (canon n)) with (ev_nodes ev') in F'. rewrite F'.
  rewrite i32_id by auto. destruct (andb2 _ _ Hrec) as (Hlo & Hhi). apply Z.leb_le in Hlo. apply Z.ltb_lt in Hhi.
  destruct (if_number i <? 0) eqn:E1; [apply Z.ltb_lt in E1; lia|].
  destruct (if_number i >=? nd_ifcount nd) eqn:E2; [rewrite Z.geb_leb in E2; apply Z.leb_le in E2; lia|].
  destruct (existsb _ att) eqn:E3.
  { exfalso. apply existsb_exists in E3. destruct E3 as ([a b] & Hab & Eab). cbn in Eab.
    apply andb_true_iff in Eab. destruct Eab as [Ea Eb]. apply String.eqb_eq in Ea. apply Z.eqb_eq in Eb. subst. contradiction. }
  assert (Hm : foldM (fun cur pm => do m <- load_msg now ev' (if_node i, if_number i) pm; add_sent_message cur m) []
                     (map save_msg (if_msgs i)) = Ok (if_msgs i)).
  { apply (foldM_rebuild _ save_msg (fun pre : list msg => pre) (if_msgs i)).
    intros pre m post E.
    assert (Hmin : In m (if_msgs i)) by (rewrite E; apply in_or_app; right; apply in_eq).
    rewrite forallb_forall in H0, Hd0. specialize (H0 m Hmin). unfold msg_okb in H0. apply andb_true_iff in H0. destruct H0 as [Hflat _].
    rewrite forallb_forall in Hsz.
    rewrite (rt_msg _ m (all_msgs_In i m Hi Hmin) Hflat (Hd0 m Hmin) (Hsz m Hmin)). cbn [bind].
    rewrite E in H1, H2, Hst. eapply rt_add_sent_message; eauto. }
  rewrite Hm. cbn [bind]. destruct i; reflexivity.
Qed.

(* ---- buses *)
Definition ikey (i : iface) : string * Z := (if_node i, if_number i).

Lemma static_ids_ok_intro : forall busids l,
  (forall m, In m l -> m_has_static m = true -> ~ In (m_static m) busids) -> static_ids_ok busids l = true.
Proof.
  induction l as [|a r IH]; intros H; cbn; auto. apply andb_true_iff; split.
  - destruct (m_has_static a) eqn:Hs; cbn; auto. apply negb_true_iff.
    destruct (existsb (Z.eqb (m_static a)) busids) eqn:E; auto. apply zmem_In in E. exfalso. eapply H; eauto using in_eq.
  - apply IH. intros; eapply H; eauto using in_cons.
Qed.

Lemma node_of_agree : forall i, In i (all_ifaces n) -> (exists nd, node_of ev i = Some nd) -> node_of ev' i = node_of ev i.
Proof.
  intros i Hi [nd F]. unfold node_of in *. rewrite F.
  apply (Hnodes (if_node i) nd); auto. unfold ref_nodes. apply in_or_app; left. now apply in_map.
Qed.

Lemma iface_node_found : forall i, iface_okb sc ev i = true -> exists nd, node_of ev i = Some nd.
Proof.
  intros i H. unfold iface_okb in H. destruct (andb5 _ _ _ _ _ H) as (Hrec & _). unfold receiver_okb in Hrec. cbn [fst snd] in Hrec.
  unfold node_of. destruct (find_key node_key (if_node i) (ev_nodes ev)); [eauto | discriminate].
Qed.

Lemma rt_bus : forall att b,
  In b (n_buses n) ->
  bus_okb sc ev (n_builders n) b = true -> bus_dom b = true ->
  NoDup (map ikey (b_ifaces b)) -> (forall i, In i (b_ifaces b) -> ~ In (ikey i) att) ->
  load_bus now ev' (n_builders (canon n)) att (save_bus b) = Ok (b, rev (map ikey (b_ifaces b)) ++ att).
Proof.
  intros att b Hb Hok Hd Hnd Hfresh.
  unfold bus_okb in Hok. destruct (andb7 _ _ _ _ _ _ _ Hok) as (Hasg & Hbld & Hifs & Hnid & Hnames & Hids & Hstat). clear Hok.
  unfold bus_dom in Hd. destruct (andb5 _ _ _ _ _ Hd) as (Hent & Hbaud & Htype & Hidom & Hadom). clear Hd.
  assert (Hall : forall i, In i (b_ifaces b) -> In i (all_ifaces n)).
  { intros i Hi. unfold all_ifaces. apply in_flat_map. eauto. }
  unfold load_bus, save_bus; cbn [pb_ent pb_ifaces pb_baud pb_type pb_builder pb_attrs].
  rewrite load_save_entity by auto. cbn [bind].
  assert (Hb2 : negb (String.eqb (b_builder b) "") &&
                match find_key builder_key (b_builder b) (n_builders (canon n)) with None => true | Some _ => false end = false).
  { destruct (String.eqb (b_builder b) "") eqn:Eb; cbn [negb andb orb] in *; auto.
    destruct (find_key builder_key (b_builder b) (n_builders n)) as [cb|] eqn:F; [|discriminate].
    assert (Hr : In (b_builder b) (ref_builders n)).
    { unfold ref_builders. apply in_flat_map. exists b. split; auto. rewrite Eb. apply in_eq. }
    now rewrite (Hbuilders _ _ Hr F). }
  rewrite Hb2.
  rewrite forallb_forall in Hifs, Hidom.
  assert (Hfold : foldM (load_bus_iface now ev') ([], att) (map save_iface (b_ifaces b)) =
                  Ok (b_ifaces b, rev (map ikey (b_ifaces b)) ++ att)).
  { apply (foldM_rebuild (load_bus_iface now ev') save_iface (fun pre : list iface => (pre, rev (map ikey pre) ++ att)) (b_ifaces b)).
    intros pre i post E.
    assert (Hi : In i (b_ifaces b)) by (rewrite E; apply in_or_app; right; apply in_eq).
    unfold load_bus_iface.
    assert (Hst_i : NoDup (map m_static (filter m_has_static (if_msgs i)))).
    { apply znodupb_NoDup in Hstat. rewrite E in Hstat. rewrite flat_map_app in Hstat. cbn [flat_map] in Hstat.
      rewrite !filter_app, !map_app in Hstat. apply NoDup_app_r' in Hstat. eapply NoDup_app_l'; eauto. }
    rewrite (rt_iface _ i (Hall i Hi) (Hifs i Hi) (Hidom i Hi) Hst_i).
    2:{ intros C. apply in_app_or in C. destruct C as [C|C].
        - rewrite <- in_rev in C. rewrite E in Hnd. apply NoDup_prefix_fresh in Hnd. contradiction.
        - eapply Hfresh; eauto. }
    cbn [bind].
    (* the node names / ids of the interfaces of this bus are the same in both environments *)
    assert (Hnm : forall j, In j (b_ifaces b) -> node_name_of ev' j = node_name_of ev j /\ node_id_of ev' j = node_id_of ev j).
    { intros j Hj. unfold node_name_of, node_id_of. rewrite (node_of_agree j (Hall j Hj) (iface_node_found j (Hifs j Hj))). auto. }
    assert (Hpre : forall j, In j pre -> In j (b_ifaces b)) by (intros j Hj; rewrite E; apply in_or_app; auto).
    unfold add_node_interface.
    assert (En : map (node_name_of ev') pre = map (node_name_of ev) pre) by (apply map_ext_in; intros j Hj; apply Hnm; auto).
    assert (Ei : map (node_id_of ev') pre = map (node_id_of ev) pre) by (apply map_ext_in; intros j Hj; apply Hnm; auto).
    rewrite En, Ei. destruct (Hnm i Hi) as [-> ->].
    apply nodupb_NoDup in Hnames. apply znodupb_NoDup in Hids.
    change (fun i0 : iface => match node_of ev i0 with Some nd => e_name (nd_ent nd) | None => EmptyString end) with (node_name_of ev) in Hnames.
    change (fun i0 : iface => match node_of ev i0 with Some nd => nd_id nd | None => 0 end) with (node_id_of ev) in Hids.
    rewrite E in Hnames, Hids. apply NoDup_prefix_fresh in Hnames. apply NoDup_prefix_fresh in Hids.
    destruct (memb _ _) eqn:E1; [apply memb_In in E1; contradiction|].
    destruct (existsb _ _) eqn:E2; [apply zmem_In in E2; contradiction|].
    pose proof (Hifs i Hi) as Hiok. unfold iface_okb in Hiok. destruct (andb5 _ _ _ _ _ Hiok) as (_ & _ & _ & _ & Hsz).
    rewrite Hsz. cbn [negb].
    rewrite static_ids_ok_intro.
    2:{ intros m Hm Hs C. apply znodupb_NoDup in Hstat. rewrite E in Hstat. rewrite flat_map_app in Hstat. cbn [flat_map] in Hstat.
        rewrite !filter_app, !map_app in Hstat. pose proof (NoDup_app_disjoint' _ _ Hstat) as Hdis.
        apply (Hdis (m_static m)); auto. apply in_or_app. left. apply in_map. apply filter_In; auto. }
    cbn [negb bind]. rewrite map_app, rev_app_distr. reflexivity. }
  rewrite Hfold. cbn [bind fst snd].
  assert (Hasg' : load_assigns (ev_attrs ev') (save_assigns (e_id (b_ent b)) (b_attrs b)) = Ok (b_attrs b)).
  { apply rt_assigns; auto. intros a Ha. unfold ref_attrs. apply in_map. apply in_or_app. left. apply in_flat_map. eauto. }
  rewrite Hasg'. cbn [bind]. rewrite u32_id by auto. apply Z.eqb_eq in Htype.
  destruct b; cbn in *. subst. reflexivity.
Qed.

End RT2.
