(* C12 — round trip, part 3: the network; load (save n) = Ok (canon n) given the round trip of
   the signal lists (sigs_rt) and the freshness of the saved ids. *)
From Coq Require Import ZArith List String Bool Lia Permutation.
From Acme.C12 Require Import Proto NetModel Save Load Proj Domain Lemmas ProofsRT1 ProofsRT2.
Import ListNotations.
Open Scope Z_scope.

Arguments save_entity : simpl never.
Arguments load_entity : simpl never.
Arguments u32 : simpl never.
Arguments i32 : simpl never.
Arguments load_assigns : simpl never.
Arguments save_assigns : simpl never.
Arguments isort : simpl never.

Lemma andb8 : forall a b c d e f g h, a && b && c && d && e && f && g && h = true ->
  a = true /\ b = true /\ c = true /\ d = true /\ e = true /\ f = true /\ g = true /\ h = true.
Proof. intros a b c d e f g h H. destruct a, b, c, d, e, f, g, h; cbn in H; try discriminate; repeat split; auto. Qed.

(* the key lists of the tables are duplicate free *)
Lemma net_ids_tables : forall n, NoDup (net_ids n) ->
  NoDup (map builder_key (n_builders n)) /\ NoDup (map node_key (n_nodes n)) /\ NoDup (map type_key (n_types n)) /\
  NoDup (map unit_key (n_units n)) /\ NoDup (map enum_key (n_enums n)) /\ NoDup (map attr_key (n_attrs n)).
Proof.
  intros n H. unfold net_ids in H. inversion H as [|? ? _ H1]; subst.
  apply NoDup_app_r' in H1. apply NoDup_app_r' in H1. apply NoDup_app_r' in H1.
  pose proof (NoDup_app_l' _ _ H1) as B. apply NoDup_app_r' in H1.
  pose proof (NoDup_app_l' _ _ H1) as N. apply NoDup_app_r' in H1.
  pose proof (NoDup_app_l' _ _ H1) as T. apply NoDup_app_r' in H1.
  pose proof (NoDup_app_l' _ _ H1) as U. apply NoDup_app_r' in H1.
  pose proof (NoDup_app_l' _ _ H1) as E. apply NoDup_app_r' in H1. apply NoDup_app_r' in H1.
  repeat split; auto.
Qed.

Lemma agree_canon : forall {A} (key : A -> string) (le : A -> A -> bool) refs (t : list A),
  NoDup (map key t) ->
  agree key refs t (isort le (filter (fun a => memb (key a) refs) t)).
Proof.
  intros A key le refs t Hnd k a Hk F. apply find_key_canon; auto.
  apply find_key_Some in F. destruct F as [_ <-]. now apply memb_In.
Qed.

Section RT3.
Variable now : time.
Variable sc : env -> msg -> bool.
Variable n : net.
Hypothesis Hwf : wfb_gen sc n = true.
Hypothesis Hdom : in_domain n = true.
Hypothesis Hsigs : forall m, In m (all_msgs n) -> sigs_rt now n m.
Hypothesis Hids : nodupb (pnet_ids (save n)) = true.

Theorem load_save_gen : load now (save n) = Ok (canon n).
Proof.
  unfold wfb_gen in Hwf. destruct (andb8 _ _ _ _ _ _ _ _ Hwf) as (W1 & W2 & W3 & W4 & W5 & W6 & W7 & W8).
  unfold in_domain in Hdom. destruct (andb8 _ _ _ _ _ _ _ _ Hdom) as (D0 & D1 & D2 & D3 & D4 & D5 & D6 & D7).
  apply nodupb_NoDup in W1. destruct (net_ids_tables n W1) as (KB & KN & KT & KU & KE & KA).
  rewrite forallb_forall in W3, W5, W6, W7, W8, D1, D2, D3, D4, D5, D6, D7.
  assert (Hattrs : agree attr_key (ref_attrs n) (n_attrs n) (n_attrs (canon n))) by (apply agree_canon; auto).
  assert (Hnodes : agree node_key (ref_nodes n) (n_nodes n) (n_nodes (canon n))) by (apply agree_canon; auto).
  assert (Hbuilders : agree builder_key (ref_builders n) (n_builders n) (n_builders (canon n))) by (apply agree_canon; auto).
  unfold load. rewrite Hids. cbn [negb].
  unfold save at 1; cbn [pn_ent]. rewrite load_save_entity by auto. cbn [bind].
  (* tables *)
  assert (TB : mapM (load_builder now) (pn_builders (save n)) = Ok (n_builders (canon n))).
  { unfold save; cbn [pn_builders]. apply mapM_map_id. intros x Hx. apply isort_In in Hx. apply filter_In in Hx.
    apply load_save_builder. apply D2. tauto. }
  assert (TA : mapM (load_attr now) (pn_attrs (save n)) = Ok (n_attrs (canon n))).
  { unfold save; cbn [pn_attrs]. apply mapM_map_id. intros x Hx. apply isort_In in Hx. apply filter_In in Hx.
    apply load_save_attr; [apply W8 | apply D7]; tauto. }
  assert (TN : mapM (load_node now (n_attrs (canon n))) (pn_nodes (save n)) = Ok (n_nodes (canon n))).
  { unfold save; cbn [pn_nodes]. apply mapM_map_id. intros x Hx. apply isort_In in Hx.
    assert (Hx0 : In x (n_nodes n)) by (unfold saved_nodes in Hx; apply filter_In in Hx; tauto).
    pose proof (D3 x Hx0) as Dx. unfold node_dom in Dx. repeat (apply andb_true_iff in Dx; destruct Dx as [Dx ?]).
    unfold load_node, save_node; cbn [pnd_ent pnd_id pnd_ifcount pnd_attrs].
    rewrite load_save_entity by auto. cbn [bind].
    assert (HA : load_assigns (n_attrs (canon n)) (save_assigns (e_id (nd_ent x)) (nd_attrs x)) = Ok (nd_attrs x)).
    { apply (load_save_assigns (net_env n)); [exact (W5 x Hx0) | assumption |].
      intros a Ha. pose proof (W5 x Hx0) as Wx. unfold assigns_okb in Wx. apply andb_true_iff in Wx. destruct Wx as [Wx _].
        rewrite forallb_forall in Wx. specialize (Wx a Ha). unfold assign_okb in Wx.
        destruct (find_key attr_key (as_attr a) (ev_attrs (net_env n))) as [ad|] eqn:F; [|discriminate].
        assert (Hr : In (as_attr a) (ref_attrs n)).
        { unfold ref_attrs. apply in_map. apply in_or_app; right. apply in_or_app; right. apply in_or_app; right.
          apply in_flat_map. exists x. split; auto. }
      apply (Hattrs _ _ Hr F). }
    rewrite HA. cbn [bind]. rewrite !u32_id by auto. destruct x; reflexivity. }
  assert (TT : mapM (load_type now) (pn_types (save n)) = Ok (n_types (canon n))).
  { unfold save; cbn [pn_types]. apply mapM_map_id. intros x Hx. apply isort_In in Hx. apply filter_In in Hx.
    apply load_save_type; [apply W6 | apply D4]; tauto. }
  assert (TU : mapM (load_unit now) (pn_units (save n)) = Ok (n_units (canon n))).
  { unfold save; cbn [pn_units]. apply mapM_map_id. intros x Hx. apply isort_In in Hx. apply filter_In in Hx.
    apply load_save_unit. apply D5. tauto. }
  assert (TE : mapM (load_enum now) (pn_enums (save n)) = Ok (n_enums (canon n))).
  { unfold save; cbn [pn_enums]. apply mapM_map_id. intros x Hx. apply isort_In in Hx. apply filter_In in Hx.
    apply load_save_enum; [apply W7 | apply D6]; tauto. }
  rewrite TB. cbn [bind]. rewrite TA. cbn [bind]. rewrite TN. cbn [bind]. rewrite TT. cbn [bind].
  rewrite TU. cbn [bind]. rewrite TE. cbn [bind].
  change {| ev_types := n_types (canon n); ev_units := n_units (canon n); ev_enums := n_enums (canon n);
            ev_attrs := n_attrs (canon n); ev_nodes := n_nodes (canon n) |} with (net_env (canon n)).
  (* buses *)
  assert (TBus : foldM (load_net_bus now (net_env (canon n)) (n_builders (canon n))) ([], []) (pn_buses (save n)) =
                 Ok (n_buses n, rev (map ikey (flat_map b_ifaces (n_buses n))))).
  { unfold save; cbn [pn_buses].
    apply (foldM_rebuild _ save_bus (fun pre : list bus => (pre, rev (map ikey (flat_map b_ifaces pre)))) (n_buses n)).
    intros pre b post E.
    assert (Hb : In b (n_buses n)) by (rewrite E; apply in_or_app; right; apply in_eq).
    unfold load_net_bus.
    apply pair_nodupb_NoDup in W4. unfold all_ifaces in W4. rewrite E in W4.
    rewrite flat_map_app in W4. cbn [flat_map] in W4. rewrite !map_app in W4.
    rewrite (rt_bus now sc n Hattrs Hnodes Hbuilders Hsigs _ b Hb (W3 b Hb) (D1 b Hb)).
    - cbn [bind fst snd]. apply nodupb_NoDup in W2. rewrite E in W2. apply NoDup_prefix_fresh in W2.
      destruct (memb _ _) eqn:E1; [apply memb_In in E1; contradiction|].
      rewrite flat_map_app, map_app, rev_app_distr. cbn [flat_map]. rewrite app_nil_r. reflexivity.
    - apply NoDup_app_r' in W4. eapply NoDup_app_l'; eauto.
    - intros i Hi C. rewrite <- in_rev in C.
      pose proof (NoDup_app_disjoint' _ _ W4) as Hdis. apply (Hdis (ikey i)); auto.
      apply in_or_app. left. now apply in_map. }
  rewrite TBus. cbn [bind fst]. reflexivity.
Qed.

End RT3.
