(* C12 — round trip, part 4: the signal list of a message, given that each signal tree loads
   back (load_sig (save_sig s) = s at position 0) and keeps its size in the saved tables. *)
From Coq Require Import ZArith List String Bool Lia.
From Acme.C12 Require Import Proto NetModel Save Load Proj Domain Lemmas SigLemmas ProofsRT1 ProofsRT2.
Import ListNotations.
Open Scope Z_scope.

Arguments u32 : simpl never.

(* ---- a sorted layout is rebuilt by inserting its elements in order *)
Lemma layout_okb_split : forall ev L pre s post from,
  layout_okb ev L from (pre ++ s :: post) = true ->
  (forall t, In t pre -> sig_pos t + sig_size ev t <= sig_pos s /\ 1 <= sig_size ev t) /\
  from <= sig_pos s /\ 1 <= sig_size ev s /\ sig_pos s + sig_size ev s <= L.
Proof.
  intros ev L pre; induction pre as [|a r IH]; intros s post from H; cbn in H.
  - apply andb_true_iff in H. destruct H as [H H3]. apply andb_true_iff in H. destruct H as [H1 H2].
    apply Z.leb_le in H1, H2. split; [intros t []|]. repeat split; auto.
    clear - H3. revert H3. generalize (sig_pos s + sig_size ev s). induction post as [|b q IHq]; intros f H; cbn in H.
    + now apply Z.leb_le in H.
    + apply andb_true_iff in H. destruct H as [H H3]. apply andb_true_iff in H. destruct H as [H1 H2].
      apply Z.leb_le in H1, H2. specialize (IHq _ H3). lia.
  - apply andb_true_iff in H. destruct H as [H H3]. apply andb_true_iff in H. destruct H as [H1 H2].
    apply Z.leb_le in H1, H2. destruct (IH s post _ H3) as (I1 & I2 & I3 & I4).
    split; [|repeat split; auto; lia]. intros t [<-|Ht]; [split; auto; lia | auto].
Qed.

Lemma layout_scan_all_before : forall ev l pos endb,
  (forall t, In t l -> sig_pos t + sig_size ev t <= pos) -> layout_scan ev l pos endb = Ok tt.
Proof.
  intros ev l; induction l as [|t r IH]; intros pos endb H; cbn; auto.
  destruct (endb <=? sig_pos t); auto.
  destruct (pos >=? sig_pos t + sig_size ev t) eqn:E.
  - apply IH. intros; apply H; now right.
  - rewrite Z.geb_leb in E. apply Z.leb_gt in E. specialize (H t (in_eq _ _)). lia.
Qed.

Lemma layout_insert_append : forall l x pos,
  (forall t, In t l -> sig_pos t <= pos) -> layout_insert l x pos = l ++ [sig_set_pos x pos].
Proof.
  induction l as [|t r IH]; intros x pos H; cbn; auto.
  destruct (sig_pos t >? pos) eqn:E.
  - apply Z.gtb_lt in E. specialize (H t (in_eq _ _)). lia.
  - f_equal. apply IH. intros; apply H; now right.
Qed.

Section RT4.
Variable now : time.
Variable ev ev' : env.

Lemma sigs_rt_compose : forall bits sigs,
  layout_okb ev bits 0 sigs = true ->
  (forall s, In s sigs -> load_sig now ev' bits (save_sig s) = Ok (sig_set_pos s 0)) ->
  (forall s, In s sigs -> sig_size ev' s = sig_size ev s) ->
  (forall s, In s sigs -> u32_ok (sig_pos s) = true) ->
  NoDup (map sig_id sigs) ->
  rt_name_inj (flat_map sig_flat sigs) ->
  ForallOrdPairs (fun a b => rt_disjoint (sig_ids a) (sig_ids b)) sigs ->
  foldM (load_msg_signal now ev' bits (refs_map (map save_ref sigs))) [] (map save_sig sigs) = Ok sigs.
Proof.
  intros bits sigs Hlay Hload Hsize Hpos Hnd Hinj Hdis.
  apply (foldM_rebuild _ save_sig (fun pre : list sig => pre) sigs).
  intros pre s post E.
  assert (Hs : In s sigs) by (rewrite E; apply in_or_app; right; apply in_eq).
  assert (Hpre : forall t, In t pre -> In t sigs) by (intros t Ht; rewrite E; apply in_or_app; auto).
  unfold load_msg_signal. rewrite (Hload s Hs). cbn [bind]. rewrite rt_sig_id_set_pos.
  rewrite (refs_map_lookup sigs s Hnd Hs). rewrite u32_id by auto.
  rewrite E in Hlay. destruct (layout_okb_split _ _ _ _ _ _ Hlay) as (L1 & L2 & L3 & L4).
  unfold msg_insert_signal.
  (* the name of s is new *)
  assert (Hfl : forall a, In a (flat_map sig_flat pre) -> exists t, In t pre /\ In a (sig_flat t)).
  { intros a Ha. apply in_flat_map in Ha. destruct Ha as (t & Ht & Ha). eauto. }
  assert (Hin_all : forall t a, In t sigs -> In a (sig_flat t) -> In a (flat_map sig_flat sigs)).
  { intros t a Ht Ha. apply in_flat_map. eauto. }
  assert (Hsep : forall t a, In t pre -> In a (sig_flat t) -> ~ In (sig_id a) (sig_ids s)).
  { intros t a Ht Ha C. rewrite E in Hdis. pose proof (ForallOrdPairs_app_pre _ _ _ _ Hdis t Ht) as D.
    apply (D (sig_id a)); auto. now apply sig_ids_flat. }
  rewrite rt_sig_name_set_pos.
  destruct (memb (sig_name s) (map sig_name (flat_map sig_flat pre))) eqn:E1.
  { exfalso. apply memb_In in E1. apply in_map_iff in E1. destruct E1 as (a & Ea & Ha).
    destruct (Hfl a Ha) as (t & Ht & Hat).
    apply (Hsep t a Ht Hat).
    assert (Eid : sig_id a = sig_id s).
    { apply Hinj; [exact (Hin_all t a (Hpre t Ht) Hat) | | exact Ea].
      apply (Hin_all s s Hs). rewrite rt_sig_flat_head. apply in_eq. }
    rewrite Eid. apply sig_id_in_sig_ids. }
  rewrite names_clash_intro.
  2:{ intros a b Ha Hb Hn.
      (* elements of the moved tree have the names / ids of the original tree *)
      assert (Ha' : exists a0, In a0 (sig_flat s) /\ sig_name a0 = sig_name a /\ sig_id a0 = sig_id a).
      { rewrite rt_sig_flat_set_pos in Ha. destruct Ha as [<-|Ha].
        - exists s. rewrite rt_sig_name_set_pos, rt_sig_id_set_pos. split; auto. rewrite rt_sig_flat_head. apply in_eq.
        - exists a. split; auto. rewrite rt_sig_flat_head. now right. }
      destruct Ha' as (a0 & Ha0 & Na & Ia).
      apply in_app_or in Hb. destruct Hb as [Hb|Hb].
      - assert (Hb' : exists b0, In b0 (sig_flat s) /\ sig_name b0 = sig_name b /\ sig_id b0 = sig_id b).
        { rewrite rt_sig_flat_set_pos in Hb. destruct Hb as [<-|Hb].
          - exists s. rewrite rt_sig_name_set_pos, rt_sig_id_set_pos. split; auto. rewrite rt_sig_flat_head. apply in_eq.
          - exists b. split; auto. rewrite rt_sig_flat_head. now right. }
        destruct Hb' as (b0 & Hb0 & Nb & Ib). rewrite <- Ia, <- Ib.
        apply Hinj; [exact (Hin_all s a0 Hs Ha0) | exact (Hin_all s b0 Hs Hb0) | congruence].
      - destruct (Hfl b Hb) as (t & Ht & Hbt). rewrite <- Ia.
        apply Hinj; [exact (Hin_all s a0 Hs Ha0) | exact (Hin_all t b (Hpre t Ht) Hbt) | congruence]. }
  (* the layout *)
  unfold layout_verify. rewrite rt_sig_size_set_pos, (Hsize s Hs).
  destruct (sig_pos s <? 0) eqn:E2; [apply Z.ltb_lt in E2; lia|].
  destruct (sig_size ev s >? bits) eqn:E3; [apply Z.gtb_lt in E3; lia|].
  destruct (sig_pos s + sig_size ev s >? bits) eqn:E4; [apply Z.gtb_lt in E4; lia|].
  rewrite layout_scan_all_before.
  2:{ intros t Ht. rewrite (Hsize t (Hpre t Ht)). apply L1; auto. }
  cbn [bind]. rewrite layout_insert_append.
  2:{ intros t Ht. destruct (L1 t Ht). lia. }
  rewrite sig_set_pos_twice, sig_set_pos_self. reflexivity.
Qed.

End RT4.
