(* C12 — round trip, part 5: standard and enum signals; the theorem for networks without
   multiplexers (load_save_nomux). *)
From Coq Require Import ZArith List String Bool Lia.
From Acme.C12 Require Import Proto NetModel Save Load Proj Domain Lemmas SigLemmas ProofsRT1 ProofsRT2 ProofsRT3 ProofsRT4.
Import ListNotations.
Open Scope Z_scope.

Arguments save_entity : simpl never.
Arguments load_entity : simpl never.
Arguments u32 : simpl never.
Arguments load_assigns : simpl never.
Arguments save_assigns : simpl never.
Arguments enc_sig_send : simpl never.
Arguments dec_sig_send : simpl never.
Arguments isort : simpl never.

Lemma f_ne_zero_false : forall s, f_ne s f_zero = false -> s = 0 \/ s = two63.
Proof.
  intros s H. unfold f_ne in H. apply negb_false_iff in H. unfold f_eq in H.
  apply andb_true_iff in H. destruct H as [_ H]. apply Z.eqb_eq in H. unfold f_ord, f_zero in H.
  change (0 <? two63) with true in H. cbn [f_zero] in H.
  destruct (s <? two63); [left; exact H | right; lia].
Qed.

Lemma start_roundtrip : forall s, negb (s =? two63) = true -> (if f_ne s f_zero then s else f_zero) = s.
Proof.
  intros s H. apply negb_true_iff, Z.eqb_neq in H.
  destruct (f_ne s f_zero) eqn:E; auto. apply f_ne_zero_false in E. destruct E; [subst; reflexivity | contradiction].
Qed.

Definition sig_simple (s : sig) : bool := match s with SMux _ _ _ _ => false | _ => true end.
Definition net_simple (n : net) : bool := forallb (fun m => forallb sig_simple (m_signals m)) (all_msgs n).

Section RT5.
Variable now : time.
Variable n : net.

Let ev := net_env n.
Let ev' := net_env (canon n).

Hypothesis Htypes : agree type_key (ref_types n) (n_types n) (n_types (canon n)).
Hypothesis Hunits : agree unit_key (ref_units n) (n_units n) (n_units (canon n)).
Hypothesis Henums : agree enum_key (ref_enums n) (n_enums n) (n_enums (canon n)).
Hypothesis Hattrs : agree attr_key (ref_attrs n) (n_attrs n) (n_attrs (canon n)).

Lemma rt_sig_assigns : forall s,
  In s (all_sigs n) -> assigns_okb ev (sh_attrs (sig_head s)) = true -> forallb assign_dom (sh_attrs (sig_head s)) = true ->
  load_assigns (ev_attrs ev') (save_assigns (e_id (sh_ent (sig_head s))) (sh_attrs (sig_head s))) = Ok (sh_attrs (sig_head s)).
Proof.
  intros s Hs Hok Hd. apply (load_save_assigns ev); auto.
  intros a Ha. unfold assigns_okb in Hok. apply andb_true_iff in Hok. destruct Hok as [H1 _].
  rewrite forallb_forall in H1. specialize (H1 a Ha). unfold assign_okb in H1.
  destruct (find_key attr_key (as_attr a) (ev_attrs ev)) as [ad|] eqn:F; [|discriminate].
  apply (Hattrs _ _) in F; auto.
  unfold ref_attrs. apply in_map. apply in_or_app; right. apply in_or_app; right. apply in_or_app; left.
  apply in_flat_map. exists s. split; auto.
Qed.

Lemma rt_sig_simple : forall lim s,
  In s (all_sigs n) -> sig_simple s = true -> sig_okb ev s = true -> sig_dom s = true ->
  load_sig now ev' lim (save_sig s) = Ok (sig_set_pos s 0) /\ sig_size ev' s = sig_size ev s.
Proof.
  intros lim s Hs Hsimple Hok Hd.
  destruct s as [h t u|h e|h c z g]; [| |discriminate].
  - (* standard *)
    cbn [sig_okb sig_head] in Hok. apply andb_true_iff in Hok. destruct Hok as [Hasg Hrefs].
    apply andb_true_iff in Hrefs. destruct Hrefs as [Hty Hun].
    cbn [sig_dom sig_head] in Hd. rewrite andb_true_r in Hd. unfold head_dom in Hd.
    destruct (andb5 _ _ _ _ _ Hd) as (D1 & D2 & D3 & D4 & D5).
    destruct (find_key type_key t (ev_types ev)) as [ty|] eqn:Ft; [|discriminate].
    assert (Ft' : find_key type_key t (ev_types ev') = Some ty).
    { apply (Htypes t ty); auto. unfold ref_types. apply in_flat_map. exists (SStd h t u). split; auto. apply in_eq. }
    split; [|cbn [sig_size]; now rewrite Ft, Ft'].
    cbn [save_sig sig_head sig_kind_num load_sig]. rewrite load_save_entity by auto. cbn [bind].
    change (dec_sig_kind 1 =? 1) with true. cbn [negb]. rewrite Ft'.
    assert (Hu : negb (String.eqb u "") && match find_key unit_key u (ev_units ev') with None => true | Some _ => false end = false).
    { destruct (String.eqb u "") eqn:Eu; cbn [negb andb orb] in *; auto.
      destruct (find_key unit_key u (ev_units ev)) as [un|] eqn:Fu; [|discriminate].
      assert (Hr : In u (ref_units n)).
      { unfold ref_units. apply in_flat_map. exists (SStd h t u). split; auto. rewrite Eu. apply in_eq. }
      pose proof (Hunits u un Hr Fu) as Fu'. change (n_units (canon n)) with (ev_units ev') in Fu'. now rewrite Fu'. }
    rewrite Hu.
    pose proof (rt_sig_assigns (SStd h t u) Hs Hasg D4) as HA. cbn [sig_head] in HA. rewrite HA. cbn [bind].
    rewrite dec_enc_sig_send by auto. rewrite start_roundtrip by auto.
    destruct h; reflexivity.
  - (* enum *)
    cbn [sig_okb sig_head] in Hok. apply andb_true_iff in Hok. destruct Hok as [Hasg Hen].
    cbn [sig_dom sig_head] in Hd. rewrite andb_true_r in Hd. unfold head_dom in Hd.
    destruct (andb5 _ _ _ _ _ Hd) as (D1 & D2 & D3 & D4 & D5).
    destruct (find_key enum_key e (ev_enums ev)) as [en|] eqn:Fe; [|discriminate].
    assert (Fe' : find_key enum_key e (ev_enums ev') = Some en).
    { apply (Henums e en); auto. unfold ref_enums. apply in_flat_map. exists (SEnum h e). split; auto. apply in_eq. }
    split; [|cbn [sig_size]; now rewrite Fe, Fe'].
    cbn [save_sig sig_head sig_kind_num load_sig]. rewrite load_save_entity by auto. cbn [bind].
    change (dec_sig_kind 2 =? 2) with true. cbn [negb]. rewrite Fe'.
    pose proof (rt_sig_assigns (SEnum h e) Hs Hasg D4) as HA. cbn [sig_head] in HA. rewrite HA. cbn [bind].
    rewrite dec_enc_sig_send by auto. rewrite start_roundtrip by auto.
    destruct h; reflexivity.
Qed.

End RT5.
