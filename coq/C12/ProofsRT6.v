(* C12 — round trip, part 6: the entity ids written by the saver are pairwise distinct
   (the duplicate check of the loader passes), for networks without multiplexers; the theorem
   load_save_nomux. *)
From Coq Require Import ZArith List String Bool Lia Permutation.
From Acme.C12 Require Import Proto NetModel Save Load Proj Domain Lemmas SigLemmas ProofsRT1 ProofsRT2 ProofsRT3 ProofsRT4 ProofsRT5.
Import ListNotations.
Open Scope Z_scope.

Arguments save_entity : simpl never.
Arguments isort : simpl never.

Lemma NoDup_app_intro' : forall {A} (a b : list A),
  NoDup a -> NoDup b -> (forall x, In x a -> ~ In x b) -> NoDup (a ++ b).
Proof.
  induction a as [|x r IH]; intros b Ha Hb Hd; cbn; auto.
  inversion Ha; subst. constructor.
  - intros C. apply in_app_or in C. destruct C; [contradiction|]. eapply Hd; eauto using in_eq.
  - apply IH; auto. intros; apply Hd; auto using in_cons.
Qed.

Lemma concat_incl_Forall2 : forall (xs ys : list (list string)),
  Forall2 (fun x y => NoDup y /\ incl y x) xs ys -> incl (List.concat ys) (List.concat xs).
Proof.
  intros xs ys H; induction H as [|x y xs ys [_ H2] HF IH]; cbn; [intros z []|].
  intros z Hz. apply in_app_or in Hz. apply in_or_app. destruct Hz; auto.
Qed.

Lemma NoDup_concat_incl : forall (xs ys : list (list string)),
  Forall2 (fun x y => NoDup y /\ incl y x) xs ys -> NoDup (List.concat xs) -> NoDup (List.concat ys).
Proof.
  intros xs ys H; induction H as [|x y xs ys [H1 H2] HF IH]; intros Hnd; cbn in *; [constructor|].
  apply NoDup_app_intro'; auto.
  - apply IH. eapply NoDup_app_r'; eauto.
  - intros z Hz Hz'. apply (NoDup_app_disjoint' _ _ Hnd z); auto. eapply concat_incl_Forall2; eauto.
Qed.

Lemma flat_map_map : forall {A B C} (f : A -> B) (g : B -> list C) l, flat_map g (map f l) = flat_map (fun x => g (f x)) l.
Proof. intros A B C f g l; induction l; cbn; auto. now rewrite IHl. Qed.

Lemma flat_map_single : forall {A B} (f : A -> B) l, flat_map (fun x => [f x]) l = map f l.
Proof. intros A B f l; induction l; cbn; auto; try congruence. Qed.

Lemma flat_map_ext_in : forall {A B} (f g : A -> list B) l, (forall x, In x l -> f x = g x) -> flat_map f l = flat_map g l.
Proof. intros A B f g l H; induction l as [|a r IH]; cbn; auto. rewrite H by apply in_eq. rewrite IH; auto. intros; apply H; now right. Qed.

Lemma pent_ids_save : forall k e, pent_ids (Some (save_entity k e)) = [e_id e].
Proof. reflexivity. Qed.

(* saved messages of the saved buses *)
Lemma save_msgs_flat : forall bs,
  flat_map pif_msgs (flat_map pb_ifaces (map save_bus bs)) = map save_msg (flat_map if_msgs (flat_map b_ifaces bs)).
Proof.
  induction bs as [|b r IH]; cbn; auto.
  rewrite !flat_map_app, map_app, IH. f_equal.
  induction (b_ifaces b) as [|i q IHq]; cbn; auto. rewrite map_app, IHq. reflexivity.
Qed.

(* keys of a saved table: duplicate free and among the keys of the table *)
Lemma canon_keys : forall {A} (key : A -> string) (le : A -> A -> bool) (p : A -> bool) l,
  NoDup (map key l) ->
  NoDup (map key (isort le (filter p l))) /\ incl (map key (isort le (filter p l))) (map key l).
Proof.
  intros A key le p l H. split; [apply NoDup_map_canon; auto|].
  intros k Hk. apply in_map_iff in Hk. destruct Hk as (a & <- & Ha). apply isort_In in Ha. apply filter_In in Ha.
  apply in_map. tauto.
Qed.

Lemma NoDup_flat_map_filter : forall {A} (f : A -> list string) (p : A -> bool) l,
  NoDup (flat_map f l) -> NoDup (flat_map f (filter p l)).
Proof.
  intros A f p l; induction l as [|a r IH]; intros H; cbn in *; [constructor|].
  destruct (p a); cbn.
  - apply NoDup_app_intro'.
    + eapply NoDup_app_l'; eauto.
    + apply IH. eapply NoDup_app_r'; eauto.
    + intros x Hx Hx'. apply (NoDup_app_disjoint' _ _ H x Hx). apply in_flat_map in Hx'. destruct Hx' as (b & Hb & Hx').
      apply filter_In in Hb. apply in_flat_map. exists b. tauto.
  - apply IH. eapply NoDup_app_r'; eauto.
Qed.

Lemma canon_flat_keys : forall {A} (f : A -> list string) (le : A -> A -> bool) (p : A -> bool) l,
  NoDup (flat_map f l) ->
  NoDup (flat_map f (isort le (filter p l))) /\ incl (flat_map f (isort le (filter p l))) (flat_map f l).
Proof.
  intros A f le p l H. split.
  - eapply Permutation_NoDup; [apply Permutation_flat_map; apply Permutation_sym; apply isort_perm|].
    apply NoDup_flat_map_filter; auto.
  - intros k Hk. apply in_flat_map in Hk. destruct Hk as (a & Ha & Hk). apply isort_In in Ha. apply filter_In in Ha.
    apply in_flat_map. exists a. tauto.
Qed.

Lemma ordpairs_ids_nodup : forall sigs,
  ForallOrdPairs (fun a b => rt_disjoint (sig_ids a) (sig_ids b)) sigs -> NoDup (map sig_id sigs).
Proof.
  intros sigs H; induction H as [|a r Ha Hr IH]; cbn; constructor; auto.
  intros C. apply in_map_iff in C. destruct C as (b & Eb & Hb). rewrite Forall_forall in Ha.
  apply (Ha b Hb (sig_id a)); [apply sig_id_in_sig_ids | rewrite <- Eb; apply sig_id_in_sig_ids].
Qed.

Lemma simple_flat : forall sigs, forallb sig_simple sigs = true -> flat_map sig_flat sigs = sigs.
Proof.
  induction sigs as [|s r IH]; intros H; cbn in *; auto. apply andb_true_iff in H. destruct H as [H1 H2].
  rewrite IH by auto. destruct s; cbn in *; try discriminate; reflexivity.
Qed.

Section RT6.
Variable now : time.
Variable n : net.
Hypothesis Hwf : wfb n = true.
Hypothesis Hdom : in_domain n = true.
Hypothesis Hsimple : net_simple n = true.

(* facts about every message of a well-formed network *)
Lemma wf_msg : forall m, In m (all_msgs n) -> msg_sigs_okb (net_env n) m = true /\ msg_dom m = true.
Proof.
  intros m Hm. unfold wfb, wfb_gen in Hwf. destruct (andb8 _ _ _ _ _ _ _ _ Hwf) as (_ & _ & W3 & _).
  unfold in_domain in Hdom. destruct (andb8 _ _ _ _ _ _ _ _ Hdom) as (_ & D1 & _).
  rewrite forallb_forall in W3, D1.
  unfold all_msgs, all_ifaces in Hm. apply in_flat_map in Hm. destruct Hm as (i & Hi & Hm).
  apply in_flat_map in Hi. destruct Hi as (b & Hb & Hi).
  pose proof (W3 b Hb) as Wb. unfold bus_okb in Wb. destruct (andb7 _ _ _ _ _ _ _ Wb) as (_ & _ & Wi & _).
  rewrite forallb_forall in Wi. pose proof (Wi i Hi) as Wii. unfold iface_okb in Wii.
  destruct (andb5 _ _ _ _ _ Wii) as (_ & Wm & _). rewrite forallb_forall in Wm. pose proof (Wm m Hm) as Wmm.
  unfold msg_okb in Wmm. apply andb_true_iff in Wmm. destruct Wmm as [_ Ws]. split; auto.
  pose proof (D1 b Hb) as Db. unfold bus_dom in Db. destruct (andb5 _ _ _ _ _ Db) as (_ & _ & _ & Di & _).
  rewrite forallb_forall in Di. pose proof (Di i Hi) as Dii. unfold iface_dom in Dii. apply andb_true_iff in Dii.
  destruct Dii as [_ Dm]. rewrite forallb_forall in Dm. auto.
Qed.

Lemma msg_sigs_facts : forall m, In m (all_msgs n) ->
  forallb sig_simple (m_signals m) = true /\
  layout_okb (net_env n) (m_size m * 8) 0 (m_signals m) = true /\
  (forall s, In s (m_signals m) -> sig_okb (net_env n) s = true /\ sig_dom s = true) /\
  ForallOrdPairs (fun a b => rt_disjoint (sig_ids a) (sig_ids b)) (m_signals m) /\
  NoDup (map sig_id (m_signals m)) /\ NoDup (map sig_name (m_signals m)).
Proof.
  intros m Hm. destruct (wf_msg m Hm) as [Ws Dm].
  unfold net_simple in Hsimple. rewrite forallb_forall in Hsimple. pose proof (Hsimple m Hm) as Hs.
  unfold msg_sigs_okb in Ws. destruct (andb5 _ _ _ _ _ Ws) as (S1 & S2 & S3 & S4 & S5).
  unfold msg_dom in Dm. repeat (apply andb_true_iff in Dm; destruct Dm as [Dm ?]).
  assert (Hpairs : ForallOrdPairs (fun a b => rt_disjoint (sig_ids a) (sig_ids b)) (m_signals m)).
  { apply rt_pairwise_disjointb_iff in S4. now apply ForallOrdPairs_map_inv in S4. }
  pose proof (ordpairs_ids_nodup _ Hpairs) as Hnd.
  repeat split; auto.
  - rewrite forallb_forall in S2. auto.
  - match goal with Hx : forallb sig_dom (m_signals m) = true |- _ => rewrite forallb_forall in Hx; auto end.
  - unfold msg_sigs in S3. rewrite simple_flat in S3 by auto. rewrite dedup_key_id in S3; auto.
    now apply nodupb_NoDup.
Qed.

Lemma psig_ids_simple : forall s, sig_simple s = true -> psig_ids (save_sig s) = [sig_id s].
Proof. intros [h t u|h e|h c z g] H; try discriminate; reflexivity. Qed.

Lemma save_ids_simple : nodupb (pnet_ids (save n)) = true.
Proof.
  pose proof Hwf as Hwf0. unfold wfb, wfb_gen in Hwf0. destruct (andb8 _ _ _ _ _ _ _ _ Hwf0) as (W1 & _).
  apply nodupb_NoDup in W1. destruct (net_ids_tables n W1) as (KB & KN & KT & KU & KE & KA).
  apply nodupb_NoDup.
  set (msgs := flat_map if_msgs (flat_map b_ifaces (n_buses n))).
  assert (Hmsgs : forall m, In m msgs -> In m (all_msgs n)) by (intros; assumption).
  assert (KV : NoDup (flat_map (fun e => map (fun v => e_id (fst v)) (se_values e)) (n_enums n))).
  { unfold net_ids in W1. inversion W1 as [|? ? _ H1]; subst.
    do 8 apply NoDup_app_r' in H1. eapply NoDup_app_l'; eauto. }
  (* both id lists as concatenations of eleven parts *)
  assert (EN : net_ids n = List.concat
    [[e_id (n_ent n)]; map (fun b => e_id (b_ent b)) (n_buses n); map (fun m => e_id (m_ent m)) msgs;
     flat_map (fun m => map sig_id (msg_sigs m)) msgs; map builder_key (n_builders n); map node_key (n_nodes n);
     map type_key (n_types n); map unit_key (n_units n); map enum_key (n_enums n);
     flat_map (fun e => map (fun v => e_id (fst v)) (se_values e)) (n_enums n); map attr_key (n_attrs n)]).
  { unfold net_ids. cbn [List.concat]. rewrite app_nil_r. reflexivity. }
  assert (E1 : flat_map (fun b => pent_ids (pb_ent b)) (map save_bus (n_buses n)) = map (fun b => e_id (b_ent b)) (n_buses n)).
  { rewrite flat_map_map. apply flat_map_single. }
  assert (E2 : flat_map (fun m => pent_ids (pm_ent m)) (map save_msg msgs) = map (fun m => e_id (m_ent m)) msgs).
  { rewrite flat_map_map. apply flat_map_single. }
  assert (E3 : flat_map (fun m => flat_map psig_ids (pm_signals m)) (map save_msg msgs) = flat_map (fun m => map sig_id (msg_sigs m)) msgs).
  { rewrite flat_map_map. apply flat_map_ext_in. intros m Hm. cbn [save_msg pm_signals].
    destruct (msg_sigs_facts m (Hmsgs m Hm)) as (F1 & _ & _ & _ & F5 & _).
    rewrite flat_map_map. unfold msg_sigs. rewrite simple_flat by auto. rewrite dedup_key_id; auto.
    rewrite <- flat_map_single. apply flat_map_ext_in. intros s0 Hs0. rewrite forallb_forall in F1. apply psig_ids_simple. auto. }
  assert (E4 : forall l, flat_map (fun b => pent_ids (pcb_ent b)) (map save_builder l) = map builder_key l).
  { intros l. rewrite flat_map_map. apply flat_map_single. }
  assert (E5 : forall l, flat_map (fun x => pent_ids (pnd_ent x)) (map save_node l) = map node_key l).
  { intros l. rewrite flat_map_map. apply flat_map_single. }
  assert (E6 : forall l, flat_map (fun x => pent_ids (pst_ent x)) (map save_type l) = map type_key l).
  { intros l. rewrite flat_map_map. apply flat_map_single. }
  assert (E7 : forall l, flat_map (fun x => pent_ids (psu_ent x)) (map save_unit l) = map unit_key l).
  { intros l. rewrite flat_map_map. apply flat_map_single. }
  assert (E8 : forall l, flat_map (fun x => pent_ids (psn_ent x)) (map save_enum l) = map enum_key l).
  { intros l. rewrite flat_map_map. apply flat_map_single. }
  assert (E9 : forall l, flat_map (fun e => flat_map (fun v => pent_ids (pev_ent v)) (psn_values e)) (map save_enum l)
                         = flat_map (fun e => map (fun v => e_id (fst v)) (se_values e)) l).
  { intros l. rewrite flat_map_map. apply flat_map_ext_in. intros e0 _. cbn [save_enum psn_values].
    rewrite flat_map_map. apply flat_map_single. }
  assert (E10 : forall l, flat_map (fun x => pent_ids (pat_ent x)) (map save_attr l) = map attr_key l).
  { intros l. rewrite flat_map_map. apply flat_map_single. }
  assert (EP : pnet_ids (save n) = List.concat
    [[e_id (n_ent n)]; map (fun b => e_id (b_ent b)) (n_buses n); map (fun m => e_id (m_ent m)) msgs;
     flat_map (fun m => map sig_id (msg_sigs m)) msgs;
     map builder_key (n_builders (canon n)); map node_key (n_nodes (canon n)); map type_key (n_types (canon n));
     map unit_key (n_units (canon n)); map enum_key (n_enums (canon n));
     flat_map (fun e => map (fun v => e_id (fst v)) (se_values e)) (n_enums (canon n)); map attr_key (n_attrs (canon n))]).
  { unfold pnet_ids. cbn [List.concat]. rewrite app_nil_r.
    unfold save; cbn [pn_ent pn_buses pn_builders pn_nodes pn_types pn_units pn_enums pn_attrs].
    rewrite pent_ids_save. rewrite save_msgs_flat. fold msgs.
    rewrite E1, E2, E3, E4, E5, E6, E7, E8, E9, E10. reflexivity. }
  rewrite EP. rewrite EN in W1. eapply NoDup_concat_incl; [|exact W1].
  assert (R : forall l : list string, NoDup l -> NoDup l /\ incl l l) by (intros; split; auto using incl_refl).
  cbn [List.concat] in W1.
  assert (N0 : NoDup [e_id (n_ent n)]) by (constructor; [intros []|constructor]).
  pose proof W1 as T. apply NoDup_app_r' in T.
  pose proof (NoDup_app_l' _ _ T) as N1. apply NoDup_app_r' in T.
  pose proof (NoDup_app_l' _ _ T) as N2. apply NoDup_app_r' in T.
  pose proof (NoDup_app_l' _ _ T) as N3.
  constructor; [exact (R _ N0)|]. constructor; [exact (R _ N1)|]. constructor; [exact (R _ N2)|].
  constructor; [exact (R _ N3)|].
  constructor; [apply (canon_keys builder_key); auto|].
  constructor; [apply (canon_keys node_key (fun a b => nd_id a <=? nd_id b) (fun nd => memb (node_key nd) (ref_nodes n))); auto|].
  constructor; [apply (canon_keys type_key); auto|].
  constructor; [apply (canon_keys unit_key); auto|].
  constructor; [apply (canon_keys enum_key); auto|].
  constructor; [apply (canon_flat_keys (fun e => map (fun v : entity * Z => e_id (fst v)) (se_values e))); auto|].
  constructor; [apply (canon_keys attr_key); auto|].
  constructor.
Qed.

End RT6.
