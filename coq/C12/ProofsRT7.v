(* C12 — the round-trip theorem for networks whose signals are standard or enum signals. *)
From Coq Require Import ZArith List String Bool Lia Permutation.
From Acme.C12 Require Import Proto NetModel Save Load Proj Domain Lemmas SigLemmas
     ProofsRT1 ProofsRT2 ProofsRT3 ProofsRT4 ProofsRT5 ProofsRT6 ProofsCanon.
Import ListNotations.
Open Scope Z_scope.

Arguments isort : simpl never.

Theorem load_save_nomux_lemma : forall now n,
  wfb n = true -> in_domain n = true -> net_simple n = true ->
  load now (save n) = Ok (canon n) /\ proj (canon n) = proj n.
Proof.
  intros now n Hwf Hdom Hsimple. split; [|apply canon_idem].
  pose proof Hwf as Hwf0. unfold wfb, wfb_gen in Hwf0. destruct (andb8 _ _ _ _ _ _ _ _ Hwf0) as (W1 & _).
  apply nodupb_NoDup in W1. destruct (net_ids_tables n W1) as (KB & KN & KT & KU & KE & KA).
  apply (load_save_gen now msg_sigs_okb n Hwf Hdom); [|apply save_ids_simple; auto].
  intros m Hm. unfold sigs_rt.
  destruct (msg_sigs_facts n Hwf Hdom Hsimple m Hm) as (F1 & F2 & F3 & F4 & F5 & F6).
  rewrite forallb_forall in F1.
  assert (Hall : forall s, In s (m_signals m) -> In s (all_sigs n)).
  { intros s Hs. unfold all_sigs. apply in_flat_map. exists m. split; auto. apply in_flat_map. exists s. split; auto.
    rewrite rt_sig_flat_head. apply in_eq. }
  assert (Hper : forall s, In s (m_signals m) ->
             load_sig now (net_env (canon n)) (m_size m * 8) (save_sig s) = Ok (sig_set_pos s 0) /\
             sig_size (net_env (canon n)) s = sig_size (net_env n) s).
  { intros s Hs. destruct (F3 s Hs) as [Ok1 Dom1].
    apply (rt_sig_simple now n); auto; apply agree_canon; auto. }
  apply (sigs_rt_compose now (net_env n) (net_env (canon n))); auto.
  - intros s Hs. apply Hper; auto.
  - intros s Hs. apply Hper; auto.
  - intros s Hs. destruct (F3 s Hs) as [_ Dom1]. destruct s as [h t u|h e|h c z g]; cbn [sig_dom sig_head] in Dom1;
      apply andb_true_iff in Dom1; destruct Dom1 as [Dh _]; unfold head_dom in Dh;
      destruct (andb5 _ _ _ _ _ Dh) as (_ & _ & _ & _ & Dp); exact Dp.
  - rewrite simple_flat by (apply forallb_forall; auto).
    intros a b Ha Hb Hn.
    destruct (In_nth _ _ a Ha) as (i & Hi & Ei). destruct (In_nth _ _ a Hb) as (j & Hj & Ej).
    assert (i = j).
    { apply (proj1 (NoDup_nth (map sig_name (m_signals m)) (sig_name a)) F6); try (rewrite map_length; auto).
      rewrite !(map_nth sig_name). now rewrite Ei, Ej. }
    subst j. congruence.
Qed.
