(* C12 — the full round-trip theorem: every well-formed, in-domain network (multiplexers included). *)
From Coq Require Import ZArith List String Bool Lia Permutation.
From Acme.C12 Require Import Proto NetModel Save Load Proj Domain Lemmas SigLemmas
     ProofsRT1 ProofsRT2 ProofsRT3 ProofsRT4 ProofsRT5 ProofsRT6 ProofsCanon
     ProofsMuxRT1 ProofsMuxRT2 ProofsMuxRT4 ProofsMuxRT5 ProofsMuxRT6.
Import ListNotations.
Open Scope Z_scope.

Arguments save_entity : simpl never.
Arguments isort : simpl never.

Lemma NoDup_flat_map_incl : forall {A} (f g : A -> list string) l,
  (forall a, In a l -> NoDup (g a) /\ incl (g a) (f a)) -> NoDup (flat_map f l) ->
  NoDup (flat_map g l) /\ incl (flat_map g l) (flat_map f l).
Proof.
  intros A f g l; induction l as [|a r IH]; intros H Hnd; cbn in *.
  - split; [constructor | intros x []].
  - destruct (H a (or_introl eq_refl)) as [H1 H2].
    destruct (IH (fun b Hb => H b (or_intror Hb)) (NoDup_app_r' _ _ Hnd)) as [I1 I2]. split.
    + apply NoDup_app_intro'; auto. intros x Hx Hx'. apply (NoDup_app_disjoint' _ _ Hnd x); auto.
    + intros x Hx. apply in_app_or in Hx. apply in_or_app. destruct Hx; auto.
Qed.

Section RT8.
Variable now : time.
Variable n : net.
Hypothesis Hwf : wfb n = true.
Hypothesis Hdom : in_domain n = true.

Lemma msg_sigs_facts_gen : forall m, In m (all_msgs n) ->
  layout_okb (net_env n) (m_size m * 8) 0 (m_signals m) = true /\
  (forall s, In s (m_signals m) -> sig_okb (net_env n) s = true /\ tree_ids_okb s = true /\ sig_dom s = true) /\
  ForallOrdPairs (fun a b => rt_disjoint (sig_ids a) (sig_ids b)) (m_signals m) /\
  NoDup (map sig_id (m_signals m)) /\
  rt_name_inj (flat_map sig_flat (m_signals m)).
Proof.
  intros m Hm. destruct (wf_msg n Hwf Hdom m Hm) as [Ws Dm].
  unfold msg_sigs_okb in Ws. destruct (andb5 _ _ _ _ _ Ws) as (S1 & S2 & S3 & S4 & S5).
  unfold msg_dom in Dm. repeat (apply andb_true_iff in Dm; destruct Dm as [Dm ?]).
  assert (Hpairs : ForallOrdPairs (fun a b => rt_disjoint (sig_ids a) (sig_ids b)) (m_signals m)).
  { apply rt_pairwise_disjointb_iff in S4. now apply ForallOrdPairs_map_inv in S4. }
  rewrite forallb_forall in S2, S5.
  assert (Hs : forall s, In s (m_signals m) -> sig_okb (net_env n) s = true /\ tree_ids_okb s = true) by (intros; split; auto).
  repeat split; auto.
  - match goal with Hx : forallb sig_dom (m_signals m) = true |- _ => rewrite forallb_forall in Hx; auto end.
  - apply ordpairs_ids_nodup; auto.
  - apply (name_inj_msg (net_env n)); auto. unfold msg_sigs in S3. now apply nodupb_NoDup.
Qed.

Lemma saved_ids_nodup : nodupb (pnet_ids (save n)) = true.
Proof.
  pose proof Hwf as Hwf0. unfold wfb, wfb_gen in Hwf0. destruct (andb8 _ _ _ _ _ _ _ _ Hwf0) as (W1 & _).
  apply nodupb_NoDup in W1. destruct (net_ids_tables n W1) as (KB & KN & KT & KU & KE & KA).
  apply nodupb_NoDup.
  set (msgs := flat_map if_msgs (flat_map b_ifaces (n_buses n))).
  assert (Hmsgs : forall m, In m msgs -> In m (all_msgs n)) by (intros; assumption).
  assert (KV : NoDup (flat_map (fun e => map (fun v => e_id (fst v)) (se_values e)) (n_enums n))).
  { unfold net_ids in W1. inversion W1 as [|? ? _ H1]; subst.
    do 8 apply NoDup_app_r' in H1. eapply NoDup_app_l'; eauto. }
  assert (EN : net_ids n = List.concat
    [[e_id (n_ent n)]; map (fun b => e_id (b_ent b)) (n_buses n); map (fun m => e_id (m_ent m)) msgs;
     flat_map (fun m => map sig_id (msg_sigs m)) msgs; map builder_key (n_builders n); map node_key (n_nodes n);
     map type_key (n_types n); map unit_key (n_units n); map enum_key (n_enums n);
     flat_map (fun e => map (fun v => e_id (fst v)) (se_values e)) (n_enums n); map attr_key (n_attrs n)]).
  { unfold net_ids. cbn [List.concat]. rewrite app_nil_r. reflexivity. }
  assert (E1 : flat_map (fun b => pent_ids (pb_ent b)) (map save_bus (n_buses n)) = map (fun b => e_id (b_ent b)) (n_buses n)).
  { rewrite flat_map_map. apply flat_map_single. }
  assert (E2 : flat_map (fun m => pent_ids (pm_ent m)) (map save_msg msgs) = map (fun m => e_id (m_ent m)) msgs).
  { rewrite flat_map_map. apply flat_map_single. }
  assert (E3 : flat_map (fun m => flat_map psig_ids (pm_signals m)) (map save_msg msgs)
               = flat_map (fun m => flat_map psig_ids (map save_sig (m_signals m))) msgs).
  { rewrite flat_map_map. reflexivity. }
  assert (E4 : forall l, flat_map (fun b => pent_ids (pcb_ent b)) (map save_builder l) = map builder_key l).
  { intros l. rewrite flat_map_map. apply flat_map_single. }
  assert (E5 : forall l, flat_map (fun x => pent_ids (pnd_ent x)) (map save_node l) = map node_key l).
  { intros l. rewrite flat_map_map. apply flat_map_single. }
  assert (E6 : forall l, flat_map (fun x => pent_ids (pst_ent x)) (map save_type l) = map type_key l).
  { intros l. rewrite flat_map_map. apply flat_map_single. }
  assert (E7 : forall l, flat_map (fun x => pent_ids (psu_ent x)) (map save_unit l) = map unit_key l).
  { intros l. rewrite flat_map_map. apply flat_map_single. }
  assert (E8 : forall l, flat_map (fun x => pent_ids (psn_ent x)) (map save_enum l) = map enum_key l).
  { intros l. rewrite flat_map_map. apply flat_map_single. }
  assert (E9 : forall l, flat_map (fun e => flat_map (fun v => pent_ids (pev_ent v)) (psn_values e)) (map save_enum l)
                         = flat_map (fun e => map (fun v => e_id (fst v)) (se_values e)) l).
  { intros l. rewrite flat_map_map. apply flat_map_ext_in. intros e0 _. cbn [save_enum psn_values].
    rewrite flat_map_map. apply flat_map_single. }
  assert (E10 : forall l, flat_map (fun x => pent_ids (pat_ent x)) (map save_attr l) = map attr_key l).
  { intros l. rewrite flat_map_map. apply flat_map_single. }
  assert (EP : pnet_ids (save n) = List.concat
    [[e_id (n_ent n)]; map (fun b => e_id (b_ent b)) (n_buses n); map (fun m => e_id (m_ent m)) msgs;
     flat_map (fun m => flat_map psig_ids (map save_sig (m_signals m))) msgs;
     map builder_key (n_builders (canon n)); map node_key (n_nodes (canon n)); map type_key (n_types (canon n));
     map unit_key (n_units (canon n)); map enum_key (n_enums (canon n));
     flat_map (fun e => map (fun v => e_id (fst v)) (se_values e)) (n_enums (canon n)); map attr_key (n_attrs (canon n))]).
  { unfold pnet_ids. cbn [List.concat]. rewrite app_nil_r.
    unfold save; cbn [pn_ent pn_buses pn_builders pn_nodes pn_types pn_units pn_enums pn_attrs].
    rewrite pent_ids_save. rewrite save_msgs_flat. fold msgs.
    rewrite E1, E2, E3, E4, E5, E6, E7, E8, E9, E10. reflexivity. }
  rewrite EP. rewrite EN in W1. eapply NoDup_concat_incl; [|exact W1].
  assert (R : forall l : list string, NoDup l -> NoDup l /\ incl l l) by (intros; split; auto using incl_refl).
  cbn [List.concat] in W1.
  assert (N0 : NoDup [e_id (n_ent n)]) by (constructor; [intros []|constructor]).
  pose proof W1 as T. apply NoDup_app_r' in T.
  pose proof (NoDup_app_l' _ _ T) as N1. apply NoDup_app_r' in T.
  pose proof (NoDup_app_l' _ _ T) as N2. apply NoDup_app_r' in T.
  pose proof (NoDup_app_l' _ _ T) as N3.
  constructor; [exact (R _ N0)|]. constructor; [exact (R _ N1)|]. constructor; [exact (R _ N2)|].
  constructor.
  { apply NoDup_flat_map_incl; auto. intros m Hm.
    destruct (msg_sigs_facts_gen m (Hmsgs m Hm)) as (F1 & F2 & F3 & F4 & F5).
    assert (Hper : forall s, In s (m_signals m) ->
              NoDup (psig_ids (save_sig s)) /\ incl (psig_ids (save_sig s)) (sig_ids s)).
    { intros s Hs. destruct (F2 s Hs) as (A & B & _). apply (psig_ids_save (net_env n)); auto. }
    rewrite flat_map_map. split.
    - apply NoDup_flat_map_intro.
      + eapply ForallOrdPairs_impl_in; [|exact F3].
        intros a b Ha Hb D t Ht Ht'. apply (D t); [apply (proj2 (Hper a Ha)) | apply (proj2 (Hper b Hb))]; auto.
      + intros s Hs. apply Hper; auto.
    - intros t Ht. apply in_flat_map in Ht. destruct Ht as (s & Hs & Ht). apply (proj2 (Hper s Hs)) in Ht.
      unfold sig_ids in Ht. apply in_map_iff in Ht. destruct Ht as (a & <- & Ha).
      unfold msg_sigs. apply dedup_key_keys; [|intros []]. apply in_map. apply in_flat_map. eauto. }
  constructor; [apply (canon_keys builder_key); auto|].
  constructor; [apply (canon_keys node_key (fun a b => nd_id a <=? nd_id b) (fun nd => memb (node_key nd) (ref_nodes n))); auto|].
  constructor; [apply (canon_keys type_key); auto|].
  constructor; [apply (canon_keys unit_key); auto|].
  constructor; [apply (canon_keys enum_key); auto|].
  constructor; [apply (canon_flat_keys (fun e => map (fun v : entity * Z => e_id (fst v)) (se_values e))); auto|].
  constructor; [apply (canon_keys attr_key); auto|].
  constructor.
Qed.

Theorem load_save_lemma : load now (save n) = Ok (canon n) /\ proj (canon n) = proj n.
Proof.
  split; [|apply canon_idem].
  pose proof Hwf as Hwf0. unfold wfb, wfb_gen in Hwf0. destruct (andb8 _ _ _ _ _ _ _ _ Hwf0) as (W1 & _).
  apply nodupb_NoDup in W1. destruct (net_ids_tables n W1) as (KB & KN & KT & KU & KE & KA).
  apply (load_save_gen now msg_sigs_okb n Hwf Hdom); [|apply saved_ids_nodup].
  intros m Hm. unfold sigs_rt.
  destruct (msg_sigs_facts_gen m Hm) as (F1 & F2 & F3 & F4 & F5).
  assert (Hper : forall s, In s (m_signals m) ->
             load_sig now (net_env (canon n)) (m_size m * 8) (save_sig s) = Ok (sig_set_pos s 0) /\
             sig_size (net_env (canon n)) s = sig_size (net_env n) s).
  { intros s Hs. destruct (F2 s Hs) as (A & B & C).
    apply (rt_sig_all now n); try (apply agree_canon; auto).
    - repeat split; auto.
      + intros t Ht. unfold all_sigs. apply in_flat_map. exists m. split; auto. apply in_flat_map. eauto.
      + intros a b Ha Hb. apply F5; apply in_flat_map; eauto.
    - (* a top-level multiplexer fits in the payload *)
      destruct (layout_okb_facts _ _ _ _ F1) as [_ F]. specialize (F s Hs).
      destruct s as [h0 t0 u0|h0 e0|h0 c0 z0 g0]; cbn [mux_fits]; auto.
      cbn [sig_size] in F. pose proof (calc_size_nonneg (c0 - 1)). lia. }
  apply (sigs_rt_compose now (net_env n) (net_env (canon n))); auto.
  - intros s Hs. apply Hper; auto.
  - intros s Hs. apply Hper; auto.
  - intros s Hs. destruct (F2 s Hs) as (_ & _ & Dom1). destruct s as [h t u|h e|h c z g]; cbn [sig_dom sig_head] in Dom1;
      apply andb_true_iff in Dom1; destruct Dom1 as [Dh _]; unfold head_dom in Dh;
      destruct (andb5 _ _ _ _ _ Dh) as (_ & _ & _ & _ & Dp); exact Dp.
Qed.

End RT8.
