(* C12 — SaveNetwork's encoding selection (save_outputs). *)
From Coq Require Import ZArith List Bool Lia.
From Acme.C12 Require Import Save.
Import ListNotations.
Open Scope Z_scope.

Lemma write_all_spec : forall w l d ok,
  write_all w l = (d, ok) ->
  (ok = true <-> forallb (present w) l = true) /\
  (ok = true -> d = l) /\
  (exists r, l = d ++ r /\ forallb (present w) d = true /\
             (ok = false -> exists e r', r = e :: r' /\ present w e = false)).
Proof.
  intros w l; induction l as [|e r IH]; intros d ok H; cbn in H.
  - inversion H; subst. repeat split; auto. exists []; repeat split; auto. discriminate.
  - destruct (present w e) eqn:He.
    + destruct (write_all w r) as [d' ok'] eqn:Hr. inversion H; subst.
      destruct (IH d' ok eq_refl) as (I1 & I2 & r0 & I3 & I4 & I5).
      split; [|split].
      * cbn. rewrite He. exact I1.
      * intros Hok. rewrite (I2 Hok). reflexivity.
      * exists r0. split; [cbn; now rewrite I3|]. split; [cbn; now rewrite He, I4|]. exact I5.
    + inversion H; subst. split; [|split].
      * cbn. rewrite He. split; discriminate.
      * discriminate.
      * exists (e :: r). repeat split; auto. intros _. exists e, r. auto.
Qed.

(* success <-> every selected writer is present; then exactly the selected encodings are written *)
Lemma save_selects_lemma : forall mask w,
  (snd (save_outputs mask w) = true <-> forallb (present w) (selected mask) = true) /\
  (snd (save_outputs mask w) = true -> fst (save_outputs mask w) = selected mask).
Proof.
  intros mask w. unfold save_outputs.
  destruct (write_all w (selected mask)) as [d ok] eqn:H.
  destruct (write_all_spec _ _ _ _ H) as (A & B & _). cbn. split; assumption.
Qed.

(* a refusal: what was written is the prefix of the selection before the first absent writer,
   and nothing outside the selection is ever written *)
Lemma save_refusal_lemma : forall mask w,
  snd (save_outputs mask w) = false ->
  exists e rest, selected mask = fst (save_outputs mask w) ++ e :: rest /\ present w e = false /\
                 forallb (present w) (fst (save_outputs mask w)) = true.
Proof.
  intros mask w. unfold save_outputs.
  destruct (write_all w (selected mask)) as [d ok] eqn:H. cbn. intros ->.
  destruct (write_all_spec _ _ _ _ H) as (_ & _ & r & E & P & F).
  destruct (F eq_refl) as (e & r' & -> & Pe). exists e, r'. auto.
Qed.

Lemma selected_spec : forall mask e,
  In e (selected mask) <-> Z.testbit mask (match e with EWire => 0 | EJSON => 1 | EText => 2 end) = true.
Proof.
  intros mask e. unfold selected. destruct e;
  generalize (Z.testbit mask 0) (Z.testbit mask 1) (Z.testbit mask 2); intros a b c;
  destruct a, b, c; cbn [app In]; split; intros H; try reflexivity; try discriminate; auto;
    repeat (destruct H as [H|H]; try discriminate H); try contradiction.
Qed.

Example save_selects_example :
  save_outputs 5 (true, false, true) = ([EWire; EText], true) /\
  save_outputs 7 (true, false, true) = ([EWire], false).
Proof. split; reflexivity. Qed.
