(* C12/C13 — the protobuf message tree of proto/acmelib/v1/*.proto as Coq data.
   One record per `message`; a sub-message field is an `option` (absent / present), a `oneof`
   is an inductive with a `…None` constructor for "no arm set", enums are their wire numbers
   (proto3 enums are open: any int32 survives the three encodings), `repeated` is `list`.
   Scalars: uint32 / int32 as Z (the unmarshallers only produce in-range values; the model does
   not rely on that), double as its IEEE-754 bit pattern (Z, see F64 in NetModel.v), string as
   Coq `string` (a byte string, as in Go), bool as bool.
   google.protobuf.Timestamp is (seconds, nanos). *)
From Coq Require Import ZArith List String Bool.
Import ListNotations.
Open Scope Z_scope.

(* entity.proto *)
Record PEntity := {
  pe_id : string;
  pe_kind : Z;
  pe_name : string;
  pe_desc : string;
  pe_time : option (Z * Z)
}.

(* attribute.proto *)
Inductive PAttrBody :=
| PABNone
| PABString (def : string)
| PABInt (def min max : Z) (hex : bool)
| PABFloat (def min max : Z)
| PABEnum (def : string) (values : list string).

Record PAttribute := {
  pat_ent : option PEntity;
  pat_type : Z;
  pat_body : PAttrBody
}.

Inductive PAssignVal :=
| PAVNone
| PAVString (s : string)
| PAVInt (z : Z)
| PAVDouble (f : Z).

Record PAssign := {
  pas_entity_id : string;
  pas_attr_id : string;
  pas_val : PAssignVal
}.

(* canid_builder.proto *)
Record PBuilderOp := { pop_kind : Z; pop_from : Z; pop_len : Z }.
Record PBuilder := { pcb_ent : option PEntity; pcb_ops : list PBuilderOp }.

(* signal.proto *)
Record PRef := { prf_id : string; prf_pos : Z }.
Definition PPayload := list PRef.            (* message SignalPayload { repeated refs } *)

Inductive PSigBody (S : Type) :=
| PSBNone
| PSBStd (type_id unit_id : string)
| PSBEnum (enum_id : string)
| PSBMux (signals : list S) (fixed_ids : list string) (count size : Z) (groups : list PPayload).
Arguments PSBNone {S}.
Arguments PSBStd {S}.
Arguments PSBEnum {S}.
Arguments PSBMux {S}.

Inductive PSignal :=
| PSig (ent : option PEntity) (kind send : Z) (start : Z) (attrs : list PAssign) (body : PSigBody PSignal).

Definition psig_ent (s : PSignal) := match s with PSig e _ _ _ _ _ => e end.
Definition psig_kind (s : PSignal) := match s with PSig _ k _ _ _ _ => k end.
Definition psig_send (s : PSignal) := match s with PSig _ _ x _ _ _ => x end.
Definition psig_start (s : PSignal) := match s with PSig _ _ _ x _ _ => x end.
Definition psig_attrs (s : PSignal) := match s with PSig _ _ _ _ a _ => a end.
Definition psig_body (s : PSignal) := match s with PSig _ _ _ _ _ b => b end.

Record PEnumValue := { pev_ent : option PEntity; pev_index : Z }.
Record PSigEnum := { psn_ent : option PEntity; psn_values : list PEnumValue; psn_minsize : Z }.
Record PSigType := {
  pst_ent : option PEntity; pst_kind : Z; pst_size : Z; pst_signed : bool;
  pst_min : Z; pst_max : Z; pst_scale : Z; pst_offset : Z
}.
Record PSigUnit := { psu_ent : option PEntity; psu_kind : Z; psu_symbol : string }.

(* message.proto *)
Record PReceiver := { prc_node : string; prc_number : Z }.
Record PMessage := {
  pm_ent : option PEntity;
  pm_signals : list PSignal;
  pm_payload : option PPayload;
  pm_size : Z;
  pm_id : Z;
  pm_static : Z;
  pm_has_static : bool;
  pm_prio : Z;
  pm_bo : Z;
  pm_cycle : Z;
  pm_send : Z;
  pm_delay : Z;
  pm_startdelay : Z;
  pm_receivers : list PReceiver;
  pm_attrs : list PAssign
}.

(* node.proto *)
Record PNode := { pnd_ent : option PEntity; pnd_id : Z; pnd_ifcount : Z; pnd_attrs : list PAssign }.
Record PIface := { pif_number : Z; pif_node : string; pif_msgs : list PMessage }.

(* bus.proto *)
Record PBus := {
  pb_ent : option PEntity;
  pb_ifaces : list PIface;
  pb_baud : Z;
  pb_type : Z;
  pb_builder : string;
  pb_attrs : list PAssign
}.

(* network.proto *)
Record PNet := {
  pn_ent : option PEntity;
  pn_buses : list PBus;
  pn_builders : list PBuilder;
  pn_nodes : list PNode;
  pn_types : list PSigType;
  pn_units : list PSigUnit;
  pn_enums : list PSigEnum;
  pn_attrs : list PAttribute
}.

(* enum numbers used by saver/loader (the *_UNSPECIFIED member is 0 everywhere) *)
Definition EK_NETWORK := 1. Definition EK_BUS := 2. Definition EK_NODE := 3.
Definition EK_MESSAGE := 4. Definition EK_SIGNAL := 5. Definition EK_SIGNAL_TYPE := 6.
Definition EK_SIGNAL_UNIT := 7. Definition EK_SIGNAL_ENUM := 8. Definition EK_SIGNAL_ENUM_VALUE := 9.
Definition EK_ATTRIBUTE := 10. Definition EK_CANID_BUILDER := 11.
