(* C12/C13 — the converse of the receiver relation that a successful load registers: the loader calls
   Message.AddReceiver for every receiver entry of every saved message, and AddReceiver makes the interface list
   the message as received (NodeInterface.ReceivedMessages).  The relation is not part of the tree model `net`
   (a message's receivers are); it is a function of the saved tree, compared with what the loaded Go network
   reports (as a set). *)
From Coq Require Import ZArith List String.
From Acme.C12 Require Import Proto.
Import ListNotations.

Definition received_rel (p : PNet) : list (string * Z * string) :=
  flat_map (fun m => map (fun r => (prc_node r, prc_number r,
                                    match pm_ent m with Some e => pe_id e | None => EmptyString end))
                         (pm_receivers m))
           (flat_map pif_msgs (flat_map pb_ifaces (pn_buses p))).
