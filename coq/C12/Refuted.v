(* C12 — outside `in_domain` the round trip fails: one well-formed network per exclusion of `in_domain`, each with
   the same loss as the Go implementation shows on the network of that kind built through the API
   (props/C12/harness/c12.go, stream out-of-domain-*; open findings c12-domain:KIND).
   The save format has uint32 / int32 fields, enum-typed fields that carry the declared constants only, no field
   for the bus type beyond CAN 2.0A, and a zero field reads as absent. *)
From Coq Require Import ZArith List String Bool.
From Acme.C12 Require Import Proto NetModel Save Load Proj Domain VmCheck.
Import ListNotations.
Open Scope string_scope.
Open Scope Z_scope.

Definition w_ent (i : string) : entity := {| e_id := i; e_name := i; e_desc := ""; e_time := (1, 0) |}.
Definition w_type : sigtype :=
  {| st_ent := w_ent "t"; st_kind := 0; st_size := 1; st_signed := false; st_min := 0; st_max := 0; st_scale := 0; st_offset := 0 |}.
Definition w_head (start : Z) : sighead :=
  {| sh_ent := w_ent "s"; sh_send := 0; sh_start := start; sh_attrs := []; sh_pos := 0 |}.

(* one bus, one node, one interface, one message; the parameters are the fields the witnesses vary *)
Definition w_net (baud btype prio cycle : Z) (basg : list assign) (attrs : list attr) (enums : list sigenum)
                 (sigs : list sig) : net :=
  {| n_ent := w_ent "net";
     n_buses := [{| b_ent := w_ent "bus"; b_baud := baud; b_type := btype; b_builder := "";
                    b_ifaces := [{| if_node := "node"; if_number := 0;
                                    if_msgs := [{| m_ent := w_ent "msg"; m_id := 1; m_size := 8; m_static := 0;
                                                   m_has_static := false; m_prio := prio; m_bo := 0; m_cycle := cycle;
                                                   m_send := 0; m_delay := 0; m_startdelay := 0; m_receivers := [];
                                                   m_signals := sigs; m_attrs := [] |}] |}];
                    b_attrs := basg |}];
     n_builders := [];
     n_nodes := [{| nd_ent := w_ent "node"; nd_id := 1; nd_ifcount := 1; nd_attrs := [] |}];
     n_types := [w_type]; n_units := []; n_enums := enums; n_attrs := attrs |}.

Definition w_int_beyond_uint32 : net := w_net 1099511627776 0 0 0 [] [] [] [].       (* SetBaudrate(1 << 40) *)
Definition w_negative_int : net := w_net 0 0 0 (-2) [] [] [] [].                      (* SetCycleTime(-2) *)
Definition w_enum_constant : net := w_net 0 0 7 0 [] [] [] [].                        (* SetPriority(7) *)
Definition w_bus_type : net := w_net 0 3 0 0 [] [] [] [].                             (* SetType(3) *)
Definition w_int_beyond_int32 : net :=                                                (* integer attribute value 1 << 35 *)
  w_net 0 0 0 0 [{| as_attr := "a"; as_val := AVInt 34359738368 |}]
        [{| at_ent := w_ent "a"; at_body := ABInt 0 0 1099511627776 false |}] [] [].
Definition w_enum_minsize_zero : net :=                                               (* SetMinSize(0) *)
  w_net 0 0 0 0 [] [] [{| se_ent := w_ent "e"; se_values := []; se_minsize := 0 |}] [SEnum (w_head 0) "e"].
Definition w_negative_zero : net := w_net 0 0 0 0 [] [] [] [SStd (w_head two63) "t" ""].   (* SetStartValue(-0.0) *)

Definition domain_witnesses : list net :=
  [w_int_beyond_uint32; w_negative_int; w_enum_constant; w_bus_type; w_int_beyond_int32; w_enum_minsize_zero;
   w_negative_zero].

Definition result_sx (r : result net) : sx := match r with Ok n => sx_net n | Err _ => A "err" end.

Definition refutes (n : net) : Prop :=
  wfb n = true /\ in_domain n = false /\ load (0, 0) (save n) <> Ok (canon n).

Lemma refute_by_print : forall l r, result_sx l <> result_sx r -> l <> r.
Proof. intros l r H E. apply H. now rewrite E. Qed.

Ltac refute :=
  split; [vm_compute; reflexivity|]; split; [vm_compute; reflexivity|];
  apply refute_by_print; vm_compute; discriminate.

Theorem in_domain_needed_lemma : Forall refutes domain_witnesses.
Proof.
  unfold domain_witnesses. repeat (apply Forall_cons; [unfold refutes; refute|]). apply Forall_nil.
Qed.

(* ---- lookups agree: `canon` only prunes and sorts the tables; every definition the buses refer to is found in the
   tables of `canon n` exactly as in those of `n` (so everything computed from the network through its references -
   signal sizes, computed CAN-IDs, decodings - sees the same definitions after a round trip). *)
From Acme.C12 Require Import Lemmas ProofsRT1 ProofsRT2 ProofsRT3.
Definition lookups_agree (n : net) : Prop :=
  agree type_key (ref_types n) (n_types n) (n_types (canon n)) /\
  agree unit_key (ref_units n) (n_units n) (n_units (canon n)) /\
  agree enum_key (ref_enums n) (n_enums n) (n_enums (canon n)) /\
  agree attr_key (ref_attrs n) (n_attrs n) (n_attrs (canon n)) /\
  agree node_key (ref_nodes n) (n_nodes n) (n_nodes (canon n)) /\
  agree builder_key (ref_builders n) (n_builders n) (n_builders (canon n)).

Theorem lookup_agree_lemma : forall n, wfb n = true -> lookups_agree n.
Proof.
  intros n H. unfold wfb, wfb_gen in H. destruct (andb8 _ _ _ _ _ _ _ _ H) as (W1 & _). clear H. rename W1 into H.
  apply nodupb_NoDup in H. destruct (net_ids_tables n H) as (KB & KN & KT & KU & KE & KA).
  repeat split; apply agree_canon; auto.
Qed.
