(* C12 — model of saver.go: `save : net -> PNet` and the encoding selection of SaveNetwork.

   saver.go walks the buses, fills its `ref*` maps with every shared definition it meets and
   afterwards emits each map sorted by name.  Here the shared definitions already sit in the
   tables of `net`; `save` emits those table entries that the walk meets (`filter … referenced`),
   stably sorted by name (node table: by node id).  Go integers are narrowed exactly as the code
   does (`uint32(x)`, `int32(x)`), so that `in_domain` is a real hypothesis of the round trip. *)
From Coq Require Import ZArith List String Bool.
From Acme.C12 Require Import Proto NetModel.
Import ListNotations.
Open Scope Z_scope.

Definition u32 (z : Z) : Z := z mod 4294967296.
Definition i32 (z : Z) : Z := (z + 2147483648) mod 4294967296 - 2147483648.

(* ---- enum translations (saver.go switch statements; default = *_UNSPECIFIED = 0) *)
Definition enc_0_3 (g : Z) : Z := if (0 <=? g) && (g <=? 3) then g + 1 else 0.   (* Go 0..3 -> 1..4 *)
Definition enc_bus_type (g : Z) : Z := if g =? 0 then 1 else 0.
Definition enc_byte_order (g : Z) : Z := if (0 <=? g) && (g <=? 1) then g + 1 else 0.
Definition enc_msg_send (g : Z) : Z := if (1 <=? g) && (g <=? 4) then g else 0.
Definition enc_sig_send (g : Z) : Z := if (1 <=? g) && (g <=? 7) then g else 0.

Definition save_entity (kind : Z) (e : entity) : PEntity :=
  {| pe_id := e_id e; pe_kind := kind; pe_name := e_name e; pe_desc := e_desc e; pe_time := Some (e_time e) |}.

Definition save_aval (v : aval) : PAssignVal :=
  match v with
  | AVStr s => PAVString s
  | AVInt z => PAVInt (i32 z)
  | AVFlt f => PAVDouble f
  end.

Definition save_assigns (owner : string) (l : list assign) : list PAssign :=
  map (fun a => {| pas_entity_id := owner; pas_attr_id := as_attr a; pas_val := save_aval (as_val a) |}) l.

(* ---- signals *)
Definition save_ref (s : sig) : PRef := {| prf_id := sig_id s; prf_pos := u32 (sig_pos s) |}.

(* saveMultiplexerSignal: walk the groups; a fixed signal is emitted (and listed) the first time
   only, every other multiplexed signal each time it is met.  `sg` holds the already saved
   children in place: (fixed?, id, saved signal). *)
Fixpoint emit_group (g : list (bool * string * PSignal)) (ins : list string)
  : list PSignal * list string * list string :=
  match g with
  | [] => ([], [], ins)
  | (fx, id, ps) :: r =>
      if fx then
        if memb id ins then emit_group r ins
        else let '(ss, fs, ins') := emit_group r (id :: ins) in (ps :: ss, id :: fs, ins')
      else let '(ss, fs, ins') := emit_group r ins in (ps :: ss, fs, ins')
  end.

Fixpoint emit_groups (gs : list (list (bool * string * PSignal))) (ins : list string)
  : list PSignal * list string :=
  match gs with
  | [] => ([], [])
  | g :: r =>
      let '(ss, fs, ins') := emit_group g ins in
      let '(ss2, fs2) := emit_groups r ins' in
      (ss ++ ss2, fs ++ fs2)
  end.

Definition sig_kind_num (s : sig) : Z := match s with SStd _ _ _ => 1 | SEnum _ _ => 2 | SMux _ _ _ _ => 3 end.

Fixpoint save_sig (s : sig) : PSignal :=
  let h := sig_head s in
  PSig (Some (save_entity EK_SIGNAL (sh_ent h))) (sig_kind_num s) (enc_sig_send (sh_send h)) (sh_start h)
       (save_assigns (e_id (sh_ent h)) (sh_attrs h))
       (match s with
        | SStd _ t u => PSBStd t u
        | SEnum _ e => PSBEnum e
        | SMux _ c z groups =>
            let sg := map (map (fun c : bool * sig => (fst c, sig_id (snd c), save_sig (snd c)))) groups in
            let '(ss, fs) := emit_groups sg [] in
            PSBMux ss fs (u32 c) (u32 z) (map (map (fun c : bool * sig => save_ref (snd c))) groups)
        end).

Definition save_msg (m : msg) : PMessage :=
  {| pm_ent := Some (save_entity EK_MESSAGE (m_ent m));
     pm_signals := map save_sig (m_signals m);
     pm_payload := Some (map save_ref (m_signals m));
     pm_size := u32 (m_size m);
     pm_id := u32 (m_id m);
     pm_static := u32 (m_static m);
     pm_has_static := m_has_static m;
     pm_prio := enc_0_3 (m_prio m);
     pm_bo := enc_byte_order (m_bo m);
     pm_cycle := u32 (m_cycle m);
     pm_send := enc_msg_send (m_send m);
     pm_delay := u32 (m_delay m);
     pm_startdelay := u32 (m_startdelay m);
     pm_receivers := map (fun r => {| prc_node := fst r; prc_number := u32 (snd r) |}) (m_receivers m);
     pm_attrs := save_assigns (e_id (m_ent m)) (m_attrs m) |}.

Definition save_iface (i : iface) : PIface :=
  {| pif_number := i32 (if_number i); pif_node := if_node i; pif_msgs := map save_msg (if_msgs i) |}.

Definition save_bus (b : bus) : PBus :=
  {| pb_ent := Some (save_entity EK_BUS (b_ent b));
     pb_ifaces := map save_iface (b_ifaces b);
     pb_baud := u32 (b_baud b);
     pb_type := enc_bus_type (b_type b);
     pb_builder := b_builder b;
     pb_attrs := save_assigns (e_id (b_ent b)) (b_attrs b) |}.

Definition save_builder (b : builder) : PBuilder :=
  {| pcb_ent := Some (save_entity EK_CANID_BUILDER (cb_ent b));
     pcb_ops := map (fun o => let '(k, f, l) := o in {| pop_kind := enc_0_3 k; pop_from := u32 f; pop_len := u32 l |}) (cb_ops b) |}.

Definition save_node (n : node) : PNode :=
  {| pnd_ent := Some (save_entity EK_NODE (nd_ent n)); pnd_id := u32 (nd_id n); pnd_ifcount := u32 (nd_ifcount n);
     pnd_attrs := save_assigns (e_id (nd_ent n)) (nd_attrs n) |}.

Definition save_type (t : sigtype) : PSigType :=
  {| pst_ent := Some (save_entity EK_SIGNAL_TYPE (st_ent t)); pst_kind := enc_0_3 (st_kind t); pst_size := u32 (st_size t);
     pst_signed := st_signed t; pst_min := st_min t; pst_max := st_max t; pst_scale := st_scale t; pst_offset := st_offset t |}.

Definition save_unit (u : sigunit) : PSigUnit :=
  {| psu_ent := Some (save_entity EK_SIGNAL_UNIT (su_ent u)); psu_kind := enc_0_3 (su_kind u); psu_symbol := su_symbol u |}.

Definition save_enum (e : sigenum) : PSigEnum :=
  {| psn_ent := Some (save_entity EK_SIGNAL_ENUM (se_ent e));
     psn_values := map (fun v => {| pev_ent := Some (save_entity EK_SIGNAL_ENUM_VALUE (fst v)); pev_index := u32 (snd v) |}) (se_values e);
     psn_minsize := u32 (se_minsize e) |}.

Definition save_attr (a : attr) : PAttribute :=
  {| pat_ent := Some (save_entity EK_ATTRIBUTE (at_ent a));
     pat_type := match at_body a with ABString _ => 1 | ABInt _ _ _ _ => 2 | ABFloat _ _ _ => 3 | ABEnum _ _ => 4 end;
     pat_body := match at_body a with
                 | ABString d => PABString d
                 | ABInt d mn mx hex => PABInt (i32 d) (i32 mn) (i32 mx) hex
                 | ABFloat d mn mx => PABFloat d mn mx
                 | ABEnum d vals => PABEnum d vals
                 end |}.

(* ---- reference tables: what the walk over the buses meets *)
Definition all_msgs (n : net) : list msg := flat_map if_msgs (all_ifaces n).
Definition all_sigs (n : net) : list sig := flat_map (fun m => flat_map sig_flat (m_signals m)) (all_msgs n).

Definition ref_builders (n : net) : list string :=
  flat_map (fun b => if String.eqb (b_builder b) "" then [] else [b_builder b]) (n_buses n).
(* saveNodeInterface registers the node of every attached interface; saveMessage the node of every receiver *)
Definition ref_nodes (n : net) : list string :=
  map if_node (all_ifaces n) ++ flat_map (fun m => map fst (m_receivers m)) (all_msgs n).
Definition ref_types (n : net) : list string :=
  flat_map (fun s => match s with SStd _ t _ => [t] | _ => [] end) (all_sigs n).
Definition ref_units (n : net) : list string :=
  flat_map (fun s => match s with SStd _ _ u => if String.eqb u "" then [] else [u] | _ => [] end) (all_sigs n).
Definition ref_enums (n : net) : list string :=
  flat_map (fun s => match s with SEnum _ e => [e] | _ => [] end) (all_sigs n).
Definition saved_nodes (n : net) : list node := filter (fun nd => memb (node_key nd) (ref_nodes n)) (n_nodes n).
Definition ref_attrs (n : net) : list string :=
  map as_attr (flat_map b_attrs (n_buses n) ++ flat_map m_attrs (all_msgs n)
               ++ flat_map (fun s => sh_attrs (sig_head s)) (all_sigs n)
               ++ flat_map nd_attrs (saved_nodes n)).

(* stable insertion sort *)
Section Sort.
  Context {A : Type}.
  Variable le : A -> A -> bool.
  Fixpoint ins_sorted (x : A) (l : list A) : list A :=
    match l with
    | [] => [x]
    | y :: r => if le x y then x :: y :: r else y :: ins_sorted x r
    end.
  Definition isort (l : list A) : list A := fold_right ins_sorted [] l.
End Sort.

Definition by_name {A} (ent : A -> entity) (a b : A) : bool := String.leb (e_name (ent a)) (e_name (ent b)).

Definition save (n : net) : PNet :=
  {| pn_ent := Some (save_entity EK_NETWORK (n_ent n));
     pn_buses := map save_bus (n_buses n);
     pn_builders := map save_builder (isort (by_name cb_ent) (filter (fun b => memb (builder_key b) (ref_builders n)) (n_builders n)));
     pn_nodes := map save_node (isort (fun a b => nd_id a <=? nd_id b) (saved_nodes n));
     pn_types := map save_type (isort (by_name st_ent) (filter (fun t => memb (type_key t) (ref_types n)) (n_types n)));
     pn_units := map save_unit (isort (by_name su_ent) (filter (fun u => memb (unit_key u) (ref_units n)) (n_units n)));
     pn_enums := map save_enum (isort (by_name se_ent) (filter (fun e => memb (enum_key e) (ref_enums n)) (n_enums n)));
     pn_attrs := map save_attr (isort (by_name at_ent) (filter (fun a => memb (attr_key a) (ref_attrs n)) (n_attrs n))) |}.

(* ---- SaveNetwork: which writers receive data (saver.go:34-93).
   mask bits: 1 wire, 2 JSON, 4 text; writers present: (wire, json, text).
   Result: the encodings written, in order, and whether an error (nil writer) was returned.
   The code marshals and writes encoding by encoding, so a missing writer is only noticed after
   the earlier selected encodings have been written. *)
Inductive enc := EWire | EJSON | EText.

Definition selected (mask : Z) : list enc :=
  (if Z.testbit mask 0 then [EWire] else []) ++ (if Z.testbit mask 1 then [EJSON] else []) ++
  (if Z.testbit mask 2 then [EText] else []).

Definition present (w : bool * bool * bool) (e : enc) : bool :=
  let '(a, b, c) := w in match e with EWire => a | EJSON => b | EText => c end.

Fixpoint write_all (w : bool * bool * bool) (l : list enc) : list enc * bool :=
  match l with
  | [] => ([], true)
  | e :: r => if present w e then let '(d, ok) := write_all w r in (e :: d, ok) else ([], false)
  end.

Definition save_outputs (mask : Z) (w : bool * bool * bool) : list enc * bool := write_all w (selected mask).
