(* C12 — facts about signal trees used by the round-trip proofs (positions, flattening, ids, names). *)
From Coq Require Import ZArith List String Bool Lia.
From Acme.C12 Require Import Proto NetModel Save Load Lemmas.
Import ListNotations.
Open Scope Z_scope.

Lemma rt_sig_size_set_pos : forall ev s p, sig_size ev (sig_set_pos s p) = sig_size ev s.
Proof. intros ev [h t u|h e|h c z g] p; reflexivity. Qed.
Lemma rt_sig_pos_set_pos : forall s p, sig_pos (sig_set_pos s p) = p.
Proof. intros [h t u|h e|h c z g] p; reflexivity. Qed.
Lemma rt_sig_id_set_pos : forall s p, sig_id (sig_set_pos s p) = sig_id s.
Proof. intros [h t u|h e|h c z g] p; reflexivity. Qed.
Lemma rt_sig_name_set_pos : forall s p, sig_name (sig_set_pos s p) = sig_name s.
Proof. intros [h t u|h e|h c z g] p; reflexivity. Qed.

Lemma set_head_pos_self : forall h, set_head_pos h (sh_pos h) = h.
Proof. intros []; reflexivity. Qed.
Lemma set_head_pos_twice : forall h p q, set_head_pos (set_head_pos h p) q = set_head_pos h q.
Proof. intros [] p q; reflexivity. Qed.
Lemma sig_set_pos_self : forall s, sig_set_pos s (sig_pos s) = s.
Proof. intros [h t u|h e|h c z g]; unfold sig_pos; cbn; now rewrite set_head_pos_self. Qed.
Lemma sig_set_pos_twice : forall s p q, sig_set_pos (sig_set_pos s p) q = sig_set_pos s q.
Proof. intros [h t u|h e|h c z g] p q; cbn; now rewrite set_head_pos_twice. Qed.

Lemma rt_sig_flat_set_pos : forall s p, sig_flat (sig_set_pos s p) = sig_set_pos s p :: tl (sig_flat s).
Proof. intros [h t u|h e|h c z g] p; reflexivity. Qed.
Lemma rt_sig_flat_head : forall s, sig_flat s = s :: tl (sig_flat s).
Proof. intros [h t u|h e|h c z g]; reflexivity. Qed.

Definition rt_disjoint (a b : list string) : Prop := forall x, In x a -> ~ In x b.
Definition rt_name_inj (l : list sig) : Prop :=
  forall a b, In a l -> In b l -> sig_name a = sig_name b -> sig_id a = sig_id b.

Lemma rt_disjointb_iff : forall a b, disjointb a b = true <-> rt_disjoint a b.
Proof.
  induction a as [|x r IH]; intros b; cbn.
  - split; auto. intros _ y [].
  - rewrite andb_true_iff, negb_true_iff, memb_false, IH. split.
    + intros [H1 H2] y [<-|Hy]; auto.
    + intros H; split; [apply H; auto using in_eq | intros y Hy; apply H; auto using in_cons].
Qed.

Lemma rt_pairwise_disjointb_iff : forall l, pairwise_disjointb l = true <-> ForallOrdPairs rt_disjoint l.
Proof.
  induction l as [|a r IH]; cbn.
  - split; auto. constructor.
  - rewrite andb_true_iff, IH, forallb_forall. split.
    + intros [H1 H2]. constructor; auto. apply Forall_forall. intros b Hb. apply rt_disjointb_iff; auto.
    + intros H. inversion H; subst. split; auto. intros b Hb. apply rt_disjointb_iff. rewrite Forall_forall in H2; auto.
Qed.

Lemma ForallOrdPairs_map_inv : forall {A B} (f : A -> B) (R : B -> B -> Prop) l,
  ForallOrdPairs R (map f l) -> ForallOrdPairs (fun a b => R (f a) (f b)) l.
Proof.
  intros A B f R l; induction l as [|a r IH]; intros H; cbn in *; constructor; inversion H; subst; auto.
  apply Forall_forall. intros b Hb. rewrite Forall_forall in H2. apply H2. now apply in_map.
Qed.

Lemma ForallOrdPairs_app_pre : forall {A} (R : A -> A -> Prop) pre x post,
  ForallOrdPairs R (pre ++ x :: post) -> forall t, In t pre -> R t x.
Proof.
  intros A R pre; induction pre as [|a r IH]; intros x post H t Ht; [contradiction|].
  cbn in H. inversion H; subst. destruct Ht as [<-|Ht].
  - rewrite Forall_forall in H2. apply H2. apply in_or_app. right. apply in_eq.
  - eapply IH; eauto.
Qed.

Lemma names_clash_intro : forall t others,
  (forall a b, In a t -> In b (t ++ others) -> sig_name a = sig_name b -> sig_id a = sig_id b) ->
  names_clash t others = false.
Proof.
  intros t others H. unfold names_clash.
  destruct (existsb _ t) eqn:E; auto. exfalso.
  apply existsb_exists in E. destruct E as (a & Ha & E). apply existsb_exists in E. destruct E as (b & Hb & E).
  apply andb_true_iff in E. destruct E as [E1 E2]. apply String.eqb_eq in E1. apply negb_true_iff, String.eqb_neq in E2.
  apply E2. eapply H; eauto.
Qed.

Lemma sig_id_in_sig_ids : forall s, In (sig_id s) (sig_ids s).
Proof. intros s. unfold sig_ids. rewrite rt_sig_flat_head. apply in_eq. Qed.

Lemma sig_ids_flat : forall s x, In x (sig_flat s) -> In (sig_id x) (sig_ids s).
Proof. intros s x H. unfold sig_ids. now apply in_map. Qed.

(* ---- payload refs *)
Lemma find_last_nodup : forall {A} (key : A -> string) l a,
  NoDup (map key l) -> In a l -> find_last key (key a) l = Some a.
Proof.
  intros A key l; induction l as [|b r IH]; intros a Hnd Hin; cbn in *; [contradiction|].
  inversion Hnd; subst. destruct Hin as [->|Hin].
  - assert (find_last key (key a) r = None).
    { clear - H1. induction r as [|c q IHq]; cbn; auto. rewrite IHq.
      - destruct (String.eqb (key c) (key a)) eqn:E; auto. apply String.eqb_eq in E. exfalso. apply H1. left; auto.
      - intros C; apply H1; now right. }
    rewrite H. now rewrite String.eqb_refl.
  - now rewrite (IH a H2 Hin).
Qed.

Lemma assoc_pos_In : forall l k p, NoDup (map fst l) -> In (k, p) l -> assoc_pos k l = Some p.
Proof.
  induction l as [|[a q] r IH]; intros k p Hnd Hin; cbn in *; [contradiction|].
  inversion Hnd; subst. destruct Hin as [E|Hin].
  - inversion E; subst. now rewrite String.eqb_refl.
  - destruct (String.eqb a k) eqn:E; [|auto]. apply String.eqb_eq in E. subst.
    exfalso. apply H1. change k with (fst (k, p)). now apply in_map.
Qed.

Lemma refs_map_lookup : forall sigs s,
  NoDup (map sig_id sigs) -> In s sigs ->
  assoc_pos (sig_id s) (refs_map (map save_ref sigs)) = Some (u32 (sig_pos s)).
Proof.
  intros sigs s Hnd Hin. unfold refs_map.
  assert (Hk : map ref_key (map save_ref sigs) = map sig_id sigs) by (rewrite map_map; reflexivity).
  assert (Hnd' : NoDup (map ref_key (map save_ref sigs))) by (now rewrite Hk).
  rewrite (dedup_key_id ref_key (map save_ref sigs) []); auto.
  apply assoc_pos_In.
  - rewrite map_map. cbn. change (fun x : PRef => prf_id x) with ref_key. exact Hnd'.
  - apply in_map_iff. exists (save_ref s). split; [|now apply in_map].
    change (prf_id (save_ref s)) with (ref_key (save_ref s)).
    rewrite (find_last_nodup ref_key (map save_ref sigs) (save_ref s)); auto. now apply in_map.
Qed.
