(* C12/C13 — the correspondence comparison of props/C12/driver/c12_driver.ml restated in Gallina,
   so that a sample of the cases of a run can be re-checked by `Eval vm_compute` inside Coq
   (DESIGN §3.3): for that sample neither extraction nor the OCaml driver is trusted.

   The Go harness writes s-expressions (props/C12/harness/sx.go): atoms, decimal integers,
   byte strings as `s<hex>`.  A generated cases file embeds those records verbatim as terms of
   `sx` (a purely syntactic translation: parentheses to `L [...]`, decimal tokens to `Nz`, other
   tokens to `A "..."`).  Everything else happens here: parsing the records into the model's
   `net` / `PNet` (`net_of`, `pnet_of`; validated on every case by printing the parsed value back
   and comparing with the record), running `save` / `load`, printing, and comparing up to the
   order of the lists that Go produces by map iteration (`sx_canon`) with `*` = the model's `now`. *)
From Coq Require Import ZArith NArith List String Bool Ascii.
From Acme.C12 Require Import Proto NetModel Save Load Proj Domain Received.
Import ListNotations.
Open Scope string_scope.
Open Scope Z_scope.

Inductive sx := A (a : string) | Nz (z : Z) | L (l : list sx).

(* ---------------------------------------------------------------- strings as s<hex> *)
Definition hexdigit (n : N) : ascii := ascii_of_N (if (n <? 10)%N then 48 + n else 87 + n)%N.
Fixpoint hex (s : string) : string :=
  match s with
  | EmptyString => EmptyString
  | String c r => String (hexdigit (N_of_ascii c / 16)) (String (hexdigit (N_of_ascii c mod 16)) (hex r))
  end.
Definition hexval (c : ascii) : N :=
  let n := N_of_ascii c in
  if ((48 <=? n) && (n <=? 57))%N then (n - 48)%N
  else if ((97 <=? n) && (n <=? 102))%N then (n - 87)%N else (n - 55)%N.
Fixpoint unhex (s : string) : string :=
  match s with
  | String a (String b r) => String (ascii_of_N (hexval a * 16 + hexval b)) (unhex r)
  | _ => EmptyString
  end.

Definition ss (s : string) : sx := A (String "s" (hex s)).
Definition sz (z : Z) : sx := Nz z.
Definition sb (b : bool) : sx := Nz (if b then 1 else 0).

Definition obind {X Y} (o : option X) (f : X -> option Y) : option Y :=
  match o with Some x => f x | None => None end.
Notation "'olet' x <- o ; k" := (obind o (fun x => k)) (at level 200, x pattern, o at level 100, k at level 200).

Definition omap {X Y} (f : X -> option Y) : list X -> option (list Y) :=
  fix go (l : list X) : option (list Y) :=
    match l with
    | [] => Some []
    | x :: r => match f x with None => None | Some y => match go r with None => None | Some ys => Some (y :: ys) end end
    end.

Definition str (x : sx) : option string :=
  match x with A (String "s" h) => Some (unhex h) | _ => None end.
Definition num (x : sx) : option Z := match x with Nz z => Some z | _ => None end.
Definition boolean (x : sx) : option bool := match x with Nz z => Some (negb (z =? 0)) | _ => None end.
Definition tagged (tag : string) (x : sx) : option (list sx) :=
  match x with L (A t :: rest) => if String.eqb t tag then Some rest else None | _ => None end.
Definition is_none (x : sx) : bool :=
  match x with L [A t] => String.eqb t "none" | _ => false end.

(* the model's `now` (entities saved without a valid creation time) is printed as `*` *)
Definition now_time : time := (-1, -1).
Definition time_of (x : sx) : option time :=
  olet l <- tagged "t" x; match l with [s; n] => olet s' <- num s; olet n' <- num n; Some (s', n') | _ => None end.
Definition sx_time (t : time) : sx :=
  if (fst t =? -1) && (snd t =? -1) then A "*" else L [A "t"; sz (fst t); sz (snd t)].

(* ---------------------------------------------------------------- net <-> sexp *)
Definition ent_of (x : sx) : option entity :=
  olet l <- tagged "e" x;
  match l with
  | [i; n; d; t] => olet i' <- str i; olet n' <- str n; olet d' <- str d; olet t' <- time_of t;
                    Some {| e_id := i'; e_name := n'; e_desc := d'; e_time := t' |}
  | _ => None
  end.
Definition sx_ent (e : entity) : sx := L [A "e"; ss (e_id e); ss (e_name e); ss (e_desc e); sx_time (e_time e)].

Definition aval_of (x : sx) : option aval :=
  match x with
  | L [A t; v] => if String.eqb t "s" then olet s <- str v; Some (AVStr s)
                  else if String.eqb t "i" then olet z <- num v; Some (AVInt z)
                  else if String.eqb t "f" then olet z <- num v; Some (AVFlt z) else None
  | _ => None
  end.
Definition sx_aval (v : aval) : sx :=
  match v with AVStr s => L [A "s"; ss s] | AVInt z => L [A "i"; sz z] | AVFlt f => L [A "f"; sz f] end.
Definition assigns_of (x : sx) : option (list assign) :=
  olet l <- tagged "as" x;
  omap (fun a => olet p <- tagged "a" a;
                 match p with [i; v] => olet i' <- str i; olet v' <- aval_of v; Some {| as_attr := i'; as_val := v' |}
                         | _ => None end) l.
Definition sx_assigns (l : list assign) : sx :=
  L (A "as" :: map (fun a => L [A "a"; ss (as_attr a); sx_aval (as_val a)]) l).

Definition head_of (x : sx) : option sighead :=
  olet l <- tagged "h" x;
  match l with
  | [e; send; start; asg; pos] =>
    olet e' <- ent_of e; olet send' <- num send; olet start' <- num start; olet asg' <- assigns_of asg;
    olet pos' <- num pos;
    Some {| sh_ent := e'; sh_send := send'; sh_start := start'; sh_attrs := asg'; sh_pos := pos' |}
  | _ => None
  end.
Definition sx_head (h : sighead) : sx :=
  L [A "h"; sx_ent (sh_ent h); sz (sh_send h); sz (sh_start h); sx_assigns (sh_attrs h); sz (sh_pos h)].

Fixpoint sig_of (x : sx) : option sig :=
  match x with
  | L (A tag :: h :: rest) =>
    olet h' <- head_of h;
    if String.eqb tag "std" then
      match rest with [t; u] => olet t' <- str t; olet u' <- str u; Some (SStd h' t' u') | _ => None end
    else if String.eqb tag "enum" then
      match rest with [e] => olet e' <- str e; Some (SEnum h' e') | _ => None end
    else if String.eqb tag "mux" then
      match rest with
      | [c; z; L (A _ :: ch); L (A _ :: gr)] =>
        olet c' <- num c; olet z' <- num z;
        olet children <- omap (fun k => match k with
                                        | L [A _; fx; s] => olet b <- boolean fx; olet s' <- sig_of s; Some (b, s')
                                        | _ => None end) ch;
        olet groups <- omap (fun g => match g with
                                      | L (A _ :: ids) =>
                                        omap (fun i => olet id <- str i;
                                                       find (fun k : bool * sig => String.eqb (sig_id (snd k)) id) children) ids
                                      | _ => None end) gr;
        Some (SMux h' c' z' groups)
      | _ => None
      end
    else None
  | _ => None
  end.

Fixpoint sx_sig (s : sig) : sx :=
  match s with
  | SStd h t u => L [A "std"; sx_head h; ss t; ss u]
  | SEnum h e => L [A "enum"; sx_head h; ss e]
  | SMux h c z groups =>
    L [A "mux"; sx_head h; sz c; sz z;
       L (A "children" :: map (fun k : string * sx => snd k)
            (dedup_key (fun k : string * sx => fst k)
               (List.concat (map (fun g => map (fun k : bool * sig => (sig_id (snd k), L [A "c"; sb (fst k); sx_sig (snd k)])) g)
                               groups)) []));
       L (A "groups" :: map (fun g => L (A "g" :: map (fun k : bool * sig => ss (sig_id (snd k))) g)) groups)]
  end.

Definition msg_of (x : sx) : option msg :=
  olet l <- tagged "msg" x;
  match l with
  | [e; id; size; st; has; prio; bo; cyc; send; del; sdel; recs; sigs; asg] =>
    olet e' <- ent_of e; olet id' <- num id; olet size' <- num size; olet st' <- num st; olet has' <- boolean has;
    olet prio' <- num prio; olet bo' <- num bo; olet cyc' <- num cyc; olet send' <- num send; olet del' <- num del;
    olet sdel' <- num sdel;
    olet rl <- tagged "recs" recs;
    olet recs' <- omap (fun r => olet p <- tagged "r" r;
                                 match p with [n; k] => olet n' <- str n; olet k' <- num k; Some (n', k') | _ => None end) rl;
    olet sl <- tagged "sigs" sigs;
    olet sigs' <- omap sig_of sl;
    olet asg' <- assigns_of asg;
    Some {| m_ent := e'; m_id := id'; m_size := size'; m_static := st'; m_has_static := has'; m_prio := prio';
            m_bo := bo'; m_cycle := cyc'; m_send := send'; m_delay := del'; m_startdelay := sdel';
            m_receivers := recs'; m_signals := sigs'; m_attrs := asg' |}
  | _ => None
  end.
Definition sx_msg (m : msg) : sx :=
  L [A "msg"; sx_ent (m_ent m); sz (m_id m); sz (m_size m); sz (m_static m); sb (m_has_static m); sz (m_prio m);
     sz (m_bo m); sz (m_cycle m); sz (m_send m); sz (m_delay m); sz (m_startdelay m);
     L (A "recs" :: map (fun r : string * Z => L [A "r"; ss (fst r); sz (snd r)]) (m_receivers m));
     L (A "sigs" :: map sx_sig (m_signals m)); sx_assigns (m_attrs m)].

Definition iface_of (x : sx) : option iface :=
  olet l <- tagged "if" x;
  match l with
  | [n; k; msgs] => olet n' <- str n; olet k' <- num k; olet ml <- tagged "msgs" msgs; olet msgs' <- omap msg_of ml;
                    Some {| if_node := n'; if_number := k'; if_msgs := msgs' |}
  | _ => None
  end.
Definition sx_iface (i : iface) : sx := L [A "if"; ss (if_node i); sz (if_number i); L (A "msgs" :: map sx_msg (if_msgs i))].

Definition bus_of (x : sx) : option bus :=
  olet l <- tagged "bus" x;
  match l with
  | [e; baud; ty; bld; ifs; asg] =>
    olet e' <- ent_of e; olet baud' <- num baud; olet ty' <- num ty; olet bld' <- str bld;
    olet il <- tagged "ifaces" ifs; olet ifs' <- omap iface_of il; olet asg' <- assigns_of asg;
    Some {| b_ent := e'; b_baud := baud'; b_type := ty'; b_builder := bld'; b_ifaces := ifs'; b_attrs := asg' |}
  | _ => None
  end.
Definition sx_bus (b : bus) : sx :=
  L [A "bus"; sx_ent (b_ent b); sz (b_baud b); sz (b_type b); ss (b_builder b);
     L (A "ifaces" :: map sx_iface (b_ifaces b)); sx_assigns (b_attrs b)].

Definition op_of (o : sx) : option (Z * Z * Z) :=
  olet p <- tagged "op" o;
  match p with [k; f; l] => olet k' <- num k; olet f' <- num f; olet l' <- num l; Some (k', f', l') | _ => None end.
Definition builder_of (x : sx) : option builder :=
  olet l <- tagged "cb" x;
  match l with
  | e :: ops => olet e' <- ent_of e; olet ops' <- omap op_of ops; Some {| cb_ent := e'; cb_ops := ops' |}
  | _ => None
  end.
Definition sx_builder (b : builder) : sx :=
  L (A "cb" :: sx_ent (cb_ent b) :: map (fun o : Z * Z * Z => L [A "op"; sz (fst (fst o)); sz (snd (fst o)); sz (snd o)]) (cb_ops b)).

Definition node_of (x : sx) : option node :=
  olet l <- tagged "nd" x;
  match l with
  | [e; id; cnt; asg] => olet e' <- ent_of e; olet id' <- num id; olet cnt' <- num cnt; olet asg' <- assigns_of asg;
                         Some {| nd_ent := e'; nd_id := id'; nd_ifcount := cnt'; nd_attrs := asg' |}
  | _ => None
  end.
Definition sx_node (n : node) : sx := L [A "nd"; sx_ent (nd_ent n); sz (nd_id n); sz (nd_ifcount n); sx_assigns (nd_attrs n)].

Definition type_of (x : sx) : option sigtype :=
  olet l <- tagged "ty" x;
  match l with
  | [e; k; size; sg; mn; mx; sc; off] =>
    olet e' <- ent_of e; olet k' <- num k; olet size' <- num size; olet sg' <- boolean sg; olet mn' <- num mn;
    olet mx' <- num mx; olet sc' <- num sc; olet off' <- num off;
    Some {| st_ent := e'; st_kind := k'; st_size := size'; st_signed := sg'; st_min := mn'; st_max := mx';
            st_scale := sc'; st_offset := off' |}
  | _ => None
  end.
Definition sx_type (t : sigtype) : sx :=
  L [A "ty"; sx_ent (st_ent t); sz (st_kind t); sz (st_size t); sb (st_signed t); sz (st_min t); sz (st_max t);
     sz (st_scale t); sz (st_offset t)].

Definition unit_of (x : sx) : option sigunit :=
  olet l <- tagged "un" x;
  match l with
  | [e; k; sym] => olet e' <- ent_of e; olet k' <- num k; olet sym' <- str sym;
                   Some {| su_ent := e'; su_kind := k'; su_symbol := sym' |}
  | _ => None
  end.
Definition sx_unit (u : sigunit) : sx := L [A "un"; sx_ent (su_ent u); sz (su_kind u); ss (su_symbol u)].

Definition enum_of (x : sx) : option sigenum :=
  olet l <- tagged "en" x;
  match l with
  | [e; ms; vals] =>
    olet e' <- ent_of e; olet ms' <- num ms; olet vl <- tagged "vals" vals;
    olet vals' <- omap (fun v => olet p <- tagged "v" v;
                                 match p with [ve; i] => olet ve' <- ent_of ve; olet i' <- num i; Some (ve', i') | _ => None end) vl;
    Some {| se_ent := e'; se_values := vals'; se_minsize := ms' |}
  | _ => None
  end.
Definition sx_enum (e : sigenum) : sx :=
  L [A "en"; sx_ent (se_ent e); sz (se_minsize e);
     L (A "vals" :: map (fun v : entity * Z => L [A "v"; sx_ent (fst v); sz (snd v)]) (se_values e))].

Definition attr_of (x : sx) : option attr :=
  olet l <- tagged "at" x;
  match l with
  | [e; L (A t :: body)] =>
    olet e' <- ent_of e;
    olet b <- (if String.eqb t "str" then match body with [d] => olet d' <- str d; Some (ABString d') | _ => None end
               else if String.eqb t "int" then
                 match body with
                 | [d; mn; mx; hx] => olet d' <- num d; olet mn' <- num mn; olet mx' <- num mx; olet hx' <- boolean hx;
                                      Some (ABInt d' mn' mx' hx')
                 | _ => None end
               else if String.eqb t "flt" then
                 match body with
                 | [d; mn; mx] => olet d' <- num d; olet mn' <- num mn; olet mx' <- num mx; Some (ABFloat d' mn' mx')
                 | _ => None end
               else if String.eqb t "enm" then
                 match body with
                 | d :: vals => olet d' <- str d; olet vals' <- omap str vals; Some (ABEnum d' vals')
                 | _ => None end
               else None);
    Some {| at_ent := e'; at_body := b |}
  | _ => None
  end.
Definition sx_attr (a : attr) : sx :=
  L [A "at"; sx_ent (at_ent a);
     match at_body a with
     | ABString d => L [A "str"; ss d]
     | ABInt d mn mx hx => L [A "int"; sz d; sz mn; sz mx; sb hx]
     | ABFloat d mn mx => L [A "flt"; sz d; sz mn; sz mx]
     | ABEnum d vals => L (A "enm" :: ss d :: map ss vals)
     end].

Definition net_of (x : sx) : option net :=
  olet l <- tagged "net" x;
  match l with
  | [e; buses; blds; nodes; types; units; enums; attrs] =>
    olet e' <- ent_of e;
    olet bl <- tagged "buses" buses; olet buses' <- omap bus_of bl;
    olet cl <- tagged "builders" blds; olet blds' <- omap builder_of cl;
    olet nl <- tagged "nodes" nodes; olet nodes' <- omap node_of nl;
    olet tl <- tagged "types" types; olet types' <- omap type_of tl;
    olet ul <- tagged "units" units; olet units' <- omap unit_of ul;
    olet el <- tagged "enums" enums; olet enums' <- omap enum_of el;
    olet al <- tagged "attrs" attrs; olet attrs' <- omap attr_of al;
    Some {| n_ent := e'; n_buses := buses'; n_builders := blds'; n_nodes := nodes'; n_types := types';
            n_units := units'; n_enums := enums'; n_attrs := attrs' |}
  | _ => None
  end.
Definition sx_net (n : net) : sx :=
  L [A "net"; sx_ent (n_ent n); L (A "buses" :: map sx_bus (n_buses n));
     L (A "builders" :: map sx_builder (n_builders n)); L (A "nodes" :: map sx_node (n_nodes n));
     L (A "types" :: map sx_type (n_types n)); L (A "units" :: map sx_unit (n_units n));
     L (A "enums" :: map sx_enum (n_enums n)); L (A "attrs" :: map sx_attr (n_attrs n))].

(* ---------------------------------------------------------------- pnet <-> sexp *)
Definition ptime_of (t : sx) : option (option (Z * Z)) :=
  if is_none t then Some None else olet t' <- time_of t; Some (Some t').
Definition pent_of (x : sx) : option (option PEntity) :=
  if is_none x then Some None else
  olet l <- tagged "pe" x;
  match l with
  | [i; k; n; d; t] => olet i' <- str i; olet k' <- num k; olet n' <- str n; olet d' <- str d; olet t' <- ptime_of t;
                       Some (Some {| pe_id := i'; pe_kind := k'; pe_name := n'; pe_desc := d'; pe_time := t' |})
  | _ => None
  end.
Definition sx_none : sx := L [A "none"].
Definition sx_pent (e : option PEntity) : sx :=
  match e with
  | None => sx_none
  | Some e => L [A "pe"; ss (pe_id e); sz (pe_kind e); ss (pe_name e); ss (pe_desc e);
                 match pe_time e with None => sx_none | Some t => L [A "t"; sz (fst t); sz (snd t)] end]
  end.

Definition pval_of (v : sx) : option PAssignVal :=
  if is_none v then Some PAVNone else
  match v with
  | L [A t; w] => if String.eqb t "s" then olet s <- str w; Some (PAVString s)
                  else if String.eqb t "i" then olet z <- num w; Some (PAVInt z)
                  else if String.eqb t "f" then olet z <- num w; Some (PAVDouble z) else None
  | _ => None
  end.
Definition passigns_of (x : sx) : option (list PAssign) :=
  olet l <- tagged "pas" x;
  omap (fun a => olet p <- tagged "pa" a;
                 match p with
                 | [e; i; v] => olet e' <- str e; olet i' <- str i; olet v' <- pval_of v;
                                Some {| pas_entity_id := e'; pas_attr_id := i'; pas_val := v' |}
                 | _ => None end) l.
Definition sx_passigns (l : list PAssign) : sx :=
  L (A "pas" :: map (fun a => L [A "pa"; ss (pas_entity_id a); ss (pas_attr_id a);
                                 match pas_val a with
                                 | PAVNone => sx_none | PAVString s => L [A "s"; ss s]
                                 | PAVInt z => L [A "i"; sz z] | PAVDouble f => L [A "f"; sz f] end]) l).

Definition ref_of (x : sx) : option PRef :=
  olet l <- tagged "ref" x;
  match l with [i; p] => olet i' <- str i; olet p' <- num p; Some {| prf_id := i'; prf_pos := p' |} | _ => None end.
Definition sx_ref (r : PRef) : sx := L [A "ref"; ss (prf_id r); sz (prf_pos r)].

Fixpoint psig_of (x : sx) : option PSignal :=
  match x with
  | L [A tag; e; k; send; start; asg; body] =>
    if negb (String.eqb tag "psig") then None else
    olet e' <- pent_of e; olet k' <- num k; olet send' <- num send; olet start' <- num start;
    olet asg' <- passigns_of asg;
    olet body' <- (if is_none body then Some PSBNone else
                   match body with
                   | L (A bt :: brest) =>
                     if String.eqb bt "std" then
                       match brest with [t; u] => olet t' <- str t; olet u' <- str u; Some (PSBStd t' u') | _ => None end
                     else if String.eqb bt "enum" then
                       match brest with [en] => olet en' <- str en; Some (PSBEnum en') | _ => None end
                     else if String.eqb bt "mux" then
                       match brest with
                       | [L (A _ :: sigs); L (A _ :: fixed); c; z; L (A _ :: groups)] =>
                         olet sigs' <- omap psig_of sigs; olet fixed' <- omap str fixed; olet c' <- num c; olet z' <- num z;
                         olet groups' <- omap (fun g => match g with L (A _ :: refs) => omap ref_of refs | _ => None end) groups;
                         Some (PSBMux sigs' fixed' c' z' groups')
                       | _ => None
                       end
                     else None
                   | _ => None
                   end);
    Some (PSig e' k' send' start' asg' body')
  | _ => None
  end.

Fixpoint sx_psig (s : PSignal) : sx :=
  match s with
  | PSig e k send start asg body =>
    L [A "psig"; sx_pent e; sz k; sz send; sz start; sx_passigns asg;
       match body with
       | PSBNone => sx_none
       | PSBStd t u => L [A "std"; ss t; ss u]
       | PSBEnum en => L [A "enum"; ss en]
       | PSBMux sigs fixed c z groups =>
         L [A "mux"; L (A "sigs" :: map sx_psig sigs); L (A "fixed" :: map ss fixed); sz c; sz z;
            L (A "groups" :: map (fun g => L (A "g" :: map sx_ref g)) groups)]
       end]
  end.

Definition pmsg_of (x : sx) : option PMessage :=
  olet l <- tagged "pmsg" x;
  match l with
  | [e; sigs; payload; size; id; st; has; prio; bo; cyc; send; del; sdel; recs; asg] =>
    olet e' <- pent_of e; olet sl <- tagged "sigs" sigs; olet sigs' <- omap psig_of sl;
    olet payload' <- (if is_none payload then Some None
                      else olet pl <- tagged "payload" payload; olet refs <- omap ref_of pl; Some (Some refs));
    olet size' <- num size; olet id' <- num id; olet st' <- num st; olet has' <- boolean has; olet prio' <- num prio;
    olet bo' <- num bo; olet cyc' <- num cyc; olet send' <- num send; olet del' <- num del; olet sdel' <- num sdel;
    olet rl <- tagged "recs" recs;
    olet recs' <- omap (fun r => olet p <- tagged "r" r;
                                 match p with [n; k] => olet n' <- str n; olet k' <- num k;
                                                        Some {| prc_node := n'; prc_number := k' |} | _ => None end) rl;
    olet asg' <- passigns_of asg;
    Some {| pm_ent := e'; pm_signals := sigs'; pm_payload := payload'; pm_size := size'; pm_id := id'; pm_static := st';
            pm_has_static := has'; pm_prio := prio'; pm_bo := bo'; pm_cycle := cyc'; pm_send := send'; pm_delay := del';
            pm_startdelay := sdel'; pm_receivers := recs'; pm_attrs := asg' |}
  | _ => None
  end.
Definition sx_pmsg (m : PMessage) : sx :=
  L [A "pmsg"; sx_pent (pm_ent m); L (A "sigs" :: map sx_psig (pm_signals m));
     match pm_payload m with None => sx_none | Some p => L (A "payload" :: map sx_ref p) end;
     sz (pm_size m); sz (pm_id m); sz (pm_static m); sb (pm_has_static m); sz (pm_prio m); sz (pm_bo m); sz (pm_cycle m);
     sz (pm_send m); sz (pm_delay m); sz (pm_startdelay m);
     L (A "recs" :: map (fun r => L [A "r"; ss (prc_node r); sz (prc_number r)]) (pm_receivers m));
     sx_passigns (pm_attrs m)].

Definition pif_of (x : sx) : option PIface :=
  olet l <- tagged "pif" x;
  match l with
  | [k; n; msgs] => olet k' <- num k; olet n' <- str n; olet ml <- tagged "msgs" msgs; olet msgs' <- omap pmsg_of ml;
                    Some {| pif_number := k'; pif_node := n'; pif_msgs := msgs' |}
  | _ => None
  end.
Definition sx_pif (i : PIface) : sx := L [A "pif"; sz (pif_number i); ss (pif_node i); L (A "msgs" :: map sx_pmsg (pif_msgs i))].

Definition pbus_of (x : sx) : option PBus :=
  olet l <- tagged "pbus" x;
  match l with
  | [e; ifs; baud; ty; bld; asg] =>
    olet e' <- pent_of e; olet il <- tagged "ifaces" ifs; olet ifs' <- omap pif_of il; olet baud' <- num baud;
    olet ty' <- num ty; olet bld' <- str bld; olet asg' <- passigns_of asg;
    Some {| pb_ent := e'; pb_ifaces := ifs'; pb_baud := baud'; pb_type := ty'; pb_builder := bld'; pb_attrs := asg' |}
  | _ => None
  end.
Definition sx_pbus (b : PBus) : sx :=
  L [A "pbus"; sx_pent (pb_ent b); L (A "ifaces" :: map sx_pif (pb_ifaces b)); sz (pb_baud b); sz (pb_type b);
     ss (pb_builder b); sx_passigns (pb_attrs b)].

Definition pop_of (o : sx) : option PBuilderOp :=
  olet p <- tagged "op" o;
  match p with [k; f; l] => olet k' <- num k; olet f' <- num f; olet l' <- num l;
                            Some {| pop_kind := k'; pop_from := f'; pop_len := l' |} | _ => None end.

Definition pattr_body_of (body : sx) : option PAttrBody :=
  if is_none body then Some PABNone else
  match body with
  | L (A t :: b) =>
    if String.eqb t "str" then match b with [d] => olet d' <- str d; Some (PABString d') | _ => None end
    else if String.eqb t "int" then
      match b with
      | [d; mn; mx; hx] => olet d' <- num d; olet mn' <- num mn; olet mx' <- num mx; olet hx' <- boolean hx;
                           Some (PABInt d' mn' mx' hx')
      | _ => None end
    else if String.eqb t "flt" then
      match b with [d; mn; mx] => olet d' <- num d; olet mn' <- num mn; olet mx' <- num mx; Some (PABFloat d' mn' mx')
              | _ => None end
    else if String.eqb t "enm" then
      match b with d :: vals => olet d' <- str d; olet vals' <- omap str vals; Some (PABEnum d' vals') | _ => None end
    else None
  | _ => None
  end.

Definition pnet_of (x : sx) : option PNet :=
  olet l <- tagged "pnet" x;
  match l with
  | [e; buses; blds; nodes; types; units; enums; attrs] =>
    olet e' <- pent_of e;
    olet bl <- tagged "buses" buses; olet buses' <- omap pbus_of bl;
    olet cl <- tagged "builders" blds;
    olet blds' <- omap (fun b => olet p <- tagged "pcb" b;
                                 match p with be :: ops => olet be' <- pent_of be; olet ops' <- omap pop_of ops;
                                                          Some {| pcb_ent := be'; pcb_ops := ops' |} | _ => None end) cl;
    olet nl <- tagged "nodes" nodes;
    olet nodes' <- omap (fun n => olet p <- tagged "pnd" n;
                                  match p with
                                  | [ne; id; cnt; asg] => olet ne' <- pent_of ne; olet id' <- num id; olet cnt' <- num cnt;
                                                          olet asg' <- passigns_of asg;
                                                          Some {| pnd_ent := ne'; pnd_id := id'; pnd_ifcount := cnt'; pnd_attrs := asg' |}
                                  | _ => None end) nl;
    olet tl <- tagged "types" types;
    olet types' <- omap (fun t => olet p <- tagged "pty" t;
                                  match p with
                                  | [te; k; size; sg; mn; mx; sc; off] =>
                                    olet te' <- pent_of te; olet k' <- num k; olet size' <- num size; olet sg' <- boolean sg;
                                    olet mn' <- num mn; olet mx' <- num mx; olet sc' <- num sc; olet off' <- num off;
                                    Some {| pst_ent := te'; pst_kind := k'; pst_size := size'; pst_signed := sg'; pst_min := mn';
                                            pst_max := mx'; pst_scale := sc'; pst_offset := off' |}
                                  | _ => None end) tl;
    olet ul <- tagged "units" units;
    olet units' <- omap (fun u => olet p <- tagged "pun" u;
                                  match p with
                                  | [ue; k; sym] => olet ue' <- pent_of ue; olet k' <- num k; olet sym' <- str sym;
                                                    Some {| psu_ent := ue'; psu_kind := k'; psu_symbol := sym' |}
                                  | _ => None end) ul;
    olet el <- tagged "enums" enums;
    olet enums' <- omap (fun en => olet p <- tagged "pen" en;
                                   match p with
                                   | [ee; ms; vals] =>
                                     olet ee' <- pent_of ee; olet ms' <- num ms; olet vl <- tagged "vals" vals;
                                     olet vals' <- omap (fun v => olet q <- tagged "v" v;
                                                                  match q with [ve; i] => olet ve' <- pent_of ve; olet i' <- num i;
                                                                                          Some {| pev_ent := ve'; pev_index := i' |}
                                                                          | _ => None end) vl;
                                     Some {| psn_ent := ee'; psn_values := vals'; psn_minsize := ms' |}
                                   | _ => None end) el;
    olet al <- tagged "attrs" attrs;
    olet attrs' <- omap (fun a => olet p <- tagged "pat" a;
                                  match p with
                                  | [ae; ty; body] => olet ae' <- pent_of ae; olet ty' <- num ty; olet body' <- pattr_body_of body;
                                                      Some {| pat_ent := ae'; pat_type := ty'; pat_body := body' |}
                                  | _ => None end) al;
    Some {| pn_ent := e'; pn_buses := buses'; pn_builders := blds'; pn_nodes := nodes'; pn_types := types';
            pn_units := units'; pn_enums := enums'; pn_attrs := attrs' |}
  | _ => None
  end.

Definition sx_pnet (p : PNet) : sx :=
  L [A "pnet"; sx_pent (pn_ent p); L (A "buses" :: map sx_pbus (pn_buses p));
     L (A "builders" :: map (fun b => L (A "pcb" :: sx_pent (pcb_ent b) ::
                                         map (fun o => L [A "op"; sz (pop_kind o); sz (pop_from o); sz (pop_len o)]) (pcb_ops b)))
          (pn_builders p));
     L (A "nodes" :: map (fun n => L [A "pnd"; sx_pent (pnd_ent n); sz (pnd_id n); sz (pnd_ifcount n); sx_passigns (pnd_attrs n)])
          (pn_nodes p));
     L (A "types" :: map (fun t => L [A "pty"; sx_pent (pst_ent t); sz (pst_kind t); sz (pst_size t); sb (pst_signed t);
                                      sz (pst_min t); sz (pst_max t); sz (pst_scale t); sz (pst_offset t)]) (pn_types p));
     L (A "units" :: map (fun u => L [A "pun"; sx_pent (psu_ent u); sz (psu_kind u); ss (psu_symbol u)]) (pn_units p));
     L (A "enums" :: map (fun e => L [A "pen"; sx_pent (psn_ent e); sz (psn_minsize e);
                                      L (A "vals" :: map (fun v => L [A "v"; sx_pent (pev_ent v); sz (pev_index v)]) (psn_values e))])
          (pn_enums p));
     L (A "attrs" :: map (fun a => L [A "pat"; sx_pent (pat_ent a); sz (pat_type a);
                                      match pat_body a with
                                      | PABNone => sx_none
                                      | PABString d => L [A "str"; ss d]
                                      | PABInt d mn mx hx => L [A "int"; sz d; sz mn; sz mx; sb hx]
                                      | PABFloat d mn mx => L [A "flt"; sz d; sz mn; sz mx]
                                      | PABEnum d vals => L (A "enm" :: ss d :: map ss vals)
                                      end]) (pn_attrs p))].

(* ---------------------------------------------------------------- comparison *)
Fixpoint sx_cmp (a b : sx) : comparison :=
  match a, b with
  | A x, A y => String.compare x y
  | A _, _ => Lt
  | Nz _, A _ => Gt
  | Nz x, Nz y => Z.compare x y
  | Nz _, L _ => Lt
  | L x, L y =>
    (fix go (x y : list sx) : comparison :=
       match x, y with
       | [], [] => Eq
       | [], _ => Lt
       | _, [] => Gt
       | p :: xr, q :: yr => match sx_cmp p q with Eq => go xr yr | c => c end
       end) x y
  | L _, _ => Gt
  end.
Definition sx_eqb (a b : sx) : bool := match sx_cmp a b with Eq => true | _ => false end.

Fixpoint insert_sx (x : sx) (l : list sx) : list sx :=
  match l with
  | [] => [x]
  | y :: r => match sx_cmp x y with Gt => y :: insert_sx x r | _ => x :: l end
  end.
Definition sort_sx (l : list sx) : list sx := fold_right insert_sx [] l.

(* lists whose order is not part of the observable (Go map iteration, sort ties): compared as multisets *)
Definition unordered : list string :=
  ["buses"; "ifaces"; "msgs"; "builders"; "nodes"; "types"; "units"; "enums"; "attrs"; "as"; "pas"; "recs";
   "children"; "vals"].
Fixpoint sx_canon (x : sx) : sx :=
  match x with
  | L (A tag :: rest) =>
    if memb tag unordered then L (A tag :: sort_sx (map sx_canon rest)) else L (A tag :: map sx_canon rest)
  | L l => L (map sx_canon l)
  | a => a
  end.

Definition is_star (x : sx) : bool := match x with A a => String.eqb a "*" | _ => false end.
Fixpoint sx_match (a b : sx) : bool :=
  is_star a || is_star b ||
  match a, b with
  | A x, A y => String.eqb x y
  | Nz x, Nz y => x =? y
  | L x, L y =>
    (fix go (x y : list sx) : bool :=
       match x, y with
       | [], [] => true
       | p :: xr, q :: yr => sx_match p q && go xr yr
       | _, _ => false
       end) x y
  | _, _ => false
  end.

(* the received-messages relation is compared as a set *)
Fixpoint dedup_sorted (l : list sx) : list sx :=
  match l with
  | a :: ((b :: _) as r) => if sx_eqb a b then dedup_sorted r else a :: dedup_sorted r
  | _ => l
  end.
Definition norm_received (x : sx) : sx :=
  match x with L (A t :: rest) => L (A t :: dedup_sorted (sort_sx rest)) | _ => x end.
Definition sx_received (p : PNet) : sx :=
  L (A "received" :: map (fun t : string * Z * string => L [A "rm"; ss (fst (fst t)); sz (snd (fst t)); ss (snd t)]) (received_rel p)).

(* ---------------------------------------------------------------- the checks of the driver *)
Definition flag (ok : bool) (label : string) : list string := if ok then [] else [label].

(* record N: the network built through the API.  Theorem instance load (save n) = Ok n' with the same
   projection; hypotheses wfb / in_domain evaluated. *)
Definition check_N (x : sx) : list string :=
  match net_of x with
  | None => ["N: record does not parse"]
  | Some n =>
    flag (sx_eqb (sx_net n) x) "N: parsed network prints differently" ++
    match load now_time (save n) with
    | Ok n' => flag (sx_match (sx_canon (sx_net (prune n'))) (sx_canon (sx_net (prune n)))) "N: model load (save n) differs from n"
    | Err _ => ["N: model load (save n) fails"]
    end ++
    flag (wfb n) "N: wfb false" ++ flag (in_domain n) "N: in_domain false"
  end.

(* record P of the case of N: the tree SaveNetwork wrote against the model's save *)
Definition check_P (nx px : sx) : list string :=
  match net_of nx with
  | None => ["P: network record does not parse"]
  | Some n => flag (sx_match (sx_canon px) (sx_canon (sx_pnet (save n)))) "P: model save differs from the tree written by SaveNetwork"
  end.

(* records P + L: the outcome of LoadNetwork on the tree against the model's load; wfb of the result *)
Definition check_L (px lx : sx) : list string :=
  match pnet_of px with
  | None => ["L: tree record does not parse"]
  | Some p =>
    flag (sx_eqb (sx_pnet p) px) "L: parsed tree prints differently" ++
    match load now_time p, lx with
    | Ok n', L [A o; g; rc] =>
      flag (String.eqb o "ok") "L: implementation failed, model loads" ++
      flag (sx_match (sx_canon g) (sx_canon (sx_net (prune n')))) "L: loaded networks differ" ++
      flag (sx_eqb (norm_received rc) (norm_received (sx_received p))) "L: received-messages relation differs" ++
      flag (wfb n') "L: model-loaded network not wfb"
    | Err _, L [A o] => flag (String.eqb o "err") "L: bad record"
    | Ok _, _ => ["L: implementation failed, model loads"]
    | Err _, _ => ["L: implementation loads, model fails"]
    end
  end.

(* a case: optional N record, then (P, L) pairs (one per encoding) *)
Definition check_case (c : option sx * list (sx * sx)) : list string :=
  match fst c with
  | Some nx => check_N nx ++ flat_map (fun pl : sx * sx => check_P nx (fst pl)) (snd c)
  | None => []
  end ++ flat_map (fun pl : sx * sx => check_L (fst pl) (snd pl)) (snd c).

(* mismatches of a list of named cases *)
Definition check_cases (l : list (string * (option sx * list (sx * sx)))) : list (string * list string) :=
  filter (fun r : string * list string => match snd r with [] => false | _ => true end)
         (map (fun c => (fst c, check_case (snd c))) l).
