(* C13 — properties of the loader model (coq/C12/Load.v). *)
From Coq Require Import ZArith List String Bool Lia.
From Acme.C12 Require Import Proto NetModel Load.
Import ListNotations.
Open Scope Z_scope.

(* The model is a total function: every tree is mapped to an error or to a network. *)
Lemma load_total_lemma : forall (now : time) (p : PNet),
  (exists c, load now p = Err c) \/ (exists n, load now p = Ok n).
Proof. intros now p. destruct (load now p) as [n|c]; [right|left]; eauto. Qed.
