(* C13 — properties of the loader model (coq/C12/Load.v): entry points for Properties/C13.v. *)
From Coq Require Import ZArith List String Bool Lia.
From Acme.C12 Require Import Proto NetModel Load.
From Acme.C13 Require Import ProofsWf.
Import ListNotations.
Open Scope Z_scope.
Open Scope string_scope.

(* The model is a total function: every tree is mapped to an error or to a network. *)
Lemma load_total_lemma : forall (now : time) (p : PNet),
  (exists c, load now p = Err c) \/ (exists n, load now p = Ok n).
Proof. intros now p. destruct (load now p) as [n|c]; [right|left]; eauto. Qed.

(* ---- a non-trivial tree that loads: the hypotheses of load_ok_wf are satisfiable *)
Definition pe (id name : string) : option PEntity :=
  Some {| pe_id := id; pe_kind := 0; pe_name := name; pe_desc := ""; pe_time := Some (1700000000, 5) |}.

Definition ex_std (id name ty : string) : PSignal := PSig (pe id name) 1 0 0 [] (PSBStd ty "").

Definition ex_mux : PSignal :=
  PSig (pe "mux" "mux") 3 0 0 []
       (PSBMux [ex_std "f" "fixed" "t4"; ex_std "g" "grouped" "t4"; ex_std "g" "grouped" "t4"] ["f"] 2 8
               [[{| prf_id := "f"; prf_pos := 0 |}; {| prf_id := "g"; prf_pos := 4 |}];
                [{| prf_id := "f"; prf_pos := 0 |}; {| prf_id := "g"; prf_pos := 4 |}]]).

Definition ex_msg : PMessage :=
  {| pm_ent := pe "m" "msg"; pm_signals := [ex_std "s" "sig" "t4"; ex_mux];
     pm_payload := Some [{| prf_id := "s"; prf_pos := 0 |}; {| prf_id := "mux"; prf_pos := 8 |}];
     pm_size := 8; pm_id := 1; pm_static := 0; pm_has_static := false; pm_prio := 2; pm_bo := 1; pm_cycle := 10;
     pm_send := 1; pm_delay := 0; pm_startdelay := 0; pm_receivers := [{| prc_node := "n"; prc_number := 1 |}];
     pm_attrs := [{| pas_entity_id := "m"; pas_attr_id := "a"; pas_val := PAVInt 3 |}] |}.

Definition ex_pnet : PNet :=
  {| pn_ent := pe "net" "net";
     pn_buses := [{| pb_ent := pe "b" "bus";
                     pb_ifaces := [{| pif_number := 0; pif_node := "n"; pif_msgs := [ex_msg] |}];
                     pb_baud := 500000; pb_type := 1; pb_builder := "cb"; pb_attrs := [] |}];
     pn_builders := [{| pcb_ent := pe "cb" "builder"; pcb_ops := [{| pop_kind := 2; pop_from := 0; pop_len := 11 |}] |}];
     pn_nodes := [{| pnd_ent := pe "n" "node"; pnd_id := 1; pnd_ifcount := 2; pnd_attrs := [] |}];
     pn_types := [{| pst_ent := pe "t4" "t4"; pst_kind := 3; pst_size := 4; pst_signed := false;
                     pst_min := 0; pst_max := 0; pst_scale := 0; pst_offset := 0 |}];
     pn_units := []; pn_enums := [];
     pn_attrs := [{| pat_ent := pe "a" "att"; pat_type := 2; pat_body := PABInt 0 0 10 false |}] |}.

Example ex_pnet_loads : exists n, load (0, 0) ex_pnet = Ok n /\ pnet_u32_ok ex_pnet /\
                                  List.length (flat_map if_msgs (flat_map b_ifaces (n_buses n))) = 1%nat.
Proof.
  eexists. split; [vm_compute; reflexivity|]. split; [|reflexivity].
  intros pm Hpm. cbn in Hpm. destruct Hpm as [<-|[]]. cbn. lia.
Qed.

(* a tree that the loader refuses, and why: the second group places the shared signal elsewhere *)
Example ex_refused :
  load (0, 0) {| pn_ent := None; pn_buses := []; pn_builders := []; pn_nodes := []; pn_types := [];
                 pn_units := []; pn_enums := []; pn_attrs := [] |} = Err MissingField.
Proof. reflexivity. Qed.
