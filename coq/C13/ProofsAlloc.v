(* C13 — what the loader allocates from (size / count fields of the input), and the open findings of C13 on the
   Coq side.

   Go allocates from three kinds of fields: `size_byte` of a message (payload bytes), `group_count` (one layout per
   group) and `group_size` of a multiplexer, and `interface_count` of a node (one NodeInterface per unit, eagerly).
   After the fixes 86ac827 / b0301f8 the first three are validated before the allocation; `alloc_bound` states what
   the validation guarantees for every network the loader model returns:  message size <= 8 bytes, every group
   count = the number of group lists present in the tree, every group size <= the bits of the enclosing layout
   (<= 64).  `interface_count` is NOT validated: `interface_count_unbounded` shows that inputs of one fixed shape
   load with any interface count, so no function of the input size bounds that allocation.  The resource /
   termination clause of C13 is therefore REFUTED for this field (open finding
   c13-fatal@newNodeFromEntity:out-of-memory+interface_count), not claimed. *)
From Coq Require Import ZArith List String Bool Lia.
From Acme.C12 Require Import Proto NetModel Load Lemmas ProofsMuxRT2 Received.
From Acme.C13 Require Import ProofsSig ProofsWf.
Import ListNotations.
Open Scope Z_scope.

(* every multiplexer below a signal: count = number of groups, size within the enclosing layout *)
Fixpoint alloc_okb (lim : Z) (s : sig) : bool :=
  match s with
  | SMux _ c z groups =>
      (c =? Z.of_nat (List.length groups)) && (1 <=? z) && (z <=? lim) &&
      forallb (fun g => forallb (fun x : bool * sig => alloc_okb z (snd x)) g) groups
  | _ => true
  end.

Definition msg_alloc_okb (m : msg) : bool :=
  (m_size m <=? 8) && forallb (alloc_okb (m_size m * 8)) (m_signals m).

Definition net_alloc_okb (n : net) : bool :=
  forallb msg_alloc_okb (flat_map if_msgs (flat_map b_ifaces (n_buses n))).

Lemma sig_alloc_ok : forall ev s lim,
  sig_okb ev s = true -> sig_size ev s <= lim -> alloc_okb lim s = true.
Proof.
  intros ev s. induction s as [h t u|h e|h c z groups IH] using sig_ind'; intros lim Hok Hsz; [reflexivity|reflexivity|].
  cbn in Hok. apply andb_true_iff in Hok. destruct Hok as [_ Hok].
  repeat (apply andb_true_iff in Hok; let H := fresh "K" in destruct Hok as [Hok H]).
  (* K: forallb groups; K0 fixed; K1 copies; K2 length; K3 1<=z; Hok 1<=c *)
  cbn [alloc_okb]. cbn in Hsz.
  apply Z.leb_le in Hok. apply Z.leb_le in K3. apply Z.eqb_eq in K2.
  assert (0 <= calc_size (c - 1)) by (pose proof (calc_size_pos (c - 1)); lia).
  repeat (apply andb_true_iff; split).
  - apply Z.eqb_eq. lia.
  - apply Z.leb_le. lia.
  - apply Z.leb_le. lia.
  - apply forallb_forall. intros g Hg. apply forallb_forall. intros x Hx.
    rewrite forallb_forall in K. specialize (K g Hg). apply andb_true_iff in K. destruct K as [Kl Ks].
    rewrite Forall_forall in IH. specialize (IH g Hg). rewrite Forall_forall in IH.
    apply (IH x Hx).
    + rewrite forallb_forall in Ks. apply Ks; auto.
    + destruct (layout_okb_facts ev z (map snd g) 0 Kl) as [_ F].
      destruct (F (snd x)) as (F1 & F2 & F3); [apply in_map; auto|]. lia.
Qed.

Lemma wfb_alloc : forall n, wfb n = true -> net_alloc_okb n = true.
Proof.
  intros n H. unfold wfb, wfb_gen in H.
  repeat (apply andb_true_iff in H; let K := fresh "W" in destruct H as [H K]).
  (* W4: forallb bus_okb *)
  unfold net_alloc_okb. apply forallb_forall. intros m Hm.
  apply in_flat_map in Hm. destruct Hm as (i & Hi & Hm). apply in_flat_map in Hi. destruct Hi as (b & Hb & Hi).
  rewrite forallb_forall in W4. specialize (W4 b Hb). unfold bus_okb in W4.
  repeat (apply andb_true_iff in W4; let K := fresh "B" in destruct W4 as [W4 K]).
  rewrite forallb_forall in B3. specialize (B3 i Hi). unfold iface_okb in B3.
  repeat (apply andb_true_iff in B3; let K := fresh "I" in destruct B3 as [B3 K]).
  rewrite forallb_forall in I, I2. specialize (I m Hm). specialize (I2 m Hm).
  unfold msg_okb in I2. apply andb_true_iff in I2. destruct I2 as [_ S]. unfold msg_sigs_okb in S.
  repeat (apply andb_true_iff in S; let K := fresh "S" in destruct S as [S K]).
  unfold msg_alloc_okb. rewrite I. cbn. apply forallb_forall. intros s Hs.
  rewrite forallb_forall in S3. eapply sig_alloc_ok; [apply S3; auto|].
  destruct (layout_okb_facts _ _ _ _ S) as [_ F]. destruct (F s Hs) as (F1 & F2 & F3). lia.
Qed.

Theorem alloc_bound_lemma : forall now p n,
  pnet_u32_ok p -> load now p = Ok n -> net_alloc_okb n = true.
Proof. intros now p n Hu H. apply wfb_alloc. eapply load_ok_wf_lemma; eauto. Qed.

(* ---- interface_count: one fixed shape of input, any count *)
Open Scope string_scope.
Definition pent (id name : string) : option PEntity :=
  Some {| pe_id := id; pe_kind := 0; pe_name := name; pe_desc := ""; pe_time := Some (1700000000, 0) |}.
Definition ifcount_input (k : Z) : PNet :=
  {| pn_ent := pent "net" "net"; pn_buses := []; pn_builders := [];
     pn_nodes := [{| pnd_ent := pent "n" "node"; pnd_id := 1; pnd_ifcount := k; pnd_attrs := [] |}];
     pn_types := []; pn_units := []; pn_enums := []; pn_attrs := [] |}.

Theorem interface_count_unbounded_lemma : forall now k,
  exists n nd, load now (ifcount_input k) = Ok n /\ n_nodes n = [nd] /\ nd_ifcount nd = k.
Proof. intros now k. eexists. eexists. split; [reflexivity|]. split; reflexivity. Qed.

(* ---- D22 on the Coq side: two interfaces of ONE node listed as receivers.  The load succeeds, the message lists
   only the second interface (receivers are keyed by node), while the loader's AddReceiver calls made BOTH interfaces
   list the message as received (`received_rel`): the converse of the receiver relation is broken. *)
Definition recv_link_ok (n : net) (rel : list (string * Z * string)) : Prop :=
  forall nd k mid, In (nd, k, mid) rel ->
    exists m, In m (flat_map if_msgs (flat_map b_ifaces (n_buses n))) /\ e_id (m_ent m) = mid /\ In (nd, k) (m_receivers m).

Definition d22_input : PNet :=
  {| pn_ent := pent "net" "net";
     pn_buses := [{| pb_ent := pent "b" "bus";
                     pb_ifaces := [{| pif_number := 0; pif_node := "s"; pif_msgs :=
                        [{| pm_ent := pent "m" "msg"; pm_signals := []; pm_payload := None; pm_size := 1; pm_id := 1;
                            pm_static := 0; pm_has_static := false; pm_prio := 1; pm_bo := 1; pm_cycle := 0; pm_send := 0;
                            pm_delay := 0; pm_startdelay := 0;
                            pm_receivers := [{| prc_node := "r"; prc_number := 0 |}; {| prc_node := "r"; prc_number := 1 |}];
                            pm_attrs := [] |}] |}];
                     pb_baud := 0; pb_type := 1; pb_builder := ""; pb_attrs := [] |}];
     pn_builders := [];
     pn_nodes := [{| pnd_ent := pent "s" "sender"; pnd_id := 1; pnd_ifcount := 1; pnd_attrs := [] |};
                  {| pnd_ent := pent "r" "receiver"; pnd_id := 2; pnd_ifcount := 2; pnd_attrs := [] |}];
     pn_types := []; pn_units := []; pn_enums := []; pn_attrs := [] |}.

Theorem d22_load_refuted_lemma :
  exists n, load (0, 0) d22_input = Ok n /\ wfb n = true /\ ~ recv_link_ok n (received_rel d22_input).
Proof.
  eexists. split; [vm_compute; reflexivity|]. split; [vm_compute; reflexivity|].
  intros H. destruct (H "r" 0 "m") as (m & Hm & _ & Hr).
  - cbn. left. reflexivity.
  - cbn in Hm. destruct Hm as [<-|[]]. cbn in Hr. destruct Hr as [E|[]]. inversion E.
Qed.

(* the layouts of every loaded network satisfy the layout predicate of C01 *)
From Acme.C12 Require Import LayoutC01.
Theorem load_ok_layouts_c01_lemma : forall now p n,
  pnet_u32_ok p -> load now p = Ok n -> net_c01_okb n = true.
Proof. intros now p n Hu H. apply wfb_layouts_c01_lemma. eapply load_ok_wf_lemma; eauto. Qed.
