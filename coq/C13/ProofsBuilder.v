(* C12 / C13 — every network built by the builder of coq/C12/Builder.v is well-formed
   (`built_wf`): the hypothesis `wfb` of `load_save` is reachable through the modelled API calls.
   By induction over the op list with the invariant `Inv`; the steps reuse the lemmas about the
   mutator models proved for the loader (the loader calls the same mutators). *)
From Coq Require Import ZArith List String Bool Lia.
From Acme.C12 Require Import Proto NetModel Load Lemmas Builder.
From Acme.C13 Require Import ProofsTables ProofsLayout ProofsSig ProofsIds ProofsMsg ProofsNet.
Import ListNotations.
Open Scope Z_scope.

(* ---------------------------------------------------------------- small facts *)
Lemma fold_opt_inv : forall {S X} (f : S -> X -> option S) (P : S -> Prop) l s0 s,
  (forall s1 x s2, P s1 -> f s1 x = Some s2 -> P s2) -> P s0 -> fold_opt f s0 l = Some s -> P s.
Proof.
  intros S X f P l; induction l as [|x r IH]; intros s0 s Hstep H0 H; cbn in H.
  - inversion H; subst; auto.
  - destruct (f s0 x) as [s1|] eqn:E; [|discriminate]. apply (IH s1 s); auto. eapply Hstep; eauto.
Qed.

Lemma assign_all_ok : forall ev l a, assign_all (ev_attrs ev) l = Some a -> assigns_okb ev a = true.
Proof.
  intros ev l a H. unfold assign_all in H.
  destruct (load_assigns _ _) as [r|] eqn:E; [|discriminate]. inversion H; subst. eapply load_assigns_ok; eauto.
Qed.

(* assignments only look at the attribute table, and keep their meaning when it grows at the end *)
Lemma assigns_okb_ext : forall ev ev' r l,
  ev_attrs ev' = ev_attrs ev ++ r -> assigns_okb ev l = true -> assigns_okb ev' l = true.
Proof.
  intros ev ev' r l E H. unfold assigns_okb in *. apply andb_true_iff in H. destruct H as [H1 H2].
  rewrite H2, andb_true_r. rewrite forallb_forall in *. intros a Ha. specialize (H1 a Ha).
  unfold assign_okb in *. rewrite E, find_key_app.
  destruct (find_key attr_key (as_attr a) (ev_attrs ev)); [auto | discriminate].
Qed.

Lemma forallb_snoc : forall {A} (f : A -> bool) l x, forallb f l = true -> f x = true -> forallb f (l ++ [x]) = true.
Proof. intros A f l x H1 H2. rewrite forallb_app, H1. cbn. now rewrite H2. Qed.

(* ---------------------------------------------------------------- a detached message *)
Record msg_pre (ev : env) (m : msg) : Prop := {
  mp_size : 0 <= m_size m;
  mp_recs : m_receivers m = [];
  mp_attrs : assigns_okb ev (m_attrs m) = true;
  mp_static : (if m_has_static m then m_id m =? m_static m else m_static m =? 0) = true;
  mp_layout : layout_okb ev (m_size m * 8) 0 (m_signals m) = true;
  mp_okb : forall x, In x (m_signals m) -> sig_okb ev x = true /\ is_flat x = true;
  mp_names : name_inj (flat_map sig_flat (m_signals m));
  mp_ids : NoDup (map sig_id (m_signals m))
}.

Lemma set_attrs_facts : forall s a,
  is_flat (set_attrs s a) = is_flat s /\ sig_id (set_attrs s a) = sig_id s /\
  sh_attrs (sig_head (set_attrs s a)) = a.
Proof. intros [h t u|h e|h c z g] a; cbn; auto. Qed.

Lemma flat_sig_ok : forall ev s a,
  env_types_ok ev -> is_flat s = true -> refs_resolve ev s = true -> assigns_okb ev a = true ->
  sig_okb ev (set_attrs s a) = true /\ 1 <= sig_size ev (set_attrs s a).
Proof.
  intros ev [h t u|h e|h c z g] a Hty Hf Hr Ha; cbn in *; try discriminate.
  - rewrite Ha. cbn. split; [exact Hr|].
    destruct (find_key type_key t (ev_types ev)) as [ty|] eqn:F; [|discriminate].
    apply find_key_Some in F. apply Hty. tauto.
  - rewrite Ha. cbn. split; [exact Hr|].
    destruct (find_key enum_key e (ev_enums ev)) as [en|]; [|discriminate]. apply enum_size_pos.
Qed.

Lemma flat_set_pos : forall s p, is_flat (sig_set_pos s p) = is_flat s.
Proof. intros [h t u|h e|h c z g] p; reflexivity. Qed.

Lemma flat_ids : forall s, is_flat s = true -> sig_ids s = [sig_id s].
Proof. intros [h t u|h e|h c z g] H; try discriminate; reflexivity. Qed.

Lemma flat_tree_ids : forall s, is_flat s = true -> tree_ids_okb s = true.
Proof. intros [h t u|h e|h c z g] H; try discriminate; reflexivity. Qed.

(* the signal part of a message built by InsertSignal calls *)
Lemma msg_pre_sigs_okb : forall ev m, msg_pre ev m -> msg_sigs_okb ev m = true.
Proof.
  intros ev m [P1 P2 P3 P4 P5 P6 P7 P8]. unfold msg_sigs_okb. rewrite P5. cbn.
  repeat (apply andb_true_iff; split).
  - apply forallb_forall. intros x Hx. apply P6; auto.
  - unfold msg_sigs. apply name_inj_nodup; auto.
  - apply pairwise_disjointb_iff. apply ForallOrdPairs_map.
    apply (ForallOrdPairs_nodup_key sig_id); auto.
    intros x y Hx Hy Hne. rewrite (flat_ids x), (flat_ids y) by (apply P6; auto).
    intros z [<-|[]] [E|[]]. congruence.
  - apply forallb_forall. intros x Hx. apply flat_tree_ids. apply P6; auto.
Qed.

(* ---------------------------------------------------------------- the invariant *)
Definition pend_ifaces (st : bstate) : list iface := match bs_bus st with Some b => b_ifaces b | None => [] end.

Record Inv (st : bstate) : Prop := {
  iv_nodes : forallb (fun nd => assigns_okb (net_env (bs_net st)) (nd_attrs nd)) (n_nodes (bs_net st)) = true;
  iv_types : forallb (fun t => 1 <=? st_size t) (n_types (bs_net st)) = true;
  iv_enums : forallb enum_okb (n_enums (bs_net st)) = true;
  iv_attrs : forallb attr_okb (n_attrs (bs_net st)) = true;
  iv_buses : forall b, In b (n_buses (bs_net st)) ->
                       bus_okb msg_sigs_okb (net_env (bs_net st)) (n_builders (bs_net st)) b = true;
  iv_names : nodupb (map (fun b => e_name (b_ent b)) (n_buses (bs_net st))) = true;
  iv_keys : NoDup (map ikey (all_ifaces (bs_net st) ++ pend_ifaces st));
  iv_bus : match bs_bus st with
           | Some b => bus_okb msg_sigs_okb (net_env (bs_net st)) (n_builders (bs_net st)) b = true
           | None => True end;
  iv_iface : match bs_iface st with
             | Some i => receiver_okb (net_env (bs_net st)) (ikey i) = true /\
                         iface_inv (net_env (bs_net st)) (ikey i) (if_msgs i)
             | None => True end;
  iv_msg : match bs_msg st with Some m => msg_pre (net_env (bs_net st)) m | None => True end
}.

Lemma inv_types_ok : forall st, Inv st -> env_types_ok (net_env (bs_net st)).
Proof.
  intros st I t Ht. cbn in Ht. pose proof (iv_types st I) as H. rewrite forallb_forall in H.
  apply Z.leb_le. auto.
Qed.

Lemma nodes_ext : forall ev ev' r (l : list node),
  ev_attrs ev' = ev_attrs ev ++ r ->
  forallb (fun nd => assigns_okb ev (nd_attrs nd)) l = true ->
  forallb (fun nd => assigns_okb ev' (nd_attrs nd)) l = true.
Proof.
  intros ev ev' r l E H. rewrite forallb_forall in *. intros nd Hnd. eapply assigns_okb_ext; eauto.
Qed.

Lemma new_attr_ok : forall e b a, new_attr e b = Some a -> attr_okb a = true.
Proof.
  intros e [d|d mn mx hex|d mn mx|d vals] a H; cbn in H.
  - inversion H; reflexivity.
  - destruct ((mn >? mx) || (d >? mx) || (d <? mn)) eqn:E; [discriminate|]. inversion H; subst; clear H.
    apply orb_false_iff in E. destruct E as [E E3]. apply orb_false_iff in E. destruct E as [E1 E2].
    unfold attr_okb; cbn. rewrite Z.gtb_ltb in E1, E2. apply Z.ltb_ge in E1, E2, E3.
    repeat (apply andb_true_iff; split); apply Z.leb_le; lia.
  - destruct (f_gt mn mx || f_gt d mx || f_lt d mn) eqn:E; [discriminate|]. inversion H; subst; clear H.
    apply orb_false_iff in E. destruct E as [E E3]. apply orb_false_iff in E. destruct E as [E1 E2].
    unfold attr_okb; cbn. now rewrite E1, E2, E3.
  - destruct vals as [|v r]; [discriminate|]. inversion H; subst; clear H.
    unfold attr_okb; cbn [at_body]. rewrite dedup_str_nodup. cbn. now rewrite String.eqb_refl.
Qed.

Lemma add_value_ok : forall cur v cur', enum_vals_ok cur -> add_value cur v = Some cur' -> enum_vals_ok cur'.
Proof.
  intros cur v cur' [H1 H2] H. unfold add_value in H.
  destruct (existsb _ _) eqn:E1; [discriminate|]. destruct (memb _ _) eqn:E2; [discriminate|].
  inversion H; subst; clear H. split; rewrite map_app; cbn.
  - apply nodupb_snoc; auto.
  - apply znodupb_snoc; auto.
Qed.

(* AddSentMessage only looks at the name, the static CAN-ID and the id of the message *)
Lemma add_sent_message_hdr : forall cur m m' c,
  m_ent m' = m_ent m -> m_has_static m' = m_has_static m -> m_static m' = m_static m -> m_id m' = m_id m ->
  add_sent_message cur m = Ok c -> add_sent_message cur m' = Ok (cur ++ [m']).
Proof.
  intros cur m m' c E1 E2 E3 E4 H. unfold add_sent_message in *. rewrite E1, E2, E3, E4.
  destruct (memb _ _); [discriminate|]. destruct (m_has_static m); destruct (existsb _ cur); try discriminate; reflexivity.
Qed.


Definition with_receivers (m : msg) (rs : list (string * Z)) : msg :=
  {| m_ent := m_ent m; m_id := m_id m; m_size := m_size m; m_static := m_static m;
     m_has_static := m_has_static m; m_prio := m_prio m; m_bo := m_bo m;
     m_cycle := m_cycle m; m_send := m_send m; m_delay := m_delay m;
     m_startdelay := m_startdelay m; m_receivers := rs;
     m_signals := m_signals m; m_attrs := m_attrs m |}.

Lemma sent_message_ok : forall ev i m c l rs,
  iface_inv ev (ikey i) (if_msgs i) -> msg_pre ev m ->
  add_sent_message (if_msgs i) m = Ok c ->
  foldM (load_receiver ev (ikey i)) [] l = Ok rs ->
  iface_inv ev (ikey i) (if_msgs i ++ [with_receivers m rs]).
Proof.
  intros ev i m c l rs Iinv P Ha Er. pose proof (msg_pre_sigs_okb ev m P) as Hs.
  destruct P as [P1 P2 P3 P4 P5 P6 P7 P8].
  assert (Hm' : msg_okb msg_sigs_okb ev (ikey i) (with_receivers m rs) = true).
  { unfold msg_okb. apply andb_true_iff; split.
    - unfold msg_flat_okb, with_receivers; cbn [m_attrs m_has_static m_id m_static m_receivers]. rewrite P3, P4.
      cbn [andb].
      assert (recs_ok ev (ikey i) rs) as (R1 & R2 & R3).
      { eapply (foldM_inv _ (recs_ok ev (ikey i))); [| |exact Er].
        - intros; eapply load_receiver_ok; eauto.
        - repeat split; reflexivity. }
      rewrite R1, R2, R3. reflexivity.
    - exact Hs. }
  destruct (add_sent_message_inv ev (ikey i) (if_msgs i) (with_receivers m rs) (if_msgs i ++ [with_receivers m rs]) Iinv Hm') as [G _]; auto.
  eapply add_sent_message_hdr; [| | | |exact Ha]; reflexivity.
Qed.

Lemma bus_okb_parts : forall ev bl b,
  bus_okb msg_sigs_okb ev bl b = true <->
  assigns_okb ev (b_attrs b) = true /\
  (String.eqb (b_builder b) "" || match find_key builder_key (b_builder b) bl with Some _ => true | None => false end) = true /\
  forallb (iface_okb msg_sigs_okb ev) (b_ifaces b) = true /\
  nodupb (map if_node (b_ifaces b)) = true /\
  nodupb (map (node_name_of ev) (b_ifaces b)) = true /\
  znodupb (map (node_id_of ev) (b_ifaces b)) = true /\
  znodupb (bus_statics (b_ifaces b)) = true.
Proof. intros ev bl b. unfold bus_okb, bus_statics, node_name_of, node_id_of. rewrite !andb_true_iff. tauto. Qed.

Lemma add_node_interface_ok : forall ev bl b i cur,
  bus_okb msg_sigs_okb ev bl b = true ->
  receiver_okb ev (ikey i) = true -> iface_inv ev (ikey i) (if_msgs i) ->
  add_node_interface ev (b_ifaces b) i = Ok cur ->
  cur = b_ifaces b ++ [i] /\
  bus_okb msg_sigs_okb ev bl {| b_ent := b_ent b; b_baud := b_baud b; b_type := b_type b; b_builder := b_builder b;
                                b_ifaces := cur; b_attrs := b_attrs b |} = true.
Proof.
  intros ev bl b i cur Hb R [J1 J2 J3 J4] Ea. unfold add_node_interface in Ea.
  destruct (memb _ _) eqn:E1; [discriminate|]. destruct (existsb _ _) eqn:E2; [discriminate|].
  destruct (negb (forallb _ _)) eqn:E3; [discriminate|]. destruct (negb (static_ids_ok _ _)) eqn:E4; [discriminate|].
  inversion Ea; subst cur; clear Ea. apply negb_false_iff in E3, E4. split; [reflexivity|].
  apply bus_okb_parts in Hb. destruct Hb as (B1 & B2 & B3 & B4 & B5 & B6 & B7).
  assert (Hn : nodupb (map (node_name_of ev) (b_ifaces b ++ [i])) = true)
    by (rewrite map_app; apply nodupb_snoc; auto).
  apply bus_okb_parts. cbn. repeat split; auto.
  - apply forallb_snoc; auto. unfold iface_okb. change (if_node i, if_number i) with (ikey i).
    rewrite R, J2, J3, E3. cbn. rewrite !andb_true_r. apply forallb_forall; auto.
  - apply nodupb_NoDup. apply nodupb_NoDup in Hn. unfold node_name_of, node_of in Hn.
    apply (NoDup_map_map_inv (fun k => match find_key node_key k (ev_nodes ev) with Some nd => e_name (nd_ent nd) | None => EmptyString end) if_node).
    exact Hn.
  - rewrite map_app. apply znodupb_snoc; auto.
  - apply znodupb_NoDup. unfold bus_statics. rewrite flat_map_app, filter_app, map_app. cbn. rewrite app_nil_r.
    apply NoDup_app_intro; auto.
    + apply znodupb_NoDup. exact B7.
    + intros x Hx Hx'. apply in_map_iff in Hx'. destruct Hx' as (m & <- & Hm). apply filter_In in Hm.
      destruct Hm as [Hm Hs]. eapply static_ids_ok_spec; eauto.
Qed.

Lemma bus_okb_builders_ext : forall ev bl x b,
  bus_okb msg_sigs_okb ev bl b = true -> bus_okb msg_sigs_okb ev (bl ++ [x]) b = true.
Proof.
  intros ev bl x b H. apply bus_okb_parts in H. destruct H as (B1 & B2 & B3 & B4 & B5 & B6 & B7).
  apply bus_okb_parts. repeat split; auto.
  rewrite find_key_app. destruct (String.eqb (b_builder b) ""); cbn in *; auto.
  destruct (find_key builder_key (b_builder b) bl); [reflexivity | discriminate].
Qed.

(* ---------------------------------------------------------------- the steps *)
Ltac defs_case st D :=
  unfold defs_phase, idle in D;
  destruct (bs_bus st) eqn:Eb; [discriminate|]; destruct (bs_iface st) eqn:Ei; [discriminate|];
  destruct (bs_msg st) eqn:Em; [discriminate|]; destruct (n_buses (bs_net st)) eqn:En; [|discriminate].

Ltac defs_trivial Eb Ei Em En :=
  unfold pend_ifaces, all_ifaces; cbn; rewrite ?Eb, ?Ei, ?Em, ?En; cbn; auto; try (now constructor); try (intros ? []).

Lemma step_inv : forall st o st', Inv st -> step st o = Some st' -> Inv st'.
Proof.
  intros st o st' I H. pose proof (inv_types_ok st I) as Hty.
  destruct I as [I1 I2 I3 I4 I5 I6 I7 I8 I9 I10].
  destruct o as [e b|t|u|e vals minsize|e id ifcount asg|cb|hdr asg|s asg pos|node number|recs|e baud builder asg| |];
    unfold step in H.
  - (* ODefAttr *)
    destruct (defs_phase st) eqn:D; [|discriminate]. cbn in H. defs_case st D.
    destruct (new_attr e b) as [a|] eqn:Ea; [|discriminate]. inversion H; subst st'; clear H.
    constructor; try (defs_trivial Eb Ei Em En; fail).
    + cbn. eapply nodes_ext; [|exact I1]. cbn. reflexivity.
    + cbn. apply forallb_snoc; auto. eapply new_attr_ok; eauto.
  - (* ODefType *)
    destruct (defs_phase st) eqn:D; [|discriminate]. cbn in H. defs_case st D.
    destruct (st_size t <? 1) eqn:Et; [discriminate|]. inversion H; subst st'; clear H.
    constructor; try (defs_trivial Eb Ei Em En; fail).
    cbn. apply forallb_snoc; auto. apply Z.leb_le. apply Z.ltb_ge in Et. lia.
  - (* ODefUnit *)
    destruct (defs_phase st) eqn:D; [|discriminate]. cbn in H. defs_case st D.
    inversion H; subst st'; clear H.
    constructor; defs_trivial Eb Ei Em En.
  - (* ODefEnum *)
    destruct (defs_phase st) eqn:D; [|discriminate]. cbn in H. defs_case st D.
    destruct (fold_opt add_value [] vals) as [vs|] eqn:Ev; [|discriminate]. inversion H; subst st'; clear H.
    constructor; try (defs_trivial Eb Ei Em En; fail).
    cbn. apply forallb_snoc; auto.
    { assert (G : enum_vals_ok vs).
      { eapply (fold_opt_inv add_value enum_vals_ok); [| |exact Ev].
        - intros; eapply add_value_ok; eauto.
        - split; reflexivity. }
      destruct G as [G1 G2]. unfold enum_okb; cbn. now rewrite G1, G2. }
  - (* ODefNode *)
    destruct (defs_phase st) eqn:D; [|discriminate]. cbn in H. defs_case st D.
    destruct (assign_all (n_attrs (bs_net st)) asg) as [a|] eqn:Ea; [|discriminate]. inversion H; subst st'; clear H.
    constructor; try (defs_trivial Eb Ei Em En; fail).
    cbn. apply forallb_snoc.
    + eapply (nodes_ext _ _ []); [|exact I1]. cbn. now rewrite app_nil_r.
    + cbn. eapply (assigns_okb_ext (net_env (bs_net st)) _ []); [cbn; now rewrite app_nil_r|].
      apply (assign_all_ok (net_env (bs_net st)) asg a). exact Ea.
  - (* ODefBuilder *)
    inversion H; subst st'; clear H.
    constructor; cbn; auto.
    + intros b0 Hb0. apply bus_okb_builders_ext. auto.
    + destruct (bs_bus st); auto. apply bus_okb_builders_ext. auto.
  - (* ONewMessage *)
    destruct (bs_msg st) eqn:Em; [discriminate|].
    destruct (m_size hdr <? 0) eqn:Es; [discriminate|].
    destruct (assign_all (n_attrs (bs_net st)) asg) as [a|] eqn:Ea; [|discriminate]. inversion H; subst st'; clear H.
    apply Z.ltb_ge in Es.
    constructor; cbn; auto.
    constructor; cbn.
    + lia.
    + reflexivity.
    + apply (assign_all_ok (net_env (bs_net st)) asg a Ea).
    + destruct (m_has_static hdr); apply Z.eqb_refl.
    + apply Z.leb_le. lia.
    + intros x [].
    + intros x y [].
    + constructor.
  - (* OInsertSignal *)
    destruct (bs_msg st) as [m|] eqn:Em; [|discriminate].
    destruct (negb (is_flat s)) eqn:Ef; [discriminate|]. apply negb_false_iff in Ef.
    destruct (negb (refs_resolve _ s)) eqn:Er; [discriminate|]. apply negb_false_iff in Er.
    destruct (memb (sig_id s) _) eqn:Eid; [discriminate|].
    destruct (assign_all _ asg) as [a|] eqn:Ea; [|discriminate].
    destruct (msg_insert_signal _ _ _ _ _) as [sigs|] eqn:Eins; [|discriminate]. inversion H; subst st'; clear H.
    destruct I10 as [P1 P2 P3 P4 P5 P6 P7 P8].
    pose proof (assign_all_ok (net_env (bs_net st)) asg a Ea) as Ha.
    destruct (flat_sig_ok _ s a Hty Ef Er Ha) as [Hok Hsz].
    destruct (set_attrs_facts s a) as (F1 & F2 & F3).
    unfold msg_insert_signal in Eins.
    destruct (memb (sig_name _) _) eqn:N1; [discriminate|]. destruct (names_clash _ _) eqn:N2; [discriminate|].
    apply bind_ok in Eins. destruct Eins as ([] & Hv & Eins). inversion Eins; subst sigs; clear Eins.
    constructor; cbn; auto.
    constructor; cbn; auto.
    + apply layout_verify_insert_ok; auto.
    + intros x Hx. apply layout_insert_In in Hx. destruct Hx as [->|Hx]; auto.
      rewrite sig_okb_set_pos, flat_set_pos, F1. auto.
    + apply name_inj_insert; auto.
    + apply layout_insert_ids_nodup; auto. rewrite F2. apply memb_false; auto.
  - (* ONewIface *)
    destruct (bs_iface st) eqn:Ei; [discriminate|].
    destruct (find_key node_key node _) as [nd|] eqn:F; [|discriminate].
    destruct ((number <? 0) || (number >=? nd_ifcount nd)) eqn:E; [discriminate|]. inversion H; subst st'; clear H.
    apply orb_false_iff in E. destruct E as [E1 E2].
    constructor; cbn; auto. split.
    + unfold receiver_okb, ikey; cbn. cbn in F. rewrite F. apply andb_true_iff; split.
      * apply Z.leb_le. apply Z.ltb_ge in E1. lia.
      * apply Z.ltb_lt. rewrite Z.geb_leb in E2. apply Z.leb_gt in E2. lia.
    + constructor; try reflexivity; [intros m []|constructor].
  - (* OAddSentMessage *)
    destruct (bs_iface st) as [i|] eqn:Ei; [|discriminate]. destruct (bs_msg st) as [m|] eqn:Em; [|discriminate].
    destruct (add_sent_message (if_msgs i) m) as [c|] eqn:Ea; [|discriminate].
    destruct (foldM _ [] (map prec_of recs)) as [rs|] eqn:Er; [|discriminate]. inversion H; subst st'; clear H.
    destruct I9 as [R Iinv].
    constructor; cbn; auto. split; [exact R|].
    exact (sent_message_ok _ i m c _ rs Iinv I10 Ea Er).
  - (* ONewBus *)
    destruct (bs_bus st) eqn:Eb; [discriminate|].
    destruct (find_key builder_key builder _) as [cb0|] eqn:F; [|discriminate].
    destruct (assign_all _ asg) as [a|] eqn:Ea; [|discriminate]. inversion H; subst st'; clear H.
    unfold pend_ifaces in I7. rewrite Eb in I7.
    constructor; cbn; auto.
    apply bus_okb_parts. cbn. rewrite F. rewrite orb_true_r.
    repeat split; auto. apply (assign_all_ok (net_env (bs_net st)) asg a Ea).
  - (* OAddNodeInterface *)
    destruct (bs_bus st) as [b|] eqn:Eb; [|discriminate]. destruct (bs_iface st) as [i|] eqn:Ei; [|discriminate].
    destruct (bs_msg st) eqn:Em; [discriminate|].
    destruct (existsb _ _) eqn:Ek; [discriminate|].
    destruct (add_node_interface _ _ i) as [cur|] eqn:Ea; [|discriminate]. inversion H; subst st'; clear H.
    destruct I9 as [R Iinv].
    destruct (add_node_interface_ok _ _ b i cur I8 R Iinv Ea) as [Ecur Hb].
    unfold pend_ifaces in I7. rewrite Eb in I7.
    constructor; cbn; auto.
    unfold pend_ifaces; cbn. rewrite Ecur, app_assoc, map_app. cbn. apply NoDup_snoc; auto.
    intros C.
    assert (X : existsb (fun k : string * Z => String.eqb (fst k) (if_node i) && (snd k =? if_number i))
                  (map (fun x => (if_node x, if_number x)) (all_ifaces (bs_net st) ++ b_ifaces b)) = true).
    { apply existsb_exists. exists (ikey i). split; [exact C|]. cbn. now rewrite String.eqb_refl, Z.eqb_refl. }
    congruence.
  - (* OAddBus *)
    destruct (bs_bus st) as [b|] eqn:Eb; [|discriminate]. destruct (bs_iface st) eqn:Ei; [discriminate|].
    destruct (bs_msg st) eqn:Em; [discriminate|].
    destruct (memb _ _) eqn:En; [discriminate|]. inversion H; subst st'; clear H.
    unfold pend_ifaces in I7. rewrite Eb in I7.
    constructor; cbn; auto.
    + intros b0 Hb0. apply in_app_or in Hb0. destruct Hb0 as [?|[<-|[]]]; auto.
    + rewrite map_app. apply nodupb_snoc; auto.
    + unfold pend_ifaces, all_ifaces; cbn. rewrite flat_map_app. cbn. rewrite !app_nil_r. exact I7.
Qed.

(* ---------------------------------------------------------------- entity ids: counted, not checked *)
Definition cnt (l : list string) (x : string) : nat := count_occ string_dec l x.

Lemma cnt_app : forall a b x, cnt (a ++ b) x = (cnt a x + cnt b x)%nat.
Proof. intros. apply count_occ_app. Qed.
Definition one (a x : string) : nat := if string_dec a x then 1%nat else 0%nat.
Lemma cnt_cons' : forall a l x, cnt (a :: l) x = (one a x + cnt l x)%nat.
Proof. intros. unfold cnt, one. cbn. destruct (string_dec a x); lia. Qed.
Lemma cnt_nil : forall x, cnt [] x = 0%nat.
Proof. reflexivity. Qed.
Arguments cnt : simpl never.
Ltac cnt_simpl := repeat (rewrite ?map_app, ?flat_map_app, ?app_nil_r, ?cnt_app, ?cnt_cons', ?cnt_nil).

Definition ids_msgs (ms : list msg) : list string :=
  map (fun m => e_id (m_ent m)) ms ++ flat_map (fun m => map sig_id (msg_sigs m)) ms.

Lemma ids_msgs_app : forall a b x, cnt (ids_msgs (a ++ b)) x = (cnt (ids_msgs a) x + cnt (ids_msgs b) x)%nat.
Proof. intros. unfold ids_msgs. rewrite map_app, flat_map_app, !cnt_app. lia. Qed.

Definition state_ids (st : bstate) : list string :=
  net_ids (bs_net st)
  ++ match bs_bus st with Some b => e_id (b_ent b) :: ids_msgs (flat_map if_msgs (b_ifaces b)) | None => [] end
  ++ match bs_iface st with Some i => ids_msgs (if_msgs i) | None => [] end
  ++ match bs_msg st with Some m => ids_msgs [m] | None => [] end.

Lemma add_value_all : forall vals cur vs, fold_opt add_value cur vals = Some vs -> vs = cur ++ vals.
Proof.
  induction vals as [|v r IH]; intros cur vs H; cbn in H.
  - inversion H. now rewrite app_nil_r.
  - unfold add_value in H at 1. destruct (existsb _ _); [discriminate|]. destruct (memb _ _); [discriminate|].
    rewrite (IH _ _ H), <- app_assoc. reflexivity.
Qed.

Lemma flat_sig_flat : forall l, (forall x, In x l -> is_flat x = true) -> flat_map sig_flat l = l.
Proof.
  induction l as [|s r IH]; intros H; cbn; auto.
  rewrite IH by (intros; apply H; now right).
  assert (F : is_flat s = true) by (apply H; now left). destruct s; try discriminate; reflexivity.
Qed.

Lemma msg_pre_sigs : forall ev m, msg_pre ev m -> map sig_id (msg_sigs m) = map sig_id (m_signals m).
Proof.
  intros ev m P. unfold msg_sigs. rewrite flat_sig_flat by (intros x Hx; apply (mp_okb ev m P x Hx)).
  rewrite dedup_key_id; auto. apply (mp_ids ev m P).
Qed.

Lemma cnt_layout_insert : forall l s pos x,
  cnt (map sig_id (layout_insert l s pos)) x = (cnt (map sig_id l) x + one (sig_id s) x)%nat.
Proof.
  induction l as [|t r IH]; intros s pos x; cbn [layout_insert map].
  - rewrite sig_id_set_pos. cnt_simpl. lia.
  - destruct (sig_pos t >? pos); cbn [map].
    + rewrite sig_id_set_pos. cnt_simpl. lia.
    + cnt_simpl. rewrite IH. lia.
Qed.

Ltac cnt_norm := unfold state_ids, net_ids, ids_msgs, enum_key, node_key, type_key, unit_key, builder_key; cbn; unfold enum_key, node_key, type_key, unit_key, builder_key; cnt_simpl; cbn; cnt_simpl.

Lemma step_ids : forall st o st', Inv st -> step st o = Some st' ->
  forall x, cnt (state_ids st') x = (cnt (state_ids st) x + cnt (op_ids o) x)%nat.
Proof.
  intros st o st' I H x.
  destruct o as [e b|t|u|e vals minsize|e id ifcount asg|cb|hdr asg|s asg pos|node number|recs|e baud builder asg| |];
    unfold step in H.
  - destruct (defs_phase st); [|discriminate]. cbn in H. destruct (new_attr e b) as [a|] eqn:Ea; [|discriminate].
    inversion H; subst st'; clear H.
    assert (Ek : attr_key a = e_id e).
    { destruct b as [d|d mn mx hx|d mn mx|d vs]; cbn in Ea.
      - inversion Ea; reflexivity.
      - destruct (_ || _); [discriminate|]. inversion Ea; reflexivity.
      - destruct (_ || _); [discriminate|]. inversion Ea; reflexivity.
      - destruct vs; [discriminate|]. inversion Ea; reflexivity. }
    cnt_norm. rewrite Ek. lia.
  - destruct (defs_phase st); [|discriminate]. cbn in H. destruct (st_size t <? 1); [discriminate|].
    inversion H; subst st'; clear H. cnt_norm. lia.
  - destruct (defs_phase st); [|discriminate]. cbn in H.
    inversion H; subst st'; clear H. cnt_norm. lia.
  - destruct (defs_phase st); [|discriminate]. cbn in H. destruct (fold_opt add_value [] vals) as [vs|] eqn:Ev; [|discriminate].
    inversion H; subst st'; clear H. apply add_value_all in Ev. cbn in Ev. subst vs.
    cnt_norm. lia.
  - destruct (defs_phase st); [|discriminate]. cbn in H. destruct (assign_all _ asg) as [a|]; [|discriminate].
    inversion H; subst st'; clear H. cnt_norm. lia.
  - inversion H; subst st'; clear H. cnt_norm. lia.
  - destruct (bs_msg st) eqn:Em; [discriminate|]. destruct (m_size hdr <? 0); [discriminate|].
    destruct (assign_all _ asg) as [a|]; [|discriminate]. inversion H; subst st'; clear H.
    unfold state_ids. cbn [bs_net bs_bus bs_iface bs_msg]. rewrite Em. rewrite !cnt_app. unfold ids_msgs, msg_sigs. cbn. cnt_simpl. lia.
  - destruct (bs_msg st) as [m|] eqn:Em; [|discriminate].
    destruct (negb (is_flat s)) eqn:Ef; [discriminate|]. apply negb_false_iff in Ef.
    destruct (negb (refs_resolve _ s)) eqn:Er; [discriminate|]. apply negb_false_iff in Er.
    destruct (memb (sig_id s) _) eqn:Eid; [discriminate|].
    destruct (assign_all _ asg) as [a|] eqn:Ea; [|discriminate].
    destruct (msg_insert_signal _ _ _ _ _) as [sigs|] eqn:Eins; [|discriminate].
    pose proof (step_inv st (OInsertSignal s asg pos) st' I) as I'.
    inversion H; subst st'; clear H.
    assert (J : Inv {| bs_net := bs_net st; bs_bus := bs_bus st; bs_iface := bs_iface st;
                       bs_msg := Some {| m_ent := m_ent m; m_id := m_id m; m_size := m_size m; m_static := m_static m;
                                         m_has_static := m_has_static m; m_prio := m_prio m; m_bo := m_bo m;
                                         m_cycle := m_cycle m; m_send := m_send m; m_delay := m_delay m;
                                         m_startdelay := m_startdelay m; m_receivers := m_receivers m;
                                         m_signals := sigs; m_attrs := m_attrs m |} |}).
    { apply I'. unfold step. rewrite Em, Ef, Er, Eid, Ea, Eins. reflexivity. }
    pose proof (iv_msg _ I) as P0. rewrite Em in P0. pose proof (iv_msg _ J) as P1. cbn in P1.
    unfold state_ids. cbn [bs_net bs_bus bs_iface bs_msg]. rewrite Em. unfold ids_msgs. cbn [map flat_map].
    rewrite (msg_pre_sigs _ _ P0), (msg_pre_sigs _ _ P1). cbn [m_signals m_ent op_ids].
    unfold msg_insert_signal in Eins. destruct (memb (sig_name _) _); [discriminate|]. destruct (names_clash _ _); [discriminate|].
    apply bind_ok in Eins. destruct Eins as ([] & _ & Eins). inversion Eins; subst sigs.
    cnt_simpl. rewrite cnt_layout_insert.
    destruct (set_attrs_facts s a) as (_ & F2 & _). rewrite F2. cnt_simpl. lia.
  - destruct (bs_iface st) eqn:Ei; [discriminate|]. destruct (find_key node_key node _); [|discriminate].
    destruct (_ || _); [discriminate|]. inversion H; subst st'; clear H.
    unfold state_ids. cbn [bs_net bs_bus bs_iface bs_msg]. rewrite Ei. rewrite !cnt_app. unfold ids_msgs. cbn. cnt_simpl. lia.
  - destruct (bs_iface st) as [i|] eqn:Ei; [|discriminate]. destruct (bs_msg st) as [m|] eqn:Em; [|discriminate].
    destruct (add_sent_message _ m); [|discriminate]. destruct (foldM _ _ _) as [rs|]; [|discriminate].
    inversion H; subst st'; clear H.
    unfold state_ids. cbn [bs_net bs_bus bs_iface bs_msg]. rewrite Ei, Em. cbn [if_msgs]. rewrite !cnt_app, ids_msgs_app. unfold ids_msgs, msg_sigs. cbn. cnt_simpl. lia.
  - destruct (bs_bus st) eqn:Eb; [discriminate|]. destruct (find_key builder_key builder _); [|discriminate].
    destruct (assign_all _ asg); [|discriminate]. inversion H; subst st'; clear H.
    unfold state_ids. cbn [bs_net bs_bus bs_iface bs_msg]. rewrite Eb. cbn [b_ent b_ifaces flat_map]. rewrite !cnt_app. unfold ids_msgs. cbn. cnt_simpl. lia.
  - destruct (bs_bus st) as [b|] eqn:Eb; [|discriminate]. destruct (bs_iface st) as [i|] eqn:Ei; [|discriminate].
    destruct (bs_msg st) eqn:Em; [discriminate|]. destruct (existsb _ _); [discriminate|].
    destruct (add_node_interface _ _ i) as [cur|] eqn:Ea; [|discriminate]. inversion H; subst st'; clear H.
    unfold add_node_interface in Ea. destruct (memb _ _); [discriminate|]. destruct (existsb _ _); [discriminate|].
    destruct (negb _); [discriminate|]. destruct (negb _); [discriminate|]. inversion Ea; subst cur.
    unfold state_ids. cbn [bs_net bs_bus bs_iface bs_msg]. rewrite Eb, Ei, Em. cbn [b_ent b_ifaces]. rewrite flat_map_app. cbn [flat_map]. rewrite !app_nil_r.
    rewrite !cnt_app, !cnt_cons', ids_msgs_app, ?cnt_nil. lia.
  - destruct (bs_bus st) as [b|] eqn:Eb; [|discriminate]. destruct (bs_iface st) eqn:Ei; [discriminate|].
    destruct (bs_msg st) eqn:Em; [discriminate|]. destruct (memb _ _); [discriminate|]. inversion H; subst st'; clear H.
    unfold state_ids. cbn. rewrite Eb, Ei, Em. unfold net_ids, ids_msgs. cbn. cnt_simpl. cbn. cnt_simpl. lia.
Qed.

Lemma fold_ids : forall ops st st', Inv st -> fold_opt step st ops = Some st' ->
  Inv st' /\ forall x, cnt (state_ids st') x = (cnt (state_ids st) x + cnt (flat_map op_ids ops) x)%nat.
Proof.
  induction ops as [|o r IH]; intros st st' I H; cbn in H.
  - inversion H; subst. split; [auto|]. intros x. cbn [flat_map]. rewrite cnt_nil. lia.
  - destruct (step st o) as [st1|] eqn:E; [|discriminate].
    pose proof (step_inv _ _ _ I E) as I1. destruct (IH _ _ I1 H) as [I2 C]. split; auto.
    intros x. rewrite C, (step_ids _ _ _ I E x). cbn. rewrite cnt_app. lia.
Qed.

(* ---------------------------------------------------------------- the theorem *)
Lemma init_inv : forall e, Inv (init e).
Proof.
  intros e. constructor; cbn; auto; try (now constructor); intros b [].
Qed.

Theorem built_wf_lemma : forall e ops n, build e ops = Some n -> ids_fresh e ops -> wfb n = true.
Proof.
  intros e ops n H Hfresh. unfold build in H.
  destruct (fold_opt step (init e) ops) as [st|] eqn:E; [|discriminate]. inversion H; subst n; clear H.
  destruct (fold_ids _ _ _ (init_inv e) E) as [I C].
  assert (Hids : nodupb (net_ids (bs_net st)) = true).
  { apply nodupb_NoDup. apply (NoDup_count_occ string_dec). intros x.
    unfold ids_fresh, supplied_ids in Hfresh. rewrite (NoDup_count_occ string_dec) in Hfresh. specialize (Hfresh x).
    specialize (C x). unfold state_ids in C. rewrite cnt_app in C. cbn in C. rewrite !cnt_cons', !cnt_nil in C.
    fold (cnt (e_id e :: flat_map op_ids ops) x) in Hfresh. rewrite cnt_cons' in Hfresh.
    fold (cnt (net_ids (bs_net st)) x). lia. }
  destruct I as [I1 I2 I3 I4 I5 I6 I7 I8 I9 I10].
  unfold wfb, wfb_gen. rewrite Hids, I6, I1, I2, I3, I4. cbn. rewrite !andb_true_r.
  apply andb_true_iff; split.
  - apply forallb_forall. exact I5.
  - apply pair_nodupb_NoDup. rewrite map_app in I7. apply NoDup_app_l in I7. exact I7.
Qed.

(* the builder is not vacuous: a network with a bus, a node interface, a message and two signals *)
Open Scope string_scope.
Definition ex_ent (i nm : string) : entity := {| e_id := i; e_name := nm; e_desc := ""; e_time := (1, 0) |}.
Definition ex_head (i nm : string) : sighead :=
  {| sh_ent := ex_ent i nm; sh_send := 0; sh_start := 0; sh_attrs := []; sh_pos := 0 |}.
Definition ex_ops : list op :=
  [ ODefAttr (ex_ent "a1" "att") (ABInt 5 0 10 false);
    ODefType {| st_ent := ex_ent "t1" "u8"; st_kind := 2; st_size := 8; st_signed := false;
                st_min := 0; st_max := 0; st_scale := 0; st_offset := 0 |};
    ODefEnum (ex_ent "e1" "en") [(ex_ent "v1" "A", 0); (ex_ent "v2" "B", 3)] 1;
    ODefNode (ex_ent "n1" "node") 1 2 [{| as_attr := "a1"; as_val := AVInt 7 |}];
    ODefBuilder {| cb_ent := ex_ent "c1" "builder"; cb_ops := [] |};
    ONewBus (ex_ent "b1" "bus") 500000 "c1" [];
    ONewIface "n1" 0;
    ONewMessage {| m_ent := ex_ent "m1" "msg"; m_id := 3; m_size := 2; m_static := 0; m_has_static := false;
                   m_prio := 0; m_bo := 0; m_cycle := 0; m_send := 0; m_delay := 0; m_startdelay := 0;
                   m_receivers := []; m_signals := []; m_attrs := [] |} [];
    OInsertSignal (SStd (ex_head "s1" "speed") "t1" "") [{| as_attr := "a1"; as_val := AVInt 1 |}] 8;
    OInsertSignal (SEnum (ex_head "s2" "mode") "e1") [] 0;
    OAddSentMessage [("n1", 1)];
    OAddNodeInterface;
    OAddBus ].

Example build_example : ids_fresh (ex_ent "net" "net") ex_ops /\
  match build (ex_ent "net" "net") ex_ops with
  | Some n => List.length (n_buses n) = 1%nat /\
              map (fun s => sig_pos s) (flat_map m_signals (flat_map if_msgs (flat_map b_ifaces (n_buses n)))) = [0; 8]
  | None => False
  end.
Proof. split; [unfold ids_fresh; apply nodupb_NoDup; vm_compute; reflexivity|]. vm_compute. split; reflexivity. Qed.

(* a refused call: the second signal overlaps the first *)
Example build_refuses_overlap :
  build (ex_ent "net" "net")
        [ ODefType {| st_ent := ex_ent "t1" "u8"; st_kind := 2; st_size := 8; st_signed := false;
                      st_min := 0; st_max := 0; st_scale := 0; st_offset := 0 |};
          ONewMessage {| m_ent := ex_ent "m1" "msg"; m_id := 3; m_size := 2; m_static := 0; m_has_static := false;
                         m_prio := 0; m_bo := 0; m_cycle := 0; m_send := 0; m_delay := 0; m_startdelay := 0;
                         m_receivers := []; m_signals := []; m_attrs := [] |} [];
          OInsertSignal (SStd (ex_head "s1" "a") "t1" "") [] 0;
          OInsertSignal (SStd (ex_head "s2" "b") "t1" "") [] 4 ] = None.
Proof. vm_compute. reflexivity. Qed.

(* the round trip for every built network: `wfb` is discharged, only the value ranges of the save format remain *)
From Acme.C12 Require Import Save Proj Domain ProofsRT8.
Theorem built_load_save_lemma : forall now e ops n,
  build e ops = Some n -> ids_fresh e ops -> in_domain n = true ->
  load now (save n) = Ok (canon n) /\ proj (canon n) = proj n.
Proof.
  intros now e ops n Hb Hf Hd. apply load_save_lemma; auto. eapply built_wf_lemma; eauto.
Qed.
