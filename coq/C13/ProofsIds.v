(* C13 — entity ids inside a loaded signal tree: contained in the ids registered by the
   duplicate check (psig_ids), hence distinct between distinct members. *)
From Coq Require Import ZArith List String Bool Lia.
From Acme.C12 Require Import Proto NetModel Load Lemmas.
From Acme.C13 Require Import ProofsTables ProofsLayout ProofsMux ProofsSig.
Import ListNotations.
Open Scope Z_scope.

(* ---- disjointness *)
Definition disjoint (a b : list string) : Prop := forall x, In x a -> ~ In x b.

Lemma disjointb_iff : forall a b, disjointb a b = true <-> disjoint a b.
Proof.
  induction a as [|x r IH]; intros b; cbn.
  - split; auto. intros _ y [].
  - rewrite andb_true_iff, negb_true_iff, memb_false, IH. split.
    + intros [H1 H2] y [<-|Hy]; auto.
    + intros H; split; [apply H; auto using in_eq | intros y Hy; apply H; auto using in_cons].
Qed.

Lemma disjoint_sym : forall a b, disjoint a b -> disjoint b a.
Proof. intros a b H x Hx Hx'. eapply H; eauto. Qed.

Lemma disjoint_incl : forall a b a' b', disjoint a b -> incl a' a -> incl b' b -> disjoint a' b'.
Proof. intros a b a' b' H Ha Hb x Hx Hx'. eapply H; eauto. Qed.

Lemma pairwise_disjointb_iff : forall l,
  pairwise_disjointb l = true <-> ForallOrdPairs disjoint l.
Proof.
  induction l as [|a r IH]; cbn.
  - split; auto. constructor.
  - rewrite andb_true_iff, IH, forallb_forall. split.
    + intros [H1 H2]. constructor; auto. apply Forall_forall. intros b Hb. apply disjointb_iff; auto.
    + intros H. inversion H; subst. split; auto. intros b Hb. apply disjointb_iff.
      rewrite Forall_forall in H2; auto.
Qed.

Lemma NoDup_app_disjoint : forall (a b : list string), NoDup (a ++ b) -> disjoint a b.
Proof.
  induction a as [|x r IH]; intros b H; cbn in *; [intros y []|].
  inversion H; subst. intros y [<-|Hy].
  - intros C. apply H2. apply in_or_app; auto.
  - apply IH; auto.
Qed.

Lemma NoDup_app_l : forall {A} (a b : list A), NoDup (a ++ b) -> NoDup a.
Proof. induction a as [|x r IH]; intros b H; cbn in *; [constructor|]. inversion H; subst. constructor; eauto. intros C; apply H2; apply in_or_app; auto. Qed.

Lemma NoDup_app_r : forall {A} (a b : list A), NoDup (a ++ b) -> NoDup b.
Proof. induction a as [|x r IH]; intros b H; cbn in *; auto. inversion H; eauto. Qed.

Lemma NoDup_flat_map_elem : forall {A} (f : A -> list string) l a, NoDup (flat_map f l) -> In a l -> NoDup (f a).
Proof.
  intros A f l; induction l as [|b r IH]; intros a H Ha; cbn in *; [contradiction|].
  destruct Ha as [<-|Ha]; [eapply NoDup_app_l; eauto | apply IH; auto; eapply NoDup_app_r; eauto].
Qed.

(* two elements at different places of l have disjoint images *)
Lemma NoDup_flat_map_pairs : forall {A} (f : A -> list string) l,
  NoDup (flat_map f l) -> ForallOrdPairs (fun a b => disjoint (f a) (f b)) l.
Proof.
  intros A f l; induction l as [|a r IH]; intros H; cbn in *; constructor.
  - apply Forall_forall. intros b Hb. apply NoDup_app_disjoint in H.
    intros x Hx Hx'. apply (H x Hx). apply in_flat_map. eauto.
  - apply IH. eapply NoDup_app_r; eauto.
Qed.

Lemma ForallOrdPairs_Forall2 : forall {A B} (R : A -> B -> Prop) (P : A -> A -> Prop) (Q : B -> B -> Prop) l l',
  Forall2 R l l' -> (forall a a' b b', R a b -> R a' b' -> P a a' -> Q b b') ->
  ForallOrdPairs P l -> ForallOrdPairs Q l'.
Proof.
  intros A B R P Q l l' HF HPQ. induction HF as [|a b l l' Hab HF IH]; intros HP; [constructor|].
  inversion HP; subst. constructor; auto.
  apply Forall_forall. intros b' Hb'. rewrite Forall_forall in H1.
  clear - HF Hb' H1 HPQ Hab. induction HF as [|a' b'' l l' Hab' HF IH]; [contradiction|].
  destruct Hb' as [<-|Hb']; [eapply HPQ; eauto; apply H1; apply in_eq | apply IH; auto; intros; apply H1; now right].
Qed.

(* ---- signal ids *)
Lemma sig_ids_set_pos : forall s p, sig_ids (sig_set_pos s p) = sig_ids s.
Proof.
  intros s p. unfold sig_ids.
  destruct s as [h t u|h e|h c z g]; cbn; f_equal.
Qed.

Lemma tree_ids_okb_set_pos : forall s p, tree_ids_okb (sig_set_pos s p) = tree_ids_okb s.
Proof. intros [h t u|h e|h c z g] p; reflexivity. Qed.

Lemma sig_ids_mux : forall h c z gs,
  sig_ids (SMux h c z gs) =
  sig_id (SMux h c z gs) :: flat_map (fun g => flat_map (fun x : bool * sig => sig_ids (snd x)) g) gs.
Proof.
  intros. unfold sig_ids at 1. cbn [sig_flat map]. f_equal.
  induction gs as [|g r IH]; cbn; auto. rewrite map_app, IH. f_equal.
  induction g as [|x q IHq]; cbn; auto. rewrite map_app, IHq. reflexivity.
Qed.

Section Ids.
Variable now : time.
Variable ev : env.

Lemma psig_ids_head : forall lim ps s, load_sig now ev lim ps = Ok s -> exists tl, psig_ids ps = sig_id s :: tl.
Proof.
  intros lim ps s H. pose proof (load_sig_id now ev _ _ _ H) as E.
  destruct ps as [pent pkind psend pstart pattrs pbody]. cbn in H. bind_inv H.
  destruct pent as [e|]; [|discriminate]. unfold psig_key in E; cbn in E. cbn. rewrite E. eauto.
Qed.

(* everything below a loaded signal was registered for the duplicate check *)
Lemma load_sig_ids_incl : forall ps lim s, load_sig now ev lim ps = Ok s -> incl (sig_ids s) (psig_ids ps).
Proof.
  induction ps using psig_ind'; intros lim s Hl.
  - destruct (psig_ids_head _ _ _ Hl) as (tl & Etl).
    cbn in Hl. bind_inv Hl.
    destruct b as [|t u|en|? ? ? ? ?]; try discriminate; try contradiction.
    + destruct (negb _); [discriminate|]. destruct (find_key type_key t _); [|discriminate].
      destruct (_ && _); [discriminate|]. bind_inv Hl. inversion Hl; subst. rewrite Etl.
      intros x [<-|[]]. apply in_eq.
    + destruct (negb _); [discriminate|]. destruct (find_key enum_key en _); [|discriminate].
      bind_inv Hl. inversion Hl; subst. rewrite Etl. intros x [<-|[]]. apply in_eq.
  - destruct (psig_ids_head _ _ _ Hl) as (tl & Etl).
    assert (Etl' : tl = flat_map psig_ids (select sigs (first_flags (map psig_key sigs) []))).
    { cbn in Etl. destruct e as [e0|]; cbn in Etl.
      - rewrite flat_flagged_select in Etl. inversion Etl; reflexivity.
      - cbn in Hl. discriminate. }
    cbn in Hl. apply bind_ok in Hl. destruct Hl as (ent & Hent & Hl).
    destruct (negb _); [discriminate|].
    destruct (z >? lim); [discriminate|]. destruct (negb (Z.of_nat (List.length groups) =? c)); [discriminate|].
    destruct (c <? 0) eqn:E1; [discriminate|]. destruct (c =? 0) eqn:E2; [discriminate|].
    destruct (z <? 0) eqn:E3; [discriminate|]. destruct (z =? 0) eqn:E4; [discriminate|].
    apply bind_ok in Hl. destruct Hl as (children & Hchildren & Hl).
    apply bind_ok in Hl. destruct Hl as (stt & Hstt & Hl).
    apply bind_ok in Hl. destruct Hl as (asg & Hasg & Hl).
    inversion Hl; subst s; clear Hl.
    rewrite mapM_flagged_select in Hchildren. pose proof (mapM_ok _ _ _ Hchildren) as Hch.
    rewrite sig_ids_mux. rewrite Etl. intros x [<-|Hx]; [apply in_eq|]. right. subst tl.
    apply in_flat_map in Hx. destruct Hx as (g & Hg & Hx). apply in_flat_map in Hx. destruct Hx as (y & Hy & Hx).
    (* y is a child up to its position *)
    assert (Hnd : NoDup (map sig_id children)).
    { assert (E : map sig_id children = map psig_key (select sigs (first_flags (map psig_key sigs) []))).
      { clear - Hch. induction Hch; cbn; auto. f_equal; auto. eapply load_sig_id; eauto. }
      rewrite E. apply (select_first_flags_nodup psig_key sigs []). }
    assert (I : forall y, In y (List.concat (fst stt)) -> is_child children y).
    { eapply load_groups_is_child; [|exact Hstt]. cbn. intros y0 Hy0.
      assert (E0 : forall n, List.concat (repeat (@nil (bool * sig)) n) = []) by (induction n; cbn; auto).
      rewrite E0 in Hy0. contradiction. }
    destruct (I y) as (c0 & p & Hc0 & Ey); [apply concat_In; eauto|].
    rewrite Ey, sig_ids_set_pos in Hx.
    (* c0 comes from a selected saved signal *)
    rewrite Forall_forall in H.
    assert (G2 : forall l l', Forall2 (fun a b => load_sig now ev z a = Ok b) l l' ->
                              (forall q, In q l -> In q sigs) -> In c0 l' ->
                              exists q, In q l /\ incl (sig_ids c0) (psig_ids q)).
    { induction 1 as [|q y' l l' Hqy HF IHF]; intros Hsub Hin; [contradiction|].
      destruct Hin as [<-|Hin].
      - exists q; split; [apply in_eq|]. apply (H q (Hsub q (in_eq _ _)) z); auto.
      - destruct IHF as (q' & Hq' & Hi); auto. intros; apply Hsub; now right. exists q'; split; auto. now right. }
    destruct (G2 _ _ Hch) as (q & Hq & Hi); auto. { intros q Hq. eapply select_In; eauto. }
    apply in_flat_map. exists q; split; auto.
Qed.

End Ids.

(* ---- more list facts *)
Lemma Forall2_In_r : forall {A B} (R : A -> B -> Prop) l l' b,
  Forall2 R l l' -> In b l' -> exists a, In a l /\ R a b.
Proof.
  intros A B R l l' b H; induction H as [|a b' l l' Hab HF IH]; intros Hb; [contradiction|].
  destruct Hb as [<-|Hb]; [exists a; auto using in_eq|]. destruct (IH Hb) as (a' & Ha' & HR). exists a'; auto using in_cons.
Qed.

Lemma ForallOrdPairs_nodup_key : forall {A} (key : A -> string) (R : A -> A -> Prop) l,
  NoDup (map key l) -> (forall x y, In x l -> In y l -> key x <> key y -> R x y) -> ForallOrdPairs R l.
Proof.
  intros A key R l; induction l as [|a r IH]; intros Hnd HR; constructor.
  - inversion Hnd; subst. apply Forall_forall. intros b Hb. apply HR; auto using in_eq, in_cons.
    intros E. apply H1. rewrite E. now apply in_map.
  - inversion Hnd; subst. apply IH; auto. intros; apply HR; auto using in_cons.
Qed.

Lemma ForallOrdPairs_map : forall {A B} (f : A -> B) (R : B -> B -> Prop) l,
  ForallOrdPairs (fun a b => R (f a) (f b)) l -> ForallOrdPairs R (map f l).
Proof.
  intros A B f R l H; induction H; cbn; constructor; auto.
  apply Forall_forall. intros y Hy. apply in_map_iff in Hy. destruct Hy as (b & <- & Hb).
  rewrite Forall_forall in H; auto.
Qed.

Section TreeIds.
Variable now : time.
Variable ev : env.

Theorem load_sig_tree_ids : forall ps lim s,
  load_sig now ev lim ps = Ok s -> NoDup (psig_ids ps) -> tree_ids_okb s = true.
Proof.
  induction ps using psig_ind'; intros lim s Hl Hnd.
  - cbn in Hl. bind_inv Hl.
    destruct b as [|t u|en|? ? ? ? ?]; try discriminate; try contradiction.
    + destruct (negb _); [discriminate|]. destruct (find_key type_key t _); [|discriminate].
      destruct (_ && _); [discriminate|]. bind_inv Hl. inversion Hl; subst. reflexivity.
    + destruct (negb _); [discriminate|]. destruct (find_key enum_key en _); [|discriminate].
      bind_inv Hl. inversion Hl; subst. reflexivity.
  - destruct (psig_ids_head now ev _ _ _ Hl) as (tl & Etl).
    assert (Etl' : tl = flat_map psig_ids (select sigs (first_flags (map psig_key sigs) []))).
    { cbn in Etl. destruct e as [e0|]; cbn in Etl.
      - rewrite flat_flagged_select in Etl. inversion Etl; reflexivity.
      - cbn in Hl. discriminate. }
    rewrite Etl in Hnd. inversion Hnd as [|? ? Hhead Htl]; subst x l.
    set (S := select sigs (first_flags (map psig_key sigs) [])) in *.
    pose proof Hl as Hl0.
    cbn in Hl. apply bind_ok in Hl. destruct Hl as (ent & Hent & Hl).
    destruct (negb _); [discriminate|].
    destruct (z >? lim); [discriminate|]. destruct (negb (Z.of_nat (List.length groups) =? c)); [discriminate|].
    destruct (c <? 0) eqn:E1; [discriminate|]. destruct (c =? 0) eqn:E2; [discriminate|].
    destruct (z <? 0) eqn:E3; [discriminate|]. destruct (z =? 0) eqn:E4; [discriminate|].
    apply bind_ok in Hl. destruct Hl as (children & Hchildren & Hl).
    apply bind_ok in Hl. destruct Hl as (stt & Hstt & Hl).
    apply bind_ok in Hl. destruct Hl as (asg & Hasg & Hl).
    inversion Hl; subst s; clear Hl.
    rewrite mapM_flagged_select in Hchildren. fold S in Hchildren. pose proof (mapM_ok _ _ _ Hchildren) as Hch.
    assert (I : forall y, In y (List.concat (fst stt)) -> is_child children y).
    { eapply load_groups_is_child; [|exact Hstt]. cbn. intros y0 Hy0.
      assert (E0 : forall n, List.concat (repeat (@nil (bool * sig)) n) = []) by (induction n; cbn; auto).
      rewrite E0 in Hy0. contradiction. }
    rewrite Forall_forall in H.
    (* per child: its source *)
    assert (Hsrc : forall c0, In c0 children -> exists q, In q S /\ load_sig now ev z q = Ok c0).
    { intros c0 Hc0. eapply Forall2_In_r in Hch; eauto. }
    assert (Hsub : forall c0, In c0 children -> incl (sig_ids c0) tl).
    { intros c0 Hc0. destruct (Hsrc _ Hc0) as (q & Hq & Hlq). subst tl.
      intros x Hx. apply in_flat_map. exists q; split; auto. eapply load_sig_ids_incl; eauto. }
    assert (Hpairs : ForallOrdPairs (fun b b' => disjoint (sig_ids b) (sig_ids b')) children).
    { subst tl. eapply ForallOrdPairs_Forall2; [exact Hch | | apply NoDup_flat_map_pairs; exact Htl].
      intros q1 q2 b1 b2 Hab Hab' Hd. cbn in Hd, Hab, Hab'. eapply disjoint_incl; [exact Hd | |]; eapply load_sig_ids_incl; eassumption. }
    cbn [tree_ids_okb]. set (gs := fst stt) in *.
    assert (Hmc : forall y, In y (mux_children gs) -> In y (List.concat gs)).
    { intros y Hy. unfold mux_children in Hy. apply dedup_key_In in Hy. tauto. }
    repeat (apply andb_true_iff; split).
    + apply negb_true_iff. apply memb_false. intros C. apply in_flat_map in C.
      destruct C as (y & Hy & Hx). apply in_map_iff in Hy. destruct Hy as (y' & <- & Hy').
      destruct (I y' (Hmc _ Hy')) as (c0 & p & Hc0 & Ey). rewrite Ey, sig_ids_set_pos in Hx.
      apply Hhead. eapply Hsub; eauto.
    + apply pairwise_disjointb_iff. apply ForallOrdPairs_map. apply ForallOrdPairs_map.
      apply (ForallOrdPairs_nodup_key child_key).
      * unfold mux_children. apply dedup_key_NoDup.
      * intros x y Hx Hy Hne.
        destruct (I x (Hmc _ Hx)) as (cx & px & Hcx & Ex). destruct (I y (Hmc _ Hy)) as (cy & py & Hcy & Ey).
        rewrite Ex, Ey, !sig_ids_set_pos.
        destruct (ForallOrdPairs_In Hpairs cx cy Hcx Hcy) as [E|[D|D]]; auto.
        -- exfalso. apply Hne. unfold child_key. rewrite Ex, Ey, !sig_id_set_pos. now rewrite E.
        -- now apply disjoint_sym.
    + apply forallb_forall. intros g Hg. apply forallb_forall. intros y Hy.
      destruct (I y) as (c0 & p & Hc0 & Ey); [apply concat_In; eauto|].
      rewrite Ey, tree_ids_okb_set_pos.
      destruct (Hsrc _ Hc0) as (q & Hq & Hlq). apply (H q (select_In _ _ _ Hq) z); auto.
      subst tl. eapply NoDup_flat_map_elem; eauto.
Qed.

End TreeIds.
