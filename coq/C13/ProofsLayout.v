(* C13 — layouts: a verified insertion keeps a layout sorted, disjoint and in bounds. *)
From Coq Require Import ZArith List String Bool Lia.
From Acme.C12 Require Import Proto NetModel Load Lemmas.
Import ListNotations.
Open Scope Z_scope.

Lemma sig_size_set_pos : forall ev s p, sig_size ev (sig_set_pos s p) = sig_size ev s.
Proof. intros ev [h t u|h e|h c z g] p; reflexivity. Qed.

Lemma sig_pos_set_pos : forall s p, sig_pos (sig_set_pos s p) = p.
Proof. intros [h t u|h e|h c z g] p; reflexivity. Qed.

Lemma sig_id_set_pos : forall s p, sig_id (sig_set_pos s p) = sig_id s.
Proof. intros [h t u|h e|h c z g] p; reflexivity. Qed.

Lemma sig_name_set_pos : forall s p, sig_name (sig_set_pos s p) = sig_name s.
Proof. intros [h t u|h e|h c z g] p; reflexivity. Qed.

Lemma layout_okb_weaken : forall ev lsize l from from',
  from' <= from -> layout_okb ev lsize from l = true -> layout_okb ev lsize from' l = true.
Proof.
  intros ev lsize [|t r] from from' Hle H; cbn in *.
  - apply Z.leb_le in H. apply Z.leb_le. lia.
  - rewrite !andb_true_iff in *. destruct H as [[H1 H2] H3]. repeat split; auto.
    apply Z.leb_le in H1. apply Z.leb_le. lia.
Qed.

Lemma layout_insert_ok : forall ev lsize s pos l from,
  1 <= sig_size ev s -> from <= pos -> pos + sig_size ev s <= lsize ->
  layout_okb ev lsize from l = true ->
  layout_scan ev l pos (pos + sig_size ev s) = Ok tt ->
  layout_okb ev lsize from (layout_insert l s pos) = true.
Proof.
  intros ev lsize s pos l; induction l as [|t r IH]; intros from Hsz Hfrom Hend Hok Hscan; cbn in *.
  - rewrite sig_pos_set_pos, sig_size_set_pos.
    rewrite !andb_true_iff, !Z.leb_le. lia.
  - rewrite !andb_true_iff in Hok. destruct Hok as [[H1 H2] H3]. apply Z.leb_le in H1, H2.
    destruct (pos + sig_size ev s <=? sig_pos t) eqn:E1.
    + apply Z.leb_le in E1.
      destruct (sig_pos t >? pos) eqn:E2; [|rewrite Z.gtb_ltb in E2; apply Z.ltb_ge in E2; lia].
      cbn. rewrite sig_pos_set_pos, sig_size_set_pos.
      rewrite !andb_true_iff, !Z.leb_le. repeat split; try lia. exact H3.
    + destruct (pos >=? sig_pos t + sig_size ev t) eqn:E3; [|discriminate].
      apply Z.geb_le in E3.
      destruct (sig_pos t >? pos) eqn:E2; [apply Z.gtb_lt in E2; lia|].
      cbn. rewrite !andb_true_iff, !Z.leb_le. repeat split; try lia.
      apply IH; auto.
Qed.

Lemma layout_verify_insert_ok : forall ev lsize s pos l,
  1 <= sig_size ev s ->
  layout_okb ev lsize 0 l = true ->
  layout_verify ev lsize l s pos = Ok tt ->
  layout_okb ev lsize 0 (layout_insert l s pos) = true.
Proof.
  intros ev lsize s pos l Hsz Hok Hv. unfold layout_verify in Hv.
  destruct (pos <? 0) eqn:E1; [discriminate|]. destruct (sig_size ev s >? lsize) eqn:E2; [discriminate|].
  destruct (pos + sig_size ev s >? lsize) eqn:E3; [discriminate|].
  apply Z.ltb_ge in E1. rewrite Z.gtb_ltb in E3. apply Z.ltb_ge in E3.
  apply layout_insert_ok; auto.
Qed.

Lemma layout_insert_In : forall l s pos x, In x (layout_insert l s pos) <-> x = sig_set_pos s pos \/ In x l.
Proof.
  induction l as [|t r IH]; intros s pos x; cbn.
  - intuition.
  - destruct (sig_pos t >? pos); cbn; [intuition|]. rewrite IH. intuition.
Qed.
