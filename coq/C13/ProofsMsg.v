(* C13 — a successfully loaded message is well-formed. *)
From Coq Require Import ZArith List String Bool Lia.
From Acme.C12 Require Import Proto NetModel Load Lemmas.
From Acme.C13 Require Import ProofsTables ProofsLayout ProofsMux ProofsSig ProofsIds.
Import ListNotations.
Open Scope Z_scope.

(* foldM with the processed prefix visible to the invariant *)
Lemma foldM_inv_prefix : forall {A S} (f : S -> A -> result S) (P : list A -> S -> Prop) l s0 s,
  (forall pre a post s1 s2, l = pre ++ a :: post -> P pre s1 -> f s1 a = Ok s2 -> P (pre ++ [a]) s2) ->
  P [] s0 -> foldM f s0 l = Ok s -> P l s.
Proof.
  intros A S f P l s0 s Hstep H0 H.
  assert (G : forall post pre s1, l = pre ++ post -> P pre s1 -> foldM f s1 post = Ok s -> P l s).
  { induction post as [|a r IH]; intros pre s1 El Hp Hf; cbn in Hf.
    - inversion Hf; subst. now rewrite app_nil_r.
    - bind_inv Hf. apply (IH (pre ++ [a]) a0); auto.
      + now rewrite <- app_assoc.
      + eapply Hstep; eauto. }
  apply (G l [] s0); auto.
Qed.

(* ---- names *)
Definition name_inj (l : list sig) : Prop :=
  forall a b, In a l -> In b l -> sig_name a = sig_name b -> sig_id a = sig_id b.

Lemma names_clash_false : forall t others,
  names_clash t others = false ->
  forall a b, In a t -> In b (t ++ others) -> sig_name a = sig_name b -> sig_id a = sig_id b.
Proof.
  intros t others H a b Ha Hb Hn. unfold names_clash in H.
  destruct (string_dec (sig_id a) (sig_id b)) as [E|N]; auto. exfalso.
  assert (existsb (fun a0 => existsb (fun b0 => String.eqb (sig_name a0) (sig_name b0) && negb (String.eqb (sig_id a0) (sig_id b0))) (t ++ others)) t = true).
  { apply existsb_exists. exists a; split; auto. apply existsb_exists. exists b; split; auto.
    rewrite Hn, String.eqb_refl. cbn. apply negb_true_iff. now apply String.eqb_neq. }
  congruence.
Qed.

Lemma sig_flat_set_pos : forall s p,
  sig_flat (sig_set_pos s p) = sig_set_pos s p :: tl (sig_flat s).
Proof. intros [h t u|h e|h c z g] p; reflexivity. Qed.

Lemma sig_flat_head : forall s, sig_flat s = s :: tl (sig_flat s).
Proof. intros [h t u|h e|h c z g]; reflexivity. Qed.

(* an element of the flattened tree of the moved signal has the name and id of an element of the original *)
Lemma sig_flat_set_pos_In : forall s p x,
  In x (sig_flat (sig_set_pos s p)) -> exists y, In y (sig_flat s) /\ sig_name x = sig_name y /\ sig_id x = sig_id y.
Proof.
  intros s p x H. rewrite sig_flat_set_pos in H. destruct H as [<-|H].
  - exists s. rewrite sig_name_set_pos, sig_id_set_pos. split; auto. rewrite sig_flat_head. apply in_eq.
  - exists x. split; auto. rewrite sig_flat_head. now right.
Qed.

Lemma flat_insert_In : forall cur s pos x,
  In x (flat_map sig_flat (layout_insert cur s pos)) <->
  In x (sig_flat (sig_set_pos s pos)) \/ In x (flat_map sig_flat cur).
Proof.
  intros cur s pos x. rewrite !in_flat_map. split.
  - intros (y & Hy & Hx). apply layout_insert_In in Hy. destruct Hy as [->|Hy]; [left; auto | right; eauto].
  - intros [H|(y & Hy & Hx)].
    + exists (sig_set_pos s pos). split; auto. apply layout_insert_In; auto.
    + exists y. split; auto. apply layout_insert_In; auto.
Qed.

Lemma name_inj_insert : forall cur s pos,
  name_inj (flat_map sig_flat cur) ->
  memb (sig_name s) (map sig_name (flat_map sig_flat cur)) = false ->
  names_clash (sig_flat s) (flat_map sig_flat cur) = false ->
  name_inj (flat_map sig_flat (layout_insert cur s pos)).
Proof.
  intros cur s pos Hinj Hn Hc a b Ha Hb E.
  apply flat_insert_In in Ha. apply flat_insert_In in Hb.
  pose proof (names_clash_false _ _ Hc) as Hcl.
  destruct Ha as [Ha|Ha], Hb as [Hb|Hb].
  - apply sig_flat_set_pos_In in Ha. apply sig_flat_set_pos_In in Hb.
    destruct Ha as (a' & Ha' & Na & Ia), Hb as (b' & Hb' & Nb & Ib).
    rewrite Ia, Ib. apply Hcl; auto. apply in_or_app; auto. congruence.
  - apply sig_flat_set_pos_In in Ha. destruct Ha as (a' & Ha' & Na & Ia).
    rewrite Ia. apply Hcl; auto. apply in_or_app; auto. congruence.
  - apply sig_flat_set_pos_In in Hb. destruct Hb as (b' & Hb' & Nb & Ib).
    rewrite Ib. symmetry. apply Hcl; auto. apply in_or_app; auto. congruence.
  - apply Hinj; auto.
Qed.

Lemma NoDup_map_weaker : forall {A} (f g : A -> string) l,
  NoDup (map f l) -> (forall a b, In a l -> In b l -> g a = g b -> f a = f b) -> NoDup (map g l).
Proof.
  intros A f g l; induction l as [|a r IH]; intros Hnd Hfg; cbn; constructor.
  - inversion Hnd; subst. intros C. apply in_map_iff in C. destruct C as (b & Eb & Hb).
    apply H1. rewrite (Hfg a b); auto using in_eq, in_cons. now apply in_map.
  - inversion Hnd; subst. apply IH; auto. intros; apply Hfg; auto using in_cons.
Qed.

Lemma name_inj_nodup : forall l, name_inj l -> nodupb (map sig_name (dedup_key sig_id l [])) = true.
Proof.
  intros l H. apply nodupb_NoDup. apply (NoDup_map_weaker sig_id sig_name).
  - apply dedup_key_NoDup.
  - intros a b Ha Hb E. apply dedup_key_In in Ha. apply dedup_key_In in Hb. apply H; tauto.
Qed.

(* ---- ids through layout insertion *)
Lemma layout_insert_ids_nodup : forall l s pos,
  NoDup (map sig_id l) -> ~ In (sig_id s) (map sig_id l) -> NoDup (map sig_id (layout_insert l s pos)).
Proof.
  induction l as [|t r IH]; intros s pos Hnd Hn; cbn.
  - rewrite sig_id_set_pos. constructor; [auto | constructor].
  - destruct (sig_pos t >? pos); cbn.
    + rewrite sig_id_set_pos. constructor; auto.
    + inversion Hnd; subst. constructor.
      * intros C. apply in_map_iff in C. destruct C as (x & Ex & Hx). apply layout_insert_In in Hx.
        destruct Hx as [->|Hx].
        -- rewrite sig_id_set_pos in Ex. apply Hn. rewrite Ex. apply in_eq.
        -- apply H1. rewrite <- Ex. now apply in_map.
      * apply IH; auto. intros C; apply Hn; now right.
Qed.

(* ---- receivers *)
Lemma receiver_put_In : forall l r x, In x (receiver_put l r) -> x = r \/ In x l.
Proof.
  induction l as [|b q IH]; intros r x H; cbn in H.
  - destruct H as [<-|[]]; auto.
  - destruct (String.eqb (fst b) (fst r)).
    + destruct H as [<-|H]; auto. right; right; auto.
    + destruct H as [<-|H]; [right; left; auto|]. destruct (IH _ _ H); auto. right; right; auto.
Qed.

Lemma receiver_put_keys : forall l r,
  map fst (receiver_put l r) = if memb (fst r) (map fst l) then map fst l else map fst l ++ [fst r].
Proof.
  induction l as [|b q IH]; intros r; cbn; auto.
  destruct (String.eqb (fst b) (fst r)) eqn:E; cbn.
  - apply String.eqb_eq in E. rewrite E, String.eqb_refl. reflexivity.
  - rewrite String.eqb_sym, E. cbn. rewrite IH. unfold memb. destruct (existsb _ _); reflexivity.
Qed.

Definition recs_ok (ev : env) (sender : string * Z) (l : list (string * Z)) : Prop :=
  forallb (receiver_okb ev) l = true /\ nodupb (map fst l) = true /\
  existsb (fun r => String.eqb (fst r) (fst sender) && (snd r =? snd sender)) l = false.

Lemma load_receiver_ok : forall ev sender cur pr cur',
  recs_ok ev sender cur -> load_receiver ev sender cur pr = Ok cur' -> recs_ok ev sender cur'.
Proof.
  intros ev sender cur pr cur' (H1 & H2 & H3) H. unfold load_receiver in H.
  destruct (find_key node_key (prc_node pr) (ev_nodes ev)) as [nd|] eqn:F; [|discriminate].
  destruct (prc_number pr <? 0) eqn:E1; [discriminate|]. destruct (prc_number pr >=? nd_ifcount nd) eqn:E2; [discriminate|].
  destruct (String.eqb (prc_node pr) (fst sender) && (prc_number pr =? snd sender)) eqn:E3; [discriminate|].
  inversion H; subst; clear H. repeat split.
  - apply forallb_forall. intros x Hx. apply receiver_put_In in Hx. destruct Hx as [->|Hx].
    + unfold receiver_okb; cbn. rewrite F. apply andb_true_iff. split.
      * apply Z.leb_le. apply Z.ltb_ge in E1. lia.
      * apply Z.ltb_lt. rewrite Z.geb_leb in E2. apply Z.leb_gt in E2. lia.
    + rewrite forallb_forall in H1; auto.
  - rewrite receiver_put_keys. destruct (memb _ _) eqn:E; auto. apply nodupb_snoc; auto.
  - destruct (existsb _ (receiver_put _ _)) eqn:E; auto. apply existsb_exists in E.
    destruct E as (x & Hx & Ex). apply receiver_put_In in Hx. destruct Hx as [->|Hx].
    + cbn in Ex. congruence.
    + assert (existsb (fun r => String.eqb (fst r) (fst sender) && (snd r =? snd sender)) cur = true)
        by (apply existsb_exists; eauto). congruence.
Qed.

Section Msg.
Variable now : time.
Variable ev : env.
Hypothesis Htypes : env_types_ok ev.

(* invariant of the loop over the saved signals of a message *)
Record sigs_inv (bits : Z) (pre : list PSignal) (cur : list sig) : Prop := {
  si_layout : layout_okb ev bits 0 cur = true;
  si_okb : forall x, In x cur -> sig_okb ev x = true;
  si_names : name_inj (flat_map sig_flat cur);
  si_incl : forall x, In x cur -> incl (sig_ids x) (flat_map psig_ids pre);
  si_nodup : NoDup (map sig_id cur);
  si_tree : forall x, In x cur -> tree_ids_okb x = true
}.

Lemma sig_id_in_ids : forall s, In (sig_id s) (sig_ids s).
Proof. intros s. unfold sig_ids. rewrite sig_flat_head. apply in_eq. Qed.

Lemma load_msg_signals_inv : forall bits sigmap psigs sigs,
  0 <= bits ->
  NoDup (flat_map psig_ids psigs) ->
  foldM (load_msg_signal now ev bits sigmap) [] psigs = Ok sigs ->
  sigs_inv bits psigs sigs /\
  ForallOrdPairs (fun a b => disjoint (sig_ids a) (sig_ids b)) sigs.
Proof.
  intros bits sigmap psigs sigs Hbits Hnd H.
  assert (G : sigs_inv bits psigs sigs /\
              (forall x y, In x sigs -> In y sigs -> sig_id x <> sig_id y -> disjoint (sig_ids x) (sig_ids y))).
  { eapply (foldM_inv_prefix _ (fun pre cur => sigs_inv bits pre cur /\
              (forall x y, In x cur -> In y cur -> sig_id x <> sig_id y -> disjoint (sig_ids x) (sig_ids y))));
      [| |exact H].
    - intros pre ps post cur cur' El [I Hd] Hstep. unfold load_msg_signal in Hstep.
      apply bind_ok in Hstep. destruct Hstep as (s & Hs & Hstep).
      destruct (assoc_pos (sig_id s) sigmap) as [pos|]; [|discriminate].
      unfold msg_insert_signal in Hstep.
      destruct (memb (sig_name s) _) eqn:Hn1; [discriminate|].
      destruct (names_clash _ _) eqn:Hn2; [discriminate|].
      apply bind_ok in Hstep. destruct Hstep as ([] & Hv & Hstep). inversion Hstep; subst cur'; clear Hstep.
      destruct (load_sig_ok now ev Htypes _ _ _ Hs) as [Hokb Hsize].
      pose proof (load_sig_ids_incl now ev _ _ _ Hs) as Hincl.
      rewrite El in Hnd. rewrite flat_map_app in Hnd. cbn in Hnd.
      assert (Hps : NoDup (psig_ids ps)) by (apply NoDup_app_r in Hnd; apply NoDup_app_l in Hnd; auto).
      assert (Hdis : disjoint (flat_map psig_ids pre) (psig_ids ps)).
      { apply NoDup_app_disjoint in Hnd. intros x Hx Hx'. apply (Hnd x Hx). apply in_or_app; auto. }
      destruct I as [I1 I2 I3 I4 I5 I6].
      assert (Hfresh : ~ In (sig_id s) (map sig_id cur)).
      { intros C. apply in_map_iff in C. destruct C as (x & Ex & Hx).
        apply (Hdis (sig_id s)); [apply (I4 x Hx); rewrite <- Ex; apply sig_id_in_ids | apply Hincl; apply sig_id_in_ids]. }
      split; [constructor|].
      + apply layout_verify_insert_ok; auto.
      + intros x Hx. apply layout_insert_In in Hx. destruct Hx as [->|Hx]; auto. now rewrite sig_okb_set_pos.
      + apply name_inj_insert; auto.
      + intros x Hx. rewrite flat_map_app. apply layout_insert_In in Hx. destruct Hx as [->|Hx].
        * rewrite sig_ids_set_pos. cbn. rewrite app_nil_r. intros y Hy. apply in_or_app; right; auto.
        * intros y Hy. apply in_or_app; left. eapply I4; eauto.
      + apply layout_insert_ids_nodup; auto.
      + intros x Hx. apply layout_insert_In in Hx. destruct Hx as [->|Hx]; auto.
        rewrite tree_ids_okb_set_pos. eapply load_sig_tree_ids; eauto.
      + intros x y Hx Hy Hne. apply layout_insert_In in Hx. apply layout_insert_In in Hy.
        destruct Hx as [->|Hx], Hy as [->|Hy].
        * exfalso; auto.
        * rewrite sig_ids_set_pos. apply disjoint_sym. eapply disjoint_incl; [exact Hdis | apply I4; auto | auto].
        * rewrite sig_ids_set_pos. eapply disjoint_incl; [exact Hdis | apply I4; auto | auto].
        * apply Hd; auto.
    - split; [constructor|].
      + cbn. apply Z.leb_le; lia.
      + intros x Hx; destruct Hx.
      + intros a b Ha; destruct Ha.
      + intros x Hx; destruct Hx.
      + constructor.
      + intros x Hx; destruct Hx.
      + intros x y Hx; destruct Hx. }
  destruct G as [I Hd]. split; auto.
  apply (ForallOrdPairs_nodup_key sig_id); auto. apply (si_nodup _ _ _ I).
Qed.

Theorem load_msg_ok : forall sender pm m,
  NoDup (flat_map psig_ids (pm_signals pm)) ->
  0 <= pm_size pm ->
  load_msg now ev sender pm = Ok m ->
  msg_flat_okb ev sender m = true /\ msg_sigs_okb ev m = true.
Proof.
  intros sender pm m Hnd Hsz H. unfold load_msg in H.
  apply bind_ok in H. destruct H as (ent & Hent & H).
  destruct (pm_size pm >? 8); [discriminate|].
  apply bind_ok in H. destruct H as (sigs & Hsigs & H).
  apply bind_ok in H. destruct H as (recs & Hrecs & H).
  apply bind_ok in H. destruct H as (asg & Hasg & H).
  inversion H; subst m; clear H.
  split.
  - unfold msg_flat_okb; cbn.
    erewrite load_assigns_ok by eauto. cbn.
    assert (recs_ok ev sender recs) as (R1 & R2 & R3).
    { eapply (foldM_inv _ (recs_ok ev sender)); [| |exact Hrecs].
      - intros; eapply load_receiver_ok; eauto.
      - repeat split; reflexivity. }
    rewrite R1, R2, R3. destruct (pm_has_static pm); cbn; try rewrite Z.eqb_refl; reflexivity.
  - assert (Hb : 0 <= pm_size pm * 8) by lia.
    destruct (load_msg_signals_inv _ _ _ _ Hb Hnd Hsigs) as [I Hpairs].
    destruct I as [I1 I2 I3 I4 I5 I6].
    unfold msg_sigs_okb; cbn. rewrite I1. cbn.
    repeat (apply andb_true_iff; split).
    + apply forallb_forall; auto.
    + unfold msg_sigs; cbn. apply name_inj_nodup; auto.
    + apply pairwise_disjointb_iff. apply ForallOrdPairs_map. exact Hpairs.
    + apply forallb_forall; auto.
Qed.

End Msg.
