(* C13 — the multiplexer part of the loader: the groups built by mux_load_groups satisfy the
   group invariant (layouts valid, shared occurrences equal, fixed members in every group,
   names and ids of the members distinct). *)
From Coq Require Import ZArith List String Bool Lia.
From Acme.C12 Require Import Proto NetModel Load Lemmas.
From Acme.C13 Require Import ProofsLayout.
Import ListNotations.
Open Scope Z_scope.

(* ---- group_insert / update_nth *)
Lemma group_insert_In : forall fx c pos g x,
  In x (group_insert fx c pos g) <-> x = (fx, sig_set_pos c pos) \/ In x g.
Proof.
  intros fx c pos g; induction g as [|t r IH]; intros x; cbn.
  - intuition.
  - destruct (sig_pos (snd t) >? pos); cbn; [intuition|]. fold (group_insert fx c pos r). rewrite IH. intuition.
Qed.

Lemma group_insert_snd : forall fx c pos g,
  map snd (group_insert fx c pos g) = layout_insert (map snd g) c pos.
Proof.
  intros fx c pos g; induction g as [|t r IH]; cbn; auto.
  destruct (sig_pos (snd t) >? pos); cbn; auto. fold (group_insert fx c pos r). now rewrite IH.
Qed.

Lemma update_nth_length : forall {A} n (f : A -> A) l, List.length (update_nth n f l) = List.length l.
Proof. intros A n f l; revert n; induction l as [|a r IH]; intros [|n]; cbn; auto. Qed.

Lemma update_nth_In : forall {A} n (f : A -> A) l x,
  In x (update_nth n f l) -> In x l \/ (exists a, nth_error l n = Some a /\ x = f a).
Proof.
  intros A n f l; revert n; induction l as [|a r IH]; intros [|n] x H; cbn in *; try contradiction.
  - destruct H as [<-|H]; [right; eauto | left; auto].
  - destruct H as [<-|H]; [left; auto|]. destruct (IH _ _ H) as [H1|H1]; auto.
Qed.

Lemma update_nth_concat_In : forall {A} n (f : list A -> list A) l x,
  (forall g y, In y g -> In y (f g)) ->
  In x (List.concat (update_nth n f l)) ->
  In x (List.concat l) \/ (exists g, nth_error l n = Some g /\ In x (f g)).
Proof.
  intros A n f l x Hf; revert n; induction l as [|a r IH]; intros [|n] H; cbn in *; try contradiction.
  - apply in_app_or in H. destruct H as [H|H]; [right; eauto | left; apply in_or_app; auto].
  - apply in_app_or in H. destruct H as [H|H]; [left; apply in_or_app; auto|].
    destruct (IH _ H) as [H1|H1]; [left; apply in_or_app; auto | right; auto].
Qed.

Lemma update_nth_concat_mono : forall {A} n (f : list A -> list A) l x,
  (forall g y, In y g -> In y (f g)) -> In x (List.concat l) -> In x (List.concat (update_nth n f l)).
Proof.
  intros A n f l x Hf; revert n; induction l as [|a r IH]; intros [|n] H; cbn in *; auto.
  - apply in_app_or in H. apply in_or_app. destruct H; auto.
  - apply in_app_or in H. apply in_or_app. destruct H; auto.
Qed.

Lemma update_nth_hit : forall {A} n (f : A -> A) l a,
  nth_error l n = Some a -> In (f a) (update_nth n f l).
Proof.
  intros A n f l; revert n; induction l as [|b r IH]; intros [|n] a H; cbn in *; try discriminate.
  - inversion H; auto.
  - right; eauto.
Qed.

Lemma nth_error_nth_default : forall {A} (l : list A) n d a, nth_error l n = Some a -> nth n l d = a.
Proof. intros A l; induction l as [|b r IH]; intros [|n] d a H; cbn in *; try discriminate; [inversion H; auto | eauto]. Qed.

Lemma concat_In : forall {A} (l : list (list A)) x, In x (List.concat l) <-> exists g, In g l /\ In x g.
Proof. intros; apply in_concat. Qed.

(* ---------------------------------------------------------------- the group invariant *)
Section GroupInv.
Variable ev : env.
Variable children : list sig.
Variable count gsize : Z.

Hypothesis children_nodup : NoDup (map sig_id children).
Hypothesis children_size : forall c, In c children -> 1 <= sig_size ev c.
Hypothesis gsize_pos : 1 <= gsize.

Definition is_child (x : bool * sig) : Prop := exists c0 p, In c0 children /\ snd x = sig_set_pos c0 p.

Record ginv (gs : groups_t) : Prop := {
  gi_len : List.length gs = Z.to_nat count;
  gi_child : forall x, In x (List.concat gs) -> is_child x;
  gi_layout : forall g, In g gs -> layout_okb ev gsize 0 (map snd g) = true;
  gi_copies : forall x y, In x (List.concat gs) -> In y (List.concat gs) -> child_key x = child_key y -> x = y;
  gi_fixed : forall x, In x (List.concat gs) -> fst x = true -> forall g, In g gs -> In x g;
  gi_names : forall x y, In x (List.concat gs) -> In y (List.concat gs) ->
                         sig_name (snd x) = sig_name (snd y) -> child_key x = child_key y
}.

Lemma ginv_init : ginv (repeat [] (Z.to_nat count)).
Proof.
  assert (E : forall n, List.concat (repeat (@nil (bool * sig)) n) = []) by (induction n; cbn; auto).
  constructor; try (intros x; rewrite E; contradiction); try (intros x y; rewrite E; contradiction).
  - apply repeat_length.
  - intros g H. apply repeat_spec in H. subst. cbn. apply Z.leb_le. lia.
Qed.

Lemma name_clash_false : forall gs c,
  mux_name_clash gs c = false ->
  forall d, In d (List.concat gs) -> sig_name (snd d) = sig_name c -> sig_id (snd d) = sig_id c.
Proof.
  intros gs c H d Hd Hn. unfold mux_name_clash in H.
  destruct (string_dec (sig_id (snd d)) (sig_id c)) as [E|N]; auto.
  exfalso. assert (existsb (fun d0 : bool * sig => String.eqb (sig_name (snd d0)) (sig_name c) && negb (String.eqb (sig_id (snd d0)) (sig_id c))) (List.concat gs) = true).
  { apply existsb_exists. exists d. split; auto. rewrite Hn, String.eqb_refl. cbn.
    apply negb_true_iff. now apply String.eqb_neq. }
  congruence.
Qed.

Lemma foldM_verify_all : forall (gs : groups_t) c pos,
  foldM (fun (_ : unit) (g : list (bool * sig)) => layout_verify ev gsize (map snd g) c pos) tt gs = Ok tt ->
  forall g, In g gs -> layout_verify ev gsize (map snd g) c pos = Ok tt.
Proof.
  induction gs as [|a r IH]; intros c pos H g Hg; cbn in *; [contradiction|].
  bind_inv H. destruct a0. destruct Hg as [<-|Hg]; auto.
Qed.

Lemma child_key_new : forall fx c pos, child_key (fx, sig_set_pos c pos) = sig_id c.
Proof. intros. unfold child_key; cbn. apply sig_id_set_pos. Qed.

Lemma ids_not_in : forall (gs : groups_t) c,
  memb (sig_id c) (map child_key (List.concat gs)) = false ->
  forall d, In d (List.concat gs) -> child_key d <> sig_id c.
Proof.
  intros gs c H d Hd E. apply memb_false in H. apply H. rewrite <- E. now apply in_map.
Qed.

(* InsertSignal(signal, startBit): a fixed member *)
Lemma insert_fixed_inv : forall gs c pos gs',
  ginv gs -> In c children ->
  mux_insert_fixed ev gsize gs c pos = Ok gs' -> ginv gs'.
Proof.
  intros gs c pos gs' I Hc H. unfold mux_insert_fixed in H.
  destruct (mux_name_clash gs c) eqn:Hn; [discriminate|].
  destruct (memb (sig_id c) (map child_key (List.concat gs))) eqn:Hm; [discriminate|].
  bind_inv H. inversion H; subst; clear H. destruct a.
  pose proof (foldM_verify_all _ _ _ Ha) as Hv.
  pose proof (ids_not_in _ _ Hm) as Hfresh.
  set (x0 := (true, sig_set_pos c pos)).
  assert (Hin : forall x, In x (List.concat (map (group_insert true c pos) gs)) -> x = x0 \/ In x (List.concat gs)).
  { intros x Hx. apply concat_In in Hx. destruct Hx as (g' & Hg' & Hx).
    apply in_map_iff in Hg'. destruct Hg' as (g & <- & Hg). apply group_insert_In in Hx.
    destruct Hx as [->|Hx]; auto. right. apply concat_In; eauto. }
  destruct I as [I1 I2 I3 I4 I5 I6]. constructor.
  - now rewrite map_length.
  - intros x Hx. destruct (Hin _ Hx) as [->|Hx']; auto. exists c, pos; auto.
  - intros g' Hg'. apply in_map_iff in Hg'. destruct Hg' as (g & <- & Hg).
    rewrite group_insert_snd. apply layout_verify_insert_ok; auto.
  - intros x y Hx Hy E. destruct (Hin _ Hx) as [->|Hx'], (Hin _ Hy) as [->|Hy']; auto.
    + exfalso. unfold x0 in E. rewrite child_key_new in E. eapply Hfresh; eauto.
    + exfalso. unfold x0 in E. rewrite child_key_new in E. eapply Hfresh; eauto.
  - intros x Hx Hfx g' Hg'. apply in_map_iff in Hg'. destruct Hg' as (g & <- & Hg).
    apply group_insert_In. destruct (Hin _ Hx) as [->|Hx']; auto.
  - intros x y Hx Hy E. destruct (Hin _ Hx) as [->|Hx'], (Hin _ Hy) as [->|Hy']; auto.
    + unfold x0 in *. rewrite child_key_new. cbn in E. rewrite sig_name_set_pos in E.
      symmetry. eapply name_clash_false; eauto.
    + unfold x0 in *. rewrite child_key_new. cbn in E. rewrite sig_name_set_pos in E.
      eapply name_clash_false; eauto.
Qed.

Lemma children_inj : forall c0 c, In c0 children -> In c children -> sig_id c0 = sig_id c -> c0 = c.
Proof.
  intros c0 c H0 H1 E.
  pose proof (find_key_In_nodup sig_id children c0 children_nodup H0) as F0.
  pose proof (find_key_In_nodup sig_id children c children_nodup H1) as F1.
  rewrite E in F0. congruence.
Qed.

(* InsertSignal(signal, startBit, groupID) *)
Lemma insert_group_inv : forall gs c pos g gs',
  ginv gs -> In c children ->
  mux_insert_group ev count gsize gs c pos g = Ok gs' -> ginv gs'.
Proof.
  intros gs c pos g gs' I Hc H. unfold mux_insert_group in H.
  destruct (mux_name_clash gs c) eqn:Hn; [discriminate|].
  destruct (g <? 0) eqn:Hg0; [discriminate|]. destruct (g >=? count) eqn:Hg1; [discriminate|].
  apply Z.ltb_ge in Hg0. rewrite Z.geb_leb in Hg1. apply Z.leb_gt in Hg1.
  pose proof (gi_len _ I) as Hlen.
  assert (Hnth : exists G, nth_error gs (Z.to_nat g) = Some G).
  { destruct (nth_error gs (Z.to_nat g)) eqn:E; eauto. apply nth_error_None in E. lia. }
  destruct Hnth as (G & HG). rewrite (nth_error_nth_default _ _ [] _ HG) in H.
  assert (HGin : In G gs) by (eapply nth_error_In; eauto).
  set (x0 := (false, sig_set_pos c pos)).
  assert (Hstep : layout_verify ev gsize (map snd G) c pos = Ok tt ->
                  (forall y, In y (List.concat gs) -> child_key y = sig_id c -> y = x0) ->
                  ginv (update_nth (Z.to_nat g) (group_insert false c pos) gs)).
  { intros Hv Hsame.
    assert (Hmono : forall (g0 : list (bool * sig)) y, In y g0 -> In y (group_insert false c pos g0))
      by (intros; apply group_insert_In; auto).
    assert (Hin : forall x, In x (List.concat (update_nth (Z.to_nat g) (group_insert false c pos) gs)) ->
                            x = x0 \/ In x (List.concat gs)).
    { intros x Hx. apply update_nth_concat_In in Hx; auto. destruct Hx as [Hx|(G' & HG' & Hx)]; auto.
      apply group_insert_In in Hx. destruct Hx as [->|Hx]; auto. right. apply concat_In. exists G'. split; auto.
      eapply nth_error_In; eauto. }
    destruct I as [I1 I2 I3 I4 I5 I6]. constructor.
    - now rewrite update_nth_length.
    - intros x Hx. destruct (Hin _ Hx) as [->|Hx']; auto. exists c, pos; auto.
    - intros g' Hg'. apply update_nth_In in Hg'. destruct Hg' as [Hg'|(G' & HG' & ->)]; auto.
      rewrite HG in HG'. inversion HG'; subst G'. rewrite group_insert_snd.
      apply layout_verify_insert_ok; auto.
    - intros x y Hx Hy E. destruct (Hin _ Hx) as [->|Hx'], (Hin _ Hy) as [->|Hy']; auto.
      + symmetry. apply Hsame; auto. rewrite <- E. unfold x0. now rewrite child_key_new.
      + apply Hsame; auto. rewrite E. unfold x0. now rewrite child_key_new.
    - intros x Hx Hfx g' Hg'. destruct (Hin _ Hx) as [->|Hx']; [discriminate|].
      apply update_nth_In in Hg'. destruct Hg' as [Hg'|(G' & HG' & ->)]; auto.
      apply Hmono. apply I5; auto. eapply nth_error_In; eauto.
    - intros x y Hx Hy E. destruct (Hin _ Hx) as [->|Hx'], (Hin _ Hy) as [->|Hy']; auto.
      + unfold x0 in *. rewrite child_key_new. cbn in E. rewrite sig_name_set_pos in E.
        symmetry. eapply name_clash_false; eauto.
      + unfold x0 in *. rewrite child_key_new. cbn in E. rewrite sig_name_set_pos in E.
        eapply name_clash_false; eauto. }
  destruct (find_key child_key (sig_id c) (List.concat gs)) as [d|] eqn:F.
  - destruct (fst d) eqn:Hfd; [discriminate|].
    destruct (memb (sig_id c) (map child_key G)); [discriminate|].
    destruct (negb (pos =? sig_pos (snd d))) eqn:Hp; [discriminate|].
    apply negb_false_iff, Z.eqb_eq in Hp.
    bind_inv H. destruct a. inversion H; subst gs'. apply Hstep; auto.
    intros y Hy Ey. apply find_key_Some in F. destruct F as [Fd Fk].
    assert (y = d) by (apply (gi_copies _ I); auto; congruence). subst y.
    destruct (gi_child _ I d Fd) as (c0 & p & Hc0 & Hd).
    assert (c0 = c).
    { apply children_inj; auto. unfold child_key in Fk. rewrite Hd, sig_id_set_pos in Fk. exact Fk. }
    subst c0. assert (p = pos) by (rewrite Hp, Hd, sig_pos_set_pos; reflexivity). subst p.
    unfold x0. destruct d as [fd sd]; cbn in *. subst fd. f_equal. exact Hd.
  - bind_inv H. destruct a. inversion H; subst gs'. apply Hstep; auto.
    intros y Hy Ey. exfalso. apply find_key_None in F. apply F. rewrite <- Ey. now apply in_map.
Qed.

(* one payload ref of one group, and the whole loop *)
Lemma load_ref_inv : forall fixed g st r st',
  ginv (fst st) -> mux_load_ref ev count gsize children fixed g st r = Ok st' -> ginv (fst st').
Proof.
  intros fixed g [gs insf] [id pos] st' I H. cbn in *.
  destruct (find_key sig_id id children) as [c|] eqn:F; [|discriminate].
  apply find_key_Some in F. destruct F as [Fc _].
  destruct (memb id fixed).
  - destruct (memb id insf).
    + inversion H; subst; auto.
    + bind_inv H. inversion H; subst; cbn. eapply insert_fixed_inv; eauto.
  - bind_inv H. inversion H; subst; cbn. eapply insert_group_inv; eauto.
Qed.

Lemma load_groups_inv : forall fixed pgroups g st st',
  ginv (fst st) -> mux_load_groups ev count gsize children fixed g st pgroups = Ok st' -> ginv (fst st').
Proof.
  intros fixed pgroups; induction pgroups as [|refs r IH]; intros g st st' I H; cbn in H.
  - inversion H; subst; auto.
  - bind_inv H. eapply IH; [|exact H].
    eapply (foldM_inv _ (fun s => ginv (fst s))); [| |exact Ha]; auto.
    intros s x s' _ Hs Hx. eapply load_ref_inv; eauto.
Qed.

End GroupInv.

(* membership alone: every member of the groups is one of the loaded children, moved to a position *)
Lemma load_groups_is_child : forall ev c z children fixed pg g0 (st0 st' : groups_t * list string),
  (forall y, In y (List.concat (fst st0)) -> is_child children y) ->
  mux_load_groups ev c z children fixed g0 st0 pg = Ok st' ->
  forall y, In y (List.concat (fst st')) -> is_child children y.
Proof.
  intros ev c z children fixed pg; induction pg as [|refs r IHr]; intros g0 st0 st' H0 HH; cbn in HH.
  - inversion HH; subst; auto.
  - bind_inv HH. eapply IHr; [|exact HH].
    eapply (foldM_inv _ (fun s : groups_t * list string => forall y, In y (List.concat (fst s)) -> is_child children y)); [| exact H0 | exact Ha].
    intros [gs insf] [id pos] s' _ Hs Hstep. cbn in Hstep.
    destruct (find_key sig_id id children) as [c1|] eqn:F; [|discriminate].
    apply find_key_Some in F. destruct F as [Fc _]. cbn in Hs.
    destruct (memb id fixed).
    + destruct (memb id insf); [inversion Hstep; subst; auto|].
      bind_inv Hstep. inversion Hstep; subst; cbn. unfold mux_insert_fixed in Ha0.
      destruct (mux_name_clash gs c1); [discriminate|]. destruct (memb _ _); [discriminate|].
      bind_inv Ha0. inversion Ha0; subst. intros y Hy.
      apply concat_In in Hy. destruct Hy as (g' & Hg' & Hy). apply in_map_iff in Hg'.
      destruct Hg' as (g1 & <- & Hg1). apply group_insert_In in Hy. destruct Hy as [->|Hy].
      * exists c1, pos; auto.
      * apply Hs. apply concat_In; eauto.
    + bind_inv Hstep. inversion Hstep; subst; cbn. unfold mux_insert_group in Ha0.
      destruct (mux_name_clash gs c1); [discriminate|]. destruct (g0 <? 0); [discriminate|].
      destruct (g0 >=? c); [discriminate|].
      assert (Hupd : forall y, In y (List.concat (update_nth (Z.to_nat g0) (group_insert false c1 pos) gs)) -> is_child children y).
      { intros y Hy. apply update_nth_concat_In in Hy.
        - destruct Hy as [Hy|(G1 & HG1 & Hy)]; auto. apply group_insert_In in Hy. destruct Hy as [->|Hy].
          + exists c1, pos; auto.
          + apply Hs. apply concat_In. exists G1; split; auto. eapply nth_error_In; eauto.
        - intros; apply group_insert_In; auto. }
      destruct (find_key child_key (sig_id c1) (List.concat gs)) as [d|].
      * destruct (fst d); [discriminate|]. destruct (memb _ _); [discriminate|]. destruct (negb _); [discriminate|].
        bind_inv Ha0. inversion Ha0; subst; auto.
      * bind_inv Ha0. inversion Ha0; subst; auto.
Qed.
