(* C13 — interfaces, buses and the network: load_ok_wf. *)
From Coq Require Import ZArith List String Bool Lia.
From Acme.C12 Require Import Proto NetModel Load Lemmas.
From Acme.C13 Require Import ProofsTables ProofsLayout ProofsMux ProofsSig ProofsIds ProofsMsg.
Import ListNotations.
Open Scope Z_scope.

(* a fold that appends one element per step *)
Lemma foldM_append_Forall2 : forall {A B S} (f : S -> A -> result S) (proj : S -> list B) (R : A -> B -> Prop) l s0 s,
  (forall s1 a s2, In a l -> f s1 a = Ok s2 -> exists b, proj s2 = proj s1 ++ [b] /\ R a b) ->
  foldM f s0 l = Ok s -> exists bs, proj s = proj s0 ++ bs /\ Forall2 R l bs.
Proof.
  intros A B S f proj R l; induction l as [|a r IH]; intros s0 s Hstep H; cbn in H.
  - inversion H; subst. exists []. rewrite app_nil_r. split; auto.
  - bind_inv H. destruct (Hstep s0 a a0) as (b & Eb & Rb); auto using in_eq.
    destruct (IH a0 s) as (bs & Ebs & Fbs); auto. { intros; eapply Hstep; eauto using in_cons. }
    exists (b :: bs). split; [|constructor; auto]. rewrite Ebs, Eb, <- app_assoc. reflexivity.
Qed.

Lemma NoDup_app_intro : forall {A} (a b : list A),
  NoDup a -> NoDup b -> (forall x, In x a -> ~ In x b) -> NoDup (a ++ b).
Proof.
  induction a as [|x r IH]; intros b Ha Hb Hd; cbn; auto.
  inversion Ha; subst. constructor.
  - intros C. apply in_app_or in C. destruct C; [contradiction|]. eapply Hd; eauto using in_eq.
  - apply IH; auto. intros; apply Hd; auto using in_cons.
Qed.

Lemma NoDup_app_incl : forall (x1 x2 y1 y2 : list string),
  NoDup (x1 ++ x2) -> NoDup y1 -> NoDup y2 -> incl y1 x1 -> incl y2 x2 -> NoDup (y1 ++ y2).
Proof.
  intros x1 x2 y1 y2 H H1 H2 I1 I2. apply NoDup_app_intro; auto.
  intros x Hx Hx'. apply NoDup_app_disjoint in H. apply (H x); auto.
Qed.

Lemma NoDup_map_inv' : forall {A B} (f : A -> B) l, NoDup (map f l) -> NoDup l.
Proof. intros; eapply NoDup_map_inv; eauto. Qed.

(* flat_map over related lists *)
Lemma NoDup_flat_map_Forall2 : forall {A B} (f : A -> list string) (g : B -> list string) l l',
  Forall2 (fun a b => NoDup (g b) /\ incl (g b) (f a)) l l' ->
  NoDup (flat_map f l) -> NoDup (flat_map g l').
Proof.
  intros A B f g l l' H; induction H as [|a b l l' [H1 H2] HF IH]; intros Hnd; cbn in *; [constructor|].
  apply (NoDup_app_incl (f a) (flat_map f l)); auto.
  - apply IH. eapply NoDup_app_r; eauto.
  - clear - HF. induction HF as [|a0 b0 l0 l0' [_ H20] HF0 IH0]; cbn; [intros y []|].
    intros y Hy. apply in_app_or in Hy. apply in_or_app. destruct Hy; auto.
Qed.

Lemma incl_flat_map_Forall2 : forall {A B} (f : A -> list string) (g : B -> list string) l l',
  Forall2 (fun a b => incl (g b) (f a)) l l' -> incl (flat_map g l') (flat_map f l).
Proof.
  intros A B f g l l' H; induction H as [|a b l l' Hab HF IH]; cbn; [intros z []|].
  intros z Hz. apply in_app_or in Hz. apply in_or_app. destruct Hz; auto.
Qed.

Lemma flat_map_eq_Forall2 : forall {A B C} (f : A -> list C) (g : B -> list C) l l',
  Forall2 (fun a b => g b = f a) l l' -> flat_map g l' = flat_map f l.
Proof. intros A B C f g l l' H; induction H; cbn; auto. now rewrite H, IHForall2. Qed.

Lemma Forall2_impl : forall {A B} (R R' : A -> B -> Prop) l l',
  (forall a b, In a l -> In b l' -> R a b -> R' a b) -> Forall2 R l l' -> Forall2 R' l l'.
Proof.
  intros A B R R' l l' HRR H; induction H; constructor.
  - apply HRR; auto using in_eq.
  - apply IHForall2. intros; apply HRR; auto using in_cons.
Qed.

Lemma Forall2_flat_map : forall {A B C D} (R : A -> B -> Prop) (S : C -> D -> Prop) (f : A -> list C) (g : B -> list D) l l',
  Forall2 R l l' -> (forall a b, R a b -> Forall2 S (f a) (g b)) -> Forall2 S (flat_map f l) (flat_map g l').
Proof.
  intros A B C D R S f g l l' H HS; induction H; cbn; [constructor|]. apply Forall2_app; auto.
Qed.

Definition ikey (i : iface) : string * Z := (if_node i, if_number i).

Section Net.
Variable now : time.
Variable ev : env.
Hypothesis Htypes : env_types_ok ev.

Definition pmsg_pre (pm : PMessage) : Prop := NoDup (flat_map psig_ids (pm_signals pm)) /\ 0 <= pm_size pm.

Lemma load_entity_id : forall pe e, load_entity now pe = Ok e -> pent_ids pe = [e_id e].
Proof. intros [x|] e H; cbn in H; [inversion H; reflexivity | discriminate]. Qed.

(* ---------------------------------------------------------------- interfaces *)
Record iface_inv (sender : string * Z) (cur : list msg) : Prop := {
  ii_msgs : forall m, In m cur -> msg_okb msg_sigs_okb ev sender m = true;
  ii_names : nodupb (map (fun m => e_name (m_ent m)) cur) = true;
  ii_ids : znodupb (map m_id (filter (fun m => negb (m_has_static m)) cur)) = true;
  ii_static : NoDup (map m_static (filter m_has_static cur))
}.

Lemma add_sent_message_inv : forall sender cur m cur',
  iface_inv sender cur -> msg_okb msg_sigs_okb ev sender m = true ->
  add_sent_message cur m = Ok cur' -> iface_inv sender cur' /\ cur' = cur ++ [m].
Proof.
  intros sender cur m cur' [I1 I2 I3 I4] Hm H. unfold add_sent_message in H.
  destruct (memb _ _) eqn:E1; [discriminate|].
  assert (Hnames : nodupb (map (fun m0 => e_name (m_ent m0)) (cur ++ [m])) = true)
    by (rewrite map_app; apply nodupb_snoc; auto).
  assert (Hmsgs : forall m0, In m0 (cur ++ [m]) -> msg_okb msg_sigs_okb ev sender m0 = true).
  { intros m0 Hm0. apply in_app_or in Hm0. destruct Hm0 as [?|[<-|[]]]; auto. }
  destruct (m_has_static m) eqn:Hs.
  - destruct (existsb _ cur) eqn:E2; [discriminate|]. inversion H; subst; clear H. split; auto. constructor; auto.
    + rewrite filter_app. cbn. rewrite Hs. cbn. now rewrite app_nil_r.
    + rewrite filter_app. cbn. rewrite Hs. rewrite map_app. cbn. apply NoDup_snoc; auto.
      intros C. apply in_map_iff in C. destruct C as (x & Ex & Hx). apply filter_In in Hx. destruct Hx as [Hx Hxs].
      assert (existsb (fun x0 => m_has_static x0 && (m_static x0 =? m_static m)) cur = true).
      { apply existsb_exists. exists x. split; auto. rewrite Hxs, Ex, Z.eqb_refl. reflexivity. }
      congruence.
  - destruct (existsb _ cur) eqn:E2; [discriminate|]. inversion H; subst; clear H. split; auto. constructor; auto.
    + rewrite filter_app. cbn. rewrite Hs. cbn. rewrite map_app. cbn. apply znodupb_snoc; auto.
      destruct (existsb (Z.eqb (m_id m)) _) eqn:E3; auto. apply zmem_In in E3.
      apply in_map_iff in E3. destruct E3 as (x & Ex & Hx). apply filter_In in Hx. destruct Hx as [Hx Hxs].
      assert (existsb (fun x0 => negb (m_has_static x0) && (m_id x0 =? m_id m)) cur = true).
      { apply existsb_exists. exists x. split; auto. rewrite Hxs, Ex, Z.eqb_refl. reflexivity. }
      congruence.
    + rewrite filter_app. cbn. rewrite Hs. now rewrite app_nil_r.
Qed.

Lemma load_iface_ok : forall attached pi i,
  (forall pm, In pm (pif_msgs pi) -> pmsg_pre pm) ->
  load_iface now ev attached pi = Ok i ->
  ikey i = (pif_node pi, pif_number pi) /\ ~ In (ikey i) attached /\
  receiver_okb ev (ikey i) = true /\ iface_inv (ikey i) (if_msgs i) /\
  Forall2 (fun pm m => load_msg now ev (ikey i) pm = Ok m) (pif_msgs pi) (if_msgs i).
Proof.
  intros attached pi i Hpre H. unfold load_iface in H.
  destruct (find_key node_key (pif_node pi) (ev_nodes ev)) as [nd|] eqn:F; [|discriminate].
  destruct (pif_number pi <? 0) eqn:E1; [discriminate|]. destruct (pif_number pi >=? nd_ifcount nd) eqn:E2; [discriminate|].
  destruct (existsb _ attached) eqn:E3; [discriminate|].
  apply bind_ok in H. destruct H as (msgs & Hmsgs & H). inversion H; subst i; clear H. unfold ikey; cbn.
  set (sender := (pif_node pi, pif_number pi)) in *.
  split; [reflexivity|]. split; [|split; [|split]].
  - intros C. assert (existsb (fun a => String.eqb (fst a) (pif_node pi) && (snd a =? pif_number pi)) attached = true).
    { apply existsb_exists. exists sender. split; auto. cbn. now rewrite String.eqb_refl, Z.eqb_refl. }
    congruence.
  - unfold receiver_okb; cbn. rewrite F. apply andb_true_iff. split.
    + apply Z.leb_le. apply Z.ltb_ge in E1. lia.
    + apply Z.ltb_lt. rewrite Z.geb_leb in E2. apply Z.leb_gt in E2. lia.
  - eapply (foldM_inv _ (iface_inv sender)); [| |exact Hmsgs].
    + intros cur pm cur' Hin I Hstep. apply bind_ok in Hstep. destruct Hstep as (m & Hm & Hstep).
      destruct (Hpre pm Hin) as [P1 P2].
      destruct (load_msg_ok now ev Htypes sender pm m P1 P2 Hm) as [M1 M2].
      eapply add_sent_message_inv; eauto. unfold msg_okb. now rewrite M1, M2.
    + constructor; try reflexivity; [intros m []|constructor].
  - assert (Hstep : forall (s1 : list msg) (pm : PMessage) (s2 : list msg), In pm (pif_msgs pi) ->
              (do m <- load_msg now ev sender pm; add_sent_message s1 m) = Ok s2 ->
              exists b : msg, s2 = s1 ++ [b] /\ load_msg now ev sender pm = Ok b).
    { intros cur pm cur' Hin Hstep. apply bind_ok in Hstep. destruct Hstep as (m & Hm & Hstep).
      exists m. split; auto. unfold add_sent_message in Hstep.
      destruct (memb _ _); [discriminate|].
      destruct (m_has_static m); destruct (existsb _ cur); try discriminate; inversion Hstep; auto. }
    destruct (foldM_append_Forall2 _ (fun s : list msg => s) (fun pm m => load_msg now ev sender pm = Ok m) _ _ _
                Hstep Hmsgs) as (bs & Ebs & Fbs). cbn in Ebs; subst; auto.
Qed.

(* ---------------------------------------------------------------- buses *)
Definition bus_statics (cur : list iface) : list Z := map m_static (filter m_has_static (flat_map if_msgs cur)).

Record bus_inv (att0 : list (string * Z)) (st : list iface * list (string * Z)) : Prop := {
  bi_att : snd st = rev (map ikey (fst st)) ++ att0;
  bi_nodup : NoDup (snd st);
  bi_ifaces : forall i, In i (fst st) -> iface_okb msg_sigs_okb ev i = true;
  bi_names : nodupb (map (node_name_of ev) (fst st)) = true;
  bi_ids : znodupb (map (node_id_of ev) (fst st)) = true;
  bi_static : NoDup (bus_statics (fst st))
}.

Lemma static_ids_ok_spec : forall busids l,
  static_ids_ok busids l = true -> forall m, In m l -> m_has_static m = true -> ~ In (m_static m) busids.
Proof.
  induction l as [|a r IH]; intros H m Hm Hs; cbn in *; [contradiction|].
  apply andb_true_iff in H. destruct H as [H1 H2]. destruct Hm as [<-|Hm]; auto.
  rewrite Hs in H1. cbn in H1. apply negb_true_iff in H1. rewrite <- zmem_In. congruence.
Qed.

Lemma load_bus_iface_inv : forall att0 st pi st',
  (forall pm, In pm (pif_msgs pi) -> pmsg_pre pm) ->
  bus_inv att0 st -> load_bus_iface now ev st pi = Ok st' ->
  bus_inv att0 st' /\
  exists i, fst st' = fst st ++ [i] /\
            Forall2 (fun pm m => load_msg now ev (ikey i) pm = Ok m) (pif_msgs pi) (if_msgs i).
Proof.
  intros att0 [cur att] pi st' Hpre [B1 B2 B3 B4 B5 B6] H. cbn in *.
  apply bind_ok in H. destruct H as (i & Hi & H).
  apply bind_ok in H. destruct H as (cur' & Hadd & H). inversion H; subst st'; clear H.
  destruct (load_iface_ok _ _ _ Hpre Hi) as (Hk & Hfresh & Hrec & Iinv & HF).
  unfold add_node_interface in Hadd.
  destruct (memb _ _) eqn:E1; [discriminate|]. destruct (existsb _ _) eqn:E2; [discriminate|].
  destruct (negb (forallb _ _)) eqn:E3; [discriminate|]. destruct (negb (static_ids_ok _ _)) eqn:E4; [discriminate|].
  inversion Hadd; subst cur'; clear Hadd. apply negb_false_iff in E3, E4.
  split; [|exists i; auto]. constructor; cbn.
  - rewrite map_app, rev_app_distr. cbn. now rewrite B1.
  - constructor; auto.
  - intros i0 Hi0. apply in_app_or in Hi0. destruct Hi0 as [?|[<-|[]]]; auto.
    destruct Iinv as [I1 I2 I3 I4]. unfold iface_okb. fold (ikey i). rewrite Hrec, I2, I3, E3. cbn.
    rewrite !andb_true_r. apply forallb_forall; auto.
  - rewrite map_app. apply nodupb_snoc; auto.
  - rewrite map_app. apply znodupb_snoc; auto.
  - unfold bus_statics in *. rewrite flat_map_app, filter_app, map_app. cbn. rewrite app_nil_r.
    apply NoDup_app_intro; auto.
    + apply (ii_static _ _ Iinv).
    + intros x Hx Hx'. apply in_map_iff in Hx'. destruct Hx' as (m & <- & Hm). apply filter_In in Hm.
      destruct Hm as [Hm Hs]. eapply static_ids_ok_spec; eauto.
Qed.

Lemma NoDup_map_map_inv : forall {A B C} (f : B -> C) (g : A -> B) l, NoDup (map (fun x => f (g x)) l) -> NoDup (map g l).
Proof.
  intros A B C f g l; induction l as [|a r IH]; intros H; cbn in *; constructor; inversion H; subst; auto.
  intros C0. apply H2. apply in_map_iff in C0. destruct C0 as (x & Ex & Hx). apply in_map_iff. exists x. split; auto. now rewrite Ex.
Qed.

Definition pbus_pre (pb : PBus) : Prop := forall pi pm, In pi (pb_ifaces pb) -> In pm (pif_msgs pi) -> pmsg_pre pm.

Definition iface_rel (pi : PIface) (i : iface) : Prop :=
  Forall2 (fun pm m => load_msg now ev (ikey i) pm = Ok m) (pif_msgs pi) (if_msgs i).

Lemma load_bus_ok : forall builders att pb b att',
  pbus_pre pb -> NoDup att ->
  load_bus now ev builders att pb = Ok (b, att') ->
  bus_okb msg_sigs_okb ev builders b = true /\
  att' = rev (map ikey (b_ifaces b)) ++ att /\ NoDup att' /\
  pent_ids (pb_ent pb) = [e_id (b_ent b)] /\
  Forall2 iface_rel (pb_ifaces pb) (b_ifaces b).
Proof.
  intros builders att pb b att' Hpre Hatt H. unfold load_bus in H.
  apply bind_ok in H. destruct H as (ent & Hent & H).
  destruct (negb (String.eqb (pb_builder pb) "") && _) eqn:Eb; [discriminate|].
  apply bind_ok in H. destruct H as (st & Hst & H).
  apply bind_ok in H. destruct H as (asg & Hasg & H). inversion H; subst b att'; clear H.
  assert (G : bus_inv att st /\ exists is, fst st = [] ++ is /\ Forall2 iface_rel (pb_ifaces pb) is).
  { assert (G0 : forall l st0 st1, (forall pi, In pi l -> In pi (pb_ifaces pb)) -> bus_inv att st0 ->
                 foldM (load_bus_iface now ev) st0 l = Ok st1 ->
                 bus_inv att st1 /\ exists is, fst st1 = fst st0 ++ is /\ Forall2 iface_rel l is).
    { induction l as [|pi r IH]; intros st0 st1 Hsub I0 Hf; cbn in Hf.
      - inversion Hf; subst. split; auto. exists []. rewrite app_nil_r. split; auto.
      - apply bind_ok in Hf. destruct Hf as (st2 & Hst2 & Hf).
        destruct (load_bus_iface_inv att st0 pi st2) as (I2 & i & Ei & Fi); auto.
        { intros pm Hpm. eapply Hpre; eauto. apply Hsub. apply in_eq. }
        destruct (IH st2 st1) as (I1 & is & Eis & Fis); auto. { intros; apply Hsub; now right. }
        split; auto. exists (i :: is). split; [|constructor; auto]. rewrite Eis, Ei, <- app_assoc. reflexivity. }
    apply (G0 (pb_ifaces pb) ([], att) st); auto.
    constructor; cbn; auto; try reflexivity; try (now constructor); try (intros i0 Hi0; destruct Hi0). }
  destruct G as ([B1 B2 B3 B4 B5 B6] & is & Eis & Fis). cbn in Eis. subst is.
  cbn. split; [|split; [|split; [|split]]]; auto.
  - unfold bus_okb; cbn. erewrite load_assigns_ok by eauto. cbn.
    repeat (apply andb_true_iff; split).
    + destruct (String.eqb (pb_builder pb) ""); cbn in *; auto.
      destruct (find_key builder_key (pb_builder pb) builders); auto; discriminate.
    + apply forallb_forall; auto.
    + apply nodupb_NoDup. apply nodupb_NoDup in B4. unfold node_name_of, node_of in B4.
      apply (NoDup_map_map_inv (fun k => match find_key node_key k (ev_nodes ev) with Some nd => e_name (nd_ent nd) | None => EmptyString end) if_node). exact B4.
    + exact B4.
    + exact B5.
    + apply znodupb_NoDup. exact B6.
  - eapply load_entity_id; eauto.
Qed.

(* ---------------------------------------------------------------- the network *)
Record net_inv (builders : list builder) (st : list bus * list (string * Z)) : Prop := {
  ni_att : snd st = rev (map ikey (flat_map b_ifaces (fst st)));
  ni_nodup : NoDup (snd st);
  ni_buses : forall b, In b (fst st) -> bus_okb msg_sigs_okb ev builders b = true;
  ni_names : nodupb (map (fun b => e_name (b_ent b)) (fst st)) = true
}.

Definition bus_rel (pb : PBus) (b : bus) : Prop :=
  pent_ids (pb_ent pb) = [e_id (b_ent b)] /\ Forall2 iface_rel (pb_ifaces pb) (b_ifaces b).

Lemma load_net_buses_ok : forall builders l st0 st1,
  (forall pb, In pb l -> pbus_pre pb) -> net_inv builders st0 ->
  foldM (load_net_bus now ev builders) st0 l = Ok st1 ->
  net_inv builders st1 /\ exists bs, fst st1 = fst st0 ++ bs /\ Forall2 bus_rel l bs.
Proof.
  intros builders l; induction l as [|pb r IH]; intros st0 st1 Hpre I0 Hf; cbn in Hf.
  - inversion Hf; subst. split; auto. exists []. rewrite app_nil_r. split; auto.
  - apply bind_ok in Hf. destruct Hf as (st2 & Hst2 & Hf).
    destruct st0 as [cur att]. cbn in Hst2.
    apply bind_ok in Hst2. destruct Hst2 as ([b att'] & Hb & Hst2). cbn in Hst2.
    destruct (memb _ _) eqn:En; [discriminate|]. inversion Hst2; subst st2; clear Hst2.
    destruct I0 as [N1 N2 N3 N4]. cbn in *.
    destruct (load_bus_ok builders att pb b att') as (Hok & Eatt & Hnd & Hid & Hif); auto using in_eq.
    destruct (IH (cur ++ [b], att') st1) as (I1 & bs & Ebs & Fbs); auto using in_cons.
    { constructor; cbn.
      - rewrite flat_map_app, map_app, rev_app_distr. cbn. rewrite app_nil_r. now rewrite Eatt, N1.
      - auto.
      - intros b0 Hb0. apply in_app_or in Hb0. destruct Hb0 as [?|[<-|[]]]; auto.
      - rewrite map_app. apply nodupb_snoc; auto. }
    split; auto. exists (b :: bs). split; [|constructor; auto; split; auto].
    cbn in Ebs. rewrite Ebs, <- app_assoc. reflexivity.
Qed.

End Net.
