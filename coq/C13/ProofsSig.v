(* C13 — a successfully loaded signal tree is well-formed (structure, references, multiplexers). *)
From Coq Require Import ZArith List String Bool Lia.
From Acme.C12 Require Import Proto NetModel Load Lemmas.
From Acme.C13 Require Import ProofsTables ProofsLayout ProofsMux.
Import ListNotations.
Open Scope Z_scope.

Lemma calc_size_pos : forall v, 0 <= v -> 1 <= calc_size v.
Proof.
  intros v Hv. unfold calc_size. destruct (v =? 0) eqn:E; [lia|].
  destruct (v <? 0) eqn:E2; [apply Z.ltb_lt in E2; lia|].
  pose proof (Z.log2_nonneg v). lia.
Qed.

Lemma fold_max_ge : forall (l : list (entity * Z)) m, m <= fold_left (fun m v => Z.max m (snd v)) l m.
Proof. induction l as [|a r IH]; intros m; cbn; [lia|]. specialize (IH (Z.max m (snd a))). lia. Qed.

Lemma enum_size_pos : forall e, 1 <= enum_size e.
Proof.
  intros e. unfold enum_size.
  assert (1 <= calc_size (enum_maxindex e)) by (apply calc_size_pos; unfold enum_maxindex; apply fold_max_ge).
  destruct (se_minsize e >? calc_size (enum_maxindex e)) eqn:E; [apply Z.gtb_lt in E|]; lia.
Qed.

Definition env_types_ok (ev : env) : Prop := forall t, In t (ev_types ev) -> 1 <= st_size t.

Lemma sig_okb_set_pos : forall ev s p, sig_okb ev (sig_set_pos s p) = sig_okb ev s.
Proof. intros ev [h t u|h e|h c z g] p; reflexivity. Qed.

Lemma sig_flat_set_pos_tl : forall s p, tl (sig_flat (sig_set_pos s p)) = tl (sig_flat s).
Proof. intros [h t u|h e|h c z g] p; reflexivity. Qed.

Section Sig.
Variable now : time.
Variable ev : env.
Hypothesis Htypes : env_types_ok ev.

Lemma load_sig_id : forall lim ps s, load_sig now ev lim ps = Ok s -> sig_id s = psig_key ps.
Proof.
  intros lim [pent pkind psend pstart pattrs pbody] s H. cbn in H. bind_inv H.
  destruct pent as [e|]; [|discriminate]. cbn in Ha. inversion Ha; subst a; clear Ha.
  unfold psig_key; cbn.
  destruct pbody as [|t u|en|psigs fixed count gsize pgroups]; try discriminate.
  - destruct (negb _); [discriminate|]. destruct (find_key type_key t _); [|discriminate].
    destruct (_ && _); [discriminate|]. bind_inv H. inversion H; reflexivity.
  - destruct (negb _); [discriminate|]. destruct (find_key enum_key en _); [|discriminate].
    bind_inv H. inversion H; reflexivity.
  - destruct (negb _); [discriminate|]. destruct (gsize >? lim); [discriminate|]. destruct (negb _); [discriminate|].
    destruct (count <? 0); [discriminate|]. destruct (count =? 0); [discriminate|].
    destruct (gsize <? 0); [discriminate|]. destruct (gsize =? 0); [discriminate|].
    bind_inv H. bind_inv H. bind_inv H. inversion H; reflexivity.
Qed.

Lemma ginv_okb : forall children count gsize gs,
  1 <= count -> 1 <= gsize ->
  (forall c, In c children -> sig_okb ev c = true) ->
  ginv ev children count gsize gs ->
  (1 <=? count) && (1 <=? gsize) && (Z.of_nat (List.length gs) =? count) && copies_okb gs && fixed_okb gs &&
  forallb (fun g => layout_okb ev gsize 0 (map snd g) && forallb (fun c : bool * sig => sig_okb ev (snd c)) g) gs = true.
Proof.
  intros children count gsize gs Hc Hg Hch I. destruct I as [I1 I2 I3 I4 I5 I6].
  repeat (apply andb_true_iff; split).
  - apply Z.leb_le; lia.
  - apply Z.leb_le; lia.
  - apply Z.eqb_eq. rewrite I1. lia.
  - unfold copies_okb. apply forallb_forall. intros c Hcin.
    assert (Hk : In (child_key c) (map child_key (mux_children gs))).
    { unfold mux_children. apply dedup_key_keys; [now apply in_map | auto]. }
    destruct (find_key (fun x : bool * sig => sig_id (snd x)) (sig_id (snd c)) (mux_children gs)) as [d|] eqn:F.
    + apply find_key_Some in F. destruct F as [Fd Fk]. unfold mux_children in Fd.
      apply dedup_key_In in Fd. destruct Fd as [Fd _].
      assert (c = d) by (apply I4; auto). subst d. apply child_eqb_refl.
    + apply find_key_None in F. contradiction.
  - unfold fixed_okb. apply forallb_forall. intros c Hcin. destruct (fst c) eqn:Hf; cbn; auto.
    apply forallb_forall. intros g Hgin. apply memb_In.
    change (sig_id (snd c)) with (child_key c). apply in_map. apply I5; auto.
  - apply forallb_forall. intros g Hgin. apply andb_true_iff; split; auto.
    apply forallb_forall. intros c Hcin.
    destruct (I2 c) as (c0 & p & Hc0 & E); [apply concat_In; eauto|].
    rewrite E, sig_okb_set_pos. auto.
Qed.

Theorem load_sig_ok : forall ps lim s,
  load_sig now ev lim ps = Ok s -> sig_okb ev s = true /\ 1 <= sig_size ev s.
Proof.
  induction ps using psig_ind'; intros lim s Hl.
  - (* standard / enum / no body *)
    cbn in Hl. bind_inv Hl.
    destruct b as [|t u|en|? ? ? ? ?]; try discriminate; try contradiction.
    + destruct (negb _); [discriminate|].
      destruct (find_key type_key t (ev_types ev)) as [ty|] eqn:Ft; [|discriminate].
      destruct (negb (String.eqb u "") && _) eqn:Fu; [discriminate|].
      bind_inv Hl. inversion Hl; subst; clear Hl. cbn. rewrite Ft.
      erewrite load_assigns_ok by eauto. split.
      * cbn. destruct (String.eqb u "") eqn:Eu; cbn in *; auto.
        destruct (find_key unit_key u (ev_units ev)); auto; discriminate.
      * apply find_key_Some in Ft. apply Htypes. tauto.
    + destruct (negb _); [discriminate|].
      destruct (find_key enum_key en (ev_enums ev)) as [e0|] eqn:Fe; [|discriminate].
      bind_inv Hl. inversion Hl; subst; clear Hl. cbn. rewrite Fe.
      erewrite load_assigns_ok by eauto. split; auto. apply enum_size_pos.
  - (* multiplexer *)
    cbn in Hl. apply bind_ok in Hl. destruct Hl as (ent & Hent & Hl).
    destruct (negb _); [discriminate|].
    destruct (z >? lim); [discriminate|]. destruct (negb (Z.of_nat (List.length groups) =? c)); [discriminate|].
    destruct (c <? 0) eqn:E1; [discriminate|]. destruct (c =? 0) eqn:E2; [discriminate|].
    destruct (z <? 0) eqn:E3; [discriminate|]. destruct (z =? 0) eqn:E4; [discriminate|].
    apply Z.ltb_ge in E1, E3. apply Z.eqb_neq in E2, E4.
    apply bind_ok in Hl. destruct Hl as (children & Hchildren & Hl).
    apply bind_ok in Hl. destruct Hl as (stt & Hstt & Hl).
    apply bind_ok in Hl. destruct Hl as (asg & Hasg & Hl).
    inversion Hl; subst; clear Hl.
    rewrite mapM_flagged_select in Hchildren.
    pose proof (mapM_ok _ _ _ Hchildren) as Hch.
    assert (Hchild : forall c0, In c0 children -> sig_okb ev c0 = true /\ 1 <= sig_size ev c0).
    { intros c0 Hc0. rewrite Forall_forall in H.
      assert (G : forall l l', Forall2 (fun a b => load_sig now ev z a = Ok b) l l' ->
                               (forall x, In x l -> In x sigs) -> In c0 l' ->
                               sig_okb ev c0 = true /\ 1 <= sig_size ev c0).
      { induction 1 as [|x y l l' Hxy HF IHF]; intros Hsub Hin; [contradiction|].
        destruct Hin as [<-|Hin].
        - apply (H x (Hsub x (in_eq _ _)) z); auto.
        - apply IHF; auto. intros; apply Hsub; now right. }
      apply (G _ _ Hch); auto. intros x Hx. eapply select_In; eauto. }
    assert (Hnd : NoDup (map sig_id children)).
    { assert (E : map sig_id children = map psig_key (select sigs (first_flags (map psig_key sigs) []))).
      { clear - Hch. induction Hch; cbn; auto. f_equal; auto. eapply load_sig_id; eauto. }
      rewrite E. apply (select_first_flags_nodup psig_key sigs []). }
    assert (I : ginv ev children c z (fst stt)).
    { eapply (load_groups_inv ev children c z Hnd); [ | | exact Hstt].
      - intros c0 Hc0. apply Hchild; auto.
      - cbn. apply ginv_init. lia. }
    split.
    + cbn [sig_okb sig_head]. cbn [sh_attrs]. erewrite load_assigns_ok by eauto. cbn [andb].
      apply ginv_okb with (children := children); auto; try lia. intros c0 Hc0. apply Hchild; auto.
    + cbn. pose proof (calc_size_pos (c - 1)). lia.
Qed.

End Sig.
