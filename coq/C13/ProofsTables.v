(* C13 — what a successful load guarantees about the shared definitions and attribute assignments. *)
From Coq Require Import ZArith List String Bool Lia.
From Acme.C12 Require Import Proto NetModel Load Lemmas.
Import ListNotations.
Open Scope Z_scope.

Section Tables.
Variable now : time.

(* ---- attributes *)
Lemma dedup_str_nodup : forall l, nodupb (dedup_str l) = true.
Proof.
  intros l. apply nodupb_NoDup. unfold dedup_str.
  pose proof (dedup_key_NoDup (fun x : string => x) l []) as H. now rewrite map_id in H.
Qed.

Lemma load_attr_ok : forall pa a, load_attr now pa = Ok a -> attr_okb a = true.
Proof.
  intros pa a H. unfold load_attr in H. bind_inv H.
  destruct (pat_body pa) as [|d|d mn mx hex|d mn mx|d vals]; try discriminate.
  - destruct (_ =? 1); inversion H; reflexivity.
  - destruct (negb _); [discriminate|].
    destruct (mn >? mx) eqn:E1; [discriminate|]. destruct (d >? mx) eqn:E2; [discriminate|].
    destruct (d <? mn) eqn:E3; [discriminate|]. inversion H; subst; cbn.
    rewrite !andb_true_iff, !Z.leb_le. lia.
  - destruct (negb _); [discriminate|].
    destruct (f_gt mn mx) eqn:E1; [discriminate|]. destruct (f_gt d mx) eqn:E2; [discriminate|].
    destruct (f_lt d mn) eqn:E3; [discriminate|]. inversion H; subst; cbn. now rewrite E1, E2, E3.
  - destruct (negb _); [discriminate|]. destruct (memb d vals); [|discriminate].
    inversion H; subst. unfold attr_okb; cbn [at_body]. unfold enum_attr_values.
    rewrite dedup_str_nodup. unfold dedup_str. cbn. apply String.eqb_refl.
Qed.

(* ---- assignments *)
Lemma assign_put_keys : forall l a,
  map as_attr (assign_put l a) =
  if memb (as_attr a) (map as_attr l) then map as_attr l else map as_attr l ++ [as_attr a].
Proof.
  induction l as [|b r IH]; intros a; cbn; auto.
  destruct (String.eqb (as_attr b) (as_attr a)) eqn:E; cbn.
  - apply String.eqb_eq in E. rewrite E, String.eqb_refl. reflexivity.
  - rewrite String.eqb_sym, E. cbn. rewrite IH. unfold memb. destruct (existsb _ _); reflexivity.
Qed.

Lemma assign_put_In : forall l a x, In x (assign_put l a) -> x = a \/ In x l.
Proof.
  induction l as [|b r IH]; intros a x H; cbn in H.
  - destruct H as [<-|[]]; auto.
  - destruct (String.eqb (as_attr b) (as_attr a)).
    + destruct H as [<-|H]; auto. right; right; auto.
    + destruct H as [<-|H]; [right; left; auto|]. destruct (IH _ _ H); auto. right; right; auto.
Qed.

Lemma assign_put_nodup : forall l a, nodupb (map as_attr l) = true -> nodupb (map as_attr (assign_put l a)) = true.
Proof.
  intros l a H. rewrite assign_put_keys. destruct (memb _ _) eqn:E; auto. apply nodupb_snoc; auto.
Qed.

Lemma load_assign_ok : forall ev cur pa cur',
  assigns_okb ev cur = true -> load_assign (ev_attrs ev) cur pa = Ok cur' -> assigns_okb ev cur' = true.
Proof.
  intros ev cur pa cur' Hc H. unfold load_assign in H.
  destruct (find_key attr_key (pas_attr_id pa) (ev_attrs ev)) as [ad|] eqn:F; [|discriminate].
  unfold assigns_okb in *. apply andb_true_iff in Hc. destruct Hc as [Hc1 Hc2].
  assert (Hput : forall v, (do _ <- assign_check ad v; Ok (assign_put cur {| as_attr := pas_attr_id pa; as_val := v |})) = Ok cur' ->
                 forallb (assign_okb ev) cur' && nodupb (map as_attr cur') = true).
  { intros v Hv. bind_inv Hv. inversion Hv; subst. apply andb_true_iff; split.
    - apply forallb_forall. intros x Hx. apply assign_put_In in Hx. destruct Hx as [->|Hx].
      + unfold assign_okb; cbn. rewrite F, Ha. reflexivity.
      + rewrite forallb_forall in Hc1; auto.
    - apply assign_put_nodup; auto. }
  destruct (pas_val pa); try (apply Hput in H; exact H).
  inversion H; subst. now rewrite Hc1, Hc2.
Qed.

Lemma load_assigns_ok : forall ev l asg,
  load_assigns (ev_attrs ev) l = Ok asg -> assigns_okb ev asg = true.
Proof.
  intros ev l asg H. unfold load_assigns in H.
  eapply (foldM_inv _ (fun cur => assigns_okb ev cur = true)); [| |exact H]; auto.
  intros s a s' _ Hs Hf. eapply load_assign_ok; eauto.
Qed.

(* ---- types, enums *)
Lemma load_type_ok : forall pt t, load_type now pt = Ok t -> (1 <=? st_size t) = true.
Proof.
  intros pt t H. unfold load_type in H. bind_inv H.
  destruct (pst_size pt <? 0) eqn:E1; [discriminate|]. destruct (pst_size pt =? 0) eqn:E2; [discriminate|].
  inversion H; subst; cbn. apply Z.leb_le. apply Z.ltb_ge in E1. apply Z.eqb_neq in E2. lia.
Qed.

Definition enum_vals_ok (vals : list (entity * Z)) : Prop :=
  nodupb (map (fun v => e_name (fst v)) vals) = true /\ znodupb (map snd vals) = true.

Lemma enum_add_value_ok : forall cur pv cur',
  enum_vals_ok cur -> enum_add_value now cur pv = Ok cur' -> enum_vals_ok cur'.
Proof.
  intros cur pv cur' [H1 H2] H. unfold enum_add_value in H. bind_inv H.
  destruct (existsb _ _) eqn:E1; [discriminate|]. destruct (memb _ _) eqn:E2; [discriminate|].
  inversion H; subst. split; rewrite map_app; cbn.
  - apply nodupb_snoc; auto.
  - apply znodupb_snoc; auto.
Qed.

Lemma load_enum_ok : forall pe e, load_enum now pe = Ok e -> enum_okb e = true.
Proof.
  intros pe e H. unfold load_enum in H. bind_inv H. bind_inv H. inversion H; subst. unfold enum_okb; cbn.
  assert (enum_vals_ok a0).
  { eapply (foldM_inv _ enum_vals_ok); [| |exact Ha0].
    - intros; eapply enum_add_value_ok; eauto.
    - split; reflexivity. }
  destruct H0 as [-> ->]. reflexivity.
Qed.

Lemma load_node_ok : forall ev pn nd,
  load_node now (ev_attrs ev) pn = Ok nd -> assigns_okb ev (nd_attrs nd) = true.
Proof.
  intros ev pn nd H. unfold load_node in H. bind_inv H. bind_inv H. inversion H; subst; cbn.
  eapply load_assigns_ok; eauto.
Qed.

End Tables.
