(* C13 — load_ok_wf: a successful load yields a well-formed network, for every tree whose
   unsigned fields are non-negative (they are uint32 in the .proto files). *)
From Coq Require Import ZArith List String Bool Lia.
From Acme.C12 Require Import Proto NetModel Load Lemmas.
From Acme.C13 Require Import ProofsTables ProofsLayout ProofsMux ProofsSig ProofsIds ProofsMsg ProofsNet.
Import ListNotations.
Open Scope Z_scope.

Definition pnet_msgs (p : PNet) : list PMessage := flat_map pif_msgs (flat_map pb_ifaces (pn_buses p)).

(* the typing side condition: size_byte is a uint32 *)
Definition pnet_u32_ok (p : PNet) : Prop := forall pm, In pm (pnet_msgs p) -> 0 <= pm_size pm.

Lemma flat_map_singleton_Forall2 : forall {A B} (f : A -> list string) (g : B -> string) l l',
  Forall2 (fun a b => f a = [g b]) l l' -> flat_map f l = map g l'.
Proof. intros A B f g l l' H; induction H; cbn; auto. now rewrite H, IHForall2. Qed.

Lemma NoDup_replace_mid : forall (a x c y : list string),
  NoDup (a ++ x ++ c) -> NoDup y -> incl y x -> NoDup (a ++ y ++ c).
Proof.
  intros a x c y H Hy Hi.
  apply (NoDup_app_incl a (x ++ c)); auto.
  - eapply NoDup_app_l; eauto.
  - apply (NoDup_app_incl x c); auto.
    + eapply NoDup_app_r; eauto.
    + apply NoDup_app_r in H. eapply NoDup_app_r; eauto.
    + apply incl_refl.
  - apply incl_refl.
  - intros z Hz. apply in_app_or in Hz. apply in_or_app. destruct Hz; auto.
Qed.

Lemma NoDup_replace_mid3 : forall (a1 a2 a3 x c y : list string),
  NoDup (a1 ++ a2 ++ a3 ++ x ++ c) -> NoDup y -> incl y x -> NoDup (a1 ++ a2 ++ a3 ++ y ++ c).
Proof.
  intros a1 a2 a3 x c y H Hy Hi.
  replace (a1 ++ a2 ++ a3 ++ y ++ c) with ((a1 ++ a2 ++ a3) ++ y ++ c) by (now rewrite <- !app_assoc).
  apply (NoDup_replace_mid _ x); auto. now rewrite <- !app_assoc.
Qed.

Section Wf.
Variable now : time.

Lemma load_enum_value_ids : forall pe e,
  load_enum now pe = Ok e ->
  pent_ids (psn_ent pe) = [e_id (se_ent e)] /\
  flat_map (fun v => pent_ids (pev_ent v)) (psn_values pe) = map (fun v => e_id (fst v)) (se_values e).
Proof.
  intros pe e H. unfold load_enum in H.
  apply bind_ok in H. destruct H as (ent & Hent & H). apply bind_ok in H. destruct H as (vals & Hvals & H).
  inversion H; subst e; clear H. cbn. split; [eapply load_entity_id; eauto|].
  assert (Hstep : forall (s1 : list (entity * Z)) pv s2, In pv (psn_values pe) -> enum_add_value now s1 pv = Ok s2 ->
            exists b : entity * Z, s2 = s1 ++ [b] /\ pent_ids (pev_ent pv) = [e_id (fst b)]).
  { intros s1 pv s2 _ Hs. unfold enum_add_value in Hs. apply bind_ok in Hs. destruct Hs as (ve & Hve & Hs).
    destruct (existsb _ _); [discriminate|]. destruct (memb _ _); [discriminate|]. inversion Hs; subst.
    exists (ve, pev_index pv). split; auto. cbn. eapply load_entity_id; eauto. }
  destruct (foldM_append_Forall2 _ (fun s : list (entity * Z) => s) _ _ _ _ Hstep Hvals) as (bs & Ebs & Fbs).
  cbn in Ebs. subst bs. apply flat_map_singleton_Forall2. exact Fbs.
Qed.

Lemma mapM_ids : forall {A B} (f : A -> result B) (pid : A -> list string) (bid : B -> string) l l',
  (forall a b, f a = Ok b -> pid a = [bid b]) -> mapM f l = Ok l' -> flat_map pid l = map bid l'.
Proof.
  intros A B f pid bid l l' Hf H. apply mapM_ok in H. apply flat_map_singleton_Forall2.
  eapply Forall2_impl; [|exact H]. intros a b _ _ Hab. auto.
Qed.

Theorem load_ok_wf_lemma : forall (p : PNet) (n : net),
  pnet_u32_ok p -> load now p = Ok n -> wfb n = true.
Proof.
  intros p n Hu H. unfold load in H.
  destruct (negb (nodupb (pnet_ids p))) eqn:Hids; [discriminate|].
  apply negb_false_iff, nodupb_NoDup in Hids.
  apply bind_ok in H. destruct H as (ent & Hent & H).
  apply bind_ok in H. destruct H as (builders & Hbuilders & H).
  apply bind_ok in H. destruct H as (attrs & Hattrs & H).
  apply bind_ok in H. destruct H as (nodes & Hnodes & H).
  apply bind_ok in H. destruct H as (types & Htypes & H).
  apply bind_ok in H. destruct H as (units & Hunits & H).
  apply bind_ok in H. destruct H as (enums & Henums & H).
  apply bind_ok in H. destruct H as (st & Hst & H).
  inversion H; subst n; clear H.
  set (ev := {| ev_types := types; ev_units := units; ev_enums := enums; ev_attrs := attrs; ev_nodes := nodes |}) in *.
  assert (Hty : env_types_ok ev).
  { intros t Ht. cbn in Ht. pose proof (mapM_all _ (fun t => (1 <=? st_size t) = true) _ _ (fun a b _ Hab => load_type_ok now a b Hab) Htypes) as F.
    rewrite Forall_forall in F. apply Z.leb_le. auto. }
  (* the ids registered by the duplicate check, part by part *)
  unfold pnet_ids in Hids. fold (pnet_msgs p) in Hids.
  rewrite (load_entity_id now _ _ Hent) in Hids.
  assert (Hsigpart : NoDup (flat_map (fun m => flat_map psig_ids (pm_signals m)) (pnet_msgs p))).
  { cbn in Hids. inversion Hids; subst. apply NoDup_app_r in H2. apply NoDup_app_r in H2. eapply NoDup_app_l; eauto. }
  assert (Hpre : forall pb, In pb (pn_buses p) -> pbus_pre pb).
  { intros pb Hpb pi pm Hpi Hpm. assert (Hin : In pm (pnet_msgs p)).
    { unfold pnet_msgs. apply in_flat_map. exists pi. split; auto. apply in_flat_map. eauto. }
    split; [eapply NoDup_flat_map_elem in Hsigpart; eauto | auto]. }
  assert (NI0 : net_inv ev builders (@nil bus, @nil (string * Z))).
  { constructor; cbn; auto; try (now constructor); try (intros b Hb; destruct Hb). }
  destruct (load_net_buses_ok now ev Hty builders (pn_buses p) ([], []) st Hpre NI0 Hst) as (NI & bs & Ebs & Fbs).
  cbn in Ebs. destruct NI as [N1 N2 N3 N4]. rewrite Ebs in *. clear Ebs.
  cbv beta zeta delta [wfb wfb_gen].
  repeat (match goal with |- (_ && _) = true => apply andb_true_iff; split end);
    cbv beta zeta iota delta [net_env all_ifaces n_ent n_buses n_builders n_nodes n_types n_units n_enums n_attrs];
    fold ev.
  - (* entity ids *)
    apply nodupb_NoDup.
    cbv beta zeta iota delta [net_ids n_ent n_buses n_builders n_nodes n_types n_units n_enums n_attrs].
    (* messages of p and of n correspond *)
    assert (Hmsgs : Forall2 (fun pm m => exists sender, load_msg now ev sender pm = Ok m)
                            (pnet_msgs p) (flat_map if_msgs (flat_map b_ifaces bs))).
    { unfold pnet_msgs. eapply Forall2_flat_map; [eapply Forall2_flat_map; [exact Fbs|]|].
      - intros pb b [_ Hif]. exact Hif.
      - intros pi i Hi. eapply Forall2_impl; [|exact Hi]. intros pm m _ _ Hm. exists (ikey i). exact Hm. }
    assert (Hpm : forall pm, In pm (pnet_msgs p) -> pmsg_pre pm).
    { intros pm Hin. split; [eapply NoDup_flat_map_elem in Hsigpart; eauto | auto]. }
    (* rewrite the equal parts *)
    assert (E1 : flat_map (fun b => pent_ids (pb_ent b)) (pn_buses p) = map (fun b => e_id (b_ent b)) bs).
    { apply flat_map_singleton_Forall2. eapply Forall2_impl; [|exact Fbs]. intros pb b _ _ [Hb _]. exact Hb. }
    assert (E2 : flat_map (fun m => pent_ids (pm_ent m)) (pnet_msgs p) = map (fun m => e_id (m_ent m)) (flat_map if_msgs (flat_map b_ifaces bs))).
    { apply flat_map_singleton_Forall2. eapply Forall2_impl; [|exact Hmsgs]. intros pm m _ _ [sender Hm].
      unfold load_msg in Hm. apply bind_ok in Hm. destruct Hm as (me & Hme & Hm).
      destruct (pm_size pm >? 8); [discriminate|].
      apply bind_ok in Hm. destruct Hm as (? & _ & Hm). apply bind_ok in Hm. destruct Hm as (? & _ & Hm).
      apply bind_ok in Hm. destruct Hm as (? & _ & Hm). inversion Hm; subst; cbn. eapply load_entity_id; eauto. }
    assert (E4 : flat_map (fun b => pent_ids (pcb_ent b)) (pn_builders p) = map builder_key builders).
    { eapply mapM_ids; [|exact Hbuilders]. intros a b Hab. unfold load_builder in Hab.
      apply bind_ok in Hab. destruct Hab as (e & He & Hab). inversion Hab; subst; cbn. eapply load_entity_id; eauto. }
    assert (E5 : flat_map (fun x => pent_ids (pnd_ent x)) (pn_nodes p) = map node_key nodes).
    { eapply mapM_ids; [|exact Hnodes]. intros a b Hab. unfold load_node in Hab.
      apply bind_ok in Hab. destruct Hab as (e & He & Hab). apply bind_ok in Hab. destruct Hab as (? & _ & Hab).
      inversion Hab; subst; cbn. eapply load_entity_id; eauto. }
    assert (E6 : flat_map (fun x => pent_ids (pst_ent x)) (pn_types p) = map type_key types).
    { eapply mapM_ids; [|exact Htypes]. intros a b Hab. unfold load_type in Hab.
      apply bind_ok in Hab. destruct Hab as (e & He & Hab). destruct (_ <? 0); [discriminate|]. destruct (_ =? 0); [discriminate|].
      inversion Hab; subst; cbn. eapply load_entity_id; eauto. }
    assert (E7 : flat_map (fun x => pent_ids (psu_ent x)) (pn_units p) = map unit_key units).
    { eapply mapM_ids; [|exact Hunits]. intros a b Hab. unfold load_unit in Hab.
      apply bind_ok in Hab. destruct Hab as (e & He & Hab). inversion Hab; subst; cbn. eapply load_entity_id; eauto. }
    assert (E8 : flat_map (fun x => pent_ids (psn_ent x)) (pn_enums p) = map enum_key enums).
    { eapply mapM_ids; [|exact Henums]. intros a b Hab. apply (load_enum_value_ids a b Hab). }
    assert (E9 : flat_map (fun e => flat_map (fun v => pent_ids (pev_ent v)) (psn_values e)) (pn_enums p)
                 = flat_map (fun e => map (fun v => e_id (fst v)) (se_values e)) enums).
    { symmetry. apply flat_map_eq_Forall2. apply mapM_ok in Henums. eapply Forall2_impl; [|exact Henums].
      intros a b _ _ Hab. symmetry. apply (load_enum_value_ids a b Hab). }
    assert (E10 : flat_map (fun x => pent_ids (pat_ent x)) (pn_attrs p) = map attr_key attrs).
    { eapply mapM_ids; [|exact Hattrs]. intros a b Hab. unfold load_attr in Hab.
      apply bind_ok in Hab. destruct Hab as (e & He & Hab).
      assert (at_ent b = e).
      { destruct (pat_body a); try discriminate;
          repeat match type of Hab with (if ?c then _ else _) = _ => destruct c; try discriminate end;
          inversion Hab; reflexivity. }
      subst e. eapply load_entity_id; eauto. }
    rewrite E1, E2, E4, E5, E6, E7, E8, E9, E10 in Hids. cbn [app] in Hids.
    (* the signal part: contained and duplicate free *)
    set (X := flat_map (fun m => flat_map psig_ids (pm_signals m)) (pnet_msgs p)) in *.
    set (Y := flat_map (fun m => map sig_id (msg_sigs m)) (flat_map if_msgs (flat_map b_ifaces bs))).
    assert (HY : Forall2 (fun pm m => NoDup (map sig_id (msg_sigs m)) /\ incl (map sig_id (msg_sigs m)) (flat_map psig_ids (pm_signals pm)))
                         (pnet_msgs p) (flat_map if_msgs (flat_map b_ifaces bs))).
    { eapply Forall2_impl; [|exact Hmsgs]. intros pm m Hin _ [sender Hm]. split.
      - unfold msg_sigs. apply dedup_key_NoDup.
      - destruct (Hpm pm Hin) as [P1 P2].
        unfold load_msg in Hm. apply bind_ok in Hm. destruct Hm as (me & Hme & Hm).
        destruct (pm_size pm >? 8); [discriminate|].
        apply bind_ok in Hm. destruct Hm as (sigs & Hsigs & Hm). apply bind_ok in Hm. destruct Hm as (? & _ & Hm).
        apply bind_ok in Hm. destruct Hm as (? & _ & Hm). inversion Hm; subst m; clear Hm.
        assert (Hb : 0 <= pm_size pm * 8) by lia.
        destruct (load_msg_signals_inv now ev Hty _ _ _ _ Hb P1 Hsigs) as [I _].
        unfold msg_sigs; cbn. intros z Hz. apply in_map_iff in Hz. destruct Hz as (s & <- & Hs).
        apply dedup_key_In in Hs. destruct Hs as [Hs _]. apply in_flat_map in Hs. destruct Hs as (t & Ht & Hs).
        apply (si_incl _ _ _ _ I t Ht). unfold sig_ids. now apply in_map. }
    assert (NY : NoDup Y) by (eapply NoDup_flat_map_Forall2; [exact HY | exact Hsigpart]).
    assert (IY : incl Y X).
    { unfold X, Y. apply incl_flat_map_Forall2. eapply Forall2_impl; [|exact HY]. intros ? ? _ _ [_ HH]; exact HH. }
    apply (NoDup_replace_mid3 [e_id ent] _ _ X _ Y); auto.
  - exact N4.
  - apply forallb_forall; auto.
  - apply pair_nodupb_NoDup. cbn in N1. rewrite N1 in N2. apply NoDup_rev in N2. rewrite rev_involutive in N2. exact N2.
  - apply forallb_forall. apply Forall_forall.
    eapply (mapM_all (load_node now attrs) (fun nd => assigns_okb ev (nd_attrs nd) = true)); [|exact Hnodes].
    intros a b _ Hab. exact (load_node_ok now ev a b Hab).
  - apply forallb_forall. apply Forall_forall.
    eapply (mapM_all (load_type now) (fun t => (1 <=? st_size t) = true)); [|exact Htypes].
    intros a b _ Hab. exact (load_type_ok now a b Hab).
  - apply forallb_forall. apply Forall_forall.
    eapply (mapM_all (load_enum now) (fun e => enum_okb e = true)); [|exact Henums].
    intros a b _ Hab. exact (load_enum_ok now a b Hab).
  - apply forallb_forall. apply Forall_forall.
    eapply (mapM_all (load_attr now) (fun a => attr_okb a = true)); [|exact Hattrs].
    intros a b _ Hab. exact (load_attr_ok now a b Hab).
Qed.

End Wf.
