(* Extraction of the executable C14 model for the correspondence check.
   ExtrOcamlBasic only: Z / positive / nat stay inductive; no Extract Constant of our own. *)
From Coq Require Import Extraction ExtrOcamlBasic ZArith List.
From Acme.C14 Require Import Model.
Extraction Language OCaml.
Extraction "extracted/c14_model.ml"
  u32 calc_op calculate calculate_partials
  use_message_priority use_message_id use_node_id use_bit_mask use_can2a default_ops
  insert_operation remove_operation remove_all_operations apply_edit
  get_can_id view accepted wapply wstep world_can_id gateway_can_id init_world.
