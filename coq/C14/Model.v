(* C14 — model of /repo/canid_builder.go (CANIDBuilder), Message.GetCANID (message.go) and the
   CAN-ID related setters the harness drives (message.go SetStaticCANID / UpdateID / SetPriority,
   node.go UpdateID, node_iterface.go AddSentMessage / RemoveSentMessage, bus.go
   AddNodeInterface / RemoveNodeInterface / SetCANIDBuilder).

   One Gallina function per Go function.  Go `uint32` arithmetic is written out explicitly over Z:
     uint32(x) of an `int`            u32 x      = x mod 2^32   (two's complement truncation)
     a >> k   (a, k uint32)           shr32 a k  = 0 when k >= 32, a / 2^k otherwise
     a << k   (a, k uint32)           shl32 a k  = 0 when k >= 32, (a * 2^k) mod 2^32 otherwise
     a & b, a | b                     Z.land, Z.lor (closed on [0, 2^32))
   `from` and `len` are Go `int`s; the public Use* constructors do not validate them, so the
   model is total over every Z (32 - len is computed on int64 in Go; since 2^32 divides 2^64 the
   wrap-around of that subtraction is absorbed by the following uint32 conversion).
   No proofs here. *)
From Coq Require Import ZArith List Bool.
Import ListNotations.
Open Scope Z_scope.

(* ---------- uint32 kernels ---------- *)
Definition W32 : Z := 2 ^ 32.
Definition u32 (x : Z) : Z := x mod W32.
Definition shr32 (a k : Z) : Z := if k <? 32 then a / 2 ^ k else 0.
Definition shl32 (a k : Z) : Z := if k <? 32 then (a * 2 ^ k) mod W32 else 0.

(* ---------- operations ---------- *)
Inductive kind : Type :=
| KPriority | KMessageID | KNodeID | KBitMask
| KUnknown.      (* any CANIDBuilderOpKind outside the four constants (the type is an int) *)

Record op : Type := mkOp { op_kind : kind; op_from : Z; op_len : Z }.

(* mask := uint32(0xFFFFFFFF) >> uint32(32-op.len) *)
Definition len_mask (len : Z) : Z := shr32 (W32 - 1) (u32 (32 - len)).

(* calculateOp *)
Definition calc_op (o : op) (prev prio mid nid : Z) : Z :=
  let can_id := u32 prev in
  match op_kind o with
  | KBitMask =>
      let mask := len_mask (op_len o) in
      Z.land can_id (shl32 mask (u32 (op_from o)))
  | k =>
      let tmp0 := match k with
                  | KPriority => u32 prio
                  | KMessageID => u32 mid
                  | KNodeID => u32 nid
                  | _ => 0
                  end in
      let mask := len_mask (op_len o) in
      let tmp1 := Z.land tmp0 mask in
      let tmp2 := shl32 tmp1 (u32 (op_from o)) in
      Z.lor can_id tmp2
  end.

(* Calculate: the for loop with accumulator canID, started at 0 *)
Fixpoint calc_loop (ops : list op) (acc prio mid nid : Z) : Z :=
  match ops with
  | [] => acc
  | o :: r => calc_loop r (calc_op o acc prio mid nid) prio mid nid
  end.
Definition calculate (ops : list op) (prio mid nid : Z) : Z := calc_loop ops 0 prio mid nid.

(* CalculatePartials: same loop, every intermediate value appended *)
Fixpoint partials_loop (ops : list op) (prev prio mid nid : Z) : list Z :=
  match ops with
  | [] => []
  | o :: r => let c := calc_op o prev prio mid nid in c :: partials_loop r c prio mid nid
  end.
Definition calculate_partials (ops : list op) (prio mid nid : Z) : list Z :=
  partials_loop ops 0 prio mid nid.

(* ---------- Use* constructors (append, no validation) ---------- *)
Definition use_message_priority (ops : list op) (from : Z) : list op := ops ++ [mkOp KPriority from 2].
Definition use_message_id (ops : list op) (from len : Z) : list op := ops ++ [mkOp KMessageID from len].
Definition use_node_id (ops : list op) (from len : Z) : list op := ops ++ [mkOp KNodeID from len].
Definition use_bit_mask (ops : list op) (from len : Z) : list op := ops ++ [mkOp KBitMask from len].
Definition use_can2a (ops : list op) : list op := ops ++ [mkOp KBitMask 0 11].

(* newDefaultCANIDBuilder *)
Definition default_ops : list op := use_can2a (use_message_id (use_node_id [] 0 4) 4 7).

(* ---------- InsertOperation / RemoveOperation ---------- *)
Inductive arg_error : Type := ErrFrom | ErrLength | ErrOpIndex.   (* ArgumentError.Name, Err = ErrOutOfBounds *)
Inductive result (A : Type) : Type := Ok (a : A) | Err (e : arg_error).
Arguments Ok {A} a.
Arguments Err {A} e.

(* slices.Insert(s, i, v) for 0 <= i <= len(s) *)
Fixpoint insert_at {A : Type} (i : nat) (v : A) (s : list A) : list A :=
  match i, s with
  | O, _ => v :: s
  | S i', x :: r => x :: insert_at i' v r
  | S _, [] => [v]          (* unreachable after validation *)
  end.

(* slices.Delete(s, i, i+1) for 0 <= i < len(s) *)
Fixpoint delete_at {A : Type} (i : nat) (s : list A) : list A :=
  match i, s with
  | _, [] => []
  | O, _ :: r => r
  | S i', x :: r => x :: delete_at i' r
  end.

Definition insert_operation (ops : list op) (k : kind) (from len idx : Z) : result (list op) :=
  if (from <? 0) || (from >? 31) then Err ErrFrom
  else if (len <? 0) || (len >? 32 - from) then Err ErrLength
  else if (idx <? 0) || (idx >? Z.of_nat (length ops)) then Err ErrOpIndex
  else Ok (insert_at (Z.to_nat idx) (mkOp k from len) ops).

Definition remove_operation (ops : list op) (idx : Z) : result (list op) :=
  if (idx <? 0) || (idx >=? Z.of_nat (length ops)) then Err ErrOpIndex
  else Ok (delete_at (Z.to_nat idx) ops).

Definition remove_all_operations (ops : list op) : list op := [].

(* ---------- Message.GetCANID ---------- *)
Record bus : Type := mkBus { b_builder : list op }.
Record node_int : Type := mkNodeInt { ni_node_id : Z; ni_parent_bus : option bus }.
Record message : Type := mkMessage {
  m_id : Z; m_priority : Z; m_static : Z; m_has_static : bool; m_sender : option node_int }.

Definition get_can_id (m : message) : Z :=
  if m_has_static m then m_static m
  else match m_sender m with
       | None => m_id m
       | Some ni =>
           match ni_parent_bus ni with
           | None => m_id m
           | Some b => calculate (b_builder b) (m_priority m) (m_id m) (ni_node_id ni)
           end
       end.

(* ---------- the small world the harness drives through the public API ----------
   The observed message, its node with one interface, one bus, a pool of builders (index 0 is the
   bus's own default builder, reachable through Bus.CANIDBuilder()); the bus holds a *pointer* to
   its builder, hence `w_cur` is an index and edits of a builder are seen by the bus that uses it.
   Around it, what decides whether the library ACCEPTS an operation: a sibling message on the same
   interface (message ids are unique per interface), a second node whose interface can be on the
   same bus (node ids are unique per bus), whether the bus is in the network, whether the node
   still owns its interface.  `accepted` predicts every refusal; a refused operation changes
   nothing. *)
Record world : Type := mkWorld {
  w_id : Z; w_prio : Z; w_static : Z; w_has_static : bool;
  w_attached : bool;      (* message.senderNodeInt != nil *)
  w_on_bus : bool;        (* nodeInt.parentBus != nil *)
  w_node_id : Z;
  w_builders : list (list op);
  w_cur : nat;
  w_sib_id : Z; w_sib_attached : bool;     (* sibling message on the same interface, never static *)
  w_node2_id : Z; w_on_bus2 : bool;        (* second node / interface *)
  w_in_net : bool;                         (* bus added to the network *)
  w_iface_removed : bool;                  (* Node.RemoveInterface done: the node has no interface left *)
  w_big_id : Z; w_big : bool;              (* an oversized (9-byte) message sent by the same interface:
                                              a CAN 2.0A bus refuses an interface that carries it *)
  w_static2 : option Z;
  w_gw_id : Z; w_gw_on_bus : bool; w_gw_removed : bool }.
                                           (* the node is a gateway: its SECOND interface sends a
                                              message of its own on a different bus (default
                                              builder, priority 0); nothing done to the first bus
                                              or interface may touch it *)                  (* static CAN-ID of the second node's message, if any
                                              (constant): static CAN-IDs are unique per bus *)

Inductive edit : Type :=
| EUse (k : kind) (from len : Z)           (* UseMessagePriority (len = 2) / UseMessageID / UseNodeID / UseBitMask / UseCAN2A *)
| EInsert (k : kind) (from len idx : Z)
| ERemove (idx : Z)
| ERemoveAll.

Definition apply_edit (ops : list op) (e : edit) : result (list op) :=
  match e with
  | EUse k from len => Ok (ops ++ [mkOp k from len])
  | EInsert k from len idx => insert_operation ops k from len idx
  | ERemove idx => remove_operation ops idx
  | ERemoveAll => Ok (remove_all_operations ops)
  end.

Inductive wop : Type :=
| WSetPriority (p : Z)          (* Message.SetPriority *)
| WSetStatic (x : Z)            (* Message.SetStaticCANID *)
| WUpdateID (y : Z)             (* Message.UpdateID *)
| WNodeID (z : Z)               (* Node.UpdateID *)
| WAttach | WDetach             (* NodeInterface.AddSentMessage / RemoveSentMessage *)
| WBusAdd | WBusRemove          (* Bus.AddNodeInterface / RemoveNodeInterface *)
| WDetachAll                    (* NodeInterface.RemoveAllSentMessages *)
| WBusRemoveAll                 (* Bus.RemoveAllNodeInterfaces *)
| WRemoveInterface              (* Node.RemoveInterface: takes the interface off its bus; the
                                   message keeps its sender interface and that keeps its node *)
| WBigAdd | WBigRemove          (* AddSentMessage / RemoveSentMessage of the oversized message *)
| WNetAdd | WNetRemove          (* Network.AddBus / RemoveBus of the bus: detaches nothing *)
| WBusAdd2 | WBusRemove2        (* the second node's interface joins / leaves the bus *)
| WSetBuilderB (i : nat)        (* the second bus takes pool[i] (shared builder): no effect here *)
| WSetBuilder (i : nat)         (* Bus.SetCANIDBuilder(pool[i]) *)
| WSetBuilderNil                (* Bus.SetCANIDBuilder(nil): the bus goes back to a NEW default
                                   builder, which joins the pool (Bus.CANIDBuilder() returns it) *)
| WEdit (i : nat) (e : edit).   (* an edit of pool[i]; a refused edit changes nothing *)

Fixpoint set_nth {A : Type} (i : nat) (v : A) (l : list A) : list A :=
  match i, l with
  | _, [] => []
  | O, _ :: r => v :: r
  | S i', x :: r => x :: set_nth i' v r
  end.

(* field updates *)
Definition upd_msg (w : world) (id prio st : Z) (hs : bool) : world :=
  mkWorld id prio st hs (w_attached w) (w_on_bus w) (w_node_id w) (w_builders w) (w_cur w)
    (w_sib_id w) (w_sib_attached w) (w_node2_id w) (w_on_bus2 w) (w_in_net w) (w_iface_removed w)
    (w_big_id w) (w_big w) (w_static2 w) (w_gw_id w) (w_gw_on_bus w) (w_gw_removed w).
Definition upd_links (w : world) (att onb sib onb2 innet rem : bool) : world :=
  mkWorld (w_id w) (w_prio w) (w_static w) (w_has_static w) att onb (w_node_id w) (w_builders w) (w_cur w)
    (w_sib_id w) sib (w_node2_id w) onb2 innet rem (w_big_id w) (w_big w) (w_static2 w) (w_gw_id w) (w_gw_on_bus w) (w_gw_removed w).
Definition upd_big (w : world) (big : bool) : world :=
  mkWorld (w_id w) (w_prio w) (w_static w) (w_has_static w) (w_attached w) (w_on_bus w) (w_node_id w) (w_builders w) (w_cur w)
    (w_sib_id w) (w_sib_attached w) (w_node2_id w) (w_on_bus2 w) (w_in_net w) (w_iface_removed w)
    (w_big_id w) big (w_static2 w) (w_gw_id w) (w_gw_on_bus w) (w_gw_removed w).
Definition upd_gw (w : world) (onb rem : bool) : world :=
  mkWorld (w_id w) (w_prio w) (w_static w) (w_has_static w) (w_attached w) (w_on_bus w) (w_node_id w) (w_builders w) (w_cur w)
    (w_sib_id w) (w_sib_attached w) (w_node2_id w) (w_on_bus2 w) (w_in_net w) (w_iface_removed w)
    (w_big_id w) (w_big w) (w_static2 w) (w_gw_id w) onb rem.
(* the second node's message holds this static CAN-ID on the bus *)
Definition static2_is (w : world) (x : Z) : bool :=
  match w_static2 w with Some y => x =? y | None => false end.
Definition upd_node (w : world) (nid : Z) : world :=
  mkWorld (w_id w) (w_prio w) (w_static w) (w_has_static w) (w_attached w) (w_on_bus w) nid (w_builders w) (w_cur w)
    (w_sib_id w) (w_sib_attached w) (w_node2_id w) (w_on_bus2 w) (w_in_net w) (w_iface_removed w)
    (w_big_id w) (w_big w) (w_static2 w) (w_gw_id w) (w_gw_on_bus w) (w_gw_removed w).
Definition upd_builders (w : world) (bs : list (list op)) (cur : nat) : world :=
  mkWorld (w_id w) (w_prio w) (w_static w) (w_has_static w) (w_attached w) (w_on_bus w) (w_node_id w) bs cur
    (w_sib_id w) (w_sib_attached w) (w_node2_id w) (w_on_bus2 w) (w_in_net w) (w_iface_removed w)
    (w_big_id w) (w_big w) (w_static2 w) (w_gw_id w) (w_gw_on_bus w) (w_gw_removed w).

(* does the library accept the operation in this state?  (the error it returns otherwise is the
   subject of C06; here only the fact of refusal, which decides whether the state changes) *)
Definition accepted (w : world) (o : wop) : bool :=
  match o with
  | WSetPriority _ => true
  | WSetStatic x =>
      (* verifyStaticCANID: the interface's (and its bus's) static ids are the message's own one *)
      negb (w_attached w && ((w_has_static w && (u32 x =? w_static w))
                             || (w_on_bus w && w_on_bus2 w && static2_is w (u32 x))))
  | WUpdateID y =>
      (* unchanged non-static id: nothing to do; else verifyMessageID against the interface's ids *)
      if (u32 y =? w_id w) && negb (w_has_static w) then true
      else negb (w_attached w && ((w_sib_attached w && (u32 y =? w_sib_id w)) || (w_big w && (u32 y =? w_big_id w))))
  | WNodeID z =>
      if u32 z =? w_node_id w then true
      else negb (w_on_bus w && negb (w_iface_removed w) && w_on_bus2 w && (u32 z =? w_node2_id w))
  | WAttach =>
      negb (w_attached w)
      && negb (negb (w_has_static w) && ((w_sib_attached w && (w_id w =? w_sib_id w)) || (w_big w && (w_id w =? w_big_id w))))
      && negb (w_has_static w && w_on_bus w && w_on_bus2 w && static2_is w (w_static w))
  | WDetach => w_attached w
  | WDetachAll => true
  | WBusAdd =>
      (* refused for: node already there, node id in use, an oversized message, a static CAN-ID in use *)
      negb (w_on_bus w) && negb (w_on_bus2 w && (w_node_id w =? w_node2_id w))
      && negb (w_big w)
      && negb (w_attached w && w_has_static w && w_on_bus2 w && static2_is w (w_static w))
  | WBigAdd =>
      negb (w_big w) && negb (w_on_bus w)
      && negb (w_attached w && negb (w_has_static w) && (w_id w =? w_big_id w))
      && negb (w_sib_attached w && (w_sib_id w =? w_big_id w))
  | WBigRemove => w_big w
  | WBusRemove => w_on_bus w
  | WBusRemoveAll => true
  | WRemoveInterface => negb (w_iface_removed w && w_gw_removed w)   (* the node has two interfaces *)
  | WNetAdd => negb (w_in_net w)
  | WNetRemove => w_in_net w
  | WBusAdd2 => negb (w_on_bus2 w) && negb (w_on_bus w && (w_node_id w =? w_node2_id w))
                && negb (w_on_bus w && w_attached w && w_has_static w && static2_is w (w_static w))
  | WBusRemove2 => w_on_bus2 w
  | WSetBuilderB _ => true
  | WSetBuilder i => (i <? length (w_builders w))%nat      (* the harness only passes builders it holds *)
  | WSetBuilderNil => true
  | WEdit i e =>
      (i <? length (w_builders w))%nat
      && match apply_edit (nth i (w_builders w) []) e with Ok _ => true | Err _ => false end
  end.

(* the effect of an accepted operation *)
Definition wapply (w : world) (o : wop) : world :=
  match o with
  | WSetPriority p => upd_msg w (w_id w) (u32 p) (w_static w) (w_has_static w)
  | WSetStatic x => upd_msg w (u32 x) (w_prio w) (u32 x) true
  | WUpdateID y => upd_msg w (u32 y) (w_prio w) 0 false
  | WNodeID z => upd_node w (u32 z)
  | WAttach => upd_links w true (w_on_bus w) (w_sib_attached w) (w_on_bus2 w) (w_in_net w) (w_iface_removed w)
  | WDetach => upd_links w false (w_on_bus w) (w_sib_attached w) (w_on_bus2 w) (w_in_net w) (w_iface_removed w)
  | WDetachAll => upd_big (upd_links w false (w_on_bus w) false (w_on_bus2 w) (w_in_net w) (w_iface_removed w)) false
  | WBigAdd => upd_big w true
  | WBigRemove => upd_big w false
  | WBusAdd => upd_links w (w_attached w) true (w_sib_attached w) (w_on_bus2 w) (w_in_net w) (w_iface_removed w)
  | WBusRemove => upd_links w (w_attached w) false (w_sib_attached w) (w_on_bus2 w) (w_in_net w) (w_iface_removed w)
  | WBusRemoveAll => upd_links w (w_attached w) false (w_sib_attached w) false (w_in_net w) (w_iface_removed w)
  | WRemoveInterface =>
      (* Node.RemoveInterface(0): first the observed interface; once it is gone the gateway
         interface is number 0 and goes next (it is taken off ITS bus) *)
      if w_iface_removed w then upd_gw w false true
      else upd_links w (w_attached w) false (w_sib_attached w) (w_on_bus2 w) (w_in_net w) true
  | WNetAdd => upd_links w (w_attached w) (w_on_bus w) (w_sib_attached w) (w_on_bus2 w) true (w_iface_removed w)
  | WNetRemove => upd_links w (w_attached w) (w_on_bus w) (w_sib_attached w) (w_on_bus2 w) false (w_iface_removed w)
  | WBusAdd2 => upd_links w (w_attached w) (w_on_bus w) (w_sib_attached w) true (w_in_net w) (w_iface_removed w)
  | WBusRemove2 => upd_links w (w_attached w) (w_on_bus w) (w_sib_attached w) false (w_in_net w) (w_iface_removed w)
  | WSetBuilderB _ => w
  | WSetBuilder i => upd_builders w (w_builders w) i
  | WSetBuilderNil => upd_builders w (w_builders w ++ [default_ops]) (length (w_builders w))
  | WEdit i e =>
      match apply_edit (nth i (w_builders w) []) e with
      | Ok b' => upd_builders w (set_nth i b' (w_builders w)) (w_cur w)
      | Err _ => w
      end
  end.

(* a refused operation changes nothing *)
Definition wstep (w : world) (o : wop) : world := if accepted w o then wapply w o else w.

(* the object graph GetCANID walks, rebuilt from the flat world *)
Definition view (w : world) : message :=
  mkMessage (w_id w) (w_prio w) (w_static w) (w_has_static w)
    (if w_attached w
     then Some (mkNodeInt (w_node_id w)
                  (if w_on_bus w then Some (mkBus (nth (w_cur w) (w_builders w) [])) else None))
     else None).

Definition world_can_id (w : world) : Z := get_can_id (view w).

(* GetCANID of the message sent through the gateway interface (attached to it throughout) *)
Definition gateway_can_id (w : world) : Z :=
  get_can_id (mkMessage (w_gw_id w) 0 0 false
                (Some (mkNodeInt (w_node_id w) (if w_gw_on_bus w then Some (mkBus default_ops) else None)))).

(* the sibling message is attached from the start *)
Definition init_world (mid nid sib_id node2_id big_id gw_id : Z) (static2 : option Z) (pool : list (list op)) : world :=
  mkWorld (u32 mid) 0 0 false false false (u32 nid) (default_ops :: pool) 0
    (u32 sib_id) true (u32 node2_id) false false false (u32 big_id) false static2 (u32 gw_id) true false.
