(* C14 — model of /repo/canid_builder.go (CANIDBuilder), Message.GetCANID (message.go) and the
   CAN-ID related setters the harness drives (message.go SetStaticCANID / UpdateID / SetPriority,
   node.go UpdateID, node_iterface.go AddSentMessage / RemoveSentMessage, bus.go
   AddNodeInterface / RemoveNodeInterface / SetCANIDBuilder).

   One Gallina function per Go function.  Go `uint32` arithmetic is written out explicitly over Z:
     uint32(x) of an `int`            u32 x      = x mod 2^32   (two's complement truncation)
     a >> k   (a, k uint32)           shr32 a k  = 0 when k >= 32, a / 2^k otherwise
     a << k   (a, k uint32)           shl32 a k  = 0 when k >= 32, (a * 2^k) mod 2^32 otherwise
     a & b, a | b                     Z.land, Z.lor (closed on [0, 2^32))
   `from` and `len` are Go `int`s; the public Use* constructors do not validate them, so the
   model is total over every Z (32 - len is computed on int64 in Go; since 2^32 divides 2^64 the
   wrap-around of that subtraction is absorbed by the following uint32 conversion).
   No proofs here. *)
From Coq Require Import ZArith List Bool.
Import ListNotations.
Open Scope Z_scope.

(* ---------- uint32 kernels ---------- *)
Definition W32 : Z := 2 ^ 32.
Definition u32 (x : Z) : Z := x mod W32.
Definition shr32 (a k : Z) : Z := if k <? 32 then a / 2 ^ k else 0.
Definition shl32 (a k : Z) : Z := if k <? 32 then (a * 2 ^ k) mod W32 else 0.

(* ---------- operations ---------- *)
Inductive kind : Type :=
| KPriority | KMessageID | KNodeID | KBitMask
| KUnknown.      (* any CANIDBuilderOpKind outside the four constants (the type is an int) *)

Record op : Type := mkOp { op_kind : kind; op_from : Z; op_len : Z }.

(* mask := uint32(0xFFFFFFFF) >> uint32(32-op.len) *)
Definition len_mask (len : Z) : Z := shr32 (W32 - 1) (u32 (32 - len)).

(* calculateOp *)
Definition calc_op (o : op) (prev prio mid nid : Z) : Z :=
  let can_id := u32 prev in
  match op_kind o with
  | KBitMask =>
      let mask := len_mask (op_len o) in
      Z.land can_id (shl32 mask (u32 (op_from o)))
  | k =>
      let tmp0 := match k with
                  | KPriority => u32 prio
                  | KMessageID => u32 mid
                  | KNodeID => u32 nid
                  | _ => 0
                  end in
      let mask := len_mask (op_len o) in
      let tmp1 := Z.land tmp0 mask in
      let tmp2 := shl32 tmp1 (u32 (op_from o)) in
      Z.lor can_id tmp2
  end.

(* Calculate: the for loop with accumulator canID, started at 0 *)
Fixpoint calc_loop (ops : list op) (acc prio mid nid : Z) : Z :=
  match ops with
  | [] => acc
  | o :: r => calc_loop r (calc_op o acc prio mid nid) prio mid nid
  end.
Definition calculate (ops : list op) (prio mid nid : Z) : Z := calc_loop ops 0 prio mid nid.

(* CalculatePartials: same loop, every intermediate value appended *)
Fixpoint partials_loop (ops : list op) (prev prio mid nid : Z) : list Z :=
  match ops with
  | [] => []
  | o :: r => let c := calc_op o prev prio mid nid in c :: partials_loop r c prio mid nid
  end.
Definition calculate_partials (ops : list op) (prio mid nid : Z) : list Z :=
  partials_loop ops 0 prio mid nid.

(* ---------- Use* constructors (append, no validation) ---------- *)
Definition use_message_priority (ops : list op) (from : Z) : list op := ops ++ [mkOp KPriority from 2].
Definition use_message_id (ops : list op) (from len : Z) : list op := ops ++ [mkOp KMessageID from len].
Definition use_node_id (ops : list op) (from len : Z) : list op := ops ++ [mkOp KNodeID from len].
Definition use_bit_mask (ops : list op) (from len : Z) : list op := ops ++ [mkOp KBitMask from len].
Definition use_can2a (ops : list op) : list op := ops ++ [mkOp KBitMask 0 11].

(* newDefaultCANIDBuilder *)
Definition default_ops : list op := use_can2a (use_message_id (use_node_id [] 0 4) 4 7).

(* ---------- InsertOperation / RemoveOperation ---------- *)
Inductive arg_error : Type := ErrFrom | ErrLength | ErrOpIndex.   (* ArgumentError.Name, Err = ErrOutOfBounds *)
Inductive result (A : Type) : Type := Ok (a : A) | Err (e : arg_error).
Arguments Ok {A} a.
Arguments Err {A} e.

(* slices.Insert(s, i, v) for 0 <= i <= len(s) *)
Fixpoint insert_at {A : Type} (i : nat) (v : A) (s : list A) : list A :=
  match i, s with
  | O, _ => v :: s
  | S i', x :: r => x :: insert_at i' v r
  | S _, [] => [v]          (* unreachable after validation *)
  end.

(* slices.Delete(s, i, i+1) for 0 <= i < len(s) *)
Fixpoint delete_at {A : Type} (i : nat) (s : list A) : list A :=
  match i, s with
  | _, [] => []
  | O, _ :: r => r
  | S i', x :: r => x :: delete_at i' r
  end.

Definition insert_operation (ops : list op) (k : kind) (from len idx : Z) : result (list op) :=
  if (from <? 0) || (from >? 31) then Err ErrFrom
  else if (len <? 0) || (len >? 32 - from) then Err ErrLength
  else if (idx <? 0) || (idx >? Z.of_nat (length ops)) then Err ErrOpIndex
  else Ok (insert_at (Z.to_nat idx) (mkOp k from len) ops).

Definition remove_operation (ops : list op) (idx : Z) : result (list op) :=
  if (idx <? 0) || (idx >=? Z.of_nat (length ops)) then Err ErrOpIndex
  else Ok (delete_at (Z.to_nat idx) ops).

Definition remove_all_operations (ops : list op) : list op := [].

(* ---------- Message.GetCANID ---------- *)
Record bus : Type := mkBus { b_builder : list op }.
Record node_int : Type := mkNodeInt { ni_node_id : Z; ni_parent_bus : option bus }.
Record message : Type := mkMessage {
  m_id : Z; m_priority : Z; m_static : Z; m_has_static : bool; m_sender : option node_int }.

Definition get_can_id (m : message) : Z :=
  if m_has_static m then m_static m
  else match m_sender m with
       | None => m_id m
       | Some ni =>
           match ni_parent_bus ni with
           | None => m_id m
           | Some b => calculate (b_builder b) (m_priority m) (m_id m) (ni_node_id ni)
           end
       end.

(* ---------- the small world the harness drives through the public API ----------
   one message, one node with one interface, one bus, a pool of builders (index 0 is the bus's
   own default builder, reachable through Bus.CANIDBuilder()); the bus holds a *pointer* to its
   builder, hence `w_cur` is an index and edits of a builder are seen by the bus that uses it. *)
Record world : Type := mkWorld {
  w_id : Z; w_prio : Z; w_static : Z; w_has_static : bool;
  w_attached : bool;      (* message.senderNodeInt != nil *)
  w_on_bus : bool;        (* nodeInt.parentBus != nil *)
  w_node_id : Z;
  w_builders : list (list op);
  w_cur : nat }.

Inductive edit : Type :=
| EUse (k : kind) (from len : Z)           (* UseMessagePriority (len = 2) / UseMessageID / UseNodeID / UseBitMask / UseCAN2A *)
| EInsert (k : kind) (from len idx : Z)
| ERemove (idx : Z)
| ERemoveAll.

Definition apply_edit (ops : list op) (e : edit) : result (list op) :=
  match e with
  | EUse k from len => Ok (ops ++ [mkOp k from len])
  | EInsert k from len idx => insert_operation ops k from len idx
  | ERemove idx => remove_operation ops idx
  | ERemoveAll => Ok (remove_all_operations ops)
  end.

Inductive wop : Type :=
| WSetPriority (p : Z)          (* Message.SetPriority *)
| WSetStatic (x : Z)            (* Message.SetStaticCANID, success path *)
| WUpdateID (y : Z)             (* Message.UpdateID, success path *)
| WNodeID (z : Z)               (* Node.UpdateID, success path *)
| WAttach | WDetach             (* NodeInterface.AddSentMessage / RemoveSentMessage *)
| WBusAdd | WBusRemove          (* Bus.AddNodeInterface / RemoveNodeInterface *)
| WDetachAll                    (* NodeInterface.RemoveAllSentMessages *)
| WBusRemoveAll                 (* Bus.RemoveAllNodeInterfaces *)
| WRemoveInterface              (* Node.RemoveInterface: takes the interface off its bus; the
                                   message keeps its sender interface and that keeps its node *)
| WFrame                        (* anything done to other entities: Network.AddBus / RemoveBus of
                                   the bus, attaching / detaching another node's interface or
                                   another message *)
| WSetBuilder (i : nat)         (* Bus.SetCANIDBuilder(pool[i]) *)
| WEdit (i : nat) (e : edit).   (* an edit of pool[i]; a refused edit changes nothing *)

Fixpoint set_nth {A : Type} (i : nat) (v : A) (l : list A) : list A :=
  match i, l with
  | _, [] => []
  | O, _ :: r => v :: r
  | S i', x :: r => x :: set_nth i' v r
  end.

Definition wstep (w : world) (o : wop) : world :=
  match o with
  | WSetPriority p => mkWorld (w_id w) (u32 p) (w_static w) (w_has_static w) (w_attached w) (w_on_bus w) (w_node_id w) (w_builders w) (w_cur w)
  | WSetStatic x => mkWorld (u32 x) (w_prio w) (u32 x) true (w_attached w) (w_on_bus w) (w_node_id w) (w_builders w) (w_cur w)
  | WUpdateID y => mkWorld (u32 y) (w_prio w) 0 false (w_attached w) (w_on_bus w) (w_node_id w) (w_builders w) (w_cur w)
  | WNodeID z => mkWorld (w_id w) (w_prio w) (w_static w) (w_has_static w) (w_attached w) (w_on_bus w) (u32 z) (w_builders w) (w_cur w)
  | WAttach => mkWorld (w_id w) (w_prio w) (w_static w) (w_has_static w) true (w_on_bus w) (w_node_id w) (w_builders w) (w_cur w)
  | WDetach | WDetachAll => mkWorld (w_id w) (w_prio w) (w_static w) (w_has_static w) false (w_on_bus w) (w_node_id w) (w_builders w) (w_cur w)
  | WBusAdd => mkWorld (w_id w) (w_prio w) (w_static w) (w_has_static w) (w_attached w) true (w_node_id w) (w_builders w) (w_cur w)
  | WBusRemove | WBusRemoveAll | WRemoveInterface =>
      mkWorld (w_id w) (w_prio w) (w_static w) (w_has_static w) (w_attached w) false (w_node_id w) (w_builders w) (w_cur w)
  | WFrame => w
  | WSetBuilder i => mkWorld (w_id w) (w_prio w) (w_static w) (w_has_static w) (w_attached w) (w_on_bus w) (w_node_id w) (w_builders w) i
  | WEdit i e =>
      let b := nth i (w_builders w) [] in
      match apply_edit b e with
      | Ok b' => mkWorld (w_id w) (w_prio w) (w_static w) (w_has_static w) (w_attached w) (w_on_bus w) (w_node_id w) (set_nth i b' (w_builders w)) (w_cur w)
      | Err _ => w
      end
  end.

(* the object graph GetCANID walks, rebuilt from the flat world *)
Definition view (w : world) : message :=
  mkMessage (w_id w) (w_prio w) (w_static w) (w_has_static w)
    (if w_attached w
     then Some (mkNodeInt (w_node_id w)
                  (if w_on_bus w then Some (mkBus (nth (w_cur w) (w_builders w) [])) else None))
     else None).

Definition world_can_id (w : world) : Z := get_can_id (view w).

Definition init_world (mid nid : Z) (pool : list (list op)) : world :=
  mkWorld (u32 mid) 0 0 false false false (u32 nid) (default_ops :: pool) 0.
