(* C14 — proofs about the CAN-ID builder model (all unbounded: any Z values, any op lists). *)
From Coq Require Import ZArith Znumtheory List Bool Lia ZifyBool.
From Acme.C14 Require Import Model.
Import ListNotations.
Open Scope Z_scope.

Definition in32 (x : Z) : Prop := 0 <= x < 2 ^ 32.
Definition legal (from len : Z) : Prop := 0 <= from <= 31 /\ 0 <= len <= 32 - from.
Definition value_kind (k : kind) : Prop := k = KPriority \/ k = KMessageID \/ k = KNodeID.
Definition src_of (k : kind) (prio mid nid : Z) : Z :=
  match k with KPriority => prio | KMessageID => mid | KNodeID => nid | _ => 0 end.

(* ---------- uint32 facts ---------- *)
Lemma W32_val : W32 = 2 ^ 32.
Proof. reflexivity. Qed.

Lemma pow32_pos : 0 < 2 ^ 32.
Proof. reflexivity. Qed.

Lemma u32_in32 : forall x, in32 (u32 x).
Proof. intros x. unfold in32, u32. rewrite W32_val. apply Z.mod_pos_bound. reflexivity. Qed.

Lemma u32_small : forall x, in32 x -> u32 x = x.
Proof. intros x Hx. unfold u32. rewrite W32_val. apply Z.mod_small. exact Hx. Qed.

Lemma in32_mod : forall x, in32 x <-> x = x mod 2 ^ 32.
Proof.
  intros x. split.
  - intros Hx. symmetry. apply Z.mod_small. exact Hx.
  - intros Hx. rewrite Hx. apply Z.mod_pos_bound. reflexivity.
Qed.

Lemma in32_land_l : forall a b, in32 a -> in32 (Z.land a b).
Proof.
  intros a b Ha. apply in32_mod.
  rewrite <- (Z.land_ones (Z.land a b) 32) by lia.
  rewrite <- Z.land_assoc, (Z.land_comm b (Z.ones 32)), Z.land_assoc.
  rewrite (Z.land_ones a 32) by lia.
  rewrite (Z.mod_small a) by exact Ha. reflexivity.
Qed.

Lemma in32_lor : forall a b, in32 a -> in32 b -> in32 (Z.lor a b).
Proof.
  intros a b Ha Hb. apply in32_mod.
  rewrite <- (Z.land_ones (Z.lor a b) 32) by lia.
  rewrite Z.land_lor_distr_l.
  rewrite !Z.land_ones by lia.
  rewrite (Z.mod_small a) by exact Ha. rewrite (Z.mod_small b) by exact Hb. reflexivity.
Qed.

Lemma shl32_in32 : forall a k, in32 (shl32 a k).
Proof.
  intros a k. unfold shl32. destruct (k <? 32).
  - rewrite W32_val. apply Z.mod_pos_bound. reflexivity.
  - unfold in32. lia.
Qed.

Lemma pow_split : forall len, 0 <= len <= 32 -> 2 ^ 32 = 2 ^ (32 - len) * 2 ^ len.
Proof. intros len Hl. rewrite <- Z.pow_add_r by lia. f_equal. lia. Qed.

Lemma len_mask_legal : forall len, 0 <= len <= 32 -> len_mask len = 2 ^ len - 1.
Proof.
  intros len Hl. unfold len_mask.
  rewrite u32_small by (unfold in32; lia).
  unfold shr32. rewrite W32_val.
  destruct (32 - len <? 32) eqn:Hc.
  - symmetry. apply (Z.div_unique _ _ _ (2 ^ (32 - len) - 1)).
    + left. assert (0 < 2 ^ (32 - len)) by (apply Z.pow_pos_nonneg; lia). lia.
    + rewrite (pow_split len Hl). ring.
  - assert (len = 0) by lia. subst len. reflexivity.
Qed.

Lemma mod_mod_pow : forall x len, 0 <= len <= 32 -> (x mod 2 ^ 32) mod 2 ^ len = x mod 2 ^ len.
Proof.
  intros x len Hl. symmetry. apply Zmod_div_mod.
  - apply Z.pow_pos_nonneg; lia.
  - reflexivity.
  - exists (2 ^ (32 - len)). apply pow_split. exact Hl.
Qed.

Lemma shifted_small : forall a from len, legal from len -> 0 <= a < 2 ^ len -> 0 <= a * 2 ^ from < 2 ^ 32.
Proof.
  intros a from len [Hf Hl] Ha.
  assert (Hp : 0 < 2 ^ from) by (apply Z.pow_pos_nonneg; lia).
  split; [nia|].
  apply Z.lt_le_trans with (2 ^ len * 2 ^ from); [nia|].
  rewrite <- Z.pow_add_r by lia. apply Z.pow_le_mono_r; lia.
Qed.

(* ---------- calculateOp ---------- *)
Lemma calc_op_value_lemma : forall k from len prev prio mid nid,
  value_kind k -> legal from len -> in32 prev ->
  calc_op (mkOp k from len) prev prio mid nid
  = Z.lor prev (((src_of k prio mid nid mod 2 ^ len) * 2 ^ from) mod 2 ^ 32).
Proof.
  intros k from len prev prio mid nid Hk Hleg Hprev.
  destruct Hleg as [Hf Hl].
  assert (Hgen : forall s,
             Z.lor (u32 prev) (shl32 (Z.land (u32 s) (len_mask len)) (u32 from))
             = Z.lor prev (((s mod 2 ^ len) * 2 ^ from) mod 2 ^ 32)).
  { intros s. rewrite (u32_small prev) by exact Hprev.
    rewrite len_mask_legal by lia.
    replace (2 ^ len - 1) with (Z.ones len) by (rewrite Z.ones_equiv; lia).
    rewrite Z.land_ones by lia.
    unfold u32 at 1. rewrite W32_val. rewrite mod_mod_pow by lia.
    rewrite (u32_small from) by (unfold in32; lia).
    unfold shl32. replace (from <? 32) with true by lia. rewrite W32_val. reflexivity. }
  destruct Hk as [Hk | [Hk | Hk]]; subst k; unfold calc_op; cbn [op_kind op_from op_len src_of]; apply Hgen.
Qed.

Lemma calc_op_value_nowrap_lemma : forall k from len prev prio mid nid,
  value_kind k -> legal from len -> in32 prev ->
  calc_op (mkOp k from len) prev prio mid nid
  = Z.lor prev ((src_of k prio mid nid mod 2 ^ len) * 2 ^ from).
Proof.
  intros k from len prev prio mid nid Hk Hleg Hprev.
  rewrite calc_op_value_lemma by assumption. f_equal.
  apply Z.mod_small. apply (shifted_small _ from len Hleg).
  apply Z.mod_pos_bound. destruct Hleg. apply Z.pow_pos_nonneg; lia.
Qed.

Lemma calc_op_value_bits_lemma : forall k from len prev prio mid nid i,
  value_kind k -> legal from len -> in32 prev -> 0 <= i ->
  Z.testbit (calc_op (mkOp k from len) prev prio mid nid) i
  = Z.testbit prev i || ((from <=? i) && (i <? from + len) && Z.testbit (src_of k prio mid nid) (i - from)).
Proof.
  intros k from len prev prio mid nid i Hk Hleg Hprev Hi.
  rewrite calc_op_value_nowrap_lemma by assumption.
  destruct Hleg as [Hf Hl].
  rewrite Z.lor_spec. f_equal.
  rewrite Z.mul_pow2_bits by lia.
  destruct (from <=? i) eqn:H1; cbn [andb].
  - destruct (i <? from + len) eqn:H2; cbn [andb].
    + apply Z.mod_pow2_bits_low. lia.
    + apply Z.mod_pow2_bits_high. lia.
  - apply Z.testbit_neg_r. lia.
Qed.

Lemma calc_op_mask_lemma : forall from len prev prio mid nid,
  legal from len -> in32 prev ->
  calc_op (mkOp KBitMask from len) prev prio mid nid
  = Z.land prev (((2 ^ len - 1) * 2 ^ from) mod 2 ^ 32).
Proof.
  intros from len prev prio mid nid [Hf Hl] Hprev.
  unfold calc_op; cbn [op_kind op_from op_len].
  rewrite (u32_small prev) by exact Hprev.
  rewrite len_mask_legal by lia.
  rewrite (u32_small from) by (unfold in32; lia).
  unfold shl32. replace (from <? 32) with true by lia. rewrite W32_val. reflexivity.
Qed.

Lemma calc_op_mask_nowrap_lemma : forall from len prev prio mid nid,
  legal from len -> in32 prev ->
  calc_op (mkOp KBitMask from len) prev prio mid nid = Z.land prev (Z.shiftl (Z.ones len) from).
Proof.
  intros from len prev prio mid nid Hleg Hprev.
  rewrite calc_op_mask_lemma by assumption. f_equal.
  destruct Hleg as [Hf Hl].
  rewrite Z.shiftl_mul_pow2 by lia. rewrite Z.ones_equiv.
  replace (Z.pred (2 ^ len)) with (2 ^ len - 1) by lia.
  apply Z.mod_small. apply (shifted_small _ from len); [split; lia|].
  assert (0 < 2 ^ len) by (apply Z.pow_pos_nonneg; lia). lia.
Qed.

Lemma calc_op_mask_bits_lemma : forall from len prev prio mid nid i,
  legal from len -> in32 prev -> 0 <= i ->
  Z.testbit (calc_op (mkOp KBitMask from len) prev prio mid nid) i
  = Z.testbit prev i && ((from <=? i) && (i <? from + len)).
Proof.
  intros from len prev prio mid nid i Hleg Hprev Hi.
  rewrite calc_op_mask_nowrap_lemma by assumption.
  destruct Hleg as [Hf Hl].
  rewrite Z.land_spec. f_equal.
  rewrite Z.shiftl_spec by lia.
  destruct (from <=? i) eqn:H1; cbn [andb].
  - destruct (i <? from + len) eqn:H2.
    + apply Z.ones_spec_low. lia.
    + apply Z.ones_spec_high. lia.
  - apply Z.testbit_neg_r. lia.
Qed.

(* an operation of unknown kind leaves the value unchanged *)
Lemma calc_op_unknown_lemma : forall from len prev prio mid nid,
  in32 prev -> calc_op (mkOp KUnknown from len) prev prio mid nid = prev.
Proof.
  intros from len prev prio mid nid Hprev.
  unfold calc_op; cbn [op_kind op_from op_len].
  rewrite Z.land_0_l.
  assert (Hz : shl32 0 (u32 from) = 0).
  { unfold shl32. destruct (u32 from <? 32); [rewrite Z.mul_0_l; reflexivity | reflexivity]. }
  rewrite Hz, Z.lor_0_r. apply u32_small. exact Hprev.
Qed.

(* every operation, legal or not, yields a uint32 *)
Lemma calc_op_range_lemma : forall o prev prio mid nid, in32 (calc_op o prev prio mid nid).
Proof.
  intros [k from len] prev prio mid nid. unfold calc_op; cbn [op_kind op_from op_len].
  destruct k; try (apply in32_lor; [apply u32_in32 | apply shl32_in32]).
  apply in32_land_l. apply u32_in32.
Qed.

(* ---------- Calculate ---------- *)
Lemma calc_loop_fold : forall ops acc prio mid nid,
  calc_loop ops acc prio mid nid = fold_left (fun a o => calc_op o a prio mid nid) ops acc.
Proof. induction ops as [|o r IH]; intros acc prio mid nid; cbn [calc_loop fold_left]; [reflexivity | apply IH]. Qed.

Lemma calculate_fold_lemma : forall ops prio mid nid,
  calculate ops prio mid nid = fold_left (fun a o => calc_op o a prio mid nid) ops 0.
Proof. intros. apply calc_loop_fold. Qed.

Lemma calc_loop_app : forall ops1 ops2 acc prio mid nid,
  calc_loop (ops1 ++ ops2) acc prio mid nid = calc_loop ops2 (calc_loop ops1 acc prio mid nid) prio mid nid.
Proof. induction ops1 as [|o r IH]; intros; cbn [calc_loop app]; [reflexivity | apply IH]. Qed.

Lemma calculate_snoc_lemma : forall ops o prio mid nid,
  calculate (ops ++ [o]) prio mid nid = calc_op o (calculate ops prio mid nid) prio mid nid.
Proof. intros. unfold calculate. rewrite calc_loop_app. reflexivity. Qed.

Lemma calc_loop_range : forall ops acc prio mid nid, in32 acc -> in32 (calc_loop ops acc prio mid nid).
Proof.
  induction ops as [|o r IH]; intros acc prio mid nid Hacc; cbn [calc_loop]; [exact Hacc|].
  apply IH. apply calc_op_range_lemma.
Qed.

Lemma calculate_range_lemma : forall ops prio mid nid, in32 (calculate ops prio mid nid).
Proof. intros. apply calc_loop_range. unfold in32. lia. Qed.

(* ---------- CalculatePartials ---------- *)
Lemma partials_loop_length : forall ops prev prio mid nid,
  length (partials_loop ops prev prio mid nid) = length ops.
Proof. induction ops as [|o r IH]; intros; cbn [partials_loop length]; [reflexivity | f_equal; apply IH]. Qed.

Lemma partials_length_lemma : forall ops prio mid nid,
  length (calculate_partials ops prio mid nid) = length ops.
Proof. intros. apply partials_loop_length. Qed.

Lemma partials_loop_last : forall ops prev prio mid nid d,
  ops <> [] -> last (partials_loop ops prev prio mid nid) d = calc_loop ops prev prio mid nid.
Proof.
  induction ops as [|o r IH]; intros prev prio mid nid d Hne; [congruence|].
  destruct r as [|o' r'].
  - reflexivity.
  - cbn [partials_loop calc_loop] in *.
    specialize (IH (calc_op o prev prio mid nid) prio mid nid d).
    cbn [partials_loop calc_loop] in IH. rewrite <- IH by congruence. reflexivity.
Qed.

Lemma partials_last_lemma : forall ops prio mid nid d,
  ops <> [] -> last (calculate_partials ops prio mid nid) d = calculate ops prio mid nid.
Proof. intros. apply partials_loop_last. assumption. Qed.

Lemma partials_loop_firstn : forall k ops prev prio mid nid,
  partials_loop (firstn k ops) prev prio mid nid = firstn k (partials_loop ops prev prio mid nid).
Proof.
  induction k as [|k IH]; intros ops prev prio mid nid; [reflexivity|].
  destruct ops as [|o r]; [reflexivity|].
  cbn [firstn partials_loop]. f_equal. apply IH.
Qed.

Lemma partials_prefix_lemma : forall k ops prio mid nid,
  calculate_partials (firstn k ops) prio mid nid = firstn k (calculate_partials ops prio mid nid).
Proof. intros. apply partials_loop_firstn. Qed.

Lemma partials_loop_nth : forall k ops prev prio mid nid d,
  (k < length ops)%nat ->
  nth k (partials_loop ops prev prio mid nid) d = calc_loop (firstn (S k) ops) prev prio mid nid.
Proof.
  induction k as [|k IH]; intros ops prev prio mid nid d Hk; destruct ops as [|o r]; cbn [length] in Hk; try lia.
  - reflexivity.
  - cbn [partials_loop nth]. rewrite IH by lia. reflexivity.
Qed.

Lemma partials_nth_lemma : forall k ops prio mid nid d,
  (k < length ops)%nat ->
  nth k (calculate_partials ops prio mid nid) d = calculate (firstn (S k) ops) prio mid nid.
Proof. intros. apply partials_loop_nth. assumption. Qed.

(* ---------- CAN 2.0A mask, default builder ---------- *)
Lemma can2a_value_lemma : forall ops prio mid nid,
  calculate (use_can2a ops) prio mid nid = calculate ops prio mid nid mod 2 ^ 11.
Proof.
  intros. unfold use_can2a. rewrite calculate_snoc_lemma.
  rewrite calc_op_mask_lemma; [| unfold legal; lia | apply calculate_range_lemma].
  change (((2 ^ 11 - 1) * 2 ^ 0) mod 2 ^ 32) with (Z.ones 11).
  apply Z.land_ones. lia.
Qed.

Lemma can2a_11bit_lemma : forall ops prio mid nid,
  0 <= calculate (use_can2a ops) prio mid nid < 2 ^ 11.
Proof. intros. rewrite can2a_value_lemma. apply Z.mod_pos_bound. reflexivity. Qed.

Lemma default_11bit_lemma : forall prio mid nid, 0 <= calculate default_ops prio mid nid < 2 ^ 11.
Proof. intros. unfold default_ops. apply can2a_11bit_lemma. Qed.

Lemma lor_disjoint_add : forall a b n, 0 <= n -> 0 <= a < 2 ^ n -> Z.lor a (b * 2 ^ n) = a + b * 2 ^ n.
Proof.
  intros a b n Hn Ha.
  assert (Hland : Z.land a (b * 2 ^ n) = 0).
  { apply Z.bits_inj'. intros i Hi. rewrite Z.land_spec, Z.bits_0, Z.mul_pow2_bits by lia.
    destruct (Z.ltb_spec i n) as [Hlt | Hge].
    - rewrite (Z.testbit_neg_r b) by lia. apply andb_false_r.
    - replace a with (a mod 2 ^ n) by (apply Z.mod_small; lia).
      rewrite Z.mod_pow2_bits_high by lia. reflexivity. }
  rewrite <- (Z.lxor_lor _ _ Hland). symmetry. apply Z.add_nocarry_lxor. exact Hland.
Qed.

Lemma default_value_lemma : forall prio mid nid,
  calculate default_ops prio mid nid = nid mod 2 ^ 4 + (mid mod 2 ^ 7) * 2 ^ 4.
Proof.
  intros prio mid nid. unfold default_ops. rewrite can2a_value_lemma.
  unfold use_message_id, use_node_id. rewrite calculate_snoc_lemma. cbn [app].
  assert (H1 : calculate [mkOp KNodeID 0 4] prio mid nid = nid mod 2 ^ 4).
  { unfold calculate; cbn [calc_loop].
    rewrite calc_op_value_nowrap_lemma; [| right; right; reflexivity | unfold legal; lia | unfold in32; lia].
    cbn [src_of]. rewrite Z.lor_0_l. change (2 ^ 0) with 1. lia. }
  rewrite H1.
  assert (Hn : 0 <= nid mod 2 ^ 4 < 2 ^ 4) by (apply Z.mod_pos_bound; reflexivity).
  assert (Hm : 0 <= mid mod 2 ^ 7 < 2 ^ 7) by (apply Z.mod_pos_bound; reflexivity).
  rewrite calc_op_value_nowrap_lemma; [| right; left; reflexivity | unfold legal; lia | unfold in32; lia].
  cbn [src_of]. rewrite lor_disjoint_add by lia.
  apply Z.mod_small. lia.
Qed.

(* ---------- positional insert / delete ---------- *)
Lemma insert_at_firstn_skipn : forall (A : Type) (i : nat) (v : A) (s : list A),
  (i <= length s)%nat -> insert_at i v s = firstn i s ++ v :: skipn i s.
Proof.
  intros A. induction i as [|i IH]; intros v s Hi.
  - destruct s; reflexivity.
  - destruct s as [|x r]; cbn [length] in Hi; [lia|].
    cbn [insert_at firstn skipn app]. f_equal. apply IH. lia.
Qed.

Lemma delete_at_firstn_skipn : forall (A : Type) (i : nat) (s : list A),
  delete_at i s = firstn i s ++ skipn (S i) s.
Proof.
  intros A. induction i as [|i IH]; intros s; destruct s as [|x r]; try reflexivity.
  cbn [delete_at firstn app]. f_equal. rewrite IH. reflexivity.
Qed.

Lemma insert_at_length : forall (A : Type) (i : nat) (v : A) (s : list A),
  (i <= length s)%nat -> length (insert_at i v s) = S (length s).
Proof.
  intros A i v s Hi. rewrite insert_at_firstn_skipn by exact Hi.
  rewrite app_length. cbn [length]. rewrite firstn_length_le by exact Hi. rewrite skipn_length. lia.
Qed.

Lemma insert_at_nth : forall (A : Type) (i : nat) (v : A) (s : list A) (d : A) (j : nat),
  (i <= length s)%nat ->
  nth j (insert_at i v s) d = if (j <? i)%nat then nth j s d else if (j =? i)%nat then v else nth (j - 1) s d.
Proof.
  intros A. induction i as [|i IH]; intros v s d j Hi.
  - destruct j as [|j].
    + destruct s; reflexivity.
    + replace (S j - 1)%nat with j by lia. destruct s; reflexivity.
  - destruct s as [|x r]; cbn [length] in Hi; [lia|].
    cbn [insert_at]. destruct j as [|j]; [reflexivity|].
    cbn [nth]. rewrite IH by lia.
    change (S j <? S i)%nat with (j <? i)%nat. change (S j =? S i)%nat with (j =? i)%nat.
    destruct (Nat.ltb_spec j i) as [Hlt | Hge]; [reflexivity|].
    destruct (Nat.eqb_spec j i) as [Heq | Hne]; [reflexivity|].
    destruct j as [|j]; [lia|]. cbn [Nat.sub nth]. rewrite Nat.sub_0_r. reflexivity.
Qed.

Lemma delete_at_length : forall (A : Type) (i : nat) (s : list A),
  (i < length s)%nat -> S (length (delete_at i s)) = length s.
Proof.
  intros A. induction i as [|i IH]; intros s Hi; destruct s as [|x r]; cbn [length] in *; try lia.
  - reflexivity.
  - cbn [delete_at length]. f_equal. apply IH. lia.
Qed.

Lemma delete_at_nth : forall (A : Type) (i : nat) (s : list A) (d : A) (j : nat),
  nth j (delete_at i s) d = if (j <? i)%nat then nth j s d else nth (S j) s d.
Proof.
  intros A. induction i as [|i IH]; intros s d j.
  - destruct s as [|x r]; [destruct j; reflexivity|]. reflexivity.
  - destruct s as [|x r]; [cbn [delete_at]; destruct (j <? S i)%nat; destruct j; reflexivity|].
    cbn [delete_at]. destruct j as [|j]; [reflexivity|].
    cbn [nth]. rewrite IH. change (S j <? S i)%nat with (j <? i)%nat. reflexivity.
Qed.

Definition insert_pre (ops : list op) (from len idx : Z) : Prop :=
  0 <= from <= 31 /\ 0 <= len <= 32 - from /\ 0 <= idx <= Z.of_nat (length ops).

Lemma insert_validates_lemma : forall ops k from len idx l',
  insert_operation ops k from len idx = Ok l'
  <-> insert_pre ops from len idx /\ l' = insert_at (Z.to_nat idx) (mkOp k from len) ops.
Proof.
  intros ops k from len idx l'. unfold insert_operation, insert_pre.
  destruct ((from <? 0) || (from >? 31)) eqn:H1.
  { split; [discriminate | intros [[Hf _] _]; lia]. }
  destruct ((len <? 0) || (len >? 32 - from)) eqn:H2.
  { split; [discriminate | intros [[_ [Hl _]] _]; lia]. }
  destruct ((idx <? 0) || (idx >? Z.of_nat (length ops))) eqn:H3.
  { split; [discriminate | intros [[_ [_ Hi]] _]; lia]. }
  split.
  - intros H; inversion H; subst. split; [lia | reflexivity].
  - intros [_ ->]. reflexivity.
Qed.

Lemma insert_accepts_iff_lemma : forall ops k from len idx,
  (exists l', insert_operation ops k from len idx = Ok l') <-> insert_pre ops from len idx.
Proof.
  intros. split.
  - intros [l' H]. apply insert_validates_lemma in H. tauto.
  - intros H. eexists. apply insert_validates_lemma. split; [exact H | reflexivity].
Qed.

Lemma insert_refuses_lemma : forall ops k from len idx,
  ~ insert_pre ops from len idx <-> exists e, insert_operation ops k from len idx = Err e.
Proof.
  intros. split.
  - intros Hn. destruct (insert_operation ops k from len idx) as [l'|e] eqn:E.
    + exfalso. apply Hn. apply (insert_accepts_iff_lemma ops k). eauto.
    + eauto.
  - intros [e He] Hp. apply (insert_accepts_iff_lemma ops k) in Hp. destruct Hp as [l' Hl]. congruence.
Qed.

Lemma insert_is_positional_lemma : forall ops k from len idx l',
  insert_operation ops k from len idx = Ok l' ->
  let i := Z.to_nat idx in
  l' = firstn i ops ++ mkOp k from len :: skipn i ops
  /\ length l' = S (length ops)
  /\ forall j d, nth j l' d = if (j <? i)%nat then nth j ops d
                              else if (j =? i)%nat then mkOp k from len else nth (j - 1) ops d.
Proof.
  intros ops k from len idx l' H i. apply insert_validates_lemma in H. destruct H as [[_ [_ Hi]] ->].
  assert (Hin : (i <= length ops)%nat) by (unfold i; lia).
  split; [apply insert_at_firstn_skipn; exact Hin|].
  split; [apply insert_at_length; exact Hin|].
  intros j d. apply insert_at_nth. exact Hin.
Qed.

Definition remove_pre (ops : list op) (idx : Z) : Prop := 0 <= idx < Z.of_nat (length ops).

Lemma remove_validates_lemma : forall ops idx l',
  remove_operation ops idx = Ok l' <-> remove_pre ops idx /\ l' = delete_at (Z.to_nat idx) ops.
Proof.
  intros ops idx l'. unfold remove_operation, remove_pre.
  destruct ((idx <? 0) || (idx >=? Z.of_nat (length ops))) eqn:H1.
  { split; [discriminate | intros [Hi _]; lia]. }
  split.
  - intros H; inversion H; subst. split; [lia | reflexivity].
  - intros [_ ->]. reflexivity.
Qed.

Lemma remove_accepts_iff_lemma : forall ops idx,
  (exists l', remove_operation ops idx = Ok l') <-> remove_pre ops idx.
Proof.
  intros. split.
  - intros [l' H]. apply remove_validates_lemma in H. tauto.
  - intros H. eexists. apply remove_validates_lemma. split; [exact H | reflexivity].
Qed.

Lemma remove_refuses_lemma : forall ops idx,
  ~ remove_pre ops idx <-> remove_operation ops idx = Err ErrOpIndex.
Proof.
  intros. unfold remove_operation, remove_pre.
  destruct ((idx <? 0) || (idx >=? Z.of_nat (length ops))) eqn:H1; split; intros H; try reflexivity; try lia; try discriminate.
Qed.

Lemma remove_is_positional_lemma : forall ops idx l',
  remove_operation ops idx = Ok l' ->
  let i := Z.to_nat idx in
  l' = firstn i ops ++ skipn (S i) ops
  /\ S (length l') = length ops
  /\ forall j d, nth j l' d = if (j <? i)%nat then nth j ops d else nth (S j) ops d.
Proof.
  intros ops idx l' H i. apply remove_validates_lemma in H. destruct H as [Hi ->].
  split; [apply delete_at_firstn_skipn|].
  split; [apply delete_at_length; unfold remove_pre in Hi; lia|].
  intros j d. apply delete_at_nth.
Qed.

(* ---------- GetCANID ---------- *)
Lemma get_can_id_cases_lemma : forall m,
  (m_has_static m = true -> get_can_id m = m_static m)
  /\ (m_has_static m = false -> m_sender m = None -> get_can_id m = m_id m)
  /\ (forall ni, m_has_static m = false -> m_sender m = Some ni -> ni_parent_bus ni = None ->
        get_can_id m = m_id m)
  /\ (forall ni b, m_has_static m = false -> m_sender m = Some ni -> ni_parent_bus ni = Some b ->
        get_can_id m = fold_left (fun a o => calc_op o a (m_priority m) (m_id m) (ni_node_id ni)) (b_builder b) 0).
Proof.
  intros m. unfold get_can_id. repeat split.
  - intros ->. reflexivity.
  - intros -> ->. reflexivity.
  - intros ni -> -> ->. reflexivity.
  - intros ni b -> -> ->. apply calculate_fold_lemma.
Qed.

(* the world the harness drives: what the setters do to the CAN-ID *)
Lemma world_cases_lemma : forall w,
  world_can_id w =
  if w_has_static w then w_static w
  else if w_attached w && w_on_bus w
       then calculate (nth (w_cur w) (w_builders w) []) (w_prio w) (w_id w) (w_node_id w)
       else w_id w.
Proof.
  intros w. unfold world_can_id, get_can_id, view. cbn [m_has_static m_static m_sender m_id m_priority].
  destruct (w_has_static w); [reflexivity|].
  destruct (w_attached w); [|reflexivity].
  cbn [ni_parent_bus ni_node_id andb]. destruct (w_on_bus w); reflexivity.
Qed.

(* a refused operation changes nothing; an accepted one has the modelled effect *)
Lemma wstep_refused_lemma : forall w o, accepted w o = false -> wstep w o = w.
Proof. intros w o H. unfold wstep. rewrite H. reflexivity. Qed.

Lemma wstep_accepted_lemma : forall w o, accepted w o = true -> wstep w o = wapply w o.
Proof. intros w o H. unfold wstep. rewrite H. reflexivity. Qed.

(* SetStaticCANID: when accepted the CAN-ID afterwards is the requested static id (it is refused
   when the attached message already has that id or the bus already knows it from another node) *)
Lemma world_static_lemma : forall w x,
  accepted w (WSetStatic x) = true -> world_can_id (wstep w (WSetStatic x)) = u32 x.
Proof. intros w x E. unfold wstep. rewrite E. reflexivity. Qed.

Lemma world_update_id_detached_lemma : forall w y,
  w_attached w = false -> world_can_id (wstep w (WUpdateID y)) = u32 y.
Proof.
  intros w y H. unfold wstep.
  assert (Ha : accepted w (WUpdateID y) = true).
  { cbn [accepted]. rewrite H. destruct ((u32 y =? w_id w) && negb (w_has_static w)); reflexivity. }
  rewrite Ha, world_cases_lemma.
  cbn [wapply upd_msg w_has_static w_attached w_id]. rewrite H. reflexivity.
Qed.

(* every detach path of the public API leads back to the plain message id *)
Definition detaches (o : wop) : Prop :=
  o = WDetach \/ o = WDetachAll \/ o = WBusRemove \/ o = WBusRemoveAll \/ o = WRemoveInterface.

Lemma world_detach_apply : forall w o,
  detaches o -> w_iface_removed w = false -> w_has_static w = false -> world_can_id (wapply w o) = w_id w.
Proof.
  intros w o Ho Hr Hs. rewrite world_cases_lemma.
  destruct Ho as [-> | [-> | [-> | [-> | ->]]]]; cbn [wapply]; rewrite ?Hr;
    cbn [upd_links upd_big w_has_static w_attached w_on_bus w_id];
    rewrite Hs; cbn [andb]; try reflexivity; rewrite andb_false_r; reflexivity.
Qed.

(* (the node has two interfaces; RemoveInterface takes the observed one first, hence the hypothesis
   that it is still there) *)
Lemma world_detach_lemma : forall w o,
  detaches o -> accepted w o = true -> w_iface_removed w = false -> w_has_static w = false ->
  world_can_id (wstep w o) = w_id w.
Proof. intros w o Ho Ha Hr Hs. rewrite wstep_accepted_lemma by exact Ha. apply world_detach_apply; assumption. Qed.

Lemma world_reattach_lemma : forall w o,
  detaches o -> w_has_static w = false ->
  world_can_id (wapply (wapply (wapply w o) WAttach) WBusAdd)
  = calculate (nth (w_cur w) (w_builders w) []) (w_prio w) (w_id w) (w_node_id w).
Proof.
  intros w o Ho Hs. rewrite world_cases_lemma.
  destruct Ho as [-> | [-> | [-> | [-> | ->]]]]; cbn [wapply]; try destruct (w_iface_removed w);
    cbn [wapply upd_links upd_big upd_gw w_has_static w_attached w_on_bus w_id w_prio w_node_id w_builders w_cur];
    rewrite Hs; reflexivity.
Qed.

(* the gateway message (second interface of the node, on another bus): nothing but removing that
   very interface from the node detaches it — in particular no operation on the first bus does *)
Lemma gateway_frame_lemma : forall w o,
  o <> WRemoveInterface -> w_gw_on_bus (wstep w o) = w_gw_on_bus w.
Proof.
  intros w o Ho. unfold wstep. destruct (accepted w o); [|reflexivity].
  destruct o; try reflexivity; try congruence.
  cbn [wapply]. destruct (apply_edit (nth i (w_builders w) []) e); reflexivity.
Qed.

Lemma gateway_remove_first_lemma : forall w,
  w_iface_removed w = false -> w_gw_on_bus (wstep w WRemoveInterface) = w_gw_on_bus w.
Proof.
  intros w Hr. unfold wstep. destruct (accepted w WRemoveInterface); [|reflexivity].
  cbn [wapply]. rewrite Hr. reflexivity.
Qed.

Lemma gateway_cases_lemma : forall w,
  gateway_can_id w = if w_gw_on_bus w then calculate default_ops 0 (w_gw_id w) (w_node_id w) else w_gw_id w.
Proof. intros w. unfold gateway_can_id, get_can_id. cbn. destruct (w_gw_on_bus w); reflexivity. Qed.

(* a REFUSED attach attempt (AddNodeInterface refused because of an oversized message, a static
   CAN-ID or a node id already on the bus; AddSentMessage refused) leaves the message where it was:
   an interface that is not on the bus keeps giving the plain message id *)
Lemma world_refused_attach_lemma : forall w o,
  (o = WBusAdd \/ o = WAttach) -> accepted w o = false ->
  w_has_static w = false -> w_attached w && w_on_bus w = false ->
  world_can_id (wstep w o) = w_id w.
Proof.
  intros w o _ Ha Hs Hb. rewrite wstep_refused_lemma by exact Ha.
  rewrite world_cases_lemma, Hs, Hb. reflexivity.
Qed.

(* the refusal reasons of AddNodeInterface that the model knows, each sufficient *)
Lemma bus_add_refused_lemma : forall w,
  w_big w = true \/ (w_on_bus2 w = true /\ w_node_id w = w_node2_id w) \/ w_on_bus w = true
  \/ (w_attached w = true /\ w_has_static w = true /\ w_on_bus2 w = true /\ w_static2 w = Some (w_static w)) ->
  accepted w WBusAdd = false.
Proof.
  intros w H. cbn [accepted]. unfold static2_is.
  destruct H as [H | [[H1 H2] | [H | [H1 [H2 [H3 H4]]]]]].
  - rewrite H. cbn. rewrite !andb_false_r. reflexivity.
  - rewrite H1, H2, Z.eqb_refl. cbn. rewrite andb_false_r. reflexivity.
  - rewrite H. reflexivity.
  - rewrite H1, H2, H3, H4, Z.eqb_refl. cbn. rewrite !andb_false_r. reflexivity.
Qed.

(* operations on other entities (network membership of the bus, the second node's interface, the
   second bus's builder) leave the CAN-ID alone *)
Definition frame_op (o : wop) : Prop :=
  o = WNetAdd \/ o = WNetRemove \/ o = WBusAdd2 \/ o = WBusRemove2 \/ exists i, o = WSetBuilderB i.

Lemma world_frame_lemma : forall w o, frame_op o -> world_can_id (wstep w o) = world_can_id w.
Proof.
  intros w o Ho. unfold wstep. destruct (accepted w o); [|reflexivity].
  destruct Ho as [-> | [-> | [-> | [-> | [i ->]]]]]; reflexivity.
Qed.

(* ---------- which error InsertOperation returns (the code checks from, then length, then opIndex) ---------- *)
Lemma insert_error_kind_lemma : forall ops k from len idx,
  (insert_operation ops k from len idx = Err ErrFrom <-> ~ (0 <= from <= 31))
  /\ (insert_operation ops k from len idx = Err ErrLength <-> 0 <= from <= 31 /\ ~ (0 <= len <= 32 - from))
  /\ (insert_operation ops k from len idx = Err ErrOpIndex
      <-> 0 <= from <= 31 /\ 0 <= len <= 32 - from /\ ~ (0 <= idx <= Z.of_nat (length ops))).
Proof.
  intros ops k from len idx. unfold insert_operation.
  destruct ((from <? 0) || (from >? 31)) eqn:H1.
  { repeat split; intros; try discriminate; try lia; try reflexivity. }
  destruct ((len <? 0) || (len >? 32 - from)) eqn:H2.
  { repeat split; intros; try discriminate; try lia; try reflexivity. }
  destruct ((idx <? 0) || (idx >? Z.of_nat (length ops))) eqn:H3.
  { repeat split; intros; try discriminate; try lia; try reflexivity. }
  repeat split; intros; try discriminate; lia.
Qed.

(* ---------- reachable worlds: an invariant, so that the statements are about states the library
   can be brought into and not about arbitrary records ---------- *)
Inductive wreach : world -> Prop :=
| reach_init : forall mid nid sib n2 big gw st2 pool, wreach (init_world mid nid sib n2 big gw st2 pool)
| reach_step : forall w o, wreach w -> wreach (wstep w o).

Definition winv (w : world) : Prop :=
  (w_cur w < length (w_builders w))%nat
  /\ in32 (w_id w) /\ in32 (w_prio w) /\ in32 (w_static w) /\ in32 (w_node_id w)
  /\ (w_has_static w = true -> w_static w = w_id w)
  /\ (w_has_static w = false -> w_static w = 0)
  /\ (w_big w = true -> w_on_bus w = false).

Lemma set_nth_length : forall (A : Type) i (v : A) l, length (set_nth i v l) = length l.
Proof. intros A i v l. revert i. induction l as [|x r IH]; intros [|i]; cbn [set_nth length]; try reflexivity. f_equal. apply IH. Qed.

Lemma in32_0 : in32 0.
Proof. unfold in32. lia. Qed.

Lemma winv_init : forall mid nid sib n2 big gw st2 pool, winv (init_world mid nid sib n2 big gw st2 pool).
Proof.
  intros. unfold winv, init_world. cbn [w_cur w_builders w_id w_prio w_static w_node_id w_has_static w_big w_on_bus length].
  repeat split; try apply u32_in32; try apply in32_0; try lia; try discriminate; try reflexivity.
Qed.

Ltac winv_fin :=
  repeat split; intros; try assumption; try apply u32_in32; try apply in32_0; try reflexivity;
  try discriminate; try (unfold in32 in *; lia); auto.

Lemma winv_step : forall w o, winv w -> winv (wstep w o).
Proof.
  intros w o Hinv. unfold wstep. destruct (accepted w o) eqn:Ha; [|exact Hinv].
  destruct Hinv as [Hc [Hi [Hp [Hs [Hn [Hs1 [Hs0 Hb]]]]]]].
  destruct o; cbn [wapply];
    unfold winv; cbn [w_cur w_builders w_id w_prio w_static w_node_id w_has_static w_big w_on_bus
                      upd_msg upd_links upd_node upd_builders upd_big upd_gw];
    try (winv_fin; fail);
    try (destruct (w_iface_removed w);
         cbn [w_cur w_builders w_id w_prio w_static w_node_id w_has_static w_big w_on_bus
              upd_msg upd_links upd_node upd_builders upd_big upd_gw];
         winv_fin; fail).
  - (* WBusAdd: refused when the oversized message is there *)
    winv_fin. cbn [accepted] in Ha. match goal with Hbig : w_big w = true |- _ => rewrite Hbig in Ha end.
    cbn [negb] in Ha. rewrite andb_false_r in Ha. cbn [andb] in Ha. discriminate.
  - (* WBigAdd: refused on a bus *)
    winv_fin. cbn [accepted] in Ha. destruct (w_on_bus w); [|reflexivity].
    cbn [negb] in Ha. rewrite andb_false_r in Ha. cbn [andb] in Ha. discriminate.
  - (* WSetBuilder *) cbn [accepted] in Ha. apply Nat.ltb_lt in Ha. winv_fin.
  - (* WSetBuilderNil *) winv_fin. rewrite app_length. cbn [length]. lia.
  - (* WEdit *) destruct (apply_edit (nth i (w_builders w) []) e) as [b'|]; [|winv_fin].
    cbn [w_cur w_builders w_id w_prio w_static w_node_id w_has_static w_big w_on_bus
         upd_msg upd_links upd_node upd_builders upd_big].
    winv_fin. rewrite set_nth_length. exact Hc.
Qed.

Lemma wreach_inv_lemma : forall w, wreach w -> winv w.
Proof. intros w H. induction H; [apply winv_init | apply winv_step; assumption]. Qed.

(* on reachable worlds the CAN-ID is always a uint32 ... *)
Lemma reach_can_id_in32_lemma : forall w, wreach w -> in32 (world_can_id w).
Proof.
  intros w H. destruct (wreach_inv_lemma w H) as [_ [Hi [_ [Hs _]]]]. rewrite world_cases_lemma.
  destruct (w_has_static w); [exact Hs|].
  destruct (w_attached w && w_on_bus w); [apply calculate_range_lemma | exact Hi].
Qed.

(* ... a static CAN-ID is also the message id (SetStaticCANID stores it in both; UpdateID clears it) ... *)
Lemma reach_static_is_id_lemma : forall w, wreach w -> w_has_static w = true -> world_can_id w = w_id w.
Proof.
  intros w H Hs. destruct (wreach_inv_lemma w H) as [_ [_ [_ [_ [_ [H1 _]]]]]].
  rewrite world_cases_lemma, Hs. apply H1. exact Hs.
Qed.

(* ... and the bus always has a builder of the pool: the `nth ... []` default is never used *)
Lemma reach_builder_defined_lemma : forall w, wreach w ->
  exists ops, nth_error (w_builders w) (w_cur w) = Some ops
    /\ (w_has_static w = false -> w_attached w = true -> w_on_bus w = true ->
        world_can_id w = calculate ops (w_prio w) (w_id w) (w_node_id w)).
Proof.
  intros w H. destruct (wreach_inv_lemma w H) as [Hc _].
  destruct (nth_error (w_builders w) (w_cur w)) as [ops|] eqn:E.
  - exists ops. split; [reflexivity|]. intros Hs Ha Hb. rewrite world_cases_lemma, Hs, Ha, Hb. cbn [andb].
    rewrite (nth_error_nth _ _ _ E). reflexivity.
  - apply nth_error_None in E. lia.
Qed.

(* an oversized message and the bus exclude each other in every reachable world *)
Lemma reach_big_off_bus_lemma : forall w, wreach w -> w_big w = true -> w_on_bus w = false.
Proof. intros w H. destruct (wreach_inv_lemma w H) as [_ [_ [_ [_ [_ [_ [_ Hb]]]]]]]. exact Hb. Qed.

Lemma world_nil_builder_lemma : forall w,
  w_has_static w = false -> w_attached w = true -> w_on_bus w = true ->
  world_can_id (wstep w WSetBuilderNil) = calculate default_ops (w_prio w) (w_id w) (w_node_id w).
Proof.
  intros w Hs Ha Hb. unfold wstep. cbn [accepted wapply]. rewrite world_cases_lemma.
  cbn [upd_builders w_has_static w_attached w_on_bus w_cur w_builders w_prio w_id w_node_id].
  rewrite Hs, Ha, Hb. cbn [andb]. rewrite app_nth2 by lia. rewrite Nat.sub_diag. reflexivity.
Qed.

(* ---------- hypotheses are satisfiable (non-trivial witnesses) ---------- *)
Example legal_witness : legal 31 1 /\ legal 0 32 /\ legal 4 7 /\ value_kind KMessageID /\ in32 4294967295.
Proof. unfold legal, value_kind, in32. repeat split; try lia; auto. Qed.

Example calc_op_value_example :
  calc_op (mkOp KMessageID 4 7) 3 0 4294967295 0 = 2035
  /\ calc_op (mkOp KBitMask 4 7) 4294967295 0 0 0 = 2032.
Proof. split; vm_compute; reflexivity. Qed.

Example insert_pre_witness :
  insert_pre default_ops 31 1 3 /\ remove_pre default_ops 2
  /\ insert_operation default_ops KPriority 31 1 3 = Ok (default_ops ++ [mkOp KPriority 31 1]).
Proof.
  assert (Hlen : length default_ops = 3%nat) by reflexivity.
  unfold insert_pre, remove_pre. rewrite Hlen. repeat split; try lia; reflexivity.
Qed.

Example get_can_id_witness :
  get_can_id (mkMessage 100 1 0 false (Some (mkNodeInt 3 (Some (mkBus default_ops))))) = 1603.
Proof. vm_compute. reflexivity. Qed.
