(* Extraction of the executable C15 model (getters with oracle, Markdown, order skeletons). *)
From Coq Require Import Extraction ExtrOcamlBasic ExtrOcamlString ZArith List String.
From Acme.C16 Require Import Model.
From Acme.C15 Require Import Model Mutators.
Extraction Language OCaml.
Extraction "extracted/c15_model.ml" md_raw save_raw dbc_raw walk to_net blocks o_id o_rev o_rot wf_netb clear_spaces mut_bus_name mut_node_id mut_msg_name mut_msg_id mut_msg_static mut_msg_remove_recv mut_msg_add_recv mut_enum_value_index mut_node_id_full mask_node_canids.
