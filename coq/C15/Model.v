(* C15 — ordering model of the three exports (as of /repo after ccef8ea, daf7c43, 24f19c8, cc1be29).

   A raw network [rnet] keeps every map-like field of acmelib (Network.buses, Bus.nodeInts,
   NodeInterface.sentMessages, Message.receivers, withAttributes.attAssignments,
   SignalEnum.values) as a list in ARBITRARY order.  Every Go getter that ranges over such a map
   is modelled as: take the values in the order chosen by an ORACLE (constrained only to return a
   permutation), then sort them with the getter's comparator.  [walk o r] applies all getters;
   the three exports are functions of the walked network:
     - Markdown:  the complete block model of Acme.C16 on the projection [to_net];
     - wire save: the ORDER SKELETON of saver.go — the sequence of entities (by handle) in the
       order in which saveNetwork lists them, including the reference tables collected in order
       of first use and then stably sorted (addOrderedRef + SortStableFunc);
     - DBC:       the ORDER SKELETON of exporter.go — node list, message list, signals per message,
       value tables in order of first use, attribute value lines (owner, attribute name).
   The skeletons deliberately leave out the content of each record (a deterministic function of
   the record itself, emitted without consulting any map): see props/C15/NOTES.md. *)
From Coq Require Import ZArith List String Ascii Bool Permutation.
From Acme.C16 Require Import Model.
Import ListNotations.
Local Open Scope Z_scope.

(* ---------------------------------------------------------------- the oracle *)

(* one answer per iteration site (a number) and per list *)
Definition oracle := forall A : Type, nat -> list A -> list A.
Definition valid (o : oracle) : Prop := forall A site (l : list A), Permutation (o A site l) l.

Definition o_id : oracle := fun _ _ l => l.
Definition o_rev : oracle := fun _ _ l => rev l.
Definition o_rot (k : nat) : oracle :=
  fun _ site l => let j := Nat.modulo (k + site) (S (List.length l)) in (skipn j l ++ firstn j l)%list.

(* ---------------------------------------------------------------- sort keys *)

Definition lex_leb {A B} (eqa : A -> A -> bool) (leba : A -> A -> bool) (lebb : B -> B -> bool)
  (x y : A * B) : bool :=
  if eqa (fst x) (fst y) then lebb (snd x) (snd y) else leba (fst x) (fst y).

Definition str2_leb : string * string -> string * string -> bool := lex_leb String.eqb String.leb String.leb.
Definition zstr2_leb : Z * (string * string) -> Z * (string * string) -> bool :=
  lex_leb Z.eqb Z.leb str2_leb.

(* a getter: values of the map in oracle order, sorted by the comparator on the key *)
Definition sorted_by {A K} (o : oracle) (site : nat) (key : A -> K) (kleb : K -> K -> bool)
  (l : list A) : list A :=
  isort (fun a b => kleb (key a) (key b)) (o A site l).

(* ---------------------------------------------------------------- the raw network *)

(* an attribute (as referenced by an assignment); [ra_vals]: the value map of an enum attribute
   (value -> index), in arbitrary order *)
Record rattr := { ra_h : N; ra_name : string; ra_eid : string; ra_vals : list (Z * string) }.
Record rbuilder := { bl_h : N; bl_name : string; bl_ops : list (Z * Z * Z) }.
(* a receiver: node interface [rr_num] of the node [rr_h] (node id, node attribute assignments) *)
Record rrecv := { rr_h : N; rr_name : string; rr_eid : string; rr_num : Z; rr_id : Z;
                  rr_attrs : list rattr }.

Inductive rsig :=
| RStd (h : N) (attrs : list rattr) (name desc : string) (rel : Z) (ty : sigtype) (un : option sigunit)
| REnum (h : N) (attrs : list rattr) (name desc : string) (rel size : Z) (en : sigenum)
| RMux (h : N) (attrs : list rattr) (name desc : string) (rel gcount gsize : Z) (fixed : list N)
       (groups : list (list rsig)).

Record rmsg := { rm_h : N; rm_eid : string; rm_attrs : list rattr; rm_recv : list rrecv;
                 rm_name : string; rm_desc : string; rm_static : bool; rm_canid : Z; rm_id : Z;
                 rm_size : Z; rm_byteorder : string; rm_cycle : Z; rm_sigs : list rsig }.
Record rnif := { rn_h : N; rn_attrs : list rattr; rn_name : string; rn_desc : string; rn_id : Z;
                 rn_msgs : list rmsg }.
Record rbus := { rb_h : N; rb_attrs : list rattr; rb_builder : option rbuilder;
                 rb_name : string; rb_desc : string; rb_baud : Z; rb_nifs : list rnif }.
Record rnet := { rt_name : string; rt_desc : string; rt_buses : list rbus }.

(* ---------------------------------------------------------------- the getters *)

Definition site_buses := 0%nat.
Definition site_nifs := 1%nat.
Definition site_msgs := 2%nat.
Definition site_recv := 3%nat.
Definition site_attrs := 4%nat.
Definition site_values := 5%nat.
Definition site_attr_values := 6%nat.

Definition attr_key (a : rattr) := (ra_name a, ra_eid a).
Definition recv_key (r : rrecv) := (rr_name r, rr_eid r).
Definition msg_key (m : rmsg) := (rm_id m, (rm_name m, rm_eid m)).

(* withAttributes.AttributeAssignments *)
(* EnumAttribute.Values: ranges over the value map and stores every value at its index *)
Definition walk_attr (o : oracle) (a : rattr) : rattr :=
  {| ra_h := ra_h a; ra_name := ra_name a; ra_eid := ra_eid a;
     ra_vals := sorted_by o site_attr_values (@fst Z string) Z.leb (ra_vals a) |}.
Definition get_attrs (o : oracle) (l : list rattr) : list rattr :=
  sorted_by o site_attrs attr_key str2_leb (map (walk_attr o) l).
(* SignalEnum.Values *)
Definition walk_enum (o : oracle) (e : sigenum) : sigenum :=
  {| se_id := se_id e; se_name := se_name e; se_desc := se_desc e; se_maxindex := se_maxindex e;
     se_values := sorted_by o site_values ev_index Z.leb (se_values e) |}.

Fixpoint walk_sig (o : oracle) (s : rsig) : rsig :=
  match s with
  | RStd h at_ n d r ty un => RStd h (get_attrs o at_) n d r ty un
  | REnum h at_ n d r sz en => REnum h (get_attrs o at_) n d r sz (walk_enum o en)
  | RMux h at_ n d r gc gs fx groups =>
      RMux h (get_attrs o at_) n d r gc gs fx (map (map (walk_sig o)) groups)
  end.

Definition walk_recv (o : oracle) (r : rrecv) : rrecv :=
  {| rr_h := rr_h r; rr_name := rr_name r; rr_eid := rr_eid r; rr_num := rr_num r; rr_id := rr_id r;
     rr_attrs := get_attrs o (rr_attrs r) |}.

(* Message.Receivers / NodeInterface.SentMessages / Bus.NodeInterfaces / Network.Buses *)
Definition walk_msg (o : oracle) (m : rmsg) : rmsg :=
  {| rm_h := rm_h m; rm_eid := rm_eid m; rm_attrs := get_attrs o (rm_attrs m);
     rm_recv := sorted_by o site_recv recv_key str2_leb (map (walk_recv o) (rm_recv m));
     rm_name := rm_name m; rm_desc := rm_desc m; rm_static := rm_static m; rm_canid := rm_canid m;
     rm_id := rm_id m; rm_size := rm_size m; rm_byteorder := rm_byteorder m; rm_cycle := rm_cycle m;
     rm_sigs := map (walk_sig o) (rm_sigs m) |}.
Definition walk_nif (o : oracle) (x : rnif) : rnif :=
  {| rn_h := rn_h x; rn_attrs := get_attrs o (rn_attrs x); rn_name := rn_name x; rn_desc := rn_desc x;
     rn_id := rn_id x;
     rn_msgs := sorted_by o site_msgs msg_key zstr2_leb (map (walk_msg o) (rn_msgs x)) |}.
Definition walk_bus (o : oracle) (b : rbus) : rbus :=
  {| rb_h := rb_h b; rb_attrs := get_attrs o (rb_attrs b); rb_builder := rb_builder b;
     rb_name := rb_name b; rb_desc := rb_desc b; rb_baud := rb_baud b;
     rb_nifs := sorted_by o site_nifs rn_id Z.leb (map (walk_nif o) (rb_nifs b)) |}.
Definition walk (o : oracle) (r : rnet) : rnet :=
  {| rt_name := rt_name r; rt_desc := rt_desc r;
     rt_buses := sorted_by o site_buses rb_name String.leb (map (walk_bus o) (rt_buses r)) |}.

(* ---------------------------------------------------------------- Markdown *)

Fixpoint to_sig (s : rsig) : sig :=
  match s with
  | RStd _ _ n d r ty un => SStd n d r ty un
  | REnum _ _ n d r sz en => SEnum n d r sz en
  | RMux _ _ n d r gc gs _ groups => SMux n d r gc gs (map (map to_sig) groups)
  end.
Definition to_msg (m : rmsg) : msg :=
  {| m_name := rm_name m; m_desc := rm_desc m; m_static := rm_static m; m_canid := rm_canid m;
     m_id := rm_id m; m_size := rm_size m; m_byteorder := rm_byteorder m; m_cycle := rm_cycle m;
     m_receivers := map rr_name (rm_recv m); m_sigs := map to_sig (rm_sigs m) |}.
Definition to_nif (x : rnif) : nif :=
  {| n_name := rn_name x; n_desc := rn_desc x; n_id := rn_id x; n_msgs := map to_msg (rn_msgs x) |}.
Definition to_bus (b : rbus) : bus :=
  {| b_name := rb_name b; b_desc := rb_desc b; b_baud := rb_baud b; b_nifs := map to_nif (rb_nifs b) |}.
Definition to_net (r : rnet) : net :=
  {| nt_name := rt_name r; nt_desc := rt_desc r; nt_buses := map to_bus (rt_buses r) |}.

(* ExportToMarkdown on a raw network *)
Definition md_raw (o : oracle) (r : rnet) : result (list block) := md (to_net (walk o r)).

(* ---------------------------------------------------------------- clearSpaces *)
(* helpers.go clearSpaces: strings.ReplaceAll(strings.TrimSpace(s), " ", "_") (ASCII white space);
   the DBC exporter writes and KEYS names in this form *)
Definition is_ws (c : ascii) : bool :=
  let n := nat_of_ascii c in orb (Nat.eqb n 32) (andb (Nat.leb 9 n) (Nat.leb n 13)).
Fixpoint trim_left (s : string) : string :=
  match s with
  | EmptyString => EmptyString
  | String c r => if is_ws c then trim_left r else s
  end.
Fixpoint srev_acc (acc s : string) : string :=
  match s with EmptyString => acc | String c r => srev_acc (String c acc) r end.
Definition srev (s : string) : string := srev_acc EmptyString s.
Definition clear_spaces (s : string) : string :=
  map_string (fun c => if Ascii.eqb c space then "_"%char else c) (srev (trim_left (srev (trim_left s)))).

(* ---------------------------------------------------------------- events of the skeletons *)

Inductive ev :=
| EBus (h : N) | ENif (node : N) | EMsg (h : N) | ESig (h : N)
| EAsg (a : rattr)                     (* saver: attribute assignment (its attribute) *)
| EAsgN (kind : nat) (owner : N) (a : rattr)  (* DBC: BA_ line: 0 network 1 node 2 message 3 signal, owner, attribute *)
| EDef (kind : nat) (name : string) (vals : list string)  (* DBC: BA_DEF_ line (clearSpaces name, enum values) *)
| EComment (kind : nat) (owner : N)   (* DBC: CM_ line *)
| EValEnc (sig : N) (idx : list Z)    (* DBC: VAL_ line of an enum signal: value indexes in order *)
| EExt (muxor muxed : string) (ranges : list (Z * Z))  (* DBC: SG_MUL_VAL_ line *)
| EOp (kind from len : Z)             (* saver: CAN-ID builder operation *)
| EPay (sig : N) (rel : Z)            (* saver: payload reference (signal, relative start) *)
| EFixed (sig : N)                    (* saver: fixed signal id of a multiplexer *)
| EGroup                              (* saver: next group payload of a multiplexer *)
| EAttrVal (v : string)               (* saver: value of an enum attribute *)
| ERecvN (name : string)              (* DBC: receiver written on the signal lines of a message *)
| EUse (e : sigenum)                  (* DBC: exportEnumSignal registers the enum (internal) *)
| ERecv (node : N) (num : Z)
| ERef (table : nat) (h : N)           (* 0 builders 1 nodes 2 types 3 units 4 enums 5 attributes *)
| EVal (index : Z)
| ELab (label : string).               (* DBC value table: name and values *)

Definition sig_h (s : rsig) : N :=
  match s with RStd h _ _ _ _ _ _ => h | REnum h _ _ _ _ _ _ => h | RMux h _ _ _ _ _ _ _ _ => h end.
Definition sig_attrs (s : rsig) : list rattr :=
  match s with RStd _ a _ _ _ _ _ => a | REnum _ a _ _ _ _ _ => a | RMux _ a _ _ _ _ _ _ _ => a end.
Definition rsig_name (s : rsig) : string :=
  match s with RStd _ _ n _ _ _ _ => n | REnum _ _ n _ _ _ _ => n | RMux _ _ n _ _ _ _ _ _ => n end.

Definition mem_N (x : N) (l : list N) : bool := existsb (N.eqb x) l.
Definition mem_str (x : string) (l : list string) : bool := existsb (String.eqb x) l.

(* ---------------------------------------------------------------- saver skeleton *)

Definition rsig_rel (s : rsig) : Z :=
  match s with RStd _ _ _ _ r _ _ => r | REnum _ _ _ _ r _ _ => r | RMux _ _ _ _ r _ _ _ _ => r end.
Definition rsig_desc (s : rsig) : string :=
  match s with RStd _ _ _ d _ _ _ => d | REnum _ _ _ d _ _ _ => d | RMux _ _ _ d _ _ _ _ _ => d end.
Definition is_mux (s : rsig) : bool := match s with RMux _ _ _ _ _ _ _ _ _ => true | _ => false end.

(* saveSignalLayout: one reference per signal of the layout, in layout order *)
Definition pay_refs (l : list rsig) : list ev := map (fun x => EPay (sig_h x) (rsig_rel x)) l.

(* first occurrences, by handle *)
Fixpoint dedup_N (seen : list N) (l : list N) : list N :=
  match l with
  | [] => []
  | x :: r => if mem_N x seen then dedup_N seen r else x :: dedup_N (x :: seen) r
  end.

(* saveSignal / saveMultiplexerSignal (events in the field order of the saved message: the
   multiplexed signals, the fixed signal ids, the group payloads): a fixed signal is saved the first
   time it is met, every other member of a group is saved once per group it belongs to *)
Fixpoint save_sig (s : rsig) : list ev :=
  (ESig (sig_h s) :: map EAsg (sig_attrs s))
  ++ match s with
     | RMux _ _ _ _ _ _ _ fx groups =>
         ((fix sg (seen : list N) (gs : list (list rsig)) : list ev :=
            match gs with
            | [] => []
            | g :: r =>
                let res :=
                  (fix sl (seen : list N) (l : list rsig) : list ev * list N :=
                     match l with
                     | [] => ([], seen)
                     | x :: r' =>
                         if andb (mem_N (sig_h x) fx) (mem_N (sig_h x) seen) then sl seen r'
                         else let rest := sl (sig_h x :: seen) r' in
                              ((save_sig x ++ fst rest)%list, snd rest)
                     end) seen g in
                (fst res ++ sg (snd res) r)%list
            end) [] groups
          ++ map EFixed (dedup_N [] (filter (fun h => mem_N h fx) (map sig_h (List.concat groups))))
          ++ flat_map (fun g => EGroup :: pay_refs g) groups)%list
     | _ => []
     end.

Definition save_msg (m : rmsg) : list ev :=
  (EMsg (rm_h m) :: map EAsg (rm_attrs m))
  ++ flat_map save_sig (rm_sigs m)
  ++ pay_refs (rm_sigs m)
  ++ map (fun r => ERecv (rr_h r) (rr_num r)) (rm_recv m).
Definition save_nif (x : rnif) : list ev := ENif (rn_h x) :: flat_map save_msg (rn_msgs x).
Definition save_bus (b : rbus) : list ev :=
  (EBus (rb_h b) :: map EAsg (rb_attrs b)) ++ flat_map save_nif (rb_nifs b).

(* referenced entities in order of first use *)
Definition sigs_of_rnet (r : rnet) : list rsig :=
  flat_map rm_sigs (flat_map rn_msgs (flat_map rb_nifs (rt_buses r))).
Definition builders_used (r : rnet) : list rbuilder :=
  flat_map (fun b => match rb_builder b with Some x => [x] | None => [] end) (rt_buses r).

(* nodes: the node of every interface, then (81f8653) the node of every receiver of its messages *)
Record rnode := { nd_h : N; nd_id : Z; nd_attrs : list rattr }.
Definition nodes_used (r : rnet) : list rnode :=
  flat_map (fun x =>
      {| nd_h := rn_h x; nd_id := rn_id x; nd_attrs := rn_attrs x |}
      :: flat_map (fun m => map (fun rc => {| nd_h := rr_h rc; nd_id := rr_id rc; nd_attrs := rr_attrs rc |})
                             (rm_recv m)) (rn_msgs x))
    (flat_map rb_nifs (rt_buses r)).

Definition save_nodes (r : rnet) : list rnode :=
  isort (fun a b => nd_id a <=? nd_id b) (dedup nd_h [] (nodes_used r)).
Definition attrs_in (evs : list ev) : list rattr :=
  flat_map (fun e => match e with EAsg a => [a] | _ => [] end) evs.

(* saveNetwork *)
Definition save_skel (r : rnet) : list ev :=
  let body := flat_map save_bus (rt_buses r) in
  let nodes := flat_map (fun x => ERef 1 (nd_h x) :: map EAsg (nd_attrs x)) (save_nodes r) in
  let n := to_net r in
  (body
   ++ flat_map (fun x => ERef 0 (bl_h x) :: map (fun op => EOp (fst (fst op)) (snd (fst op)) (snd op)) (bl_ops x))
        (isort (fun a b => String.leb (bl_name a) (bl_name b)) (dedup bl_h [] (builders_used r)))
   ++ nodes
   ++ map (fun t => ERef 2 (st_id t))
        (isort (fun a b => String.leb (st_name a) (st_name b)) (dedup st_id [] (all_types n)))
   ++ map (fun u => ERef 3 (su_id u))
        (isort (fun a b => String.leb (su_name a) (su_name b)) (dedup su_id [] (all_units n)))
   ++ flat_map (fun e => ERef 4 (se_id e) :: map (fun v => EVal (ev_index v)) (se_values e))
        (isort (fun a b => String.leb (se_name a) (se_name b)) (dedup se_id [] (all_enums n)))
   ++ flat_map (fun a => ERef 5 (ra_h a) :: map (fun v => EAttrVal (snd v)) (ra_vals a))
        (isort (fun a b => String.leb (ra_name a) (ra_name b))
           (dedup ra_h [] (attrs_in (body ++ nodes)))))%list.

Definition save_raw (o : oracle) (r : rnet) : list ev := save_skel (walk o r).

(* ---------------------------------------------------------------- DBC skeleton *)

Definition cname (s : rsig) : string := clear_spaces (rsig_name s).

(* group ids in which a (sanitised) name occurs, one per occurrence (two signals of one group whose
   names collide after clearSpaces repeat the id); consecutive ids are merged into ranges *)
Fixpoint groups_of (cn : string) (gid : Z) (gs : list (list rsig)) : list Z :=
  match gs with
  | [] => []
  | g :: r => (map (fun _ => gid) (filter (fun x => String.eqb (cname x) cn) g)
               ++ groups_of cn (gid + 1) r)%list
  end.
Fixpoint ranges_aux (from curr : Z) (rest : list Z) : list (Z * Z) :=
  match rest with
  | [] => [(from, curr)]
  | next :: r => if next =? curr + 1 then ranges_aux from next r
                 else (from, curr) :: ranges_aux next next r
  end.
Definition ranges (ids : list Z) : list (Z * Z) :=
  match ids with [] => [] | x :: r => ranges_aux x x r end.
Fixpoint dedup_str (seen : list string) (l : list string) : list string :=
  match l with
  | [] => []
  | x :: r => if mem_str x seen then dedup_str seen r else x :: dedup_str (x :: seen) r
  end.

(* the SG_MUL_VAL_ entries a multiplexer adds after its multiplexed signals were exported *)
Definition ext_events (nested0 : bool) (muxname : string) (groups : list (list rsig)) : list ev :=
  let all := List.concat groups in
  let nested := orb nested0 (existsb is_mux all) in
  let names := dedup_str [] (map cname all) in
  let extended := existsb (fun cn => Nat.ltb 1 (List.length (groups_of cn 0 groups))) names in
  if andb (negb extended) (negb nested) then []
  else flat_map (fun cn =>
         let ids := groups_of cn 0 groups in
         if andb (negb nested) (Nat.eqb (List.length ids) 1) then []
         else [EExt (clear_spaces muxname) cn (ranges ids)]) names.

Definition comment_ev (kind : nat) (owner : N) (desc : string) : list ev :=
  if String.eqb desc "" then [] else [EComment kind owner].

(* exportSignal / exportMultiplexerSignal: [muxed]: the signal is held by a multiplexer;
   [multi]: the message has more than one top-level multiplexer.  A multiplexed signal is exported
   the first time its clearSpaces name is met while walking the groups. *)
Fixpoint dbc_sig (muxed multi : bool) (s : rsig) : list ev :=
  (comment_ev 3 (sig_h s) (rsig_desc s)
   ++ map (fun a => EAsgN 3 (sig_h s) a) (sig_attrs s) ++ [ESig (sig_h s)]
   ++ match s with
      | REnum _ _ _ _ _ _ en => [EUse en; EValEnc (sig_h s) (map ev_index (se_values en))]
      | _ => []
      end)
  ++ match s with
     | RMux _ _ n _ _ _ _ _ groups =>
         ((fix dg (seen : list string) (gs : list (list rsig)) : list ev :=
            match gs with
            | [] => []
            | g :: r =>
                let res :=
                  (fix dl (seen : list string) (l : list rsig) : list ev * list string :=
                     match l with
                     | [] => ([], seen)
                     | x :: r' =>
                         if mem_str (cname x) seen then dl seen r'
                         else let rest := dl (cname x :: seen) r' in
                              ((dbc_sig true multi x ++ fst rest)%list, snd rest)
                     end) seen g in
                (fst res ++ dg (snd res) r)%list
            end) [] groups
          ++ ext_events (orb muxed multi) n groups)%list
     | _ => []
     end.

Definition dbc_msg (m : rmsg) : list ev :=
  let multi := Nat.ltb 1 (List.length (filter is_mux (rm_sigs m))) in
  (comment_ev 2 (rm_h m) (rm_desc m)
   ++ map (fun a => EAsgN 2 (rm_h m) a) (rm_attrs m) ++ [EMsg (rm_h m)]
   ++ match rm_sigs m with
      | [] => []
      | _ => map (fun rc => ERecvN (clear_spaces (rr_name rc))) (rm_recv m)
      end
   ++ flat_map (dbc_sig false multi) (rm_sigs m))%list.
Definition dbc_nif (x : rnif) : list ev :=
  (comment_ev 1 (rn_h x) (rn_desc x)
   ++ map (fun a => EAsgN 1 (rn_h x) a) (rn_attrs x) ++ [ENif (rn_h x)]
   ++ flat_map dbc_msg (rn_msgs x))%list.

Local Open Scope string_scope.
Definition enum_label (e : sigenum) : string :=
  se_name e ++ join "" (map (fun v => "/" ++ dec (ev_index v) ++ ":" ++ ev_name v) (se_values e)).
Local Close Scope string_scope.

(* the enums registered while walking: a multiplexed signal whose clearSpaces name was already met
   in its multiplexer is not exported, so its enum is not registered by it *)
Definition enums_in (evs : list ev) : list sigenum :=
  flat_map (fun e => match e with EUse x => [x] | _ => [] end) evs.

(* attribute definitions: the first attribute met for every (kind, clearSpaces name) *)
Fixpoint dedup_defs (seen : list (nat * string)) (l : list (nat * rattr)) : list (nat * rattr) :=
  match l with
  | [] => []
  | x :: r =>
      let k := (fst x, clear_spaces (ra_name (snd x))) in
      if existsb (fun y => andb (Nat.eqb (fst k) (fst y)) (String.eqb (snd k) (snd y))) seen
      then dedup_defs seen r else x :: dedup_defs (k :: seen) r
  end.
Definition asg_keys (evs : list ev) : list (nat * rattr) :=
  flat_map (fun e => match e with EAsgN k _ a => [(k, a)] | _ => [] end) evs.

(* exporter.exportBus: the walk, the attribute definitions, the value tables in order of first use *)
Definition dbc_skel (b : rbus) : list ev :=
  let body := (comment_ev 0 (rb_h b) (rb_desc b)
               ++ map (fun a => EAsgN 0 (rb_h b) a) (rb_attrs b)
               ++ flat_map dbc_nif (rb_nifs b))%list in
  (body
   ++ map (fun p => EDef (fst p) (clear_spaces (ra_name (snd p))) (map snd (ra_vals (snd p))))
        (dedup_defs [] (asg_keys body))
   ++ map (fun e => ELab (enum_label e)) (dedup se_id [] (enums_in body)))%list.

(* ExportBus for every bus of the network, in Buses() order *)
Definition dbc_raw (o : oracle) (r : rnet) : list (list ev) := map dbc_skel (rt_buses (walk o r)).

(* ---------------------------------------------------------------- record content *)
(* What the exporters copy into each emitted record besides the repeated fields above: scalar
   fields of the entity itself.  These functions take NO oracle: the content of a record is a
   function of the entity alone, so the byte-level claim rests only on the encoders (proto.Marshal
   without map fields, dbc.Write) being functions of the record tree. *)
Inductive record :=
| RecBus (name desc : string) (baud : Z) (builder : option N)
| RecNode (name desc : string) (id : Z)
| RecMsg (name desc eid : string) (static : bool) (canid id size : Z) (byteorder : string) (cycle : Z)
| RecSig (name desc : string) (rel : Z) (kind : nat).
Definition record_of_bus (b : rbus) : record :=
  RecBus (rb_name b) (rb_desc b) (rb_baud b) (match rb_builder b with Some x => Some (bl_h x) | None => None end).
Definition record_of_nif (x : rnif) : record := RecNode (rn_name x) (rn_desc x) (rn_id x).
Definition record_of_msg (m : rmsg) : record :=
  RecMsg (rm_name m) (rm_desc m) (rm_eid m) (rm_static m) (rm_canid m) (rm_id m) (rm_size m)
    (rm_byteorder m) (rm_cycle m).
Definition record_of_sig (s : rsig) : record :=
  RecSig (rsig_name s) (rsig_desc s) (rsig_rel s)
    (match s with RStd _ _ _ _ _ _ _ => 0 | REnum _ _ _ _ _ _ _ => 1 | RMux _ _ _ _ _ _ _ _ _ => 2 end)%nat.
(* all records in emission order *)
Definition records_of (r : rnet) : list record :=
  flat_map (fun b => record_of_bus b
     :: flat_map (fun x => record_of_nif x
          :: flat_map (fun m => record_of_msg m :: map record_of_sig (rm_sigs m)) (rn_msgs x)) (rb_nifs b))
    (rt_buses r).
Definition records_raw (o : oracle) (r : rnet) : list record := records_of (walk o r).

(* ExportNetwork: one file per bus, each the ExportBus output of that bus, in Buses() order.  The
   goroutines that write the files (and their number) are not in the model: the number of CPUs is
   varied on the implementation side only. *)
Definition export_network_raw (o : oracle) (r : rnet) : list (list ev) := dbc_raw o r.

(* ---------------------------------------------------------------- histories *)

(* An application interleaves READS (exports, getters — each with its own map iteration orders)
   with CHANGES of the model.  In the model a read has no access to the state it could change:
   the state after a history is the state after its changes alone. *)
Definition outputs (o : oracle) (r : rnet) := (md_raw o r, save_raw o r, export_network_raw o r).

Inductive hev :=
| HRead (o : oracle)
| HMut (f : rnet -> rnet).

Fixpoint hrun (evs : list hev) (s : rnet) : rnet :=
  match evs with
  | [] => s
  | HRead _ :: r => hrun r s
  | HMut f :: r => hrun r (f s)
  end.

Definition changes_only (evs : list hev) : list hev :=
  filter (fun e => match e with HMut _ => true | HRead _ => false end) evs.

(* ---------------------------------------------------------------- boolean well-formedness *)
(* evaluated by the correspondence driver on every raw network dumped from the implementation
   (Acme.C15.Proofs.wf_netb_sound: wf_netb r = true -> wf_net r) *)
Fixpoint nodupb {A} (eqb : A -> A -> bool) (l : list A) : bool :=
  match l with [] => true | x :: r => andb (negb (existsb (eqb x) r)) (nodupb eqb r) end.

Definition str2_eqb (a b : string * string) : bool := andb (String.eqb (fst a) (fst b)) (String.eqb (snd a) (snd b)).
Definition zstr2_eqb (a b : Z * (string * string)) : bool := andb (Z.eqb (fst a) (fst b)) (str2_eqb (snd a) (snd b)).
Definition wf_attrsb (l : list rattr) : bool :=
  andb (nodupb str2_eqb (map attr_key l)) (forallb (fun a => nodupb Z.eqb (map (@fst Z string) (ra_vals a))) l).
Definition wf_enumb (e : sigenum) : bool := nodupb Z.eqb (map ev_index (se_values e)).
Fixpoint wf_sigb (s : rsig) : bool :=
  match s with
  | RStd _ a _ _ _ _ _ => wf_attrsb a
  | REnum _ a _ _ _ _ e => andb (wf_attrsb a) (wf_enumb e)
  | RMux _ a _ _ _ _ _ _ g => andb (wf_attrsb a) (forallb (forallb wf_sigb) g)
  end.
Definition wf_msgb (m : rmsg) : bool :=
  andb (wf_attrsb (rm_attrs m))
    (andb (nodupb str2_eqb (map recv_key (rm_recv m)))
       (andb (forallb (fun rc => wf_attrsb (rr_attrs rc)) (rm_recv m)) (forallb wf_sigb (rm_sigs m)))).
Definition wf_nifb (x : rnif) : bool :=
  andb (wf_attrsb (rn_attrs x))
    (andb (nodupb zstr2_eqb (map msg_key (rn_msgs x))) (forallb wf_msgb (rn_msgs x))).
Definition wf_busb (b : rbus) : bool :=
  andb (wf_attrsb (rb_attrs b))
    (andb (nodupb Z.eqb (map rn_id (rb_nifs b))) (forallb wf_nifb (rb_nifs b))).
Definition wf_netb (r : rnet) : bool :=
  andb (nodupb String.eqb (map rb_name (rt_buses r))) (forallb wf_busb (rt_buses r)).

(* ---------------------------------------------------------------- entity ids erased *)
(* Two builds of one specification have different (random) entity ids.  [erase_net] forgets them:
   what remains identifies every entity by its handle. *)
Definition erase_attr (a : rattr) : rattr :=
  {| ra_h := ra_h a; ra_name := ra_name a; ra_eid := EmptyString; ra_vals := ra_vals a |}.
Definition erase_recv (r : rrecv) : rrecv :=
  {| rr_h := rr_h r; rr_name := rr_name r; rr_eid := EmptyString; rr_num := rr_num r; rr_id := rr_id r;
     rr_attrs := map erase_attr (rr_attrs r) |}.
Fixpoint erase_sig (s : rsig) : rsig :=
  match s with
  | RStd h a n d r ty un => RStd h (map erase_attr a) n d r ty un
  | REnum h a n d r sz en => REnum h (map erase_attr a) n d r sz en
  | RMux h a n d r gc gs fx groups => RMux h (map erase_attr a) n d r gc gs fx (map (map erase_sig) groups)
  end.
Definition erase_msg (m : rmsg) : rmsg :=
  {| rm_h := rm_h m; rm_eid := EmptyString; rm_attrs := map erase_attr (rm_attrs m);
     rm_recv := map erase_recv (rm_recv m); rm_name := rm_name m; rm_desc := rm_desc m;
     rm_static := rm_static m; rm_canid := rm_canid m; rm_id := rm_id m; rm_size := rm_size m;
     rm_byteorder := rm_byteorder m; rm_cycle := rm_cycle m; rm_sigs := map erase_sig (rm_sigs m) |}.
Definition erase_nif (x : rnif) : rnif :=
  {| rn_h := rn_h x; rn_attrs := map erase_attr (rn_attrs x); rn_name := rn_name x; rn_desc := rn_desc x;
     rn_id := rn_id x; rn_msgs := map erase_msg (rn_msgs x) |}.
Definition erase_bus (b : rbus) : rbus :=
  {| rb_h := rb_h b; rb_attrs := map erase_attr (rb_attrs b); rb_builder := rb_builder b; rb_name := rb_name b;
     rb_desc := rb_desc b; rb_baud := rb_baud b; rb_nifs := map erase_nif (rb_nifs b) |}.
Definition erase_net (r : rnet) : rnet :=
  {| rt_name := rt_name r; rt_desc := rt_desc r; rt_buses := map erase_bus (rt_buses r) |}.

(* the exports with the ids forgotten (Markdown never shows an id) *)
Definition save_noids (o : oracle) (r : rnet) : list ev := save_skel (erase_net (walk o r)).
Definition dbc_noids (o : oracle) (r : rnet) : list (list ev) := map dbc_skel (rt_buses (erase_net (walk o r))).

(* ---------------------------------------------------------------- model-level mutators *)
(* the changes of the history leg that move an entity in a sorted getter: Bus.UpdateName,
   Node.UpdateID, Message.UpdateID / SetStaticCANID (the other generated changes - renaming nodes,
   messages, signals, types, units, enums, priorities, cycle times - rewrite scalars that are in no
   sort key of this model; removing and re-adding an interface / a receiver permutes a map-like list) *)
Definition mut_bus_name (h : N) (new : string) (r : rnet) : rnet :=
  {| rt_name := rt_name r; rt_desc := rt_desc r;
     rt_buses := map (fun b => if N.eqb (rb_h b) h
                               then {| rb_h := rb_h b; rb_attrs := rb_attrs b; rb_builder := rb_builder b; rb_name := new;
                                       rb_desc := rb_desc b; rb_baud := rb_baud b; rb_nifs := rb_nifs b |}
                               else b) (rt_buses r) |}.
Definition set_nif_id (h : N) (new : Z) (x : rnif) : rnif :=
  if N.eqb (rn_h x) h
  then {| rn_h := rn_h x; rn_attrs := rn_attrs x; rn_name := rn_name x; rn_desc := rn_desc x; rn_id := new;
          rn_msgs := rn_msgs x |}
  else x.
Definition mut_node_id (h : N) (new : Z) (r : rnet) : rnet :=
  {| rt_name := rt_name r; rt_desc := rt_desc r;
     rt_buses := map (fun b => {| rb_h := rb_h b; rb_attrs := rb_attrs b; rb_builder := rb_builder b; rb_name := rb_name b;
                                  rb_desc := rb_desc b; rb_baud := rb_baud b;
                                  rb_nifs := map (set_nif_id h new) (rb_nifs b) |}) (rt_buses r) |}.
