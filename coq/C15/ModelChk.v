(* vm_compute cross-check of a sample (DESIGN 3.3), C15: the raw network dumped from the
   implementation is well-formed, its Markdown under the REVERSING oracle equals the observed blocks,
   and the skeletons under two oracles coincide and have the observed numbers of events. *)
From Coq Require Import ZArith List String Bool.
From Acme.C16 Require Import Model ModelChk.
From Acme.C15 Require Import Model.
Import ListNotations.

Definition check_case (r : rnet) (obs : list block) (nsave : nat) (ndbc : list nat) : bool :=
  andb (wf_netb r)
    (andb (match md_raw o_rev r with Ok bs => list_eqb block_eqb bs obs | Err => false end)
       (andb (Nat.eqb (List.length (save_raw o_rev r)) nsave)
          (andb (Nat.eqb (List.length (save_raw (o_rot 1) r)) nsave)
             (list_eqb Nat.eqb (map (@List.length ev) (dbc_raw o_rev r)) ndbc)))).
