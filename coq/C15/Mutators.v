(* C15 — more model-level mutators of the history leg (props/C15/harness/history.go): the changes
   that rewrite a component of [msg_key] (Message.UpdateName / UpdateID / SetStaticCANID) or permute
   the receiver map of a message (RemoveReceiver / AddReceiver).  Each is a total function
   rnet -> rnet, the identity when no entity carries the handle.  No proofs here (ProofsMut.v). *)
From Coq Require Import ZArith List String Bool.
From Acme.C16 Require Import Model.
From Acme.C15 Require Import Model.
Import ListNotations.
Local Open Scope Z_scope.

(* apply [f] to the message(s) with handle [h], wherever they are sent from *)
Definition upd_msg_in (f : rmsg -> rmsg) (h : N) (l : list rmsg) : list rmsg :=
  map (fun m => if N.eqb (rm_h m) h then f m else m) l.
Definition upd_msg_nif (f : rmsg -> rmsg) (h : N) (x : rnif) : rnif :=
  {| rn_h := rn_h x; rn_attrs := rn_attrs x; rn_name := rn_name x; rn_desc := rn_desc x; rn_id := rn_id x;
     rn_msgs := upd_msg_in f h (rn_msgs x) |}.
Definition upd_msg_bus (f : rmsg -> rmsg) (h : N) (b : rbus) : rbus :=
  {| rb_h := rb_h b; rb_attrs := rb_attrs b; rb_builder := rb_builder b; rb_name := rb_name b;
     rb_desc := rb_desc b; rb_baud := rb_baud b; rb_nifs := map (upd_msg_nif f h) (rb_nifs b) |}.
Definition upd_msg (f : rmsg -> rmsg) (h : N) (r : rnet) : rnet :=
  {| rt_name := rt_name r; rt_desc := rt_desc r; rt_buses := map (upd_msg_bus f h) (rt_buses r) |}.

Definition set_msg_scalars (name : string) (static : bool) (canid id : Z) (m : rmsg) : rmsg :=
  {| rm_h := rm_h m; rm_eid := rm_eid m; rm_attrs := rm_attrs m; rm_recv := rm_recv m;
     rm_name := name; rm_desc := rm_desc m; rm_static := static; rm_canid := canid; rm_id := id;
     rm_size := rm_size m; rm_byteorder := rm_byteorder m; rm_cycle := rm_cycle m; rm_sigs := rm_sigs m |}.
Definition set_msg_recv (rc : list rrecv) (m : rmsg) : rmsg :=
  {| rm_h := rm_h m; rm_eid := rm_eid m; rm_attrs := rm_attrs m; rm_recv := rc;
     rm_name := rm_name m; rm_desc := rm_desc m; rm_static := rm_static m; rm_canid := rm_canid m; rm_id := rm_id m;
     rm_size := rm_size m; rm_byteorder := rm_byteorder m; rm_cycle := rm_cycle m; rm_sigs := rm_sigs m |}.

(* Message.UpdateName *)
Definition mut_msg_name (h : N) (new : string) : rnet -> rnet :=
  upd_msg (fun m => set_msg_scalars new (rm_static m) (rm_canid m) (rm_id m) m) h.
(* Message.UpdateID: the static CAN-ID is dropped; the CAN-ID is recomputed by the bus's builder
   from (priority, id, node id) - the priority is not in the raw network, so the computed CAN-ID is
   an argument (it is in no sort key) *)
Definition mut_msg_id (h : N) (new canid : Z) : rnet -> rnet :=
  upd_msg (fun m => set_msg_scalars (rm_name m) false canid new m) h.
(* Message.SetStaticCANID: message.go sets hasStaticCANID, staticCANID and id := staticCANID *)
Definition mut_msg_static (h : N) (new : Z) : rnet -> rnet :=
  upd_msg (fun m => set_msg_scalars (rm_name m) true new new m) h.
(* Message.RemoveReceiver (by node handle) / AddReceiver (appended: map insertion, any position is
   equivalent up to the oracle) *)
Definition mut_msg_remove_recv (h : N) (node : N) : rnet -> rnet :=
  upd_msg (fun m => set_msg_recv (filter (fun rc => negb (N.eqb (rr_h rc) node)) (rm_recv m)) m) h.
Definition mut_msg_add_recv (h : N) (rc : rrecv) : rnet -> rnet :=
  upd_msg (fun m => set_msg_recv (rm_recv m ++ [rc]) m) h.

(* SignalEnumValue.UpdateIndex: the value with index [old] of the enum [eid] (embedded in every enum
   signal that uses it) gets the index [new] *)
Definition set_value_index (old new : Z) (v : enumval) : enumval :=
  if Z.eqb (ev_index v) old then {| ev_name := ev_name v; ev_index := new; ev_desc := ev_desc v |} else v.
Definition upd_enum (eid : N) (old new : Z) (e : sigenum) : sigenum :=
  if N.eqb (se_id e) eid
  then {| se_id := se_id e; se_name := se_name e; se_desc := se_desc e; se_maxindex := Z.max (se_maxindex e) new;
          se_values := map (set_value_index old new) (se_values e) |}
  else e.
Fixpoint upd_enum_sig (eid : N) (old new : Z) (s : rsig) : rsig :=
  match s with
  | RStd _ _ _ _ _ _ _ => s
  | REnum h a n d r sz en => REnum h a n d r sz (upd_enum eid old new en)
  | RMux h a n d r gc gs fx groups => RMux h a n d r gc gs fx (map (map (upd_enum_sig eid old new)) groups)
  end.
Definition mut_enum_value_index (eid : N) (old new : Z) (r : rnet) : rnet :=
  {| rt_name := rt_name r; rt_desc := rt_desc r;
     rt_buses := map (fun b =>
       {| rb_h := rb_h b; rb_attrs := rb_attrs b; rb_builder := rb_builder b; rb_name := rb_name b;
          rb_desc := rb_desc b; rb_baud := rb_baud b;
          rb_nifs := map (fun x =>
            {| rn_h := rn_h x; rn_attrs := rn_attrs x; rn_name := rn_name x; rn_desc := rn_desc x; rn_id := rn_id x;
               rn_msgs := map (fun m =>
                 {| rm_h := rm_h m; rm_eid := rm_eid m; rm_attrs := rm_attrs m; rm_recv := rm_recv m;
                    rm_name := rm_name m; rm_desc := rm_desc m; rm_static := rm_static m; rm_canid := rm_canid m;
                    rm_id := rm_id m; rm_size := rm_size m; rm_byteorder := rm_byteorder m; rm_cycle := rm_cycle m;
                    rm_sigs := map (upd_enum_sig eid old new) (rm_sigs m) |}) (rn_msgs x) |}) (rb_nifs b) |}) (rt_buses r) |}.

(* Node.UpdateID as the raw dump sees it: besides the interface's id ([mut_node_id] of Model.v) the
   node id carried by every receiver entry of that node changes too ([rr_id], the key of the saver's
   node table).  Found by the mutator tie: Model.v's [mut_node_id] alone leaves [rr_id] stale.  Not
   modelled: the CAN-IDs of the node's non-static messages, recomputed by the bus's builder from
   (priority, message id, node id) - the priority is not in the raw network. *)
Definition set_recv_id (h : N) (new : Z) (rc : rrecv) : rrecv :=
  if N.eqb (rr_h rc) h
  then {| rr_h := rr_h rc; rr_name := rr_name rc; rr_eid := rr_eid rc; rr_num := rr_num rc; rr_id := new;
          rr_attrs := rr_attrs rc |}
  else rc.
Definition map_msgs (f : rmsg -> rmsg) (r : rnet) : rnet :=
  {| rt_name := rt_name r; rt_desc := rt_desc r;
     rt_buses := map (fun b =>
       {| rb_h := rb_h b; rb_attrs := rb_attrs b; rb_builder := rb_builder b; rb_name := rb_name b;
          rb_desc := rb_desc b; rb_baud := rb_baud b;
          rb_nifs := map (fun x =>
            {| rn_h := rn_h x; rn_attrs := rn_attrs x; rn_name := rn_name x; rn_desc := rn_desc x; rn_id := rn_id x;
               rn_msgs := map f (rn_msgs x) |}) (rb_nifs b) |}) (rt_buses r) |}.
Definition mut_node_id_full (h : N) (new : Z) (r : rnet) : rnet :=
  map_msgs (fun m => set_msg_recv (map (set_recv_id h new) (rm_recv m)) m) (mut_node_id h new r).
(* comparison mask for Node.UpdateID: the computed CAN-IDs of the non-static messages sent by node [h] *)
Definition mask_node_canids (h : N) (r : rnet) : rnet :=
  {| rt_name := rt_name r; rt_desc := rt_desc r;
     rt_buses := map (fun b =>
       {| rb_h := rb_h b; rb_attrs := rb_attrs b; rb_builder := rb_builder b; rb_name := rb_name b;
          rb_desc := rb_desc b; rb_baud := rb_baud b;
          rb_nifs := map (fun x =>
            if N.eqb (rn_h x) h
            then {| rn_h := rn_h x; rn_attrs := rn_attrs x; rn_name := rn_name x; rn_desc := rn_desc x; rn_id := rn_id x;
                    rn_msgs := map (fun m => if rm_static m then m
                                             else set_msg_scalars (rm_name m) false 0 (rm_id m) m) (rn_msgs x) |}
            else x) (rb_nifs b) |}) (rt_buses r) |}.
