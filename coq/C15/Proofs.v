(* C15 — proofs: every getter returns one list whatever the oracle answers, because its comparator
   is a total order on keys that are unique among the entries of the map. *)
From Coq Require Import ZArith List String Bool Permutation Sorting.Sorted OrderedTypeEx Lia.
From Acme.C16 Require Import Model.
From Acme.C15 Require Import Model Spec.
Import ListNotations.

(* ------------------------------------------------------------------ order laws *)
Record order_laws {K} (kleb : K -> K -> bool) : Prop := {
  ol_total : forall a b, kleb a b = true \/ kleb b a = true;
  ol_trans : forall a b c, kleb a b = true -> kleb b c = true -> kleb a c = true;
  ol_antisym : forall a b, kleb a b = true -> kleb b a = true -> a = b }.

Lemma string_compare_refl : forall s, String.compare s s = Eq.
Proof. intro s. now apply String_as_OT.cmp_eq. Qed.

Lemma string_leb_trans : forall a b c,
  String.leb a b = true -> String.leb b c = true -> String.leb a c = true.
Proof.
  intros a b c. unfold String.leb.
  destruct (String.compare a b) eqn:E1; destruct (String.compare b c) eqn:E2; try discriminate; intros _ _.
  - apply String_as_OT.cmp_eq in E1, E2. subst. now rewrite string_compare_refl.
  - apply String_as_OT.cmp_eq in E1. subst. now rewrite E2.
  - apply String_as_OT.cmp_eq in E2. subst. now rewrite E1.
  - apply String_as_OT.cmp_lt in E1, E2.
    pose proof (String_as_OT.lt_trans _ _ _ E1 E2) as H. apply String_as_OT.cmp_lt in H.
    unfold String_as_OT.cmp in H. now rewrite H.
Qed.

Lemma string_laws : order_laws String.leb.
Proof.
  constructor; [apply String.leb_total|apply string_leb_trans|apply String.leb_antisym].
Qed.

Lemma Z_laws : order_laws Z.leb.
Proof.
  constructor.
  - intros a b. destruct (Z.leb_spec a b); [now left|right; apply Z.leb_le; lia].
  - intros a b c H1 H2. apply Z.leb_le in H1, H2. apply Z.leb_le. lia.
  - intros a b H1 H2. apply Z.leb_le in H1, H2. lia.
Qed.

Lemma lex_laws : forall {A B} (eqa : A -> A -> bool) (leba : A -> A -> bool) (lebb : B -> B -> bool),
  (forall a b, eqa a b = true <-> a = b) -> order_laws leba -> order_laws lebb ->
  order_laws (lex_leb eqa leba lebb).
Proof.
  intros A B eqa leba lebb Heq [ta ra aa] [tb rb ab].
  assert (Hrefl : forall a, eqa a a = true) by (intro; now apply Heq).
  assert (Hsym : forall a b, eqa a b = eqa b a).
  { intros a b. destruct (eqa a b) eqn:E1, (eqa b a) eqn:E2; try reflexivity.
    - apply Heq in E1. subst. now rewrite Hrefl in E2.
    - apply Heq in E2. subst. now rewrite Hrefl in E1. }
  constructor; unfold lex_leb.
  - intros [a1 a2] [b1 b2]. cbn [fst snd]. rewrite (Hsym b1 a1).
    destruct (eqa a1 b1); [apply tb|apply ta].
  - intros [a1 a2] [b1 b2] [c1 c2]. cbn [fst snd].
    destruct (eqa a1 b1) eqn:E1; [apply Heq in E1; subst b1|].
    + destruct (eqa a1 c1); [apply rb|auto].
    + destruct (eqa b1 c1) eqn:E2; [apply Heq in E2; subst c1; rewrite E1; auto|].
      intros H1 H2. destruct (eqa a1 c1) eqn:E3.
      * apply Heq in E3. subst c1. pose proof (aa _ _ H1 H2). subst b1. now rewrite Hrefl in E1.
      * eapply ra; eassumption.
  - intros [a1 a2] [b1 b2]. cbn [fst snd]. rewrite (Hsym b1 a1).
    destruct (eqa a1 b1) eqn:E1.
    + apply Heq in E1. subst b1. intros H1 H2. f_equal. now apply ab.
    + intros H1 H2. pose proof (aa _ _ H1 H2). subst b1. now rewrite Hrefl in E1.
Qed.

Lemma str2_laws : order_laws str2_leb.
Proof. apply lex_laws; [apply String.eqb_eq|apply string_laws|apply string_laws]. Qed.
Lemma zstr2_laws : order_laws zstr2_leb.
Proof. apply lex_laws; [apply Z.eqb_eq|apply Z_laws|apply str2_laws]. Qed.

(* ------------------------------------------------------------------ sorting is canonical *)
Section sort_unique.
  Context {A K : Type} (key : A -> K) (kleb : K -> K -> bool).
  Hypothesis laws : order_laws kleb.
  Let leb (x y : A) : bool := kleb (key x) (key y).
  Let R (x y : A) : Prop := leb x y = true.

  Lemma insert_perm' : forall x l, Permutation (insert leb x l) (x :: l).
  Proof.
    induction l as [|y r IH]; cbn [insert]; [reflexivity|].
    destruct (leb x y); [reflexivity|]. rewrite IH. apply perm_swap.
  Qed.
  Lemma isort_perm' : forall l, Permutation (isort leb l) l.
  Proof. induction l as [|x r IH]; cbn [isort]; [reflexivity|]. rewrite insert_perm'. now constructor. Qed.

  Lemma insert_sorted : forall x l, StronglySorted R l -> StronglySorted R (insert leb x l).
  Proof.
    induction l as [|y r IH]; intro Hs; cbn [insert].
    - repeat constructor.
    - inversion Hs as [|? ? Hr Hy]; subst. destruct (leb x y) eqn:E.
      + constructor; [assumption|]. constructor; [exact E|].
        eapply Forall_impl; [|exact Hy]. intros z Hz. unfold R, leb in *.
        eapply (ol_trans _ laws); eassumption.
      + constructor; [now apply IH|].
        eapply Permutation_Forall; [symmetry; apply insert_perm'|].
        constructor; [|assumption].
        destruct (ol_total _ laws (key x) (key y)) as [H|H]; [unfold leb in E; congruence|exact H].
  Qed.
  Lemma isort_sorted : forall l, StronglySorted R (isort leb l).
  Proof. induction l as [|x r IH]; cbn [isort]; [constructor|now apply insert_sorted]. Qed.

  Definition key_inj_on (l : list A) : Prop :=
    forall a b, In a l -> In b l -> key a = key b -> a = b.

  Lemma sorted_perm_unique : forall l1 l2,
    StronglySorted R l1 -> StronglySorted R l2 -> Permutation l1 l2 -> key_inj_on l1 -> l1 = l2.
  Proof.
    induction l1 as [|x r1 IH]; intros l2 S1 S2 P Hinj.
    - apply Permutation_nil in P. now subst.
    - destruct l2 as [|y r2]; [apply Permutation_sym, Permutation_nil in P; discriminate|].
      inversion S1 as [|? ? S1' F1]; subst. inversion S2 as [|? ? S2' F2]; subst.
      assert (Hx : In x (y :: r2)) by (eapply Permutation_in; [exact P|now left]).
      assert (Hy : In y (x :: r1)) by (eapply Permutation_in; [symmetry; exact P|now left]).
      assert (x = y).
      { destruct Hy as [->|Hy]; [reflexivity|]. destruct Hx as [->|Hx]; [reflexivity|].
        rewrite Forall_forall in F1, F2. specialize (F1 _ Hy). specialize (F2 _ Hx).
        apply Hinj; [now left|now right|]. now apply (ol_antisym _ laws). }
      subst y. f_equal. apply IH; try assumption.
      + eapply Permutation_cons_inv; exact P.
      + intros a b Ha Hb. apply Hinj; now right.
  Qed.

  Lemma isort_perm_eq : forall l1 l2, Permutation l1 l2 -> key_inj_on l1 -> isort leb l1 = isort leb l2.
  Proof.
    intros l1 l2 P Hinj. apply sorted_perm_unique; try apply isort_sorted.
    - rewrite !isort_perm'. exact P.
    - intros a b Ha Hb. apply Hinj; (eapply Permutation_in; [apply isort_perm'|assumption]).
  Qed.

  (* the getter *)
  Lemma sorted_by_eq : forall (o1 o2 : oracle) s l1 l2, valid o1 -> valid o2 ->
    Permutation l1 l2 -> key_inj_on l1 -> sorted_by o1 s key kleb l1 = sorted_by o2 s key kleb l2.
  Proof.
    intros o1 o2 s l1 l2 V1 V2 P Hinj. unfold sorted_by. apply isort_perm_eq.
    - rewrite (V1 A s l1), (V2 A s l2). exact P.
    - intros a b Ha Hb. apply Hinj; (eapply Permutation_in; [apply (V1 A s l1)|assumption]).
  Qed.
End sort_unique.

Lemma NoDup_map_inj_on : forall {A B} (f : A -> B) l a b,
  NoDup (map f l) -> In a l -> In b l -> f a = f b -> a = b.
Proof.
  induction l as [|x r IH]; intros a b Hn Ha Hb E; [contradiction|].
  cbn [map] in Hn. inversion Hn as [|? ? Hx Hr]; subst.
  destruct Ha as [->|Ha], Hb as [->|Hb]; try reflexivity.
  - exfalso. apply Hx. rewrite E. now apply in_map.
  - exfalso. apply Hx. rewrite <- E. now apply in_map.
  - now apply IH.
Qed.

(* ------------------------------------------------------------------ the getters, level by level *)
Section walk.
  Variables o1 o2 : oracle.
  Hypothesis V1 : valid o1.
  Hypothesis V2 : valid o2.

  Lemma walk_attr_eq : forall a, NoDup (map (@fst Z string) (ra_vals a)) -> walk_attr o1 a = walk_attr o2 a.
  Proof.
    intros a W. unfold walk_attr. f_equal.
    apply sorted_by_eq; try assumption; [apply Z_laws|reflexivity|].
    intros x y Hx Hy E. now apply (NoDup_map_inj_on (@fst Z string) (ra_vals a)).
  Qed.

  Lemma get_attrs_eq : forall a1 a2, Permutation a1 a2 -> wf_attrs a1 -> get_attrs o1 a1 = get_attrs o2 a2.
  Proof.
    intros a1 a2 P [W Wv]. unfold get_attrs. apply sorted_by_eq; try assumption; [apply str2_laws| |].
    - rewrite <- (Permutation_map (walk_attr o2) P). apply Permutation_refl'.
      apply map_ext_in. intros a Ha. apply walk_attr_eq. rewrite Forall_forall in Wv. now apply Wv.
    - intros a b Ha Hb E. apply (NoDup_map_inj_on attr_key (map (walk_attr o1) a1)); try assumption.
      rewrite map_map. exact W.
  Qed.

  Lemma walk_enum_eq : forall e1 e2, enum_equiv e1 e2 -> wf_enum e1 -> walk_enum o1 e1 = walk_enum o2 e2.
  Proof.
    intros e1 e2 (H1 & H2 & H3 & H4 & P) W. unfold walk_enum. rewrite H1, H2, H3, H4. f_equal.
    apply sorted_by_eq; try assumption; [apply Z_laws|].
    intros a b Ha Hb E. now apply (NoDup_map_inj_on ev_index (se_values e1)).
  Qed.

  Section rsig_induction.
    Variable P : rsig -> Prop.
    Hypothesis Hstd : forall h a n d r ty un, P (RStd h a n d r ty un).
    Hypothesis Henum : forall h a n d r sz en, P (REnum h a n d r sz en).
    Hypothesis Hmux : forall h a n d r gc gs fx groups, Forall (Forall P) groups ->
      P (RMux h a n d r gc gs fx groups).
    Fixpoint rsig_ind' (s : rsig) : P s :=
      match s with
      | RStd h a n d r ty un => Hstd h a n d r ty un
      | REnum h a n d r sz en => Henum h a n d r sz en
      | RMux h a n d r gc gs fx groups =>
          Hmux h a n d r gc gs fx groups
            ((fix fg (l : list (list rsig)) : Forall (Forall P) l :=
                match l with
                | [] => Forall_nil _
                | g :: r' =>
                    Forall_cons g
                      ((fix fl (l' : list rsig) : Forall P l' :=
                          match l' with
                          | [] => Forall_nil _
                          | x :: r'' => Forall_cons x (rsig_ind' x) (fl r'')
                          end) g) (fg r')
                end) groups)
      end.
  End rsig_induction.

  Lemma map_eq_Forall2 : forall {A B} (R : A -> A -> Prop) (Q : A -> Prop) (f g : A -> B) l1 l2,
    Forall2 R l1 l2 -> Forall Q l1 ->
    Forall (fun x => forall y, R x y -> Q x -> f x = g y) l1 -> map f l1 = map g l2.
  Proof.
    induction 1 as [|x y r1 r2 Hxy _ IH]; intros HQ HP; [reflexivity|].
    inversion HQ; subst. inversion HP; subst. cbn [map]. f_equal; [auto|now apply IH].
  Qed.

  Lemma groups_eq : forall g1 g2,
    Forall2 (Forall2 sig_equiv) g1 g2 -> Forall (Forall wf_sig) g1 ->
    Forall (Forall (fun s1 => forall s2, sig_equiv s1 s2 -> wf_sig s1 -> walk_sig o1 s1 = walk_sig o2 s2)) g1 ->
    map (map (walk_sig o1)) g1 = map (map (walk_sig o2)) g2.
  Proof.
    induction 1 as [|x y r1 r2 Hxy _ IHg]; intros Hw IH; [reflexivity|].
    inversion Hw; subst. inversion IH; subst. cbn [map]. f_equal; [|now apply IHg].
    eapply (map_eq_Forall2 sig_equiv wf_sig); eassumption.
  Qed.

  Lemma walk_sig_eq : forall s1 s2, sig_equiv s1 s2 -> wf_sig s1 -> walk_sig o1 s1 = walk_sig o2 s2.
  Proof.
    induction s1 as [h a n d r ty un|h a n d r sz en|h a n d r gc gs fx groups IH] using rsig_ind';
      intros s2 He Hw; inversion He; subst; inversion Hw; subst; cbn [walk_sig].
    - f_equal. now apply get_attrs_eq.
    - f_equal; [now apply get_attrs_eq|now apply walk_enum_eq].
    - f_equal; [now apply get_attrs_eq|now apply groups_eq].
  Qed.

  Lemma perm_map_equiv : forall {A B} (R : A -> A -> Prop) (Q : A -> Prop) (f g : A -> B) l1 l2,
    PermEquiv R l1 l2 -> Forall Q l1 -> (forall x y, R x y -> Q x -> f x = g y) ->
    Permutation (map f l1) (map g l2).
  Proof.
    intros A B R Q f g l1 l2 [l [P F]] HQ Hfg.
    rewrite (Permutation_map f P).
    assert (HQl : Forall Q l) by (eapply Permutation_Forall; eassumption).
    clear P HQ. induction F as [|x y r1 r2 Hxy _ IH]; [reflexivity|].
    inversion HQl; subst. cbn [map]. rewrite (Hfg x y) by assumption. constructor. now apply IH.
  Qed.

  Lemma key_inj_map : forall {A K B} (key : A -> K) (sub : A -> B) (w : A -> A) l,
    (forall a, key (w a) = key a) -> (forall a, sub (w a) = sub a) ->
    (forall a b, key a = key b -> sub a = sub b) ->
    NoDup (map sub l) -> key_inj_on key (map w l).
  Proof.
    intros A K B key sub w l Hk Hs Hks Hn a b Ha Hb E.
    apply (NoDup_map_inj_on sub (map w l)); try assumption.
    - rewrite map_map. erewrite map_ext; [exact Hn|]. intro; apply Hs.
    - now apply Hks.
  Qed.

  Lemma walk_recv_eq : forall r1 r2, recv_equiv r1 r2 -> wf_attrs (rr_attrs r1) -> walk_recv o1 r1 = walk_recv o2 r2.
  Proof.
    intros r1 r2 (E1 & E2 & E3 & E4 & E5 & Pa) W. unfold walk_recv.
    now rewrite E1, E2, E3, E4, E5, (get_attrs_eq _ _ Pa W).
  Qed.

  Lemma walk_msg_eq : forall m1 m2, msg_equiv m1 m2 -> wf_msg m1 -> walk_msg o1 m1 = walk_msg o2 m2.
  Proof.
    intros m1 m2 (E1 & E2 & Pa & Pr & E3 & E4 & E5 & E6 & E7 & E8 & E9 & E10 & Fs) (Wa & Wr & Wra & Ws).
    unfold walk_msg. rewrite E1, E2, E3, E4, E5, E6, E7, E8, E9, E10.
    rewrite (get_attrs_eq _ _ Pa Wa).
    assert (Hr : sorted_by o1 site_recv recv_key str2_leb (map (walk_recv o1) (rm_recv m1))
                 = sorted_by o2 site_recv recv_key str2_leb (map (walk_recv o2) (rm_recv m2))).
    { apply sorted_by_eq; try assumption; [apply str2_laws| |].
      - eapply (perm_map_equiv recv_equiv (fun rc => wf_attrs (rr_attrs rc))); try eassumption.
        intros; now apply walk_recv_eq.
      - apply (key_inj_map recv_key recv_key (walk_recv o1)); try reflexivity; [auto|assumption]. }
    rewrite Hr.
    assert (Hs : map (walk_sig o1) (rm_sigs m1) = map (walk_sig o2) (rm_sigs m2)).
    { eapply (map_eq_Forall2 sig_equiv wf_sig); try eassumption.
      apply Forall_forall. intros x _ y. apply walk_sig_eq. }
    now rewrite Hs.
  Qed.

  Lemma walk_msg_key : forall o m, msg_key (walk_msg o m) = msg_key m.
  Proof. reflexivity. Qed.

  Lemma walk_nif_eq : forall x1 x2, nif_equiv x1 x2 -> wf_nif x1 -> walk_nif o1 x1 = walk_nif o2 x2.
  Proof.
    intros x1 x2 (E1 & Pa & E2 & E3 & E4 & Pm) (Wa & Wn & Wm).
    unfold walk_nif. rewrite E1, E2, E3, E4, (get_attrs_eq _ _ Pa Wa). f_equal.
    apply sorted_by_eq; try assumption; [apply zstr2_laws| |].
    - eapply (perm_map_equiv msg_equiv wf_msg); try eassumption. intros; now apply walk_msg_eq.
    - apply (key_inj_map msg_key msg_key (walk_msg o1)); try reflexivity; [auto|assumption].
  Qed.

  Lemma walk_bus_eq : forall b1 b2, bus_equiv b1 b2 -> wf_bus b1 -> walk_bus o1 b1 = walk_bus o2 b2.
  Proof.
    intros b1 b2 (E1 & Pa & E2 & E3 & E4 & E5 & Pn) (Wa & Wn & Wx).
    unfold walk_bus. rewrite E1, E2, E3, E4, E5, (get_attrs_eq _ _ Pa Wa). f_equal.
    apply sorted_by_eq; try assumption; [apply Z_laws| |].
    - eapply (perm_map_equiv nif_equiv wf_nif); try eassumption. intros; now apply walk_nif_eq.
    - apply (key_inj_map rn_id rn_id (walk_nif o1)); try reflexivity; [auto|assumption].
  Qed.

  Lemma walk_eq : forall r1 r2, net_equiv r1 r2 -> wf_net r1 -> walk o1 r1 = walk o2 r2.
  Proof.
    intros r1 r2 (E1 & E2 & Pb) (Wn & Wb).
    unfold walk. rewrite E1, E2. f_equal.
    apply sorted_by_eq; try assumption; [apply string_laws| |].
    - eapply (perm_map_equiv bus_equiv wf_bus); try eassumption. intros; now apply walk_bus_eq.
    - apply (key_inj_map rb_name rb_name (walk_bus o1)); try reflexivity; [auto|assumption].
  Qed.
End walk.

(* ------------------------------------------------------------------ reflexivity of "same model" *)
Lemma PermEquiv_refl : forall {A} (R : A -> A -> Prop) l, (forall x, R x x) -> PermEquiv R l l.
Proof.
  intros A R l HR. exists l. split; [reflexivity|]. induction l; constructor; auto.
Qed.

Lemma enum_equiv_refl : forall e, enum_equiv e e.
Proof. intro e. repeat split; reflexivity. Qed.

Lemma sig_equiv_refl : forall s, sig_equiv s s.
Proof.
  induction s as [h a n d r ty un|h a n d r sz en|h a n d r gc gs fx groups IH] using rsig_ind'.
  - now constructor.
  - constructor; [reflexivity|apply enum_equiv_refl].
  - constructor; [reflexivity|].
    induction IH as [|g rest Hg _ IHr]; constructor; [|assumption].
    induction Hg; constructor; assumption.
Qed.

Lemma recv_equiv_refl : forall r, recv_equiv r r.
Proof. intro r. repeat split; reflexivity. Qed.
Lemma msg_equiv_refl : forall m, msg_equiv m m.
Proof.
  intro m. repeat split; try reflexivity.
  - apply PermEquiv_refl, recv_equiv_refl.
  - induction (rm_sigs m); constructor; [apply sig_equiv_refl|assumption].
Qed.
Lemma nif_equiv_refl : forall x, nif_equiv x x.
Proof. intro x. repeat split; try reflexivity. apply PermEquiv_refl, msg_equiv_refl. Qed.
Lemma bus_equiv_refl : forall b, bus_equiv b b.
Proof. intro b. repeat split; try reflexivity. apply PermEquiv_refl, nif_equiv_refl. Qed.
Lemma net_equiv_refl : forall r, net_equiv r r.
Proof. intro r. repeat split; try reflexivity. apply PermEquiv_refl, bus_equiv_refl. Qed.

(* ------------------------------------------------------------------ the theorems *)
Lemma walk_oracle_free : forall o1 o2 r, valid o1 -> valid o2 -> wf_net r -> walk o1 r = walk o2 r.
Proof. intros. apply walk_eq; try assumption. apply net_equiv_refl. Qed.

Lemma md_oracle_free_lemma : forall o1 o2 r, valid o1 -> valid o2 -> wf_net r ->
  md_raw o1 r = md_raw o2 r.
Proof. intros. unfold md_raw. now rewrite (walk_oracle_free o1 o2). Qed.
Lemma save_oracle_free_lemma : forall o1 o2 r, valid o1 -> valid o2 -> wf_net r ->
  save_raw o1 r = save_raw o2 r.
Proof. intros. unfold save_raw. now rewrite (walk_oracle_free o1 o2). Qed.
Lemma dbc_oracle_free_lemma : forall o1 o2 r, valid o1 -> valid o2 -> wf_net r ->
  dbc_raw o1 r = dbc_raw o2 r.
Proof. intros. unfold dbc_raw. now rewrite (walk_oracle_free o1 o2). Qed.

Lemma records_oracle_free_lemma : forall o1 o2 r, valid o1 -> valid o2 -> wf_net r ->
  records_raw o1 r = records_raw o2 r.
Proof. intros. unfold records_raw. now rewrite (walk_oracle_free o1 o2). Qed.

Lemma build_order_free_lemma : forall o1 o2 r1 r2, valid o1 -> valid o2 -> wf_net r1 -> net_equiv r1 r2 ->
  md_raw o1 r1 = md_raw o2 r2 /\ save_raw o1 r1 = save_raw o2 r2 /\ dbc_raw o1 r1 = dbc_raw o2 r2.
Proof.
  intros o1 o2 r1 r2 V1 V2 W E. unfold md_raw, save_raw, dbc_raw.
  now rewrite (walk_eq o1 o2 V1 V2 r1 r2 E W).
Qed.

(* ------------------------------------------------------------------ histories *)
Lemma hrun_changes_only : forall evs s, hrun evs s = hrun (changes_only evs) s.
Proof.
  induction evs as [|e r IH]; intro s; [reflexivity|].
  destruct e as [o|f]; cbn [hrun changes_only filter]; apply IH.
Qed.

Lemma export_history_free_lemma : forall evs s o1 o2, valid o1 -> valid o2 ->
  wf_net (hrun (changes_only evs) s) ->
  outputs o1 (hrun evs s) = outputs o2 (hrun (changes_only evs) s).
Proof.
  intros evs s o1 o2 V1 V2 W. rewrite hrun_changes_only. unfold outputs, export_network_raw.
  now rewrite (md_oracle_free_lemma o1 o2), (save_oracle_free_lemma o1 o2), (dbc_oracle_free_lemma o1 o2).
Qed.

(* ------------------------------------------------------------------ oracles used for execution *)
Lemma o_id_valid : valid o_id.
Proof. intros A s l. reflexivity. Qed.
Lemma o_rev_valid : valid o_rev.
Proof. intros A s l. symmetry. apply Permutation_rev. Qed.
Lemma o_rot_valid : forall k, valid (o_rot k).
Proof.
  intros k A s l. unfold o_rot. rewrite Permutation_app_comm. now rewrite firstn_skipn.
Qed.

(* ------------------------------------------------------------------ satisfiability *)
Local Open Scope string_scope.
Local Open Scope Z_scope.
(* ties in every sort key that acmelib allows to tie: two attributes named "at" on one entity, two
   receivers named "N", two messages with id 5 on one interface (one static), two enums named
   "en", two types of size 8, nodes with id 1 on two buses, an enum with several values *)
Definition ex_a1 : rattr := {| ra_h := 1; ra_name := "at"; ra_eid := "e-a1"; ra_vals := [(1, "on"); (0, "off")] |}.
Definition ex_a2 : rattr := {| ra_h := 2; ra_name := "at"; ra_eid := "e-a2"; ra_vals := [] |}.
Definition ex_t1 : sigtype := {| st_id := 0; st_name := "ty"; st_desc := ""; st_size := 8; st_kind := "integer";
  st_signed := false; st_min := "0"; st_max := "255"; st_scale := "1"; st_offset := "0" |}.
Definition ex_t2 : sigtype := {| st_id := 1; st_name := "ty"; st_desc := "other"; st_size := 8; st_kind := "custom";
  st_signed := true; st_min := "-1"; st_max := "1"; st_scale := "0.5"; st_offset := "0" |}.
Definition ex_e1 : sigenum := {| se_id := 0; se_name := "en"; se_desc := ""; se_maxindex := 3;
  se_values := [ {| ev_name := "c"; ev_index := 3; ev_desc := "" |}; {| ev_name := "a"; ev_index := 0; ev_desc := "" |};
                 {| ev_name := "b"; ev_index := 1; ev_desc := "" |} ] |}.
Definition ex_e2 : sigenum := {| se_id := 1; se_name := "en"; se_desc := "second"; se_maxindex := 0; se_values := [] |}.
Definition ex_m1 : rmsg := {| rm_h := 10; rm_eid := "e-m1"; rm_attrs := [ex_a2; ex_a1];
  rm_recv := [ {| rr_h := 21; rr_name := "N"; rr_eid := "e-n2"; rr_num := 0; rr_id := 2; rr_attrs := [ex_a2] |};
               {| rr_h := 23; rr_name := "N"; rr_eid := "e-n3"; rr_num := 1; rr_id := 2; rr_attrs := [ex_a2; ex_a1] |} ];
  rm_name := "static five"; rm_desc := ""; rm_static := true; rm_canid := 5; rm_id := 5; rm_size := 8;
  rm_byteorder := "little-endian"; rm_cycle := 0;
  rm_sigs := [ RStd 30 [ex_a1] "s1" "" 0 ex_t2 None;
               RMux 31 [] "mx" "" 8 2 12 [33%N] [[REnum 32 [ex_a2; ex_a1] "e1" "" 0 2 ex_e2; RStd 33 [] "fx" "" 2 ex_t1 None];
                                                 [RStd 33 [] "fx" "" 2 ex_t1 None; REnum 34 [] "e2" "" 10 2 ex_e1]] ] |}.
Definition ex_m2 : rmsg := {| rm_h := 11; rm_eid := "e-m2"; rm_attrs := []; rm_recv := [];
  rm_name := "dynamic five"; rm_desc := ""; rm_static := false; rm_canid := 85; rm_id := 5; rm_size := 1;
  rm_byteorder := "little-endian"; rm_cycle := 10; rm_sigs := [] |}.
Definition ex_rnet : rnet :=
  {| rt_name := "net"; rt_desc := "";
     rt_buses := [ {| rb_h := 41; rb_attrs := [ex_a1; ex_a2]; rb_builder := Some {| bl_h := 50; bl_name := "cb"; bl_ops := [(2, 0, 4); (1, 4, 7)] |}; rb_name := "bus B"; rb_desc := ""; rb_baud := 0;
                      rb_nifs := [ {| rn_h := 22; rn_attrs := []; rn_name := "other"; rn_desc := ""; rn_id := 1; rn_msgs := [] |} ] |};
                   {| rb_h := 40; rb_attrs := []; rb_builder := Some {| bl_h := 51; bl_name := "cb"; bl_ops := [(0, 0, 11)] |}; rb_name := "bus A"; rb_desc := ""; rb_baud := 500000;
                      rb_nifs := [ {| rn_h := 21; rn_attrs := [ex_a2]; rn_name := "N"; rn_desc := ""; rn_id := 2; rn_msgs := [] |};
                                   {| rn_h := 20; rn_attrs := []; rn_name := "M"; rn_desc := ""; rn_id := 1; rn_msgs := [ex_m2; ex_m1] |} ] |} ] |}.

Ltac nodup_strings :=
  repeat (constructor; [cbn; intuition discriminate|]); constructor.

Lemma ex_rnet_wf : wf_net ex_rnet.
Proof.
  split; [nodup_strings|].
  repeat (constructor; try (unfold wf_bus, wf_nif, wf_msg, wf_attrs, wf_enum; cbn [map rb_attrs rb_nifs rn_attrs rn_msgs rm_attrs rm_recv rm_sigs rr_attrs
    ra_eid ra_name rm_id rm_name rr_name attr_key recv_key msg_key rn_id rm_eid rr_eid ex_rnet ex_m1 ex_m2 ex_a1 ex_a2 ev_index se_values ex_e1 ex_e2]));
    try nodup_strings; try (cbn; intuition (discriminate || lia)).
Qed.

(* the oracle does matter before sorting, and not after *)
Lemma ex_rnet_nontrivial :
  map rb_name (rt_buses (walk o_id ex_rnet)) = ["bus A"; "bus B"]
  /\ walk o_id ex_rnet = walk o_rev ex_rnet
  /\ rt_buses ex_rnet <> rev (rt_buses ex_rnet)
  /\ save_raw o_id ex_rnet = save_raw (o_rot 1) ex_rnet
  /\ List.length (save_raw o_id ex_rnet) = 53%nat.
Proof. repeat split; try (vm_compute; reflexivity). intro H. vm_compute in H. discriminate H. Qed.

(* ------------------------------------------------------------------ boolean well-formedness *)
Lemma nodupb_sound : forall {A} (eqb : A -> A -> bool), (forall a b, eqb a b = true <-> a = b) ->
  forall l, nodupb eqb l = true -> NoDup l.
Proof.
  intros A eqb Heq. induction l as [|x r IH]; intro H; [constructor|].
  cbn [nodupb] in H. apply andb_true_iff in H as [H1 H2]. constructor; [|now apply IH].
  intro Hin. apply negb_true_iff in H1.
  assert (Ht : existsb (eqb x) r = true) by (apply existsb_exists; exists x; split; [assumption|now apply Heq]).
  congruence.
Qed.

Lemma forallb_Forall : forall {A} (p : A -> bool) (P : A -> Prop) l,
  Forall (fun x => p x = true -> P x) l -> forallb p l = true -> Forall P l.
Proof.
  induction 1 as [|x r Hx _ IH]; intro H; [constructor|].
  cbn [forallb] in H. apply andb_true_iff in H as [H1 H2]. constructor; auto.
Qed.

Lemma str2_eqb_eq : forall a b, str2_eqb a b = true <-> a = b.
Proof.
  intros [a1 a2] [b1 b2]. unfold str2_eqb. cbn [fst snd]. rewrite andb_true_iff, !String.eqb_eq.
  split; [intros [-> ->]; reflexivity|intro E; injection E; auto].
Qed.
Lemma zstr2_eqb_eq : forall a b, zstr2_eqb a b = true <-> a = b.
Proof.
  intros [a1 a2] [b1 b2]. unfold zstr2_eqb. cbn [fst snd]. rewrite andb_true_iff, Z.eqb_eq, str2_eqb_eq.
  split; [intros [-> ->]; reflexivity|intro E; injection E; auto].
Qed.

Lemma wf_attrsb_sound : forall l, wf_attrsb l = true -> wf_attrs l.
Proof.
  intros l H. unfold wf_attrsb in H. apply andb_true_iff in H as [H1 H2]. split.
  - apply (nodupb_sound str2_eqb str2_eqb_eq), H1.
  - revert H2. apply forallb_Forall, Forall_forall. intros a _ Ha.
    apply (nodupb_sound Z.eqb Z.eqb_eq), Ha.
Qed.
Lemma wf_enumb_sound : forall e, wf_enumb e = true -> wf_enum e.
Proof. intros e H. apply (nodupb_sound Z.eqb Z.eqb_eq), H. Qed.

Lemma wf_sigb_sound : forall s, wf_sigb s = true -> wf_sig s.
Proof.
  induction s as [h a n d r ty un|h a n d r sz en|h a n d r gc gs fx groups IH] using rsig_ind';
    cbn [wf_sigb]; intro H.
  - constructor. now apply wf_attrsb_sound.
  - apply andb_true_iff in H as [H1 H2]. constructor; [now apply wf_attrsb_sound|now apply wf_enumb_sound].
  - apply andb_true_iff in H as [H1 H2]. constructor; [now apply wf_attrsb_sound|].
    revert H2. apply forallb_Forall. eapply Forall_impl; [|exact IH].
    intros g Hg. apply forallb_Forall. exact Hg.
Qed.

Lemma wf_netb_sound : forall r, wf_netb r = true -> wf_net r.
Proof.
  intros r H. unfold wf_netb in H. apply andb_true_iff in H as [H1 H2].
  split; [apply (nodupb_sound String.eqb String.eqb_eq), H1|].
  revert H2. apply forallb_Forall, Forall_forall. intros b _ Hb.
  unfold wf_busb in Hb. apply andb_true_iff in Hb as [B1 B]. apply andb_true_iff in B as [B2 B3].
  split; [now apply wf_attrsb_sound|]. split; [apply (nodupb_sound Z.eqb Z.eqb_eq), B2|].
  revert B3. apply forallb_Forall, Forall_forall. intros x _ Hx.
  unfold wf_nifb in Hx. apply andb_true_iff in Hx as [X1 X]. apply andb_true_iff in X as [X2 X3].
  split; [now apply wf_attrsb_sound|]. split; [apply (nodupb_sound zstr2_eqb zstr2_eqb_eq), X2|].
  revert X3. apply forallb_Forall, Forall_forall. intros m _ Hm.
  unfold wf_msgb in Hm. apply andb_true_iff in Hm as [M1 M]. apply andb_true_iff in M as [M2 M].
  apply andb_true_iff in M as [M3 M4].
  split; [now apply wf_attrsb_sound|]. split; [apply (nodupb_sound str2_eqb str2_eqb_eq), M2|]. split.
  - revert M3. apply forallb_Forall, Forall_forall. intros rc _ Hrc. now apply wf_attrsb_sound.
  - revert M4. apply forallb_Forall, Forall_forall. intros s _ Hs. now apply wf_sigb_sound.
Qed.

(* ------------------------------------------------------------------ wf_netb is complete *)
Lemma nodupb_complete : forall {A} (eqb : A -> A -> bool), (forall a b, eqb a b = true <-> a = b) ->
  forall l, NoDup l -> nodupb eqb l = true.
Proof.
  intros A eqb Heq. induction 1 as [|x r Hx _ IH]; [reflexivity|]. cbn [nodupb]. rewrite IH, andb_true_r.
  apply negb_true_iff. destruct (existsb (eqb x) r) eqn:E; [|reflexivity].
  apply existsb_exists in E as [y [Hy Ey]]. apply Heq in Ey. subst y. contradiction.
Qed.
Lemma Forall_forallb : forall {A} (p : A -> bool) (P : A -> Prop) l,
  Forall (fun x => P x -> p x = true) l -> Forall P l -> forallb p l = true.
Proof.
  induction 1 as [|x r Hx _ IH]; intro H; [reflexivity|]. inversion H; subst. cbn [forallb].
  rewrite Hx, IH by assumption. reflexivity.
Qed.
Lemma wf_attrsb_complete : forall l, wf_attrs l -> wf_attrsb l = true.
Proof.
  intros l [H1 H2]. unfold wf_attrsb. rewrite (nodupb_complete str2_eqb str2_eqb_eq _ H1). cbn [andb].
  revert H2. apply Forall_forallb, Forall_forall. intros a _ Ha. now apply (nodupb_complete Z.eqb Z.eqb_eq).
Qed.
Lemma wf_sigb_complete : forall s, wf_sig s -> wf_sigb s = true.
Proof.
  induction s as [h a n d r ty un|h a n d r sz en|h a n d r gc gs fx groups IH] using rsig_ind';
    intro H; inversion H; subst; cbn [wf_sigb].
  - now apply wf_attrsb_complete.
  - rewrite wf_attrsb_complete by assumption. now apply (nodupb_complete Z.eqb Z.eqb_eq).
  - rewrite wf_attrsb_complete by assumption. cbn [andb].
    match goal with Hg : Forall (Forall wf_sig) groups |- _ => revert Hg end.
    apply Forall_forallb. eapply Forall_impl; [|exact IH]. intros g Hg. now apply Forall_forallb.
Qed.
Lemma wf_netb_complete : forall r, wf_net r -> wf_netb r = true.
Proof.
  intros r [H1 H2]. unfold wf_netb. rewrite (nodupb_complete String.eqb String.eqb_eq _ H1). cbn [andb].
  revert H2. apply Forall_forallb, Forall_forall. intros b _ (B1 & B2 & B3). unfold wf_busb.
  rewrite (wf_attrsb_complete _ B1), (nodupb_complete Z.eqb Z.eqb_eq _ B2). cbn [andb].
  revert B3. apply Forall_forallb, Forall_forall. intros x _ (X1 & X2 & X3). unfold wf_nifb.
  rewrite (wf_attrsb_complete _ X1), (nodupb_complete zstr2_eqb zstr2_eqb_eq _ X2). cbn [andb].
  revert X3. apply Forall_forallb, Forall_forall. intros m _ (M1 & M2 & M3 & M4). unfold wf_msgb.
  rewrite (wf_attrsb_complete _ M1), (nodupb_complete str2_eqb str2_eqb_eq _ M2). cbn [andb].
  apply andb_true_iff. split.
  - revert M3. apply Forall_forallb, Forall_forall. intros rc _ Hrc. now apply wf_attrsb_complete.
  - revert M4. apply Forall_forallb, Forall_forall. intros s _ Hs. now apply wf_sigb_complete.
Qed.

(* ------------------------------------------------------------------ sorting commutes with a monotone map *)
Lemma StronglySorted_map_mono : forall {A} (R : A -> A -> Prop) (f : A -> A) l,
  (forall a b, R a b -> R (f a) (f b)) -> StronglySorted R l -> StronglySorted R (map f l).
Proof.
  intros A R f l Hm. induction 1 as [|x r Hs IH Hf]; cbn [map]; constructor; [assumption|].
  apply Forall_forall. intros y Hy. apply in_map_iff in Hy as [z [<- Hz]]. apply Hm.
  rewrite Forall_forall in Hf. now apply Hf.
Qed.

Lemma sorted_by_map_commute : forall {A K} (key : A -> K) (kleb : K -> K -> bool) (f : A -> A)
  (o1 o2 : oracle) s l, order_laws kleb -> valid o1 -> valid o2 ->
  (forall a b, kleb (key a) (key b) = true -> kleb (key (f a)) (key (f b)) = true) ->
  key_inj_on key (map f l) ->
  sorted_by o2 s key kleb (map f l) = map f (sorted_by o1 s key kleb l).
Proof.
  intros A K key kleb f o1 o2 s l laws V1 V2 Hm Hinj. unfold sorted_by.
  apply (sorted_perm_unique key kleb laws).
  - apply isort_sorted; assumption.
  - apply StronglySorted_map_mono; [exact Hm|apply isort_sorted; assumption].
  - rewrite isort_perm', (V2 A s (map f l)). apply Permutation_map.
    rewrite isort_perm', (V1 A s l). reflexivity.
  - intros a b Ha Hb. apply Hinj; (eapply Permutation_in; [|eassumption]);
      (rewrite isort_perm'; apply (V2 A s (map f l))).
Qed.

Lemma str2_erase_mono : forall n1 e1 n2 e2,
  str2_leb (n1, e1) (n2, e2) = true -> str2_leb (n1, EmptyString) (n2, EmptyString) = true.
Proof.
  intros n1 e1 n2 e2. unfold str2_leb, lex_leb. cbn [fst snd].
  destruct (String.eqb n1 n2); [reflexivity|auto].
Qed.

(* ------------------------------------------------------------------ the getters commute with erasing the ids *)
Section erase.
  Variables o1 o2 : oracle.
  Hypothesis V1 : valid o1.
  Hypothesis V2 : valid o2.

  Lemma get_attrs_erase : forall l, wf_attrs (map erase_attr l) ->
    get_attrs o2 (map erase_attr l) = map erase_attr (get_attrs o1 l).
  Proof.
    intros l [W Wv]. unfold get_attrs.
    assert (E : map (walk_attr o2) (map erase_attr l) = map erase_attr (map (walk_attr o1) l)).
    { rewrite !map_map. apply map_ext_in. intros a Ha.
      assert (Hn : NoDup (map (@fst Z string) (ra_vals a))).
      { rewrite Forall_forall in Wv. apply (Wv (erase_attr a)). now apply in_map. }
      rewrite (walk_attr_eq o2 o1 V2 V1 (erase_attr a) Hn). reflexivity. }
    rewrite E. apply sorted_by_map_commute; try assumption; [apply str2_laws| |].
    - intros a b. unfold attr_key. cbn [erase_attr ra_name ra_eid]. apply str2_erase_mono.
    - intros a b Ha Hb Ek. apply (NoDup_map_inj_on attr_key (map erase_attr (map (walk_attr o1) l))); try assumption.
      rewrite !map_map. rewrite map_map in W. exact W.
  Qed.

  Lemma walk_sig_erase : forall s, wf_sig (erase_sig s) -> walk_sig o2 (erase_sig s) = erase_sig (walk_sig o1 s).
  Proof.
    induction s as [h a n d r ty un|h a n d r sz en|h a n d r gc gs fx groups IH] using rsig_ind';
      intro Hw; cbn [erase_sig] in Hw; inversion Hw; subst; cbn [erase_sig walk_sig].
    - f_equal. now apply get_attrs_erase.
    - f_equal; [now apply get_attrs_erase|].
      symmetry. apply walk_enum_eq; try assumption. apply enum_equiv_refl.
    - f_equal; [now apply get_attrs_erase|].
      match goal with Hg : Forall (Forall wf_sig) (map (map erase_sig) groups) |- _ => revert Hg end.
      clear - IH. induction IH as [|g rest Hg _ IHr]; intro Hw; [reflexivity|].
      cbn [map] in Hw. inversion Hw; subst. cbn [map]. f_equal; [|now apply IHr].
      match goal with Hx : Forall wf_sig (map erase_sig g) |- _ => revert Hx end.
      clear - Hg. induction Hg as [|x r' Hx _ IHg]; intro Hw; [reflexivity|].
      cbn [map] in Hw. inversion Hw; subst. cbn [map]. f_equal; [now apply Hx|now apply IHg].
  Qed.

  Lemma walk_recv_erase : forall rc, wf_attrs (map erase_attr (rr_attrs rc)) ->
    walk_recv o2 (erase_recv rc) = erase_recv (walk_recv o1 rc).
  Proof. intros rc W. unfold walk_recv, erase_recv. cbn. f_equal. now apply get_attrs_erase. Qed.

  Lemma walk_msg_erase : forall m, wf_msg (erase_msg m) -> walk_msg o2 (erase_msg m) = erase_msg (walk_msg o1 m).
  Proof.
    intros m (Wa & Wr & Wra & Ws). cbn [erase_msg rm_attrs rm_recv rm_sigs] in *.
    unfold walk_msg, erase_msg. cbn. f_equal.
    - now apply get_attrs_erase.
    - assert (E : map (walk_recv o2) (map erase_recv (rm_recv m)) = map erase_recv (map (walk_recv o1) (rm_recv m))).
      { rewrite !map_map. apply map_ext_in. intros rc Hrc. apply walk_recv_erase.
        rewrite Forall_forall in Wra. apply (Wra (erase_recv rc)). now apply in_map. }
      rewrite E. apply sorted_by_map_commute; try assumption; [apply str2_laws| |].
      + intros a b. unfold recv_key. cbn [erase_recv rr_name rr_eid]. apply str2_erase_mono.
      + intros a b Ha Hb Ek.
        apply (NoDup_map_inj_on recv_key (map erase_recv (map (walk_recv o1) (rm_recv m)))); try assumption.
        rewrite !map_map. rewrite map_map in Wr. exact Wr.
    - rewrite !map_map. apply map_ext_in. intros s Hs. apply walk_sig_erase.
      rewrite Forall_forall in Ws. apply Ws. now apply in_map.
  Qed.

  Lemma zstr2_erase_mono : forall i1 n1 e1 i2 n2 e2,
    zstr2_leb (i1, (n1, e1)) (i2, (n2, e2)) = true ->
    zstr2_leb (i1, (n1, EmptyString)) (i2, (n2, EmptyString)) = true.
  Proof.
    intros. unfold zstr2_leb, lex_leb in *. cbn [fst snd] in *.
    destruct (Z.eqb i1 i2); [|assumption]. eapply str2_erase_mono. exact H.
  Qed.

  Lemma walk_nif_erase : forall x, wf_nif (erase_nif x) -> walk_nif o2 (erase_nif x) = erase_nif (walk_nif o1 x).
  Proof.
    intros x (Wa & Wn & Wm). cbn [erase_nif rn_attrs rn_msgs] in *.
    unfold walk_nif, erase_nif. cbn. f_equal; [now apply get_attrs_erase|].
    assert (E : map (walk_msg o2) (map erase_msg (rn_msgs x)) = map erase_msg (map (walk_msg o1) (rn_msgs x))).
    { rewrite !map_map. apply map_ext_in. intros m Hm. apply walk_msg_erase.
      rewrite Forall_forall in Wm. apply Wm. now apply in_map. }
    rewrite E. apply sorted_by_map_commute; try assumption; [apply zstr2_laws| |].
    - intros a b. unfold msg_key. cbn [erase_msg rm_id rm_name rm_eid]. apply zstr2_erase_mono.
    - intros a b Ha Hb Ek.
      apply (NoDup_map_inj_on msg_key (map erase_msg (map (walk_msg o1) (rn_msgs x)))); try assumption.
      rewrite !map_map. rewrite map_map in Wn. exact Wn.
  Qed.

  Lemma walk_bus_erase : forall b, wf_bus (erase_bus b) -> walk_bus o2 (erase_bus b) = erase_bus (walk_bus o1 b).
  Proof.
    intros b (Wa & Wn & Wx). cbn [erase_bus rb_attrs rb_nifs] in *.
    unfold walk_bus, erase_bus. cbn. f_equal; [now apply get_attrs_erase|].
    assert (E : map (walk_nif o2) (map erase_nif (rb_nifs b)) = map erase_nif (map (walk_nif o1) (rb_nifs b))).
    { rewrite !map_map. apply map_ext_in. intros x Hx. apply walk_nif_erase.
      rewrite Forall_forall in Wx. apply Wx. now apply in_map. }
    rewrite E. apply sorted_by_map_commute; try assumption; [apply Z_laws|auto|].
    intros a c Ha Hc Ek.
    apply (NoDup_map_inj_on rn_id (map erase_nif (map (walk_nif o1) (rb_nifs b)))); try assumption.
    rewrite !map_map. rewrite map_map in Wn. exact Wn.
  Qed.

  Lemma walk_erase : forall r, wf_net (erase_net r) -> walk o2 (erase_net r) = erase_net (walk o1 r).
  Proof.
    intros r (Wn & Wb). cbn [erase_net rt_buses] in *. unfold walk, erase_net. cbn. f_equal.
    assert (E : map (walk_bus o2) (map erase_bus (rt_buses r)) = map erase_bus (map (walk_bus o1) (rt_buses r))).
    { rewrite !map_map. apply map_ext_in. intros b Hb. apply walk_bus_erase.
      rewrite Forall_forall in Wb. apply Wb. now apply in_map. }
    rewrite E. apply sorted_by_map_commute; try assumption; [apply string_laws|auto|].
    intros a c Ha Hc Ek.
    apply (NoDup_map_inj_on rb_name (map erase_bus (map (walk_bus o1) (rt_buses r)))); try assumption.
    rewrite !map_map. rewrite map_map in Wn. exact Wn.
  Qed.
End erase.

Lemma to_sig_erase : forall s, to_sig (erase_sig s) = to_sig s.
Proof.
  induction s as [h a n d r ty un|h a n d r sz en|h a n d r gc gs fx groups IH] using rsig_ind'; try reflexivity.
  cbn [erase_sig to_sig]. f_equal. rewrite map_map.
  induction IH as [|g rest Hg _ IHr]; [reflexivity|]. cbn [map]. f_equal; [|exact IHr].
  rewrite map_map. induction Hg as [|x r' Hx _ IHg]; [reflexivity|]. cbn [map]. now rewrite Hx, IHg.
Qed.
Lemma to_net_erase : forall r, to_net (erase_net r) = to_net r.
Proof.
  intro r. unfold to_net, erase_net. cbn. f_equal. rewrite map_map. apply map_ext. intro b.
  unfold to_bus, erase_bus. cbn. f_equal. rewrite map_map. apply map_ext. intro x.
  unfold to_nif, erase_nif. cbn. f_equal. rewrite map_map. apply map_ext. intro m.
  unfold to_msg, erase_msg. cbn. f_equal.
  - rewrite map_map. reflexivity.
  - rewrite map_map. apply map_ext. apply to_sig_erase.
Qed.

(* two builds of one model: equal up to the entity ids and the order of the map-like fields, and no
   sort key falls back to the id (the id-erased networks are well-formed) *)
Lemma build_order_free_mod_ids_lemma : forall o1 o2 r1 r2, valid o1 -> valid o2 ->
  wf_net (erase_net r1) -> wf_net (erase_net r2) -> net_equiv (erase_net r1) (erase_net r2) ->
  md_raw o1 r1 = md_raw o2 r2 /\ save_noids o1 r1 = save_noids o2 r2 /\ dbc_noids o1 r1 = dbc_noids o2 r2.
Proof.
  intros o1 o2 r1 r2 V1 V2 W1 W2 E.
  assert (K : erase_net (walk o1 r1) = erase_net (walk o2 r2)).
  { rewrite <- (walk_erase o1 o1 V1 V1 r1 W1), <- (walk_erase o2 o2 V2 V2 r2 W2).
    now apply walk_eq. }
  unfold md_raw, save_noids, dbc_noids. rewrite K. repeat split.
  rewrite <- (to_net_erase (walk o1 r1)), K, to_net_erase. reflexivity.
Qed.

(* ------------------------------------------------------------------ wf_net is preserved by the key-changing mutators *)
Lemma NoDup_map_update : forall {A K} (hd : A -> N) (key : A -> K) (upd : A -> A) (h : N) (new : K) l,
  NoDup (map hd l) -> NoDup (map key l) -> ~ In new (map key l) ->
  (forall x, key (upd x) = new) ->
  NoDup (map key (map (fun x => if N.eqb (hd x) h then upd x else x) l)).
Proof.
  intros A K hd key upd h new. induction l as [|x r IH]; intros Hh Hk Hn Hu; [constructor|].
  cbn [map] in *. inversion Hh as [|? ? Hxh Hrh]; subst. inversion Hk as [|? ? Hxk Hrk]; subst.
  assert (Hn' : ~ In new (map key r)) by (intro; apply Hn; now right).
  constructor; [|now apply IH].
  rewrite map_map. intro Hin. apply in_map_iff in Hin as [y [Ey Hy]].
  destruct (N.eqb (hd x) h) eqn:Ex.
  - rewrite Hu in Ey. destruct (N.eqb (hd y) h) eqn:E2.
    + apply N.eqb_eq in Ex, E2. apply Hxh. rewrite Ex, <- E2. now apply in_map.
    + apply Hn'. rewrite <- Ey. now apply in_map.
  - destruct (N.eqb (hd y) h) eqn:E2.
    + rewrite Hu in Ey. apply Hn. left. now symmetry.
    + apply Hxk. rewrite <- Ey. now apply in_map.
Qed.

Lemma mut_bus_name_wf : forall h new r, wf_net r -> NoDup (map rb_h (rt_buses r)) ->
  ~ In new (map rb_name (rt_buses r)) -> wf_net (mut_bus_name h new r).
Proof.
  intros h new r [Wn Wb] Hh Hnew. unfold mut_bus_name. split; cbn [rt_buses].
  - apply (NoDup_map_update rb_h rb_name _ h new); try assumption. reflexivity.
  - apply Forall_forall. intros b Hin. apply in_map_iff in Hin as [b0 [<- Hb0]].
    rewrite Forall_forall in Wb. specialize (Wb _ Hb0). destruct (N.eqb (rb_h b0) h); exact Wb.
Qed.

Lemma set_nif_id_wf : forall h new x, wf_nif x -> wf_nif (set_nif_id h new x).
Proof. intros h new x W. unfold set_nif_id. destruct (N.eqb (rn_h x) h); exact W. Qed.

(* Node.UpdateID is accepted only when the new id is free on every bus the node is attached to *)
Lemma mut_node_id_wf : forall h new r, wf_net r ->
  Forall (fun b => NoDup (map rn_h (rb_nifs b)) /\ ~ In new (map rn_id (rb_nifs b))) (rt_buses r) ->
  wf_net (mut_node_id h new r).
Proof.
  intros h new r [Wn Wb] Hf. unfold mut_node_id. split; cbn [rt_buses].
  - rewrite map_map. cbn [rb_name]. exact Wn.
  - apply Forall_forall. intros b Hin. apply in_map_iff in Hin as [b0 [<- Hb0]].
    rewrite Forall_forall in Wb, Hf. destruct (Wb _ Hb0) as (Wa & Wi & Wx). destruct (Hf _ Hb0) as [Hh Hnew].
    split; [exact Wa|]. cbn [rb_nifs]. split.
    + unfold set_nif_id. apply (NoDup_map_update rn_h rn_id _ h new); try assumption. reflexivity.
    + apply Forall_forall. intros x Hx. apply in_map_iff in Hx as [x0 [<- Hx0]]. apply set_nif_id_wf.
      rewrite Forall_forall in Wx. now apply Wx.
Qed.

(* ------------------------------------------------------------------ id-keyed ties on a model built twice *)
Local Open Scope string_scope.
Definition tie_net (e1 e2 : string) : rnet :=
  {| rt_name := "net"; rt_desc := "";
     rt_buses := [ {| rb_h := 40; rb_attrs := [ {| ra_h := 1; ra_name := "at"; ra_eid := e1; ra_vals := [] |};
                                                {| ra_h := 2; ra_name := "at"; ra_eid := e2; ra_vals := [] |} ];
                      rb_builder := None; rb_name := "bus"; rb_desc := ""; rb_baud := 0; rb_nifs := [] |} ] |}.

Lemma build_order_ids_refuted_lemma :
  wf_net (tie_net "a" "b") /\ wf_net (tie_net "b" "a")
  /\ net_equiv (erase_net (tie_net "a" "b")) (erase_net (tie_net "b" "a"))
  /\ ~ wf_net (erase_net (tie_net "a" "b"))
  /\ save_noids o_id (tie_net "a" "b") <> save_noids o_id (tie_net "b" "a")
  /\ dbc_noids o_id (tie_net "a" "b") <> dbc_noids o_id (tie_net "b" "a").
Proof.
  repeat split; try (apply wf_netb_sound; vm_compute; reflexivity).
  - apply PermEquiv_refl, bus_equiv_refl.
  - intro W. apply wf_netb_complete in W. vm_compute in W. discriminate W.
  - vm_compute. intro H. discriminate H.
  - vm_compute. intro H. discriminate H.
Qed.
