(* C15 — proofs: every getter returns one list whatever the oracle answers, because its comparator
   is a total order on keys that are unique among the entries of the map. *)
From Coq Require Import ZArith List String Bool Permutation Sorting.Sorted OrderedTypeEx Lia.
From Acme.C16 Require Import Model.
From Acme.C15 Require Import Model Spec.
Import ListNotations.

(* ------------------------------------------------------------------ order laws *)
Record order_laws {K} (kleb : K -> K -> bool) : Prop := {
  ol_total : forall a b, kleb a b = true \/ kleb b a = true;
  ol_trans : forall a b c, kleb a b = true -> kleb b c = true -> kleb a c = true;
  ol_antisym : forall a b, kleb a b = true -> kleb b a = true -> a = b }.

Lemma string_compare_refl : forall s, String.compare s s = Eq.
Proof. intro s. now apply String_as_OT.cmp_eq. Qed.

Lemma string_leb_trans : forall a b c,
  String.leb a b = true -> String.leb b c = true -> String.leb a c = true.
Proof.
  intros a b c. unfold String.leb.
  destruct (String.compare a b) eqn:E1; destruct (String.compare b c) eqn:E2; try discriminate; intros _ _.
  - apply String_as_OT.cmp_eq in E1, E2. subst. now rewrite string_compare_refl.
  - apply String_as_OT.cmp_eq in E1. subst. now rewrite E2.
  - apply String_as_OT.cmp_eq in E2. subst. now rewrite E1.
  - apply String_as_OT.cmp_lt in E1, E2.
    pose proof (String_as_OT.lt_trans _ _ _ E1 E2) as H. apply String_as_OT.cmp_lt in H.
    unfold String_as_OT.cmp in H. now rewrite H.
Qed.

Lemma string_laws : order_laws String.leb.
Proof.
  constructor; [apply String.leb_total|apply string_leb_trans|apply String.leb_antisym].
Qed.

Lemma Z_laws : order_laws Z.leb.
Proof.
  constructor.
  - intros a b. destruct (Z.leb_spec a b); [now left|right; apply Z.leb_le; lia].
  - intros a b c H1 H2. apply Z.leb_le in H1, H2. apply Z.leb_le. lia.
  - intros a b H1 H2. apply Z.leb_le in H1, H2. lia.
Qed.

Lemma lex_laws : forall {A B} (eqa : A -> A -> bool) (leba : A -> A -> bool) (lebb : B -> B -> bool),
  (forall a b, eqa a b = true <-> a = b) -> order_laws leba -> order_laws lebb ->
  order_laws (lex_leb eqa leba lebb).
Proof.
  intros A B eqa leba lebb Heq [ta ra aa] [tb rb ab].
  assert (Hrefl : forall a, eqa a a = true) by (intro; now apply Heq).
  assert (Hsym : forall a b, eqa a b = eqa b a).
  { intros a b. destruct (eqa a b) eqn:E1, (eqa b a) eqn:E2; try reflexivity.
    - apply Heq in E1. subst. now rewrite Hrefl in E2.
    - apply Heq in E2. subst. now rewrite Hrefl in E1. }
  constructor; unfold lex_leb.
  - intros [a1 a2] [b1 b2]. cbn [fst snd]. rewrite (Hsym b1 a1).
    destruct (eqa a1 b1); [apply tb|apply ta].
  - intros [a1 a2] [b1 b2] [c1 c2]. cbn [fst snd].
    destruct (eqa a1 b1) eqn:E1; [apply Heq in E1; subst b1|].
    + destruct (eqa a1 c1); [apply rb|auto].
    + destruct (eqa b1 c1) eqn:E2; [apply Heq in E2; subst c1; rewrite E1; auto|].
      intros H1 H2. destruct (eqa a1 c1) eqn:E3.
      * apply Heq in E3. subst c1. pose proof (aa _ _ H1 H2). subst b1. now rewrite Hrefl in E1.
      * eapply ra; eassumption.
  - intros [a1 a2] [b1 b2]. cbn [fst snd]. rewrite (Hsym b1 a1).
    destruct (eqa a1 b1) eqn:E1.
    + apply Heq in E1. subst b1. intros H1 H2. f_equal. now apply ab.
    + intros H1 H2. pose proof (aa _ _ H1 H2). subst b1. now rewrite Hrefl in E1.
Qed.

Lemma str2_laws : order_laws str2_leb.
Proof. apply lex_laws; [apply String.eqb_eq|apply string_laws|apply string_laws]. Qed.
Lemma zstr2_laws : order_laws zstr2_leb.
Proof. apply lex_laws; [apply Z.eqb_eq|apply Z_laws|apply str2_laws]. Qed.

(* ------------------------------------------------------------------ sorting is canonical *)
Section sort_unique.
  Context {A K : Type} (key : A -> K) (kleb : K -> K -> bool).
  Hypothesis laws : order_laws kleb.
  Let leb (x y : A) : bool := kleb (key x) (key y).
  Let R (x y : A) : Prop := leb x y = true.

  Lemma insert_perm' : forall x l, Permutation (insert leb x l) (x :: l).
  Proof.
    induction l as [|y r IH]; cbn [insert]; [reflexivity|].
    destruct (leb x y); [reflexivity|]. rewrite IH. apply perm_swap.
  Qed.
  Lemma isort_perm' : forall l, Permutation (isort leb l) l.
  Proof. induction l as [|x r IH]; cbn [isort]; [reflexivity|]. rewrite insert_perm'. now constructor. Qed.

  Lemma insert_sorted : forall x l, StronglySorted R l -> StronglySorted R (insert leb x l).
  Proof.
    induction l as [|y r IH]; intro Hs; cbn [insert].
    - repeat constructor.
    - inversion Hs as [|? ? Hr Hy]; subst. destruct (leb x y) eqn:E.
      + constructor; [assumption|]. constructor; [exact E|].
        eapply Forall_impl; [|exact Hy]. intros z Hz. unfold R, leb in *.
        eapply (ol_trans _ laws); eassumption.
      + constructor; [now apply IH|].
        eapply Permutation_Forall; [symmetry; apply insert_perm'|].
        constructor; [|assumption].
        destruct (ol_total _ laws (key x) (key y)) as [H|H]; [unfold leb in E; congruence|exact H].
  Qed.
  Lemma isort_sorted : forall l, StronglySorted R (isort leb l).
  Proof. induction l as [|x r IH]; cbn [isort]; [constructor|now apply insert_sorted]. Qed.

  Definition key_inj_on (l : list A) : Prop :=
    forall a b, In a l -> In b l -> key a = key b -> a = b.

  Lemma sorted_perm_unique : forall l1 l2,
    StronglySorted R l1 -> StronglySorted R l2 -> Permutation l1 l2 -> key_inj_on l1 -> l1 = l2.
  Proof.
    induction l1 as [|x r1 IH]; intros l2 S1 S2 P Hinj.
    - apply Permutation_nil in P. now subst.
    - destruct l2 as [|y r2]; [apply Permutation_sym, Permutation_nil in P; discriminate|].
      inversion S1 as [|? ? S1' F1]; subst. inversion S2 as [|? ? S2' F2]; subst.
      assert (Hx : In x (y :: r2)) by (eapply Permutation_in; [exact P|now left]).
      assert (Hy : In y (x :: r1)) by (eapply Permutation_in; [symmetry; exact P|now left]).
      assert (x = y).
      { destruct Hy as [->|Hy]; [reflexivity|]. destruct Hx as [->|Hx]; [reflexivity|].
        rewrite Forall_forall in F1, F2. specialize (F1 _ Hy). specialize (F2 _ Hx).
        apply Hinj; [now left|now right|]. now apply (ol_antisym _ laws). }
      subst y. f_equal. apply IH; try assumption.
      + eapply Permutation_cons_inv; exact P.
      + intros a b Ha Hb. apply Hinj; now right.
  Qed.

  Lemma isort_perm_eq : forall l1 l2, Permutation l1 l2 -> key_inj_on l1 -> isort leb l1 = isort leb l2.
  Proof.
    intros l1 l2 P Hinj. apply sorted_perm_unique; try apply isort_sorted.
    - rewrite !isort_perm'. exact P.
    - intros a b Ha Hb. apply Hinj; (eapply Permutation_in; [apply isort_perm'|assumption]).
  Qed.

  (* the getter *)
  Lemma sorted_by_eq : forall (o1 o2 : oracle) s l1 l2, valid o1 -> valid o2 ->
    Permutation l1 l2 -> key_inj_on l1 -> sorted_by o1 s key kleb l1 = sorted_by o2 s key kleb l2.
  Proof.
    intros o1 o2 s l1 l2 V1 V2 P Hinj. unfold sorted_by. apply isort_perm_eq.
    - rewrite (V1 A s l1), (V2 A s l2). exact P.
    - intros a b Ha Hb. apply Hinj; (eapply Permutation_in; [apply (V1 A s l1)|assumption]).
  Qed.
End sort_unique.

Lemma NoDup_map_inj_on : forall {A B} (f : A -> B) l a b,
  NoDup (map f l) -> In a l -> In b l -> f a = f b -> a = b.
Proof.
  induction l as [|x r IH]; intros a b Hn Ha Hb E; [contradiction|].
  cbn [map] in Hn. inversion Hn as [|? ? Hx Hr]; subst.
  destruct Ha as [->|Ha], Hb as [->|Hb]; try reflexivity.
  - exfalso. apply Hx. rewrite E. now apply in_map.
  - exfalso. apply Hx. rewrite <- E. now apply in_map.
  - now apply IH.
Qed.

(* ------------------------------------------------------------------ the getters, level by level *)
Section walk.
  Variables o1 o2 : oracle.
  Hypothesis V1 : valid o1.
  Hypothesis V2 : valid o2.

  Lemma walk_attr_eq : forall a, NoDup (map (@fst Z string) (ra_vals a)) -> walk_attr o1 a = walk_attr o2 a.
  Proof.
    intros a W. unfold walk_attr. f_equal.
    apply sorted_by_eq; try assumption; [apply Z_laws|reflexivity|].
    intros x y Hx Hy E. now apply (NoDup_map_inj_on (@fst Z string) (ra_vals a)).
  Qed.

  Lemma get_attrs_eq : forall a1 a2, Permutation a1 a2 -> wf_attrs a1 -> get_attrs o1 a1 = get_attrs o2 a2.
  Proof.
    intros a1 a2 P [W Wv]. unfold get_attrs. apply sorted_by_eq; try assumption; [apply str2_laws| |].
    - rewrite <- (Permutation_map (walk_attr o2) P). apply Permutation_refl'.
      apply map_ext_in. intros a Ha. apply walk_attr_eq. rewrite Forall_forall in Wv. now apply Wv.
    - intros a b Ha Hb E. apply (NoDup_map_inj_on ra_eid (map (walk_attr o1) a1)); try assumption.
      + rewrite map_map. exact W.
      + unfold attr_key in E. now injection E.
  Qed.

  Lemma walk_enum_eq : forall e1 e2, enum_equiv e1 e2 -> wf_enum e1 -> walk_enum o1 e1 = walk_enum o2 e2.
  Proof.
    intros e1 e2 (H1 & H2 & H3 & H4 & P) W. unfold walk_enum. rewrite H1, H2, H3, H4. f_equal.
    apply sorted_by_eq; try assumption; [apply Z_laws|].
    intros a b Ha Hb E. now apply (NoDup_map_inj_on ev_index (se_values e1)).
  Qed.

  Section rsig_induction.
    Variable P : rsig -> Prop.
    Hypothesis Hstd : forall h a n d r ty un, P (RStd h a n d r ty un).
    Hypothesis Henum : forall h a n d r sz en, P (REnum h a n d r sz en).
    Hypothesis Hmux : forall h a n d r gc gs fx groups, Forall (Forall P) groups ->
      P (RMux h a n d r gc gs fx groups).
    Fixpoint rsig_ind' (s : rsig) : P s :=
      match s with
      | RStd h a n d r ty un => Hstd h a n d r ty un
      | REnum h a n d r sz en => Henum h a n d r sz en
      | RMux h a n d r gc gs fx groups =>
          Hmux h a n d r gc gs fx groups
            ((fix fg (l : list (list rsig)) : Forall (Forall P) l :=
                match l with
                | [] => Forall_nil _
                | g :: r' =>
                    Forall_cons g
                      ((fix fl (l' : list rsig) : Forall P l' :=
                          match l' with
                          | [] => Forall_nil _
                          | x :: r'' => Forall_cons x (rsig_ind' x) (fl r'')
                          end) g) (fg r')
                end) groups)
      end.
  End rsig_induction.

  Lemma map_eq_Forall2 : forall {A B} (R : A -> A -> Prop) (Q : A -> Prop) (f g : A -> B) l1 l2,
    Forall2 R l1 l2 -> Forall Q l1 ->
    Forall (fun x => forall y, R x y -> Q x -> f x = g y) l1 -> map f l1 = map g l2.
  Proof.
    induction 1 as [|x y r1 r2 Hxy _ IH]; intros HQ HP; [reflexivity|].
    inversion HQ; subst. inversion HP; subst. cbn [map]. f_equal; [auto|now apply IH].
  Qed.

  Lemma groups_eq : forall g1 g2,
    Forall2 (Forall2 sig_equiv) g1 g2 -> Forall (Forall wf_sig) g1 ->
    Forall (Forall (fun s1 => forall s2, sig_equiv s1 s2 -> wf_sig s1 -> walk_sig o1 s1 = walk_sig o2 s2)) g1 ->
    map (map (walk_sig o1)) g1 = map (map (walk_sig o2)) g2.
  Proof.
    induction 1 as [|x y r1 r2 Hxy _ IHg]; intros Hw IH; [reflexivity|].
    inversion Hw; subst. inversion IH; subst. cbn [map]. f_equal; [|now apply IHg].
    eapply (map_eq_Forall2 sig_equiv wf_sig); eassumption.
  Qed.

  Lemma walk_sig_eq : forall s1 s2, sig_equiv s1 s2 -> wf_sig s1 -> walk_sig o1 s1 = walk_sig o2 s2.
  Proof.
    induction s1 as [h a n d r ty un|h a n d r sz en|h a n d r gc gs fx groups IH] using rsig_ind';
      intros s2 He Hw; inversion He; subst; inversion Hw; subst; cbn [walk_sig].
    - f_equal. now apply get_attrs_eq.
    - f_equal; [now apply get_attrs_eq|now apply walk_enum_eq].
    - f_equal; [now apply get_attrs_eq|now apply groups_eq].
  Qed.

  Lemma perm_map_equiv : forall {A B} (R : A -> A -> Prop) (Q : A -> Prop) (f g : A -> B) l1 l2,
    PermEquiv R l1 l2 -> Forall Q l1 -> (forall x y, R x y -> Q x -> f x = g y) ->
    Permutation (map f l1) (map g l2).
  Proof.
    intros A B R Q f g l1 l2 [l [P F]] HQ Hfg.
    rewrite (Permutation_map f P).
    assert (HQl : Forall Q l) by (eapply Permutation_Forall; eassumption).
    clear P HQ. induction F as [|x y r1 r2 Hxy _ IH]; [reflexivity|].
    inversion HQl; subst. cbn [map]. rewrite (Hfg x y) by assumption. constructor. now apply IH.
  Qed.

  Lemma key_inj_map : forall {A K B} (key : A -> K) (sub : A -> B) (w : A -> A) l,
    (forall a, key (w a) = key a) -> (forall a, sub (w a) = sub a) ->
    (forall a b, key a = key b -> sub a = sub b) ->
    NoDup (map sub l) -> key_inj_on key (map w l).
  Proof.
    intros A K B key sub w l Hk Hs Hks Hn a b Ha Hb E.
    apply (NoDup_map_inj_on sub (map w l)); try assumption.
    - rewrite map_map. erewrite map_ext; [exact Hn|]. intro; apply Hs.
    - now apply Hks.
  Qed.

  Lemma walk_recv_eq : forall r1 r2, recv_equiv r1 r2 -> wf_attrs (rr_attrs r1) -> walk_recv o1 r1 = walk_recv o2 r2.
  Proof.
    intros r1 r2 (E1 & E2 & E3 & E4 & E5 & Pa) W. unfold walk_recv.
    now rewrite E1, E2, E3, E4, E5, (get_attrs_eq _ _ Pa W).
  Qed.

  Lemma walk_msg_eq : forall m1 m2, msg_equiv m1 m2 -> wf_msg m1 -> walk_msg o1 m1 = walk_msg o2 m2.
  Proof.
    intros m1 m2 (E1 & E2 & Pa & Pr & E3 & E4 & E5 & E6 & E7 & E8 & E9 & E10 & Fs) (Wa & Wr & Wra & Ws).
    unfold walk_msg. rewrite E1, E2, E3, E4, E5, E6, E7, E8, E9, E10.
    rewrite (get_attrs_eq _ _ Pa Wa).
    assert (Hr : sorted_by o1 site_recv recv_key str2_leb (map (walk_recv o1) (rm_recv m1))
                 = sorted_by o2 site_recv recv_key str2_leb (map (walk_recv o2) (rm_recv m2))).
    { apply sorted_by_eq; try assumption; [apply str2_laws| |].
      - eapply (perm_map_equiv recv_equiv (fun rc => wf_attrs (rr_attrs rc))); try eassumption.
        intros; now apply walk_recv_eq.
      - apply (key_inj_map recv_key rr_eid (walk_recv o1)); try reflexivity; [|assumption].
        intros a b E. unfold recv_key in E. now injection E. }
    rewrite Hr.
    assert (Hs : map (walk_sig o1) (rm_sigs m1) = map (walk_sig o2) (rm_sigs m2)).
    { eapply (map_eq_Forall2 sig_equiv wf_sig); try eassumption.
      apply Forall_forall. intros x _ y. apply walk_sig_eq. }
    now rewrite Hs.
  Qed.

  Lemma walk_msg_key : forall o m, msg_key (walk_msg o m) = msg_key m.
  Proof. reflexivity. Qed.

  Lemma walk_nif_eq : forall x1 x2, nif_equiv x1 x2 -> wf_nif x1 -> walk_nif o1 x1 = walk_nif o2 x2.
  Proof.
    intros x1 x2 (E1 & Pa & E2 & E3 & E4 & Pm) (Wa & Wn & Wm).
    unfold walk_nif. rewrite E1, E2, E3, E4, (get_attrs_eq _ _ Pa Wa). f_equal.
    apply sorted_by_eq; try assumption; [apply zstr2_laws| |].
    - eapply (perm_map_equiv msg_equiv wf_msg); try eassumption. intros; now apply walk_msg_eq.
    - apply (key_inj_map msg_key rm_eid (walk_msg o1)); try reflexivity; [|assumption].
      intros a b E. unfold msg_key in E. now injection E.
  Qed.

  Lemma walk_bus_eq : forall b1 b2, bus_equiv b1 b2 -> wf_bus b1 -> walk_bus o1 b1 = walk_bus o2 b2.
  Proof.
    intros b1 b2 (E1 & Pa & E2 & E3 & E4 & E5 & Pn) (Wa & Wn & Wx).
    unfold walk_bus. rewrite E1, E2, E3, E4, E5, (get_attrs_eq _ _ Pa Wa). f_equal.
    apply sorted_by_eq; try assumption; [apply Z_laws| |].
    - eapply (perm_map_equiv nif_equiv wf_nif); try eassumption. intros; now apply walk_nif_eq.
    - apply (key_inj_map rn_id rn_id (walk_nif o1)); try reflexivity; [auto|assumption].
  Qed.

  Lemma walk_eq : forall r1 r2, net_equiv r1 r2 -> wf_net r1 -> walk o1 r1 = walk o2 r2.
  Proof.
    intros r1 r2 (E1 & E2 & Pb) (Wn & Wb).
    unfold walk. rewrite E1, E2. f_equal.
    apply sorted_by_eq; try assumption; [apply string_laws| |].
    - eapply (perm_map_equiv bus_equiv wf_bus); try eassumption. intros; now apply walk_bus_eq.
    - apply (key_inj_map rb_name rb_name (walk_bus o1)); try reflexivity; [auto|assumption].
  Qed.
End walk.

(* ------------------------------------------------------------------ reflexivity of "same model" *)
Lemma PermEquiv_refl : forall {A} (R : A -> A -> Prop) l, (forall x, R x x) -> PermEquiv R l l.
Proof.
  intros A R l HR. exists l. split; [reflexivity|]. induction l; constructor; auto.
Qed.

Lemma enum_equiv_refl : forall e, enum_equiv e e.
Proof. intro e. repeat split; reflexivity. Qed.

Lemma sig_equiv_refl : forall s, sig_equiv s s.
Proof.
  induction s as [h a n d r ty un|h a n d r sz en|h a n d r gc gs fx groups IH] using rsig_ind'.
  - now constructor.
  - constructor; [reflexivity|apply enum_equiv_refl].
  - constructor; [reflexivity|].
    induction IH as [|g rest Hg _ IHr]; constructor; [|assumption].
    induction Hg; constructor; assumption.
Qed.

Lemma recv_equiv_refl : forall r, recv_equiv r r.
Proof. intro r. repeat split; reflexivity. Qed.
Lemma msg_equiv_refl : forall m, msg_equiv m m.
Proof.
  intro m. repeat split; try reflexivity.
  - apply PermEquiv_refl, recv_equiv_refl.
  - induction (rm_sigs m); constructor; [apply sig_equiv_refl|assumption].
Qed.
Lemma nif_equiv_refl : forall x, nif_equiv x x.
Proof. intro x. repeat split; try reflexivity. apply PermEquiv_refl, msg_equiv_refl. Qed.
Lemma bus_equiv_refl : forall b, bus_equiv b b.
Proof. intro b. repeat split; try reflexivity. apply PermEquiv_refl, nif_equiv_refl. Qed.
Lemma net_equiv_refl : forall r, net_equiv r r.
Proof. intro r. repeat split; try reflexivity. apply PermEquiv_refl, bus_equiv_refl. Qed.

(* ------------------------------------------------------------------ the theorems *)
Lemma walk_oracle_free : forall o1 o2 r, valid o1 -> valid o2 -> wf_net r -> walk o1 r = walk o2 r.
Proof. intros. apply walk_eq; try assumption. apply net_equiv_refl. Qed.

Lemma md_oracle_free_lemma : forall o1 o2 r, valid o1 -> valid o2 -> wf_net r ->
  md_raw o1 r = md_raw o2 r.
Proof. intros. unfold md_raw. now rewrite (walk_oracle_free o1 o2). Qed.
Lemma save_oracle_free_lemma : forall o1 o2 r, valid o1 -> valid o2 -> wf_net r ->
  save_raw o1 r = save_raw o2 r.
Proof. intros. unfold save_raw. now rewrite (walk_oracle_free o1 o2). Qed.
Lemma dbc_oracle_free_lemma : forall o1 o2 r, valid o1 -> valid o2 -> wf_net r ->
  dbc_raw o1 r = dbc_raw o2 r.
Proof. intros. unfold dbc_raw. now rewrite (walk_oracle_free o1 o2). Qed.

Lemma records_oracle_free_lemma : forall o1 o2 r, valid o1 -> valid o2 -> wf_net r ->
  records_raw o1 r = records_raw o2 r.
Proof. intros. unfold records_raw. now rewrite (walk_oracle_free o1 o2). Qed.

Lemma build_order_free_lemma : forall o1 o2 r1 r2, valid o1 -> valid o2 -> wf_net r1 -> net_equiv r1 r2 ->
  md_raw o1 r1 = md_raw o2 r2 /\ save_raw o1 r1 = save_raw o2 r2 /\ dbc_raw o1 r1 = dbc_raw o2 r2.
Proof.
  intros o1 o2 r1 r2 V1 V2 W E. unfold md_raw, save_raw, dbc_raw.
  now rewrite (walk_eq o1 o2 V1 V2 r1 r2 E W).
Qed.

(* ------------------------------------------------------------------ histories *)
Lemma hrun_changes_only : forall evs s, hrun evs s = hrun (changes_only evs) s.
Proof.
  induction evs as [|e r IH]; intro s; [reflexivity|].
  destruct e as [o|f]; cbn [hrun changes_only filter]; apply IH.
Qed.

Lemma export_history_free_lemma : forall evs s o1 o2, valid o1 -> valid o2 ->
  wf_net (hrun (changes_only evs) s) ->
  outputs o1 (hrun evs s) = outputs o2 (hrun (changes_only evs) s).
Proof.
  intros evs s o1 o2 V1 V2 W. rewrite hrun_changes_only. unfold outputs, export_network_raw.
  now rewrite (md_oracle_free_lemma o1 o2), (save_oracle_free_lemma o1 o2), (dbc_oracle_free_lemma o1 o2).
Qed.

(* ------------------------------------------------------------------ oracles used for execution *)
Lemma o_id_valid : valid o_id.
Proof. intros A s l. reflexivity. Qed.
Lemma o_rev_valid : valid o_rev.
Proof. intros A s l. symmetry. apply Permutation_rev. Qed.
Lemma o_rot_valid : forall k, valid (o_rot k).
Proof.
  intros k A s l. unfold o_rot. rewrite Permutation_app_comm. now rewrite firstn_skipn.
Qed.

(* ------------------------------------------------------------------ satisfiability *)
Local Open Scope string_scope.
Local Open Scope Z_scope.
(* ties in every sort key that acmelib allows to tie: two attributes named "at" on one entity, two
   receivers named "N", two messages with id 5 on one interface (one static), two enums named
   "en", two types of size 8, nodes with id 1 on two buses, an enum with several values *)
Definition ex_a1 : rattr := {| ra_h := 1; ra_name := "at"; ra_eid := "e-a1"; ra_vals := [(1, "on"); (0, "off")] |}.
Definition ex_a2 : rattr := {| ra_h := 2; ra_name := "at"; ra_eid := "e-a2"; ra_vals := [] |}.
Definition ex_t1 : sigtype := {| st_id := 0; st_name := "ty"; st_desc := ""; st_size := 8; st_kind := "integer";
  st_signed := false; st_min := "0"; st_max := "255"; st_scale := "1"; st_offset := "0" |}.
Definition ex_t2 : sigtype := {| st_id := 1; st_name := "ty"; st_desc := "other"; st_size := 8; st_kind := "custom";
  st_signed := true; st_min := "-1"; st_max := "1"; st_scale := "0.5"; st_offset := "0" |}.
Definition ex_e1 : sigenum := {| se_id := 0; se_name := "en"; se_desc := ""; se_maxindex := 3;
  se_values := [ {| ev_name := "c"; ev_index := 3; ev_desc := "" |}; {| ev_name := "a"; ev_index := 0; ev_desc := "" |};
                 {| ev_name := "b"; ev_index := 1; ev_desc := "" |} ] |}.
Definition ex_e2 : sigenum := {| se_id := 1; se_name := "en"; se_desc := "second"; se_maxindex := 0; se_values := [] |}.
Definition ex_m1 : rmsg := {| rm_h := 10; rm_eid := "e-m1"; rm_attrs := [ex_a2; ex_a1];
  rm_recv := [ {| rr_h := 21; rr_name := "N"; rr_eid := "e-n2"; rr_num := 0; rr_id := 2; rr_attrs := [ex_a2] |};
               {| rr_h := 23; rr_name := "N"; rr_eid := "e-n3"; rr_num := 1; rr_id := 2; rr_attrs := [ex_a2; ex_a1] |} ];
  rm_name := "static five"; rm_desc := ""; rm_static := true; rm_canid := 5; rm_id := 5; rm_size := 8;
  rm_byteorder := "little-endian"; rm_cycle := 0;
  rm_sigs := [ RStd 30 [ex_a1] "s1" "" 0 ex_t2 None;
               RMux 31 [] "mx" "" 8 2 12 [33%N] [[REnum 32 [ex_a2; ex_a1] "e1" "" 0 2 ex_e2; RStd 33 [] "fx" "" 2 ex_t1 None];
                                                 [RStd 33 [] "fx" "" 2 ex_t1 None; REnum 34 [] "e2" "" 10 2 ex_e1]] ] |}.
Definition ex_m2 : rmsg := {| rm_h := 11; rm_eid := "e-m2"; rm_attrs := []; rm_recv := [];
  rm_name := "dynamic five"; rm_desc := ""; rm_static := false; rm_canid := 85; rm_id := 5; rm_size := 1;
  rm_byteorder := "little-endian"; rm_cycle := 10; rm_sigs := [] |}.
Definition ex_rnet : rnet :=
  {| rt_name := "net"; rt_desc := "";
     rt_buses := [ {| rb_h := 41; rb_attrs := [ex_a1; ex_a2]; rb_builder := Some {| bl_h := 50; bl_name := "cb"; bl_ops := [(2, 0, 4); (1, 4, 7)] |}; rb_name := "bus B"; rb_desc := ""; rb_baud := 0;
                      rb_nifs := [ {| rn_h := 22; rn_attrs := []; rn_name := "other"; rn_desc := ""; rn_id := 1; rn_msgs := [] |} ] |};
                   {| rb_h := 40; rb_attrs := []; rb_builder := Some {| bl_h := 51; bl_name := "cb"; bl_ops := [(0, 0, 11)] |}; rb_name := "bus A"; rb_desc := ""; rb_baud := 500000;
                      rb_nifs := [ {| rn_h := 21; rn_attrs := [ex_a2]; rn_name := "N"; rn_desc := ""; rn_id := 2; rn_msgs := [] |};
                                   {| rn_h := 20; rn_attrs := []; rn_name := "M"; rn_desc := ""; rn_id := 1; rn_msgs := [ex_m2; ex_m1] |} ] |} ] |}.

Ltac nodup_strings :=
  repeat (constructor; [cbn; intuition discriminate|]); constructor.

Lemma ex_rnet_wf : wf_net ex_rnet.
Proof.
  split; [nodup_strings|].
  repeat (constructor; try (unfold wf_bus, wf_nif, wf_msg, wf_attrs, wf_enum; cbn [map rb_attrs rb_nifs rn_attrs rn_msgs rm_attrs rm_recv rm_sigs rr_attrs
    ra_eid rn_id rm_eid rr_eid ex_rnet ex_m1 ex_m2 ex_a1 ex_a2 ev_index se_values ex_e1 ex_e2]));
    try nodup_strings; try (cbn; intuition (discriminate || lia)).
Qed.

(* the oracle does matter before sorting, and not after *)
Lemma ex_rnet_nontrivial :
  map rb_name (rt_buses (walk o_id ex_rnet)) = ["bus A"; "bus B"]
  /\ walk o_id ex_rnet = walk o_rev ex_rnet
  /\ rt_buses ex_rnet <> rev (rt_buses ex_rnet)
  /\ save_raw o_id ex_rnet = save_raw (o_rot 1) ex_rnet
  /\ List.length (save_raw o_id ex_rnet) = 53%nat.
Proof. repeat split; try (vm_compute; reflexivity). intro H. vm_compute in H. discriminate H. Qed.

(* ------------------------------------------------------------------ boolean well-formedness *)
Lemma nodupb_sound : forall {A} (eqb : A -> A -> bool), (forall a b, eqb a b = true <-> a = b) ->
  forall l, nodupb eqb l = true -> NoDup l.
Proof.
  intros A eqb Heq. induction l as [|x r IH]; intro H; [constructor|].
  cbn [nodupb] in H. apply andb_true_iff in H as [H1 H2]. constructor; [|now apply IH].
  intro Hin. apply negb_true_iff in H1.
  assert (Ht : existsb (eqb x) r = true) by (apply existsb_exists; exists x; split; [assumption|now apply Heq]).
  congruence.
Qed.

Lemma forallb_Forall : forall {A} (p : A -> bool) (P : A -> Prop) l,
  Forall (fun x => p x = true -> P x) l -> forallb p l = true -> Forall P l.
Proof.
  induction 1 as [|x r Hx _ IH]; intro H; [constructor|].
  cbn [forallb] in H. apply andb_true_iff in H as [H1 H2]. constructor; auto.
Qed.

Lemma wf_attrsb_sound : forall l, wf_attrsb l = true -> wf_attrs l.
Proof.
  intros l H. unfold wf_attrsb in H. apply andb_true_iff in H as [H1 H2]. split.
  - apply (nodupb_sound String.eqb String.eqb_eq), H1.
  - revert H2. apply forallb_Forall, Forall_forall. intros a _ Ha.
    apply (nodupb_sound Z.eqb Z.eqb_eq), Ha.
Qed.
Lemma wf_enumb_sound : forall e, wf_enumb e = true -> wf_enum e.
Proof. intros e H. apply (nodupb_sound Z.eqb Z.eqb_eq), H. Qed.

Lemma wf_sigb_sound : forall s, wf_sigb s = true -> wf_sig s.
Proof.
  induction s as [h a n d r ty un|h a n d r sz en|h a n d r gc gs fx groups IH] using rsig_ind';
    cbn [wf_sigb]; intro H.
  - constructor. now apply wf_attrsb_sound.
  - apply andb_true_iff in H as [H1 H2]. constructor; [now apply wf_attrsb_sound|now apply wf_enumb_sound].
  - apply andb_true_iff in H as [H1 H2]. constructor; [now apply wf_attrsb_sound|].
    revert H2. apply forallb_Forall. eapply Forall_impl; [|exact IH].
    intros g Hg. apply forallb_Forall. exact Hg.
Qed.

Lemma wf_netb_sound : forall r, wf_netb r = true -> wf_net r.
Proof.
  intros r H. unfold wf_netb in H. apply andb_true_iff in H as [H1 H2].
  split; [apply (nodupb_sound String.eqb String.eqb_eq), H1|].
  revert H2. apply forallb_Forall, Forall_forall. intros b _ Hb.
  unfold wf_busb in Hb. apply andb_true_iff in Hb as [B1 B]. apply andb_true_iff in B as [B2 B3].
  split; [now apply wf_attrsb_sound|]. split; [apply (nodupb_sound Z.eqb Z.eqb_eq), B2|].
  revert B3. apply forallb_Forall, Forall_forall. intros x _ Hx.
  unfold wf_nifb in Hx. apply andb_true_iff in Hx as [X1 X]. apply andb_true_iff in X as [X2 X3].
  split; [now apply wf_attrsb_sound|]. split; [apply (nodupb_sound String.eqb String.eqb_eq), X2|].
  revert X3. apply forallb_Forall, Forall_forall. intros m _ Hm.
  unfold wf_msgb in Hm. apply andb_true_iff in Hm as [M1 M]. apply andb_true_iff in M as [M2 M].
  apply andb_true_iff in M as [M3 M4].
  split; [now apply wf_attrsb_sound|]. split; [apply (nodupb_sound String.eqb String.eqb_eq), M2|]. split.
  - revert M3. apply forallb_Forall, Forall_forall. intros rc _ Hrc. now apply wf_attrsb_sound.
  - revert M4. apply forallb_Forall, Forall_forall. intros s _ Hs. now apply wf_sigb_sound.
Qed.
