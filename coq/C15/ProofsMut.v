(* C15 — wf_net is preserved by the mutators of Mutators.v under the conditions under which
   acmelib accepts the corresponding call (stated on the network before the call). *)
From Coq Require Import ZArith List String Bool Permutation Lia.
From Acme.C16 Require Import Model.
From Acme.C15 Require Import Model Spec Proofs Mutators.
Import ListNotations.
Local Open Scope Z_scope.

Lemma NoDup_map_inj_in : forall {A K} (f : A -> K) l x y,
  NoDup (map f l) -> In x l -> In y l -> f x = f y -> x = y.
Proof.
  intros A K f. induction l as [|a r IH]; intros x y Hn Hx Hy E; [destruct Hx|].
  cbn [map] in Hn. inversion Hn as [|? ? Ha Hr]; subst.
  destruct Hx as [<-|Hx], Hy as [<-|Hy]; try reflexivity.
  - exfalso. apply Ha. rewrite E. now apply in_map.
  - exfalso. apply Ha. rewrite <- E. now apply in_map.
  - now apply IH.
Qed.

(* the entry with handle [h] gets a key that may depend on the entry: fresh w.r.t. the others *)
Lemma NoDup_map_update_dep : forall {A K} (hd : A -> N) (key : A -> K) (upd : A -> A) (h : N) l,
  NoDup (map hd l) -> NoDup (map key l) ->
  (forall x y, In x l -> In y l -> hd x = h -> hd y <> h -> key (upd x) <> key y) ->
  NoDup (map key (map (fun x => if N.eqb (hd x) h then upd x else x) l)).
Proof.
  intros A K hd key upd h. induction l as [|x r IH]; intros Hh Hk Hc; [constructor|].
  cbn [map] in *. inversion Hh as [|? ? Hxh Hrh]; subst. inversion Hk as [|? ? Hxk Hrk]; subst.
  constructor.
  - rewrite map_map. intro Hin. apply in_map_iff in Hin as [y [Ey Hy]].
    destruct (N.eqb (hd x) h) eqn:Ex.
    + apply N.eqb_eq in Ex. destruct (N.eqb (hd y) h) eqn:E2.
      * apply N.eqb_eq in E2. apply Hxh. rewrite Ex, <- E2. now apply in_map.
      * apply N.eqb_neq in E2. apply (Hc x y); auto. now left. now right.
    + apply N.eqb_neq in Ex. destruct (N.eqb (hd y) h) eqn:E2.
      * apply N.eqb_eq in E2. apply (Hc y x); auto. now right. now left.
      * apply Hxk. rewrite <- Ey. now apply in_map.
  - apply IH; try assumption. intros a b Ha Hb. apply Hc; now right.
Qed.

(* ------------------------------------------------------------------ messages *)
Definition keeps_maps (f : rmsg -> rmsg) : Prop :=
  forall m, rm_attrs (f m) = rm_attrs m /\ rm_recv (f m) = rm_recv m /\ rm_sigs (f m) = rm_sigs m.

(* what a message mutator needs on every interface: unique handles, and the new key of the message
   with handle [h] differs from the key of every sibling *)
Definition msg_upd_ok (f : rmsg -> rmsg) (h : N) (r : rnet) : Prop :=
  Forall (fun b => Forall (fun x =>
     NoDup (map rm_h (rn_msgs x))
     /\ forall a c, In a (rn_msgs x) -> In c (rn_msgs x) -> rm_h a = h -> rm_h c <> h -> msg_key (f a) <> msg_key c)
     (rb_nifs b)) (rt_buses r).

Lemma upd_msg_wf_gen : forall f h r, (forall m, wf_msg m -> wf_msg (f m)) ->
  wf_net r -> msg_upd_ok f h r -> wf_net (upd_msg f h r).
Proof.
  intros f h r Hf [Wn Wb] Hok. unfold upd_msg. split; cbn [rt_buses].
  - rewrite map_map. cbn [upd_msg_bus rb_name]. exact Wn.
  - apply Forall_forall. intros b Hin. apply in_map_iff in Hin as [b0 [<- Hb0]].
    unfold msg_upd_ok in Hok. rewrite Forall_forall in Wb, Hok.
    destruct (Wb _ Hb0) as (Wa & Wi & Wx). specialize (Hok _ Hb0).
    split; [exact Wa|]. cbn [upd_msg_bus rb_nifs]. split.
    + rewrite map_map. cbn [upd_msg_nif rn_id]. exact Wi.
    + apply Forall_forall. intros x Hx. apply in_map_iff in Hx as [x0 [<- Hx0]].
      rewrite Forall_forall in Wx, Hok. destruct (Wx _ Hx0) as (Xa & Xk & Xm). destruct (Hok _ Hx0) as [Hh Hc].
      split; [exact Xa|]. cbn [upd_msg_nif rn_msgs]. split.
      * unfold upd_msg_in. apply (NoDup_map_update_dep rm_h msg_key f h); assumption.
      * unfold upd_msg_in. apply Forall_forall. intros m Hm. apply in_map_iff in Hm as [m0 [<- Hm0]].
        rewrite Forall_forall in Xm. specialize (Xm _ Hm0). destruct (N.eqb (rm_h m0) h); [now apply Hf|exact Xm].
Qed.

Lemma set_msg_scalars_wf : forall n s c i m, wf_msg m -> wf_msg (set_msg_scalars n s c i m).
Proof. intros n s c i m W. exact W. Qed.

(* Message.UpdateName: refused when a sibling (a message sent by the same interface) has the name *)
Definition msg_name_ok (h : N) (new : string) (r : rnet) : Prop :=
  Forall (fun b => Forall (fun x => NoDup (map rm_h (rn_msgs x))
     /\ (In h (map rm_h (rn_msgs x)) -> ~ In new (map rm_name (rn_msgs x)))) (rb_nifs b)) (rt_buses r).
(* Message.UpdateID: refused when a sibling has the id (verifyMessageID) *)
Definition msg_id_ok (h : N) (new : Z) (r : rnet) : Prop :=
  Forall (fun b => Forall (fun x => NoDup (map rm_h (rn_msgs x))
     /\ (In h (map rm_h (rn_msgs x)) -> ~ In new (map rm_id (rn_msgs x)))) (rb_nifs b)) (rt_buses r).
(* Message.SetStaticCANID: the static CAN-ID may equal a sibling's message id (only the static
   CAN-IDs are checked), so the id component may tie: the key stays unique because acmelib keeps the
   names of the messages of one interface unique (sentMessageNames) *)
Definition msg_static_ok (r : rnet) : Prop :=
  Forall (fun b => Forall (fun x => NoDup (map rm_h (rn_msgs x)) /\ NoDup (map rm_name (rn_msgs x))) (rb_nifs b)) (rt_buses r).

Lemma Forall2_impl_nested : forall (P Q : rnif -> Prop) r,
  (forall x, P x -> Q x) ->
  Forall (fun b => Forall P (rb_nifs b)) (rt_buses r) -> Forall (fun b => Forall Q (rb_nifs b)) (rt_buses r).
Proof.
  intros P Q r H F. eapply Forall_impl; [|exact F]. intros b Fb. eapply Forall_impl; [|exact Fb]. exact H.
Qed.

Lemma mut_msg_name_wf : forall h new r, wf_net r -> msg_name_ok h new r -> wf_net (mut_msg_name h new r).
Proof.
  intros h new r W Hok. unfold mut_msg_name. apply upd_msg_wf_gen; [intros; now apply set_msg_scalars_wf|exact W|].
  unfold msg_upd_ok. eapply Forall2_impl_nested; [|exact Hok]. intros x [Hh Hn]. split; [exact Hh|].
  intros a c Ha Hc Eh Nh E. unfold msg_key in E. cbn [set_msg_scalars rm_id rm_name rm_eid] in E.
  apply Hn; [rewrite <- Eh; now apply in_map|]. injection E as _ E2 _. rewrite E2. now apply in_map.
Qed.

Lemma mut_msg_id_wf : forall h new canid r, wf_net r -> msg_id_ok h new r -> wf_net (mut_msg_id h new canid r).
Proof.
  intros h new canid r W Hok. unfold mut_msg_id. apply upd_msg_wf_gen; [intros; now apply set_msg_scalars_wf|exact W|].
  unfold msg_upd_ok. eapply Forall2_impl_nested; [|exact Hok]. intros x [Hh Hn]. split; [exact Hh|].
  intros a c Ha Hc Eh Nh E. unfold msg_key in E. cbn [set_msg_scalars rm_id rm_name rm_eid] in E.
  apply Hn; [rewrite <- Eh; now apply in_map|]. injection E as E1 _ _. rewrite E1. now apply in_map.
Qed.

Lemma mut_msg_static_wf : forall h new r, wf_net r -> msg_static_ok r -> wf_net (mut_msg_static h new r).
Proof.
  intros h new r W Hok. unfold mut_msg_static. apply upd_msg_wf_gen; [intros; now apply set_msg_scalars_wf|exact W|].
  unfold msg_upd_ok. eapply Forall2_impl_nested; [|exact Hok]. intros x [Hh Hn]. split; [exact Hh|].
  intros a c Ha Hc Eh Nh E. unfold msg_key in E. cbn [set_msg_scalars rm_id rm_name rm_eid] in E.
  injection E as _ E2 _. apply Nh. rewrite <- Eh. f_equal. symmetry.
  now apply (NoDup_map_inj_in rm_name (rn_msgs x)).
Qed.

(* ------------------------------------------------------------------ receivers *)
Lemma NoDup_app_single : forall {K} (l : list K) k, NoDup l -> ~ In k l -> NoDup (l ++ [k]).
Proof.
  intros K l k Hn Hk. apply NoDup_rev in Hn. rewrite <- (rev_involutive (l ++ [k])). apply NoDup_rev.
  rewrite rev_app_distr. cbn [rev app]. constructor; [|exact Hn]. intro H. apply Hk. now apply in_rev.
Qed.

Lemma NoDup_map_filter : forall {A K} (key : A -> K) p (l : list A),
  NoDup (map key l) -> NoDup (map key (filter p l)).
Proof.
  intros A K key p. induction l as [|x r IH]; intros Hn; [constructor|].
  cbn [map filter] in *. inversion Hn as [|? ? Hx Hr]; subst. destruct (p x); [|now apply IH].
  cbn [map]. constructor; [|now apply IH]. intro Hin. apply Hx.
  apply in_map_iff in Hin as [y [Ey Hy]]. apply filter_In in Hy as [Hy _]. rewrite <- Ey. now apply in_map.
Qed.

(* a change that leaves [msg_key] alone needs no side condition *)
Lemma upd_msg_wf_samekey : forall f h r, (forall m, wf_msg m -> wf_msg (f m)) ->
  (forall m, msg_key (f m) = msg_key m) -> wf_net r -> wf_net (upd_msg f h r).
Proof.
  intros f h r Hf Hk [Wn Wb]. unfold upd_msg. split; cbn [rt_buses].
  - rewrite map_map. cbn [upd_msg_bus rb_name]. exact Wn.
  - apply Forall_forall. intros b Hin. apply in_map_iff in Hin as [b0 [<- Hb0]].
    rewrite Forall_forall in Wb. destruct (Wb _ Hb0) as (Wa & Wi & Wx).
    split; [exact Wa|]. cbn [upd_msg_bus rb_nifs]. split.
    + rewrite map_map. cbn [upd_msg_nif rn_id]. exact Wi.
    + apply Forall_forall. intros x Hx. apply in_map_iff in Hx as [x0 [<- Hx0]].
      rewrite Forall_forall in Wx. destruct (Wx _ Hx0) as (Xa & Xk & Xm).
      split; [exact Xa|]. cbn [upd_msg_nif rn_msgs]. split.
      * unfold upd_msg_in. rewrite map_map.
        rewrite (map_ext _ msg_key); [exact Xk|]. intros m. destruct (N.eqb (rm_h m) h); [apply Hk|reflexivity].
      * unfold upd_msg_in. apply Forall_forall. intros m Hm. apply in_map_iff in Hm as [m0 [<- Hm0]].
        rewrite Forall_forall in Xm. specialize (Xm _ Hm0). destruct (N.eqb (rm_h m0) h); [now apply Hf|exact Xm].
Qed.

(* Message.RemoveReceiver: never breaks well-formedness *)
Lemma mut_msg_remove_recv_wf : forall h node r, wf_net r -> wf_net (mut_msg_remove_recv h node r).
Proof.
  intros h node r W. unfold mut_msg_remove_recv. apply upd_msg_wf_samekey; [|reflexivity|exact W].
  intros m (Wa & Wk & Wr & Ws). unfold wf_msg. cbn [set_msg_recv rm_attrs rm_recv rm_sigs].
  split; [exact Wa|]. split; [|split; [|exact Ws]].
  - now apply NoDup_map_filter.
  - apply Forall_forall. intros rc Hrc. apply filter_In in Hrc as [Hrc _]. rewrite Forall_forall in Wr. now apply Wr.
Qed.

(* Message.AddReceiver: refused when the node already receives the message (receivers are keyed by
   the node's entity id); the key (node name, node entity id) is then fresh *)
Definition msg_add_recv_ok (h : N) (rc : rrecv) (r : rnet) : Prop :=
  wf_attrs (rr_attrs rc)
  /\ Forall (fun b => Forall (fun x => Forall (fun m => rm_h m = h -> ~ In (rr_eid rc) (map rr_eid (rm_recv m)))
       (rn_msgs x)) (rb_nifs b)) (rt_buses r).

Lemma upd_msg_wf_samekey_cond : forall (P : rmsg -> Prop) f h r,
  (forall m, rm_h m = h -> P m -> wf_msg m -> wf_msg (f m)) ->
  (forall m, msg_key (f m) = msg_key m) -> wf_net r ->
  Forall (fun b => Forall (fun x => Forall (fun m => rm_h m = h -> P m) (rn_msgs x)) (rb_nifs b)) (rt_buses r) ->
  wf_net (upd_msg f h r).
Proof.
  intros P f h r Hf Hk [Wn Wb] HP. unfold upd_msg. split; cbn [rt_buses].
  - rewrite map_map. cbn [upd_msg_bus rb_name]. exact Wn.
  - apply Forall_forall. intros b Hin. apply in_map_iff in Hin as [b0 [<- Hb0]].
    rewrite Forall_forall in Wb, HP. destruct (Wb _ Hb0) as (Wa & Wi & Wx). specialize (HP _ Hb0).
    split; [exact Wa|]. cbn [upd_msg_bus rb_nifs]. split.
    + rewrite map_map. cbn [upd_msg_nif rn_id]. exact Wi.
    + apply Forall_forall. intros x Hx. apply in_map_iff in Hx as [x0 [<- Hx0]].
      rewrite Forall_forall in Wx, HP. destruct (Wx _ Hx0) as (Xa & Xk & Xm). specialize (HP _ Hx0).
      split; [exact Xa|]. cbn [upd_msg_nif rn_msgs]. split.
      * unfold upd_msg_in. rewrite map_map.
        rewrite (map_ext _ msg_key); [exact Xk|]. intros m. destruct (N.eqb (rm_h m) h); [apply Hk|reflexivity].
      * unfold upd_msg_in. apply Forall_forall. intros m Hm. apply in_map_iff in Hm as [m0 [<- Hm0]].
        rewrite Forall_forall in Xm, HP. specialize (Xm _ Hm0). specialize (HP _ Hm0).
        destruct (N.eqb (rm_h m0) h) eqn:E; [|exact Xm]. apply N.eqb_eq in E. now apply Hf; auto.
Qed.

Lemma mut_msg_add_recv_wf : forall h rc r, wf_net r -> msg_add_recv_ok h rc r -> wf_net (mut_msg_add_recv h rc r).
Proof.
  intros h rc r W [Wrc Hok]. unfold mut_msg_add_recv.
  apply (upd_msg_wf_samekey_cond (fun m => ~ In (rr_eid rc) (map rr_eid (rm_recv m)))); [|reflexivity|exact W|exact Hok].
  intros m _ Hfresh (Wa & Wk & Wr & Ws). unfold wf_msg. cbn [set_msg_recv rm_attrs rm_recv rm_sigs].
  split; [exact Wa|]. split; [|split; [|exact Ws]].
  - rewrite map_app. cbn [map]. apply NoDup_app_single; [exact Wk|].
    intro Hin. apply Hfresh. apply in_map_iff in Hin as [y [Ey Hy]]. unfold recv_key in Ey.
    injection Ey as _ E2. rewrite <- E2. now apply in_map.
  - apply Forall_app. split; [exact Wr|]. constructor; [exact Wrc|constructor].
Qed.

(* ------------------------------------------------------------------ enum values *)
(* SignalEnumValue.UpdateIndex is refused when the enum already has a value with the new index *)
Inductive enum_ok (eid : N) (new : Z) : rsig -> Prop :=
| EO_std : forall h a n d r ty un, enum_ok eid new (RStd h a n d r ty un)
| EO_enum : forall h a n d r sz e, (se_id e = eid -> ~ In new (map ev_index (se_values e))) ->
    enum_ok eid new (REnum h a n d r sz e)
| EO_mux : forall h a n d r gc gs fx g, Forall (Forall (enum_ok eid new)) g ->
    enum_ok eid new (RMux h a n d r gc gs fx g).
Definition enum_index_ok (eid : N) (new : Z) (r : rnet) : Prop :=
  Forall (fun b => Forall (fun x => Forall (fun m => Forall (enum_ok eid new) (rm_sigs m)) (rn_msgs x)) (rb_nifs b)) (rt_buses r).

Lemma set_value_index_nodup : forall old new l,
  NoDup (map ev_index l) -> ~ In new (map ev_index l) ->
  NoDup (map ev_index (map (set_value_index old new) l)).
Proof.
  intros old new. induction l as [|x r IH]; intros Hn Hnew; [constructor|].
  cbn [map] in *. inversion Hn as [|? ? Hx Hr]; subst.
  assert (Hnew' : ~ In new (map ev_index r)) by (intro; apply Hnew; now right).
  constructor; [|now apply IH].
  rewrite map_map. intro Hin. apply in_map_iff in Hin as [y [Ey Hy]].
  unfold set_value_index in Ey.
  destruct (Z.eqb (ev_index x) old) eqn:Ex, (Z.eqb (ev_index y) old) eqn:E2; cbn [ev_index] in Ey.
  - apply Z.eqb_eq in Ex, E2. apply Hx. rewrite Ex, <- E2. now apply in_map.
  - apply Hnew'. rewrite <- Ey. now apply in_map.
  - apply Hnew. left. now symmetry.
  - apply Hx. rewrite <- Ey. now apply in_map.
Qed.

Lemma upd_enum_wf : forall eid old new e, wf_enum e ->
  (se_id e = eid -> ~ In new (map ev_index (se_values e))) -> wf_enum (upd_enum eid old new e).
Proof.
  intros eid old new e W H. unfold upd_enum. destruct (N.eqb (se_id e) eid) eqn:E; [|exact W].
  apply N.eqb_eq in E. unfold wf_enum. cbn [se_values]. apply set_value_index_nodup; [exact W|now apply H].
Qed.

Lemma upd_enum_sig_wf : forall eid old new s, wf_sig s -> enum_ok eid new s -> wf_sig (upd_enum_sig eid old new s).
Proof.
  intros eid old new.
  induction s as [h a n d r ty un|h a n d r sz en|h a n d r gc gs fx groups IH] using rsig_ind'; intros W Hok.
  - exact W.
  - inversion W as [|? ? ? ? ? ? ? Wa We|]; subst. inversion Hok as [|? ? ? ? ? ? ? He|]; subst.
    cbn [upd_enum_sig]. constructor; [exact Wa|now apply upd_enum_wf].
  - inversion W as [| |? ? ? ? ? ? ? ? ? Wa Wg]; subst. inversion Hok as [| |? ? ? ? ? ? ? ? ? Hg]; subst.
    cbn [upd_enum_sig]. constructor; [exact Wa|].
    clear W Hok. induction IH as [|g rest Ig _ IHr]; [constructor|].
    inversion Wg as [|? ? Wg1 Wg2]; subst. inversion Hg as [|? ? Hg1 Hg2]; subst.
    cbn [map]. constructor; [|now apply IHr].
    clear IHr Wg Hg Wg2 Hg2. induction Ig as [|s l Is _ IHl]; [constructor|].
    inversion Wg1; subst. inversion Hg1; subst. cbn [map]. constructor; [now apply Is|now apply IHl].
Qed.

Lemma mut_enum_value_index_wf : forall eid old new r, wf_net r -> enum_index_ok eid new r ->
  wf_net (mut_enum_value_index eid old new r).
Proof.
  intros eid old new r [Wn Wb] Hok. unfold mut_enum_value_index. split; cbn [rt_buses].
  - rewrite map_map. cbn [rb_name]. exact Wn.
  - apply Forall_forall. intros b Hin. apply in_map_iff in Hin as [b0 [<- Hb0]].
    unfold enum_index_ok in Hok. rewrite Forall_forall in Wb, Hok.
    destruct (Wb _ Hb0) as (Wa & Wi & Wx). specialize (Hok _ Hb0).
    split; [exact Wa|]. cbn [rb_nifs]. split.
    + rewrite map_map. cbn [rn_id]. exact Wi.
    + apply Forall_forall. intros x Hx. apply in_map_iff in Hx as [x0 [<- Hx0]].
      rewrite Forall_forall in Wx, Hok. destruct (Wx _ Hx0) as (Xa & Xk & Xm). specialize (Hok _ Hx0).
      split; [exact Xa|]. cbn [rn_msgs]. split.
      * rewrite map_map. unfold msg_key in *. cbn [rm_id rm_name rm_eid]. exact Xk.
      * apply Forall_forall. intros m Hm. apply in_map_iff in Hm as [m0 [<- Hm0]].
        rewrite Forall_forall in Xm, Hok. destruct (Xm _ Hm0) as (Ma & Mk & Mr & Ms). specialize (Hok _ Hm0).
        unfold wf_msg. cbn [rm_attrs rm_recv rm_sigs]. split; [exact Ma|]. split; [exact Mk|]. split; [exact Mr|].
        apply Forall_forall. intros s Hs. apply in_map_iff in Hs as [s0 [<- Hs0]].
        rewrite Forall_forall in Ms, Hok. apply upd_enum_sig_wf; auto.
Qed.


(* ------------------------------------------------------------------ Node.UpdateID as the dump sees it *)
Lemma map_msgs_wf : forall f r, (forall m, wf_msg m -> wf_msg (f m)) ->
  (forall m, msg_key (f m) = msg_key m) -> wf_net r -> wf_net (map_msgs f r).
Proof.
  intros f r Hf Hk [Wn Wb]. unfold map_msgs. split; cbn [rt_buses].
  - rewrite map_map. cbn [rb_name]. exact Wn.
  - apply Forall_forall. intros b Hin. apply in_map_iff in Hin as [b0 [<- Hb0]].
    rewrite Forall_forall in Wb. destruct (Wb _ Hb0) as (Wa & Wi & Wx).
    split; [exact Wa|]. cbn [rb_nifs]. split.
    + rewrite map_map. cbn [rn_id]. exact Wi.
    + apply Forall_forall. intros x Hx. apply in_map_iff in Hx as [x0 [<- Hx0]].
      rewrite Forall_forall in Wx. destruct (Wx _ Hx0) as (Xa & Xk & Xm).
      split; [exact Xa|]. cbn [rn_msgs]. split.
      * rewrite map_map. rewrite (map_ext _ msg_key); [exact Xk|]. exact Hk.
      * apply Forall_forall. intros m Hm. apply in_map_iff in Hm as [m0 [<- Hm0]].
        rewrite Forall_forall in Xm. apply Hf. now apply Xm.
Qed.

Lemma set_recv_id_wf : forall h new m, wf_msg m -> wf_msg (set_msg_recv (map (set_recv_id h new) (rm_recv m)) m).
Proof.
  intros h new m (Wa & Wk & Wr & Ws). unfold wf_msg. cbn [set_msg_recv rm_attrs rm_recv rm_sigs].
  split; [exact Wa|]. split; [|split; [|exact Ws]].
  - rewrite map_map. rewrite (map_ext _ recv_key); [exact Wk|].
    intros rc. unfold set_recv_id. destruct (N.eqb (rr_h rc) h); reflexivity.
  - apply Forall_forall. intros rc Hrc. apply in_map_iff in Hrc as [rc0 [<- Hrc0]].
    rewrite Forall_forall in Wr. specialize (Wr _ Hrc0). unfold set_recv_id. destruct (N.eqb (rr_h rc0) h); exact Wr.
Qed.

(* same acceptance condition as [mut_node_id] (Proofs.v) *)
Lemma mut_node_id_full_wf : forall h new r, wf_net r ->
  Forall (fun b => NoDup (map rn_h (rb_nifs b)) /\ ~ In new (map rn_id (rb_nifs b))) (rt_buses r) ->
  wf_net (mut_node_id_full h new r).
Proof.
  intros h new r W Hf. unfold mut_node_id_full. apply map_msgs_wf; [intros; now apply set_recv_id_wf|reflexivity|].
  now apply mut_node_id_wf.
Qed.

(* ------------------------------------------------------------------ the conditions are satisfiable *)
Local Open Scope string_scope.
Definition ex_new_recv : rrecv := {| rr_h := 22; rr_name := "other"; rr_eid := "e-n1"; rr_num := 0; rr_id := 1; rr_attrs := [] |}.
(* handles in the order of the sorted getters *)
Definition getter_order (r : rnet) :=
  map (fun b => map (fun x => map (fun m => (rm_h m, map rr_h (rm_recv m))) (rn_msgs x)) (rb_nifs b)) (rt_buses (walk o_id r)).
Fixpoint enum_orders (s : rsig) : list (list Z) :=
  match s with
  | RStd _ _ _ _ _ _ _ => []
  | REnum _ _ _ _ _ _ e => [map ev_index (se_values e)]
  | RMux _ _ _ _ _ _ _ _ g => flat_map (flat_map enum_orders) g
  end.
Definition value_order (r : rnet) :=
  flat_map (fun b => flat_map (fun x => flat_map (fun m => flat_map enum_orders (rm_sigs m)) (rn_msgs x)) (rb_nifs b)) (rt_buses (walk o_id r)).

Ltac fin_ok :=
  cbn;
  repeat match goal with
         | |- Forall _ _ => constructor
         | |- enum_ok _ _ _ => constructor
         | |- _ /\ _ => split
         | |- NoDup _ => constructor
         | |- ~ _ => intro
         | |- _ -> _ => intro
         end; cbn in *; intuition (try discriminate; try congruence; try lia).

Lemma mutators_example :
  (msg_name_ok 10 "a first" ex_rnet /\ getter_order (mut_msg_name 10 "a first" ex_rnet) <> getter_order ex_rnet)
  /\ (msg_id_ok 10 3 ex_rnet /\ getter_order (mut_msg_id 10 3 3 ex_rnet) <> getter_order ex_rnet)
  /\ (msg_static_ok ex_rnet /\ getter_order (mut_msg_static 11 6 ex_rnet) <> getter_order ex_rnet)
  /\ (getter_order (mut_msg_remove_recv 10 21 ex_rnet) <> getter_order ex_rnet)
  /\ (msg_add_recv_ok 10 ex_new_recv ex_rnet /\ getter_order (mut_msg_add_recv 10 ex_new_recv ex_rnet) <> getter_order ex_rnet)
  /\ (enum_index_ok 0 7 ex_rnet /\ value_order (mut_enum_value_index 0 0 7 ex_rnet) <> value_order ex_rnet).
Proof.
  repeat split; try (vm_compute; intro H; discriminate H).
  - unfold msg_name_ok. fin_ok.
  - unfold msg_id_ok. fin_ok.
  - unfold msg_static_ok. fin_ok.
  - fin_ok.
  - fin_ok.
  - fin_ok.
  - unfold enum_index_ok. fin_ok.
Qed.

Lemma wf_net_preserved_more_lemma :
  (forall h new r, wf_net r -> msg_name_ok h new r -> wf_net (mut_msg_name h new r))
  /\ (forall h new canid r, wf_net r -> msg_id_ok h new r -> wf_net (mut_msg_id h new canid r))
  /\ (forall h new r, wf_net r -> msg_static_ok r -> wf_net (mut_msg_static h new r))
  /\ (forall h node r, wf_net r -> wf_net (mut_msg_remove_recv h node r))
  /\ (forall h rc r, wf_net r -> msg_add_recv_ok h rc r -> wf_net (mut_msg_add_recv h rc r))
  /\ (forall eid old new r, wf_net r -> enum_index_ok eid new r -> wf_net (mut_enum_value_index eid old new r))
  /\ (forall h new r, wf_net r ->
        Forall (fun b => NoDup (map rn_h (rb_nifs b)) /\ ~ In new (map rn_id (rb_nifs b))) (rt_buses r) ->
        wf_net (mut_node_id_full h new r)).
Proof.
  exact (conj mut_msg_name_wf (conj mut_msg_id_wf (conj mut_msg_static_wf (conj mut_msg_remove_recv_wf
        (conj mut_msg_add_recv_wf (conj mut_enum_value_index_wf mut_node_id_full_wf)))))).
Qed.
