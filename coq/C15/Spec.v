(* C15 — vocabulary of the property statements: well-formed raw networks (the uniqueness
   invariants of acmelib that make the getters' sort keys total) and "the same model built in a
   different order" (raw networks that differ only in the order of their map-like fields). *)
From Coq Require Import ZArith List String Bool Permutation.
From Acme.C16 Require Import Model.
From Acme.C15 Require Import Model.
Import ListNotations.

(* [l2] is [l1] reordered, element by element related by [R] *)
Definition PermEquiv {A} (R : A -> A -> Prop) (l1 l2 : list A) : Prop :=
  exists l, Permutation l1 l /\ Forall2 R l l2.

(* ---------------------------------------------------------------- well-formedness *)
(* the getters' sort keys are unique among the entries of each map: entity ids are unique and the
   name / id indexes of acmelib refuse duplicates (C04); stated on the KEYS, so that it also holds
   for id-erased networks without id-keyed ties (build_order_free_mod_ids) *)
Definition wf_attrs (l : list rattr) : Prop :=
  NoDup (map attr_key l) /\ Forall (fun a => NoDup (map (@fst Z string) (ra_vals a))) l.
Definition wf_enum (e : sigenum) : Prop := NoDup (map ev_index (se_values e)).

Inductive wf_sig : rsig -> Prop :=
| WS_std : forall h a n d r ty un, wf_attrs a -> wf_sig (RStd h a n d r ty un)
| WS_enum : forall h a n d r sz e, wf_attrs a -> wf_enum e -> wf_sig (REnum h a n d r sz e)
| WS_mux : forall h a n d r gc gs fx g, wf_attrs a -> Forall (Forall wf_sig) g ->
    wf_sig (RMux h a n d r gc gs fx g).

Definition wf_msg (m : rmsg) : Prop :=
  wf_attrs (rm_attrs m) /\ NoDup (map recv_key (rm_recv m))
  /\ Forall (fun rc => wf_attrs (rr_attrs rc)) (rm_recv m) /\ Forall wf_sig (rm_sigs m).
Definition wf_nif (x : rnif) : Prop :=
  wf_attrs (rn_attrs x) /\ NoDup (map msg_key (rn_msgs x)) /\ Forall wf_msg (rn_msgs x).
Definition wf_bus (b : rbus) : Prop :=
  wf_attrs (rb_attrs b) /\ NoDup (map rn_id (rb_nifs b)) /\ Forall wf_nif (rb_nifs b).
Definition wf_net (r : rnet) : Prop :=
  NoDup (map rb_name (rt_buses r)) /\ Forall wf_bus (rt_buses r).

(* ---------------------------------------------------------------- same model, other order *)
Definition enum_equiv (e1 e2 : sigenum) : Prop :=
  se_id e1 = se_id e2 /\ se_name e1 = se_name e2 /\ se_desc e1 = se_desc e2
  /\ se_maxindex e1 = se_maxindex e2 /\ Permutation (se_values e1) (se_values e2).

(* signal lists (layouts, groups) are ordered slices in acmelib, not maps: same order *)
Inductive sig_equiv : rsig -> rsig -> Prop :=
| SE_std : forall h a1 a2 n d r ty un, Permutation a1 a2 ->
    sig_equiv (RStd h a1 n d r ty un) (RStd h a2 n d r ty un)
| SE_enum : forall h a1 a2 n d r sz e1 e2, Permutation a1 a2 -> enum_equiv e1 e2 ->
    sig_equiv (REnum h a1 n d r sz e1) (REnum h a2 n d r sz e2)
| SE_mux : forall h a1 a2 n d r gc gs fx g1 g2, Permutation a1 a2 ->
    Forall2 (Forall2 sig_equiv) g1 g2 ->
    sig_equiv (RMux h a1 n d r gc gs fx g1) (RMux h a2 n d r gc gs fx g2).

Definition recv_equiv (r1 r2 : rrecv) : Prop :=
  rr_h r1 = rr_h r2 /\ rr_name r1 = rr_name r2 /\ rr_eid r1 = rr_eid r2 /\ rr_num r1 = rr_num r2
  /\ rr_id r1 = rr_id r2 /\ Permutation (rr_attrs r1) (rr_attrs r2).
Definition msg_equiv (m1 m2 : rmsg) : Prop :=
  rm_h m1 = rm_h m2 /\ rm_eid m1 = rm_eid m2 /\ Permutation (rm_attrs m1) (rm_attrs m2)
  /\ PermEquiv recv_equiv (rm_recv m1) (rm_recv m2)
  /\ rm_name m1 = rm_name m2 /\ rm_desc m1 = rm_desc m2 /\ rm_static m1 = rm_static m2
  /\ rm_canid m1 = rm_canid m2 /\ rm_id m1 = rm_id m2 /\ rm_size m1 = rm_size m2
  /\ rm_byteorder m1 = rm_byteorder m2 /\ rm_cycle m1 = rm_cycle m2
  /\ Forall2 sig_equiv (rm_sigs m1) (rm_sigs m2).
Definition nif_equiv (x1 x2 : rnif) : Prop :=
  rn_h x1 = rn_h x2 /\ Permutation (rn_attrs x1) (rn_attrs x2) /\ rn_name x1 = rn_name x2
  /\ rn_desc x1 = rn_desc x2 /\ rn_id x1 = rn_id x2 /\ PermEquiv msg_equiv (rn_msgs x1) (rn_msgs x2).
Definition bus_equiv (b1 b2 : rbus) : Prop :=
  rb_h b1 = rb_h b2 /\ Permutation (rb_attrs b1) (rb_attrs b2) /\ rb_builder b1 = rb_builder b2
  /\ rb_name b1 = rb_name b2 /\ rb_desc b1 = rb_desc b2 /\ rb_baud b1 = rb_baud b2
  /\ PermEquiv nif_equiv (rb_nifs b1) (rb_nifs b2).
Definition net_equiv (r1 r2 : rnet) : Prop :=
  rt_name r1 = rt_name r2 /\ rt_desc r1 = rt_desc r2 /\ PermEquiv bus_equiv (rt_buses r1) (rt_buses r2).
