(* Extraction of the executable C16 model for the correspondence check.
   ExtrOcamlBasic + ExtrOcamlString only; Z / N / positive stay inductive. *)
From Coq Require Import Extraction ExtrOcamlBasic ExtrOcamlString ZArith List String.
From Acme.C16 Require Import Model ModelStr.
Extraction Language OCaml.
Extraction "extracted/c16_model.ml" md blocks rows_sigs types_listed units_listed enums_listed
  net_string bus_string nif_string node_string msg_string sig_string type_string unit_string enum_string
  value_string builder_string.
