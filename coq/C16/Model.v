(* C16 — executable model of md_exporter.go (as of /repo after e2a8f88 + 24f19c8).

   The network is a plain tree in the order in which the exporter's getters present it
   (Buses(), NodeInterfaces(), SentMessages(), Receivers(), Signals(), GetSignalGroups(),
   Values()); the sorting done by those getters is modelled in Acme.C15 (walk), not here.
   The exporter itself no longer iterates over a Go map: referenced types / units / enums are
   collected in order of first use (addOrderedRef) and then sorted with a stable sort.

   Text that comes out of strconv float formatting (%g) is an opaque string supplied with the
   input; integers are rendered here (decimal, lower-case hexadecimal). *)
From Coq Require Import ZArith List String Ascii Bool.
From Coq Require DecimalString HexadecimalString.
Import ListNotations.
Local Open Scope string_scope.
Local Open Scope Z_scope.

(* ---------------------------------------------------------------- rendering helpers *)

Definition dec (z : Z) : string := DecimalString.NilZero.string_of_int (Z.to_int z).
Definition hexs (z : Z) : string :=
  HexadecimalString.NilZero.string_of_uint (N.to_hex_uint (Z.to_N z)).

Definition lower_ascii (c : ascii) : ascii :=
  let n := nat_of_ascii c in
  if andb (Nat.leb 65 n) (Nat.leb n 90) then ascii_of_nat (n + 32) else c.

Fixpoint map_string (f : ascii -> ascii) (s : string) : string :=
  match s with EmptyString => EmptyString | String c r => String (f c) (map_string f r) end.

Fixpoint filter_string (p : ascii -> bool) (s : string) : string :=
  match s with
  | EmptyString => EmptyString
  | String c r => if p c then String c (filter_string p r) else filter_string p r
  end.

Definition space : ascii := " "%char.
Definition dash : ascii := "-"%char.
Definition backtick : ascii := "`"%char.

Definition lf : ascii := ascii_of_nat 10.
Definition cr : ascii := ascii_of_nat 13.
(* headingText: a name stays on the line of its heading / link: CR LF, LF, CR -> one blank *)
Fixpoint esc_heading (s : string) : string :=
  match s with
  | EmptyString => EmptyString
  | String c r =>
      if Ascii.eqb c cr then
        String space match r with
                     | String c2 r2 => if Ascii.eqb c2 lf then esc_heading r2 else esc_heading r
                     | EmptyString => EmptyString
                     end
      else if Ascii.eqb c lf then String space (esc_heading r)
      else String c (esc_heading r)
  end.

(* getHeaderLink: "#" + ReplaceAll(ToLower(name), " ", "-"), then every backtick removed,
   wrapped by md.Link.  (ToLower on ASCII letters; other code points are left alone — the
   harness restricts names to ASCII.) *)
Definition header_anchor (name : string) : string :=
  filter_string (fun c => negb (Ascii.eqb c backtick))
    ("#" ++ map_string (fun c => if Ascii.eqb c space then dash else c) (map_string lower_ascii name)).

Definition link (text url : string) : string := "[" ++ text ++ "](" ++ url ++ ")".
Definition header_link (name : string) : string := link (esc_heading name) (header_anchor (esc_heading name)).
Definition bold (s : string) : string := "**" ++ s ++ "**".
Definition code (s : string) : string := "`" ++ s ++ "`".
Definition or_dash (s : string) : string := if String.eqb s "" then "-" else s.

Fixpoint join (sep : string) (l : list string) : string :=
  match l with
  | [] => ""
  | [x] => x
  | x :: r => x ++ sep ++ join sep r
  end.

(* escapeTableCell: '|' -> "\|", CR LF / LF / CR -> "<br>" *)
Definition pipe : ascii := "|"%char.
Fixpoint esc_cell (s : string) : string :=
  match s with
  | EmptyString => EmptyString
  | String c r =>
      if Ascii.eqb c pipe then String "\"%char (String pipe (esc_cell r))
      else if Ascii.eqb c cr then
        "<br>" ++ match r with
                  | String c2 r2 => if Ascii.eqb c2 lf then esc_cell r2 else esc_cell r
                  | EmptyString => EmptyString
                  end
      else if Ascii.eqb c lf then "<br>" ++ esc_cell r
      else String c (esc_cell r)
  end.

(* escapeParagraph: a backslash before the first non-blank character of every line that starts
   like a Markdown block ('#', '-', '=', '+', '*', '>', '|', '_', backtick, '~') *)
Definition is_marker (c : ascii) : bool :=
  existsb (Ascii.eqb c) ["#"; "-"; "="; "+"; "*"; ">"; "|"; "_"; "`"; "~"]%char.
Fixpoint esc_par_aux (at_start : bool) (s : string) : string :=
  match s with
  | EmptyString => EmptyString
  | String c r =>
      if Ascii.eqb c lf then String c (esc_par_aux true r)
      else if at_start then
        if orb (Ascii.eqb c space) (Ascii.eqb c (ascii_of_nat 9)) then String c (esc_par_aux true r)
        else if is_marker c then String "\"%char (String c (esc_par_aux false r))
        else String c (esc_par_aux false r)
      else String c (esc_par_aux false r)
  end.
Definition esc_par (s : string) : string := esc_par_aux true s.

(* ---------------------------------------------------------------- the network tree *)

Record sigtype := { st_id : N; st_name : string; st_desc : string; st_size : Z; st_kind : string;
                    st_signed : bool; st_min : string; st_max : string; st_scale : string;
                    st_offset : string }.
Record sigunit := { su_id : N; su_name : string; su_desc : string; su_kind : string;
                    su_symbol : string }.
Record enumval := { ev_name : string; ev_index : Z; ev_desc : string }.
Record sigenum := { se_id : N; se_name : string; se_desc : string; se_maxindex : Z;
                    se_values : list enumval }.

Inductive sig :=
| SStd (name desc : string) (rel : Z) (ty : sigtype) (un : option sigunit)
| SEnum (name desc : string) (rel : Z) (size : Z) (en : sigenum)
| SMux (name desc : string) (rel : Z) (gcount gsize : Z) (groups : list (list sig)).

Record msg := { m_name : string; m_desc : string; m_static : bool; m_canid : Z; m_id : Z;
                m_size : Z; m_byteorder : string; m_cycle : Z; m_receivers : list string;
                m_sigs : list sig }.
Record nif := { n_name : string; n_desc : string; n_id : Z; n_msgs : list msg }.
Record bus := { b_name : string; b_desc : string; b_baud : Z; b_nifs : list nif }.
Record net := { nt_name : string; nt_desc : string; nt_buses : list bus }.

(* ---------------------------------------------------------------- blocks *)

Inductive block :=
| H (level : nat) (text : string)
| Para (text : string)
| Table (header : list string) (rows : list (list string))
| Rule
| Bullet (text : string)
| LF.   (* Markdown.LF(): a line of two blanks - for CommonMark a blank line, it ends a paragraph *)

(* mdExporter.writeTable: the cells of the rows (not of the header) are escaped *)
Definition mk_table (header : list string) (rows : list (list string)) : block :=
  Table header (map (map esc_cell) rows).

Inductive result (A : Type) := Ok (a : A) | Err.
Arguments Ok {A} a.
Arguments Err {A}.
Definition is_ok {A} (r : result A) : bool := match r with Ok _ => true | Err => false end.

(* ---------------------------------------------------------------- signals: sizes, rows *)

(* helpers.go calcSizeFromValue (for 0 <= v < 2^62) *)
Definition calc_size (v : Z) : Z := if v =? 0 then 1 else Z.log2 v + 1.

(* Signal.GetSize *)
Definition sig_size (s : sig) : Z :=
  match s with
  | SStd _ _ _ ty _ => st_size ty
  | SEnum _ _ _ size _ => size
  | SMux _ _ _ gc gs _ => gs + calc_size (gc - 1)
  end.
Definition sig_name (s : sig) : string :=
  match s with SStd n _ _ _ _ => n | SEnum n _ _ _ _ => n | SMux n _ _ _ _ _ => n end.
Definition sig_rel (s : sig) : Z :=
  match s with SStd _ _ r _ _ => r | SEnum _ _ r _ _ => r | SMux _ _ r _ _ _ => r end.
(* Signal.GetStartBit, given [base] = parent.GetStartBit + parent.GetGroupCountSize (0 at top) *)
Definition sig_start (base : Z) (s : sig) : Z := base + sig_rel s.

Definition sig_header : list string :=
  ["Name"; "Start Bit"; "Size"; "Type"; "Min"; "Max"; "Unit"; "Description"].

Definition std_cells (ty : sigtype) (un : option sigunit) (desc : string) : list string :=
  [ link (code (st_name ty)) "#signal-types"; st_min ty; st_max ty;
    match un with Some u => link (code (su_symbol u)) "#signal-units" | None => "-" end;
    or_dash desc ].
Definition enum_cells (en : sigenum) (desc : string) : list string :=
  [ header_link (se_name en); "0"; dec (se_maxindex en); "-"; or_dash desc ].
Definition mux_cells (gcount : Z) (desc : string) : list string :=
  [ code "multiplexer"; "0"; dec gcount; "-"; or_dash desc ].
Definition marker_row (gid : Z) : list string :=
  let c := "- " ++ dec gid ++ " -" in [c; c; c; c; c; c; c; c].

Definition common_cells (base : Z) (s : sig) : list string :=
  [ sig_name s; dec (sig_start base s); dec (sig_size s) ].

(* exportSignal / exportMultiplexerSignal *)
Fixpoint rows_sig (base : Z) (s : sig) : list (list string) :=
  match s with
  | SStd _ desc _ ty un => [ (common_cells base s ++ std_cells ty un desc)%list ]
  | SEnum _ desc _ _ en => [ (common_cells base s ++ enum_cells en desc)%list ]
  | SMux _ desc rel gc _ groups =>
      let base' := base + rel + calc_size (gc - 1) in
      ((common_cells base s ++ mux_cells gc desc)%list)
      :: (fix rows_groups (gid : Z) (gs : list (list sig)) : list (list string) :=
            match gs with
            | [] => []
            | g :: r =>
                (marker_row gid
                 :: (fix rows_list (l : list sig) : list (list string) :=
                       match l with
                       | [] => []
                       | x :: r' => (rows_sig base' x ++ rows_list r')%list
                       end) g)
                ++ rows_groups (gid + 1) r
            end%list) 0 groups
  end.

Definition rows_sigs (base : Z) (l : list sig) : list (list string) := flat_map (rows_sig base) l.

(* ---------------------------------------------------------------- referenced definitions *)

(* the definitions a signal refers to, in the order in which the exporter meets them *)
Fixpoint types_of_sig (s : sig) : list sigtype :=
  match s with
  | SStd _ _ _ ty _ => [ty]
  | SEnum _ _ _ _ _ => []
  | SMux _ _ _ _ _ groups =>
      (fix tg (gs : list (list sig)) : list sigtype :=
         match gs with
         | [] => []
         | g :: r => ((fix tl (l : list sig) : list sigtype :=
                         match l with [] => [] | x :: r' => types_of_sig x ++ tl r' end) g ++ tg r)
         end%list) groups
  end.
Fixpoint units_of_sig (s : sig) : list sigunit :=
  match s with
  | SStd _ _ _ _ (Some u) => [u]
  | SStd _ _ _ _ None => []
  | SEnum _ _ _ _ _ => []
  | SMux _ _ _ _ _ groups =>
      (fix tg (gs : list (list sig)) : list sigunit :=
         match gs with
         | [] => []
         | g :: r => ((fix tl (l : list sig) : list sigunit :=
                         match l with [] => [] | x :: r' => units_of_sig x ++ tl r' end) g ++ tg r)
         end%list) groups
  end.
Fixpoint enums_of_sig (s : sig) : list sigenum :=
  match s with
  | SStd _ _ _ _ _ => []
  | SEnum _ _ _ _ en => [en]
  | SMux _ _ _ _ _ groups =>
      (fix tg (gs : list (list sig)) : list sigenum :=
         match gs with
         | [] => []
         | g :: r => ((fix tl (l : list sig) : list sigenum :=
                         match l with [] => [] | x :: r' => enums_of_sig x ++ tl r' end) g ++ tg r)
         end%list) groups
  end.

Definition msgs_of_net (n : net) : list msg := flat_map n_msgs (flat_map b_nifs (nt_buses n)).
Definition sigs_of_net (n : net) : list sig := flat_map m_sigs (msgs_of_net n).
Definition all_types (n : net) : list sigtype := flat_map types_of_sig (sigs_of_net n).
Definition all_units (n : net) : list sigunit := flat_map units_of_sig (sigs_of_net n).
Definition all_enums (n : net) : list sigenum := flat_map enums_of_sig (sigs_of_net n).

(* addOrderedRef: keep the first entity seen for every id, in order of first insertion *)
Fixpoint dedup {A} (id : A -> N) (seen : list N) (l : list A) : list A :=
  match l with
  | [] => []
  | x :: r => if existsb (N.eqb (id x)) seen then dedup id seen r
              else x :: dedup id (id x :: seen) r
  end.

(* slices.SortStableFunc: stable insertion sort *)
Fixpoint insert {A} (leb : A -> A -> bool) (x : A) (l : list A) : list A :=
  match l with
  | [] => [x]
  | y :: r => if leb x y then x :: l else y :: insert leb x r
  end.
Fixpoint isort {A} (leb : A -> A -> bool) (l : list A) : list A :=
  match l with [] => [] | x :: r => insert leb x (isort leb r) end.

Definition types_listed (n : net) : list sigtype :=
  isort (fun a b => st_size a <=? st_size b) (dedup st_id [] (all_types n)).
Definition units_listed (n : net) : list sigunit :=
  isort (fun a b => String.leb (su_name a) (su_name b)) (dedup su_id [] (all_units n)).
Definition enums_listed (n : net) : list sigenum :=
  isort (fun a b => String.leb (se_name a) (se_name b)) (dedup se_id [] (all_enums n)).

(* ---------------------------------------------------------------- the document *)

Definition desc_blocks (desc : string) : list block :=
  if String.eqb desc "" then [] else [Para (esc_par desc); LF; Rule].

Definition dec_hex_line (label : string) (v : Z) : string :=
  label ++ ": " ++ bold (dec v) ++ " (dec), " ++ bold ("0x" ++ hexs v) ++ " (hex)".

Definition msg_blocks (m : msg) : list block :=
  ([Rule; H 4 (esc_heading (m_name m))]
   ++ desc_blocks (m_desc m)
   ++ [Para (dec_hex_line ("CAN-ID " ++ (if m_static m then "(static)" else "(generated)")) (m_canid m)); LF]
   ++ (if m_static m then [] else [Para (dec_hex_line "Message ID" (m_id m)); LF])
   ++ [Para ("Size: " ++ bold (dec (m_size m)) ++ " bytes"); LF;
       Para ("Byte Order: " ++ bold (m_byteorder m)); LF;
       Para ("Cycle Time: " ++ (if 0 <? m_cycle m then bold (dec (m_cycle m)) ++ " ms" else "-")); LF;
       Para ("Receivers: " ++ join ", " (map header_link (m_receivers m))); LF]
   ++ match m_sigs m with
      | [] => []
      | _ => [mk_table sig_header (rows_sigs 0 (m_sigs m))]
      end)%list.

Definition nif_blocks (x : nif) : list block :=
  ([Rule; H 3 (esc_heading (n_name x))]
   ++ desc_blocks (n_desc x)
   ++ [Para (dec_hex_line "Node ID" (n_id x)); LF]
   ++ flat_map msg_blocks (n_msgs x))%list.

Definition bus_blocks (b : bus) : list block :=
  ([H 2 (esc_heading (b_name b))]
   ++ desc_blocks (b_desc b)
   ++ [Para ("Baudrate: " ++ (if b_baud b =? 0 then "-" else bold (dec (b_baud b))) ++ " bps"); LF]
   ++ flat_map nif_blocks (b_nifs b))%list.

Definition tab : string := String (ascii_of_nat 9) "".

Definition toc_blocks (n : net) : list block :=
  (flat_map (fun b =>
      Bullet (header_link (b_name b))
      :: flat_map (fun x =>
           Para (tab ++ "- " ++ header_link (n_name x))
           :: map (fun m => Para (tab ++ tab ++ "- " ++ header_link (m_name m))) (n_msgs x))
         (b_nifs b)) (nt_buses n)
   ++ [Bullet (header_link "Signal Types"); Bullet (header_link "Signal Units");
       Bullet (header_link "Signal Enums")])%list.

Definition type_header : list string :=
  ["Name"; "Size"; "Kind"; "Signed"; "Min"; "Max"; "Scale"; "Offset"; "Description"].
Definition type_row (t : sigtype) : list string :=
  [ st_name t; dec (st_size t); code (st_kind t); code (if st_signed t then "true" else "false");
    st_min t; st_max t; st_scale t; st_offset t; or_dash (st_desc t) ].
Definition unit_header : list string := ["Name"; "Kind"; "Symbol"; "Description"].
Definition unit_row (u : sigunit) : list string :=
  [ su_name u; su_kind u; su_symbol u; or_dash (su_desc u) ].
Definition value_header : list string := ["Name"; "Index"; "Description"].
Definition value_row (v : enumval) : list string :=
  [ ev_name v; dec (ev_index v); or_dash (ev_desc v) ].

Definition enum_blocks (e : sigenum) : list block :=
  ([Rule; H 4 (esc_heading (se_name e))] ++ desc_blocks (se_desc e)
   ++ [mk_table value_header (map value_row (se_values e))])%list.

Definition appendix_blocks (n : net) : list block :=
  ([H 2 "Signal Types"; Para "The list of all the signal types used in the network."; LF;
    mk_table type_header (map type_row (types_listed n));
    H 2 "Signal Units"; Para "The list of all the signal units used in the network."; LF;
    mk_table unit_header (map unit_row (units_listed n));
    H 2 "Signal Enums"; Para "The list of all the signal enums used in the network."; LF]
   ++ flat_map enum_blocks (enums_listed n))%list.

Definition preamble_blocks (n : net) : list block :=
  ([Para "> [!IMPORTANT]  ";
    Para "> This markdown document is generated by [acmelib](https://github.com/squadracorsepolito/acmelib)";
    LF; H 1 (esc_heading (nt_name n))]
   ++ desc_blocks (nt_desc n))%list.

Definition blocks (n : net) : list block :=
  (preamble_blocks n ++ toc_blocks n ++ flat_map bus_blocks (nt_buses n) ++ appendix_blocks n)%list.

(* md.CustomTable records ErrMismatchColumn when a row's width differs from the header's;
   Build returns that error. *)
Definition table_ok (b : block) : bool :=
  match b with
  | Table h rows => forallb (fun r => Nat.eqb (List.length r) (List.length h)) rows
  | _ => true
  end.

Definition md (n : net) : result (list block) :=
  let bs := blocks n in if forallb table_ok bs then Ok bs else Err.

(* String() renderings: modelled only as total (DESIGN section 4, C16). *)
