(* Boolean comparison used by the thorough tier's vm_compute cross-check (DESIGN 3.3): a sample of
   the generated cases and their OBSERVED outputs is written as Coq terms and the model is
   evaluated inside Coq, which takes extraction and the OCaml compiler out of the trusted base for
   that sample. *)
From Coq Require Import ZArith List String Bool.
From Acme.C16 Require Import Model ModelStr.
Import ListNotations.

Fixpoint list_eqb {A} (eqb : A -> A -> bool) (l1 l2 : list A) : bool :=
  match l1, l2 with
  | [], [] => true
  | x :: r1, y :: r2 => andb (eqb x y) (list_eqb eqb r1 r2)
  | _, _ => false
  end.
Definition block_eqb (a b : block) : bool :=
  match a, b with
  | H n s, H m t => andb (Nat.eqb n m) (String.eqb s t)
  | Para s, Para t => String.eqb s t
  | Bullet s, Bullet t => String.eqb s t
  | Rule, Rule => true
  | LF, LF => true
  | Table h r, Table h' r' => andb (list_eqb String.eqb h h') (list_eqb (list_eqb String.eqb) r r')
  | _, _ => false
  end.
Definition check_md (n : net) (obs : list block) : bool :=
  match md n with Ok bs => list_eqb block_eqb bs obs | Err => false end.
Definition check_string (n : snet) (obs : string) : bool := String.eqb (net_string n) obs.
