(* C16 — executable model of the String() renderings (stringify methods of entity.go, network.go,
   bus.go, canid_builder.go, node.go, node_iterface.go, message.go, signal.go, mux_signal.go,
   signal_type.go, signal_unit.go, signal_enum.go).  A rendering is a list of LINES (every
   WriteString of the Go code ends a line; WriteRune('\n') after a child is an empty line);
   [render] joins them.  Indentation is [tabs n] (helpers.go getTabString).  Structural recursion
   over the tree: the renderings are total by construction.
   Opaque input text: entity ids, creation times (RFC 3339), %g float text.  Attribute String()
   (it lists References() in map order) is not modelled. *)
From Coq Require Import ZArith List String Ascii Bool.
From Acme.C16 Require Import Model.
Import ListNotations.
Local Open Scope string_scope.
Local Open Scope Z_scope.
Local Open Scope list_scope.
Infix "^^" := String.append (right associativity, at level 60).

Fixpoint tabs (n : nat) : string :=
  match n with O => "" | S k => String (ascii_of_nat 9) (tabs k) end.

Definition quote (s : string) : string := """" ^^ s ^^ """".

Record sentity := { e_id : string; e_kind : string; e_name : string; e_desc : string; e_time : string }.

(* entity.stringify *)
Definition entity_lines (t : nat) (e : sentity) : list string :=
  ([tabs t ^^ "entity_id: " ^^ e_id e ^^ "; entity_kind: " ^^ e_kind e;
    tabs t ^^ "name: " ^^ e_name e]
   ++ (if String.eqb (e_desc e) "" then [] else [tabs t ^^ "desc: " ^^ e_desc e])
   ++ [tabs t ^^ "create_time: " ^^ e_time e]).

Definition refcount_lines (t : nat) (rc : Z) : list string :=
  if 0 <? rc then [tabs t ^^ "reference_count: " ^^ dec rc] else [].

Record stype := { ty_ent : sentity; ty_kind : string; ty_size : Z; ty_signed : bool; ty_min : string;
                  ty_max : string; ty_scale : string; ty_offset : string; ty_refs : Z }.
Definition type_lines (t : nat) (x : stype) : list string :=
  (entity_lines t (ty_ent x)
   ++ [tabs t ^^ "kind: " ^^ ty_kind x;
       tabs t ^^ "size: " ^^ dec (ty_size x) ^^ "; signed: " ^^ (if ty_signed x then "true" else "false")
         ^^ "; min: " ^^ ty_min x ^^ "; max: " ^^ ty_max x ^^ "; scale: " ^^ ty_scale x
         ^^ "; offset: " ^^ ty_offset x]
   ++ refcount_lines t (ty_refs x)).

Record sunit := { un_ent : sentity; un_kind : string; un_symbol : string; un_refs : Z }.
Definition unit_lines (t : nat) (x : sunit) : list string :=
  (entity_lines t (un_ent x)
   ++ [tabs t ^^ "kind: " ^^ un_kind x; tabs t ^^ "symbol: " ^^ un_symbol x]
   ++ refcount_lines t (un_refs x)).

Record sval := { va_ent : sentity; va_index : Z }.
Definition value_lines (t : nat) (x : sval) : list string :=
  (entity_lines t (va_ent x) ++ [tabs t ^^ "index: " ^^ dec (va_index x)]).

Record senum := { en_ent : sentity; en_maxindex : Z; en_values : list sval; en_refs : Z }.
Definition enum_lines (t : nat) (x : senum) : list string :=
  (entity_lines t (en_ent x)
   ++ [tabs t ^^ "max_index: " ^^ dec (en_maxindex x)]
   ++ match en_values x with
      | [] => []
      | _ => [tabs t ^^ "values:"]
             ++ flat_map (fun v => value_lines (S t) v ++ [""]) (en_values x)
             ++ refcount_lines t (en_refs x)
      end).

(* signals *)
Record ssigbase := { sb_ent : sentity; sb_kind : string; sb_sendtype : option string; sb_start : Z;
                     sb_size : Z }.
Inductive ssig :=
| StrStd (b : ssigbase) (ty : stype) (un : option sunit)
| StrEnum (b : ssigbase) (en : senum)
| StrMux (b : ssigbase) (has_signals : bool) (groups : list (list ssig)).

Definition ssig_base (s : ssig) : ssigbase :=
  match s with StrStd b _ _ => b | StrEnum b _ => b | StrMux b _ _ => b end.

(* signal.stringify followed by the "size:" text every kind appends to the start_pos line *)
Definition sigbase_lines (t : nat) (b : ssigbase) : list string :=
  (entity_lines t (sb_ent b)
   ++ [tabs t ^^ "kind: " ^^ sb_kind b]
   ++ match sb_sendtype b with Some st => [tabs t ^^ "send_type: " ^^ quote st] | None => [] end
   ++ [tabs t ^^ "start_pos: " ^^ dec (sb_start b) ^^ "; size: " ^^ dec (sb_size b)]).

Fixpoint sig_lines (t : nat) (s : ssig) : list string :=
  match s with
  | StrStd b ty un =>
      (sigbase_lines t b ++ [tabs t ^^ "type:"] ++ type_lines (S t) ty
       ++ match un with Some u => (tabs t ^^ "unit:") :: unit_lines (S t) u | None => [] end)
  | StrEnum b en => (sigbase_lines t b ++ [tabs t ^^ "enum:"] ++ enum_lines (S t) en)
  | StrMux b has groups =>
      (sigbase_lines t b
       ++ if has then
            (fix gl (gid : Z) (gs : list (list ssig)) : list string :=
               match gs with
               | [] => []
               | g :: r =>
                   ([tabs t ^^ "group id: " ^^ dec gid; tabs t ^^ "multiplexed signals:"]
                    ++ (fix sl (l : list ssig) : list string :=
                          match l with
                          | [] => []
                          | x :: r' => sig_lines (S t) x ++ [""] ++ sl r'
                          end) g
                    ++ gl (gid + 1) r)
               end) 0 groups
          else [])
  end.

Record srecv := { rc_name : string; rc_nodeid : Z; rc_eid : string }.
Record smsg := { mg_ent : sentity; mg_id : Z; mg_priority : Z; mg_size : Z; mg_cycle : Z; mg_delay : Z;
                 mg_startdelay : Z; mg_sendtype : option string; mg_recv : list srecv;
                 mg_sigs : list ssig }.
Definition msg_lines (t : nat) (m : smsg) : list string :=
  (entity_lines t (mg_ent m)
   ++ (if mg_id m =? 0 then [] else [tabs t ^^ "message_id: " ^^ dec (mg_id m)])
   ++ [tabs t ^^ "priority: " ^^ dec (mg_priority m) ^^ " (very_high=0; low=3)";
       tabs t ^^ "size: " ^^ dec (mg_size m) ^^ " bytes"]
   ++ (if mg_cycle m =? 0 then [] else [tabs t ^^ "cycle_time: " ^^ dec (mg_cycle m) ^^ " ms"])
   ++ (if mg_delay m =? 0 then [] else [tabs t ^^ "delay_time: " ^^ dec (mg_delay m) ^^ " ms"])
   ++ (if mg_startdelay m =? 0 then [] else [tabs t ^^ "start_delay_time: " ^^ dec (mg_startdelay m) ^^ " ms"])
   ++ match mg_sendtype m with Some st => [tabs t ^^ "send_type: " ^^ quote st] | None => [] end
   ++ match mg_recv m with
      | [] => []
      | _ => (tabs t ^^ "receivers:")
             :: map (fun r => tabs (S t) ^^ "name: " ^^ rc_name r ^^ "; node_id: " ^^ dec (rc_nodeid r)
                              ^^ "; entity_id: " ^^ rc_eid r) (mg_recv m)
      end
   ++ match mg_sigs m with
      | [] => []
      | _ => (tabs t ^^ "signals:") :: flat_map (fun s => sig_lines (S t) s ++ [""]) (mg_sigs m)
      end).

Record snode := { nd_ent : sentity; nd_nodeid : Z }.
Definition node_lines (t : nat) (n : snode) : list string :=
  (entity_lines t (nd_ent n) ++ [tabs t ^^ "node_id: " ^^ dec (nd_nodeid n)]).

Record snif := { ni_number : Z; ni_node : snode; ni_sent : list smsg; ni_received : list smsg }.
Definition nif_lines (t : nat) (x : snif) : list string :=
  ([tabs t ^^ "number: " ^^ dec (ni_number x); tabs t ^^ "node:"]
   ++ node_lines (S t) (ni_node x)
   ++ match ni_sent x with
      | [] => []
      | _ => (tabs t ^^ "sent_messages:") :: flat_map (fun m => msg_lines (S t) m ++ [""]) (ni_sent x)
             ++ (tabs t ^^ "received_messages:") :: flat_map (fun m => msg_lines (S t) m ++ [""]) (ni_received x)
      end).

Record sop := { op_kind : string; op_from : Z; op_len : Z }.
Record sbuilder := { bd_ent : sentity; bd_ops : list sop; bd_refs : Z }.
Definition builder_lines (t : nat) (b : sbuilder) : list string :=
  (entity_lines t (bd_ent b)
   ++ [tabs t ^^ "operations:"]
   ++ flat_map (fun o => [tabs (S t) ^^ "kind: " ^^ op_kind o;
                          tabs (S t) ^^ "from: " ^^ dec (op_from o) ^^ "; len: " ^^ dec (op_len o)]) (bd_ops b)
   ++ refcount_lines t (bd_refs b)).

Record sbus := { bs_ent : sentity; bs_baud : Z; bs_builder : sbuilder; bs_nifs : list snif }.
Definition bus_lines (t : nat) (b : sbus) : list string :=
  (entity_lines t (bs_ent b)
   ++ [tabs t ^^ "baudrate: " ^^ dec (bs_baud b)]
   ++ builder_lines t (bs_builder b)
   ++ match bs_nifs b with
      | [] => []
      | _ => (tabs t ^^ "attached_node_interfaces:") :: flat_map (fun x => nif_lines (S t) x ++ [""]) (bs_nifs b)
      end).

Record snet := { nw_ent : sentity; nw_buses : list sbus }.
Definition net_lines (n : snet) : list string :=
  (entity_lines 0 (nw_ent n)
   ++ match nw_buses n with
      | [] => []
      | _ => "buses:" :: flat_map (fun b => bus_lines 1 b ++ [""]) (nw_buses n)
      end).

Definition newline : string := String (ascii_of_nat 10) "".
Definition render (ls : list string) : string := String.concat "" (map (fun l => l ^^ newline) ls).

(* the String() methods *)
Definition net_string (n : snet) : string := render (net_lines n).
Definition bus_string (b : sbus) : string := render (bus_lines 0 b).
Definition nif_string (x : snif) : string := render (nif_lines 0 x).
Definition node_string (x : snode) : string := render (node_lines 0 x).
Definition msg_string (m : smsg) : string := render (msg_lines 0 m).
Definition sig_string (s : ssig) : string := render (sig_lines 0 s).
Definition type_string (x : stype) : string := render (type_lines 0 x).
Definition unit_string (x : sunit) : string := render (unit_lines 0 x).
Definition enum_string (x : senum) : string := render (enum_lines 0 x).
Definition value_string (x : sval) : string := render (value_lines 0 x).
Definition builder_string (x : sbuilder) : string := render (builder_lines 0 x).
